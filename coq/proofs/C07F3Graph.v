(* C07F3Graph.v -- family F3 of C07 (several named parameters of one type, all
   produced by one type-only converter): exact characterisation (vertices,
   edges, payloads) of the call graph and of its pruning.  Generalises the
   section Family of C07AffinityGraph.v from one parameter to a list [pns] of
   parameter names.  Helper of C07F3.v *)
From ArgMapper Require Import Base Graph GraphAlg GraphSpec Types Args Resolver ResolverSpec GenWeights.
From ArgMapper.proofs Require Import C18DijkstraLemmas C19RefineMap C19RefineGraph C0213UnsatGraph
     C0213UnsatClosure C0213UnsatBuild C0213UnsatPrune C18Dijkstra C06TotalDijkstra
     C07AffinityOps C07AffinityDiscount C07AffinityDijkstra C0213UnsatPlan C0213UnsatReach C07AffinityGraph.
From Coq Require Import List Lia ZArith String.
Import ListNotations.
Set Implicit Arguments.
Local Open Scope Z_scope.

Lemma flat_map_map {A B C} (h : A -> B) (k : B -> list C) (l : list A) :
  flat_map k (map h l) = flat_map (fun x => k (h x)) l.
Proof. induction l as [|x l IH]; simpl; [reflexivity|]. rewrite IH. reflexivity. Qed.

Lemma flat_map_ext_in {A B} (h k : A -> list B) (l : list A) :
  (forall x, In x l -> h x = k x) -> flat_map h l = flat_map k l.
Proof.
  induction l as [|x l IH]; intros E; simpl; [reflexivity|].
  rewrite (E x (or_introl eq_refl)), IH; [reflexivity|]. intros y I. apply E. right. exact I.
Qed.

(* everything the proofs use about a member of the family *)
Record f3h (u : universe) (T U : ty) (f c : fdecl) (pns : list string)
           (named : list (string * value)) (bd : builder) : Prop := mkF3H {
  h_TU : T <> U;
  h_f : fn_in f = map (fun n => mkF n U EmptyString) pns;
  h_pE : forall n, In n pns -> String.eqb n EmptyString = false;
  h_p0 : exists n0, In n0 pns;
  h_pin : forall n, In n pns -> In n (map fst named);
  h_pnd : NoDup pns;
  h_ci : fn_in c = [mkF EmptyString T EmptyString];
  h_co : fn_out c = [mkF EmptyString U EmptyString];
  h_cty : fn_type c <> fn_type f;
  h_cid : fn_id c <> fn_id f;
  h_conce : fn_once c = false;
  h_fonce : fn_once f = false;
  h_nm : forall m v, In (m, v) named -> String.eqb m EmptyString = false /\ v_ty v = T;
  h_iT : is_iface u T = false;
  h_iU : is_iface u U = false;
  h_b1 : b_named bd = named;
  h_b2 : b_namedsub bd = [];
  h_b3 : b_typed bd = [];
  h_b4 : b_typedsub bd = [];
  h_b5 : b_convs bd = [c];
  h_b6 : b_gens bd = [];
  h_nd : NoDup (map fst named);
  h_len : (List.length named <= 999)%nat;
  h_plen : (List.length pns <= 999)%nat }.

Section F3.
  Variables (u : universe) (T U : ty) (f c : fdecl) (pns : list string)
            (named : list (string * value)) (bd : builder).
  Hypothesis H3 : f3h u T U f c pns named bd.
  Local Notation HTU := (h_TU H3).
  Local Notation Hf := (h_f H3).
  Local Notation HpE := (h_pE H3).
  Local Notation Hp0 := (h_p0 H3).
  Local Notation Hpin := (h_pin H3).
  Local Notation Hci := (h_ci H3).
  Local Notation Hco := (h_co H3).
  Local Notation Hcty := (h_cty H3).
  Local Notation Hnm := (h_nm H3).
  Local Notation HiT := (h_iT H3).
  Local Notation HiU := (h_iU H3).
  Local Notation Hb1 := (h_b1 H3).
  Local Notation Hb2 := (h_b2 H3).
  Local Notation Hb3 := (h_b3 H3).
  Local Notation Hb4 := (h_b4 H3).
  Local Notation Hb5 := (h_b5 H3).
  Local Notation Hb6 := (h_b6 H3).
  Local Notation Hnd := (h_nd H3).
  Local Notation Hlen := (h_len H3).
  Local Notation Hplen := (h_plen H3).

  Definition vNU (n : string) : vkey := KVal n U EmptyString.
  Definition vNT (m : string) : vkey := KVal m T EmptyString.
  Definition vAT : vkey := KArg T EmptyString.
  Definition vOT : vkey := KOut T EmptyString.
  Definition vAU : vkey := KArg U EmptyString.
  Definition vOU : vkey := KOut U EmptyString.
  Definition vfk : vkey := KFunc (fn_type f).
  Definition vCS : vkey := KFunc (fn_type c).
  Definition ins3 : list (vkey * value) := map (fun kv => (KVal (fst kv) T EmptyString, snd kv)) named.

  Lemma fops_target3 :
    fops f false = OF vfk (PFunc f) :: flat_map (fun n => [OV (vNU n); OE vfk (vNU n) w_normal]) pns.
  Proof.
    unfold fops. rewrite Hf.
    assert (E1 : match map (fun n => mkF n U EmptyString) pns with
                 | [] => [OE (KFunc (fn_type f)) KRoot w_normal] | _ :: _ => [] end = []).
    { destruct Hp0 as (n0 & I0). destruct pns; [destruct I0|reflexivity]. }
    rewrite E1. cbn [app]. rewrite app_nil_r. rewrite flat_map_map. f_equal.
    apply flat_map_ext_in. intros n I. unfold field_key. cbn [f_name f_ty f_sub]. rewrite (HpE n I). reflexivity.
  Qed.

  Lemma fops_conv3 :
    fops c true = [OF vCS (PFunc c); OV vAT; OE vCS vAT w_typed; OV vOU; OE vOU vCS w_typed].
  Proof.
    unfold fops. rewrite Hci, Hco. unfold named_entries, typed_entries. cbn. rewrite Z.eqb_refl. cbn. reflexivity.
  Qed.

  (* ---------- the operation lists ---------- *)
  Definition L123c : list op := fops f false ++ ins_ops ins3 ++ flat_map (fun c0 => fops c0 true) [c].
  Definition g3c : rgraph := app_ops L123c g_root.
  Definition L4c : list op := flat_map val_ops (val_keys g3c).
  Definition g5c : rgraph := app_ops L4c g3c.
  Definition L5c : list op := flat_map arg_ops (arg_keys g5c).
  Definition GG3 : rgraph := app_ops L5c g5c.

  Lemma named_p n : In n pns -> exists vn, In (n, vn) named.
  Proof.
    intros I. apply Hpin in I. apply in_map_iff in I. destruct I as ([m v] & E & I). simpl in E. subst m. eauto.
  Qed.

  Lemma in_L123c_OE a b w :
    In (OE a b w) L123c <->
    (exists n, In n pns /\ a = vfk /\ b = vNU n /\ w = w_normal) \/
    (exists m v, In (m, v) named /\ a = vNT m /\ b = KRoot /\ w = w_normal) \/
    (a = vCS /\ b = vAT /\ w = w_typed) \/ (a = vOU /\ b = vCS /\ w = w_typed).
  Proof.
    unfold L123c. rewrite fops_target3. cbn [flat_map]. rewrite app_nil_r, fops_conv3.
    rewrite !in_app_iff. unfold ins_ops. split.
    - intros [H|[H|H]].
      + destruct H as [H|H]; [discriminate|]. apply in_flat_map in H. destruct H as (n & I & H).
        simpl in H. destruct H as [H|[H|[]]]; [discriminate|]. inversion H. left. exists n. auto.
      + apply in_flat_map in H. destruct H as (kv & Ikv & H). unfold ins3 in Ikv. apply in_map_iff in Ikv.
        destruct Ikv as ([m v] & <- & Inv). simpl in H. destruct H as [H|[H|[]]]; try discriminate.
        inversion H. right. left. exists m, v. auto.
      + simpl in H. destruct H as [H|[H|[H|[H|[H|[]]]]]]; try discriminate; inversion H; auto 6.
    - intros [(n & I & -> & -> & ->)|[(m & v & I & -> & -> & ->)|[(-> & -> & ->)|(-> & -> & ->)]]].
      + left. right. apply in_flat_map. exists n. split; [exact I|simpl; auto].
      + right. left. apply in_flat_map. exists (KVal m T EmptyString, v). split; [|simpl; auto].
        unfold ins3. apply in_map_iff. exists (m, v). auto.
      + right. right. simpl. auto.
      + right. right. simpl. auto 6.
  Qed.

  Lemma in_L123c_verts k :
    In k (verts L123c) <->
    k = vfk \/ (exists n, In n pns /\ k = vNU n) \/ (exists m v, In (m, v) named /\ k = vNT m) \/
    k = vCS \/ k = vAT \/ k = vOU.
  Proof.
    unfold L123c. rewrite fops_target3. cbn [flat_map]. rewrite app_nil_r, fops_conv3.
    rewrite !in_verts_app. unfold ins_ops.
    change (verts (OF vfk (PFunc f) :: flat_map (fun n => [OV (vNU n); OE vfk (vNU n) w_normal]) pns))
      with (vfk :: verts (flat_map (fun n => [OV (vNU n); OE vfk (vNU n) w_normal]) pns)).
    cbn [In]. rewrite !in_verts_flat_map. split.
    - intros [H|[H|H]].
      + destruct H as [H|H]; [left; auto|]. destruct H as (n & I & H). simpl in H. destruct H as [H|[]].
        right. left. exists n. auto.
      + destruct H as (kv & Ikv & H). unfold ins3 in Ikv. apply in_map_iff in Ikv.
        destruct Ikv as ([m v] & <- & Inv). simpl in H. destruct H as [H|[]].
        right. right. left. exists m, v. auto.
      + simpl in H. destruct H as [H|[H|[H|[]]]]; auto 8.
    - intros [->|[(n & I & ->)|[(m & v & I & ->)|[->|[->| ->]]]]].
      + left. left. reflexivity.
      + left. right. exists n. split; [exact I|simpl; auto].
      + right. left. exists (KVal m T EmptyString, v). split; [|simpl; auto].
        unfold ins3. apply in_map_iff. exists (m, v). auto.
      + right. right. simpl. auto.
      + right. right. simpl. auto.
      + right. right. simpl. auto.
  Qed.

  Lemma g3c_wf : wf_graph g3c.
  Proof. apply (app_ops_spec L123c g_root_wf). Qed.

  Lemma g3c_present k : present g3c k = true <-> k = KRoot \/ In k (verts L123c).
  Proof. unfold g3c. rewrite (present_iff L123c k g_root_wf), g_root_present. reflexivity. Qed.

  Lemma g3c_val m t s :
    present g3c (KVal m t s) = true <->
    (In m pns /\ t = U /\ s = EmptyString) \/ (exists v, In (m, v) named /\ t = T /\ s = EmptyString).
  Proof.
    rewrite g3c_present, in_L123c_verts. split.
    - intros [H|[H|[(n & I & H)|[(m0 & v & I & H)|[H|[H|H]]]]]]; try discriminate.
      + inversion H; subst. left. auto.
      + inversion H; subst. right. eauto.
    - intros [(I & -> & ->)|(v & I & -> & ->)].
      + right. right. left. exists m. auto.
      + right. right. right. left. exists m, v. auto.
  Qed.

  Lemma in_L4c_OE a b w :
    In (OE a b w) L4c <->
    (exists n, In n pns /\ w = w_typed /\ ((a = vNU n /\ b = vOU) \/ (a = vAU /\ b = vNU n))) \/
    (exists m v, In (m, v) named /\ w = w_typed /\ ((a = vNT m /\ b = vOT) \/ (a = vAT /\ b = vNT m))).
  Proof.
    unfold L4c. rewrite in_flat_map. split.
    - intros (k & Ik & H). apply in_val_keys in Ik. destruct Ik as [(m & t & s & ->) P].
      apply g3c_val in P. destruct P as [(I & -> & ->)|(v & I & -> & ->)].
      + cbn in H. destruct H as [H|[H|[H|[H|[]]]]]; try discriminate; inversion H; left; exists m; auto.
      + cbn in H. destruct H as [H|[H|[H|[H|[]]]]]; try discriminate; inversion H;
          right; exists m, v; auto.
    - intros [(n & I & -> & [(-> & ->)|(-> & ->)])|(m & v & I & -> & [(-> & ->)|(-> & ->)])].
      + exists (vNU n). split; [|cbn; auto]. apply in_val_keys. split; [unfold vNU; eauto|]. apply g3c_val. auto.
      + exists (vNU n). split; [|cbn; auto 6]. apply in_val_keys. split; [unfold vNU; eauto|]. apply g3c_val. auto.
      + exists (vNT m). split; [|cbn; auto]. apply in_val_keys. split; [unfold vNT; eauto|]. apply g3c_val. eauto.
      + exists (vNT m). split; [|cbn; auto 6]. apply in_val_keys. split; [unfold vNT; eauto|]. apply g3c_val. eauto.
  Qed.

  Lemma in_L4c_verts k : In k (verts L4c) <-> k = vOU \/ k = vAU \/ k = vOT \/ k = vAT.
  Proof.
    unfold L4c. rewrite in_verts_flat_map. split.
    - intros (x & Ix & H). apply in_val_keys in Ix. destruct Ix as [(m & t & s & ->) P].
      apply g3c_val in P. destruct P as [(I & -> & ->)|(v & I & -> & ->)].
      + cbn in H. destruct H as [H|[H|[]]]; auto.
      + cbn in H. destruct H as [H|[H|[]]]; auto.
    - destruct Hp0 as (n0 & I0). destruct (named_p n0 I0) as (vn & In').
      assert (P1 : In (vNU n0) (val_keys g3c)).
      { apply in_val_keys. split; [unfold vNU; eauto|]. apply g3c_val. auto. }
      assert (P2 : In (vNT n0) (val_keys g3c)).
      { apply in_val_keys. split; [unfold vNT; eauto|]. apply g3c_val. eauto. }
      intros [->|[->|[->| ->]]].
      + exists (vNU n0). split; [exact P1|cbn; auto].
      + exists (vNU n0). split; [exact P1|cbn; auto].
      + exists (vNT n0). split; [exact P2|cbn; auto].
      + exists (vNT n0). split; [exact P2|cbn; auto].
  Qed.

  Lemma g5c_wf : wf_graph g5c.
  Proof. apply (app_ops_spec L4c g3c_wf). Qed.

  Lemma g5c_present k : present g5c k = true <-> k = KRoot \/ In k (verts L123c) \/ In k (verts L4c).
  Proof. unfold g5c. rewrite (present_iff L4c k g3c_wf), g3c_present. tauto. Qed.

  Lemma g5c_arg t s : present g5c (KArg t s) = true <-> KArg t s = vAT \/ KArg t s = vAU.
  Proof.
    rewrite g5c_present, in_L123c_verts, in_L4c_verts. split.
    - intros [H|[[H|[(n & I & H)|[(m0 & v & I & H)|[H|[H|H]]]]]|[H|[H|[H|H]]]]]; try discriminate; auto.
    - intros [H|H]; right; right; auto.
  Qed.

  Lemma in_L5c_OE a b w :
    In (OE a b w) L5c <-> w = w_typed /\ ((a = vAT /\ b = vOT) \/ (a = vAU /\ b = vOU)).
  Proof.
    unfold L5c. rewrite in_flat_map. split.
    - intros (k & Ik & H). apply in_arg_keys in Ik. destruct Ik as [(t & s & ->) P].
      apply g5c_arg in P. cbn in H. destruct H as [H|[H|[]]]; try discriminate. inversion H; subst.
      split; [reflexivity|]. destruct P as [P|P]; inversion P; subst; auto.
    - intros (-> & [(-> & ->)|(-> & ->)]).
      + exists vAT. split; [|cbn; auto]. apply in_arg_keys. split; [unfold vAT; eauto|]. apply g5c_arg. auto.
      + exists vAU. split; [|cbn; auto]. apply in_arg_keys. split; [unfold vAU; eauto|]. apply g5c_arg. auto.
  Qed.

  Lemma in_L5c_verts k : In k (verts L5c) <-> k = vOT \/ k = vOU.
  Proof.
    unfold L5c. rewrite in_verts_flat_map. split.
    - intros (x & Ix & H). apply in_arg_keys in Ix. destruct Ix as [(t & s & ->) P].
      apply g5c_arg in P. cbn in H. destruct H as [H|[]]. subst k.
      destruct P as [P|P]; inversion P; subst; auto.
    - intros [->| ->].
      + exists vAT. split; [|cbn; auto]. apply in_arg_keys. split; [unfold vAT; eauto|]. apply g5c_arg. auto.
      + exists vAU. split; [|cbn; auto]. apply in_arg_keys. split; [unfold vAU; eauto|]. apply g5c_arg. auto.
  Qed.

  Lemma GG3_wf : wf_graph GG3.
  Proof. apply (app_ops_spec L5c g5c_wf). Qed.

  (* ---------- the full graph: vertices and edges ---------- *)
  Inductive fvert3 : vkey -> Prop :=
  | f3v_root : fvert3 KRoot
  | f3v_f : fvert3 vfk
  | f3v_nu n : In n pns -> fvert3 (vNU n)
  | f3v_in m v : In (m, v) named -> fvert3 (vNT m)
  | f3v_c : fvert3 vCS
  | f3v_at : fvert3 vAT
  | f3v_ot : fvert3 vOT
  | f3v_au : fvert3 vAU
  | f3v_ou : fvert3 vOU.

  Inductive fedge3 : vkey -> vkey -> Z -> Prop :=
  | f3e_target n : In n pns -> fedge3 vfk (vNU n) w_normal
  | f3e_input m v : In (m, v) named -> fedge3 (vNT m) KRoot w_normal
  | f3e_cin : fedge3 vCS vAT w_typed
  | f3e_cout : fedge3 vOU vCS w_typed
  | f3e_nu_ou n : In n pns -> fedge3 (vNU n) vOU w_typed
  | f3e_au_nu n : In n pns -> fedge3 vAU (vNU n) w_typed
  | f3e_in_ot m v : In (m, v) named -> fedge3 (vNT m) vOT w_typed
  | f3e_at_in m v : In (m, v) named -> fedge3 vAT (vNT m) w_typed
  | f3e_at_ot : fedge3 vAT vOT w_typed
  | f3e_au_ou : fedge3 vAU vOU w_typed.

  Definition Ltot3 : list op := L123c ++ L4c ++ L5c.

  Lemma GG3_eq : GG3 = app_ops Ltot3 g_root.
  Proof. unfold GG3, g5c, g3c, Ltot3. rewrite !app_ops_app. reflexivity. Qed.

  Lemma in_Ltot3_OE a b w : In (OE a b w) Ltot3 <-> fedge3 a b w.
  Proof.
    unfold Ltot3. rewrite !in_app_iff, in_L123c_OE, in_L4c_OE, in_L5c_OE. split.
    - intros [[(n & I & -> & -> & ->)|[(m & v & I & -> & -> & ->)|[(-> & -> & ->)|(-> & -> & ->)]]]|
              [[(n & I & -> & [(-> & ->)|(-> & ->)])|(m & v & I & -> & [(-> & ->)|(-> & ->)])]|
               (-> & [(-> & ->)|(-> & ->)])]].
      + constructor; auto.
      + econstructor; eauto.
      + constructor.
      + constructor.
      + constructor; auto.
      + constructor; auto.
      + econstructor; eauto.
      + econstructor; eauto.
      + constructor.
      + constructor.
    - intros H. destruct H as [n I|m v I| | |n I|n I|m v I|m v I| |].
      + left. left. exists n. auto.
      + left. right. left. eauto 8.
      + left. right. right. left. auto.
      + left. right. right. right. auto.
      + right. left. left. exists n. auto 6.
      + right. left. left. exists n. auto 6.
      + right. left. right. exists m, v. auto 6.
      + right. left. right. exists m, v. auto 6.
      + right. right. auto.
      + right. right. auto.
  Qed.

  Lemma GG3_present k : present GG3 k = true <-> fvert3 k.
  Proof.
    unfold GG3. rewrite (present_iff L5c k g5c_wf), g5c_present, in_L123c_verts, in_L4c_verts, in_L5c_verts. split.
    - intros [[->|[[->|[(n & I & ->)|[(m & v & I & ->)|[->|[->| ->]]]]]|[->|[->|[->| ->]]]]]|[->| ->]];
        try (constructor; fail).
      + constructor; auto.
      + econstructor; eauto.
    - intros H. destruct H as [| |n I|m v I| | | | |].
      + left. left. reflexivity.
      + left. right. left. left. reflexivity.
      + left. right. left. right. left. exists n. auto.
      + left. right. left. right. right. left. eauto.
      + left. right. left. right. right. right. auto.
      + left. right. right. auto.
      + left. right. right. auto.
      + left. right. right. auto.
      + left. right. right. auto.
  Qed.

  Lemma fedge3_wt a b w : fedge3 a b w -> w = wt a b.
  Proof. intros H. destruct H; reflexivity. Qed.

  Lemma Ltot3_consistent : consistent Ltot3.
  Proof.
    intros a b w w' I1 I2. apply in_Ltot3_OE in I1. apply in_Ltot3_OE in I2.
    rewrite (fedge3_wt I1), (fedge3_wt I2). reflexivity.
  Qed.

  Lemma Ltot3_wseq : wseq (fun k => present g_root k = true) Ltot3.
  Proof.
    assert (R : present g_root KRoot = true) by (apply g_root_present; reflexivity).
    unfold Ltot3. apply wseq_app; [unfold L123c; apply wseq_app; [|apply wseq_app]|apply wseq_app].
    - rewrite fops_target3. cbn [wseq op_v].
      apply wseq_flat_map. intros n Q In' PQ. simpl. split; [left; apply PQ; right; left; reflexivity|].
      split; [right; left; reflexivity|exact I].
    - unfold ins_ops. apply wseq_flat_map. intros kv Q Ikv PQ. simpl. split; [auto|]. split; [|exact I].
      left. apply PQ. left. exact R.
    - apply wseq_flat_map. intros c0 Q Ic PQ. destruct Ic as [<-|[]]. rewrite fops_conv3. simpl. auto 12.
    - unfold L4c. apply wseq_flat_map. intros k Q Ik PQ. apply in_val_keys in Ik.
      destruct Ik as [(m & t & s & ->) P].
      assert (Qk : Q (KVal m t s)).
      { apply PQ. apply g3c_present in P. destruct P as [P|P]; [discriminate|]. right. exact P. }
      apply g3c_val in P. assert (s = EmptyString) by (destruct P as [(_ & _ & P)|(v & _ & _ & P)]; auto).
      subst s. cbn. auto 12.
    - unfold L5c. apply wseq_flat_map. intros k Q Ik PQ. apply in_arg_keys in Ik.
      destruct Ik as [(t & s & ->) P].
      assert (Qk : Q (KArg t s)).
      { apply PQ. apply g5c_present in P. destruct P as [P|[P|P]]; [discriminate|left; right; exact P|right; exact P]. }
      cbn. auto 8.
  Qed.

  Lemma GG3_edges a b w : ew GG3 a b = Some w <-> fedge3 a b w.
  Proof.
    rewrite GG3_eq, <- in_Ltot3_OE.
    apply app_ops_edges; [exact g_root_wf|exact g_root_noedge|exact Ltot3_wseq|exact Ltot3_consistent].
  Qed.

  (* ---------- payloads ---------- *)
  Lemma Ltot3_OF k p : In (OF k p) Ltot3 -> (k = vfk /\ p = PFunc f) \/ (k = vCS /\ p = PFunc c).
  Proof.
    unfold Ltot3, L123c, L4c, L5c. rewrite !in_app_iff. intros [[H|[H|H]]|[H|H]].
    - left. eapply fops_OF; eauto.
    - exfalso; eapply ins_ops_OF; eauto.
    - apply in_flat_map in H. destruct H as (c0 & Ic & H). destruct Ic as [<-|[]]. right.
      eapply fops_OF; eauto.
    - exfalso; eapply val_ops_OF; eauto.
    - exfalso; eapply arg_ops_OF; eauto.
  Qed.

  Lemma Ltot3_nf k : In (OV k) Ltot3 \/ In (OW k) Ltot3 -> is_func k = false.
  Proof.
    unfold Ltot3, L123c, L4c, L5c. rewrite !in_app_iff.
    intros H.
    assert (C : (In (OV k) (fops f false) \/ In (OW k) (fops f false)) \/
                (In (OV k) (ins_ops ins3) \/ In (OW k) (ins_ops ins3)) \/
                (In (OV k) (flat_map (fun c0 => fops c0 true) [c]) \/ In (OW k) (flat_map (fun c0 => fops c0 true) [c])) \/
                (In (OV k) (flat_map val_ops (val_keys g3c)) \/ In (OW k) (flat_map val_ops (val_keys g3c))) \/
                (In (OV k) (flat_map arg_ops (arg_keys g5c)) \/ In (OW k) (flat_map arg_ops (arg_keys g5c)))) by tauto.
    clear H. destruct C as [C|[C|[C|[C|C]]]].
    - eapply fops_nf; eauto.
    - eapply ins_ops_nf; [|exact C]. intros kv I. unfold ins3 in I. apply in_map_iff in I.
      destruct I as (nv & <- & _). reflexivity.
    - destruct C as [C|C]; apply in_flat_map in C; destruct C as (c0 & _ & C); eapply fops_nf; eauto.
    - eapply val_ops_nf; eauto.
    - eapply arg_ops_nf; eauto.
  Qed.

  Lemma GG3_pay ft0 : fvert3 (KFunc ft0) -> exists p, vtx GG3 (KFunc ft0) = Some p /\
    ((ft0 = fn_type f /\ p = PFunc f) \/ (ft0 = fn_type c /\ p = PFunc c)).
  Proof.
    intros V. apply GG3_present in V. unfold present in V.
    destruct (vtx GG3 (KFunc ft0)) as [p|] eqn:Q; [|discriminate]. exists p. split; [reflexivity|].
    rewrite GG3_eq in Q. destruct (@vtx_sound Ltot3 g_root _ _ g_root_wf Q) as [Q1|[Q1|(-> & Q1)]].
    - exfalso. assert (P : present g_root (KFunc ft0) = true) by (unfold present; rewrite Q1; reflexivity).
      apply g_root_present in P. discriminate.
    - destruct (Ltot3_OF Q1) as [(E & ->)|(E & ->)].
      + left. inversion E. auto.
      + right. inversion E. auto.
    - apply Ltot3_nf in Q1. discriminate.
  Qed.

  Lemma GG3_pay_f : vtx GG3 vfk = Some (PFunc f).
  Proof.
    destruct (@GG3_pay (fn_type f) f3v_f) as (p & Q & [(_ & ->)|(E & ->)]); [exact Q|].
    exfalso. apply Hcty. symmetry. exact E.
  Qed.

  Lemma GG3_pay_c : vtx GG3 vCS = Some (PFunc c).
  Proof.
    destruct (@GG3_pay (fn_type c) f3v_c) as (p & Q & [(E & ->)|(_ & ->)]); [|exact Q].
    exfalso. apply Hcty. exact E.
  Qed.

  (* ---------- full_graph computes GG3 ---------- *)

  Lemma input_vertices3 : input_vertices bd = ins3.
  Proof.
    unfold input_vertices. rewrite Hb1, Hb2, Hb3, Hb4. simpl. rewrite app_nil_r.
    unfold ins3. apply map_ext_in. intros [m v] I. simpl. destruct (Hnm m v I) as [_ ->]. reflexivity.
  Qed.

  Definition vals3 : amap vkey value := fold_left (fun m kv => insert (fst kv) (snd kv) m) ins3 [].
  Definition g1c : rgraph := func_graph g_root f false.

  Lemma g3c_eq :
    fold_left (fun g c0 => func_graph g c0 true) [c]
      (fold_left (fun g kv => add_e (g_add_overwrite g (fst kv) PNone) (fst kv) KRoot w_normal) ins3
         (func_graph g_root f false)) = g3c.
  Proof.
    unfold g3c, L123c. rewrite !app_ops_app. rewrite <- func_graph_ops, <- inputs_ops.
    rewrite <- app_ops_flat_map. apply fold_left_ext. intros a c0. apply func_graph_ops.
  Qed.

  Lemma KOut_fvert3 t s : fvert3 (KOut t s) -> KOut t s = vOT \/ KOut t s = vOU.
  Proof. intros H. remember (KOut t s) as k eqn:E. destruct H; try discriminate E; auto. Qed.
  Lemma KArg_fvert3 t s : fvert3 (KArg t s) -> KArg t s = vAT \/ KArg t s = vAU.
  Proof. intros H. remember (KArg t s) as k eqn:E. destruct H; try discriminate E; auto. Qed.
  Lemma KVal_fvert3 m t s : fvert3 (KVal m t s) ->
    (In m pns /\ t = U /\ s = EmptyString) \/ (exists v, In (m, v) named /\ t = T /\ s = EmptyString).
  Proof.
    intros H. remember (KVal m t s) as k eqn:E. destruct H; try discriminate E.
    - inversion E; subst. left. auto.
    - inversion E; subst. right. eauto.
  Qed.

  Lemma steps3_eq valued :
    step_arg_sub (step_named_sub valued (step_ifaces u (step_args (step_values g3c)))) = GG3.
  Proof.
    rewrite step_values_ops. fold L4c. fold g5c. rewrite step_args_ops. fold L5c. fold GG3.
    rewrite step_ifaces_id.
    2:{ intros t s P. apply GG3_present in P. destruct (KOut_fvert3 P) as [Q|Q]; inversion Q; subst; first [apply HiT|apply HiU]. }
    rewrite step_named_sub_id.
    2:{ intros m t s P. apply GG3_present in P. destruct (KVal_fvert3 P) as [(_ & _ & Q)|(v & _ & _ & Q)]; auto. }
    apply step_arg_sub_id.
    - intros t s P. apply GG3_present in P. destruct (KArg_fvert3 P) as [Q|Q]; inversion Q; auto.
    - intros t s P. apply GG3_present in P. destruct (KOut_fvert3 P) as [Q|Q]; inversion Q; auto.
  Qed.

  Definition FG3 (t : tape vkey) : fgraph := mkFG GG3 vals3 vfk (g_out_keys g1c vfk) (map fst ins3) [c] [] t.

  Lemma full_graph3_eq t : full_graph u f bd false t = Ok (inl (FG3 t), []).
  Proof.
    unfold full_graph. cbv zeta. fold g_root. rewrite input_vertices3, Hb5, Hb6. cbn [bind].
    rewrite g3c_eq. unfold run_gens. cbn [fold_left]. rewrite steps3_eq. reflexivity.
  Qed.

  (* ---------- pruning ---------- *)
  Definition pvert3 (k : vkey) : Prop := fvert3 k /\ k <> vOT.

  Lemma GG3_root : vtx GG3 KRoot <> None.
  Proof. apply present_true. apply GG3_present. constructor. Qed.

  Lemma GG3_edge_ne a b w : fedge3 a b w -> ew GG3 a b <> None.
  Proof. intros H. apply GG3_edges in H. rewrite H. discriminate. Qed.

  Lemma vOU_ne_vOT : vOU <> vOT.
  Proof. unfold vOU, vOT. intros X. inversion X. apply HTU. auto. Qed.

  Lemma fedge3_src a b w : fedge3 a b w -> fvert3 a /\ a <> vOT.
  Proof.
    intros H. destruct H; try (split; [econstructor; eauto|discriminate]).
    split; [constructor|apply vOU_ne_vOT].
  Qed.

  Lemma vfk_ne_vCS : vCS <> vfk.
  Proof. intros X. inversion X. apply Hcty. assumption. Qed.

  Lemma keep3_iff k : In k (keepset GG3 vfk) <-> pvert3 k.
  Proof.
    split.
    - revert k. apply (@keep_ind GG3 vfk GG3_wf pvert3).
      + split; [constructor|discriminate].
      + intros a x _ _ E. destruct (ew GG3 x a) as [w|] eqn:Q; [|contradiction E; reflexivity].
        apply GG3_edges in Q. apply (fedge3_src Q).
    - pose proof (@keep_root GG3 vfk GG3_wf GG3_root) as KR.
      pose proof (fun a x => @keep_closed GG3 vfk GG3_wf GG3_root a x) as KC.
      destruct Hp0 as (n0 & I0). destruct (named_p n0 I0) as (vn & In').
      assert (KI : forall m v, In (m, v) named -> In (vNT m) (keepset GG3 vfk)).
      { intros m v I. apply (KC KRoot); [exact KR|discriminate|]. apply (GG3_edge_ne (f3e_input m v I)). }
      assert (KAT : In vAT (keepset GG3 vfk)).
      { apply (KC (vNT n0)); [apply (KI n0 vn In')|discriminate|]. apply (GG3_edge_ne (f3e_at_in n0 vn In')). }
      assert (KCc : In vCS (keepset GG3 vfk)).
      { apply (KC vAT); [exact KAT|discriminate|]. apply (GG3_edge_ne f3e_cin). }
      assert (KOU : In vOU (keepset GG3 vfk)).
      { apply (KC vCS); [exact KCc|apply vfk_ne_vCS|]. apply (GG3_edge_ne f3e_cout). }
      assert (KNU : forall n, In n pns -> In (vNU n) (keepset GG3 vfk)).
      { intros n I. apply (KC vOU); [exact KOU|discriminate|]. apply (GG3_edge_ne (f3e_nu_ou n I)). }
      intros (V & N1). destruct V as [| |n I|m v I| | | | |].
      + exact KR.
      + apply (KC (vNU n0)); [apply KNU; exact I0|discriminate|]. apply (GG3_edge_ne (f3e_target n0 I0)).
      + apply KNU. exact I.
      + apply (KI m v I).
      + exact KCc.
      + exact KAT.
      + contradiction N1; reflexivity.
      + apply (KC (vNU n0)); [apply KNU; exact I0|discriminate|]. apply (GG3_edge_ne (f3e_au_nu n0 I0)).
      + exact KOU.
  Qed.

  Definition PG3 : rgraph := pruned GG3 vfk.

  Lemma PG3_wf : wf_graph PG3.
  Proof. apply (pruned_spec vfk GG3_wf). Qed.

  Lemma PG3_vtx k : pvert3 k -> vtx PG3 k = vtx GG3 k.
  Proof.
    intros P. destruct (pruned_spec vfk GG3_wf) as (_ & Hv & _). unfold PG3. rewrite Hv.
    apply (proj2 (keep3_iff k)) in P. apply membT in P. rewrite P. reflexivity.
  Qed.

  Lemma PG3_edges a b w : ew PG3 a b = Some w <-> fedge3 a b w /\ pvert3 a /\ pvert3 b.
  Proof.
    destruct (pruned_spec vfk GG3_wf) as (_ & _ & He). unfold PG3. rewrite He.
    destruct (memb a (keepset GG3 vfk)) eqn:Ma; destruct (memb b (keepset GG3 vfk)) eqn:Mb; simpl.
    - apply membT in Ma. apply membT in Mb. apply (proj1 (keep3_iff a)) in Ma. apply (proj1 (keep3_iff b)) in Mb.
      rewrite GG3_edges. tauto.
    - split; [discriminate|]. intros (_ & _ & P). apply (proj2 (keep3_iff b)) in P. apply membT in P. congruence.
    - split; [discriminate|]. intros (_ & P & _). apply (proj2 (keep3_iff a)) in P. apply membT in P. congruence.
    - split; [discriminate|]. intros (_ & P & _). apply (proj2 (keep3_iff a)) in P. apply membT in P. congruence.
  Qed.

  Lemma pvert3_NU n : In n pns -> pvert3 (vNU n).
  Proof. intros I. split; [constructor; exact I|discriminate]. Qed.
  Lemma pvert3_root : pvert3 KRoot.
  Proof. split; [constructor|discriminate]. Qed.
  Lemma pvert3_in m v : In (m, v) named -> pvert3 (vNT m).
  Proof. intros I. split; [econstructor; eauto|discriminate]. Qed.
  Lemma pvert3_AT : pvert3 vAT.
  Proof. split; [constructor|discriminate]. Qed.
  Lemma pvert3_AU : pvert3 vAU.
  Proof. split; [constructor|discriminate]. Qed.
  Lemma pvert3_CS : pvert3 vCS.
  Proof. split; [constructor|discriminate]. Qed.
  Lemma pvert3_fk : pvert3 vfk.
  Proof. split; [constructor|discriminate]. Qed.
  Lemma pvert3_OU : pvert3 vOU.
  Proof. split; [constructor|apply vOU_ne_vOT]. Qed.
  Lemma pvert3_OT : ~ pvert3 vOT.
  Proof. intros (_ & N0). apply N0. reflexivity. Qed.

  Lemma g1c_out k : In k (g_out_keys g1c vfk) -> exists n, In n pns /\ k = vNU n.
  Proof.
    intros I. apply in_out_keys in I. unfold g1c in I. rewrite func_graph_ops, fops_target3 in I.
    set (ops := OF vfk (PFunc f) :: flat_map (fun n => [OV (vNU n); OE vfk (vNU n) w_normal]) pns) in *.
    destruct (app_ops_spec ops g_root_wf) as (_ & _ & Hs & _).
    destruct (ew (app_ops ops g_root) vfk k) as [w|] eqn:Q; [|contradiction I; reflexivity].
    destruct (Hs _ _ _ Q) as [Q1|Q1]; [rewrite g_root_noedge in Q1; discriminate|].
    unfold ops in Q1. destruct Q1 as [Q1|Q1]; [discriminate|].
    apply in_flat_map in Q1. destruct Q1 as (n & In' & Q1). simpl in Q1.
    destruct Q1 as [Q1|[Q1|[]]]; [discriminate|]. inversion Q1. exists n. auto.
  Qed.

  Definition CG3 (t : tape vkey) : cgraph := mkCG PG3 vals3 vfk (map fst ins3) [c] [] t.

  Lemma prune3_eq t : prune (FG3 t) = inl (CG3 t).
  Proof.
    rewrite prune_unfold. unfold FG3. cbn [fg_g fg_target fg_freq fg_vals fg_inputs fg_convs fg_trace fg_tape].
    fold PG3.
    assert (E : unsat_of (mkFG GG3 vals3 vfk (g_out_keys g1c vfk) (map fst ins3) [c] [] t) = []).
    { unfold unsat_of. cbn [fg_g fg_target fg_freq]. fold PG3.
      apply filter_none. intros k Ik. apply g1c_out in Ik. destruct Ik as (n & In' & ->).
      apply negb_false_iff. apply mem_vtx. rewrite (PG3_vtx (pvert3_NU n In')). apply present_true.
      apply GG3_present. constructor. exact In'. }
    rewrite E. reflexivity.
  Qed.

  Lemma PG3_vtx_pvert k : vtx PG3 k <> None -> pvert3 k.
  Proof.
    intros N0. destruct (pruned_spec vfk GG3_wf) as (_ & Hv & _). unfold PG3 in N0. rewrite Hv in N0.
    destruct (memb k (keepset GG3 vfk)) eqn:M; [|contradiction N0; reflexivity].
    apply (proj1 (keep3_iff k)). apply membT. exact M.
  Qed.

  Lemma pvert3_vtx k : pvert3 k -> vtx PG3 k <> None.
  Proof.
    intros P. rewrite (PG3_vtx P). apply present_true. apply GG3_present. apply P.
  Qed.

  (* ---------- size ---------- *)

  Definition VL3 : list vkey :=
    [KRoot; vfk; vCS; vAT; vOT; vAU; vOU] ++ map vNU pns ++ map (fun nv => vNT (fst nv)) named.

  Lemma fvert3_VL k : fvert3 k -> In k VL3.
  Proof.
    intros Hk. unfold VL3. destruct Hk as [| |n I|m v I| | | | |]; try (simpl; tauto).
    - apply in_or_app. right. apply in_or_app. left. apply in_map. exact I.
    - apply in_or_app. right. apply in_or_app. right. apply in_map_iff. exists (m, v). auto.
  Qed.

  Lemma PG3_keys_len : (List.length (g_vertex_keys PG3) <= 2005)%nat.
  Proof.
    assert (L : (List.length (g_vertex_keys PG3) <= List.length VL3)%nat).
    { apply NoDup_incl_length; [apply (wf_hash_nodup PG3_wf)|].
      intros k Ik. apply in_vertex_keys in Ik. apply fvert3_VL. apply (proj1 (@PG3_vtx_pvert k Ik)). }
    set (lk := List.length (g_vertex_keys PG3)) in *.
    unfold VL3 in L. rewrite !app_length, !map_length in L. cbn [List.length] in L.
    pose proof Hlen. pose proof Hplen. lia.
  Qed.

  Lemma vNU_ne_vNT n m : vNU n <> vNT m.
  Proof. unfold vNU, vNT. intros X. inversion X. apply HTU. auto. Qed.
  Lemma vAU_ne_vAT : vAU <> vAT.
  Proof. unfold vAU, vAT. intros X. inversion X. apply HTU. auto. Qed.

  Lemma PG3_keys_ge : (7 <= List.length (g_vertex_keys PG3))%nat.
  Proof.
    destruct Hp0 as (n0 & I0). destruct (named_p n0 I0) as (vn & In').
    assert (ND : NoDup [KRoot; vfk; vNU n0; vNT n0; vAT; vCS; vAU]).
    { pose proof (@vNU_ne_vNT n0 n0). pose proof vAU_ne_vAT. pose proof vfk_ne_vCS.
      repeat constructor; simpl; intuition (try discriminate; try congruence). }
    change 7%nat with (List.length [KRoot; vfk; vNU n0; vNT n0; vAT; vCS; vAU]).
    apply NoDup_incl_length; [exact ND|].
    intros k Ik. apply in_vertex_keys. apply pvert3_vtx.
    simpl in Ik. destruct Ik as [<-|[<-|[<-|[<-|[<-|[<-|[<-|[]]]]]]]];
      [apply pvert3_root|apply pvert3_fk|apply (pvert3_NU n0 I0)|apply (pvert3_in n0 vn In')|apply pvert3_AT
      |apply pvert3_CS|apply pvert3_AU].
  Qed.

  (* ---------- neighbourhoods in the pruned graph ---------- *)
  Lemma PG3_out_fk_nodup : NoDup (g_out_keys PG3 vfk).
  Proof.
    unfold g_out_keys, inner. destruct (lookup vfk (gout PG3)) as [i|] eqn:Q; [|constructor].
    apply (wf_inner_out_nodup PG3_wf _ Q).
  Qed.

  Lemma PG3_out_fk x : In x (g_out_keys PG3 vfk) <-> exists n, In n pns /\ x = vNU n.
  Proof.
    rewrite in_out_keys. split.
    - intros N0. destruct (ew PG3 vfk x) as [w|] eqn:Q; [|contradiction N0; reflexivity].
      apply PG3_edges in Q. destruct Q as (Fe & _ & _).
      remember vfk as k eqn:Ek.
      destruct Fe as [n I|m1 v1 I1| | |n I|n I|m1 v1 I1|m1 v1 I1| |]; try discriminate Ek.
      + exists n. auto.
      + exfalso. apply vfk_ne_vCS. exact Ek.
    - intros (n & I & ->). assert (Q : ew PG3 vfk (vNU n) = Some w_normal).
      { apply PG3_edges. split; [constructor; exact I|]. split; [apply pvert3_fk|apply pvert3_NU; exact I]. }
      rewrite Q. discriminate.
  Qed.

  Lemma PG3_out_CS : g_out_keys PG3 vCS = [vAT].
  Proof.
    apply nodup_singleton.
    - unfold g_out_keys, inner. destruct (lookup vCS (gout PG3)) as [i|] eqn:Q; [|constructor].
      apply (wf_inner_out_nodup PG3_wf _ Q).
    - intros x. rewrite in_out_keys. split.
      + intros N0. destruct (ew PG3 vCS x) as [w|] eqn:Q; [|contradiction N0; reflexivity].
        apply PG3_edges in Q. destruct Q as (Fe & _ & _).
        remember vCS as k eqn:Ek.
        destruct Fe as [n I|m1 v1 I1| | |n I|n I|m1 v1 I1|m1 v1 I1| |]; try discriminate Ek; try reflexivity.
        exfalso. apply vfk_ne_vCS. symmetry. exact Ek.
      + intros ->. assert (Q : ew PG3 vCS vAT = Some w_typed).
        { apply PG3_edges. split; [constructor|]. split; [apply pvert3_CS|apply pvert3_AT]. }
        rewrite Q. discriminate.
  Qed.

  Lemma PG3_in_CS : g_in_keys PG3 vCS = [vOU].
  Proof.
    apply nodup_singleton.
    - unfold g_in_keys, inner. destruct (lookup vCS (gin PG3)) as [i|] eqn:Q; [|constructor].
      apply (wf_inner_in_nodup PG3_wf _ Q).
    - intros x. rewrite (in_in_keys x vCS PG3_wf). split.
      + intros N0. destruct (ew PG3 x vCS) as [w|] eqn:Q; [|contradiction N0; reflexivity].
        apply PG3_edges in Q. destruct Q as (Fe & _ & _).
        remember vCS as k eqn:Ek.
        destruct Fe as [n I|m1 v1 I1| | |n I|n I|m1 v1 I1|m1 v1 I1| |]; try discriminate Ek; try reflexivity.
      + intros ->. assert (Q : ew PG3 vOU vCS = Some w_typed).
        { apply PG3_edges. split; [constructor|]. split; [apply pvert3_OU|apply pvert3_CS]. }
        rewrite Q. discriminate.
  Qed.

  Lemma PG3_vertex_CS : g_vertex PG3 vCS = Some (PFunc c).
  Proof.
    change (g_vertex PG3 vCS) with (vtx PG3 vCS). rewrite (PG3_vtx pvert3_CS). apply GG3_pay_c.
  Qed.

  (* ---------- the supplied values ---------- *)
  Lemma ins3_nodup : NoDup (map fst ins3).
  Proof.
    unfold ins3. rewrite map_map. cbn [fst].
    assert (E : map (fun x : string * value => KVal (fst x) T EmptyString) named =
                map (fun m => KVal m T EmptyString) (map fst named)) by (rewrite map_map; reflexivity).
    rewrite E. apply FinFun.Injective_map_NoDup; [|exact Hnd].
    intros x y Q. inversion Q. reflexivity.
  Qed.

  Lemma lookup_ins3_in m : lookup (vNT m) ins3 = lookup m named.
  Proof. unfold ins3, vNT. apply lookup_map_kval. Qed.

  Lemma lookup_ins3_other k v : lookup k ins3 = Some v -> exists m, k = vNT m.
  Proof.
    intros Q. apply lookup_In in Q. unfold ins3 in Q. apply in_map_iff in Q.
    destruct Q as ([m v0] & E & _). inversion E. exists m. reflexivity.
  Qed.

  Lemma vals3_lookup k : lookup k vals3 = lookup k ins3.
  Proof.
    unfold vals3. rewrite (lookup_fold_insert ins3 [] k ins3_nodup). destruct (lookup k ins3); reflexivity.
  Qed.

  Lemma vals3_NU n : lookup (vNU n) vals3 = None.
  Proof.
    rewrite vals3_lookup. destruct (lookup (vNU n) ins3) as [v|] eqn:Q; [|reflexivity].
    exfalso. destruct (lookup_ins3_other _ Q) as (m & E). apply (vNU_ne_vNT E).
  Qed.
  Lemma vals3_NT m : lookup (vNT m) vals3 = lookup m named.
  Proof. rewrite vals3_lookup. apply lookup_ins3_in. Qed.
End F3.

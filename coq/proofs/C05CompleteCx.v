(* C05CompleteCx.v -- counterexamples to C05_statement.

   cx1 (WAS a defect of the Go library; replayed 200/200 on /repo; since
   REPAIRED in /repo and in Resolver.v -- a named value now also takes the
   value of the named value it follows): case (a) of the premise -- every
   converter takes one input; c1 : {a:T3} -> {b:T6} and c2 : {b:T6} -> {a:T3}
   form a 2-cycle.  Both a/T3 and b/T6 are derivable from the supplied
   values through two chains of type-only converters that end in a value WITH
   a subtype (a/T3/"s", b/T6/"s").  Before the repair:
   1. a subtype-less named vertex n/T/"" walked right after n/T/"s" did not
      take its value, so the converter reached next planned its requirement
      again;
   2. that nested plan ran under the matching-name discount of ITS
      requirement (name a), not of the target's (name b); the chains are
      arranged so that under discount b the route to b/T6 through c1 costs
      18 < 22 and under discount a the route to a/T3 through c2 costs 18 < 22;
   3. so the target planned b/T6 through c1, c1 planned a/T3 through c2, and
      c2 planned b/T6 through c1 again, which was in progress: the
      self-dependency check reported "unsatisfied" although the target is
      derivable -- for every order.
   It is kept here as a regression example: on the repaired model the call
   succeeds.

   cx2 (model only, still a counterexample to the statement AS WRITTEN): the
   universe's implements relation is not transitive (T1 implements I2, I2
   implements I3, but T1 does not implement I3); the value travels
   out:T1 -> out:I2 -> out:I3 and is then not assignable to arg:I3: "didn't
   reach a final value".  Go's Implements is transitive, so this is a
   missing well-formedness hypothesis, not a defect. *)
From ArgMapper Require Import Base Graph GraphAlg GraphSpec Types Args Resolver ResolverSpec
     CheckResolver Monitors ResolverStatements.
From Coq Require Import Lia ZArith List String.
Import ListNotations.
Local Open Scope Z_scope.
Local Open Scope string_scope.

Definition dummy_fg : fgraph := mkFG g_empty [] KRoot [] [] [] [] [].
Definition all_ok : behaviour := fun _ _ => BOk.

Lemma all_ok_no_failures : no_failures all_ok.
Proof. intros fid n. exact I. Qed.

(* ---------------- cx1 ---------------- *)
Definition cx1_u := (mkU [] []).
Definition cx1_f := (mkFn 1 100 FStruct [mkF "b" 6 ""] FPos [] false false).
Definition cx1_opts := [ANamed "b" (Some (mkV 1 1)); ANamed "a" (Some (mkV 2 4)); AConvFunc [Some (mkFn 2 101 FPos [mkF "" 1 ""] FStruct [mkF "b" 2 ""] false false); Some (mkFn 3 102 FPos [mkF "" 2 ""] FStruct [mkF "a" 3 "s"] false false); Some (mkFn 4 103 FPos [mkF "" 4 ""] FStruct [mkF "a" 5 ""] false false); Some (mkFn 5 104 FPos [mkF "" 5 ""] FStruct [mkF "b" 6 "s"] false false); Some (mkFn 6 105 FStruct [mkF "a" 3 ""] FStruct [mkF "b" 6 ""] false false); Some (mkFn 7 106 FStruct [mkF "b" 6 ""] FStruct [mkF "a" 3 ""] false false)]].
Definition cx1_tape : tape vkey := [(10%N, [KVal "b" 6 ""]); (1%N, [KRoot]); (1%N, [KVal "b" 1 ""]); (1%N, [KArg 1 ""]); (1%N, [KVal "a" 4 ""]); (1%N, [KFunc 101]); (1%N, [KVal "b" 2 ""]); (1%N, [KArg 2 ""]); (1%N, [KArg 4 ""]); (1%N, [KFunc 102]); (1%N, [KVal "a" 3 "s"]); (1%N, [KFunc 103]); (1%N, [KVal "a" 5 ""]); (1%N, [KArg 3 ""]); (1%N, [KVal "a" 3 ""]); (1%N, [KArg 3 "s"]); (1%N, [KArg 5 ""]); (1%N, [KFunc 105]); (1%N, [KVal "b" 6 ""]); (1%N, [KArg 6 ""]); (1%N, [KFunc 100]); (1%N, [KFunc 106]); (1%N, [KFunc 104]); (1%N, [KVal "b" 6 "s"]); (1%N, [KArg 6 "s"]); (10%N, [KArg 1 ""]); (11%N, [KVal "b" 2 ""]); (10%N, [KArg 2 ""]); (11%N, [KVal "a" 3 "s"]); (10%N, [KVal "a" 3 ""]); (11%N, [KVal "b" 6 ""])].

Definition cx1_b : builder := match build_args [] cx1_opts with Some b => b | None => b0 end.
Definition cx1_fg : fgraph :=
  match full_graph cx1_u cx1_f cx1_b false cx1_tape with Ok (inl fg, _) => fg | _ => dummy_fg end.

Example cx1_build : build_args [] cx1_opts = Some cx1_b.
Proof. vm_compute. reflexivity. Qed.
Example cx1_wf : wf_call cx1_u cx1_f cx1_b = true.
Proof. vm_compute. reflexivity. Qed.
Example cx1_full : full_graph cx1_u cx1_f cx1_b false cx1_tape = Ok (inl cx1_fg, []).
Proof. vm_compute. reflexivity. Qed.
Example cx1_premise : c05_premise cx1_fg [] = true.
Proof. vm_compute. reflexivity. Qed.
(* every converter has a single input; the target is derivable *)
Example cx1_single : single_input_convs cx1_fg = true /\ target_derivable cx1_fg [] = true.
Proof. vm_compute. split; reflexivity. Qed.
(* after the repair the call succeeds (g1, g2, c1 and the target run) *)
Definition dummy_run : run := mkRun (OErr XBuild) [] world0 [] [].
Definition cx1_r : run :=
  match call cx1_u all_ok cx1_f [] cx1_opts world0 cx1_tape with Ok r => r | _ => dummy_run end.
Example cx1_run_ok : call cx1_u all_ok cx1_f [] cx1_opts world0 cx1_tape = Ok cx1_r.
Proof. vm_compute. reflexivity. Qed.
Example cx1_now_succeeds : co_ok (co_of_run cx1_r) = true /\ c05_ok cx1_fg [] (co_of_run cx1_r) = true.
Proof. vm_compute. split; reflexivity. Qed.

(* ---------------- cx2 ---------------- *)
Definition cx2_u := (mkU [2; 3] [(2,2); (3,3); (1,2); (2,3)]).
Definition cx2_f := (mkFn 1 100 FPos [mkF "" 3 ""] FPos [] false false).
Definition cx2_opts := [ATyped [(Some (mkV 1 1))]; AConvFunc [Some (mkFn 2 101 FPos [mkF "" 2 ""] FPos [mkF "" 4 ""] false false)]].
Definition cx2_tape : tape vkey := [(10%N, [KArg 3 ""]); (1%N, [KRoot]); (1%N, [KOut 1 ""]); (1%N, [KOut 2 ""]); (1%N, [KArg 2 ""]); (1%N, [KOut 3 ""]); (1%N, [KArg 3 ""]); (1%N, [KFunc 101]); (1%N, [KFunc 100]); (1%N, [KOut 4 ""])].

Definition cx2_b : builder := match build_args [] cx2_opts with Some b => b | None => b0 end.
Definition cx2_fg : fgraph :=
  match full_graph cx2_u cx2_f cx2_b false cx2_tape with Ok (inl fg, _) => fg | _ => dummy_fg end.

Example cx2_build : build_args [] cx2_opts = Some cx2_b.
Proof. vm_compute. reflexivity. Qed.
Example cx2_wf : wf_call cx2_u cx2_f cx2_b = true.
Proof. vm_compute. reflexivity. Qed.
Example cx2_full : full_graph cx2_u cx2_f cx2_b false cx2_tape = Ok (inl cx2_fg, []).
Proof. vm_compute. reflexivity. Qed.
Example cx2_premise : c05_premise cx2_fg [] = true.
Proof. vm_compute. reflexivity. Qed.
Example cx2_panics : call cx2_u all_ok cx2_f [] cx2_opts world0 cx2_tape = Panic 404%N.
Proof. vm_compute. reflexivity. Qed.
(* T1 implements I2, I2 implements I3, T1 does not implement I3 *)
Example cx2_not_transitive :
  implements cx2_u 1 2 = true /\ implements cx2_u 2 3 = true /\ implements cx2_u 1 3 = false.
Proof. vm_compute. repeat split; reflexivity. Qed.

Lemma cx2_instance : C05_statement ->
    ((exists r, call cx2_u all_ok cx2_f [] cx2_opts world0 cx2_tape = Ok r /\ c05_ok cx2_fg [] (co_of_run r) = true) \/
     (exists s, call cx2_u all_ok cx2_f [] cx2_opts world0 cx2_tape = TapeErr s)) /\
    (no_failures all_ok -> forall r, call cx2_u all_ok cx2_f [] cx2_opts world0 cx2_tape = Ok r -> co_ok (co_of_run r) = true).
Proof.
  intros H.
  exact (H cx2_u all_ok cx2_f [] cx2_opts cx2_b cx2_tape cx2_fg [] cx2_build cx2_wf cx2_full cx2_premise).
Qed.
Lemma cx2_contra :
    ((exists r, call cx2_u all_ok cx2_f [] cx2_opts world0 cx2_tape = Ok r /\ c05_ok cx2_fg [] (co_of_run r) = true) \/
     (exists s, call cx2_u all_ok cx2_f [] cx2_opts world0 cx2_tape = TapeErr s)) -> False.
Proof.
  intros [(r & Qr & _)|(s & Qs)].
  - rewrite cx2_panics in Qr. discriminate Qr.
  - rewrite cx2_panics in Qs. discriminate Qs.
Qed.
Theorem C05_refuted_nontransitive_universe : ~ C05_statement.
Proof. intros H. apply cx2_contra. apply (proj1 (cx2_instance H)). Qed.

Theorem C05_refuted : ~ C05_statement.
Proof. exact C05_refuted_nontransitive_universe. Qed.

Print Assumptions C05_refuted.

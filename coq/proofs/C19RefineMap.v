(* C19RefineMap.v -- helper lemmas on association-list maps and lists
   (lookup / insert / delete / keys / nth / set_nth) used by C19Refine. *)
From ArgMapper Require Import Base Graph.
From Coq Require Import Lia.
Set Implicit Arguments.

Section MapLemmas.
  Context {K : Type} {E : EqDec K} {V : Type}.

  Lemma eqb_sym (x y : K) : eqb x y = eqb y x.
  Proof.
    destruct (eqb_spec x y) as [->|N].
    - symmetry; apply eqb_refl.
    - symmetry; apply eqb_neq; congruence.
  Qed.

  Lemma lookup_insert (k k' : K) (v : V) (m : amap K V) :
    lookup k' (insert k v m) = if eqb k' k then Some v else lookup k' m.
  Proof.
    induction m as [|[k0 v0] m IH]; simpl.
    - reflexivity.
    - destruct (eqb_spec k k0) as [->|N]; simpl.
      + destruct (eqb k' k0); reflexivity.
      + rewrite IH. destruct (eqb_spec k' k0) as [->|N'].
        * destruct (eqb_spec k0 k) as [->|_]; [contradiction N; reflexivity|reflexivity].
        * reflexivity.
  Qed.

  Lemma lookup_delete (k k' : K) (m : amap K V) :
    lookup k' (delete k m) = if eqb k' k then None else lookup k' m.
  Proof.
    induction m as [|[k0 v0] m IH]; simpl.
    - destruct (eqb k' k); reflexivity.
    - destruct (eqb_spec k k0) as [->|N]; simpl.
      + rewrite IH. destruct (eqb k' k0); reflexivity.
      + rewrite IH. destruct (eqb_spec k' k0) as [->|N'].
        * destruct (eqb_spec k0 k) as [->|_]; [contradiction N; reflexivity|reflexivity].
        * reflexivity.
  Qed.

  Lemma in_keys_lookup (k : K) (m : amap K V) :
    In k (keys m) <-> exists v, lookup k m = Some v.
  Proof.
    induction m as [|[k0 v0] m IH]; simpl.
    - split; [intros []|intros [v Hv]; discriminate].
    - destruct (eqb_spec k k0) as [->|N].
      + split; [intros _; eauto|intros _; left; reflexivity].
      + rewrite IH. split.
        * intros [Q|Q]; [congruence|exact Q].
        * intros Q; right; exact Q.
  Qed.

  Lemma not_in_keys_lookup (k : K) (m : amap K V) :
    ~ In k (keys m) <-> lookup k m = None.
  Proof.
    rewrite in_keys_lookup. destruct (lookup k m) as [v|].
    - split; [intros N; exfalso; apply N; eauto|discriminate].
    - split; [reflexivity|intros _ [v Hv]; discriminate].
  Qed.

  Lemma mem_true (k : K) (m : amap K V) : mem k m = true <-> In k (keys m).
  Proof.
    unfold mem. rewrite in_keys_lookup. destruct (lookup k m) as [v|].
    - split; eauto.
    - split; [discriminate|intros [v Hv]; discriminate].
  Qed.

  Lemma mem_false (k : K) (m : amap K V) : mem k m = false <-> lookup k m = None.
  Proof.
    unfold mem. destruct (lookup k m) as [v|]; split; congruence.
  Qed.

  Lemma keys_insert_present (k : K) (v v0 : V) (m : amap K V) :
    lookup k m = Some v0 -> keys (insert k v m) = keys m.
  Proof.
    unfold keys. induction m as [|[k0 v1] m IH]; simpl.
    - discriminate.
    - destruct (eqb_spec k k0) as [->|N]; simpl.
      + reflexivity.
      + intros Q. rewrite IH; auto.
  Qed.

  Lemma keys_insert_absent (k : K) (v : V) (m : amap K V) :
    lookup k m = None -> keys (insert k v m) = keys m ++ [k].
  Proof.
    unfold keys. induction m as [|[k0 v1] m IH]; simpl.
    - reflexivity.
    - destruct (eqb_spec k k0) as [->|N]; simpl.
      + discriminate.
      + intros Q. rewrite IH; auto.
  Qed.

  Lemma in_keys_insert (k k' : K) (v : V) (m : amap K V) :
    In k' (keys (insert k v m)) <-> k' = k \/ In k' (keys m).
  Proof.
    rewrite !in_keys_lookup. rewrite lookup_insert.
    destruct (eqb_spec k' k) as [->|N].
    - split; eauto.
    - split; [intros Q; right; exact Q|intros [Q|Q]; [contradiction|exact Q]].
  Qed.

  Lemma in_keys_delete (k k' : K) (m : amap K V) :
    In k' (keys (delete k m)) <-> k' <> k /\ In k' (keys m).
  Proof.
    rewrite !in_keys_lookup. rewrite lookup_delete.
    destruct (eqb_spec k' k) as [->|N].
    - split; [intros [v Hv]; discriminate|intros [Q _]; contradiction Q; reflexivity].
    - split; [intros Q; split; assumption|intros [_ Q]; exact Q].
  Qed.

  Lemma nodup_keys_insert (k : K) (v : V) (m : amap K V) :
    NoDup (keys m) -> NoDup (keys (insert k v m)).
  Proof.
    intros ND. destruct (lookup k m) as [v0|] eqn:Q.
    - rewrite (@keys_insert_present k v v0 m Q). exact ND.
    - rewrite (@keys_insert_absent k v m Q).
      apply not_in_keys_lookup in Q.
      clear - ND Q. induction (keys m) as [|x l IH]; simpl.
      + constructor; [intros []|constructor].
      + inversion ND as [|x' l' NI ND']; subst.
        constructor.
        * rewrite in_app_iff. intros [I|[I|[]]]; [contradiction|].
          subst. apply Q. left; reflexivity.
        * apply IH; auto. intros I; apply Q; right; exact I.
  Qed.

  Lemma nodup_keys_delete (k : K) (m : amap K V) :
    NoDup (keys m) -> NoDup (keys (delete k m)).
  Proof.
    induction m as [|[k0 v0] m IH]; simpl; intros ND.
    - constructor.
    - inversion ND as [|x' l' NI ND']; subst.
      destruct (eqb_spec k k0) as [->|N].
      + apply IH; exact ND'.
      + simpl. constructor.
        * intros I. apply in_keys_delete in I. destruct I as [_ I]. contradiction.
        * apply IH; exact ND'.
  Qed.

  Lemma lookup_nil (k : K) : lookup k (@nil (K * V)) = None.
  Proof. reflexivity. Qed.
End MapLemmas.

Section ListLemmas.
  Context {A : Type}.

  Lemma length_set_nth (n : nat) (x : A) (l : list A) : length (set_nth n x l) = length l.
  Proof.
    revert n; induction l as [|y l IH]; intros [|n]; simpl; auto.
  Qed.

  Lemma nth_set_nth_eq (n : nat) (x d : A) (l : list A) :
    n < length l -> nth n (set_nth n x l) d = x.
  Proof.
    revert n; induction l as [|y l IH]; intros [|n]; simpl; intros L; try lia; auto.
    apply IH; lia.
  Qed.

  Lemma nth_set_nth_neq (n n' : nat) (x d : A) (l : list A) :
    n' <> n -> nth n' (set_nth n x l) d = nth n' l d.
  Proof.
    revert n n'; induction l as [|y l IH]; intros [|n] [|n']; simpl; intros N; try congruence; auto.
  Qed.

  Lemma set_nth_same (n : nat) (d : A) (l : list A) :
    set_nth n (nth n l d) l = l.
  Proof.
    revert n; induction l as [|y l IH]; intros [|n]; simpl; auto.
    rewrite IH; reflexivity.
  Qed.

  Lemma nth_app_l (n : nat) (d : A) (l l' : list A) :
    n < length l -> nth n (l ++ l') d = nth n l d.
  Proof. intros L. apply app_nth1; exact L. Qed.

  Lemma nth_app_len (d x : A) (l l' : list A) :
    nth (length l) (l ++ x :: l') d = x.
  Proof. rewrite app_nth2 by lia. replace (length l - length l) with 0 by lia. reflexivity. Qed.

  Lemma nth_app_len1 (d x y : A) (l l' : list A) :
    nth (S (length l)) (l ++ x :: y :: l') d = y.
  Proof. rewrite app_nth2 by lia. replace (S (length l) - length l) with 1 by lia. reflexivity. Qed.

  Lemma set_nth_app_l (n : nat) (x : A) (l l' : list A) :
    n < length l -> set_nth n x (l ++ l') = set_nth n x l ++ l'.
  Proof.
    revert n; induction l as [|y l IH]; intros [|n]; simpl; intros L; try lia; auto.
    rewrite IH; auto; lia.
  Qed.
End ListLemmas.

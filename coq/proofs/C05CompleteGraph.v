(* C05CompleteGraph.v -- Part G of the C05 development: the structure of the
   call graph built by full_graph.

   RESULT.  [full_graph_spec] of C05CompleteDefs is FALSE as stated
   ([full_graph_spec_false]): its conjunct on [fg_vals] needs the keys of the
   builder's typed maps to be the types of the stored values, which [wf_call]
   does not say (builders made by [build_args] have it).  Proved instead:
     - [full_graph_core_proof]: every other conjunct, under the original premises;
     - [full_graph_keys_proof]: the complete original conclusion under the extra
       premise [typed_keys_ok b];
     - [full_graph_alt_proof]: the complete original conclusion under the extra
       premise [build_args d opts = Some b]. *)
From ArgMapper Require Import Base Graph GraphAlg GraphSpec GraphStatements Types Args
     ResolverSpec ResolverStatements Resolver GenWeights.
From ArgMapper.proofs Require Import C18DijkstraLemmas C19RefineMap C19RefineGraph
     C05CompleteDefs C05CompleteGraphBase C05CompleteGraphInv.
From Coq Require Import Lia ZArith List.
Import ListNotations.
Set Implicit Arguments.
Local Open Scope Z_scope.

(* ================================================================== *)
(* full_graph, staged                                                  *)
(* ================================================================== *)
Definition stage0 : rg := g_add g_empty KRoot PNone.
Definition stage1 (f : fdecl) : rg := func_graph stage0 f false.
Definition stage2 (f : fdecl) (b : builder) : rg :=
  fold_left (fun g kv => add_e (g_add_overwrite g (fst kv) PNone) (fst kv) KRoot w_normal)
            (input_vertices b) (stage1 f).
Definition stage3 (f : fdecl) (b : builder) : rg :=
  fold_left (fun g c => func_graph g c true) (b_convs b) (stage2 f b).
Definition vals_of (b : builder) : amap vkey value :=
  fold_left (fun m kv => insert (fst kv) (snd kv) m) (input_vertices b) [].
Definition steps (u : universe) (b : builder) (g : rg) : rg :=
  step_arg_sub (step_named_sub (fun k => mem k (vals_of b)) (step_ifaces u (step_args (step_values g)))).

Lemma full_graph_eq u f b t :
  full_graph u f b false t =
  (do (ks, t') <- match b_gens b with
                 | [] => Ok ([], t)
                 | _ => take_perm SITE_GEN_VERTS (g_vertex_keys (stage3 f b)) t
                 end;
   let '(g, convs, tr, gerr) := run_gens (stage3 f b) (b_gens b) ks (b_convs b) [] in
   match gerr with
   | Some e => Ok (inr (XGen e), tr)
   | None => Ok (inl (mkFG (steps u b g) (vals_of b) (KFunc (fn_type f))
                           (g_out_keys (stage1 f) (KFunc (fn_type f)))
                           (map fst (input_vertices b)) convs tr t'), tr)
   end).
Proof. reflexivity. Qed.

(* ================================================================== *)
(* signatures                                                          *)
(* ================================================================== *)
Lemma wf_funcs_sig (L : list fdecl) (c f : fdecl) :
  wf_funcs L = true -> In c L -> In f L -> fn_type c = fn_type f ->
  sig_of (fn_in c) = sig_of (fn_in f).
Proof.
  unfold wf_funcs. rewrite !andb_true_iff. intros [[_ H] _] Ic If Et.
  rewrite forallb_forall in H. specialize (H c Ic). rewrite forallb_forall in H.
  specialize (H f If). rewrite Et, Z.eqb_refl in H.
  unfold same_sig in H. rewrite !andb_true_iff in H. destruct H as [[H _] _].
  destruct (Base.eqb_spec (sig_of (fn_in c)) (sig_of (fn_in f))) as [E|N]; [exact E|discriminate H].
Qed.

Lemma sig_field_key (l1 l2 : list field) fld :
  sig_of l1 = sig_of l2 -> In fld l1 -> exists fld', In fld' l2 /\ field_key fld' = field_key fld.
Proof.
  intros E Ifld.
  assert (Q : In (f_name fld, f_ty fld, f_sub fld) (sig_of l2)).
  { rewrite <- E. unfold sig_of. apply in_map_iff. exists fld. auto. }
  unfold sig_of in Q. apply in_map_iff in Q. destruct Q as (fld' & Eq & Ifld').
  exists fld'. split; [exact Ifld'|].
  injection Eq as E1 E2 E3. unfold field_key. rewrite E1, E2, E3. reflexivity.
Qed.

Lemma sig_nil (l1 l2 : list field) : sig_of l1 = sig_of l2 -> l1 = [] -> l2 = [].
Proof.
  intros E ->. unfold sig_of in E. cbn [map] in E. symmetry in E. apply map_eq_nil in E. exact E.
Qed.

(* ================================================================== *)
(* the keys of the typed maps                                          *)
(* ================================================================== *)
Definition typed_keys_ok (b : builder) : Prop :=
  (forall k v, In (k, v) (b_typed b) -> k = v_ty v) /\
  (forall k s v, In (k, s, v) (b_typedsub b) -> k = v_ty v).

Lemma in_insert {K V} {E : EqDec K} (k a : K) (v x : V) (m : amap K V) :
  In (a, x) (insert k v m) -> (a = k /\ x = v) \/ In (a, x) m.
Proof.
  induction m as [|[k0 v0] m IH]; cbn [insert].
  - intros [Q|[]]. inversion Q; subst. left; auto.
  - destruct (Base.eqb_spec k k0) as [->|N].
    + intros [Q|Q]; [inversion Q; subst; left; auto|right; right; exact Q].
    + intros [Q|Q]; [right; left; exact Q|].
      destruct (IH Q) as [A|A]; [left; exact A|right; right; exact A].
Qed.

Lemma tk_set_typed b v : typed_keys_ok b -> typed_keys_ok (set_typed b v).
Proof.
  intros [A B]. destruct v as [x|]; [|split; assumption]. split; cbn [set_typed b_typed b_typedsub].
  - intros k v Q. apply in_insert in Q. destruct Q as [[-> ->]|Q]; [reflexivity|apply A; exact Q].
  - exact B.
Qed.

Lemma tk_set_typedsub b v st : typed_keys_ok b -> typed_keys_ok (set_typedsub b v st).
Proof.
  intros Ok. unfold set_typedsub. destruct (String.eqb st ""); [apply tk_set_typed; exact Ok|].
  destruct Ok as [A B]. destruct v as [x|]; [|split; assumption]. split; cbn [b_typed b_typedsub].
  - exact A.
  - intros k s v Q. apply in_insert in Q. destruct Q as [[Q ->]|Q]; [|eapply B; exact Q].
    inversion Q; reflexivity.
Qed.

Lemma tk_set_named b n v : typed_keys_ok b -> typed_keys_ok (set_named b n v).
Proof.
  intros Ok. unfold set_named. destruct (String.eqb n ""); [apply tk_set_typed; exact Ok|].
  destruct v as [x|]; [|exact Ok]. destruct Ok as [A B]. split; cbn [b_typed b_typedsub]; assumption.
Qed.

Lemma tk_set_namedsub b n v st : typed_keys_ok b -> typed_keys_ok (set_namedsub b n v st).
Proof.
  intros Ok. unfold set_namedsub. destruct (String.eqb n ""); [apply tk_set_typedsub; exact Ok|].
  destruct (String.eqb st ""); [apply tk_set_named; exact Ok|].
  destruct v as [x|]; [|exact Ok]. destruct Ok as [A B]. split; cbn [b_typed b_typedsub]; assumption.
Qed.

Lemma tk_fold_typed vs : forall b, typed_keys_ok b -> typed_keys_ok (fold_left set_typed vs b).
Proof.
  induction vs as [|v vs IH]; intros b Ok; cbn [fold_left]; [exact Ok|].
  apply IH. apply tk_set_typed; exact Ok.
Qed.

Lemma tk_add_convs_raw fs : forall b, typed_keys_ok b -> typed_keys_ok (add_convs_raw b fs).
Proof.
  induction fs as [|[c|] fs IH]; intros b Ok; cbn [add_convs_raw]; [exact Ok| |].
  - apply IH. destruct Ok as [A B]. split; cbn [b_typed b_typedsub]; assumption.
  - destruct Ok as [A B]. split; cbn [b_typed b_typedsub]; assumption.
Qed.

Lemma tk_apply_arg b a : typed_keys_ok b -> typed_keys_ok (apply_arg b a).
Proof.
  intros Ok. destruct a; cbn [apply_arg];
    auto using tk_set_named, tk_set_namedsub, tk_fold_typed, tk_set_typedsub, tk_add_convs_raw;
    destruct Ok as [A B]; split; cbn [add_convs b_typed b_typedsub]; assumption.
Qed.

Lemma tk_build_from opts : forall b b', typed_keys_ok b -> build_from b opts = Some b' -> typed_keys_ok b'.
Proof.
  induction opts as [|a opts IH]; intros b b' Ok Q; cbn [build_from] in Q.
  - destruct (b_err b); [discriminate|]. inversion Q; subst. exact Ok.
  - destruct (is_nil_arg a); [discriminate|]. eapply IH; [|exact Q]. apply tk_apply_arg; exact Ok.
Qed.

Lemma build_args_typed_keys d opts b : build_args d opts = Some b -> typed_keys_ok b.
Proof.
  unfold build_args. apply tk_build_from. split; cbn; intros; contradiction.
Qed.

Lemma vals_of_ok b : typed_keys_ok b ->
  forall k v, lookup k (vals_of b) = Some v ->
    match k with KVal _ t _ | KOut t _ => t = v_ty v | _ => False end.
Proof.
  intros [A B] k v Q. unfold vals_of in Q. apply vals_fold_lookup in Q.
  destruct Q as [Q|Q]; [discriminate Q|].
  unfold input_vertices in Q. rewrite !in_app_iff, !in_map_iff in Q.
  destruct Q as [(x & Eq & Ix)|[(x & Eq & Ix)|[(x & Eq & Ix)|(x & Eq & Ix)]]];
    inversion Eq; subst; clear Eq.
  - reflexivity.
  - reflexivity.
  - destruct x as [k0 v0]. cbn [fst snd]. apply A; exact Ix.
  - destruct x as [[k0 s0] v0]. cbn [fst snd]. eapply B; exact Ix.
Qed.

(* ================================================================== *)
(* the stages satisfy the invariant                                    *)
(* ================================================================== *)
Section Stages.
  Variable u : universe.
  Variable f : fdecl.
  Variable b : builder.
  Variable F : list fdecl.
  Hypothesis Hf : In f F.
  Hypothesis Hconvs : incl (b_convs b) F.
  Notation GI := (GI u F (vals_of b)).
  Notation GS := (GS u F (vals_of b)).

  Lemma GI_stage0 : GI stage0.
  Proof.
    unfold stage0.
    destruct (g_add_facts KRoot PNone (wf_empty (K := vkey) (V := vpay))) as (W & Vx & Fe & Fv).
    split; [exact W|]. split; [|split].
    - intros a c w Ed. rewrite edge_fe, Fe in Ed. discriminate Ed.
    - intros k pay. rewrite gv_fv, Fv. cbn.
      destruct k; cbn; try discriminate. intros _. exact I.
    - apply Vx. left; reflexivity.
  Qed.

  Lemma stage0_nofunc ft : g_vertex stage0 (KFunc ft) = None.
  Proof. reflexivity. Qed.

  Lemma stage1_ok :
    GS stage0 (stage1 f) /\ has_fn (stage1 f) f /\
    g_vertex (stage1 f) (KFunc (fn_type f)) = Some (PFunc f).
  Proof.
    destruct (@func_graph_facts u F (vals_of b) stage0 f false Hf GI_stage0) as (G & H & P).
    split; [exact G|]. split; [exact H|]. apply P. apply stage0_nofunc.
  Qed.

  Lemma stage2_ok : GS (stage1 f) (stage2 f b).
  Proof.
    unfold stage2. apply GS_inputs; [|apply GS_refl; apply stage1_ok].
    intros kv Ikv. split; [apply (input_vertices_shape b); exact Ikv|].
    unfold vals_of. apply vals_fold_mem. right. apply in_map. exact Ikv.
  Qed.

  Lemma stage3_ok :
    GS (stage2 f b) (stage3 f b) /\ forall c, In c (b_convs b) -> has_fn (stage3 f b) c.
  Proof.
    unfold stage3. split.
    - apply GS_fold; [|apply GS_refl; apply stage2_ok].
      intros g c Ic G. apply GS_func_graph; [apply Hconvs; exact Ic|exact G].
    - intros c Ic.
      apply (@fold_adds u F (vals_of b) fdecl (fun g c => func_graph g c true)
               (fun c g => has_fn g c) (b_convs b)) with (g0 := stage2 f b); auto.
      + intros gb g x Ix G. apply GS_func_graph; [apply Hconvs; exact Ix|exact G].
      + intros g x Ix G. apply (@func_graph_facts u F (vals_of b) g x true); [apply Hconvs; exact Ix|apply G].
      + intros x g g' S H. eapply has_fn_mono; eauto.
      + apply GS_refl; apply stage2_ok.
  Qed.

  Lemma steps_ok g : GI g -> GS g (steps u b g).
  Proof.
    intros I. unfold steps.
    pose proof (GS_step_values I) as G1.
    pose proof (GS_step_args (proj1 G1)) as G2.
    pose proof (GS_step_ifaces (proj1 G2)) as G3.
    pose proof (GS_step_named_sub (fun k => mem k (vals_of b)) (proj1 G3)) as G4.
    pose proof (GS_step_arg_sub (proj1 G4)) as G5.
    eapply GS_trans; [exact G1|]. eapply GS_trans; [exact G2|]. eapply GS_trans; [exact G3|].
    eapply GS_trans; [exact G4|exact G5].
  Qed.
End Stages.

(* the recorded requirements are the out-neighbours of the target *)
Lemma freq_ok u f b F (g : rg) :
  wf_funcs (known_funcs f b) = true -> incl F (known_funcs f b) ->
  has_fn (stage1 f) f -> gsub (stage1 f) g ->
  (forall a c w, edge g a c w -> edge_inv u F (vals_of b) a c w) ->
  forall r, In r (g_out_keys (stage1 f) (KFunc (fn_type f))) <-> exists w, edge g (KFunc (fn_type f)) r w.
Proof.
  intros Wf Hincl (_ & HasF & HasR) (_ & Se & _) IE r. split.
  - intros Q. apply out_keys_edge in Q. destruct Q as (w & Ed). eapply Se; eauto.
  - intros (w & Ed). apply IE in Ed. unfold edge_inv in Ed. destruct Ed as [_ Ed].
    assert (If : In f (known_funcs f b)) by (left; reflexivity).
    apply out_keys_edge.
    destruct r as [|ft|n t s|t s|t s]; cbv beta iota in Ed.
    + destruct Ed as (c & Ic & Et & Ein).
      pose proof (wf_funcs_sig _ _ _ Wf (Hincl _ Ic) If Et) as Sg.
      apply HasR. eapply sig_nil; eauto.
    + contradiction.
    + destruct Ed as (c & fld & Ic & Et & Ifld & Ek).
      pose proof (wf_funcs_sig _ _ _ Wf (Hincl _ Ic) If Et) as Sg.
      destruct (sig_field_key _ _ fld Sg Ifld) as (fld' & Ifld' & Ek').
      rewrite Ek, <- Ek'. apply HasF; exact Ifld'.
    + destruct Ed as (c & fld & Ic & Et & Ifld & Ek).
      pose proof (wf_funcs_sig _ _ _ Wf (Hincl _ Ic) If Et) as Sg.
      destruct (sig_field_key _ _ fld Sg Ifld) as (fld' & Ifld' & Ek').
      rewrite Ek, <- Ek'. apply HasF; exact Ifld'.
    + contradiction.
Qed.

(* ================================================================== *)
(* the statements                                                      *)
(* ================================================================== *)
(* every conjunct of full_graph_spec except the one on fg_vals *)
Definition full_graph_core_concl (u : universe) (f : fdecl) (b : builder) (fg : fgraph) (tr : list event) : Prop :=
  let g := fg_g fg in
  let F := f :: fg_convs fg in
  wf_graph g /\ vertex g KRoot /\
  fg_target fg = KFunc (fn_type f) /\
  g_vertex g (KFunc (fn_type f)) = Some (PFunc f) /\
  (forall a b w, edge g a b w -> edge_inv u F (fg_vals fg) a b w) /\
  (forall k pay, g_vertex g k = Some pay -> vert_inv F k pay) /\
  (forall r, In r (fg_freq fg) <-> exists w, edge g (KFunc (fn_type f)) r w) /\
  (forall c, In c F ->
     vertex g (KFunc (fn_type c)) /\
     (forall fld, In fld (fn_in c) -> exists w, edge g (KFunc (fn_type c)) (field_key fld) w) /\
     (fn_in c = [] -> exists w, edge g (KFunc (fn_type c)) KRoot w)) /\
  (forall c, In c (fg_convs fg) -> In c (known_funcs f b)) /\
  fg_trace fg = tr.

Definition fg_vals_concl (fg : fgraph) : Prop :=
  forall k v, lookup k (fg_vals fg) = Some v ->
    match k with KVal _ t _ | KOut t _ => t = v_ty v | _ => False end.

(* the conclusion of full_graph_spec, verbatim *)
Definition full_graph_concl (u : universe) (f : fdecl) (b : builder) (fg : fgraph) (tr : list event) : Prop :=
  let g := fg_g fg in
  let F := f :: fg_convs fg in
  wf_graph g /\ vertex g KRoot /\
  fg_target fg = KFunc (fn_type f) /\
  g_vertex g (KFunc (fn_type f)) = Some (PFunc f) /\
  (forall a b w, edge g a b w -> edge_inv u F (fg_vals fg) a b w) /\
  (forall k pay, g_vertex g k = Some pay -> vert_inv F k pay) /\
  (forall r, In r (fg_freq fg) <-> exists w, edge g (KFunc (fn_type f)) r w) /\
  (forall c, In c F ->
     vertex g (KFunc (fn_type c)) /\
     (forall fld, In fld (fn_in c) -> exists w, edge g (KFunc (fn_type c)) (field_key fld) w) /\
     (fn_in c = [] -> exists w, edge g (KFunc (fn_type c)) KRoot w)) /\
  (forall c, In c (fg_convs fg) -> In c (known_funcs f b)) /\
  (forall k v, lookup k (fg_vals fg) = Some v ->
     match k with KVal _ t _ | KOut t _ => t = v_ty v | _ => False end) /\
  fg_trace fg = tr.

Lemma full_graph_spec_unfold :
  full_graph_spec =
  (forall u f b t fg tr, wf_call u f b = true -> full_graph u f b false t = Ok (inl fg, tr) ->
                         full_graph_concl u f b fg tr).
Proof. reflexivity. Qed.

Lemma full_graph_concl_split u f b fg tr :
  full_graph_core_concl u f b fg tr -> fg_vals_concl fg -> full_graph_concl u f b fg tr.
Proof.
  unfold full_graph_core_concl, fg_vals_concl, full_graph_concl. cbv zeta.
  intros (H1 & H2 & H3 & H4 & H5 & H6 & H7 & H8 & H9 & H10) Hv.
  repeat (split; [assumption|]). assumption.
Qed.

Definition full_graph_core_spec : Prop :=
  forall u f b t fg tr,
    wf_call u f b = true ->
    full_graph u f b false t = Ok (inl fg, tr) ->
    full_graph_core_concl u f b fg tr.

Definition full_graph_keys_spec : Prop :=
  forall u f b t fg tr,
    typed_keys_ok b ->
    wf_call u f b = true ->
    full_graph u f b false t = Ok (inl fg, tr) ->
    full_graph_concl u f b fg tr.

(* full_graph_spec with the extra premise that the builder comes from build_args *)
Definition full_graph_alt_spec : Prop :=
  forall u f b d opts t fg tr,
    build_args d opts = Some b ->
    wf_call u f b = true ->
    full_graph u f b false t = Ok (inl fg, tr) ->
    full_graph_concl u f b fg tr.

(* ================================================================== *)
(* proofs                                                              *)
(* ================================================================== *)
Lemma full_graph_inv u f b t fg tr :
  full_graph u f b false t = Ok (inl fg, tr) ->
  exists ks t' g4 c4,
    run_gens (stage3 f b) (b_gens b) ks (b_convs b) [] = (g4, c4, tr, None) /\
    fg = mkFG (steps u b g4) (vals_of b) (KFunc (fn_type f))
              (g_out_keys (stage1 f) (KFunc (fn_type f)))
              (map fst (input_vertices b)) c4 tr t'.
Proof.
  rewrite full_graph_eq. intros H.
  destruct (match b_gens b with
            | [] => Ok ([], t)
            | _ :: _ => take_perm SITE_GEN_VERTS (g_vertex_keys (stage3 f b)) t
            end) as [[ks t']| | |] eqn:TP; cbn [bind] in H; try discriminate H.
  destruct (run_gens (stage3 f b) (b_gens b) ks (b_convs b) []) as [[[g4 c4] tr4] [e|]] eqn:RG;
    [discriminate H|].
  inversion H; subst. exists ks, t', g4, c4. split; [exact RG|reflexivity].
Qed.

Theorem full_graph_core_proof : full_graph_core_spec.
Proof.
  intros u f b t fg tr Hwf Hfull.
  destruct (full_graph_inv _ _ _ _ Hfull) as (ks & t' & g4 & c4 & RG & ->).
  unfold full_graph_core_concl. cbn [fg_g fg_vals fg_target fg_freq fg_convs fg_trace].
  assert (Wf : wf_funcs (known_funcs f b) = true).
  { unfold wf_call in Hwf. rewrite !andb_true_iff in Hwf. apply Hwf. }
  pose proof (run_gens_ok u (vals_of b) (b_gens b) (stage3 f b) (b_convs b) ks []) as Ok.
  rewrite RG in Ok. destruct Ok as [(new & Ec & Hnew) Ok].
  set (F := f :: c4).
  assert (Hf : In f F) by (left; reflexivity).
  assert (Hc4 : incl c4 F) by (intros x Ix; right; exact Ix).
  assert (Hconvs : incl (b_convs b) F).
  { intros x Ix. apply Hc4. rewrite Ec. apply in_or_app. left; exact Ix. }
  assert (Hknown : incl F (known_funcs f b)).
  { intros x [<-|Ix]; [left; reflexivity|]. right. rewrite Ec in Ix.
    apply in_app_iff in Ix. apply in_or_app. destruct Ix as [Ix|Ix]; [left; exact Ix|right; auto]. }
  destruct (@stage1_ok u f b F Hf) as (G1 & Has1 & P1).
  pose proof (@stage2_ok u f b F Hf) as G2.
  destruct (@stage3_ok u f b F Hf Hconvs) as (G3 & Has3).
  destruct (Ok F Hc4 (proj1 G3)) as (G4 & Has4).
  pose proof (@steps_ok u b F g4 (proj1 G4)) as G5.
  set (g5 := steps u b g4) in *.
  assert (G35 : GS u F (vals_of b) (stage3 f b) g5) by (eapply GS_trans; eauto).
  assert (G15 : GS u F (vals_of b) (stage1 f) g5).
  { eapply GS_trans; [exact G2|]. eapply GS_trans; [exact G3|exact G35]. }
  destruct (proj1 G5) as (W5 & IE5 & IV5 & VR5).
  split; [exact W5|]. split; [exact VR5|]. split; [reflexivity|].
  split; [apply G15; exact P1|]. split; [exact IE5|]. split; [exact IV5|].
  split; [exact (@freq_ok u f b F g5 Wf Hknown Has1 (proj2 G15) IE5)|].
  split; [|split; [|reflexivity]].
  - intros c [<-|Ic].
    + apply (@has_fn_mono (stage1 f) g5 f); [apply G15|exact Has1].
    + destruct (Has4 c Ic) as [A|A].
      * apply (@has_fn_mono (stage3 f b) g5 c); [apply G35|apply Has3; exact A].
      * apply (@has_fn_mono g4 g5 c); [apply G5|exact A].
  - intros c Ic. apply Hknown. right; exact Ic.
Qed.

Theorem full_graph_keys_proof : full_graph_keys_spec.
Proof.
  intros u f b t fg tr Hk Hwf Hfull. apply full_graph_concl_split.
  - eapply full_graph_core_proof; eauto.
  - destruct (full_graph_inv _ _ _ _ Hfull) as (ks & t' & g4 & c4 & _ & ->).
    unfold fg_vals_concl. cbn [fg_vals]. apply vals_of_ok; exact Hk.
Qed.

Theorem full_graph_alt_proof : full_graph_alt_spec.
Proof.
  intros u f b d opts t fg tr Hb Hwf Hfull.
  eapply full_graph_keys_proof; eauto. eapply build_args_typed_keys; eauto.
Qed.

(* ================================================================== *)
(* full_graph_spec itself is false                                     *)
(* ================================================================== *)
Definition cx_u : universe := mkU [] [].
Definition cx_f : fdecl := mkFn 1 100 FPos [] FPos [] false false.
Definition cx_b : builder := mkB [] [] [(5, mkV 1 7)] [] [] [] None None false.

Theorem full_graph_spec_false : ~ full_graph_spec.
Proof.
  intros H.
  assert (Hw : wf_call cx_u cx_f cx_b = true) by (vm_compute; reflexivity).
  destruct (full_graph cx_u cx_f cx_b false []) as [[[fg|e] tr]| | |] eqn:Q; try (vm_compute in Q; discriminate Q).
  pose proof (H cx_u cx_f cx_b [] fg tr Hw Q) as C. cbv zeta in C.
  destruct C as (_ & _ & _ & _ & _ & _ & _ & _ & _ & Hv & _).
  vm_compute in Q. inversion Q; subst fg.
  specialize (Hv (KOut 5 "") (mkV 1 7) eq_refl). cbn in Hv. discriminate Hv.
Qed.

Print Assumptions full_graph_core_proof.
Print Assumptions full_graph_keys_proof.
Print Assumptions full_graph_alt_proof.
Print Assumptions full_graph_spec_false.

(* C07Affinity.v -- C07: documented conversion priorities (name affinity).
   Family F1: the type-only converter always receives the supplied value whose
   name matches the target parameter, whatever the order tape.
   Family F2: a converter taking that value BY NAME is preferred over the
   type-only one.  Both for an arbitrary number k of supplied values. *)
From ArgMapper Require Import Base Graph GraphAlg GraphSpec Types Args Resolver ResolverSpec
     CheckResolver Monitors Monitors2 ResolverStatements ResolverStatements2.
From ArgMapper.proofs Require Import C19RefineMap C0213UnsatGraph C07AffinityGraph.
From Coq Require Import List Lia ZArith String.
Import ListNotations.
Set Implicit Arguments.
Local Open Scope Z_scope.

(* ---------- boolean plumbing ---------- *)
Lemma nodupb_NoDup {A} {E : EqDec A} (l : list A) : nodupb l = true -> NoDup l.
Proof.
  induction l as [|x l IH]; intros H; [constructor|].
  cbn [nodupb] in H. apply andb_true_iff in H. destruct H as [H1 H2].
  constructor; [|apply IH; exact H2]. apply negb_true_iff in H1. apply membF in H1. exact H1.
Qed.

Lemma beq_true {A} {E : EqDec A} (x y : A) : Base.eqb x y = true -> x = y.
Proof. intros H. destruct (Base.eqb_spec x y) as [Q|Q]; [exact Q|discriminate]. Qed.

Lemma sig_single (l : list field) nm ty sb :
  map (fun f => (f_name f, f_ty f, f_sub f)) l = [(nm, ty, sb)] -> l = [mkF nm ty sb].
Proof.
  destruct l as [|[a b c] [|y l]]; cbn; intros H; try discriminate. inversion H. reflexivity.
Qed.

Lemma nodup_bounded_len (l : list Z) :
  NoDup l -> (forall x, In x l -> 0 < x < 1000) -> (List.length l <= 999)%nat.
Proof.
  intros ND B.
  assert (L : (List.length l <= List.length (map Z.of_nat (seq 1 999)))%nat).
  { apply NoDup_incl_length; [exact ND|]. intros x Ix. specialize (B x Ix).
    apply in_map_iff. exists (Z.to_nat x). split; [lia|]. apply in_seq. lia. }
  rewrite map_length, seq_length in L. exact L.
Qed.

(* ---------- option processing of the families ---------- *)
Lemma insert_fresh (k : string) (v : value) (m : amap string value) :
  ~ In k (map fst m) -> insert k v m = m ++ [(k, v)].
Proof.
  induction m as [|[k0 v0] m IH]; intros NI; cbn [insert app]; [reflexivity|].
  destruct (Base.eqb_spec k k0) as [->|Ne]; [exfalso; apply NI; left; reflexivity|].
  rewrite IH; [reflexivity|]. intros I. apply NI. right. exact I.
Qed.

Definition named_opts (l : list (string * value)) : list arg :=
  map (fun nv => ANamed (fst nv) (Some (snd nv))) l.

Lemma build_named (l : list (string * value)) : forall acc cvs rest,
  (forall m v, In (m, v) l -> String.eqb m EmptyString = false /\ lower m = m) ->
  NoDup (map fst (acc ++ l)) ->
  build_from (mkB acc [] [] [] cvs [] None None false) (named_opts l ++ rest) =
  build_from (mkB (acc ++ l) [] [] [] cvs [] None None false) rest.
Proof.
  induction l as [|[m v] l IH]; intros acc cvs rest Hl ND.
  - rewrite app_nil_r. reflexivity.
  - cbn [named_opts map app fst snd build_from is_nil_arg apply_arg].
    destruct (Hl m v (or_introl eq_refl)) as [Em Lm].
    unfold set_named. rewrite Em, Lm. cbn [b_named b_namedsub b_typed b_typedsub b_convs b_gens b_fin b_fout b_err].
    rewrite insert_fresh.
    2:{ rewrite map_app in ND. cbn [map fst] in ND. apply NoDup_remove_2 in ND.
        intros I. apply ND. apply in_or_app. left. exact I. }
    fold (named_opts l). rewrite IH.
    + rewrite <- app_assoc. reflexivity.
    + intros m0 v0 I. apply (Hl m0 v0). right. exact I.
    + rewrite <- app_assoc. exact ND.
Qed.

Definition fam_builder (named : list (string * value)) (cs : list fdecl) : builder :=
  mkB named [] [] [] cs [] None None false.

Lemma build_family named cs :
  (forall m v, In (m, v) named -> String.eqb m EmptyString = false /\ lower m = m) ->
  NoDup (map fst named) ->
  build_args [] (named_opts named ++ [AConvFunc (map Some cs)]) = Some (fam_builder named cs).
Proof.
  intros Hl ND. unfold build_args, b0. cbn [app].
  rewrite (build_named named [] [] [AConvFunc (map Some cs)] Hl ND). cbn [app build_from is_nil_arg apply_arg].
  unfold add_convs. cbn [b_named b_namedsub b_typed b_typedsub b_convs b_gens b_fin b_fout b_err app].
  assert (E : flat_map (fun o : option fdecl => match o with Some f => [f] | None => [] end) (map Some cs) = cs).
  { induction cs as [|c l IH]; cbn; [reflexivity|]. rewrite IH. reflexivity. }
  rewrite E. reflexivity.
Qed.

(* ---------- what f1_ok says ---------- *)
Record f1_facts (F : f1_family) (onm : string) : Prop := {
  ff_TU : f1_T F <> f1_U F;
  ff_iT : is_iface (f1_u F) (f1_T F) = false;
  ff_iU : is_iface (f1_u F) (f1_U F) = false;
  ff_nE : String.eqb (f1_n F) EmptyString = false;
  ff_tin : fn_in (f1_target F) = [mkF (f1_n F) (f1_U F) EmptyString];
  ff_cin : fn_in (f1_conv F) = [mkF EmptyString (f1_T F) EmptyString];
  ff_cout : fn_out (f1_conv F) = [mkF onm (f1_U F) EmptyString];
  ff_onm : onm = EmptyString \/ onm = f1_n F;
  ff_ty : fn_type (f1_conv F) <> fn_type (f1_target F);
  ff_id : fn_id (f1_conv F) <> fn_id (f1_target F);
  ff_once : fn_once (f1_conv F) = false;
  ff_nd : NoDup (map fst (f1_named F));
  ff_nin : In (f1_n F) (map fst (f1_named F));
  ff_nm : forall m v, In (m, v) (f1_named F) ->
            (String.eqb m EmptyString = false /\ lower m = m) /\ v_ty v = f1_T F;
  ff_len : (List.length (f1_named F) <= 999)%nat }.

Lemma f1_ok_facts F : f1_ok F = true -> exists onm, f1_facts F onm.
Proof.
  unfold f1_ok. intros H. rewrite !andb_true_iff in H.
  destruct H as ((((((((((((((((((HTU & HiT) & HiU) & HnE) & Hnl) & Htin) & Htonce) & Hcin) & Hcout) & Hty) & Hid) & Hpos) & Hconce) & Hwft) & Hwfc) & Hnd) & Hnin) & Hall) & Hids).
  destruct (fn_out (f1_conv F)) as [|o [|o2 os]] eqn:Eo; try discriminate.
  rewrite !andb_true_iff in Hcout. destruct Hcout as ((Co1 & Co2) & Co3).
  exists (f_name o).
  assert (Eo' : [o] = [mkF (f_name o) (f1_U F) EmptyString]).
  { destruct o as [a b c]. cbn [f_name f_ty f_sub] in *. apply Z.eqb_eq in Co1. unfold is_empty in Co2. apply beq_true in Co2.
    subst. reflexivity. }
  assert (Each : forall m v, In (m, v) (f1_named F) ->
            (String.eqb m EmptyString = false /\ lower m = m) /\ v_ty v = f1_T F /\ 0 < v_id v < 1000).
  { intros m v I. rewrite forallb_forall in Hall. specialize (Hall (m, v) I). cbn [fst snd] in Hall.
    rewrite !andb_true_iff in Hall. destruct Hall as ((((D1 & D2) & D3) & D4) & D5).
    split; [split|split].
    - apply negb_true_iff in D1. exact D1.
    - apply beq_true in D2. symmetry. exact D2.
    - apply Z.eqb_eq in D3. exact D3.
    - apply Z.ltb_lt in D4. apply Z.ltb_lt in D5. lia. }
  constructor.
  - apply negb_true_iff in HTU. apply Z.eqb_neq in HTU. exact HTU.
  - apply negb_true_iff in HiT. exact HiT.
  - apply negb_true_iff in HiU. exact HiU.
  - apply negb_true_iff in HnE. exact HnE.
  - apply beq_true in Htin. apply sig_single in Htin. exact Htin.
  - apply beq_true in Hcin. apply sig_single in Hcin. exact Hcin.
  - rewrite Eo. exact Eo'.
  - apply orb_true_iff in Co3. destruct Co3 as [C|C]; [left|right].
    + unfold is_empty in C. apply beq_true in C. exact C.
    + apply beq_true in C. exact C.
  - apply negb_true_iff in Hty. apply Z.eqb_neq in Hty. exact Hty.
  - apply negb_true_iff in Hid. apply Z.eqb_neq in Hid. exact Hid.
  - apply negb_true_iff in Hconce. exact Hconce.
  - apply nodupb_NoDup. exact Hnd.
  - apply membT. exact Hnin.
  - intros m v I. destruct (Each m v I) as (A1 & A2 & _). split; assumption.
  - rewrite <- (map_length (fun nv => v_id (snd nv))). apply nodup_bounded_len.
    + apply nodupb_NoDup. exact Hids.
    + intros x Ix. apply in_map_iff in Ix. destruct Ix as ([m v] & <- & I).
      cbn [snd]. apply (Each m v I).
Qed.

(* ---------- the generic consequence for a family with converters [cs] ---------- *)
Section Use.
  Variable F : f1_family.
  Variable onm : string.
  Hypothesis FF : f1_facts F onm.

  Let u := f1_u F. Let n := f1_n F. Let T := f1_T F. Let U := f1_U F.
  Let f := f1_target F. Let named := f1_named F.

  Lemma fam_named_ok m v : In (m, v) named -> String.eqb m EmptyString = false /\ v_ty v = T.
  Proof. intros I. destruct (ff_nm FF m v I) as [[A _] B]. split; assumption. Qed.

  Lemma fam_named_lower m v : In (m, v) named -> String.eqb m EmptyString = false /\ lower m = m.
  Proof. intros I. apply (ff_nm FF m v I). Qed.

  Lemma fam_call (cs : list fdecl) (csel : fdecl) (vn : value) bh opts t r :
    (forall c, In c cs ->
       (fn_in c = [mkF EmptyString T EmptyString] \/ fn_in c = [mkF n T EmptyString]) /\
       fn_out c = [mkF onm U EmptyString] /\ fn_type c <> fn_type f) ->
    NoDup (map fn_type cs) -> (List.length cs <= 2)%nat -> In csel cs ->
    (forall pops d p, dijkstra (HH n T U f cs named) KRoot pops = Ok (d, p) ->
       selected n T U onm csel p /\ C07AffinityDijkstra.fin_facts (HH n T U f cs named) KRoot p) ->
    fn_once csel = false -> lookup n named = Some vn ->
    build_args [] opts = Some (fam_builder named cs) ->
    call u bh f [] opts world0 t = Ok r ->
    trace_ok T f csel vn (run_trace r).
  Proof.
    intros Hcs Hcnd Hcl Hsel Hdij Honce Hvn HB Hcall.
    exact (@call_family u n T U f cs named onm (ff_TU FF) (ff_nE FF) (ff_tin FF) (ff_onm FF) Hcs Hcnd
             fam_named_ok (ff_nin FF) (ff_iT FF) (ff_iU FF) (fam_builder named cs)
             eq_refl eq_refl eq_refl eq_refl eq_refl eq_refl (ff_nd FF) (ex_intro (fun c0 => In c0 cs) csel Hsel) (ff_len FF) Hcl
             csel Hsel Hdij bh Honce vn Hvn opts t r HB Hcall).
  Qed.
End Use.

Lemma named_lookup (named : list (string * value)) n : In n (map fst named) -> exists vn, lookup n named = Some vn.
Proof. intros I. apply (in_keys_lookup n named). exact I. Qed.

(* ================= F1 ================= *)
Theorem C07_f1_proof : C07_f1_statement.
Proof.
  intros F bh t r vn Hok Hvn Hcall.
  destruct (f1_ok_facts F Hok) as (onm & FF).
  set (cs := [f1_conv F]).
  assert (Hcs : forall c, In c cs ->
       (fn_in c = [mkF EmptyString (f1_T F) EmptyString] \/ fn_in c = [mkF (f1_n F) (f1_T F) EmptyString]) /\
       fn_out c = [mkF onm (f1_U F) EmptyString] /\ fn_type c <> fn_type (f1_target F)).
  { intros c [<-|[]]. split; [left; apply (ff_cin FF)|]. split; [apply (ff_cout FF)|apply (ff_ty FF)]. }
  assert (Hcnd : NoDup (map fn_type cs)) by (repeat constructor; simpl; tauto).
  assert (Hcl : (List.length cs <= 2)%nat) by (simpl; lia).
  assert (Hsel : In (f1_conv F) cs) by (left; reflexivity).
  assert (HB : build_args [] (f1_opts F) = Some (fam_builder (f1_named F) cs)).
  { apply (build_family (f1_named F) cs); [apply (fam_named_lower FF)|apply (ff_nd FF)]. }
  assert (Hdij : forall pops d p,
             dijkstra (HH (f1_n F) (f1_T F) (f1_U F) (f1_target F) cs (f1_named F)) KRoot pops = Ok (d, p) ->
             selected (f1_n F) (f1_T F) (f1_U F) onm (f1_conv F) p /\
             C07AffinityDijkstra.fin_facts (HH (f1_n F) (f1_T F) (f1_U F) (f1_target F) cs (f1_named F)) KRoot p).
  { apply (@sel_F1 (f1_n F) (f1_T F) (f1_U F) (f1_target F) cs (f1_named F) onm (ff_TU FF) (ff_nE FF) (ff_tin FF)
             (ff_onm FF) Hcs Hcnd (ff_nin FF) (ex_intro (fun c0 => In c0 cs) (f1_conv F) Hsel) (ff_len FF) Hcl (f1_conv F) Hsel eq_refl). }
  pose proof (@fam_call F onm FF cs (f1_conv F) vn bh (f1_opts F) t r Hcs Hcnd Hcl Hsel Hdij (ff_once FF) Hvn HB Hcall) as TO.
  destruct TO as (outs & err & [E|(a & o & e & E)]); rewrite E; split.
  - cbn [existsb is_exec_of]. rewrite Z.eqb_refl. reflexivity.
  - intros args outs' e' [I|[]]. inversion I. reflexivity.
  - cbn [existsb is_exec_of]. rewrite Z.eqb_refl. reflexivity.
  - intros args outs' e' [I|[I|[]]]; inversion I; [reflexivity|].
    exfalso. apply (ff_id FF). symmetry. assumption.
Qed.
Print Assumptions C07_f1_proof.

(* ================= F2 ================= *)
Theorem C07_f2_proof : C07_f2_statement.
Proof.
  intros F nc first bh t r Hok Hcall.
  unfold f2_ok in Hok. rewrite !andb_true_iff in Hok.
  destruct Hok as ((((((((((Hok1 & Hnin) & Hnout) & Hty1) & Hty2) & Hid1) & Hid2) & Hpos) & Honce) & Hwf) & Hform).
  destruct (f1_ok_facts F Hok1) as (onm & FF).
  apply beq_true in Hnin. apply sig_single in Hnin.
  apply beq_true in Hnout. rewrite (ff_cout FF) in Hnout. cbn [map f_name f_ty f_sub] in Hnout.
  apply sig_single in Hnout.
  apply negb_true_iff in Hty1. apply Z.eqb_neq in Hty1.
  apply negb_true_iff in Hty2. apply Z.eqb_neq in Hty2.
  apply negb_true_iff in Hid1. apply Z.eqb_neq in Hid1.
  apply negb_true_iff in Hid2. apply Z.eqb_neq in Hid2.
  apply negb_true_iff in Honce.
  destruct (named_lookup (f1_named F) (f1_n F) (ff_nin FF)) as (vn & Hvn).
  set (cs := if first then [nc; f1_conv F] else [f1_conv F; nc]).
  assert (Ics : forall c, In c cs <-> c = nc \/ c = f1_conv F).
  { intros c. unfold cs. destruct first; simpl; intuition. }
  assert (Hcs : forall c, In c cs ->
       (fn_in c = [mkF EmptyString (f1_T F) EmptyString] \/ fn_in c = [mkF (f1_n F) (f1_T F) EmptyString]) /\
       fn_out c = [mkF onm (f1_U F) EmptyString] /\ fn_type c <> fn_type (f1_target F)).
  { intros c Ic. apply Ics in Ic. destruct Ic as [->| ->].
    - split; [right; exact Hnin|]. split; [exact Hnout|exact Hty1].
    - split; [left; apply (ff_cin FF)|]. split; [apply (ff_cout FF)|apply (ff_ty FF)]. }
  assert (Hcnd : NoDup (map fn_type cs)).
  { unfold cs. destruct first; cbn [map]; repeat constructor; simpl; intuition. }
  assert (Hcl : (List.length cs <= 2)%nat) by (unfold cs; destruct first; simpl; lia).
  assert (Hsel : In nc cs) by (apply Ics; left; reflexivity).
  assert (Hoth : In (f1_conv F) cs) by (apply Ics; right; reflexivity).
  assert (HB : build_args [] (f2_opts F nc first) = Some (fam_builder (f1_named F) cs)).
  { unfold f2_opts, cs. destruct first.
    - apply (build_family (f1_named F) [nc; f1_conv F]); [apply (fam_named_lower FF)|apply (ff_nd FF)].
    - apply (build_family (f1_named F) [f1_conv F; nc]); [apply (fam_named_lower FF)|apply (ff_nd FF)]. }
  assert (Qs : inkey nc = NT (f1_n F) (f1_T F)).
  { unfold inkey, NT. rewrite Hnin. unfold field_key. cbn [f_name f_ty f_sub]. rewrite (ff_nE FF). reflexivity. }
  assert (Qo : inkey (f1_conv F) = AT (f1_T F)).
  { unfold inkey, AT. rewrite (ff_cin FF). reflexivity. }
  assert (Hdij : forall pops d p,
             dijkstra (HH (f1_n F) (f1_T F) (f1_U F) (f1_target F) cs (f1_named F)) KRoot pops = Ok (d, p) ->
             selected (f1_n F) (f1_T F) (f1_U F) onm nc p /\
             C07AffinityDijkstra.fin_facts (HH (f1_n F) (f1_T F) (f1_U F) (f1_target F) cs (f1_named F)) KRoot p).
  { apply (@sel_F2 (f1_n F) (f1_T F) (f1_U F) (f1_target F) cs (f1_named F) onm (ff_TU FF) (ff_nE FF) (ff_tin FF)
             (ff_onm FF) Hcs Hcnd (ff_nin FF) (ex_intro (fun c0 => In c0 cs) nc Hsel) (ff_len FF) Hcl nc Hsel
             (f1_conv F) Hoth).
    - intros c Ic. apply Ics. exact Ic.
    - exact Qs.
    - exact Qo. }
  pose proof (@fam_call F onm FF cs nc vn bh (f2_opts F nc first) t r Hcs Hcnd Hcl Hsel Hdij Honce Hvn HB Hcall) as TO.
  assert (N1 : (fn_id nc =? fn_id (f1_conv F)) = false) by (apply Z.eqb_neq; exact Hid2).
  assert (N2 : (fn_id (f1_target F) =? fn_id (f1_conv F)) = false).
  { apply Z.eqb_neq. intros E. apply (ff_id FF). symmetry. exact E. }
  destruct TO as (outs & err & [E|(a & o & e & E)]); rewrite E; cbn [existsb is_exec_of];
    rewrite Z.eqb_refl, N1, ?N2; split; reflexivity.
Qed.
Print Assumptions C07_f2_proof.

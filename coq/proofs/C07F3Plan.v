(* C07F3Plan.v -- family F3 of C07: for every parameter name n of the target,
   the reversed call graph with the matching-name discount for n; whatever the
   pop order, the planner finds the path
       root, (n,T), arg T, conv, out U, (n,U).
   Helper of C07F3.v *)
From ArgMapper Require Import Base Graph GraphAlg GraphSpec Types Args Resolver ResolverSpec GenWeights.
From ArgMapper.proofs Require Import C18DijkstraLemmas C19RefineMap C19RefineGraph C0213UnsatGraph
     C0213UnsatClosure C0213UnsatBuild C0213UnsatPrune C18Dijkstra C06TotalDijkstra
     C07AffinityOps C07AffinityDiscount C07AffinityDijkstra C0213UnsatPlan C0213UnsatReach C07AffinityGraph
     C07F3Graph.
From Coq Require Import List Lia ZArith String.
Import ListNotations.
Set Implicit Arguments.
Local Open Scope Z_scope.

Section F3Plan.
  Variables (u : universe) (T U : ty) (f c : fdecl) (pns : list string)
            (named : list (string * value)) (bd : builder).
  Hypothesis H3 : f3h u T U f c pns named bd.
  Local Notation HTU := (h_TU H3).
  Local Notation PG := (PG3 T f c named).
  Local Notation NU := (vNU U).
  Local Notation NT := (vNT T).
  Local Notation AT := (vAT T).
  Local Notation OT := (vOT T).
  Local Notation AU := (vAU U).
  Local Notation OU := (vOU U).
  Local Notation FK := (vfk f).
  Local Notation CS := (vCS c).
  Local Notation fedge := (fedge3 T U f c pns named).
  Local Notation pvert := (pvert3 T U f c pns named).

  Variable n : string.
  Hypothesis Hn : In n pns.

  Definition cgD3 : rgraph := discount PG (NU n).
  Definition HH3 : rgraph := g_reverse cgD3.

  Lemma cgD3_facts :
    wf_graph cgD3 /\ (forall x, vtx cgD3 x = vtx PG x) /\ g_vertex_keys cgD3 = g_vertex_keys PG /\
    (forall a b, ew cgD3 a b = match ew PG a b with
                               | Some w => if isn n b then Some w_matching_name else Some w
                               | None => None end).
  Proof. apply (discount_exact n U EmptyString (PG3_wf T f c named)). Qed.

  Lemma HH3_wf : wf_graph HH3.
  Proof. apply (reverse_spec (proj1 cgD3_facts)). Qed.

  Lemma HH3_edge a b w :
    edge HH3 a b w <->
    exists w0, fedge b a w0 /\ pvert a /\ pvert b /\ w = (if isn n a then w_matching_name else w0).
  Proof.
    change (edge HH3 a b w) with (ew HH3 a b = Some w).
    destruct cgD3_facts as (Wc & _ & _ & He).
    destruct (reverse_spec Wc) as (_ & _ & Hr). unfold HH3. rewrite Hr, He. split.
    - destruct (ew PG b a) as [w0|] eqn:Q; [|discriminate].
      apply (PG3_edges H3) in Q. destruct Q as (Fe & Pb & Pa). intros Q.
      exists w0. split; [exact Fe|]. split; [exact Pa|]. split; [exact Pb|].
      destruct (isn n a); inversion Q; reflexivity.
    - intros (w0 & Fe & Pa & Pb & ->).
      assert (Q : ew PG b a = Some w0) by (apply (PG3_edges H3); auto). rewrite Q.
      destruct (isn n a); reflexivity.
  Qed.

  Lemma HH3_keys : g_vertex_keys HH3 = g_vertex_keys PG.
  Proof. destruct cgD3_facts as (_ & _ & Hk & _). unfold HH3. rewrite <- Hk. reflexivity. Qed.

  Lemma HH3_small : 20 * (Z.of_nat (List.length (g_vertex_keys HH3)) + 1) < INF.
  Proof. rewrite HH3_keys. pose proof (PG3_keys_len H3). unfold INF. lia. Qed.

  Lemma HH3_vertex k : vertex HH3 k <-> pvert k.
  Proof.
    unfold vertex. change (keys (ghash HH3)) with (g_vertex_keys HH3). rewrite HH3_keys, in_vertex_keys.
    split; [apply (PG3_vtx_pvert H3)|apply (pvert3_vtx H3)].
  Qed.

  Lemma HH3_wbound a b w : edge HH3 a b w -> -20 <= w <= 20.
  Proof.
    intros Ed. apply HH3_edge in Ed. destruct Ed as (w0 & Fe & _ & _ & ->).
    rewrite (fedge3_wt Fe). destruct (isn n a); [unfold w_matching_name; lia|].
    unfold wt. destruct b; destruct a; unfold w_normal, w_typed; lia.
  Qed.

  Lemma fedge3_src_ne_root a b w : fedge a b w -> a <> KRoot.
  Proof. intros Hk. destruct Hk; discriminate. Qed.

  Lemma HH3_src_in a w : ~ edge HH3 a KRoot w.
  Proof.
    intros Ed. apply HH3_edge in Ed. destruct Ed as (w0 & Fe & _). apply (fedge3_src_ne_root Fe). reflexivity.
  Qed.

  Lemma HH3_root : vertex HH3 KRoot.
  Proof. apply HH3_vertex. apply (pvert3_root T U f c pns named). Qed.

  Lemma named_n3 : exists vn, In (n, vn) named.
  Proof. apply (named_p H3 n Hn). Qed.

  Lemma HH3_isin m v : In (m, v) named -> isin HH3 KRoot (NT m).
  Proof.
    intros I. split.
    - apply HH3_edge. exists w_normal. split; [econstructor; eauto|]. split; [apply pvert3_root|].
      split; [eapply pvert3_in; eauto|reflexivity].
    - intros a' w' Ed. apply HH3_edge in Ed. destruct Ed as (w0 & Fe & Pa' & _ & ->).
      remember (NT m) as k eqn:Ek.
      destruct Fe as [n1 I1|m1 v1 I1| | |n1 I1|n1 I1|m1 v1 I1|m1 v1 I1| |]; try discriminate Ek.
      + split; reflexivity.
      + exfalso. apply (@vNU_ne_vNT _ _ _ _ _ _ _ _ H3 n1 m). exact Ek.
      + exfalso. apply (pvert3_OT Pa').
  Qed.

  Lemma HH3_A_in a w :
    edge HH3 a AT w -> isin HH3 KRoot a /\ ((a = NT n /\ w = -1) \/ (a <> NT n /\ w = 5)).
  Proof.
    intros Ed. apply HH3_edge in Ed. destruct Ed as (w0 & Fe & Pa & _ & ->).
    remember AT as k eqn:Ek.
    destruct Fe as [n1 I1|m1 v1 I1| | |n1 I1|n1 I1|m1 v1 I1|m1 v1 I1| |]; try discriminate Ek.
    - exfalso. apply (vAU_ne_vAT H3). exact Ek.
    - split; [eapply HH3_isin; eauto|]. cbn [isn vNT].
      destruct (String.eqb m1 n) eqn:En.
      + apply String.eqb_eq in En. subst m1. left. split; reflexivity.
      + right. split; [|reflexivity]. unfold vNT. intros X. inversion X. subst m1.
        rewrite String.eqb_refl in En. discriminate.
    - exfalso. apply (pvert3_OT Pa).
    - exfalso. apply (vAU_ne_vAT H3). exact Ek.
  Qed.

  Lemma HH3_NA : edge HH3 (NT n) AT (-1).
  Proof.
    destruct named_n3 as (vn & In').
    apply HH3_edge. exists w_typed. split; [apply (f3e_at_in T U f c pns named n vn In')|].
    split; [apply (pvert3_in T U f c pns named n vn In')|].
    split; [apply pvert3_AT|]. cbn [vNT isn]. rewrite String.eqb_refl. reflexivity.
  Qed.

  (* in-edges of the other vertices of the plan *)
  Lemma HH3_CS_in a w : edge HH3 a CS w -> a = AT.
  Proof.
    intros Ed. apply HH3_edge in Ed. destruct Ed as (w0 & Fe & Pa & _ & ->).
    remember CS as k eqn:Ek.
    destruct Fe as [n1 I1|m1 v1 I1| | |n1 I1|n1 I1|m1 v1 I1|m1 v1 I1| |]; try discriminate Ek; try reflexivity.
    exfalso. apply (vfk_ne_vCS H3). symmetry. exact Ek.
  Qed.

  Lemma HH3_CS_edge : edge HH3 AT CS w_typed.
  Proof.
    apply HH3_edge. exists w_typed. split; [constructor|]. split; [apply pvert3_AT|].
    split; [apply pvert3_CS|reflexivity].
  Qed.

  Lemma HH3_OU_in a w : edge HH3 a OU w -> a = CS.
  Proof.
    intros Ed. apply HH3_edge in Ed. destruct Ed as (w0 & Fe & Pa & _ & ->).
    remember OU as k eqn:Ek.
    destruct Fe as [n1 I1|m1 v1 I1| | |n1 I1|n1 I1|m1 v1 I1|m1 v1 I1| |]; try discriminate Ek; try reflexivity.
  Qed.

  Lemma HH3_OU_edge : edge HH3 CS OU w_typed.
  Proof.
    apply HH3_edge. exists w_typed. split; [constructor|]. split; [apply pvert3_CS|].
    split; [apply (pvert3_OU H3)|reflexivity].
  Qed.

  Lemma HH3_NU_in a w : edge HH3 a (NU n) w -> a = OU.
  Proof.
    intros Ed. apply HH3_edge in Ed. destruct Ed as (w0 & Fe & Pa & _ & ->).
    remember (NU n) as k eqn:Ek.
    destruct Fe as [n1 I1|m1 v1 I1| | |n1 I1|n1 I1|m1 v1 I1|m1 v1 I1| |]; try discriminate Ek; try reflexivity.
    - exfalso. apply (@vNU_ne_vNT _ _ _ _ _ _ _ _ H3 n m1). symmetry. exact Ek.
    - exfalso. apply (@vNU_ne_vNT _ _ _ _ _ _ _ _ H3 n m1). symmetry. exact Ek.
  Qed.

  Lemma HH3_NU_edge : edge HH3 OU (NU n) w_typed.
  Proof.
    apply HH3_edge. exists w_typed. split; [constructor; exact Hn|]. split; [apply (pvert3_OU H3)|].
    split; [apply pvert3_NU; exact Hn|reflexivity].
  Qed.

  (* ---------- the plan for the requirement (n, U) ---------- *)
  Definition path3 : list vkey := [KRoot; NT n; AT; CS; OU; NU n].

  Lemma reach3_edge a b0 w : GraphSpec.reach HH3 KRoot a -> edge HH3 a b0 w -> GraphSpec.reach HH3 KRoot b0.
  Proof.
    intros (pth & w0 & Wk) Ed. exists (pth ++ [b0]), (w0 + w).
    eapply walk_snoc; eauto. apply (edge_vertices HH3_wf Ed).
  Qed.

  Lemma chain3_snoc (p : amap vkey vkey) u0 v l : chain p u0 l -> lookup v p = Some u0 -> chain p v (l ++ [v]).
  Proof. intros C Q. eapply chain_step; eauto. Qed.

  Lemma chain3_path p : fin_facts HH3 KRoot p -> lookup AT p = Some (NT n) -> chain p (NU n) path3.
  Proof.
    intros (P0 & Pe & Pr) PA.
    destruct named_n3 as (vn & In').
    assert (R0 : GraphSpec.reach HH3 KRoot KRoot) by (exists [KRoot], 0; constructor; apply HH3_root).
    assert (RN : GraphSpec.reach HH3 KRoot (NT n)) by (apply (reach3_edge R0 (proj1 (HH3_isin n vn In')))).
    assert (RA : GraphSpec.reach HH3 KRoot AT) by (apply (reach3_edge RN HH3_NA)).
    assert (RC : GraphSpec.reach HH3 KRoot CS) by (apply (reach3_edge RA HH3_CS_edge)).
    assert (RO : GraphSpec.reach HH3 KRoot OU) by (apply (reach3_edge RC HH3_OU_edge)).
    assert (RU : GraphSpec.reach HH3 KRoot (NU n)) by (apply (reach3_edge RO HH3_NU_edge)).
    assert (P1 : lookup (NT n) p = Some KRoot).
    { destruct (Pr (NT n) RN ltac:(discriminate)) as (x & Q). destruct (Pe _ _ Q) as (w & Ed).
      destruct (proj2 (HH3_isin n vn In') _ _ Ed) as [-> _]. exact Q. }
    assert (P3 : lookup CS p = Some AT).
    { destruct (Pr CS RC ltac:(discriminate)) as (x & Q). destruct (Pe _ _ Q) as (w & Ed).
      rewrite (HH3_CS_in Ed) in Q. exact Q. }
    assert (P4 : lookup OU p = Some CS).
    { destruct (Pr OU RO ltac:(discriminate)) as (x & Q). destruct (Pe _ _ Q) as (w & Ed).
      rewrite (HH3_OU_in Ed) in Q. exact Q. }
    assert (P5 : lookup (NU n) p = Some OU).
    { destruct (Pr (NU n) RU ltac:(discriminate)) as (x & Q). destruct (Pe _ _ Q) as (w & Ed).
      rewrite (HH3_NU_in Ed) in Q. exact Q. }
    unfold path3.
    change [KRoot; NT n; AT; CS; OU; NU n] with ((((([KRoot] ++ [NT n]) ++ [AT]) ++ [CS]) ++ [OU]) ++ [NU n]).
    apply chain3_snoc with (u0 := OU); [|exact P5].
    apply chain3_snoc with (u0 := CS); [|exact P4].
    apply chain3_snoc with (u0 := AT); [|exact P3].
    apply chain3_snoc with (u0 := NT n); [|exact PA].
    apply chain3_snoc with (u0 := KRoot); [|exact P1].
    constructor. exact P0.
  Qed.

  Lemma dijkstra3 pops d p :
    dijkstra HH3 KRoot pops = Ok (d, p) -> lookup AT p = Some (NT n) /\ fin_facts HH3 KRoot p.
  Proof.
    intros Dj.
    destruct named_n3 as (vn0 & In').
    apply (@aff1_dijkstra vkey _ vpay HH3 KRoot HH3_wf HH3_root HH3_wbound HH3_small HH3_src_in (NT n) AT
             (HH3_isin n vn0 In') HH3_A_in HH3_NA pops d p Dj).
  Qed.

  Lemma path3_no_fk v : In v path3 -> v <> FK.
  Proof.
    unfold path3. intros I. simpl in I.
    destruct I as [<-|[<-|[<-|[<-|[<-|[<-|[]]]]]]]; try discriminate.
    apply (vfk_ne_vCS H3).
  Qed.

  Lemma plan3_eq s path bad s' :
    plan PG false (NU n) s = Ok (path, bad, s') ->
    path = path3 /\ bad = existsb (fun v => memb v (s_inprog s)) path3 /\
    exists t', s' = add_input (set_tape s t') (NT n).
  Proof.
    unfold plan. change (discount PG (NU n)) with cgD3. change (g_reverse cgD3) with HH3.
    unfold dijkstra_t.
    destruct (take_pops (List.length (g_vertex_keys HH3)) (s_tape s)) as [[pops t']| | |]; cbn [bind]; try discriminate.
    destruct (dijkstra HH3 KRoot pops) as [[d p]| | |] eqn:Dj; cbn [bind]; try discriminate.
    destruct (dijkstra3 _ Dj) as [PA FF].
    pose proof (chain3_path FF PA) as Ch.
    unfold edge_to_path.
    rewrite (etp_chain Ch).
    2:{ destruct cgD3_facts as (_ & _ & Hk & _). rewrite Hk. pose proof (PG3_keys_ge H3). unfold path3.
        cbn [List.length]. lia. }
    rewrite app_nil_r. cbn [bind].
    assert (Inp : match path3 with KRoot :: x :: _ => x | x :: _ => x | [] => NU n end = NT n) by reflexivity.
    rewrite Inp. intros Q. inversion Q. split; [reflexivity|]. split; [reflexivity|]. exists t'. reflexivity.
  Qed.
End F3Plan.

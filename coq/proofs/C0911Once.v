(* C0911Once.v -- proofs of C09 (Redefine executes nothing and leaves the
   world untouched) and C11 (run-once functions execute at most once and a
   memoized result is never recomputed). *)
From ArgMapper Require Import Base Graph GraphAlg GenWeights Types Args Resolver ResolverSpec CheckResolver Monitors ResolverStatements.
From ArgMapper.proofs Require Import C19RefineMap C18DijkstraLemmas C0911OnceLemmas.
Set Implicit Arguments.
Local Open Scope Z_scope.
Local Open Scope list_scope.

(* ================= traces made of generator events only ================= *)
Definition is_gen (e : event) : bool := match e with EExec _ _ _ _ => false | EGen _ _ => true end.
Definition gen_only (tr : list event) : Prop := forallb is_gen tr = true.

Lemma gen_only_nil : gen_only []. Proof. reflexivity. Qed.
Lemma gen_only_snoc tr gid k : gen_only tr -> gen_only (tr ++ [EGen gid k]).
Proof. unfold gen_only. intros H. rewrite forallb_app, H. reflexivity. Qed.

Lemma gen_only_count fid tr : gen_only tr -> exec_count fid tr = O.
Proof.
  unfold gen_only, exec_count. induction tr as [|e tr IH]; simpl; intros H.
  - reflexivity.
  - apply andb_true_iff in H. destruct H as [H1 H2].
    destruct e; simpl in *; [discriminate|]. apply IH. exact H2.
Qed.

Lemma exec_count_app fid a b : exec_count fid (a ++ b) = (exec_count fid a + exec_count fid b)%nat.
Proof. unfold exec_count. rewrite filter_app, app_length. reflexivity. Qed.

(* ================= generic fold invariant ================= *)
Lemma fold_inv {A B} (P : A -> Prop) (F : A -> B -> A) (l : list B) :
  (forall a x, In x l -> P a -> P (F a x)) -> forall a, P a -> P (fold_left F l a).
Proof.
  induction l as [|x l IH]; intros HF a Pa; simpl.
  - exact Pa.
  - apply IH.
    + intros a0 x0 I. apply HF. right; exact I.
    + apply HF; [left; reflexivity|exact Pa].
Qed.

(* ================= payloads of the graph ================= *)
Definition pay_in (L : list fdecl) (g : rgraph) : Prop :=
  forall k h, lookup k (ghash g) = Some (PFunc h) -> In h L.

Lemma pay_empty L : pay_in L g_empty.
Proof. intros k h E. simpl in E. discriminate. Qed.

Lemma pay_add_none L g k : pay_in L g -> pay_in L (g_add g k Resolver.PNone).
Proof.
  intros P k' h. unfold g_add. destruct (mem k (gout g)); [apply P|].
  cbn [ghash]. rewrite lookup_insert. destruct (Base.eqb k' k); [discriminate|apply P].
Qed.

Lemma pay_add_func L g k f : In f L -> pay_in L g -> pay_in L (g_add g k (PFunc f)).
Proof.
  intros I P k' h. unfold g_add. destruct (mem k (gout g)); [apply P|].
  cbn [ghash]. rewrite lookup_insert. destruct (Base.eqb k' k); [|apply P].
  intros E. inversion E; subst. exact I.
Qed.

Lemma pay_add_over_none L g k : pay_in L g -> pay_in L (g_add_overwrite g k Resolver.PNone).
Proof.
  intros P k' h. unfold g_add_overwrite. destruct (mem k (gout g)); cbn [ghash];
    rewrite lookup_insert; (destruct (Base.eqb k' k); [discriminate|apply P]).
Qed.

Lemma pay_add_v L g k : pay_in L g -> pay_in L (add_v g k).
Proof. apply pay_add_none. Qed.

Lemma pay_add_e L g a b w : pay_in L g -> pay_in L (add_e g a b w).
Proof.
  intros P. unfold add_e, g_add_edge.
  destruct (mem a (ghash g) && mem b (ghash g)); [|exact P].
  destruct (lookup a (gout g)); [|exact P].
  destruct (lookup b (gin g)); [|exact P].
  intros k h. cbn [ghash]. apply P.
Qed.

Lemma pay_remove L g k : pay_in L g -> pay_in L (g_remove g k).
Proof.
  intros P k' h. unfold g_remove. cbn [ghash]. rewrite lookup_delete.
  destruct (Base.eqb k' k); [discriminate|apply P].
Qed.

#[local] Hint Resolve pay_add_v pay_add_e pay_add_none pay_add_over_none pay_remove : pay.

Lemma pay_func_graph L g f io : In f L -> pay_in L g -> pay_in L (func_graph g f io).
Proof.
  intros I P. unfold func_graph.
  assert (P1 : pay_in L (g_add g (KFunc (fn_type f)) (PFunc f))) by (apply pay_add_func; assumption).
  assert (P2 : pay_in L (match fn_in f with
                         | [] => add_e (g_add g (KFunc (fn_type f)) (PFunc f)) (KFunc (fn_type f)) KRoot w_normal
                         | _ :: _ => g_add g (KFunc (fn_type f)) (PFunc f) end)).
  { destruct (fn_in f); auto with pay. }
  destruct io.
  - apply fold_inv; [intros; auto with pay|].
    apply fold_inv; [intros; auto with pay|].
    apply fold_inv; [intros; auto with pay|]. exact P2.
  - apply fold_inv; [intros; auto with pay|]. exact P2.
Qed.

Lemma pay_step_values L g : pay_in L g -> pay_in L (step_values g).
Proof.
  intros P. unfold step_values. apply fold_inv; [|exact P].
  intros a x _ Pa. destruct x as [|ft|n t st|t st|t st]; auto.
  destruct (String.eqb st EmptyString); auto 10 with pay.
Qed.

Lemma pay_step_args L g : pay_in L g -> pay_in L (step_args g).
Proof.
  intros P. unfold step_args. apply fold_inv; [|exact P].
  intros a x _ Pa. destruct x as [|ft|n t st|t st|t st]; auto with pay.
Qed.

Lemma pay_step_ifaces L u g : pay_in L g -> pay_in L (step_ifaces u g).
Proof.
  intros P. unfold step_ifaces. apply fold_inv; [|exact P].
  intros a x _ Pa. destruct x as [|ft|n t st|t st|t st]; auto.
  destruct (is_iface u t); auto.
  apply fold_inv; [|exact Pa].
  intros a2 x2 _ Pa2. destruct x2 as [|ft2|n2 t2 st2|t2 st2|t2 st2]; auto.
  match goal with |- pay_in _ (if ?c then _ else _) => destruct c end; auto with pay.
Qed.

Lemma pay_step_named_sub L valued g : pay_in L g -> pay_in L (step_named_sub valued g).
Proof.
  intros P. unfold step_named_sub. apply fold_inv; [|exact P].
  intros a x _ Pa. destruct x as [|ft|n t st|t st|t st]; auto.
  match goal with |- pay_in _ (if ?c then _ else _) => destruct c end; auto.
  apply fold_inv; [|exact Pa].
  intros a2 x2 _ Pa2. destruct x2 as [|ft2|n2 t2 st2|t2 st2|t2 st2]; auto.
  match goal with |- pay_in _ (if ?c then _ else _) => destruct c end; auto with pay.
Qed.

Lemma pay_step_arg_sub L g : pay_in L g -> pay_in L (step_arg_sub g).
Proof.
  intros P. unfold step_arg_sub. apply fold_inv; [|exact P].
  intros a x _ Pa. destruct x as [|ft|n t st|t st|t st]; auto.
  apply fold_inv; [|exact Pa].
  intros a2 x2 _ Pa2. destruct x2 as [|ft2|n2 t2 st2|t2 st2|t2 st2]; auto.
  match goal with |- pay_in _ (if ?c then _ else _) => destruct c end; auto with pay.
Qed.

Lemma pay_step_redefine L u fin g : pay_in L g -> pay_in L (step_redefine u fin g).
Proof.
  intros P. unfold step_redefine. apply fold_inv; [|exact P].
  intros a x _ Pa.
  destruct x as [|ft|n t st|t st|t st]; auto;
    match goal with |- pay_in _ (if ?c then _ else _) => destruct c end; auto with pay.
Qed.

(* ================= run_gens ================= *)
Definition rg_inner (k : vkey) (acc : rgraph * list fdecl * list event * option Z) (gn : gen)
  : rgraph * list fdecl * list event * option Z :=
  let '(g, convs, tr, err) := acc in
  match err with
  | Some _ => acc
  | None =>
      let tr := tr ++ [EGen (gen_id gn) k] in
      match lookup k (gen_table gn) with
      | Some (GErr e) => (g, convs, tr, Some e)
      | Some (GFunc f) => (func_graph g f true, convs ++ [f], tr, None)
      | _ => (g, convs, tr, None)
      end
  end.

Definition rg_outer (gens : list gen) (acc : rgraph * list fdecl * list event * option Z) (k : vkey)
  : rgraph * list fdecl * list event * option Z :=
  let '(g, convs, tr, err) := acc in
  match err with
  | Some _ => acc
  | None => if value_of_vertex k then fold_left (rg_inner k) gens acc else acc
  end.

Lemma run_gens_eq g gens ks convs tr :
  run_gens g gens ks convs tr = fold_left (rg_outer gens) ks (g, convs, tr, None).
Proof. reflexivity. Qed.

Definition rg_ok (L : list fdecl) (acc : rgraph * list fdecl * list event * option Z) : Prop :=
  pay_in L (fst (fst (fst acc))) /\ gen_only (snd (fst acc)).

Lemma gen_funcs_in gens gn k f :
  In gn gens -> lookup k (gen_table gn) = Some (GFunc f) -> In f (gen_funcs gens).
Proof.
  intros I E. unfold gen_funcs. apply in_flat_map. exists gn. split; [exact I|].
  apply in_flat_map. exists (k, GFunc f). split.
  - apply lookup_In. exact E.
  - simpl. left; reflexivity.
Qed.

Lemma rg_inner_ok L gens k acc gn :
  (forall f, In f (gen_funcs gens) -> In f L) -> In gn gens -> rg_ok L acc -> rg_ok L (rg_inner k acc gn).
Proof.
  intros HL I [P G]. destruct acc as [[[g convs] tr] err]. cbn [fst snd] in P, G.
  unfold rg_inner. destruct err as [e|].
  - split; assumption.
  - destruct (lookup k (gen_table gn)) as [[|e|f]|] eqn:LK; split; cbn [fst snd];
      try (apply gen_only_snoc; exact G); try exact P.
    apply pay_func_graph; [|exact P]. apply HL. eapply gen_funcs_in; eauto.
Qed.

Lemma rg_outer_ok L gens acc k :
  (forall f, In f (gen_funcs gens) -> In f L) -> rg_ok L acc -> rg_ok L (rg_outer gens acc k).
Proof.
  intros HL OK. destruct acc as [[[g convs] tr] err]. unfold rg_outer.
  destruct err as [e|]; [exact OK|].
  destruct (value_of_vertex k); [|exact OK].
  apply fold_inv; [|exact OK].
  intros a gn I Pa. apply rg_inner_ok with (gens := gens); assumption.
Qed.

Lemma run_gens_ok L g gens ks convs tr g' convs' tr' err :
  (forall f, In f (gen_funcs gens) -> In f L) -> pay_in L g -> gen_only tr ->
  run_gens g gens ks convs tr = (g', convs', tr', err) -> pay_in L g' /\ gen_only tr'.
Proof.
  intros HL P G E. rewrite run_gens_eq in E.
  assert (OK : rg_ok L (fold_left (rg_outer gens) ks (g, convs, tr, None))).
  { apply fold_inv; [|split; assumption]. intros a x _ Pa. apply rg_outer_ok; assumption. }
  rewrite E in OK. exact OK.
Qed.

(* ================= full_graph / prune / call_graph ================= *)
Lemma known_f f b : In f (known_funcs f b).
Proof. left; reflexivity. Qed.
Lemma known_conv f b c : In c (b_convs b) -> In c (known_funcs f b).
Proof. intros I. right. apply in_or_app. left; exact I. Qed.
Lemma known_gen f b c : In c (gen_funcs (b_gens b)) -> In c (known_funcs f b).
Proof. intros I. right. apply in_or_app. right; exact I. Qed.

Lemma full_graph_ok u f b rd t r tr0 :
  full_graph u f b rd t = Ok (r, tr0) ->
  gen_only tr0 /\
  match r with
  | inl fg => pay_in (known_funcs f b) (fg_g fg) /\ fg_trace fg = tr0
  | inr _ => True
  end.
Proof.
  unfold full_graph. intros E.
  match type of E with bind ?X _ = _ => destruct X as [[ks t1]| | |] end; cbn [bind] in E; try discriminate.
  match type of E with context [run_gens ?a1 ?a2 ?a3 ?a4 ?a5] =>
    destruct (run_gens a1 a2 a3 a4 a5) as [[[g' convs'] tr'] gerr] eqn:RG end.
  apply run_gens_ok with (L := known_funcs f b) in RG.
  - destruct RG as [P G].
    destruct gerr as [e|].
    + inversion E; subst. split; [exact G|exact I].
    + inversion E; subst. split; [exact G|]. cbn [fg_g fg_trace]. split; [|reflexivity].
      assert (P5 : pay_in (known_funcs f b)
                     (step_arg_sub (step_named_sub (fun k => mem k (fold_left (fun m kv => insert (fst kv) (snd kv) m) (input_vertices b) []))
                        (step_ifaces u (step_args (step_values g')))))).
      { apply pay_step_arg_sub, pay_step_named_sub, pay_step_ifaces, pay_step_args, pay_step_values. exact P. }
      destruct rd; [apply pay_step_redefine|]; exact P5.
  - intros c. apply known_gen.
  - apply fold_inv.
    + intros a c I Pa. apply pay_func_graph; [apply known_conv; exact I|exact Pa].
    + apply fold_inv.
      * intros a kv _ Pa. auto with pay.
      * apply pay_func_graph; [apply known_f|]. apply pay_add_none. apply pay_empty.
  - apply gen_only_nil.
Qed.

Lemma prune_ok L fg cg :
  pay_in L (fg_g fg) -> prune fg = inl cg -> pay_in L (cg_g cg) /\ cg_trace cg = fg_trace fg.
Proof.
  intros P. unfold prune.
  match goal with |- match ?X with _ => _ end = _ -> _ => destruct X end; [|discriminate].
  intros E. inversion E; subst. cbn [cg_g cg_trace]. split; [|reflexivity].
  apply fold_inv; [|exact P].
  intros a k _ Pa.
  match goal with |- pay_in _ (if ?c then _ else _) => destruct c end; auto with pay.
Qed.

Lemma call_graph_ok u f b rd t r tr0 :
  call_graph u f b rd t = Ok (r, tr0) ->
  gen_only tr0 /\
  match r with
  | inl cg => pay_in (known_funcs f b) (cg_g cg) /\ cg_trace cg = tr0
  | inr _ => True
  end.
Proof.
  unfold call_graph. intros E.
  destruct (full_graph u f b rd t) as [[r1 tr1]| | |] eqn:FG; cbn [bind] in E; try discriminate.
  apply full_graph_ok in FG. destruct FG as [G R1].
  destruct r1 as [fg|e].
  - inversion E; subst. split; [exact G|].
    destruct (prune fg) as [cg|e] eqn:PR; [|exact I].
    destruct R1 as [P T]. apply prune_ok with (L := known_funcs f b) in PR; [|exact P].
    destruct PR as [P' T']. split; [exact P'|]. rewrite T'. exact T.
  - inversion E; subst. split; [exact G|exact I].
Qed.

(* ================= C09 ================= *)
Lemma call_direct_redefine u bh f am s r s' :
  call_direct u bh true f am s = Ok (r, s') -> s' = s.
Proof.
  unfold call_direct. intros E.
  destruct (if fn_once f then lookup (fn_id f) (s_world s) else None) as [r0|].
  - inversion E; reflexivity.
  - match type of E with (if ?c then _ else _) = _ => destruct c end; [discriminate|].
    match type of E with (if ?c then _ else _) = _ => destruct c end; inversion E; reflexivity.
Qed.

Lemma reach_redefine_core u bh g fuel target s s' r :
  reach u bh g true fuel target s = Ok (s', r) -> core s' = core s.
Proof.
  intros E. symmetry.
  eapply (@reach_inv u bh g true (fun a b => a = b)); [| | |exact E].
  - intros; reflexivity.
  - intros a b c -> ->; reflexivity.
  - intros v f am s0 r0 s1 _ CD. apply call_direct_redefine in CD. subst. reflexivity.
Qed.

Theorem C09_proof : C09_statement.
Proof.
  unfold C09_statement. intros u f d opts w t x r E.
  fold is_gen. change (run_world r = w /\ gen_only (run_trace r)).
  unfold redefine in E.
  destruct (build_args [] opts) as [bo|]; [|inversion E; subst; split; [reflexivity|apply gen_only_nil]].
  match type of E with (if ?c then _ else _) = _ => destruct c end;
    [inversion E; subst; split; [reflexivity|apply gen_only_nil]|].
  destruct (build_args d opts) as [b|]; [|inversion E; subst; split; [reflexivity|apply gen_only_nil]].
  destruct (call_graph u f b true t) as [[cgr tr0]| | |] eqn:CG; cbn [bind] in E; try discriminate.
  apply call_graph_ok in CG. destruct CG as [G R].
  destruct cgr as [cg|e]; [|inversion E; subst; split; [reflexivity|exact G]].
  destruct R as [_ T].
  destruct (reach u (fun _ _ => BOk) (cg_g cg) true (fuel_of cg) (cg_target cg) (init_state cg w))
    as [[s r0]| | |] eqn:R; cbn [bind] in E; try discriminate.
  apply reach_redefine_core in R. unfold core, init_state in R. cbn [s_world s_trace s_nexec] in R.
  inversion R as [[RW RT RN]]. clear R.
  assert (Goal : forall rn, rn = mkRun (match r0 with inr e => OErr e | inl _ => OOk (mkR [] None false) end)
                                (s_trace s) (mkW (s_world s) (s_nexec s)) (s_tape s) (s_inputs s) ->
                       run_world rn = w /\ gen_only (run_trace rn)).
  { intros rn ->. cbn [run_world run_trace]. rewrite RW, RT, RN, T. split; [destruct w; reflexivity|exact G]. }
  destruct r0 as [am|e].
  - match type of E with (if ?c then _ else _) = _ => destruct c end;
      inversion E; subst; apply Goal; reflexivity.
  - inversion E; subst; apply Goal; reflexivity.
Qed.
Print Assumptions C09_proof.

(* ================= C11 ================= *)
Section C11.
  Variable gid : Z.

  Definition Q11 (c c' : amap Z result * list event * Z) : Prop :=
    exists ext, snd (fst c') = snd (fst c) ++ ext /\
      (mem gid (fst (fst c)) = true ->
         exec_count gid ext = O /\ lookup gid (fst (fst c')) = lookup gid (fst (fst c))) /\
      (mem gid (fst (fst c)) = false ->
         (exec_count gid ext <= 1)%nat /\ (exec_count gid ext = 1%nat -> mem gid (fst (fst c')) = true)).

  Lemma Q11_refl c : Q11 c c.
  Proof.
    exists []. rewrite app_nil_r. split; [reflexivity|]. split.
    - intros _. split; reflexivity.
    - intros _. split; [apply Nat.le_0_l|]. unfold exec_count; simpl. discriminate.
  Qed.

  Lemma mem_of_lookup_eq (w w' : amap Z result) : lookup gid w' = lookup gid w -> mem gid w' = mem gid w.
  Proof. unfold mem. intros ->. reflexivity. Qed.

  Lemma Q11_trans a b c : Q11 a b -> Q11 b c -> Q11 a c.
  Proof.
    intros [e1 [T1 [A1 B1]]] [e2 [T2 [A2 B2]]].
    exists (e1 ++ e2). split; [rewrite T2, T1, app_assoc; reflexivity|].
    rewrite exec_count_app. split.
    - intros M. destruct (A1 M) as [C1 L1].
      assert (M' : mem gid (fst (fst b)) = true) by (rewrite (mem_of_lookup_eq _ _ L1); exact M).
      destruct (A2 M') as [C2 L2]. split; [lia|congruence].
    - intros M. destruct (B1 M) as [C1 D1].
      destruct (mem gid (fst (fst b))) eqn:M'.
      + destruct (A2 eq_refl) as [C2 L2]. split; [lia|].
        intros _. rewrite (mem_of_lookup_eq _ _ L2). exact M'.
      + destruct (B2 eq_refl) as [C2 D2].
        assert (C0 : exec_count gid e1 = O).
        { destruct (exec_count gid e1) as [|[|n]] eqn:X; [reflexivity| |lia].
          discriminate (D1 eq_refl). }
        split; [lia|]. intros X. apply D2. lia.
  Qed.

  Lemma call_direct_Q11 u bh h am s r s' :
    (fn_id h = gid -> fn_once h = true) ->
    call_direct u bh false h am s = Ok (r, s') -> Q11 (core s) (core s').
  Proof.
    intros HO. unfold call_direct. intros E.
    destruct (if fn_once h then lookup (fn_id h) (s_world s) else None) as [r0|] eqn:LK.
    { inversion E; subst. apply Q11_refl. }
    match type of E with (if ?c then _ else _) = _ => destruct c end; [discriminate|].
    match type of E with (if ?c then _ else _) = _ => destruct c end.
    { inversion E; subst. apply Q11_refl. }
    destruct (match bh (fn_id h) (s_nexec s + 1) with
              | BOk => (fresh_outs h (s_nexec s + 1), None)
              | BErr e => (zero_outs h, Some e)
              | BNil => (zero_outs h, None)
              end) as [outs err].
    inversion E; subst. clear E.
    unfold core, Q11. cbn [s_world s_trace s_nexec fst snd].
    eexists. split; [reflexivity|].
    unfold exec_count. cbn [filter is_exec_of].
    destruct (Z.eqb_spec (fn_id h) gid) as [EQ|NE].
    - rewrite (HO EQ) in *. rewrite EQ in *.
      assert (MF : mem gid (s_world s) = false) by (apply mem_false; exact LK).
      rewrite MF. split; [discriminate|]. intros _. cbn [length]. split; [apply le_n|].
      intros _. unfold mem. rewrite lookup_insert_eq. reflexivity.
    - cbn [length]. split.
      + intros _. split; [reflexivity|].
        destruct (fn_once h); [|reflexivity].
        apply lookup_insert_neq. congruence.
      + intros _. split; [apply Nat.le_0_l|discriminate].
  Qed.

  Lemma Q11_final (w : world) tr0 (ww : amap Z result) tr n :
    gen_only tr0 ->
    Q11 (w_once w, tr0, w_nexec w) (ww, tr, n) ->
    (mem gid (w_once w) = true -> exec_count gid tr = O /\ lookup gid ww = lookup gid (w_once w)) /\
    (mem gid (w_once w) = false -> (exec_count gid tr <= 1)%nat /\
                                   (exec_count gid tr = 1%nat -> mem gid ww = true)).
  Proof.
    intros G [ext [T [A B]]]. cbn [fst snd] in *. subst tr.
    rewrite exec_count_app, (gen_only_count gid G). exact (conj A B).
  Qed.
End C11.

Theorem C11_proof : C11_statement.
Proof.
  unfold C11_statement. intros u bh f d opts w t r g E ONCE HK.
  unfold call in E.
  destruct (build_args d opts) as [b|] eqn:BA.
  2:{ inversion E; subst. cbn [run_trace run_world].
      apply (@Q11_final (fn_id g) w [] (w_once w) [] (w_nexec w) gen_only_nil). apply Q11_refl. }
  specialize (HK b eq_refl).
  assert (HKF : forall h, In h (known_funcs f b) -> fn_id h = fn_id g -> fn_once h = true).
  { intros h I EQ. rewrite forallb_forall in HK. specialize (HK h I).
    apply Z.eqb_eq in EQ. rewrite EQ in HK. exact HK. }
  destruct (call_graph u f b false t) as [[cgr tr0]| | |] eqn:CG; cbn [bind] in E; try discriminate.
  apply call_graph_ok in CG. destruct CG as [G R].
  destruct cgr as [cg|e].
  2:{ inversion E; subst. cbn [run_trace run_world].
      apply (@Q11_final (fn_id g) w tr0 (w_once w) tr0 (w_nexec w) G). apply Q11_refl. }
  destruct R as [P T].
  destruct (reach u bh (cg_g cg) false (fuel_of cg) (cg_target cg) (init_state cg w))
    as [[s r0]| | |] eqn:R; cbn [bind] in E; try discriminate.
  assert (QR : Q11 (fn_id g) (core (init_state cg w)) (core s)).
  { eapply (@reach_inv u bh (cg_g cg) false (Q11 (fn_id g))); [| | |exact R].
    - apply Q11_refl.
    - apply Q11_trans.
    - intros v h am s0 r1 s1 GV CD. eapply call_direct_Q11; [|exact CD].
      apply HKF. apply (P v h). exact GV. }
  unfold core at 1 in QR. unfold init_state in QR. cbn [s_world s_trace s_nexec] in QR. rewrite T in QR.
  destruct r0 as [am|e].
  - destruct (call_direct u bh false f am s) as [[res s2]| | |] eqn:CD; cbn [bind] in E; try discriminate.
    apply call_direct_Q11 with (gid := fn_id g) in CD; [|apply HKF; apply known_f].
    inversion E; subst. cbn [run_trace run_world w_once].
    apply (@Q11_final (fn_id g) w _ (s_world s2) (s_trace s2) (s_nexec s2) G).
    eapply Q11_trans; [exact QR|exact CD].
  - inversion E; subst. cbn [run_trace run_world w_once].
    apply (@Q11_final (fn_id g) w _ (s_world s) (s_trace s) (s_nexec s) G). exact QR.
Qed.
Print Assumptions C11_proof.

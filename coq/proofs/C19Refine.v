(* C19Refine.v -- proof of C19_statement: histories of graph operations over
   several handles refine the abstract adjacency model.

   Representation invariant: a partial map [cm] from abstract classes to
   triples of heap cells (out cell, in cell, hash cell).
   - HeapInv: allocated classes own valid, pairwise disjoint cells whose
     content is a well-formed graph agreeing with the abstract class;
   - HandInv: handle (c,false) references (out,in,hash), handle (c,true)
     references (in,out,hash); a handle of a class without cells is the
     zero handle, is the only handle of its class, and the class is empty. *)
From ArgMapper Require Import Base Graph GraphAlg GraphHist GraphSpec GraphStatements.
From ArgMapper.proofs Require Import C19RefineMap C19RefineGraph.
From Coq Require Import Lia.
Set Implicit Arguments.

Section R.
  Context {K : Type} {E : EqDec K} {V : Type}.
  Notation graph := (graph K V).
  Notation heap := (heap K V).
  Notation hstate := (hstate K V).
  Notation amodel := (@amodel K V).
  Notation astate := (@astate K V).
  Notation gop := (gop K V).

  Definition cells := (nat * nat * nat)%type.

  Definition is_empty (m : amodel) : Prop :=
    (forall k, mv m k = None) /\ (forall a b, me m a b = None).

  Definition cell_graph (hp : heap) (t : cells) : graph :=
    let '(o, i, x) := t in
    mkGraph (nth o (adj_cells hp) []) (nth i (adj_cells hp) []) (nth x (hash_cells hp) []).

  Definition hd_of (t : cells) (r : bool) : handle :=
    let '(o, i, x) := t in
    if r then mkHandle (Some i) (Some o) (Some x) else mkHandle (Some o) (Some i) (Some x).

  Definition cupd (cm : nat -> option cells) (c : nat) (t : cells) : nat -> option cells :=
    fun c' => if Nat.eqb c' c then Some t else cm c'.

  Definition new_cells (hp : heap) (r : bool) : cells :=
    let n := length (adj_cells hp) in
    if r then (S n, n, length (hash_cells hp)) else (n, S n, length (hash_cells hp)).

  Definition alloc (hp : heap) (g : graph) : heap :=
    mkHeap (adj_cells hp ++ [gout g; gin g]) (hash_cells hp ++ [ghash g]).

  Record HeapInv (cm : nat -> option cells) (hp : heap) (cl : list amodel) : Prop := {
    pi_out : forall c, length cl <= c -> cm c = None;
    pi_cells : forall c o i x, cm c = Some (o, i, x) ->
      o < length (adj_cells hp) /\ i < length (adj_cells hp) /\ x < length (hash_cells hp) /\
      o <> i /\ agrees (cell_graph hp (o, i, x)) (nth c cl a_empty) false;
    pi_disj : forall c c' o i x o' i' x', c <> c' ->
      cm c = Some (o, i, x) -> cm c' = Some (o', i', x') ->
      o <> o' /\ o <> i' /\ i <> o' /\ i <> i' /\ x <> x'
  }.

  Record HandInv (cm : nat -> option cells) (hs : list handle) (cl : list amodel)
         (hm : list (nat * bool)) : Prop := {
    hi_len : length hs = length hm;
    hi_cls : forall h c r, h < length hm -> nth h hm (O, false) = (c, r) -> c < length cl;
    hi_hd : forall h c r, h < length hm -> nth h hm (O, false) = (c, r) ->
      match cm c with
      | Some t => nth h hs zero_handle = hd_of t r
      | None => nth h hs zero_handle = zero_handle /\ r = false /\
                is_empty (nth c cl a_empty) /\
                (forall h' r', h' < length hm -> nth h' hm (O, false) = (c, r') -> h' = h)
      end
  }.

  Definition Inv (s : hstate) (a : astate) : Prop :=
    exists cm, HeapInv cm (hp s) (classes a) /\ HandInv cm (handles s) (classes a) (hmap a).

  (* ---------- agrees and reversal ---------- *)
  Lemma agrees_load_form (cg : graph) (m : amodel) (r : bool) :
    agrees cg m false -> agrees (if r then g_reverse cg else cg) m r.
  Proof.
    intros A. destruct r; [|exact A].
    apply agrees_gspec. apply agrees_gspec in A.
    apply gspec_reverse in A. exact A.
  Qed.

  Lemma agrees_store_form (g : graph) (m : amodel) (r : bool) :
    agrees g m r ->
    agrees (if r then g_reverse g else mkGraph (gout g) (gin g) (ghash g)) m false.
  Proof.
    intros A. destruct r.
    - apply agrees_gspec. apply agrees_gspec in A.
      apply gspec_reverse in A. exact A.
    - destruct g; exact A.
  Qed.

  Lemma agrees_empty (m : amodel) : is_empty m -> agrees (@g_empty K V) m false.
  Proof.
    intros [Ev Ee]. apply agrees_gspec. apply gspec_empty; auto.
  Qed.

  (* ---------- handles, load, store, alloc ---------- *)
  Lemma load_hd_of (hp : heap) (t : cells) (r : bool) :
    load hp (hd_of t r) = if r then g_reverse (cell_graph hp t) else cell_graph hp t.
  Proof. destruct t as [[o i] x]. destruct r; reflexivity. Qed.

  Lemma store_adj_len (hp : heap) (t : cells) (r : bool) (g : graph) :
    length (adj_cells (store hp (hd_of t r) g)) = length (adj_cells hp).
  Proof.
    destruct t as [[o i] x]. destruct r; simpl; rewrite !length_set_nth; reflexivity.
  Qed.

  Lemma store_hash_len (hp : heap) (t : cells) (r : bool) (g : graph) :
    length (hash_cells (store hp (hd_of t r) g)) = length (hash_cells hp).
  Proof.
    destruct t as [[o i] x]. destruct r; simpl; rewrite !length_set_nth; reflexivity.
  Qed.

  Lemma cell_graph_store_same (hp : heap) (o i x : nat) (r : bool) (g : graph) :
    o < length (adj_cells hp) -> i < length (adj_cells hp) -> x < length (hash_cells hp) ->
    o <> i ->
    cell_graph (store hp (hd_of (o, i, x) r) g) (o, i, x) =
    if r then g_reverse g else mkGraph (gout g) (gin g) (ghash g).
  Proof.
    intros Lo Li Lx N. destruct r; unfold cell_graph, store, hd_of, g_reverse; simpl.
    - f_equal.
      + rewrite nth_set_nth_neq by exact N. apply nth_set_nth_eq; exact Lo.
      + apply nth_set_nth_eq. rewrite length_set_nth; exact Li.
      + apply nth_set_nth_eq; exact Lx.
    - f_equal.
      + apply nth_set_nth_eq. rewrite length_set_nth; exact Lo.
      + rewrite nth_set_nth_neq by (intros Q; apply N; symmetry; exact Q).
        apply nth_set_nth_eq; exact Li.
      + apply nth_set_nth_eq; exact Lx.
  Qed.

  Lemma cell_graph_store_other (hp : heap) (o i x o' i' x' : nat) (r : bool) (g : graph) :
    o' <> o -> o' <> i -> i' <> o -> i' <> i -> x' <> x ->
    cell_graph (store hp (hd_of (o, i, x) r) g) (o', i', x') = cell_graph hp (o', i', x').
  Proof.
    intros N1 N2 N3 N4 N5. destruct r; unfold cell_graph, store, hd_of; simpl;
      rewrite !nth_set_nth_neq by assumption; reflexivity.
  Qed.

  Lemma cell_graph_alloc_new (hp : heap) (g : graph) (r : bool) :
    cell_graph (alloc hp g) (new_cells hp r) =
    if r then g_reverse g else mkGraph (gout g) (gin g) (ghash g).
  Proof.
    destruct r; unfold cell_graph, alloc, new_cells, g_reverse; simpl;
      rewrite nth_app_len, nth_app_len1, nth_app_len; reflexivity.
  Qed.

  Lemma cell_graph_alloc_old (hp : heap) (g : graph) (o i x : nat) :
    o < length (adj_cells hp) -> i < length (adj_cells hp) -> x < length (hash_cells hp) ->
    cell_graph (alloc hp g) (o, i, x) = cell_graph hp (o, i, x).
  Proof.
    intros Lo Li Lx. unfold cell_graph, alloc; simpl.
    rewrite !nth_app_l by assumption. reflexivity.
  Qed.

  Lemma h_copy_eq (hp : heap) (hd : handle) (r : bool) :
    h_copy hp hd = (alloc hp (load hp hd), hd_of (new_cells hp r) r).
  Proof. destruct r; reflexivity. Qed.

  Lemma h_init_zero (hp : heap) :
    h_init hp zero_handle = (alloc hp g_empty, hd_of (new_cells hp false) false).
  Proof.
    unfold h_init, zero_handle, alloc, new_cells, hd_of; simpl.
    rewrite <- app_assoc. simpl. rewrite app_length. simpl. rewrite Nat.add_1_r. reflexivity.
  Qed.

  Lemma h_init_hd_of (hp : heap) (t : cells) (r : bool) :
    h_init hp (hd_of t r) = (hp, hd_of t r).
  Proof. destruct t as [[o i] x]. destruct r; reflexivity. Qed.

  Lemma hd_of_swap (t : cells) (r : bool) :
    mkHandle (h_in (hd_of t r)) (h_out (hd_of t r)) (h_hash (hd_of t r)) = hd_of t (negb r).
  Proof. destruct t as [[o i] x]. destruct r; reflexivity. Qed.

  Lemma nth_snoc_cases {A} (h : nat) (l : list A) (x d : A) :
    h < length (l ++ [x]) ->
    (h < length l /\ nth h (l ++ [x]) d = nth h l d) \/
    (h = length l /\ nth h (l ++ [x]) d = x).
  Proof.
    rewrite app_length; simpl. intros L.
    destruct (Nat.eq_dec h (length l)) as [->|N].
    - right. split; [reflexivity|]. apply nth_app_len.
    - left. split; [lia|]. apply nth_app_l; lia.
  Qed.

  (* ---------- HeapInv preservation ---------- *)
  Lemma heap_cm_lt cm hp cl c t : HeapInv cm hp cl -> cm c = Some t -> c < length cl.
  Proof.
    intros HP Cm. destruct (le_lt_dec (length cl) c) as [L|L]; [|exact L].
    rewrite (pi_out HP L) in Cm. discriminate.
  Qed.

  Lemma heap_store cm hp cl c t r g' m' :
    HeapInv cm hp cl -> cm c = Some t -> agrees g' m' r ->
    HeapInv cm (store hp (hd_of t r) g') (set_nth c m' cl).
  Proof.
    intros HP Cm A. pose proof (heap_cm_lt _ HP Cm) as Lc.
    destruct t as [[o i] x].
    destruct (pi_cells HP _ Cm) as (Lo & Li & Lx & Noi & _).
    constructor.
    - intros c0. rewrite length_set_nth. apply (pi_out HP).
    - intros c0 o0 i0 x0 Cm0. rewrite store_adj_len, store_hash_len.
      destruct (Nat.eq_dec c0 c) as [->|Nc].
      + rewrite Cm in Cm0. inversion Cm0; subst o0 i0 x0.
        split; [exact Lo|]. split; [exact Li|]. split; [exact Lx|]. split; [exact Noi|].
        rewrite cell_graph_store_same by assumption.
        rewrite nth_set_nth_eq by exact Lc.
        apply agrees_store_form; exact A.
      + destruct (pi_cells HP _ Cm0) as (Lo0 & Li0 & Lx0 & Noi0 & A0).
        destruct (pi_disj HP Nc Cm0 Cm) as (D1 & D2 & D3 & D4 & D5).
        split; [exact Lo0|]. split; [exact Li0|]. split; [exact Lx0|]. split; [exact Noi0|].
        rewrite cell_graph_store_other by assumption.
        rewrite nth_set_nth_neq by exact Nc. exact A0.
    - apply (pi_disj HP).
  Qed.

  Lemma heap_set_none cm hp cl c m' :
    HeapInv cm hp cl -> cm c = None -> HeapInv cm hp (set_nth c m' cl).
  Proof.
    intros HP Cm. constructor.
    - intros c0. rewrite length_set_nth. apply (pi_out HP).
    - intros c0 o0 i0 x0 Cm0.
      assert (Nc : c0 <> c) by (intros ->; congruence).
      rewrite nth_set_nth_neq by exact Nc. apply (pi_cells HP _ Cm0).
    - apply (pi_disj HP).
  Qed.

  Lemma heap_eta cm hp cl :
    HeapInv cm hp cl -> HeapInv cm (mkHeap (adj_cells hp) (hash_cells hp)) cl.
  Proof. destruct hp; auto. Qed.

  Lemma heap_new_class cm hp cl m :
    HeapInv cm hp cl -> HeapInv cm hp (cl ++ [m]).
  Proof.
    intros HP. constructor.
    - intros c0. rewrite app_length; simpl. intros L. apply (pi_out HP). lia.
    - intros c0 o0 i0 x0 Cm0. pose proof (heap_cm_lt _ HP Cm0) as Lc.
      rewrite nth_app_l by exact Lc. apply (pi_cells HP _ Cm0).
    - apply (pi_disj HP).
  Qed.

  Lemma heap_alloc cm hp cl cl' c g m r :
    HeapInv cm hp cl -> cm c = None -> c < length cl' -> length cl <= length cl' ->
    nth c cl' a_empty = m ->
    (forall c', c' <> c -> nth c' cl' a_empty = nth c' cl a_empty) ->
    agrees g m r ->
    HeapInv (cupd cm c (new_cells hp r)) (alloc hp g) cl'.
  Proof.
    intros HP Cm Lc Lcl Hm Hother A. constructor.
    - intros c0 L0. unfold cupd. destruct (Nat.eqb_spec c0 c) as [->|Nc]; [lia|].
      apply (pi_out HP). lia.
    - intros c0 o0 i0 x0 Cm0. unfold cupd in Cm0.
      destruct (Nat.eqb_spec c0 c) as [->|Nc].
      + assert (T : new_cells hp r = (o0, i0, x0)) by congruence.
        assert (B : o0 < length (adj_cells (alloc hp g)) /\
                    i0 < length (adj_cells (alloc hp g)) /\
                    x0 < length (hash_cells (alloc hp g)) /\ o0 <> i0).
        { unfold alloc; simpl. rewrite !app_length; simpl.
          unfold new_cells in T. destruct r; inversion T; subst o0 i0 x0; lia. }
        destruct B as (B1 & B2 & B3 & B4).
        split; [exact B1|]. split; [exact B2|]. split; [exact B3|]. split; [exact B4|].
        rewrite <- T, cell_graph_alloc_new, Hm.
        apply agrees_store_form; exact A.
      + destruct (pi_cells HP _ Cm0) as (Lo0 & Li0 & Lx0 & Noi0 & A0).
        assert (La : length (adj_cells (alloc hp g)) = length (adj_cells hp) + 2)
          by (unfold alloc; simpl; rewrite app_length; reflexivity).
        assert (Lh : length (hash_cells (alloc hp g)) = length (hash_cells hp) + 1)
          by (unfold alloc; simpl; rewrite app_length; reflexivity).
        rewrite La, Lh.
        split; [lia|]. split; [lia|]. split; [lia|]. split; [exact Noi0|].
        rewrite cell_graph_alloc_old by assumption.
        rewrite Hother by exact Nc. exact A0.
    - intros c0 c0' o i x o' i' x' Nc Cm0 Cm0'. unfold cupd in Cm0, Cm0'.
      destruct (Nat.eqb_spec c0 c) as [->|N0]; destruct (Nat.eqb_spec c0' c) as [->|N0'].
      + contradiction Nc; reflexivity.
      + destruct (pi_cells HP _ Cm0') as (Lo0 & Li0 & Lx0 & _).
        unfold new_cells in Cm0. destruct r; inversion Cm0; subst o i x; lia.
      + destruct (pi_cells HP _ Cm0) as (Lo0 & Li0 & Lx0 & _).
        unfold new_cells in Cm0'. destruct r; inversion Cm0'; subst o' i' x'; lia.
      + apply (pi_disj HP Nc Cm0 Cm0').
  Qed.

  (* ---------- HandInv preservation ---------- *)
  Lemma hand_set cm hs cl hm c m' :
    HandInv cm hs cl hm -> (cm c = None -> is_empty m') ->
    HandInv cm hs (set_nth c m' cl) hm.
  Proof.
    intros HD Hm'. constructor.
    - apply (hi_len HD).
    - intros h c0 r L Q. rewrite length_set_nth. apply (hi_cls HD L Q).
    - intros h c0 r L Q. pose proof (hi_hd HD L Q) as Hh.
      destruct (cm c0) as [t|] eqn:Cm0; [exact Hh|].
      destruct Hh as (Z & R & Em & U).
      split; [exact Z|]. split; [exact R|]. split; [|exact U].
      destruct (Nat.eq_dec c0 c) as [->|Nc].
      + rewrite nth_set_nth_eq by apply (hi_cls HD L Q). apply Hm'; exact Cm0.
      + rewrite nth_set_nth_neq by exact Nc. exact Em.
  Qed.

  Lemma hand_init cm hs cl hm h c r t :
    HandInv cm hs cl hm -> h < length hm -> nth h hm (O, false) = (c, r) -> cm c = None ->
    r = false /\ nth h hs zero_handle = zero_handle /\ is_empty (nth c cl a_empty) /\
    HandInv (cupd cm c t) (set_nth h (hd_of t false) hs) cl hm.
  Proof.
    intros HD L Q Cm. pose proof (hi_hd HD L Q) as Hh. rewrite Cm in Hh.
    destruct Hh as (Z & R & Em & U). subst r.
    split; [reflexivity|]. split; [exact Z|]. split; [exact Em|].
    constructor.
    - rewrite length_set_nth. apply (hi_len HD).
    - apply (hi_cls HD).
    - intros h0 c0 r0 L0 Q0. unfold cupd.
      destruct (Nat.eqb_spec c0 c) as [->|Nc].
      + pose proof (U _ _ L0 Q0) as Eh. subst h0.
        rewrite nth_set_nth_eq by (rewrite (hi_len HD); exact L).
        assert (r0 = false) by congruence. subst r0. reflexivity.
      + assert (Nh : h0 <> h) by (intros ->; congruence).
        rewrite nth_set_nth_neq by exact Nh.
        apply (hi_hd HD L0 Q0).
  Qed.

  Lemma hand_snoc cm cm' hs cl cl' hm hd c r :
    HandInv cm hs cl hm ->
    (forall c0, c0 < length cl -> cm' c0 = cm c0) ->
    (forall c0, c0 < length cl -> nth c0 cl' a_empty = nth c0 cl a_empty) ->
    length cl <= length cl' -> c < length cl' ->
    match cm' c with
    | Some t => hd = hd_of t r
    | None => hd = zero_handle /\ r = false /\ is_empty (nth c cl' a_empty) /\ length cl <= c
    end ->
    (c < length cl -> cm c <> None) ->
    HandInv cm' (hs ++ [hd]) cl' (hm ++ [(c, r)]).
  Proof.
    intros HD E1 E2 E3 E3' E4 E5. constructor.
    - rewrite !app_length; simpl. rewrite (hi_len HD). reflexivity.
    - intros h c1 r1 L Q.
      destruct (nth_snoc_cases _ _ (O, false) L) as [[L' N]|[Eq N]]; rewrite N in Q.
      + pose proof (hi_cls HD L' Q). lia.
      + inversion Q; subst c1 r1. exact E3'.
    - intros h c1 r1 L Q.
      destruct (nth_snoc_cases _ _ (O, false) L) as [[L' N]|[Eq N]]; rewrite N in Q.
      + pose proof (hi_cls HD L' Q) as Lc1.
        rewrite nth_app_l by (rewrite (hi_len HD); exact L').
        rewrite (E1 _ Lc1). pose proof (hi_hd HD L' Q) as Hh.
        destruct (cm c1) as [t|] eqn:Cm1; [exact Hh|].
        destruct Hh as (Z & R & Em & U).
        split; [exact Z|]. split; [exact R|]. split; [rewrite (E2 _ Lc1); exact Em|].
        intros h' r' L2 Q2.
        destruct (nth_snoc_cases _ _ (O, false) L2) as [[L2' N2]|[Eq2 N2]]; rewrite N2 in Q2.
        * apply (U _ _ L2' Q2).
        * inversion Q2; subst c1 r'. exfalso. apply (E5 Lc1). exact Cm1.
      + inversion Q; subst c1 r1. subst h.
        destruct (cm' c) as [t|].
        * rewrite <- (hi_len HD). rewrite nth_app_len. exact E4.
        * destruct E4 as (Z & R & Em & Lc).
          split; [rewrite <- (hi_len HD); rewrite nth_app_len; exact Z|].
          split; [exact R|]. split; [exact Em|].
          intros h' r' L2 Q2.
          destruct (nth_snoc_cases _ _ (O, false) L2) as [[L2' N2]|[Eq2 N2]]; rewrite N2 in Q2.
          -- pose proof (hi_cls HD L2' Q2). lia.
          -- exact Eq2.
  Qed.

  (* ---------- what a handle shows ---------- *)
  Lemma view_agrees cm hp hs cl hm h c r :
    HeapInv cm hp cl -> HandInv cm hs cl hm ->
    h < length hm -> nth h hm (O, false) = (c, r) ->
    agrees (load hp (nth h hs zero_handle)) (nth c cl a_empty) r.
  Proof.
    intros HP HD L Q. pose proof (hi_hd HD L Q) as Hh.
    destruct (cm c) as [t|] eqn:Cm.
    - rewrite Hh, load_hd_of. apply agrees_load_form.
      destruct t as [[o i] x]. apply (pi_cells HP _ Cm).
    - destruct Hh as (Z & R & Em & U). rewrite Z. subst r.
      apply (agrees_empty Em).
  Qed.

  (* ---------- init() ---------- *)
  Lemma init_inv cm hp hs cl hm h c r :
    HeapInv cm hp cl -> HandInv cm hs cl hm ->
    h < length hm -> nth h hm (O, false) = (c, r) ->
    exists cm' t hp1,
      h_init hp (nth h hs zero_handle) = (hp1, hd_of t r) /\ cm' c = Some t /\
      HeapInv cm' hp1 cl /\ HandInv cm' (set_nth h (hd_of t r) hs) cl hm.
  Proof.
    intros HP HD L Q. destruct (cm c) as [t|] eqn:Cm.
    - pose proof (hi_hd HD L Q) as Hh. rewrite Cm in Hh.
      exists cm, t, hp. rewrite Hh. split; [apply h_init_hd_of|]. split; [exact Cm|].
      split; [exact HP|]. rewrite <- Hh. rewrite set_nth_same. exact HD.
    - destruct (hand_init (new_cells hp false) HD L Q Cm) as (R & Z & Em & HD').
      subst r. rewrite Z.
      exists (cupd cm c (new_cells hp false)), (new_cells hp false), (alloc hp g_empty).
      split; [apply h_init_zero|].
      split; [unfold cupd; rewrite Nat.eqb_refl; reflexivity|].
      split; [|exact HD'].
      apply heap_alloc with (cl := cl) (m := nth c cl a_empty); auto.
      + apply (hi_cls HD L Q).
      + apply (agrees_empty Em).
  Qed.

  (* ---------- mutators that call init() first ---------- *)
  Lemma with_init_inv (s : hstate) (a : astate) (h : nat)
        (f : graph -> option graph) (fa : amodel -> bool -> amodel) :
    Inv s a -> h < length (hmap a) ->
    (forall g m r, agrees g m r -> exists g', f g = Some g' /\ agrees g' (fa m r) r) ->
    exists s', with_init s h f = Ok s' /\ Inv s' (on_class a h fa) /\
               hmap (on_class a h fa) = hmap a.
  Proof.
    intros (cm & HP & HD) L Hf.
    destruct (nth h (hmap a) (O, false)) as [c r] eqn:Q.
    destruct (init_inv HP HD L Q) as (cm' & t & hp1 & Ei & Cm' & HP' & HD').
    unfold with_init, get_handle. rewrite Ei.
    assert (A : agrees (load hp1 (hd_of t r)) (nth c (classes a) a_empty) r).
    { rewrite load_hd_of. apply agrees_load_form.
      destruct t as [[o i] x]. apply (pi_cells HP' _ Cm'). }
    destruct (Hf _ _ _ A) as (g' & Fg & A').
    rewrite Fg. eexists. split; [reflexivity|].
    unfold on_class, a_handle, a_class. rewrite Q. simpl. split; [|reflexivity].
    exists cm'. simpl. split.
    - apply heap_store; assumption.
    - apply hand_set; [exact HD'|]. intros N; congruence.
  Qed.

  (* ---------- single-graph operations against the abstract ones ---------- *)
  Lemma op_add k v (g : graph) (m : amodel) r :
    agrees g m r -> exists g', Some (g_add g k v) = Some g' /\ agrees g' (a_add m k v) r.
  Proof.
    intros A. eexists. split; [reflexivity|].
    apply agrees_gspec. apply agrees_gspec in A.
    eapply gspec_ext; [apply (gspec_add k v A)|..].
    - intros k0. unfold a_add. destruct (mv m k); reflexivity.
    - intros a b. unfold a_add. destruct (mv m k); reflexivity.
  Qed.

  Lemma op_overwrite k v (g : graph) (m : amodel) r :
    agrees g m r ->
    exists g', Some (g_add_overwrite g k v) = Some g' /\ agrees g' (a_overwrite m k v) r.
  Proof.
    intros A. eexists. split; [reflexivity|].
    apply agrees_gspec. apply agrees_gspec in A.
    eapply gspec_ext; [apply (gspec_overwrite k v A)|..].
    - intros k0. reflexivity.
    - intros a b. reflexivity.
  Qed.

  Lemma op_remove k (g : graph) (m : amodel) r :
    agrees g m r -> agrees (g_remove g k) (a_remove m k) r.
  Proof.
    intros A.
    apply agrees_gspec. apply agrees_gspec in A.
    eapply gspec_ext; [apply (gspec_remove k A)|..].
    - intros k0. reflexivity.
    - intros a b. unfold a_remove; simpl. destruct r; [|reflexivity].
      rewrite orb_comm. reflexivity.
  Qed.

  Lemma op_remove_edge a b (g : graph) (m : amodel) r :
    agrees g m r ->
    exists g', Some (g_remove_edge g a b) = Some g' /\
      agrees g' (if r then a_remove_edge m b a else a_remove_edge m a b) r.
  Proof.
    intros A. eexists. split; [reflexivity|].
    apply agrees_gspec. apply agrees_gspec in A.
    eapply gspec_ext; [apply (gspec_remove_edge a b A)|..].
    - intros k0. destruct r; reflexivity.
    - intros a' b'. unfold upd2. destruct r; simpl; unfold upd2; [|reflexivity].
      rewrite andb_comm. reflexivity.
  Qed.

  Lemma op_add_edge a b w (g : graph) (m : amodel) r :
    agrees g m r ->
    exists g', g_add_edge g a b w = Some g' /\
      agrees g' (if r then a_add_edge m b a w else a_add_edge m a b w) r.
  Proof.
    intros A. apply agrees_gspec in A.
    destruct (gspec_add_edge a b w A) as (g' & Eg & G').
    exists g'. split; [exact Eg|].
    apply agrees_gspec.
    eapply gspec_ext; [exact G'|..].
    - intros k0. destruct r; unfold a_add_edge; destruct (mv m a), (mv m b); reflexivity.
    - intros a' b'. destruct r; unfold a_add_edge; destruct (mv m a), (mv m b); simpl;
        try reflexivity.
      unfold upd2. rewrite andb_comm. reflexivity.
  Qed.

  (* ---------- one step ---------- *)
  Definition op_ok1 (n : nat) (o : gop) : Prop :=
    match o with
    | ONew => True
    | OCopy h | OReverse h
    | OAdd h _ _ | OAddOverwrite h _ _ | ORemove h _ | OAddEdge h _ _ _
    | ORemoveEdge h _ _ | OVertex h _ => h < n
    end.

  Definition next (n : nat) (o : gop) : nat :=
    match o with
    | ONew | OCopy _ | OReverse _ => S n
    | _ => n
    end.

  Lemma ops_ok_cons n o ops : ops_ok n (o :: ops) <-> op_ok1 n o /\ ops_ok (next n o) ops.
  Proof. destruct o; simpl; tauto. Qed.

  Lemma is_empty_remove (m : amodel) k : is_empty m -> is_empty (a_remove m k).
  Proof.
    intros [Ev Ee]. split; simpl.
    - intros k0. unfold upd1. destruct (eqb k0 k); auto.
    - intros a b. destruct (eqb a k || eqb b k); auto.
  Qed.

  Lemma step_inv (s : hstate) (a : astate) (o : gop) :
    Inv s a -> op_ok1 (length (hmap a)) o ->
    exists s', hstep s o = Ok s' /\ Inv s' (astep a o) /\
               length (hmap (astep a o)) = next (length (hmap a)) o.
  Proof.
    intros I OK. destruct o as [|h k v|h k v|h k|h k1 k2 w|h k1 k2|h|h|h k]; simpl in OK.
    - (* New *)
      destruct I as (cm & HP & HD). simpl.
      eexists. split; [reflexivity|]. split.
      + exists cm. simpl. split.
        * apply heap_new_class; exact HP.
        * apply hand_snoc with (cm := cm) (cl := classes a); auto.
          -- intros c0 Lc. apply nth_app_l; exact Lc.
          -- rewrite app_length; lia.
          -- rewrite app_length; simpl; lia.
          -- rewrite (@pi_out _ _ _ HP (length (classes a))) by lia.
             split; [reflexivity|]. split; [reflexivity|]. split; [|lia].
             rewrite nth_app_len. split; reflexivity.
          -- lia.
      + simpl. rewrite app_length; simpl; lia.
    - (* Add *)
      destruct (with_init_inv (fun g => Some (g_add g k v)) (fun m _ => a_add m k v) I OK)
        as (s' & Es & I' & Eh).
      { intros g m r. apply op_add. }
      exists s'. simpl. split; [exact Es|]. split; [exact I'|]. rewrite Eh; reflexivity.
    - (* AddOverwrite *)
      destruct (with_init_inv (fun g => Some (g_add_overwrite g k v))
                              (fun m _ => a_overwrite m k v) I OK)
        as (s' & Es & I' & Eh).
      { intros g m r. apply op_overwrite. }
      exists s'. simpl. split; [exact Es|]. split; [exact I'|]. rewrite Eh; reflexivity.
    - (* Remove: no init() *)
      destruct I as (cm & HP & HD). simpl.
      eexists. split; [reflexivity|].
      destruct (nth h (hmap a) (O, false)) as [c r] eqn:Q.
      unfold on_class, a_handle, a_class. rewrite Q. simpl. split; [|reflexivity].
      exists cm. simpl. unfold get_handle.
      pose proof (view_agrees HP HD OK Q) as A.
      pose proof (hi_hd HD OK Q) as Hh.
      destruct (cm c) as [t|] eqn:Cm.
      + rewrite Hh in *. split.
        * apply heap_store; [exact HP|exact Cm|]. apply op_remove; exact A.
        * apply hand_set; [exact HD|]. intros N; congruence.
      + destruct Hh as (Z & R & Em & U). rewrite Z. split.
        * unfold store, zero_handle; simpl. apply heap_eta.
          apply heap_set_none; assumption.
        * apply hand_set; [exact HD|]. intros _. apply is_empty_remove; exact Em.
    - (* AddEdge *)
      destruct (with_init_inv (fun g => g_add_edge g k1 k2 w)
                  (fun m r => if r then a_add_edge m k2 k1 w else a_add_edge m k1 k2 w) I OK)
        as (s' & Es & I' & Eh).
      { intros g m r. apply op_add_edge. }
      exists s'. simpl. split; [exact Es|]. split; [exact I'|]. rewrite Eh; reflexivity.
    - (* RemoveEdge *)
      destruct (with_init_inv (fun g => Some (g_remove_edge g k1 k2))
                  (fun m r => if r then a_remove_edge m k2 k1 else a_remove_edge m k1 k2) I OK)
        as (s' & Es & I' & Eh).
      { intros g m r. apply op_remove_edge. }
      exists s'. simpl. split; [exact Es|]. split; [exact I'|]. rewrite Eh; reflexivity.
    - (* Copy *)
      destruct I as (cm & HP & HD). cbv beta iota delta [hstep astep].
      destruct (nth h (hmap a) (O, false)) as [c r] eqn:Q.
      unfold a_handle, a_class, get_handle. rewrite Q.
      rewrite (h_copy_eq (hp s) (nth h (handles s) zero_handle) r).
      cbv beta iota.
      eexists. split; [reflexivity|]. simpl. split; [|rewrite app_length; simpl; lia].
      exists (cupd cm (length (classes a)) (new_cells (hp s) r)). simpl.
      pose proof (view_agrees HP HD OK Q) as A.
      assert (Cn : cm (length (classes a)) = None) by (apply (pi_out HP); lia).
      split.
      + apply heap_alloc with (cl := classes a) (m := nth c (classes a) a_empty) (r := r); auto.
        * rewrite app_length; simpl; lia.
        * rewrite app_length; simpl; lia.
        * apply nth_app_len.
        * intros c' Nc'. destruct (le_lt_dec (length (classes a)) c') as [Lc'|Lc'].
          -- rewrite !nth_overflow; auto. rewrite app_length; simpl; lia.
          -- apply nth_app_l; exact Lc'.
      + apply hand_snoc with (cm := cm) (cl := classes a); auto.
        * intros c0 Lc. unfold cupd. destruct (Nat.eqb_spec c0 (length (classes a))); [lia|reflexivity].
        * intros c0 Lc. apply nth_app_l; exact Lc.
        * rewrite app_length; lia.
        * rewrite app_length; simpl; lia.
        * unfold cupd. rewrite Nat.eqb_refl. reflexivity.
        * lia.
    - (* Reverse *)
      destruct I as (cm & HP & HD). cbv beta iota delta [hstep astep].
      destruct (nth h (hmap a) (O, false)) as [c r] eqn:Q.
      destruct (init_inv HP HD OK Q) as (cm' & t & hp1 & Ei & Cm' & HP' & HD').
      unfold a_handle, get_handle, h_reverse. rewrite Q, Ei. cbv beta iota. rewrite hd_of_swap.
      eexists. split; [reflexivity|]. simpl. split; [|rewrite app_length; simpl; lia].
      exists cm'. simpl. split; [exact HP'|].
      apply hand_snoc with (cm := cm') (cl := classes a); auto.
      + apply (hi_cls HD OK Q).
      + rewrite Cm'. reflexivity.
      + intros _. congruence.
    - (* Vertex *)
      destruct (with_init_inv (fun g => Some g) (fun m _ => m) I OK)
        as (s' & Es & I' & Eh).
      { intros g m r A. exists g. split; [reflexivity|exact A]. }
      exists s'. simpl. split; [exact Es|]. split; [|reflexivity].
      unfold on_class, a_handle, a_class in I'.
      destruct (nth h (hmap a) (O, false)) as [c r].
      rewrite set_nth_same in I'. exact I'.
  Qed.

  (* ---------- whole histories ---------- *)
  Lemma run_inv (ops : list gop) :
    forall (s : hstate) (a : astate),
      Inv s a -> ops_ok (length (hmap a)) ops ->
      exists s', hrun s ops = Ok s' /\ Inv s' (fold_left astep ops a).
  Proof.
    induction ops as [|o ops IH]; intros s a I OK.
    - exists s. split; [reflexivity|exact I].
    - apply ops_ok_cons in OK. destruct OK as [OK1 OK2].
      destruct (step_inv _ I OK1) as (s1 & Es & I1 & El).
      rewrite <- El in OK2.
      destruct (IH _ _ I1 OK2) as (s' & Er & I').
      exists s'. simpl. rewrite Es. simpl. split; [exact Er|exact I'].
  Qed.

  Lemma inv_init_state : Inv (@h0 K V) (@as0 K V).
  Proof.
    exists (fun _ => None). split.
    - constructor.
      + reflexivity.
      + intros; discriminate.
      + intros; discriminate.
    - constructor; simpl.
      + reflexivity.
      + intros; lia.
      + intros; lia.
  Qed.

  Theorem C19_main : @C19_statement K E V.
  Proof.
    intros ops OK.
    destruct (@run_inv ops h0 as0 inv_init_state OK) as (s & Er & (cm & HP & HD)).
    exists s. split; [exact Er|].
    fold (arun ops) in HP, HD.
    split; [apply (hi_len HD)|].
    intros h L. rewrite (hi_len HD) in L.
    unfold a_handle, a_class, view, get_handle.
    destruct (nth h (hmap (arun ops)) (O, false)) as [c r] eqn:Q.
    apply (view_agrees HP HD L Q).
  Qed.
End R.

Theorem C19_proof : forall (K : Type) (E : EqDec K) (V : Type), @C19_statement K E V.
Proof. intros K E V. apply C19_main. Qed.

Print Assumptions C19_proof.

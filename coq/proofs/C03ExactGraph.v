(* C03ExactGraph.v -- invariants of the call-graph construction (full_graph,
   prune) needed by C03: well-formedness, the shape and weight of every edge,
   and the edges that are certainly present. *)
From ArgMapper Require Import Base Graph GraphAlg GraphSpec GraphStatements Types Args Resolver GenWeights ResolverSpec.
From ArgMapper.proofs Require Import C19RefineMap C19RefineGraph C20aDfs C18DijkstraLemmas C03ExactArgs.
From Coq Require Import Lia ZArith List.
Import ListNotations.
Set Implicit Arguments.
Local Open Scope Z_scope.

Notation rg := (graph vkey vpay).

Definition fvof (g : rg) : vkey -> option vpay := fun k => lookup k (ghash g).
Definition feof (g : rg) : vkey -> vkey -> option Z := fun a b => lookup b (inner (gout g) a).

Lemma wf_gspec (g : rg) : wf_graph g -> gspec g (fvof g) (feof g).
Proof.
  intros W. split; [reflexivity|]. split; [reflexivity|]. split; [|exact W].
  intros a b. unfold feof.
  destruct (lookup b (inner (gout g) a)) as [w|] eqn:Q.
  - apply (wf_mirror W) in Q. exact Q.
  - destruct (lookup a (inner (gin g) b)) as [w|] eqn:Q'; [|reflexivity].
    apply (wf_mirror W) in Q'. congruence.
Qed.

Lemma vertex_fv (g : rg) k : vertex g k <-> fvof g k <> None.
Proof.
  unfold vertex, fvof. rewrite in_keys_lookup. destruct (lookup k (ghash g)).
  - split; [discriminate|eauto].
  - split; [intros [v Q]; discriminate|intros N; contradiction N; reflexivity].
Qed.

Lemma edge_fe (g : rg) a b w : edge g a b w <-> feof g a b = Some w.
Proof. reflexivity. Qed.

(* ---------- the mutators, as seen through vertex / edge ---------- *)
Lemma g_add_facts (g : rg) k v :
  wf_graph g ->
  wf_graph (g_add g k v) /\
  (forall x, vertex (g_add g k v) x <-> x = k \/ vertex g x) /\
  (forall a b, feof (g_add g k v) a b = feof g a b).
Proof.
  intros W. pose proof (gspec_add k v (wf_gspec W)) as (Hv & Ho & _ & W').
  split; [exact W'|]. split.
  - intros x. rewrite !vertex_fv. unfold fvof at 1. rewrite Hv.
    destruct (fvof g k) eqn:Q.
    + split; [auto|]. intros [->|A]; [congruence|exact A].
    + unfold upd1. destruct (Base.eqb_spec x k) as [->|N].
      * split; [auto|discriminate].
      * split; [auto|]. intros [A|A]; [contradiction|exact A].
  - intros a b. unfold feof at 1. rewrite Ho. reflexivity.
Qed.

Lemma g_over_facts (g : rg) k v :
  wf_graph g ->
  wf_graph (g_add_overwrite g k v) /\
  (forall x, vertex (g_add_overwrite g k v) x <-> x = k \/ vertex g x) /\
  (forall a b, feof (g_add_overwrite g k v) a b = feof g a b).
Proof.
  intros W. pose proof (gspec_overwrite k v (wf_gspec W)) as (Hv & Ho & _ & W').
  split; [exact W'|]. split.
  - intros x. rewrite !vertex_fv. unfold fvof at 1. rewrite Hv.
    unfold upd1. destruct (Base.eqb_spec x k) as [->|N].
    + split; [auto|discriminate].
    + split; [auto|]. intros [A|A]; [contradiction|exact A].
  - intros a b. unfold feof at 1. rewrite Ho. reflexivity.
Qed.

Lemma add_e_facts (g : rg) a b w :
  wf_graph g ->
  wf_graph (add_e g a b w) /\
  (forall x, vertex (add_e g a b w) x <-> vertex g x) /\
  (forall x y, feof (add_e g a b w) x y =
               if fvof g a then if fvof g b then (if Base.eqb x a && Base.eqb y b then Some w else feof g x y)
                                else feof g x y else feof g x y).
Proof.
  intros W. destruct (gspec_add_edge a b w (wf_gspec W)) as (g' & Q & Hv & Ho & _ & W').
  unfold add_e. rewrite Q. split; [exact W'|]. split.
  - intros x. rewrite !vertex_fv. unfold fvof at 1. rewrite Hv. reflexivity.
  - intros x y. unfold feof at 1. rewrite Ho.
    destruct (fvof g a); [|reflexivity]. destruct (fvof g b); reflexivity.
Qed.

Lemma add_e_wf (g : rg) a b w : wf_graph g -> wf_graph (add_e g a b w).
Proof. intros W. apply (add_e_facts a b w W). Qed.

Lemma add_e_vertex (g : rg) a b w x : wf_graph g -> (vertex (add_e g a b w) x <-> vertex g x).
Proof. intros W. apply (add_e_facts a b w W). Qed.

Lemma add_e_edge_inv (g : rg) a b w x y w' :
  wf_graph g -> edge (add_e g a b w) x y w' -> edge g x y w' \/ (x = a /\ y = b /\ w' = w).
Proof.
  intros W. destruct (add_e_facts a b w W) as (_ & _ & F). rewrite !edge_fe, F.
  destruct (fvof g a); [|intros Q; left; exact Q]. destruct (fvof g b); [|intros Q; left; exact Q].
  destruct (Base.eqb_spec x a) as [->|N]; cbn [andb]; [|intros Q; left; exact Q].
  destruct (Base.eqb_spec y b) as [->|N']; [|intros Q; left; exact Q].
  intros Q; inversion Q; right; auto.
Qed.

Lemma add_e_edge_mono (g : rg) a b w x y w' :
  wf_graph g -> edge g x y w' -> exists w'', edge (add_e g a b w) x y w''.
Proof.
  intros W. destruct (add_e_facts a b w W) as (_ & _ & F). intros Ed.
  setoid_rewrite edge_fe. rewrite F.
  destruct (fvof g a); eauto. destruct (fvof g b); eauto.
  destruct (Base.eqb x a && Base.eqb y b); eauto.
Qed.

Lemma add_e_edge_new (g : rg) a b w :
  wf_graph g -> vertex g a -> vertex g b -> edge (add_e g a b w) a b w.
Proof.
  intros W Va Vb. destruct (add_e_facts a b w W) as (_ & _ & F). rewrite edge_fe, F.
  apply vertex_fv in Va. apply vertex_fv in Vb.
  destruct (fvof g a); [|contradiction Va; reflexivity].
  destruct (fvof g b); [|contradiction Vb; reflexivity].
  rewrite !Base.eqb_refl. reflexivity.
Qed.

Lemma g_remove_facts (g : rg) k :
  wf_graph g ->
  wf_graph (g_remove g k) /\
  (forall x, vertex (g_remove g k) x <-> x <> k /\ vertex g x) /\
  (forall a b, feof (g_remove g k) a b = if Base.eqb a k || Base.eqb b k then None else feof g a b).
Proof.
  intros W. pose proof (gspec_remove k (wf_gspec W)) as (Hv & Ho & _ & W').
  split; [exact W'|]. split.
  - intros x. rewrite !vertex_fv. unfold fvof at 1. rewrite Hv. unfold upd1.
    destruct (Base.eqb_spec x k) as [->|N].
    + split; [intros A; contradiction A; reflexivity|intros [A _]; contradiction A; reflexivity].
    + tauto.
  - intros a b. unfold feof at 1. rewrite Ho. reflexivity.
Qed.

(* ---------- monotonicity ---------- *)
Definition sub (g g' : rg) : Prop :=
  (forall x, vertex g x -> vertex g' x) /\
  (forall a b w, edge g a b w -> exists w', edge g' a b w').

Lemma sub_refl g : sub g g.
Proof. split; eauto. Qed.

Lemma sub_trans g1 g2 g3 : sub g1 g2 -> sub g2 g3 -> sub g1 g3.
Proof.
  intros [V1 E1] [V2 E2]. split; [auto|].
  intros a b w Ed. destruct (E1 _ _ _ Ed) as (w' & Ed'). eauto.
Qed.

Lemma sub_add (g : rg) k v : wf_graph g -> sub g (g_add g k v).
Proof.
  intros W. destruct (g_add_facts k v W) as (_ & Vx & F). split.
  - intros x A. apply Vx. auto.
  - intros a b w Ed. exists w. rewrite edge_fe, F. exact Ed.
Qed.

Lemma sub_over (g : rg) k v : wf_graph g -> sub g (g_add_overwrite g k v).
Proof.
  intros W. destruct (g_over_facts k v W) as (_ & Vx & F). split.
  - intros x A. apply Vx. auto.
  - intros a b w Ed. exists w. rewrite edge_fe, F. exact Ed.
Qed.

Lemma sub_add_e (g : rg) a b w : wf_graph g -> sub g (add_e g a b w).
Proof.
  intros W. split.
  - intros x A. apply add_e_vertex; auto.
  - intros x y w' Ed. eapply add_e_edge_mono; eauto.
Qed.

(* ---------- the edge invariant ---------- *)
Section Inv.
  Variable ins : list vkey.       (* keys of the supplied inputs *)
  Variable funcs : list fdecl.    (* the functions known to the call *)

  Definition edge_ok (a b : vkey) (w : Z) : Prop :=
    1 <= w <= 20 /\
    (b = KRoot -> w = 1 /\ (is_func a = true \/ In a ins)) /\
    (forall t s, a = KArg t s -> 5 <= w /\ (b = KOut t s -> w = 5) /\ kty b = Some t) /\
    (forall ft, a = KFunc ft ->
       b = KRoot \/ exists h fld, In h funcs /\ fn_type h = ft /\ In fld (fn_in h) /\ b = field_key fld).

  Definition GI (g : rg) : Prop := wf_graph g /\ forall a b w, edge g a b w -> edge_ok a b w.
  Definition GS (g0 g : rg) : Prop := GI g /\ sub g0 g.

  Lemma GS_refl g : GI g -> GS g g.
  Proof. intros I. split; [exact I|apply sub_refl]. Qed.

  Lemma GS_trans g0 g1 g2 : GS g0 g1 -> GS g1 g2 -> GS g0 g2.
  Proof. intros [_ S1] [I2 S2]. split; [exact I2|eapply sub_trans; eauto]. Qed.

  Lemma GI_add g k v : GI g -> GI (g_add g k v).
  Proof.
    intros [W I]. destruct (g_add_facts k v W) as (W' & _ & F). split; [exact W'|].
    intros a b w. rewrite edge_fe, F. apply I.
  Qed.

  Lemma GI_over g k v : GI g -> GI (g_add_overwrite g k v).
  Proof.
    intros [W I]. destruct (g_over_facts k v W) as (W' & _ & F). split; [exact W'|].
    intros a b w. rewrite edge_fe, F. apply I.
  Qed.

  Lemma GI_add_e g a b w : GI g -> edge_ok a b w -> GI (add_e g a b w).
  Proof.
    intros [W I] Ok. split; [apply add_e_wf; exact W|].
    intros x y w' Ed. destruct (add_e_edge_inv _ _ _ W Ed) as [A|(-> & -> & ->)]; auto.
  Qed.

  Lemma GS_add g0 g k v : GS g0 g -> GS g0 (g_add g k v).
  Proof.
    intros [I S]. split; [apply GI_add; exact I|].
    eapply sub_trans; [exact S|apply sub_add; apply I].
  Qed.

  Lemma GS_add_v g0 g k : GS g0 g -> GS g0 (add_v g k).
  Proof. apply GS_add. Qed.

  Lemma GS_over g0 g k v : GS g0 g -> GS g0 (g_add_overwrite g k v).
  Proof.
    intros [I S]. split; [apply GI_over; exact I|].
    eapply sub_trans; [exact S|apply sub_over; apply I].
  Qed.

  Lemma GS_add_e g0 g a b w : GS g0 g -> edge_ok a b w -> GS g0 (add_e g a b w).
  Proof.
    intros [I S] Ok. split; [apply GI_add_e; auto|].
    eapply sub_trans; [exact S|apply sub_add_e; apply I].
  Qed.

  Lemma GS_fold {A} (step : rg -> A -> rg) (l : list A) g0 :
    (forall g x, In x l -> GS g0 g -> GS g0 (step g x)) ->
    forall g, GS g0 g -> GS g0 (fold_left step l g).
  Proof.
    induction l as [|x l IH]; intros St g G; simpl; [exact G|].
    apply IH.
    - intros g' y Iy. apply St. right; exact Iy.
    - apply St; [left; reflexivity|exact G].
  Qed.

  (* ---------- Func.graph ---------- *)
  Lemma edge_ok_func_in h fld w :
    In h funcs -> In fld (fn_in h) -> 1 <= w <= 20 ->
    edge_ok (KFunc (fn_type h)) (field_key fld) w.
  Proof.
    intros Ih If Rw. split; [exact Rw|]. split; [|split].
    - unfold field_key. destruct (String.eqb (f_name fld) ""); discriminate.
    - intros t s Q; discriminate.
    - intros ft Q. inversion Q; subst ft. right. exists h, fld. auto.
  Qed.

  Lemma edge_ok_func_root h : In h funcs -> edge_ok (KFunc (fn_type h)) KRoot 1.
  Proof.
    intros Ih. split; [lia|]. split; [|split].
    - intros _. split; [reflexivity|left; reflexivity].
    - intros t s Q; discriminate.
    - intros ft Q. left; reflexivity.
  Qed.

  Lemma edge_ok_out_func fld ft w :
    1 <= w <= 20 -> edge_ok (field_out_key fld) (KFunc ft) w.
  Proof.
    intros Rw. split; [exact Rw|]. split; [discriminate|]. split.
    - intros t s. unfold field_out_key. destruct (String.eqb (f_name fld) ""); discriminate.
    - intros ft'. unfold field_out_key. destruct (String.eqb (f_name fld) ""); discriminate.
  Qed.

  Lemma GS_func_graph g0 g h inc : In h funcs -> GS g0 g -> GS g0 (func_graph g h inc).
  Proof.
    intros Ih G. unfold func_graph.
    set (fk := KFunc (fn_type h)).
    assert (G1 : GS g0 (g_add g fk (PFunc h))) by (apply GS_add; exact G).
    assert (G2 : GS g0 (match fn_in h with
                        | [] => add_e (g_add g fk (PFunc h)) fk KRoot w_normal
                        | _ :: _ => g_add g fk (PFunc h) end)).
    { destruct (fn_in h); [|exact G1]. apply GS_add_e; [exact G1|]. apply edge_ok_func_root; exact Ih. }
    match goal with |- GS g0 (if inc then ?X else ?Y) =>
      assert (G3 : GS g0 Y) end.
    { apply GS_fold; [|exact G2]. intros g' fld If G'.
      apply GS_add_e; [apply GS_add_v; exact G'|].
      apply edge_ok_func_in; auto.
      destruct (String.eqb (f_name fld) ""); unfold w_typed, w_normal; lia. }
    destruct inc; [|exact G3].
    apply GS_fold.
    { intros g' fld _ G'. apply GS_add_e; [apply GS_add_v; exact G'|].
      apply edge_ok_out_func. unfold w_typed; lia. }
    apply GS_fold; [|exact G3].
    intros g' fld _ G'. apply GS_add_e; [apply GS_add_v; exact G'|].
    apply edge_ok_out_func. unfold w_normal; lia.
  Qed.

  (* ---------- generic edge shapes ---------- *)
  Lemma edge_ok_plain a b w :
    1 <= w <= 20 -> b <> KRoot -> (forall t s, a <> KArg t s) -> (forall ft, a <> KFunc ft) ->
    edge_ok a b w.
  Proof.
    intros Rw Nb Na Nf. split; [exact Rw|]. split; [intros Q; contradiction|]. split.
    - intros t s Q. exfalso. eapply Na; eauto.
    - intros ft Q. exfalso. eapply Nf; eauto.
  Qed.

  Lemma edge_ok_arg t s b w :
    5 <= w <= 20 -> kty b = Some t -> (b = KOut t s -> w = 5) -> edge_ok (KArg t s) b w.
  Proof.
    intros Rw Kb Hb. split; [lia|]. split; [intros ->; discriminate|]. split.
    - intros t' s' Q. inversion Q; subst t' s'. split; [lia|]. split; auto.
    - intros ft Q; discriminate.
  Qed.

  Lemma edge_ok_input k : In k ins -> value_of_vertex k = true -> edge_ok k KRoot 1.
  Proof.
    intros Ik Vk. split; [lia|]. split; [intros _; split; [reflexivity|right; exact Ik]|]. split.
    - intros t s ->. discriminate.
    - intros ft ->. discriminate.
  Qed.

  (* ---------- the completion steps of callGraph ---------- *)
  Lemma GS_step_values g : GI g -> GS g (step_values g).
  Proof.
    intros I. unfold step_values. apply GS_fold; [|apply GS_refl; exact I].
    intros g' k _ G'. destruct k as [|ft|n t s|t s|t s]; try exact G'.
    assert (G1 : GS g (add_e (add_v g' (KOut t "")) (KVal n t s) (KOut t "") w_typed)).
    { apply GS_add_e; [apply GS_add_v; exact G'|].
      apply edge_ok_plain; try discriminate. unfold w_typed; lia. }
    assert (G2 : GS g (add_e (add_v (add_e (add_v g' (KOut t "")) (KVal n t s) (KOut t "") w_typed) (KArg t ""))
                             (KArg t "") (KVal n t s) w_typed)).
    { apply GS_add_e; [apply GS_add_v; exact G1|].
      apply edge_ok_arg; [unfold w_typed; lia|reflexivity|discriminate]. }
    cbv zeta. destruct (String.eqb s ""); [exact G2|].
    apply GS_add_e; [apply GS_add_v; exact G2|].
    apply edge_ok_arg; [unfold w_typed; lia|reflexivity|discriminate].
  Qed.

  Lemma GS_step_args_gen gb g l : GS gb g ->
    GS gb (fold_left (fun g k => match k with
      | KArg t s => add_e (add_v g (KOut t s)) k (KOut t s) w_typed
      | _ => g end) l g).
  Proof.
    intros G. apply GS_fold; [|exact G].
    intros g' k _ G'. destruct k as [|ft|n t s|t s|t s]; try exact G'.
    apply GS_add_e; [apply GS_add_v; exact G'|].
    apply edge_ok_arg; [unfold w_typed; lia|reflexivity|intros _; reflexivity].
  Qed.

  Lemma GS_step_args g : GI g -> GS g (step_args g).
  Proof. intros I. apply GS_step_args_gen. apply GS_refl; exact I. Qed.

  Lemma GS_step_ifaces u g : GI g -> GS g (step_ifaces u g).
  Proof.
    intros I. unfold step_ifaces. apply GS_fold; [|apply GS_refl; exact I].
    intros g' k _ G'. destruct k as [|ft|n t s|t s|t s]; try exact G'.
    destruct (is_iface u t); [|exact G'].
    apply GS_fold; [|exact G'].
    intros g'' k2 _ G''. destruct k2 as [|ft2|n2 t2 s2|t2 s2|t2 s2]; try exact G''.
    match goal with |- GS g (if ?c then _ else _) => destruct c end; [|exact G''].
    apply GS_add_e; [exact G''|]. apply edge_ok_plain; try discriminate. unfold w_typed; lia.
  Qed.

  Lemma GS_step_named_sub valued g : GI g -> GS g (step_named_sub valued g).
  Proof.
    intros I. unfold step_named_sub. apply GS_fold; [|apply GS_refl; exact I].
    intros g' k _ G'. destruct k as [|ft|n t s|t s|t s]; try exact G'.
    match goal with |- GS g (if ?c then _ else _) => destruct c end; [|exact G'].
    apply GS_fold; [|exact G'].
    intros g'' k2 _ G''. destruct k2 as [|ft2|n2 t2 s2|t2 s2|t2 s2]; try exact G''.
    match goal with |- GS g (if ?c then _ else _) => destruct c end; [|exact G''].
    apply GS_add_e; [exact G''|]. apply edge_ok_plain; try discriminate. unfold w_typed; lia.
  Qed.

  Lemma GS_step_arg_sub g : GI g -> GS g (step_arg_sub g).
  Proof.
    intros I. unfold step_arg_sub. apply GS_fold; [|apply GS_refl; exact I].
    intros g' k _ G'. destruct k as [|ft|n t s|t s|t s]; try exact G'.
    apply GS_fold; [|exact G'].
    intros g'' k2 _ G''. destruct k2 as [|ft2|n2 t2 s2|t2 s2|t2 s2]; try exact G''.
    match goal with |- GS g (if ?c then _ else _) => destruct c eqn:C end; [|exact G''].
    apply andb_true_iff in C. destruct C as [C1 C2]. apply Z.eqb_eq in C1. subst t2.
    apply GS_add_e; [exact G''|].
    apply edge_ok_arg; [unfold w_other_subtype; lia|reflexivity|].
    intros Q. inversion Q; subst s2. exfalso.
    revert C2. destruct (String.eqb s ""); discriminate.
  Qed.

  (* ---------- inputs ---------- *)
  Lemma GS_inputs (kvs : list (vkey * value)) gb g :
    (forall kv, In kv kvs -> In (fst kv) ins /\ value_of_vertex (fst kv) = true) ->
    GS gb g ->
    GS gb (fold_left (fun g kv => add_e (g_add_overwrite g (fst kv) PNone) (fst kv) KRoot w_normal) kvs g).
  Proof.
    intros Hk G. apply GS_fold; [|exact G].
    intros g' kv Ikv G'. destruct (Hk kv Ikv) as [A B].
    apply GS_add_e; [apply GS_over; exact G'|]. apply edge_ok_input; auto.
  Qed.

  (* ---------- generators ---------- *)
  Definition is_gen_ev (e : event) : Prop := match e with EGen _ _ => True | _ => False end.

  Lemma run_gens_spec gens ks :
    (forall gn k f, In gn gens -> lookup k (gen_table gn) = Some (GFunc f) -> In f funcs) ->
    forall g0 g convs tr, GS g0 g -> Forall is_gen_ev tr ->
    let '(g', convs', tr', err) := run_gens g gens ks convs tr in
    GS g0 g' /\ Forall is_gen_ev tr' /\ (err <> None -> tr' <> []).
  Proof.
    intros Hg g0 g convs tr G T. unfold run_gens.
    set (P := fun acc : rg * list fdecl * list event * option Z =>
                let '(g', _, tr', err) := acc in GS g0 g' /\ Forall is_gen_ev tr' /\ (err <> None -> tr' <> [])).
    enough (Q : P (fold_left
      (fun (acc : rg * list fdecl * list event * option Z) (k : vkey) =>
         let '(g1, convs0, tr0, err) := acc in
         match err with
         | Some _ => acc
         | None =>
           if value_of_vertex k then
             fold_left (fun (acc0 : rg * list fdecl * list event * option Z) (gn : gen) =>
               let '(g2, convs1, tr1, err0) := acc0 in
               match err0 with
               | Some _ => acc0
               | None =>
                 let tr2 := tr1 ++ [EGen (gen_id gn) k] in
                 match lookup k (gen_table gn) with
                 | Some (GErr e) => (g2, convs1, tr2, Some e)
                 | Some (GFunc f) => (func_graph g2 f true, convs1 ++ [f], tr2, None)
                 | _ => (g2, convs1, tr2, None)
                 end
               end) gens acc
           else acc
         end) ks (g, convs, tr, None))).
    { exact Q. }
    assert (Inner : forall k gl, (forall gn, In gn gl -> In gn gens) -> forall acc, P acc ->
      P (fold_left (fun (acc0 : rg * list fdecl * list event * option Z) (gn : gen) =>
               let '(g2, convs1, tr1, err0) := acc0 in
               match err0 with
               | Some _ => acc0
               | None =>
                 let tr2 := tr1 ++ [EGen (gen_id gn) k] in
                 match lookup k (gen_table gn) with
                 | Some (GErr e) => (g2, convs1, tr2, Some e)
                 | Some (GFunc f) => (func_graph g2 f true, convs1 ++ [f], tr2, None)
                 | _ => (g2, convs1, tr2, None)
                 end
               end) gl acc)).
    { intros k. induction gl as [|gn gl IH]; intros Sub acc Pa; cbn [fold_left]; [exact Pa|].
      apply IH; [intros gn' A; apply Sub; right; exact A|].
      destruct acc as [[[g2 c2] t2] e2]. destruct e2; [exact Pa|].
      destruct Pa as (G2 & T2 & _).
      assert (T3 : Forall is_gen_ev (t2 ++ [EGen (gen_id gn) k])).
      { apply Forall_app. split; [exact T2|]. constructor; [exact I|constructor]. }
      assert (N3 : forall o : option Z, o <> None -> t2 ++ [EGen (gen_id gn) k] <> []).
      { intros _ _ C. apply app_eq_nil in C. destruct C as [_ C]. discriminate. }
      cbv zeta. destruct (lookup k (gen_table gn)) as [[| e | f]|] eqn:L; unfold P;
        try (split; [exact G2|split; [exact T3|apply N3]]).
      split; [|split; [exact T3|apply N3]]. apply GS_func_graph; [|exact G2].
      eapply Hg; [apply Sub; left; reflexivity|exact L]. }
    assert (P0 : P (g, convs, tr, None)).
    { split; [exact G|]. split; [exact T|]. intros C. contradiction C; reflexivity. }
    revert P0. generalize (g, convs, tr, @None Z). induction ks as [|k ks IH]; intros acc Pa; cbn [fold_left]; [exact Pa|].
    apply IH. destruct acc as [[[g1 c1] t1] e1]. destruct e1; [exact Pa|].
    destruct (value_of_vertex k); [|exact Pa].
    apply Inner; auto.
  Qed.
End Inv.

(* ---------- edges that are certainly added ---------- *)
Section Pos.
  Variable ins : list vkey.
  Variable funcs : list fdecl.
  Notation GI := (GI ins funcs).
  Notation GS := (GS ins funcs).

  Lemma fold_adds {A} (step : rg -> A -> rg) (Q : A -> rg -> Prop) (l : list A) :
    (forall gb g x, In x l -> GS gb g -> GS gb (step g x)) ->
    forall g0, (forall g x, In x l -> GS g0 g -> Q x (step g x)) ->
    (forall x g g', sub g g' -> Q x g -> Q x g') ->
    forall g, GS g0 g -> forall x, In x l -> Q x (fold_left step l g).
  Proof.
    induction l as [|y l IH]; intros St g0 Hq Mono g G x Ix; [destruct Ix|].
    cbn [fold_left].
    assert (St' : forall gb g x, In x l -> GS gb g -> GS gb (step g x)).
    { intros gb g' z Iz. apply St. right; exact Iz. }
    assert (G1 : GS g0 (step g y)) by (apply St; [left; reflexivity|exact G]).
    destruct Ix as [->|Ix].
    - assert (Qx : Q x (step g x)) by (apply Hq; [left; reflexivity|exact G]).
      eapply Mono; [|exact Qx].
      assert (G2 : GS (step g x) (fold_left step l (step g x))).
      { apply GS_fold; [intros g' z Iz; apply St'; exact Iz|]. apply GS_refl. apply G1. }
      apply G2.
    - apply IH with (g0 := g0); auto.
      intros g' z Iz. apply Hq. right; exact Iz.
  Qed.

  Lemma GI_empty : GI (g_add g_empty KRoot PNone).
  Proof.
    apply GI_add. split; [apply wf_empty|]. intros a b w Ed. discriminate Ed.
  Qed.

  Definition stage1 (f : fdecl) : rg := func_graph (g_add g_empty KRoot PNone) f false.

  Lemma stage1_facts f :
    In f funcs ->
    GI (stage1 f) /\ vertex (stage1 f) KRoot /\ vertex (stage1 f) (KFunc (fn_type f)) /\
    forall fld, In fld (fn_in f) ->
      vertex (stage1 f) (field_key fld) /\ exists w, edge (stage1 f) (KFunc (fn_type f)) (field_key fld) w.
  Proof.
    intros If.
    assert (G0 : GS (g_add g_empty KRoot PNone) (g_add g_empty KRoot PNone)) by (apply GS_refl, GI_empty).
    assert (V0 : vertex (g_add (g_empty : rg) KRoot PNone) KRoot).
    { apply (g_add_facts KRoot PNone (wf_empty (K:=vkey) (V:=vpay))). left; reflexivity. }
    pose proof (@GS_func_graph ins funcs _ _ f false If G0) as G1. fold (stage1 f) in G1.
    split; [apply G1|]. split; [apply G1; exact V0|].
    unfold stage1, func_graph in *.
    set (fk := KFunc (fn_type f)) in *.
    set (g1 := g_add (g_add g_empty KRoot PNone) fk (PFunc f)) in *.
    set (gA := match fn_in f with [] => add_e g1 fk KRoot w_normal | _ :: _ => g1 end) in *.
    assert (GA1 : GS (g_add g_empty KRoot PNone) g1) by (apply GS_add; exact G0).
    assert (Vfk1 : vertex g1 fk).
    { apply (g_add_facts fk (PFunc f) (proj1 GI_empty)). left; reflexivity. }
    assert (GA : GS g1 gA).
    { unfold gA. destruct (fn_in f); [|apply GS_refl; apply GA1].
      apply GS_add_e; [apply GS_refl; apply GA1|]. apply edge_ok_func_root; exact If. }
    assert (St : forall gb g x, In x (fn_in f) -> GS gb g ->
               GS gb (add_e (add_v g (field_key x)) fk (field_key x)
                        (if String.eqb (f_name x) "" then w_typed else w_normal))).
    { intros gb g x Ix G. apply GS_add_e; [apply GS_add_v; exact G|].
      apply edge_ok_func_in; auto.
      destruct (String.eqb (f_name x) ""); unfold w_typed, w_normal; lia. }
    split.
    - assert (G2 : GS gA (fold_left (fun g fld => add_e (add_v g (field_key fld)) fk (field_key fld)
                        (if String.eqb (f_name fld) "" then w_typed else w_normal)) (fn_in f) gA)).
      { apply GS_fold; [intros g x Ix; apply St; exact Ix|apply GS_refl; apply GA]. }
      apply G2. apply GA. exact Vfk1.
    - intros fld Ifld.
      apply (@fold_adds field
               (fun g fld => add_e (add_v g (field_key fld)) fk (field_key fld)
                        (if String.eqb (f_name fld) "" then w_typed else w_normal))
               (fun fld g => vertex g (field_key fld) /\ exists w, edge g fk (field_key fld) w)
               (fn_in f) St gA); auto.
      + intros g x Ix G.
        assert (W : wf_graph g) by apply G.
        destruct (g_add_facts (field_key x) PNone W) as (W' & Vx & _).
        assert (Vk : vertex (add_v g (field_key x)) (field_key x)) by (apply Vx; left; reflexivity).
        assert (Vf : vertex (add_v g (field_key x)) fk).
        { apply Vx; right. apply G. apply GA. exact Vfk1. }
        split.
        * apply add_e_vertex; auto.
        * eexists. apply add_e_edge_new; auto.
      + intros x g g' [Sv Se] [Vk (w & Ed)]. split; [apply Sv; exact Vk|]. eapply Se; eauto.
      + apply GS_refl. apply GA.
  Qed.

  Definition stage2 (f : fdecl) (kvs : list (vkey * value)) : rg :=
    fold_left (fun g kv => add_e (g_add_overwrite g (fst kv) PNone) (fst kv) KRoot w_normal) kvs (stage1 f).

  Lemma stage2_facts f kvs :
    In f funcs ->
    (forall kv, In kv kvs -> In (fst kv) ins /\ value_of_vertex (fst kv) = true) ->
    GS (stage1 f) (stage2 f kvs) /\
    forall kv, In kv kvs -> vertex (stage2 f kvs) (fst kv) /\ exists w, edge (stage2 f kvs) (fst kv) KRoot w.
  Proof.
    intros If Hk. destruct (@stage1_facts f If) as (I1 & VR & _).
    split; [apply GS_inputs; [exact Hk|apply GS_refl; exact I1]|].
    intros kv Ikv. unfold stage2.
    apply (@fold_adds (vkey * value)
             (fun g kv => add_e (g_add_overwrite g (fst kv) PNone) (fst kv) KRoot w_normal)
             (fun kv g => vertex g (fst kv) /\ exists w, edge g (fst kv) KRoot w) kvs) with (g0 := stage1 f); auto.
    - intros gb g x Ix G. destruct (Hk x Ix) as [A B].
      apply GS_add_e; [apply GS_over; exact G|]. apply edge_ok_input; auto.
    - intros g x Ix G. assert (W : wf_graph g) by apply G.
      destruct (g_over_facts (fst x) PNone W) as (W' & Vx & _).
      assert (Vk : vertex (g_add_overwrite g (fst x) PNone) (fst x)) by (apply Vx; left; reflexivity).
      assert (Vr : vertex (g_add_overwrite g (fst x) PNone) KRoot).
      { apply Vx; right. apply G. exact VR. }
      split; [apply add_e_vertex; auto|]. eexists. apply add_e_edge_new; auto.
    - intros x g g' [Sv Se] [Vk (w & Ed)]. split; [apply Sv; exact Vk|]. eapply Se; eauto.
    - apply GS_refl; exact I1.
  Qed.

  Lemma step_args_adds g t s :
    GI g -> vertex g (KArg t s) -> exists w, edge (step_args g) (KArg t s) (KOut t s) w.
  Proof.
    intros I Va. unfold step_args.
    assert (Ik : In (KArg t s) (arg_keys g)).
    { unfold arg_keys. apply filter_In. split; [exact Va|reflexivity]. }
    pose proof (@fold_adds vkey
             (fun g k => match k with
                | KArg t s => add_e (add_v g (KOut t s)) k (KOut t s) w_typed
                | _ => g end)
             (fun k g => forall t s, k = KArg t s -> exists w, edge g (KArg t s) (KOut t s) w)
             (arg_keys g)) as FA.
    apply (FA) with (g0 := g) (x := KArg t s) (g := g); auto.
    - intros gb g' k _ G'. destruct k as [|ft|n t' s'|t' s'|t' s']; try exact G'.
      apply GS_add_e; [apply GS_add_v; exact G'|].
      apply edge_ok_arg; [unfold w_typed; lia|reflexivity|intros _; reflexivity].
    - intros g' k Ikk G' t' s' ->.
      assert (W : wf_graph g') by apply G'.
      destruct (g_add_facts (KOut t' s') PNone W) as (W' & Vx & _).
      assert (Vk : vertex g (KArg t' s')).
      { unfold arg_keys in Ikk. apply filter_In in Ikk. apply Ikk. }
      eexists. apply add_e_edge_new; [exact W'| |].
      + apply Vx; right. apply G'. exact Vk.
      + apply Vx; left; reflexivity.
    - intros k g1 g2 [Sv Se] Q t' s' E. destruct (Q t' s' E) as (w & Ed). eapply Se; eauto.
    - apply GS_refl; exact I.
  Qed.
End Pos.

(* ---------- dedup ---------- *)
Lemma in_dedup (x : vkey) (l : list vkey) : In x (dedup l) <-> In x l.
Proof.
  induction l as [|y l IH]; simpl; [tauto|].
  destruct (memb y l) eqn:M.
  - rewrite IH. split; [auto|]. intros [->|A]; [apply memb_In; exact M|exact A].
  - simpl. rewrite IH. tauto.
Qed.

Lemma nodup_dedup (l : list vkey) : NoDup (dedup l).
Proof.
  induction l as [|y l IH]; simpl; [constructor|].
  destruct (memb y l) eqn:M; [exact IH|].
  constructor; [|exact IH]. rewrite in_dedup. apply memb_false. exact M.
Qed.

Lemma NoDup_app_disj {T} (l1 l2 : list T) :
  NoDup l1 -> NoDup l2 -> (forall x, In x l1 -> ~ In x l2) -> NoDup (l1 ++ l2).
Proof.
  induction l1 as [|a l1 IH]; intros N1 N2 D; simpl; [exact N2|].
  inversion N1 as [|? ? Ha N1']; subst. constructor.
  - rewrite in_app_iff. intros [A|A]; [contradiction|]. apply (D a); [left; reflexivity|exact A].
  - apply IH; auto. intros x A. apply D. right; exact A.
Qed.

(* ---------- the closure of prune ---------- *)
Section Closure.
  Variable g : rg.
  Hypothesis W : wf_graph g.
  Variable stop : vkey.

  Lemma in_keys_edge a x : In x (g_in_keys g a) <-> exists w, edge g x a w.
  Proof.
    unfold g_in_keys. rewrite in_keys_lookup. split; intros [w Q]; exists w.
    - apply (wf_mirror W). exact Q.
    - apply (wf_mirror W) in Q. exact Q.
  Qed.

  Lemma out_keys_edge a x : In x (g_out_keys g a) <-> exists w, edge g a x w.
  Proof. unfold g_out_keys. rewrite in_keys_lookup. reflexivity. Qed.

  Definition stepin (a x : vkey) : Prop := a <> stop /\ In x (g_in_keys g a).

  Lemma closure_spec : forall fuel fr seen,
    NoDup seen -> incl seen (g_vertex_keys g) -> incl fr seen ->
    (forall a, In a seen -> ~ In a fr -> forall x, stepin a x -> In x seen) ->
    (length (g_vertex_keys g) < fuel + length seen)%nat ->
    incl seen (closure fuel g stop fr seen) /\
    (forall a, In a (closure fuel g stop fr seen) -> forall x, stepin a x -> In x (closure fuel g stop fr seen)).
  Proof.
    induction fuel as [|f IH]; intros fr seen ND Inc Fr Ex Fu.
    - exfalso. pose proof (NoDup_incl_length ND Inc). simpl in Fu. lia.
    - cbn [closure].
      set (next := dedup (flat_map (fun a => if Base.eqb a stop then [] else g_in_keys g a) fr)).
      remember (filter (fun x => negb (memb x seen)) next) as fresh eqn:Hfresh.
      assert (Key : forall a x, In a fr -> stepin a x -> In x seen \/ In x fresh).
      { intros a x Ia [Ns Ix].
        destruct (In_dec_K x seen) as [A|A]; [left; exact A|right].
        rewrite Hfresh. apply filter_In. split.
        - unfold next. apply in_dedup. apply in_flat_map. exists a. split; [exact Ia|].
          destruct (Base.eqb_spec a stop); [contradiction|exact Ix].
        - apply negb_true_iff. apply memb_false. exact A. }
      assert (Ex' : forall a, In a seen -> forall x, stepin a x -> In x seen \/ In x fresh).
      { intros a Ia x Sx. destruct (In_dec_K a fr) as [A|A]; [eapply Key; eauto|].
        left. eapply Ex; eauto. }
      assert (FrIn : forall x, In x fresh -> ~ In x seen /\ vertex g x).
      { intros x A. rewrite Hfresh in A. apply filter_In in A. destruct A as [A B].
        apply negb_true_iff in B. apply memb_false in B. split; [exact B|].
        unfold next in A. apply (proj1 (in_dedup _ _)) in A. apply in_flat_map in A.
        destruct A as (a & Ia & A). destruct (Base.eqb a stop); [destruct A|].
        apply in_keys_edge in A. destruct A as (w & Ed). apply (wf_closed W _ _ Ed). }
      assert (NDf : NoDup fresh).
      { rewrite Hfresh. apply NoDup_filter. apply nodup_dedup. }
      clear Hfresh.
      destruct fresh as [|y ys].
      + split; [apply incl_refl|].
        intros a Ia x Sx. destruct (Ex' a Ia x Sx) as [A|[]]. exact A.
      + destruct (IH (y :: ys) (seen ++ y :: ys)) as [I1 I2].
        * apply NoDup_app_disj; auto.
          intros x A B. apply (FrIn x B). exact A.
        * intros x A. apply in_app_or in A. destruct A as [A|A]; [apply Inc; exact A|apply FrIn; exact A].
        * intros x A. apply in_or_app; right; exact A.
        * intros a Ia Na x Sx. apply in_app_or in Ia. destruct Ia as [Ia|Ia]; [|contradiction].
          apply in_or_app. apply (Ex' a Ia x Sx).
        * rewrite app_length. simpl. simpl in Fu. lia.
        * split; [|exact I2]. intros x A. apply I1. apply in_or_app; left; exact A.
  Qed.

  Definition keep_of : list vkey :=
    closure (S (length (g_vertex_keys g))) g stop [KRoot] [KRoot].

  Lemma keep_spec :
    vertex g KRoot ->
    In KRoot keep_of /\
    (forall a x w, In a keep_of -> a <> stop -> edge g x a w -> In x keep_of).
  Proof.
    intros VR. unfold keep_of.
    destruct (@closure_spec (S (length (g_vertex_keys g))) [KRoot] [KRoot]) as [I1 I2].
    - constructor; [intros []|constructor].
    - intros x [<-|[]]. exact VR.
    - apply incl_refl.
    - intros a Ia Na. contradiction.
    - simpl. lia.
    - split; [apply I1; left; reflexivity|].
      intros a x w Ia Ns Ed. apply (I2 a Ia). split; [exact Ns|]. apply in_keys_edge. eauto.
  Qed.
End Closure.

(* ---------- the removal loop of prune ---------- *)
Lemma prune_fold (keep : list vkey) : forall l (g : rg), wf_graph g ->
  let G := fold_left (fun g k => if memb k keep then g else g_remove g k) l g in
  wf_graph G /\
  (forall a b w, edge G a b w -> edge g a b w) /\
  (forall a b w, edge g a b w -> In a keep -> In b keep -> edge G a b w) /\
  (forall x, vertex G x -> vertex g x) /\
  (forall x, vertex g x -> In x keep -> vertex G x).
Proof.
  induction l as [|k l IH]; intros g W; cbn [fold_left]; cbv zeta.
  - split; [exact W|]. repeat split; auto.
  - destruct (memb k keep) eqn:M; [apply IH; exact W|].
    apply memb_false in M.
    destruct (g_remove_facts k W) as (W' & Vx & F).
    destruct (IH _ W') as (W2 & E1 & E2 & V1 & V2). cbv zeta in *.
    split; [exact W2|]. split; [|split; [|split]].
    + intros a b w Ed. apply E1 in Ed. rewrite edge_fe, F in Ed.
      destruct (Base.eqb a k || Base.eqb b k); [discriminate|exact Ed].
    + intros a b w Ed Ia Ib. apply E2; auto. rewrite edge_fe, F.
      destruct (Base.eqb_spec a k) as [->|Na]; [contradiction|].
      destruct (Base.eqb_spec b k) as [->|Nb]; [contradiction|]. exact Ed.
    + intros x A. apply V1 in A. apply Vx in A. apply A.
    + intros x A Ik. apply V2; auto. apply Vx. split; [|exact A]. intros ->. contradiction.
Qed.

(* ---------- full_graph, staged ---------- *)
Definition tk (f : fdecl) : vkey := KFunc (fn_type f).
Definition stage3 (f : fdecl) (b : builder) : rg :=
  fold_left (fun g c => func_graph g c true) (b_convs b) (stage2 f (input_vertices b)).
Definition vals_of (b : builder) : amap vkey value :=
  fold_left (fun m kv => insert (fst kv) (snd kv) m) (input_vertices b) [].
Definition steps (u : universe) (b : builder) (g : rg) : rg :=
  step_arg_sub (step_named_sub (fun k => mem k (vals_of b)) (step_ifaces u (step_args (step_values g)))).

Lemma full_graph_eq u f b t :
  full_graph u f b false t =
  (do (ks, t') <- match b_gens b with
                 | [] => Ok ([], t)
                 | _ => take_perm SITE_GEN_VERTS (g_vertex_keys (stage3 f b)) t
                 end;
   let '(g, convs, tr, gerr) := run_gens (stage3 f b) (b_gens b) ks (b_convs b) [] in
   match gerr with
   | Some e => Ok (inr (XGen e), tr)
   | None => Ok (inl (mkFG (steps u b g) (vals_of b) (tk f) (g_out_keys (stage1 f) (tk f))
                           (map fst (input_vertices b)) convs tr t'), tr)
   end).
Proof. reflexivity. Qed.

Lemma input_vertices_value b kv : In kv (input_vertices b) -> value_of_vertex (fst kv) = true.
Proof.
  unfold input_vertices. rewrite !in_app_iff, !in_map_iff.
  intros [(x & <- & _)|[(x & <- & _)|[(x & <- & _)|(x & <- & _)]]]; reflexivity.
Qed.

Section Full.
  Variable u : universe.
  Variable f : fdecl.
  Variable b : builder.
  Let ins := map fst (input_vertices b).
  Let funcs := known_funcs f b.

  Lemma steps_facts g :
    GI ins funcs g ->
    GS ins funcs g (steps u b g) /\
    forall t s, vertex g (KArg t s) -> exists w, edge (steps u b g) (KArg t s) (KOut t s) w.
  Proof.
    intros I. unfold steps.
    pose proof (GS_step_values I) as G1.
    pose proof (GS_step_args (proj1 G1)) as G2.
    pose proof (GS_step_ifaces u (proj1 G2)) as G3.
    pose proof (GS_step_named_sub (fun k => mem k (vals_of b)) (proj1 G3)) as G4.
    pose proof (GS_step_arg_sub (proj1 G4)) as G5.
    split.
    - eapply GS_trans; [exact G1|]. eapply GS_trans; [exact G2|]. eapply GS_trans; [exact G3|].
      eapply GS_trans; [exact G4|exact G5].
    - intros t s Va.
      assert (Va1 : vertex (step_values g) (KArg t s)) by (apply G1; exact Va).
      destruct (@step_args_adds ins funcs _ t s (proj1 G1) Va1) as (w & Ed).
      destruct (proj2 (proj2 G3) _ _ _ Ed) as (w1 & Ed1).
      destruct (proj2 (proj2 G4) _ _ _ Ed1) as (w2 & Ed2).
      destruct (proj2 (proj2 G5) _ _ _ Ed2) as (w3 & Ed3). eauto.
  Qed.

  Lemma funcs_head : In f funcs.
  Proof. left; reflexivity. Qed.

  Lemma stage2_ok :
    GS ins funcs (stage1 f) (stage2 f (input_vertices b)) /\
    forall kv, In kv (input_vertices b) ->
      vertex (stage2 f (input_vertices b)) (fst kv) /\
      exists w, edge (stage2 f (input_vertices b)) (fst kv) KRoot w.
  Proof.
    apply stage2_facts; [exact funcs_head|].
    intros kv Ikv. split; [exact (in_map fst _ _ Ikv)|exact (@input_vertices_value b kv Ikv)].
  Qed.

  Lemma stage3_GS : GS ins funcs (stage2 f (input_vertices b)) (stage3 f b).
  Proof.
    destruct stage2_ok as [G2 _].
    unfold stage3. apply GS_fold; [|apply GS_refl; apply G2].
    intros g c Ic G. apply GS_func_graph; [|exact G].
    right. apply in_or_app. left. exact Ic.
  Qed.

  Definition full_ok (fg : fgraph) : Prop :=
    Forall is_gen_ev (fg_trace fg) /\ fg_target fg = tk f /\ fg_vals fg = vals_of b /\
    fg_freq fg = g_out_keys (stage1 f) (tk f) /\
    GS ins funcs (stage2 f (input_vertices b)) (fg_g fg) /\
    (forall t s, vertex (stage1 f) (KArg t s) -> exists w, edge (fg_g fg) (KArg t s) (KOut t s) w).

  Lemma full_graph_facts t :
    (exists s, full_graph u f b false t = TapeErr s) \/
    (exists e tr, full_graph u f b false t = Ok (inr (XGen e), tr) /\ Forall is_gen_ev tr /\ tr <> []) \/
    (exists fg, full_graph u f b false t = Ok (inl fg, fg_trace fg) /\ full_ok fg).
  Proof.
    rewrite full_graph_eq.
    assert (TP : (exists s, match b_gens b with
                 | [] => Ok ([], t)
                 | _ => take_perm SITE_GEN_VERTS (g_vertex_keys (stage3 f b)) t
                 end = TapeErr s) \/ exists r, match b_gens b with
                 | [] => Ok ([], t)
                 | _ => take_perm SITE_GEN_VERTS (g_vertex_keys (stage3 f b)) t
                 end = Ok r).
    { destruct (b_gens b); [right; eauto|].
      destruct (take_perm_total SITE_GEN_VERTS (g_vertex_keys (stage3 f b)) t) as [[r Q]|Q]; eauto. }
    destruct TP as [[s Q]|[[ks t'] Q]]; rewrite Q; cbn [bind]; [left; eauto|right].
    pose proof stage3_GS as G3.
    assert (Hg : forall gn k f', In gn (b_gens b) -> lookup k (gen_table gn) = Some (GFunc f') -> In f' funcs).
    { intros gn k f' Ign L. right. apply in_or_app. right.
      unfold gen_funcs. apply in_flat_map. exists gn. split; [exact Ign|].
      apply in_flat_map. exists (k, GFunc f'). split; [apply lookup_In; exact L|left; reflexivity]. }
    pose proof (@run_gens_spec ins funcs (b_gens b) ks Hg _ _ (b_convs b) [] G3 (Forall_nil _)) as RG.
    destruct (run_gens (stage3 f b) (b_gens b) ks (b_convs b) []) as [[[g4 c4] tr4] [e|]].
    - left. exists e, tr4. split; [reflexivity|]. destruct RG as (_ & T4 & N4).
      split; [exact T4|apply N4; discriminate].
    - right. exists (mkFG (steps u b g4) (vals_of b) (tk f) (g_out_keys (stage1 f) (tk f))
                           (map fst (input_vertices b)) c4 tr4 t').
      split; [reflexivity|].
      destruct RG as (G4 & T4 & _).
      destruct (steps_facts (proj1 G4)) as [G5 A5].
      split; [exact T4|]. split; [reflexivity|]. split; [reflexivity|]. split; [reflexivity|].
      cbn [fg_g]. split; [eapply GS_trans; [exact G4|exact G5]|].
      intros t0 s0 Va. apply A5. apply G4.
      destruct stage2_ok as [G2 _].
      apply G2. exact Va.
  Qed.
End Full.

(* ---------- prune and call_graph when every parameter has an exact value ---------- *)
Definition pruned (fg : fgraph) : rg :=
  fold_left (fun g k => if memb k (keep_of (fg_g fg) (fg_target fg)) then g else g_remove g k)
            (g_vertex_keys (fg_g fg)) (fg_g fg).

Lemma prune_eq fg :
  prune fg =
  match filter (fun k => negb (mem k (ghash (pruned fg)))) (fg_freq fg) with
  | [] => inl (mkCG (pruned fg) (fg_vals fg) (fg_target fg) (fg_inputs fg) (fg_convs fg) (fg_trace fg) (fg_tape fg))
  | _ :: _ => inr (XUnsat (filter (fun k => negb (mem k (ghash (pruned fg)))) (fg_freq fg))
                          (fg_inputs fg) (map fn_type (fg_convs fg)) true)
  end.
Proof. reflexivity. Qed.

Lemma filter_nil {A} (p : A -> bool) (l : list A) : (forall x, In x l -> p x = false) -> filter p l = [].
Proof.
  induction l as [|a l IH]; intros H; simpl; [reflexivity|].
  rewrite (H a (or_introl eq_refl)). apply IH. intros x A0. apply H. right; exact A0.
Qed.

Lemma field_key_not_func fld ft : field_key fld <> KFunc ft.
Proof. unfold field_key. destruct (String.eqb (f_name fld) ""); discriminate. Qed.

Lemma field_key_not_root fld : field_key fld <> KRoot.
Proof. unfold field_key. destruct (String.eqb (f_name fld) ""); discriminate. Qed.

Section CG.
  Variable u : universe.
  Variable f : fdecl.
  Variable b : builder.
  Let ins := map fst (input_vertices b).
  Let funcs := known_funcs f b.
  Hypothesis BI : binv b.
  Hypothesis Hsig : forall h, In h funcs -> fn_type h = fn_type f ->
    forall fld, In fld (fn_in h) -> exists fld', In fld' (fn_in f) /\ field_key fld' = field_key fld.
  Hypothesis EX : all_exact b f = true.

  Definition cg_ok (cg : cgraph) : Prop :=
    Forall is_gen_ev (cg_trace cg) /\ cg_target cg = tk f /\ cg_vals cg = vals_of b /\
    GI ins funcs (cg_g cg) /\ vertex (cg_g cg) KRoot /\
    (forall fld, In fld (fn_in f) -> exists w, edge (cg_g cg) (tk f) (field_key fld) w) /\
    (forall k, In k ins -> edge (cg_g cg) k KRoot 1) /\
    (forall fld, In fld (fn_in f) -> f_name fld = EmptyString ->
       edge (cg_g cg) (KArg (f_ty fld) (f_sub fld)) (KOut (f_ty fld) (f_sub fld)) 5).

  Lemma exact_in_ins fld : In fld (fn_in f) -> In (field_out_key fld) ins.
  Proof.
    intros If. unfold all_exact in EX. rewrite forallb_forall in EX. specialize (EX fld If).
    unfold exact_value in EX.
    destruct (lookup (field_out_key fld) (input_vertices b)) as [v|] eqn:L; [|discriminate].
    apply lookup_keys in L. exact L.
  Qed.

  Lemma prune_exact fg :
    full_ok f b fg -> exists cg, prune fg = inl cg /\ cg_trace cg = fg_trace fg /\ cg_ok cg.
  Proof.
    intros (T & Tg & Vl & Fq & G & Aa).
    destruct (@stage1_facts ins funcs f (funcs_head f b)) as (I1 & VR1 & Vt1 & F1).
    destruct (stage2_ok f b) as [G2 F2]. fold ins funcs in G2.
    set (g := fg_g fg) in *.
    assert (Wg : wf_graph g) by apply G.
    assert (S1 : sub (stage1 f) g) by (eapply sub_trans; [apply G2|apply G]).
    assert (VR : vertex g KRoot) by (apply S1; exact VR1).
    assert (Ein : forall k, In k ins -> edge g k KRoot 1).
    { intros k Ik. unfold ins in Ik. apply in_map_iff in Ik. destruct Ik as (kv & <- & Ikv).
      destruct (F2 kv Ikv) as [_ (w & Ed)].
      destruct (proj2 (proj2 G) _ _ _ Ed) as (w' & Ed').
      destruct (proj2 (proj1 G) _ _ _ Ed') as (_ & R & _). destruct (R eq_refl) as [-> _]. exact Ed'. }
    assert (Efld : forall fld, In fld (fn_in f) -> exists w, edge g (tk f) (field_key fld) w).
    { intros fld If. destruct (F1 fld If) as [_ (w & Ed)]. eapply S1; eauto. }
    assert (Earg : forall fld, In fld (fn_in f) -> f_name fld = EmptyString ->
               edge g (KArg (f_ty fld) (f_sub fld)) (KOut (f_ty fld) (f_sub fld)) 5).
    { intros fld If Nm. destruct (F1 fld If) as [Vk _].
      unfold field_key in Vk. rewrite Nm in Vk. simpl in Vk.
      destruct (Aa _ _ Vk) as (w & Ed).
      destruct (proj2 (proj1 G) _ _ _ Ed) as (_ & _ & R & _).
      destruct (R _ _ eq_refl) as (_ & Q & _). rewrite (Q eq_refl) in Ed. exact Ed. }
    destruct (keep_spec Wg (tk f) VR) as [KR KC].
    assert (Kin : forall k, In k ins -> In k (keep_of g (tk f))).
    { intros k Ik. apply (KC KRoot k 1); [exact KR|discriminate|apply Ein; exact Ik]. }
    assert (Kfld : forall fld, In fld (fn_in f) -> In (field_key fld) (keep_of g (tk f))).
    { intros fld If. pose proof (exact_in_ins fld If) as Io.
      unfold field_key, field_out_key in *.
      destruct (String.eqb_spec (f_name fld) EmptyString) as [Nm|Nm].
      - apply (KC (KOut (f_ty fld) (f_sub fld)) _ 5); [apply Kin; exact Io|discriminate|].
        apply Earg; auto.
      - apply Kin; exact Io. }
    assert (Ktk : forall fld, In fld (fn_in f) -> In (tk f) (keep_of g (tk f))).
    { intros fld If. destruct (Efld fld If) as (w & Ed).
      apply (KC (field_key fld) _ w); [apply Kfld; exact If|apply field_key_not_func|exact Ed]. }
    destruct (@prune_fold (keep_of g (tk f)) (g_vertex_keys g) g Wg) as (WG & E1 & E2 & V1 & V2).
    assert (PE : pruned fg = fold_left (fun g0 k => if memb k (keep_of g (tk f)) then g0 else g_remove g0 k)
                               (g_vertex_keys g) g).
    { unfold pruned. rewrite Tg. reflexivity. }
    rewrite prune_eq, PE.
    set (G' := fold_left (fun g0 k => if memb k (keep_of g (tk f)) then g0 else g_remove g0 k)
                               (g_vertex_keys g) g) in *.
    assert (Unsat : filter (fun k => negb (mem k (ghash G'))) (fg_freq fg) = []).
    { apply filter_nil. intros k Ik. apply negb_false_iff. apply mem_true.
      rewrite Fq in Ik. apply (proj1 (@out_keys_edge (stage1 f) _ _)) in Ik. destruct Ik as (w & Ed).
      destruct (proj2 I1 _ _ _ Ed) as (_ & _ & _ & R).
      destruct (R _ eq_refl) as [->|(h & fld & Ih & Th & If & ->)].
      - apply V2; auto.
      - destruct (Hsig Ih Th fld If) as (fld' & If' & <-).
        apply V2; [|apply Kfld; exact If'].
        destruct (Efld fld' If') as (w' & Ed'). apply (wf_closed Wg _ _ Ed'). }
    rewrite Unsat. eexists. split; [reflexivity|]. split; [reflexivity|].
    split; [exact T|]. split; [exact Tg|]. split; [exact Vl|]. cbn [cg_g].
    split; [split; [exact WG|intros a b0 w Ed; apply (proj2 (proj1 G)); apply E1; exact Ed]|].
    split; [apply V2; auto|]. split; [|split].
    - intros fld If. destruct (Efld fld If) as (w & Ed). exists w.
      apply E2; [exact Ed|eapply Ktk; eauto|apply Kfld; exact If].
    - intros k Ik. apply E2; [apply Ein; exact Ik|apply Kin; exact Ik|exact KR].
    - intros fld If Nm. apply E2; [apply Earg; auto| |].
      + pose proof (Kfld fld If) as A0. unfold field_key in A0. rewrite Nm in A0. exact A0.
      + apply Kin. pose proof (exact_in_ins fld If) as A0. unfold field_out_key in A0.
        rewrite Nm in A0. exact A0.
  Qed.

  Lemma call_graph_exact t :
    (exists s, call_graph u f b false t = TapeErr s) \/
    (exists e tr, call_graph u f b false t = Ok (inr (XGen e), tr) /\ Forall is_gen_ev tr /\ tr <> []) \/
    (exists cg, call_graph u f b false t = Ok (inl cg, cg_trace cg) /\ cg_ok cg).
  Proof.
    unfold call_graph.
    destruct (full_graph_facts u f b t) as [(s & Q)|[(e & tr & Q & T)|(fg & Q & FO)]]; rewrite Q; cbn [bind].
    - left; eauto.
    - right; left. exists e, tr. auto.
    - right; right. destruct (prune_exact FO) as (cg & P & Tr & Ok).
      exists cg. rewrite P, Tr. auto.
  Qed.
End CG.

(* C01LabelsBase.v -- small lemmas for the C01 proof: signatures of
   same-typed functions, last_named/last_typed, produced_source,
   c01_events, supplied_source. *)
From ArgMapper Require Import Base Graph GraphAlg GraphSpec Types Args Resolver ResolverSpec CheckResolver Monitors ResolverStatements.
From ArgMapper.proofs Require Import C19RefineMap C18DijkstraLemmas C01LabelsDefs.
From Coq Require Import List ZArith Lia Bool.
Import ListNotations.
Set Implicit Arguments.
Local Open Scope Z_scope.

(* ---------- booleans on strings / vkeys ---------- *)
Lemma str_eqb_eq (a b : string) : Base.eqb a b = true <-> a = b.
Proof. apply (@Base.eqb_eq string _). Qed.

Lemma is_empty_true (s : string) : is_empty s = true <-> s = EmptyString.
Proof. unfold is_empty. apply str_eqb_eq. Qed.

(* ---------- signatures ---------- *)
Definition feq (a a' : field) : Prop := f_name a' = f_name a /\ f_ty a' = f_ty a /\ f_sub a' = f_sub a.

Lemma feq_refl a : feq a a.
Proof. unfold feq; auto. Qed.

Lemma feq_label a a' : feq a a' -> label_of_field a' = label_of_field a.
Proof. intros (A & B & C). unfold label_of_field. rewrite A, B, C. reflexivity. Qed.

Lemma feq_key a a' : feq a a' -> field_key a' = field_key a.
Proof. intros (A & B & C). unfold field_key. rewrite A, B, C. reflexivity. Qed.

Lemma sig_nth (l1 l2 : list field) i a :
  sig_of l1 = sig_of l2 -> nth_error l1 i = Some a -> exists a', nth_error l2 i = Some a' /\ feq a a'.
Proof.
  revert l2 i. induction l1 as [|x l1 IH]; intros l2 i S N.
  - destruct i; discriminate.
  - destruct l2 as [|y l2]; [discriminate|]. simpl in S. inversion S as [[S1 S2 S3 S4]].
    destruct i as [|i]; simpl in N.
    + inversion N; subst. exists y. split; [reflexivity|]. unfold feq. auto.
    + simpl. apply IH; auto.
Qed.

Lemma sig_length (l1 l2 : list field) : sig_of l1 = sig_of l2 -> length l1 = length l2.
Proof.
  intros S. apply (f_equal (@length _)) in S. unfold sig_of in S. rewrite !map_length in S. exact S.
Qed.

Lemma sig_map_ty (l1 l2 : list field) : sig_of l1 = sig_of l2 -> map f_ty l1 = map f_ty l2.
Proof.
  revert l2. induction l1 as [|x l1 IH]; intros [|y l2] S; try discriminate; auto.
  simpl in S. inversion S. simpl. f_equal; auto.
Qed.

Lemma sig_map_label (l1 l2 : list field) : sig_of l1 = sig_of l2 -> map label_of_field l1 = map label_of_field l2.
Proof.
  revert l2. induction l1 as [|x l1 IH]; intros [|y l2] S; try discriminate; auto.
  simpl in S. inversion S as [[S1 S2 S3 S4]]. simpl. f_equal; auto.
  unfold label_of_field. rewrite S1, S2, S3. reflexivity.
Qed.

Lemma same_sig_spec f d : same_sig f d = true ->
  sig_of (fn_in f) = sig_of (fn_in d) /\ sig_of (fn_out f) = sig_of (fn_out d).
Proof.
  unfold same_sig. rewrite !andb_true_iff. intros [[A B] _].
  split; [apply (proj1 (Base.eqb_eq _ _) A)|apply (proj1 (Base.eqb_eq _ _) B)].
Qed.

Lemma wf_funcs_type fs f d : wf_funcs fs = true -> In f fs -> In d fs -> fn_type f = fn_type d -> same_sig f d = true.
Proof.
  unfold wf_funcs. rewrite !andb_true_iff. intros [[_ W] _] Hf Hd T.
  rewrite forallb_forall in W. specialize (W f Hf). rewrite forallb_forall in W. specialize (W d Hd).
  rewrite T, Z.eqb_refl in W. exact W.
Qed.

Lemma wf_funcs_id fs f d : wf_funcs fs = true -> In f fs -> In d fs -> fn_id f = fn_id d -> same_sig f d = true.
Proof.
  intros W Hf Hd I. apply wf_funcs_type with (fs := fs); auto.
  unfold wf_funcs in W. rewrite !andb_true_iff in W. destruct W as [_ W].
  rewrite forallb_forall in W. specialize (W f Hf). rewrite forallb_forall in W. specialize (W d Hd).
  rewrite I, Z.eqb_refl in W. apply andb_true_iff in W. destruct W as [W _]. apply Z.eqb_eq in W. exact W.
Qed.

Lemma find_fn_some fs f : In f fs -> exists d, find_fn (fn_id f) fs = Some d /\ In d fs /\ fn_id d = fn_id f.
Proof.
  intros Hf. unfold find_fn. destruct (find (fun d => fn_id d =? fn_id f) fs) as [d|] eqn:Q.
  - apply find_some in Q. destruct Q as [Q1 Q2]. apply Z.eqb_eq in Q2. eauto.
  - exfalso. apply (find_none _ _ Q) in Hf. rewrite Z.eqb_refl in Hf. discriminate.
Qed.

(* ---------- last_named / last_typed ---------- *)
Lemma last_named_spec n (l : list field) : forall i0 acc j a,
  last_named n l i0 acc = Some (j, a) ->
  acc = Some (j, a) \/ (exists k, j = (i0 + k)%nat /\ nth_error l k = Some a /\ f_name a = n /\ n <> EmptyString).
Proof.
  induction l as [|x l IH]; intros i0 acc j a Q; simpl in Q.
  - left; exact Q.
  - apply IH in Q. destruct Q as [Q|(k & Q1 & Q2 & Q3)].
    + destruct (negb (String.eqb (f_name x) "") && String.eqb (f_name x) n) eqn:C.
      * inversion Q; subst. right. exists O. rewrite Nat.add_0_r. split; [reflexivity|]. split; [reflexivity|].
        apply andb_true_iff in C. destruct C as [C1 C2]. apply String.eqb_eq in C2.
        apply negb_true_iff in C1. apply String.eqb_neq in C1. split; [exact C2|]. congruence.
      * left; exact Q.
    + right. exists (S k). split; [lia|]. simpl. auto.
Qed.

Lemma last_typed_spec t (l : list field) : forall i0 acc j a,
  last_typed t l i0 acc = Some (j, a) ->
  acc = Some (j, a) \/ (exists k, j = (i0 + k)%nat /\ nth_error l k = Some a /\ f_name a = EmptyString /\ f_ty a = t).
Proof.
  induction l as [|x l IH]; intros i0 acc j a Q; simpl in Q.
  - left; exact Q.
  - apply IH in Q. destruct Q as [Q|(k & Q1 & Q2 & Q3)].
    + destruct (String.eqb (f_name x) "" && (f_ty x =? t)) eqn:C.
      * inversion Q; subst. right. exists O. rewrite Nat.add_0_r. split; [reflexivity|]. split; [reflexivity|].
        apply andb_true_iff in C. destruct C as [C1 C2]. apply String.eqb_eq in C1. apply Z.eqb_eq in C2. auto.
      * left; exact Q.
    + right. exists (S k). split; [lia|]. simpl. auto.
Qed.

Lemma last_named_nth n l j a : last_named n l 0 None = Some (j, a) -> nth_error l j = Some a.
Proof.
  intros Q. apply last_named_spec in Q. destruct Q as [Q|(k & Q1 & Q2 & _)]; [discriminate|].
  simpl in Q1. subst. exact Q2.
Qed.

Lemma last_typed_nth t l j a : last_typed t l 0 None = Some (j, a) -> nth_error l j = Some a.
Proof.
  intros Q. apply last_typed_spec in Q. destruct Q as [Q|(k & Q1 & Q2 & _)]; [discriminate|].
  simpl in Q1. subst. exact Q2.
Qed.

Definition accR (a1 a2 : option (nat * field)) : Prop :=
  match a1, a2 with
  | None, None => True
  | Some (j1, x1), Some (j2, x2) => j1 = j2 /\ feq x1 x2
  | _, _ => False
  end.

Lemma last_named_sig n (l1 : list field) : forall l2 i0 acc1 acc2,
  sig_of l1 = sig_of l2 -> accR acc1 acc2 ->
  accR (last_named n l1 i0 acc1) (last_named n l2 i0 acc2).
Proof.
  induction l1 as [|x l1 IH]; intros [|y l2] i0 acc1 acc2 S R; try discriminate; simpl; auto.
  simpl in S. inversion S as [[S1 S2 S3 S4]]. apply IH; auto.
  rewrite S1. destruct (negb (String.eqb (f_name y) "") && String.eqb (f_name y) n); auto.
  simpl. split; [reflexivity|]. unfold feq. auto.
Qed.

Lemma last_typed_sig t (l1 : list field) : forall l2 i0 acc1 acc2,
  sig_of l1 = sig_of l2 -> accR acc1 acc2 ->
  accR (last_typed t l1 i0 acc1) (last_typed t l2 i0 acc2).
Proof.
  induction l1 as [|x l1 IH]; intros [|y l2] i0 acc1 acc2 S R; try discriminate; simpl; auto.
  simpl in S. inversion S as [[S1 S2 S3 S4]]. apply IH; auto.
  rewrite S1, S2. destruct (String.eqb (f_name y) "" && (f_ty y =? t)); auto.
  simpl. split; [reflexivity|]. unfold feq. auto.
Qed.

Lemma out_key_of_sig f f' k : sig_of (fn_out f') = sig_of (fn_out f) -> out_key_of f' k -> out_key_of f k.
Proof.
  intros S O. destruct k as [|ft|n t s|t s|t s]; simpl in *; try contradiction.
  - destruct O as (i & fld & Q & A & B & C).
    pose proof (@last_named_sig n (fn_out f') (fn_out f) O None None S I) as R.
    rewrite Q in R. destruct (last_named n (fn_out f) 0 None) as [[j x]|]; simpl in R; [|contradiction].
    destruct R as [-> (R1 & R2 & R3)]. exists j, x. split; [reflexivity|]. repeat split; congruence.
  - destruct O as (i & fld & Q & A & B & C).
    pose proof (@last_typed_sig t (fn_out f') (fn_out f) O None None S I) as R.
    rewrite Q in R. destruct (last_typed t (fn_out f) 0 None) as [[j x]|]; simpl in R; [|contradiction].
    destruct R as [-> (R1 & R2 & R3)]. exists j, x. split; [reflexivity|]. repeat split; congruence.
Qed.

(* ---------- produced_source ---------- *)
Lemma produced_source_app fs l1 l2 id :
  produced_source fs (l1 ++ l2) id = produced_source fs l1 id ++ produced_source fs l2 id.
Proof.
  induction l1 as [|e l1 IH]; simpl; auto.
  destruct e as [fid args outs err|gid k]; auto. rewrite IH, app_assoc. reflexivity.
Qed.

Lemma produced_source_mono fs l1 l2 id x : In x (produced_source fs l1 id) -> In x (produced_source fs (l1 ++ l2) id).
Proof. intros A. rewrite produced_source_app. apply in_or_app; auto. Qed.

Lemma combine_nth {A B} (l1 : list A) (l2 : list B) i a c :
  nth_error l1 i = Some a -> nth_error l2 i = Some c -> In (a, c) (combine l1 l2).
Proof.
  revert l2 i. induction l1 as [|x l1 IH]; intros [|y l2] [|i] N1 N2; simpl in *; try discriminate.
  - inversion N1; inversion N2; subst. auto.
  - right. eapply IH; eauto.
Qed.

Lemma produced_In fs evs fid args outs err d i fd v :
  In (EExec fid args outs err) evs -> find_fn fid fs = Some d ->
  nth_error (fn_out d) i = Some fd -> nth_error outs i = Some v ->
  In (label_of_field fd, f_ty fd) (produced_source fs evs (v_id v)).
Proof.
  intros A F N1 N2. induction evs as [|e evs IH]; simpl in *; [contradiction|].
  destruct A as [A|A].
  - subst e. rewrite F. apply in_or_app. left.
    apply in_flat_map. exists (fd, v). split; [eapply combine_nth; eauto|].
    simpl. rewrite Z.eqb_refl. left; reflexivity.
  - destruct e as [fid' args' outs' err'|gid k]; auto. apply in_or_app. right. auto.
Qed.

(* ---------- c01_events ---------- *)
Lemma c01_events_app u b fs earlier l1 l2 :
  c01_events u b fs earlier (l1 ++ l2) = c01_events u b fs earlier l1 && c01_events u b fs (earlier ++ l1) l2.
Proof.
  revert earlier. induction l1 as [|e l1 IH]; intros earlier; simpl.
  - rewrite app_nil_r. reflexivity.
  - rewrite IH. rewrite <- app_assoc. simpl. rewrite andb_assoc. reflexivity.
Qed.

Lemma c01_events_gen u b fs earlier l : Forall is_gen l -> c01_events u b fs earlier l = true.
Proof.
  intros F. revert earlier. induction F as [|e l He F IH]; intros earlier; simpl; auto.
  destruct e; simpl in He; [contradiction|]. simpl. apply IH.
Qed.

(* ---------- supplied_source ---------- *)
Lemma nodupb_find {T} (key : T -> Z) (l : list T) x :
  nodupb (map key l) = true -> In x l -> find (fun y => key y =? key x) l = Some x.
Proof.
  induction l as [|y l IH]; simpl; intros ND A; [contradiction|].
  apply andb_true_iff in ND. destruct ND as [N1 N2].
  destruct A as [A|A].
  - subst. rewrite Z.eqb_refl. reflexivity.
  - destruct (key y =? key x) eqn:Q.
    + exfalso. apply Z.eqb_eq in Q. apply negb_true_iff in N1.
      apply (proj1 (memb_false _ _)) in N1. apply N1. rewrite Q. apply in_map. exact A.
    + apply IH; auto.
Qed.

Lemma supplied_source_in b k v L :
  wf_values b = true -> In (k, v) (input_vertices b) -> label_of_key k = Some L ->
  supplied_source b (v_id v) = Some (L, v_ty v).
Proof.
  unfold wf_values. intros W A Lk. apply andb_true_iff in W. destruct W as [W _].
  unfold supplied_source.
  pose proof (@nodupb_find _ (fun kv => v_id (snd kv)) (input_vertices b) (k, v) W A) as F.
  simpl in F. rewrite F. rewrite Lk. reflexivity.
Qed.

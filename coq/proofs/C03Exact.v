(* C03Exact.v -- property C03 (exact matches are taken as they are).

   RESULT.  C03_statement as written is FALSE of the model: a counterexample
   is given below (closed by vm_compute): the target is a run-once function
   whose result is already memoized in the world; the call hands out the memo
   and executes nothing.  That is the documented FuncOnce behaviour, not a
   defect of the resolver.  The closest true statement, C03_alt_proof, adds
   exactly one hypothesis:
     (H1) the target is not memoized in w:
          fn_once f = false \/ lookup (fn_id f) (w_once w) = None
   and keeps the conclusion c03_ok ... = true unchanged.  (A generator error
   -- formerly a second counterexample -- is now excluded by the guard
   [generator_failed] inside c03_ok; it is kept below as a regression example.)
   C03_total_statement is true as written (C03_total_proof). *)
From ArgMapper Require Import Base Graph GraphAlg GraphSpec Types Args Resolver ResolverSpec CheckResolver Monitors ResolverStatements.
From ArgMapper.proofs Require Import C19RefineMap C18DijkstraLemmas
  C03ExactArgs C03ExactDijkstra C03ExactGraph C03ExactReach.
From Coq Require Import Lia ZArith List.
Import ListNotations.
Set Implicit Arguments.
Local Open Scope Z_scope.

(* ---------- same Go type, same requirements ---------- *)
Lemma sig_field_key (l1 l2 : list field) fld :
  sig_of l1 = sig_of l2 -> In fld l1 -> exists fld', In fld' l2 /\ field_key fld' = field_key fld.
Proof.
  intros Q If.
  assert (A : In (f_name fld, f_ty fld, f_sub fld) (sig_of l2)).
  { rewrite <- Q. unfold sig_of. apply in_map_iff. exists fld. auto. }
  unfold sig_of in A. apply in_map_iff in A. destruct A as (fld' & E & If').
  exists fld'. split; [exact If'|]. inversion E as [[E1 E2 E3]].
  unfold field_key. rewrite E1, E2, E3. reflexivity.
Qed.

Lemma wf_call_sig u f b :
  wf_call u f b = true ->
  forall h, In h (known_funcs f b) -> fn_type h = fn_type f ->
  forall fld, In fld (fn_in h) -> exists fld', In fld' (fn_in f) /\ field_key fld' = field_key fld.
Proof.
  intros WC h Ih Th fld If.
  unfold wf_call in WC. rewrite !andb_true_iff in WC. destruct WC as [[[WF _] _] _].
  unfold wf_funcs in WF. rewrite !andb_true_iff in WF. destruct WF as [[_ WS] _].
  rewrite forallb_forall in WS.
  assert (Hf : In f (known_funcs f b)) by (left; reflexivity).
  specialize (WS f Hf). rewrite forallb_forall in WS. specialize (WS h Ih).
  rewrite <- Th, Z.eqb_refl in WS.
  unfold same_sig in WS. rewrite !andb_true_iff in WS. destruct WS as [[S1 _] _].
  apply (proj1 (Base.eqb_eq _ _)) in S1. apply sig_field_key with (l1 := fn_in h); [symmetry; exact S1|exact If].
Qed.

Lemma filter_gen_nil tr :
  Forall is_gen_ev tr -> filter (fun e => match e with EGen _ _ => false | _ => true end) tr = [].
Proof.
  induction 1 as [|e tr He _ IH]; [reflexivity|]. simpl. destruct e; [destruct He|exact IH].
Qed.

(* ---------- callDirect on a good argument map ---------- *)
Section Direct.
  Variable u : universe.
  Variable bh : behaviour.
  Variable f : fdecl.
  Variable b : builder.
  Variable am : argmap.
  Hypothesis GD : good f b am.

  Definition chk (fa : field * value) : bool :=
    let '(fld, a) := fa in
    if is_empty (f_name fld)
    then existsb (fun kv => (v_id (snd kv) =? v_id a) && (v_ty (snd kv) =? f_ty fld)) (input_vertices b)
    else match exact_value b fld with Some v => v_id v =? v_id a | None => false end.

  Definition mkargs (l : list field) := map (fun fld => (fld, lookup (field_key fld) am)) l.
  Definition argv_of (l : list field) : list value :=
    flat_map (fun a : field * option value =>
                match snd a with Some v => [mkV (v_id v) (f_ty (fst a))] | None => [] end) (mkargs l).

  Lemma args_good : forall l, (forall fld, In fld l -> In fld (fn_in f)) ->
    existsb (fun a : field * option value =>
               match snd a with
               | Some v => negb (assignable u (v_ty v) (f_ty (fst a)))
               | None => false end) (mkargs l) = false /\
    existsb (fun a : field * option value => match snd a with None => true | Some _ => false end) (mkargs l) = false /\
    length (argv_of l) = length l /\
    forallb chk (combine l (argv_of l)) = true.
  Proof.
    induction l as [|fld l IH]; intros Sub.
    - repeat split; reflexivity.
    - destruct (IH (fun x A => Sub x (or_intror A))) as (I1 & I2 & I3 & I4).
      destruct (GD fld (Sub fld (or_introl eq_refl))) as (v & Lv & Tv & (X & IX) & Ex).
      unfold argv_of, mkargs in *. cbn [map existsb flat_map snd fst app length combine forallb].
      rewrite Lv. cbn [app length combine forallb].
      rewrite I1, I2, I3, I4.
      assert (As : assignable u (v_ty v) (f_ty fld) = true).
      { unfold assignable. rewrite Tv, Z.eqb_refl. reflexivity. }
      rewrite As. repeat split; try reflexivity.
      rewrite andb_true_r. unfold chk. cbn [v_id].
      change (is_empty (f_name fld)) with (String.eqb (f_name fld) EmptyString).
      destruct (String.eqb (f_name fld) EmptyString) eqn:Nm.
      + apply existsb_exists. exists (X, v). split; [exact IX|].
        cbn [snd]. rewrite Z.eqb_refl, Tv, Z.eqb_refl. reflexivity.
      + unfold exact_value. rewrite (Ex eq_refl). apply Z.eqb_refl.
  Qed.

  Lemma call_direct_good s :
    (fn_once f = true /\ exists r, lookup (fn_id f) (s_world s) = Some r /\
       call_direct u bh false f am s = Ok (r, s)) \/
    ((fn_once f = false \/ lookup (fn_id f) (s_world s) = None) /\
     exists argv outs err w',
       call_direct u bh false f am s =
         Ok (mkR outs err false,
             mkS (s_vals s) (s_last s) (s_inputs s) (s_inprog s) w'
                 (s_trace s ++ [EExec (fn_id f) argv outs err]) (s_nexec s + 1) (s_tape s)) /\
       length argv = length (fn_in f) /\ forallb chk (combine (fn_in f) argv) = true).
  Proof.
    destruct (args_good (fn_in f) (fun x A => A)) as (A1 & A2 & A3 & A4).
    unfold argv_of, mkargs in *.
    unfold call_direct.
    destruct (fn_once f) eqn:On.
    - destruct (lookup (fn_id f) (s_world s)) as [r|] eqn:Lw.
      + left. split; [reflexivity|]. exists r. auto.
      + right. split; [right; reflexivity|]. rewrite A1, A2.
        destruct (bh (fn_id f) (s_nexec s + 1)); eexists; eexists; eexists; eexists; (split; [reflexivity|split; [exact A3|exact A4]]).
    - right. split; [left; reflexivity|]. rewrite A1, A2.
      destruct (bh (fn_id f) (s_nexec s + 1)); eexists; eexists; eexists; eexists; (split; [reflexivity|split; [exact A3|exact A4]]).
  Qed.
End Direct.

(* ---------- the call, case by case ---------- *)
Lemma call_exact u bh f d opts b w t :
  build_args d opts = Some b -> wf_call u f b = true -> all_exact b f = true ->
  (exists e, call u bh f d opts w t = TapeErr e) \/
  (exists e tr, call u bh f d opts w t = Ok (mkRun (OErr (XGen e)) tr w t []) /\ Forall is_gen_ev tr /\ tr <> []) \/
  (fn_once f = true /\ exists r0 tr wd tp inp, lookup (fn_id f) (w_once w) = Some r0 /\
     call u bh f d opts w t =
       Ok (mkRun (if r_builderr r0 then OErr XMissing else OOk r0) tr wd tp inp) /\
     Forall is_gen_ev tr) \/
  ((fn_once f = false \/ lookup (fn_id f) (w_once w) = None) /\
   exists tr argv outs err wd tp inp,
     call u bh f d opts w t =
       Ok (mkRun (OOk (mkR outs err false)) (tr ++ [EExec (fn_id f) argv outs err]) wd tp inp) /\
     Forall is_gen_ev tr /\ length argv = length (fn_in f) /\
     forallb (chk b) (combine (fn_in f) argv) = true).
Proof.
  intros HB WC EX.
  pose proof (@binv_build_args d opts b HB) as BI.
  pose proof (@wf_call_sig u f b WC) as Hsig.
  unfold call. rewrite HB.
  destruct (call_graph_exact u Hsig EX t) as [(e & Q)|[(e & tr & Q & T)|(cg & Q & Ok)]]; rewrite Q; cbn [bind].
  - left. eauto.
  - right; left. exists e, tr. auto.
  - destruct Ok as (T & Tg & Vl & HG & HR & Hfld & Hin & Harg).
    unfold fuel_of. rewrite Tg.
    destruct (reach_exact u bh BI EX Hsig HG HR Hfld Hin Harg
                (length (g_vertex_keys (cg_g cg))) (init_state cg w) Vl eq_refl eq_refl eq_refl eq_refl)
      as [(e & R)|(s' & am & R & GD & St & Sw & Sn)]; rewrite R; cbn [bind].
    + left. eauto.
    + cbn [init_state s_trace s_world s_nexec] in St, Sw, Sn.
      destruct (call_direct_good u bh GD s') as [(On & r0 & Lw & CD)|(Nm & argv & outs & err & w' & CD & Ln & Ck)];
        rewrite CD; cbn [bind].
      * right; right; left. split; [exact On|]. rewrite Sw in Lw.
        exists r0. do 4 eexists. split; [exact Lw|]. split; [reflexivity|]. rewrite St. exact T.
      * right; right; right. rewrite Sw in Nm. split; [exact Nm|].
        cbn [r_builderr s_trace s_world s_nexec s_tape s_inputs]. rewrite St.
        do 7 eexists. split; [reflexivity|]. split; [exact T|]. split; [exact Ln|exact Ck].
Qed.

(* ================= counterexamples to C03_statement ================= *)
Local Open Scope string_scope.
Definition cex_u : universe := mkU [] [].
Definition cex_bh : behaviour := fun _ _ => BOk.

(* 1. the target is a memoized run-once function *)
Definition cex1_f : fdecl := mkFn 1 100 FPos [] FPos [] false true.
Definition cex1_w : world := mkW [(1, mkR [] None false)] 1.
Definition cex1_t : tape vkey := [(SITE_REACH_OUT, [KRoot])].

Example C03_counterexample_memo :
  build_args [] [] = Some b0 /\ wf_call cex_u cex1_f b0 = true /\ all_exact b0 cex1_f = true /\
  exists r, call cex_u cex_bh cex1_f [] [] cex1_w cex1_t = Ok r /\
            run_trace r = [] /\ c03_ok cex_u cex1_f b0 (co_of_run r) = false.
Proof.
  split; [reflexivity|]. split; [vm_compute; reflexivity|]. split; [reflexivity|].
  eexists. split; [vm_compute; reflexivity|]. split; vm_compute; reflexivity.
Qed.

(* 2. a generator reports an error: no longer a counterexample (guard generator_failed);
   kept as a regression example of the now-accepted behaviour *)
Definition cex2_f : fdecl := mkFn 1 100 FPos [mkF "" 7 ""] FPos [] false false.
Definition cex2_opts : list arg :=
  [ATyped [Some (mkV 1 7)]; AConvGen [mkGen 5 [(KOut 7 "", GErr 42)]]].
Definition cex2_b : builder :=
  mkB [] [] [(7, mkV 1 7)] [] [] [mkGen 5 [(KOut 7 "", GErr 42)]] None None false.
Definition cex2_t : tape vkey := [(SITE_GEN_VERTS, [KRoot; KFunc 100; KArg 7 ""; KOut 7 ""])].

Example C03_regression_generror :
  build_args [] cex2_opts = Some cex2_b /\ wf_call cex_u cex2_f cex2_b = true /\
  all_exact cex2_b cex2_f = true /\
  exists r, call cex_u cex_bh cex2_f [] cex2_opts world0 cex2_t = Ok r /\
            run_out r = OErr (XGen 42) /\ c03_ok cex_u cex2_f cex2_b (co_of_run r) = true.
Proof.
  split; [reflexivity|]. split; [vm_compute; reflexivity|]. split; [vm_compute; reflexivity|].
  eexists. split; [vm_compute; reflexivity|]. split; vm_compute; reflexivity.
Qed.

Theorem C03_statement_false : ~ C03_statement.
Proof.
  intros H.
  destruct C03_counterexample_memo as (B & W & _ & r & C & _ & F).
  pose proof (H cex_u cex_bh cex1_f [] [] b0 cex1_w cex1_t r B W C) as G.
  rewrite F in G. discriminate.
Qed.
Print Assumptions C03_statement_false.
Local Close Scope string_scope.

Lemma all_gen_forallb tr :
  Forall is_gen_ev tr -> forallb (fun e => match e with EGen _ _ => true | _ => false end) tr = true.
Proof.
  induction 1 as [|e tr He _ IH]; [reflexivity|]. simpl. destruct e; [destruct He|exact IH].
Qed.

Lemma c03_ok_gen u f b e tr wd tp inp :
  Forall is_gen_ev tr -> tr <> [] ->
  c03_ok u f b (co_of_run (mkRun (OErr (XGen e)) tr wd tp inp)) = true.
Proof.
  intros T N. unfold c03_ok.
  assert (G : generator_failed (co_of_run (mkRun (OErr (XGen e)) tr wd tp inp)) = true).
  { unfold generator_failed, co_of_run. cbn [run_out run_trace co_ok co_err co_events negb andb].
    rewrite (all_gen_forallb T), andb_true_r.
    destruct tr as [|ev tr']; [contradiction N; reflexivity|].
    inversion T as [|? ? He _]; subst. destruct ev; [destruct He|reflexivity]. }
  rewrite G, andb_false_r. reflexivity.
Qed.

Lemma c03_ok_exec u f b tr argv outs err wd tp inp :
  all_exact b f = true -> Forall is_gen_ev tr -> length argv = length (fn_in f) ->
  forallb (chk b) (combine (fn_in f) argv) = true ->
  c03_ok u f b (co_of_run (mkRun (OOk (mkR outs err false)) (tr ++ [EExec (fn_id f) argv outs err]) wd tp inp)) = true.
Proof.
  intros EX T Ln Ck. unfold c03_ok. rewrite EX.
  match goal with |- (if true && negb ?g then _ else _) = true => destruct g end; [reflexivity|].
  cbn [andb negb].
  unfold co_of_run. cbn [run_out run_trace r_err co_panic co_events co_ok co_err negb andb].
  rewrite filter_app, (filter_gen_nil T). cbn [filter app].
  rewrite Z.eqb_refl. cbn [andb].
  fold (chk b). rewrite Ck. rewrite Ln, Nat.eqb_refl.
  destruct err as [e|]; cbn [andb]; [|reflexivity].
  rewrite Base.eqb_refl. reflexivity.
Qed.

(* what happens in the excluded situation: nothing at all is executed *)
Theorem C03_alt_excluded :
  forall u bh f d opts b w t r,
    build_args d opts = Some b -> wf_call u f b = true -> all_exact b f = true ->
    call u bh f d opts w t = Ok r ->
    c03_ok u f b (co_of_run r) = true \/
    (Forall is_gen_ev (run_trace r) /\ fn_once f = true /\
     exists r0, lookup (fn_id f) (w_once w) = Some r0 /\
       run_out r = if r_builderr r0 then OErr XMissing else OOk r0).
Proof.
  intros u bh f d opts b w t r HB WC EX HC.
  destruct (call_exact u bh f d opts w t HB WC EX)
    as [(e & Q)|[(e & tr & Q & T & N)|[(On & r0 & tr & wd & tp & inp & Lw & Q & T)|(_ & tr & argv & outs & err & wd & tp & inp & Q & T & Ln & Ck)]]];
    rewrite Q in HC; [discriminate| | |]; inversion HC; subst r.
  - left. apply c03_ok_gen; assumption.
  - right. split; [exact T|]. split; [exact On|]. exists r0. split; [exact Lw|reflexivity].
  - left. apply c03_ok_exec; assumption.
Qed.
Print Assumptions C03_alt_excluded.

(* ================= the corrected statement ================= *)
Definition C03_alt_statement : Prop :=
  forall u bh f d opts b w t r,
    build_args d opts = Some b -> wf_call u f b = true ->
    (* added H1: the target is not memoized *)
    (fn_once f = false \/ lookup (fn_id f) (w_once w) = None) ->
    call u bh f d opts w t = Ok r ->
    c03_ok u f b (co_of_run r) = true.

Theorem C03_alt_proof : C03_alt_statement.
Proof.
  intros u bh f d opts b w t r HB WC H1 HC.
  destruct (all_exact b f) eqn:EX; [|unfold c03_ok; rewrite EX; reflexivity].
  destruct (call_exact u bh f d opts w t HB WC EX)
    as [(e & Q)|[(e & tr & Q & T & N)|[(On & r0 & Lw)|(_ & tr & argv & outs & err & wd & tp & inp & Q & T & Ln & Ck)]]].
  - rewrite Q in HC. discriminate.
  - rewrite Q in HC. inversion HC; subst r. apply c03_ok_gen; assumption.
  - destruct Lw as (tr & wd & tp & inp & Lw & _). exfalso. destruct H1 as [A|A]; congruence.
  - rewrite Q in HC. inversion HC; subst r. clear HC.
    apply c03_ok_exec; assumption.
Qed.
Print Assumptions C03_alt_proof.

Theorem C03_total_proof : C03_total_statement.
Proof.
  intros u bh f d opts b w t HB WC EX.
  destruct (call_exact u bh f d opts w t HB WC EX)
    as [(e & Q)|[(e & tr & Q & _)|[(_ & r0 & tr & wd & tp & inp & _ & Q & _)|(_ & tr & argv & outs & err & wd & tp & inp & Q & _)]]];
    rewrite Q; eauto.
Qed.
Print Assumptions C03_total_proof.

(* C05CompleteDijkstraPath.v -- reading the path off the predecessor map.

   1. [dijkstra_path_spec] of C05CompleteDefs is FALSE as stated: the facts
      [dijkstra_facts] never say that the predecessor of a vertex is itself
      reachable from the source, so a predecessor chain may end in a root
      other than the source ([dijkstra_path_spec_false], a three-vertex
      counterexample).
   2. The closest true variant [dijkstra_path_alt]: the same statement under
      the extra hypothesis that predecessors are reachable from the source
      (a fact the real run does guarantee, see
      C05CompleteDijkstraRun.dijkstra_small_run / finite_reach). *)
From ArgMapper Require Import Base Graph GraphAlg GraphSpec.
From ArgMapper.proofs Require Import C18DijkstraLemmas C18Dijkstra C05CompleteDefs
     C05CompleteDijkstraRun.
From Coq Require Import Lia ZArith List.
Import ListNotations.
Set Implicit Arguments.
Local Open Scope Z_scope.

Section Path.
  Context {K : Type} {E : EqDec K} {V : Type}.
  Notation graph := (graph K V).

  Lemma ppath_chain (p : amap K K) src v l : ppath p src v l -> chain p v l.
  Proof.
    induction 1 as [Q|v u l Q P IH].
    - constructor. exact Q.
    - eapply chain_step; eauto.
  Qed.

  Definition preds_reach (g : graph) (src : K) (p : amap K K) : Prop :=
    forall v u, lookup v p = Some u -> reach g src u.

  Lemma ppath_exists (g : graph) src d p ord :
    dijkstra_facts g src d p ord -> preds_reach g src p ->
    forall n v, (rank ord v <= n)%nat -> In v ord -> reach g src v ->
    exists l, ppath p src v l /\ NoDup l /\
              (forall x, In x l -> In x ord /\ (rank ord x <= rank ord v)%nat).
  Proof.
    intros (ND & All & SrcP & Pv & _ & HasP & _) PR.
    induction n as [|n IH]; intros v Le Iv Rv.
    - destruct (lookup v p) as [u|] eqn:Q.
      + destruct (Pv _ _ Q) as (Bf & _).
        destruct (before_rank ND Bf) as (_ & _ & Rk). lia.
      + assert (v = src).
        { destruct (eq_dec_K v src) as [A|A]; [exact A|].
          destruct (HasP v Rv A) as (u & Qu). congruence. }
        subst v. exists [src]. split; [constructor; exact SrcP|].
        split; [constructor; [intros []|constructor]|].
        intros x [<-|[]]. split; [exact Iv|lia].
    - destruct (lookup v p) as [u|] eqn:Q.
      + destruct (Pv _ _ Q) as (Bf & _).
        destruct (before_rank ND Bf) as (Iu & _ & Rk).
        destruct (IH u) as (l & P & NDl & Bd); [lia|exact Iu|apply (PR _ _ Q)|].
        exists (l ++ [v]). split; [eapply ppath_step; eauto|]. split.
        * apply NoDup_snoc; auto. intros A. destruct (Bd v A) as [_ B]. lia.
        * intros x A. apply in_app_or in A. destruct A as [A|[A|[]]].
          -- destruct (Bd x A) as [B1 B2]. split; [exact B1|lia].
          -- subst x. split; [exact Iv|lia].
      + assert (v = src).
        { destruct (eq_dec_K v src) as [A|A]; [exact A|].
          destruct (HasP v Rv A) as (u & Qu). congruence. }
        subst v. exists [src]. split; [constructor; exact SrcP|].
        split; [constructor; [intros []|constructor]|].
        intros x [<-|[]]. split; [exact Iv|lia].
  Qed.

  Theorem dijkstra_path_alt (g : graph) (src : K) (d : amap K Z) (p : amap K K)
          (ord : list K) (v : K) :
    wf_graph g -> dijkstra_facts g src d p ord -> preds_reach g src p ->
    vertex g v -> reach g src v ->
    exists path, edge_to_path g p v = Ok path /\ ppath p src v path /\ NoDup path.
  Proof.
    intros WF F PR Vv Rv.
    pose proof F as (ND & All & _).
    assert (Iv : In v ord) by (apply All; exact Vv).
    destruct (@ppath_exists g src d p ord F PR (rank ord v) v (le_n _) Iv Rv) as (l & P & NDl & Bd).
    exists l. split; [|split; assumption].
    unfold edge_to_path. rewrite (etp_chain (ppath_chain P)).
    - rewrite app_nil_r. reflexivity.
    - assert (Inc : incl l (g_vertex_keys g)).
      { intros x A. destruct (Bd x A) as [B _]. apply All in B. exact B. }
      pose proof (NoDup_incl_length NDl Inc). lia.
  Qed.

  (* the real run provides the extra hypothesis *)
  Lemma finite_preds_reach (g : graph) src d p ord :
    dijkstra_facts g src d p ord -> finite_reach g src d -> preds_reach g src p.
  Proof.
    intros (_ & _ & _ & Pv & _) FR v u Q.
    destruct (Pv _ _ Q) as (_ & w & _ & _ & Fu). apply FR. exact Fu.
  Qed.
End Path.

(* ---------- the counterexample to dijkstra_path_spec ---------- *)
Section Cex.
  (* vertices 0 (the source), 1, 2; edges 0 -1-> 2 and 1 -1-> 2 *)
  Definition cex_g : graph nat unit :=
    mkGraph [(0%nat, [(2%nat, 1)]); (1%nat, [(2%nat, 1)]); (2%nat, [])]
            [(0%nat, []); (1%nat, []); (2%nat, [(0%nat, 1); (1%nat, 1)])]
            [(0%nat, tt); (1%nat, tt); (2%nat, tt)].
  Definition cex_d : amap nat Z := [(0%nat, 0); (1%nat, 0); (2%nat, 1)].
  Definition cex_p : amap nat nat := [(2%nat, 1%nat)].
  Definition cex_ord : list nat := [0%nat; 1%nat; 2%nat].

  Lemma nodup3 : NoDup [0%nat; 1%nat; 2%nat].
  Proof.
    constructor; [simpl; intros [A|[A|[]]]; discriminate|].
    constructor; [simpl; intros [A|[]]; discriminate|].
    constructor; [intros []|constructor].
  Qed.

  Lemma cex_edge a b w : edge cex_g a b w <->
    ((a = 0%nat /\ b = 2%nat /\ w = 1) \/ (a = 1%nat /\ b = 2%nat /\ w = 1)).
  Proof.
    unfold edge.
    destruct a as [|[|[|a]]]; destruct b as [|[|[|b]]]; cbn; split;
      try (intros Q; discriminate Q);
      try (intros [(A & B & C)|(A & B & C)]; discriminate);
      try (intros Q; inversion Q; auto; fail);
      try (intros [(A & B & C)|(A & B & C)]; subst; reflexivity).
  Qed.

  Lemma cex_wf : wf_graph cex_g.
  Proof.
    constructor; cbn [cex_g gout gin ghash].
    - exact nodup3.
    - exact nodup3.
    - exact nodup3.
    - intros k. reflexivity.
    - intros k. reflexivity.
    - intros k i. destruct k as [|[|[|k]]]; cbn; intros Q; inversion Q;
        repeat (constructor; [simpl; tauto|]); constructor.
    - intros k i. destruct k as [|[|[|k]]]; cbn; intros Q; inversion Q.
      + constructor.
      + constructor.
      + constructor; [simpl; intros [A|[]]; discriminate|].
        constructor; [intros []|constructor].
    - intros a b w.
      destruct a as [|[|[|a]]]; destruct b as [|[|[|b]]]; cbn; split; intros Q;
        try discriminate Q; try exact Q.
    - intros a b w Q. apply cex_edge in Q.
      destruct Q as [(-> & -> & _)|(-> & -> & _)]; cbn; auto.
  Qed.

  Lemma cex_walk_from2 c p w : walk cex_g 2%nat c p w -> c = 2%nat.
  Proof.
    intros W. inversion W as [a Va|a b c' p' w1 w2 Ed W']; subst; [reflexivity|].
    apply cex_edge in Ed. destruct Ed as [(A & _)|(A & _)]; discriminate.
  Qed.

  Lemma cex_reach v : reach cex_g 0%nat v -> v = 0%nat \/ v = 2%nat.
  Proof.
    intros (p & w & W). inversion W as [a Va|a b c' p' w1 w2 Ed W']; subst; [left; reflexivity|].
    apply cex_edge in Ed. destruct Ed as [(_ & -> & _)|(A & _)]; [|discriminate].
    right. apply (cex_walk_from2 W').
  Qed.

  Lemma cex_facts : dijkstra_facts cex_g 0%nat cex_d cex_p cex_ord.
  Proof.
    split; [exact nodup3|]. split; [intros v; reflexivity|]. split; [reflexivity|].
    split; [|split; [|split]].
    - intros v u. destruct v as [|[|[|v]]]; cbn; intros Q; try discriminate Q.
      inversion Q; subst u. split.
      + exists [0%nat], [], []. reflexivity.
      + exists 1. split; [apply cex_edge; auto|]. cbn. split; [reflexivity|]. unfold INF; lia.
    - intros a c w Ed _ _. apply cex_edge in Ed.
      destruct Ed as [(-> & -> & ->)|(-> & -> & ->)]; cbn; lia.
    - intros v Rv Ne. destruct (cex_reach Rv) as [-> | ->]; [contradiction Ne; reflexivity|].
      exists 1%nat. reflexivity.
    - intros v u. destruct v as [|[|[|v]]]; cbn; intros Q; try discriminate Q.
      exists [0%nat; 2%nat], (1 + 0).
      apply walk_cons with (b := 2%nat); [apply cex_edge; auto|].
      constructor. unfold vertex. cbn. auto.
  Qed.

  Theorem dijkstra_path_spec_false : ~ @dijkstra_path_spec nat EqDec_nat unit.
  Proof.
    intros S.
    destruct (S cex_g 0%nat cex_d cex_p cex_ord 2%nat cex_wf cex_facts) as (path & _ & P & _).
    - unfold vertex. cbn. auto.
    - exists [0%nat; 2%nat], (1 + 0).
      apply walk_cons with (b := 2%nat); [apply cex_edge; auto|].
      constructor. unfold vertex. cbn. auto.
    - inversion P as [Q|v u l Q P1]; subst.
      cbn in Q. inversion Q; subst u.
      inversion P1 as [Q1|v1 u1 l1 Q1 P2]; subst.
      cbn in Q1. discriminate Q1.
  Qed.
End Cex.

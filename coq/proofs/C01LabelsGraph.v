(* C01LabelsGraph.v -- the call graph handed to the planner satisfies the
   edge rules ([ginv]), every vertex of it is reachable from the root
   against the edge direction, its value table is the table of supplied
   inputs; the matching-name discount only changes weights. *)
From ArgMapper Require Import Base Graph GraphAlg GraphHist GraphSpec GraphStatements Types Args Resolver ResolverSpec GenWeights.
From ArgMapper.proofs Require Import C19RefineMap C19RefineGraph C18DijkstraLemmas C01LabelsDefs C01LabelsGraphInv.
From Coq Require Import List ZArith Lia.
Import ListNotations.
Set Implicit Arguments.
Local Open Scope Z_scope.

(* ---------- in-keys and the edge function ---------- *)
Lemma in_keys_fe (g : rgraph) (a x : vkey) :
  wf_graph g -> (In x (g_in_keys g a) <-> exists w, feof g x a = Some w).
Proof.
  intros W. destruct (wf_gspec W) as (_ & _ & Hi & _).
  unfold g_in_keys. rewrite in_keys_lookup. rewrite Hi. reflexivity.
Qed.

(* ---------- the full graph ---------- *)
Definition vals_of (ins : list (vkey * value)) : amap vkey value :=
  fold_left (fun m kv => insert (fst kv) (snd kv) m) ins [].

Lemma full_graph_spec (u : universe) (f : fdecl) (b : builder) (t : tape vkey)
      (r : fgraph + rerr) (tr : list event) :
  full_graph u f b false t = Ok (r, tr) ->
  Forall is_gen tr /\
  match r with
  | inl fg => ginv u b (known_funcs f b) (fg_g fg) /\
              fg_vals fg = vals_of (input_vertices b) /\
              fg_target fg = KFunc (fn_type f) /\ fg_trace fg = tr
  | inr _ => True
  end.
Proof.
  intros H. unfold full_graph in H.
  assert (If : In f (known_funcs f b)) by (left; reflexivity).
  assert (Ic : incl (b_convs b) (known_funcs f b)).
  { intros c I. right. apply in_app_iff. left; exact I. }
  assert (Ig : incl (gen_funcs (b_gens b)) (known_funcs f b)).
  { intros c I. right. apply in_app_iff. right; exact I. }
  match type of H with context [run_gens ?g0] => set (g3 := g0) in H end.
  assert (G3 : ginv u b (known_funcs f b) g3).
  { unfold g3. apply ginv_convs; [exact Ic|]. apply ginv_inputs.
    apply ginv_func_graph; [exact If|]. apply ginv_root. }
  clearbody g3.
  match type of H with bind ?m _ = _ => destruct m as [[ks t']|s|s|] end;
    unfold bind in H; try discriminate.
  pose proof (@run_gens_ok u b (known_funcs f b) g3 (b_gens b) ks (b_convs b) [] Ig G3 (Forall_nil _)) as P.
  destruct (run_gens g3 (b_gens b) ks (b_convs b) []) as [[[g4 c4] t4] e4].
  destruct P as [G4 T4]. cbn [fst snd] in G4, T4.
  destruct e4 as [e|].
  - inversion H; subst. split; [exact T4|exact I].
  - inversion H; subst. split; [exact T4|]. cbn [fg_g fg_vals fg_target fg_trace].
    split; [|split; [reflexivity|split; reflexivity]].
    apply ginv_step_arg_sub. apply ginv_step_named_sub. apply ginv_step_ifaces.
    apply ginv_step_args. apply ginv_step_values. exact G4.
Qed.

(* ---------- the value table ---------- *)
Lemma vals_fold_lookup (ins : list (vkey * value)) :
  forall (m : amap vkey value) k v,
    lookup k (fold_left (fun m kv => insert (fst kv) (snd kv) m) ins m) = Some v ->
    In (k, v) ins \/ lookup k m = Some v.
Proof.
  induction ins as [|[k0 v0] ins IH]; simpl; intros m k v H.
  - right; exact H.
  - apply IH in H. destruct H as [H|H]; [left; right; exact H|].
    rewrite lookup_insert in H. destruct (Base.eqb_spec k k0) as [->|N].
    + inversion H; subst. left; left; reflexivity.
    + right; exact H.
Qed.

Lemma vals_fold_mem (ins : list (vkey * value)) :
  forall (m : amap vkey value) k,
    In k (map fst ins) \/ mem k m = true ->
    mem k (fold_left (fun m kv => insert (fst kv) (snd kv) m) ins m) = true.
Proof.
  induction ins as [|[k0 v0] ins IH]; simpl; intros m k H.
  - destruct H as [[]|H]; exact H.
  - apply IH. destruct H as [[E|H]|H].
    + right. subst k0. unfold mem. rewrite lookup_insert, Base.eqb_refl. reflexivity.
    + left; exact H.
    + right. unfold mem in *. rewrite lookup_insert. destruct (Base.eqb k k0); [reflexivity|exact H].
Qed.

(* ---------- closure: every collected vertex has a path inside the set ---------- *)
Inductive rchS (g : rgraph) (S : list vkey) : vkey -> Prop :=
| rchS_root : In KRoot S -> rchS g S KRoot
| rchS_step a x : rchS g S a -> In x (g_in_keys g a) -> In x S -> rchS g S x.

Lemma rchS_in (g : rgraph) S k : rchS g S k -> In k S.
Proof. intros R; destruct R; assumption. Qed.

Lemma rchS_mono (g : rgraph) S S' k : incl S S' -> rchS g S k -> rchS g S' k.
Proof.
  intros HI R. induction R as [I|a x R IH Ix Is].
  - apply rchS_root. apply HI; exact I.
  - eapply rchS_step; [exact IH|exact Ix|apply HI; exact Is].
Qed.

Lemma dedup_in (l : list vkey) (x : vkey) : In x (dedup l) -> In x l.
Proof.
  induction l as [|y l IH]; simpl; [auto|].
  destruct (memb y l); [intros I; right; apply IH; exact I|].
  intros [E|I]; [left; exact E|right; apply IH; exact I].
Qed.

Lemma closure_rchS (g : rgraph) (stop : vkey) :
  forall fuel frontier seen,
    (forall k, In k seen -> rchS g seen k) -> incl frontier seen ->
    forall k, In k (closure fuel g stop frontier seen) ->
              rchS g (closure fuel g stop frontier seen) k.
Proof.
  induction fuel as [|fuel IH]; intros frontier seen Hs Hf; cbn [closure].
  - exact Hs.
  - match goal with |- context [match ?F with [] => _ | _ :: _ => _ end] => set (fresh := F) end.
    assert (HF : forall x, In x fresh -> exists a, In a seen /\ In x (g_in_keys g a)).
    { intros x Ix. unfold fresh in Ix. apply filter_In in Ix. destruct Ix as [Ix _].
      apply dedup_in in Ix. apply in_flat_map in Ix. destruct Ix as (a & Ia & Ix).
      exists a. split; [apply Hf; exact Ia|].
      destruct (Base.eqb a stop); [destruct Ix|exact Ix]. }
    clearbody fresh. destruct fresh as [|y fr]; [exact Hs|].
    apply IH.
    + intros k Ik. apply in_app_iff in Ik. destruct Ik as [Ik|Ik].
      * eapply rchS_mono; [|apply Hs; exact Ik]. apply incl_appl, incl_refl.
      * destruct (HF k Ik) as (a & Ia & Ix).
        eapply rchS_step; [|exact Ix|apply in_app_iff; right; exact Ik].
        eapply rchS_mono; [|apply Hs; exact Ia]. apply incl_appl, incl_refl.
    + apply incl_appr, incl_refl.
Qed.

(* ---------- prune ---------- *)
Definition rmv (keep l : list vkey) (k : vkey) : bool := memb k l && negb (memb k keep).

Lemma rmv_cons keep x l k :
  rmv keep (x :: l) k = (Base.eqb k x && negb (memb x keep)) || rmv keep l k.
Proof.
  unfold rmv. cbn [memb]. destruct (Base.eqb_spec k x) as [->|N]; simpl; [|reflexivity].
  destruct (memb x l), (memb x keep); reflexivity.
Qed.

Lemma prune_fold_gspec (keep l : list vkey) :
  forall (g : rgraph) fv fe, gspec g fv fe ->
    gspec (fold_left (fun g k => if memb k keep then g else g_remove g k) l g)
          (fun k => if rmv keep l k then None else fv k)
          (fun a b => if rmv keep l a || rmv keep l b then None else fe a b).
Proof.
  induction l as [|x l IH]; intros g fv fe S; cbn [fold_left].
  - eapply gspec_ext; [exact S| |]; intros; reflexivity.
  - destruct (memb x keep) eqn:M.
    + eapply gspec_ext; [apply IH; exact S| |].
      * intros k. rewrite rmv_cons, M. cbn [negb]. rewrite andb_false_r. reflexivity.
      * intros a c. rewrite !rmv_cons, M. cbn [negb]. rewrite !andb_false_r. reflexivity.
    + eapply gspec_ext; [apply IH; apply gspec_remove; exact S| |].
      * intros k. rewrite rmv_cons, M. cbn [negb]. rewrite andb_true_r. unfold upd1.
        destruct (Base.eqb k x), (rmv keep l k); reflexivity.
      * intros a c. rewrite !rmv_cons, M. cbn [negb]. rewrite !andb_true_r.
        destruct (Base.eqb a x), (Base.eqb c x), (rmv keep l a), (rmv keep l c); reflexivity.
Qed.

Lemma rmv_keep keep l k : In k keep -> rmv keep l k = false.
Proof.
  intros I. unfold rmv. apply (memb_In k keep) in I. rewrite I. apply andb_false_r.
Qed.

Lemma rchS_rchb (g g' : rgraph) (keep : list vkey) (k : vkey) :
  (forall a x, In a keep -> In x keep -> In x (g_in_keys g a) -> In x (g_in_keys g' a)) ->
  rchS g keep k -> rchb g' k.
Proof.
  intros HT R. induction R as [I|a x R IH Ix Is].
  - apply rchb_root.
  - apply rchb_step with a; [exact IH|]. apply HT; [apply (rchS_in R)|exact Is|exact Ix].
Qed.

Lemma pruned_ok (u : universe) (b : builder) (fs : list fdecl) (keep : list vkey) (g : rgraph) :
  ginv u b fs g ->
  (forall k, In k keep -> rchS g keep k) ->
  let g' := fold_left (fun g k => if memb k keep then g else g_remove g k) (g_vertex_keys g) g in
  ginv u b fs g' /\ (forall k, In k (g_vertex_keys g') -> rchb g' k).
Proof.
  intros G HK g'.
  pose proof (ginv_gspec G) as S.
  pose proof (prune_fold_gspec keep (g_vertex_keys g) S) as S'. fold g' in S'.
  split.
  - eapply ginv_intro; [exact S'| |].
    + intros x y w Q. cbv beta in Q.
      destruct (rmv keep (g_vertex_keys g) x || rmv keep (g_vertex_keys g) y); [discriminate|].
      apply (gi_edge G). exact Q.
    + intros ft f0 Q. cbv beta in Q.
      destruct (rmv keep (g_vertex_keys g) (KFunc ft)); [discriminate|].
      apply (gi_pay G). exact Q.
  - intros k Ik. destruct S' as (Hv' & Ho' & Hi' & W').
    unfold g_vertex_keys in Ik. apply keys_lookup in Ik. destruct Ik as [v Lk].
    rewrite Hv' in Lk.
    destruct (rmv keep (g_vertex_keys g) k) eqn:R; [discriminate|].
    assert (Il : In k (g_vertex_keys g)).
    { unfold g_vertex_keys. apply lookup_keys with (v := v). exact Lk. }
    unfold rmv in R. apply (memb_In k (g_vertex_keys g)) in Il. rewrite Il in R. cbn [andb] in R.
    apply negb_false_iff in R. apply (memb_In k keep) in R.
    apply rchS_rchb with (g := g) (keep := keep); [|apply HK; exact R].
    intros a x Ia Ix Ig.
    apply (in_keys_fe a x (gi_wf G)) in Ig. destruct Ig as [w Ew].
    unfold g_in_keys. apply lookup_keys with (v := w).
    rewrite Hi'. rewrite (@rmv_keep keep (g_vertex_keys g) x Ix), (@rmv_keep keep (g_vertex_keys g) a Ia). cbn [orb]. exact Ew.
Qed.

Lemma prune_spec (u : universe) (b : builder) (fs : list fdecl) (fg : fgraph) (cg : cgraph) :
  ginv u b fs (fg_g fg) -> prune fg = inl cg ->
  ginv u b fs (cg_g cg) /\ (forall k, In k (g_vertex_keys (cg_g cg)) -> rchb (cg_g cg) k) /\
  cg_vals cg = fg_vals fg /\ cg_target cg = fg_target fg /\ cg_trace cg = fg_trace fg.
Proof.
  intros G H. unfold prune in H.
  set (keep := closure (S (length (g_vertex_keys (fg_g fg)))) (fg_g fg) (fg_target fg) [KRoot] [KRoot]) in H.
  assert (HK : forall k, In k keep -> rchS (fg_g fg) keep k).
  { apply closure_rchS.
    - intros k [E|[]]. subst k. apply rchS_root. left; reflexivity.
    - apply incl_refl. }
  pose proof (@pruned_ok u b fs keep (fg_g fg) G HK) as P. cbv zeta in P.
  clearbody keep.
  set (g' := fold_left (fun g k => if memb k keep then g else g_remove g k)
                       (g_vertex_keys (fg_g fg)) (fg_g fg)) in *.
  clearbody g'.
  destruct (filter (fun k => negb (mem k (ghash g'))) (fg_freq fg)); [|discriminate].
  inversion H; subst cg. cbn [cg_g cg_vals cg_target cg_trace].
  destruct P as [P1 P2]. split; [exact P1|]. split; [exact P2|]. split; [reflexivity|]. split; reflexivity.
Qed.

(* ---------- the call graph ---------- *)
Theorem call_graph_spec (u : universe) (f : fdecl) (b : builder) (t : tape vkey) (cg : cgraph) (tr : list event) :
  call_graph u f b false t = Ok (inl cg, tr) ->
  ginv u b (known_funcs f b) (cg_g cg) /\
  (forall k, In k (g_vertex_keys (cg_g cg)) -> rchb (cg_g cg) k) /\
  (forall k v, lookup k (cg_vals cg) = Some v -> In (k, v) (input_vertices b)) /\
  (forall k, In k (map fst (input_vertices b)) -> mem k (cg_vals cg) = true) /\
  cg_trace cg = tr /\ cg_target cg = KFunc (fn_type f) /\ Forall is_gen tr.
Proof.
  intros H. unfold call_graph in H.
  destruct (full_graph u f b false t) as [[r tr0]|s|s|] eqn:F; unfold bind in H; try discriminate.
  apply full_graph_spec in F. destruct F as [T F].
  destruct r as [fg|e]; [|discriminate].
  inversion H as [[Hp Ht]]. subst tr0.
  destruct F as (G & Ev & Et & Etr).
  destruct (@prune_spec u b (known_funcs f b) fg cg G Hp) as (P1 & P2 & P3 & P4 & P5).
  split; [exact P1|]. split; [exact P2|].
  rewrite P3, Ev. unfold vals_of.
  split.
  { intros k v L. apply vals_fold_lookup in L. destruct L as [L|L]; [exact L|discriminate]. }
  split.
  { intros k I. apply vals_fold_mem. left; exact I. }
  split; [rewrite P5; exact Etr|]. split; [rewrite P4; exact Et|exact T].
Qed.

Theorem call_graph_err (u : universe) (f : fdecl) (b : builder) (t : tape vkey) (e : rerr) (tr : list event) :
  call_graph u f b false t = Ok (inr e, tr) -> Forall is_gen tr.
Proof.
  intros H. unfold call_graph in H.
  destruct (full_graph u f b false t) as [[r tr0]|s|s|] eqn:F; unfold bind in H; try discriminate.
  apply full_graph_spec in F. destruct F as [T _].
  destruct r as [fg|e0]; inversion H; subst; exact T.
Qed.

(* ---------- the matching-name discount ---------- *)
Definition same_shape (g g' : rgraph) : Prop :=
  ghash g' = ghash g /\
  forall a x, (exists w, feof g' x a = Some w) <-> (exists w, feof g x a = Some w).

Lemma same_shape_refl (g : rgraph) : same_shape g g.
Proof. split; [reflexivity|intros; reflexivity]. Qed.

Lemma same_shape_trans (g1 g2 g3 : rgraph) : same_shape g1 g2 -> same_shape g2 g3 -> same_shape g1 g3.
Proof.
  intros [H1 E1] [H2 E2]. split; [congruence|]. intros a x. rewrite E2. apply E1.
Qed.

Lemma ghash_add_e (g : rgraph) (a c : vkey) (w : Z) : ghash (add_e g a c w) = ghash g.
Proof.
  unfold add_e, g_add_edge.
  destruct (mem a (ghash g) && mem c (ghash g)); [|reflexivity].
  destruct (lookup a (gout g)); [|reflexivity].
  destruct (lookup c (gin g)); reflexivity.
Qed.

Lemma add_e_existing (u : universe) (b : builder) (fs : list fdecl) (g : rgraph) (src k : vkey) (w w0 : Z) :
  ginv u b fs g -> feof g src k = Some w0 -> -20 <= w <= 20 ->
  ginv u b fs (add_e g src k w) /\ same_shape g (add_e g src k w).
Proof.
  intros G E Bw. split.
  - apply ginv_add_e; [|exact Bw|exact G]. apply (gi_edge G _ _ E).
  - split; [apply ghash_add_e|].
    intros a x. destruct (add_e_spec src k w G) as (_ & Ho & _ & _).
    unfold feof at 1. rewrite Ho.
    destruct (fvof g src); [|reflexivity]. destruct (fvof g k); [|reflexivity].
    unfold upd2. destruct (Base.eqb x src && Base.eqb a k) eqn:T; [|reflexivity].
    apply andb_true_iff in T. destruct T as [T1 T2]. apply vk_eq in T1. apply vk_eq in T2. subst x a.
    split; intros _; eauto.
Qed.

Theorem discount_spec (u : universe) (b : builder) (fs : list fdecl) (g : rgraph) (cur : vkey) :
  ginv u b fs g ->
  ginv u b fs (discount g cur) /\
  (forall a x, In x (g_in_keys (discount g cur) a) <-> In x (g_in_keys g a)) /\
  g_vertex_keys (discount g cur) = g_vertex_keys g.
Proof.
  intros G.
  assert (J : ginv u b fs (discount g cur) /\ same_shape g (discount g cur)).
  { unfold discount. destruct cur as [|ft|n t s|t s|t s]; try (split; [exact G|apply same_shape_refl]).
    apply fold_left_inv with (P := fun g' => ginv u b fs g' /\ same_shape g g');
      [|split; [exact G|apply same_shape_refl]].
    intros g1 k [G1 S1].
    destruct k as [|ft2|n2 t2 s2|t2 s2|t2 s2]; try (split; assumption).
    destruct (String.eqb n2 n); [|split; assumption].
    assert (J2 : ginv u b fs (fold_left (fun g' src => add_e g' src (KVal n2 t2 s2) w_matching_name)
                                        (g_in_keys g1 (KVal n2 t2 s2)) g1) /\
                 same_shape g1 (fold_left (fun g' src => add_e g' src (KVal n2 t2 s2) w_matching_name)
                                          (g_in_keys g1 (KVal n2 t2 s2)) g1)).
    { apply fold_left_inv_in with (P := fun g' => ginv u b fs g' /\ same_shape g1 g');
        [|split; [exact G1|apply same_shape_refl]].
      intros g2 src Is [G2 S2].
      apply (in_keys_fe (KVal n2 t2 s2) src (gi_wf G1)) in Is.
      apply (proj2 S2) in Is. destruct Is as [w0 E0].
      destruct (@add_e_existing u b fs g2 src (KVal n2 t2 s2) w_matching_name w0 G2 E0 wb_match) as [G3 S3].
      split; [exact G3|]. eapply same_shape_trans; [exact S2|exact S3]. }
    destruct J2 as [G2 S2]. split; [exact G2|]. eapply same_shape_trans; [exact S1|exact S2]. }
  destruct J as [G' [Hh He]].
  split; [exact G'|]. split.
  - intros a x. rewrite (in_keys_fe a x (gi_wf G')), (in_keys_fe a x (gi_wf G)). apply He.
  - unfold g_vertex_keys. rewrite Hh. reflexivity.
Qed.

Print Assumptions call_graph_spec.
Print Assumptions call_graph_err.
Print Assumptions discount_spec.

(* C08SucceedsGraph.v -- the call graph of Redefine on the domain of C08
   when every parameter of the target passes the input filter:
   weights in [1,20], no edge between two named-value vertices, the
   out-edges of the target are its parameters, every permitted value /
   argument vertex has an edge of weight 1 to the root (step_redefine),
   nothing the target needs is pruned. *)
From ArgMapper Require Import Base Graph GraphAlg GraphSpec Types Args Resolver ResolverSpec GenWeights
     CheckResolver Monitors Monitors2 ResolverStatements ResolverStatements2 ResolverStatements4.
From ArgMapper.proofs Require Import C18DijkstraLemmas C19RefineMap C19RefineGraph
     C0213UnsatGraph C0213UnsatClosure C0213UnsatBuild C0213UnsatPrune C08RedefineGraph.
From ArgMapper.proofs Require C06TotalBase C06TotalSpec C06TotalGraph.
From Coq Require Import List Lia ZArith.
Import ListNotations.
Set Implicit Arguments.
Local Open Scope Z_scope.

Definition isv (k : vkey) : bool := match k with KVal _ _ _ => true | _ => false end.

Definition permitted (u : universe) (fin : option flt) (k : vkey) : Prop :=
  match k with KVal n t s => fin_ok u fin n t s = true | KArg t s => fin_ok u fin EmptyString t s = true | _ => False end.

(* what the proof of success needs from a call graph *)
Record SG (u : universe) (fin : option flt) (f : fdecl) (g : rgraph) : Prop := {
  sg_wf : wf_graph g;
  sg_root : vtx g KRoot <> None;
  sg_wt : forall a b w, ew g a b = Some w -> 1 <= w <= 20;
  sg_novv : forall a b, ew g a b <> None -> isv a = true -> isv b = false;
  sg_tout : forall k, ew g (KFunc (fn_type f)) k <> None -> k = KRoot \/ In k (map field_key (fn_in f));
  sg_redef : forall k, vtx g k <> None -> permitted u fin k -> ew g k KRoot = Some w_normal }.

(* ---------- full_graph in Redefine mode = full_graph + step_redefine ---------- *)
Lemma full_graph_rd u f b t fg tr :
  full_graph u f b true t = Ok (inl fg, tr) ->
  exists fg0, full_graph u f b false t = Ok (inl fg0, tr) /\
    fg_g fg = step_redefine u (b_fin b) (fg_g fg0) /\ fg_freq fg = fg_freq fg0 /\
    fg_convs fg = fg_convs fg0 /\ fg_target fg = fg_target fg0.
Proof.
  unfold full_graph.
  match goal with |- bind ?m _ = _ -> _ => destruct m as [[ks t']| | |] end; cbn [bind]; try discriminate.
  match goal with |- context [run_gens ?a ?b ?c ?d ?e0] => destruct (run_gens a b c d e0) as [[[g4 convs] trg] gerr] end.
  destruct gerr as [z|]; intros Q; inversion Q; subst.
  eexists. split; [reflexivity|]. cbn [fg_g fg_freq fg_convs fg_target]. repeat split.
Qed.

(* ---------- step_redefine ---------- *)
Lemma step_redefine_steps known af u fin g : gsteps known af g (step_redefine u fin g).
Proof.
  unfold step_redefine. apply gsteps_fold. intros g0 k _.
  destruct k as [|ft|n t s|t s|t s]; cbv beta iota zeta; try apply gss_refl.
  - destruct (match fin with Some f => flt_okv u f n t s | None => true end); [|apply gss_refl].
    apply gsteps_one. apply gs_e; [reflexivity|apply wt_normal].
  - destruct (match fin with Some f => flt_okv u f EmptyString t s | None => true end); [|apply gss_refl].
    apply gsteps_one. apply gs_e; [reflexivity|apply wt_normal].
Qed.

Lemma step_redefine_edges u fin (g : rgraph) :
  wf_graph g -> vtx g KRoot <> None ->
  forall k, vtx g k <> None -> permitted u fin k -> ew (step_redefine u fin g) k KRoot = Some w_normal.
Proof.
  intros W R k Vk Pk. unfold step_redefine.
  assert (Ik : In k (g_vertex_keys g)) by (apply in_vertex_keys; exact Vk).
  revert Vk Pk.
  apply (fold_left_establish
           (fun a : rgraph => wf_graph a /\ forall x, vtx a x = vtx g x)
           (fun (y : vkey) (a : rgraph) => vtx g y <> None -> permitted u fin y -> ew a y KRoot = Some w_normal)).
  - split; [exact W|reflexivity].
  - intros a x [Wa Va].
    destruct x as [|ft|n t s|t s|t s]; cbv beta iota zeta; try (split; assumption).
    + destruct (match fin with Some f => flt_okv u f n t s | None => true end); [|split; assumption].
      destruct (add_e_spec (KVal n t s) KRoot w_normal Wa) as (W' & Hv & _).
      split; [exact W'|]. intros y. rewrite Hv. apply Va.
    + destruct (match fin with Some f => flt_okv u f EmptyString t s | None => true end); [|split; assumption].
      destruct (add_e_spec (KArg t s) KRoot w_normal Wa) as (W' & Hv & _).
      split; [exact W'|]. intros y. rewrite Hv. apply Va.
  - intros a x [Wa Va] Vx Px.
    assert (Pa : present a x = true) by (apply present_true; rewrite Va; exact Vx).
    assert (Pr : present a KRoot = true) by (apply present_true; rewrite Va; exact R).
    destruct x as [|ft|n t s|t s|t s]; try contradiction; cbv beta iota zeta;
      unfold permitted, fin_ok in Px; rewrite Px.
    + destruct (add_e_spec (KVal n t s) KRoot w_normal Wa) as (_ & _ & He).
      rewrite He, Pa, Pr, !Base.eqb_refl. reflexivity.
    + destruct (add_e_spec (KArg t s) KRoot w_normal Wa) as (_ & _ & He).
      rewrite He, Pa, Pr, !Base.eqb_refl. reflexivity.
  - intros a x y [Wa Va] Qy Vy Py. specialize (Qy Vy Py).
    destruct x as [|ft|n t s|t s|t s]; cbv beta iota zeta; try exact Qy.
    + destruct (match fin with Some f => flt_okv u f n t s | None => true end); [|exact Qy].
      destruct (add_e_spec (KVal n t s) KRoot w_normal Wa) as (_ & _ & He).
      rewrite He. destruct (present a (KVal n t s) && present a KRoot && Base.eqb y (KVal n t s) && Base.eqb KRoot KRoot);
        [reflexivity|exact Qy].
    + destruct (match fin with Some f => flt_okv u f EmptyString t s | None => true end); [|exact Qy].
      destruct (add_e_spec (KArg t s) KRoot w_normal Wa) as (_ & _ & He).
      rewrite He. destruct (present a (KArg t s) && present a KRoot && Base.eqb y (KArg t s) && Base.eqb KRoot KRoot);
        [reflexivity|exact Qy].
  - exact Ik.
Qed.

Lemma step_redefine_vtx u fin (g : rgraph) :
  wf_graph g -> wf_graph (step_redefine u fin g) /\ forall x, vtx (step_redefine u fin g) x = vtx g x.
Proof.
  intros W. unfold step_redefine.
  apply (C0213UnsatGraph.fold_left_inv (fun a : rgraph => wf_graph a /\ forall x, vtx a x = vtx g x)).
  - split; [exact W|reflexivity].
  - intros a y [Wa Va] _.
    destruct y as [|ft|n ty s|ty s|ty s]; cbv beta iota zeta; try (split; assumption).
    + destruct (match fin with Some f0 => flt_okv u f0 n ty s | None => true end); [|split; assumption].
      destruct (add_e_spec (KVal n ty s) KRoot w_normal Wa) as (W' & Hv & _).
      split; [exact W'|]. intros x. rewrite Hv. apply Va.
    + destruct (match fin with Some f0 => flt_okv u f0 EmptyString ty s | None => true end); [|split; assumption].
      destruct (add_e_spec (KArg ty s) KRoot w_normal Wa) as (W' & Hv & _).
      split; [exact W'|]. intros x. rewrite Hv. apply Va.
Qed.

(* ---------- signatures ---------- *)
Lemma sig_field_keys (l1 l2 : list field) : sig_of l1 = sig_of l2 -> map field_key l1 = map field_key l2.
Proof.
  revert l2. induction l1 as [|x l1 IH]; intros [|y l2] Q; simpl in Q; try discriminate; [reflexivity|].
  inversion Q as [[Q1 Q2 Q3 Q4]]. cbn [map]. rewrite (IH _ Q4). f_equal.
  unfold field_key. rewrite Q1, Q2, Q3. reflexivity.
Qed.

Lemma wf_funcs_same_sig (fs : list fdecl) c f :
  wf_funcs fs = true -> In c fs -> In f fs -> fn_type c = fn_type f -> sig_of (fn_in c) = sig_of (fn_in f).
Proof.
  unfold wf_funcs. intros Wf Ic If Ty.
  apply andb_true_iff in Wf. destruct Wf as [Wf _].
  apply andb_true_iff in Wf. destruct Wf as [_ Wf].
  rewrite forallb_forall in Wf. specialize (Wf c Ic).
  rewrite forallb_forall in Wf. specialize (Wf f If).
  rewrite Ty, Z.eqb_refl in Wf. unfold same_sig in Wf.
  apply andb_true_iff in Wf. destruct Wf as [Wf _].
  apply andb_true_iff in Wf. destruct Wf as [Wf _].
  exact (proj1 (Base.eqb_eq _ _) Wf).
Qed.

Lemma filter_none {A} (p : A -> bool) (l : list A) : (forall x, In x l -> p x = false) -> filter p l = [].
Proof.
  induction l as [|x l IH]; intros Hl; cbn [filter]; [reflexivity|].
  rewrite (Hl x (or_introl eq_refl)). apply IH. intros y Iy. apply Hl. right. exact Iy.
Qed.

(* ---------- pruning keeps the facts ---------- *)
Lemma pruned_SG u fin f (G : rgraph) tk : SG u fin f G -> SG u fin f (pruned G tk).
Proof.
  intros [W R Wt Nv To Rd]. destruct (pruned_spec tk W) as (Wg & Hv & He).
  pose proof (keep_root tk W R) as Kr. apply membT in Kr.
  constructor.
  - exact Wg.
  - rewrite Hv, Kr. exact R.
  - intros a b w. rewrite He. destruct (memb a (keepset G tk) && memb b (keepset G tk)); [apply Wt|discriminate].
  - intros a b. rewrite He. destruct (memb a (keepset G tk) && memb b (keepset G tk)); [apply Nv|].
    intros N; contradiction N; reflexivity.
  - intros k. rewrite He. destruct (memb (KFunc (fn_type f)) (keepset G tk) && memb k (keepset G tk)); [apply To|].
    intros N; contradiction N; reflexivity.
  - intros k. rewrite Hv, He. destruct (memb k (keepset G tk)) eqn:Kk.
    + rewrite Kr. cbn [andb]. apply Rd.
    + intros N; contradiction N; reflexivity.
Qed.

(* ---------- the full graph ---------- *)
Section Full.
  Variables (u : universe) (f : fdecl) (d opts : list arg) (b : builder) (t : tape vkey)
            (fg : fgraph) (tr : list event).
  Hypothesis HB : build_args d opts = Some b.
  Hypothesis WF : wf_call u f b = true.
  Hypothesis Dom : c08_domain u f b = true.
  Hypothesis PP : params_permitted u f b = true.
  Hypothesis FG : full_graph u f b true t = Ok (inl fg, tr).

  Lemma wf_known : wf_funcs (known_funcs f b) = true.
  Proof.
    unfold wf_call in WF.
    apply andb_true_iff in WF. destruct WF as [A _].
    apply andb_true_iff in A. destruct A as [A _].
    apply andb_true_iff in A. destruct A as [A _]. exact A.
  Qed.

  Lemma params_perm k : In k (map field_key (fn_in f)) -> permitted u (b_fin b) k.
  Proof.
    intros Ik. apply in_map_iff in Ik. destruct Ik as (fld & <- & Ifld).
    unfold params_permitted in PP. rewrite forallb_forall in PP. specialize (PP fld Ifld).
    unfold field_key. destruct (String.eqb_spec (f_name fld) "") as [E|E]; [rewrite E in PP|]; exact PP.
  Qed.

  Lemma full_target : fg_target fg = KFunc (fn_type f).
  Proof. destruct (full_graph_RI _ _ _ _ _ Dom FG) as (_ & Tg & _). exact Tg. Qed.

  Lemma full_SG : SG u (b_fin b) f (fg_g fg).
  Proof.
    destruct (full_graph_RI _ _ _ _ _ Dom FG) as (RIG & _).
    destruct (full_graph_rd _ _ _ _ FG) as (fg0 & FG0 & Eg0 & Efreq & Econvs & Etg).
    destruct (full_graph_spec _ _ _ _ FG0) as (GI & Fn & Tg & Ac & Bc & Fq & Vl & Ar & Tr & Og).
    destruct (gsteps_inv GI (step_redefine_steps (f :: fg_convs fg0) false u (b_fin b) (fg_g fg0))) as [GI' _].
    rewrite <- Eg0 in GI'.
    pose proof (C06TotalGraph.full_graph_spec u f true (C06TotalGraph.bt_build_args d opts HB) t) as F6.
    rewrite FG in F6. cbn [C06TotalBase.resP fst] in F6. destruct F6 as (FOK & _).
    constructor.
    - apply (ri_wf RIG).
    - apply (ri_root RIG).
    - intros a c w Q. apply (C06TotalSpec.f_edge FOK a c Q).
    - intros a c Ne Va.
      pose proof (proj2 (ew_closed _ _ (ri_wf RIG) Ne)) as Vc.
      destruct (ew (fg_g fg) a c) as [w|] eqn:Q; [|contradiction Ne; reflexivity].
      pose proof (C06TotalSpec.f_edge FOK a c Q) as [_ Ek].
      destruct a as [|ft|n ty s|ty s|ty s]; try discriminate Va.
      destruct c as [|ft'|n' ty' s'|ty' s'|ty' s']; try reflexivity.
      exfalso. destruct Ek as (_ & _ & _ & Ns & _). apply Ns.
      apply (ri_se RIG (KVal n' ty' s')). exact Vc.
    - intros k Ek. destruct (gi_fout GI' _ _ Ek) as [->|(c & Ic & Ty & Ik)]; [left; reflexivity|right].
      assert (Kc : In c (known_funcs f b)).
      { destruct Ic as [<-|Ic]; [left; reflexivity|]. right. apply Bc. exact Ic. }
      assert (Kf : In f (known_funcs f b)) by (left; reflexivity).
      rewrite <- (sig_field_keys _ _ (@wf_funcs_same_sig _ _ _ wf_known Kc Kf Ty)). exact Ik.
    - intros k Vk Pk. rewrite Eg0. rewrite Eg0 in Vk.
      assert (W0 : wf_graph (fg_g fg0)) by (apply (gi_wf GI)).
      destruct (step_redefine_vtx u (b_fin b) W0) as [_ Vs].
      apply step_redefine_edges; [exact W0|apply (gi_root GI)|rewrite <- Vs; exact Vk|exact Pk].
  Qed.

  Lemma pruned_full_SG : SG u (b_fin b) f (pruned (fg_g fg) (fg_target fg)).
  Proof. apply pruned_SG. exact full_SG. Qed.

  (* nothing the target needs is pruned *)
  Lemma full_unsat : unsat_of fg = [].
  Proof.
    pose proof full_SG as S. destruct S as [W R Wt Nv To Rd].
    destruct (full_graph_rd _ _ _ _ FG) as (fg0 & FG0 & Eg0 & Efreq & Econvs & Etg).
    destruct (full_graph_spec _ _ _ _ FG0) as (GI & Fn & Tg & Ac & Bc & Fq & Vl & Ar & Tr & Og).
    destruct (gsteps_inv GI (step_redefine_steps (f :: fg_convs fg0) false u (b_fin b) (fg_g fg0))) as [_ Le].
    rewrite <- Eg0 in Le.
    unfold unsat_of. apply filter_none. intros k Ik. apply negb_false_iff.
    rewrite (mem_pruned (fg_target fg) k W).
    rewrite Efreq in Ik. destruct (Fq k Ik) as [Ek Hk].
    apply (proj2 Le) in Ek.
    destruct (ew_closed _ _ W Ek) as [_ Vk].
    assert (Pk : present (fg_g fg) k = true) by (apply present_true; exact Vk).
    rewrite Pk, andb_true_r. apply membT.
    destruct Hk as [->|Hk]; [apply (keep_root _ W R)|].
    apply (keep_closed W R k (keep_root _ W R)).
    - rewrite full_target. discriminate.
    - rewrite (Rd k Vk (params_perm k Hk)). discriminate.
  Qed.
End Full.

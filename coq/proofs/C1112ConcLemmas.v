(* C1112ConcLemmas.v -- the interleaving model of the run-once protocol
   (Conc.v): invariant of the locked protocol, progress schedule. *)
From ArgMapper Require Import Base Conc.
Set Implicit Arguments.
Local Open Scope Z_scope.
Local Open Scope list_scope.

(* ---------- set_pc ---------- *)
Definition upd (p : pc) : list pc -> nat -> list pc :=
  fix upd (l : list pc) (n : nat) : list pc :=
  match l, n with
  | [], _ => []
  | _ :: l, O => p :: l
  | x :: l, S n => x :: upd l n
  end.

Lemma upd_nil p n : upd p [] n = []. Proof. destruct n; reflexivity. Qed.
Lemma upd_O p x l : upd p (x :: l) O = p :: l. Proof. reflexivity. Qed.
Lemma upd_S p x l n : upd p (x :: l) (S n) = x :: upd p l n. Proof. reflexivity. Qed.

Lemma set_pc_eq s i p :
  set_pc s i p = mkC (c_lock s) (c_cache s) (upd p (c_pcs s) i) (c_runs s) (c_next s).
Proof. reflexivity. Qed.

Lemma upd_length p l : forall n, length (upd p l n) = length l.
Proof.
  induction l as [|x l IH]; intros n; [reflexivity|].
  destruct n as [|n]; cbn [upd length]; [reflexivity|]. rewrite IH. reflexivity.
Qed.

Lemma upd_same p l : forall n, (n < length l)%nat -> nth_error (upd p l n) n = Some p.
Proof.
  induction l as [|x l IH]; intros n L; cbn [length] in L; [lia|].
  destruct n as [|n]; cbn [upd nth_error]; [reflexivity|]. apply IH. lia.
Qed.

Lemma upd_other p l : forall n j, j <> n -> nth_error (upd p l n) j = nth_error l j.
Proof.
  induction l as [|x l IH]; intros n j NE; [reflexivity|].
  destruct n as [|n]; destruct j as [|j]; cbn [upd nth_error]; try reflexivity.
  - congruence.
  - apply IH. congruence.
Qed.

(* what an entry of the updated list can be *)
Lemma upd_nth p l n j q :
  nth_error (upd p l n) j = Some q -> (j = n /\ q = p) \/ (j <> n /\ nth_error l j = Some q).
Proof.
  intros E. destruct (Nat.eq_dec j n) as [EQ|NE].
  - left. split; [exact EQ|]. subst j.
    assert (L : (n < length l)%nat).
    { rewrite <- (upd_length p l n). apply nth_error_Some. congruence. }
    rewrite (upd_same p l L) in E. congruence.
  - right. split; [exact NE|]. rewrite upd_other in E by exact NE. exact E.
Qed.

(* ---------- invariant of the locked protocol ---------- *)
Definition cinv (s : cstate) : Prop :=
  ((c_cache s = None /\ c_runs s = 0 /\ c_next s = 1) \/ (c_cache s = Some 1 /\ c_runs s = 1)) /\
  (forall i, nth_error (c_pcs s) i = Some PRan -> c_cache s <> None) /\
  (forall i v, nth_error (c_pcs s) i = Some (PDone v) -> c_cache s = Some v).

Lemma cinv_init k : cinv (cinit k).
Proof.
  unfold cinit, cinv. cbn [c_cache c_runs c_next c_pcs].
  split; [left; auto|]. split.
  - intros i E. apply nth_error_In, repeat_spec in E. discriminate.
  - intros i v E. apply nth_error_In, repeat_spec in E. discriminate.
Qed.

Lemma cinv_step s i s' : cinv s -> cstep s i = Some s' -> cinv s'.
Proof.
  intros [HC [HR HD]] E. unfold cstep in E.
  destruct (nth_error (c_pcs s) i) as [[| | |got]|] eqn:PI; try discriminate.
  - (* PStart *)
    destruct (c_lock s) as [h|]; [discriminate|].
    inversion E; subst s'; clear E. rewrite set_pc_eq.
    unfold cinv. cbn [c_cache c_runs c_next c_pcs c_lock].
    split; [exact HC|]. split.
    + intros j Ej. apply upd_nth in Ej. destruct Ej as [[_ Q]|[_ Q]]; [discriminate|eauto].
    + intros j v Ej. apply upd_nth in Ej. destruct Ej as [[_ Q]|[_ Q]]; [discriminate|eauto].
  - (* PLocked *)
    destruct (c_cache s) as [c|] eqn:CC.
    + inversion E; subst s'; clear E. rewrite set_pc_eq.
      unfold cinv. cbn [c_cache c_runs c_next c_pcs c_lock]. rewrite ?CC.
      split; [exact HC|]. split.
      * intros j _. discriminate.
      * intros j v Ej. apply upd_nth in Ej. destruct Ej as [[_ Q]|[_ Q]]; [discriminate|eauto].
    + inversion E; subst s'; clear E. rewrite set_pc_eq.
      unfold cinv. cbn [c_cache c_runs c_next c_pcs c_lock].
      destruct HC as [[_ [R0 N1]]|[X _]]; [|discriminate].
      rewrite R0, N1.
      split; [right; split; reflexivity|]. split.
      * intros j _. discriminate.
      * intros j v Ej. apply upd_nth in Ej. destruct Ej as [[_ Q]|[_ Q]]; [discriminate|].
        apply HD in Q. discriminate.
  - (* PRan *)
    destruct (c_cache s) as [c|] eqn:CC; [|discriminate].
    inversion E; subst s'; clear E. rewrite set_pc_eq.
    unfold cinv. cbn [c_cache c_runs c_next c_pcs c_lock]. rewrite ?CC.
    split; [exact HC|]. split.
    + intros j _. discriminate.
    + intros j v Ej. apply upd_nth in Ej. destruct Ej as [[_ Q]|[_ Q]].
      * inversion Q; reflexivity.
      * eauto.
Qed.

Lemma cinv_run sched : forall s, cinv s -> cinv (crun s sched).
Proof.
  induction sched as [|i rest IH]; intros s HI; cbn [crun]; [exact HI|].
  destruct (cstep s i) as [s'|] eqn:ST.
  - apply IH. eapply cinv_step; eauto.
  - apply IH. exact HI.
Qed.

Lemma cinv_final s :
  cinv s ->
  c_runs s <= 1 /\
  (forall i v, nth_error (c_pcs s) i = Some (PDone v) -> c_runs s = 1 /\ c_cache s = Some v /\ v = 1).
Proof.
  intros [HC [HR HD]]. split.
  - destruct HC as [[_ [R _]]|[_ R]]; lia.
  - intros i v E. apply HD in E.
    destruct HC as [[C _]|[C R]]; [congruence|].
    split; [exact R|]. split; [exact E|]. congruence.
Qed.

(* ---------- progress ---------- *)
Lemma crun_app a : forall s b, crun s (a ++ b) = crun (crun s a) b.
Proof.
  induction a as [|i a IH]; intros s b; [reflexivity|].
  cbn [crun app]. destruct (cstep s i); apply IH.
Qed.

Section Progress.
  Variable k : nat.

  (* the first j threads are done, the others have not started, the lock is free *)
  Definition good (j : nat) (s : cstate) : Prop :=
    c_lock s = None /\ length (c_pcs s) = k /\
    (forall i, (i < j)%nat -> exists v, nth_error (c_pcs s) i = Some (PDone v)) /\
    (forall i, (j <= i)%nat -> (i < k)%nat -> nth_error (c_pcs s) i = Some PStart).

  Lemma good_init : good 0 (cinit k).
  Proof.
    unfold good, cinit. cbn [c_lock c_pcs]. split; [reflexivity|].
    split; [apply repeat_length|]. split.
    - intros i L. lia.
    - intros i _ L. clear -L. revert i L. induction k as [|n IH]; intros i L; [lia|].
      destruct i as [|i]; cbn [repeat nth_error]; [reflexivity|]. apply IH. lia.
  Qed.

  Lemma good_turn j s : (j < k)%nat -> good j s -> good (S j) (crun s [j; j; j]).
  Proof.
    intros JK [HL [HN [HD HS]]].
    assert (PJ : nth_error (c_pcs s) j = Some PStart) by (apply HS; lia).
    (* first step: take the lock *)
    cbn [crun]. unfold cstep at 1. rewrite PJ, HL. rewrite set_pc_eq.
    cbn [c_lock c_cache c_pcs c_runs c_next].
    set (l1 := upd PLocked (c_pcs s) j).
    assert (L1 : length l1 = k) by (unfold l1; rewrite upd_length; exact HN).
    assert (P1 : nth_error l1 j = Some PLocked) by (unfold l1; apply upd_same; lia).
    (* second step: run or read *)
    unfold cstep at 1. cbn [c_lock c_cache c_pcs c_runs c_next]. rewrite P1.
    assert (STEP3 : forall c r n,
      good (S j) (match cstep (set_pc (mkC (Some j) (Some c) l1 r n) j PRan) j with
                  | Some s' => s'
                  | None => set_pc (mkC (Some j) (Some c) l1 r n) j PRan
                  end)).
    { intros c r n. rewrite set_pc_eq. cbn [c_lock c_cache c_pcs c_runs c_next].
      set (l2 := upd PRan l1 j).
      assert (L2 : length l2 = k) by (unfold l2; rewrite upd_length; exact L1).
      assert (P2 : nth_error l2 j = Some PRan) by (unfold l2; apply upd_same; lia).
      unfold cstep. cbn [c_lock c_cache c_pcs c_runs c_next]. rewrite P2.
      rewrite set_pc_eq. cbn [c_lock c_cache c_pcs c_runs c_next].
      unfold good. cbn [c_lock c_pcs].
      split; [reflexivity|]. split; [rewrite upd_length; exact L2|]. split.
      - intros i LI. destruct (Nat.eq_dec i j) as [EQ|NE].
        + subst i. exists c. apply upd_same. lia.
        + rewrite upd_other by exact NE. unfold l2. rewrite upd_other by exact NE.
          unfold l1. rewrite upd_other by exact NE. apply HD. lia.
      - intros i LI LK.
        rewrite upd_other by lia. unfold l2. rewrite upd_other by lia.
        unfold l1. rewrite upd_other by lia. apply HS; lia. }
    destruct (c_cache s) as [c|].
    - specialize (STEP3 c (c_runs s) (c_next s)).
      destruct (cstep (set_pc (mkC (Some j) (Some c) l1 (c_runs s) (c_next s)) j PRan) j); exact STEP3.
    - specialize (STEP3 (c_next s) (c_runs s + 1) (c_next s + 1)).
      destruct (cstep (set_pc (mkC (Some j) (Some (c_next s)) l1 (c_runs s + 1) (c_next s + 1)) j PRan) j);
        exact STEP3.
  Qed.

  Definition turns (j n : nat) : list nat := flat_map (fun i => [i; i; i]) (seq j n).

  Lemma good_turns n : forall j s, (j + n <= k)%nat -> good j s -> good (j + n) (crun s (turns j n)).
  Proof.
    induction n as [|n IH]; intros j s L G.
    - rewrite Nat.add_0_r. exact G.
    - unfold turns. cbn [seq flat_map]. fold (turns (S j) n).
      change ([j; j; j] ++ turns (S j) n) with ([j; j; j] ++ turns (S j) n).
      rewrite crun_app.
      replace (j + S n)%nat with (S j + n)%nat by lia.
      apply IH; [lia|]. apply good_turn; [lia|exact G].
  Qed.
End Progress.

(* C0213UnsatC02.v -- assembly of C02 from the graph-construction facts, the
   pruning facts, the plan facts and the run-time invariant. *)
From ArgMapper Require Import Base Graph GraphAlg GraphSpec Types Args Resolver ResolverSpec
     CheckResolver Monitors ResolverStatements.
From ArgMapper.proofs Require Import C18DijkstraLemmas C19RefineMap C19RefineGraph
     C0213UnsatGraph C0213UnsatClosure C0213UnsatBuild C0213UnsatPrune C0213UnsatPlan C0213UnsatReach.
From Coq Require Import List Lia ZArith.
Import ListNotations.
Set Implicit Arguments.
Local Open Scope Z_scope.

Lemma forallb_false_ex {A} (p : A -> bool) (l : list A) :
  forallb p l = false -> exists x, In x l /\ p x = false.
Proof.
  induction l as [|y l IH]; simpl; [discriminate|].
  destruct (p y) eqn:Py; simpl.
  - intros Q. destruct (IH Q) as (x & I & Px). exists x. auto.
  - intros _. exists y. auto.
Qed.

Lemma existsb_false_all {A} (p : A -> bool) (l : list A) :
  (forall x, In x l -> p x = false) -> existsb p l = false.
Proof.
  induction l as [|y l IH]; simpl; intros H; [reflexivity|].
  rewrite (H y (or_introl eq_refl)). simpl. apply IH. intros x I. apply H. right. exact I.
Qed.

(* every kept vertex is reachable inside the pruned graph *)
Lemma keep_rreach (G : rgraph) (tk : vkey) :
  wf_graph G -> vtx G KRoot <> None ->
  forall k, In k (keepset G tk) -> rreach (pruned G tk) k.
Proof.
  intros W R.
  destruct (pruned_spec tk W) as (_ & _ & He).
  assert (P : forall k, In k (keepset G tk) -> In k (keepset G tk) /\ rreach (pruned G tk) k).
  { apply (keep_ind W (fun k => In k (keepset G tk) /\ rreach (pruned G tk) k)).
    - split; [apply (keep_root _ W R)|constructor].
    - intros a x [Ka Ra] Ns Ex.
      assert (Kx : In x (keepset G tk)) by (apply (keep_closed W R x Ka Ns Ex)).
      split; [exact Kx|]. apply rr_step with (a := a); [exact Ra|].
      rewrite He. apply membT in Ka. apply membT in Kx. rewrite Ka, Kx. simpl. exact Ex. }
  intros k Ik. apply (P k Ik).
Qed.

(* when every converter is satisfiable, everything OR-reachable is derivable *)
Lemma sat_kept (G : rgraph) (f : fdecl) (convs : list fdecl) (cached : list Z) :
  GInv (f :: convs) G ->
  (forall c, In c convs -> In (KFunc (fn_type c)) (DS G cached)) ->
  forall k, In k (keepset G (KFunc (fn_type f))) -> k = KFunc (fn_type f) \/ In k (DS G cached).
Proof.
  intros GI Sat. pose proof (gi_wf GI) as W. pose proof (gi_root GI) as R.
  apply (keep_ind W (fun k => k = KFunc (fn_type f) \/ In k (DS G cached))).
  - right. apply (ds_root cached W R).
  - intros a x [->|Da] Ns Ex; [contradiction Ns; reflexivity|].
    destruct (is_func x) eqn:Fx.
    + destruct x as [|ft|n t s|t s|t s]; try discriminate Fx.
      destruct (vtx G (KFunc ft)) as [p|] eqn:V.
      * destruct (gi_pay GI _ V) as (c & _ & [<-|Ic] & Ty); [left; rewrite Ty; reflexivity|].
        right. rewrite <- Ty. apply Sat. exact Ic.
      * exfalso. destruct (ew_closed _ _ W Ex) as [N _]. apply N. exact V.
    + right. apply (ds_value cached W R x a Fx Ex Da).
Qed.

Definition C02_partial_statement : Prop :=
  forall u bh f d opts b w t r fg tr,
    build_args d opts = Some b -> wf_call u f b = true ->
    full_graph u f b false t = Ok (inl fg, tr) ->
    20 * Z.of_nat (length (g_vertex_keys (fg_g fg))) < INF ->
    call u bh f d opts w t = Ok r ->
    c02_ok fg (cached_of w) f (co_of_run r) = true.

(* the part of C02 that is decided at graph construction: no size bound *)
Definition C02_partial_construction_statement : Prop :=
  forall u bh f d opts b w t r fg tr,
    build_args d opts = Some b -> wf_call u f b = true ->
    full_graph u f b false t = Ok (inl fg, tr) ->
    call u bh f d opts w t = Ok r ->
    target_derivable fg (cached_of w) = false ->
    (convs_satisfiable fg (cached_of w) = true \/ (exists e, prune fg = inr e)) ->
    (exists e, prune fg = inr e) /\ c02_ok fg (cached_of w) f (co_of_run r) = true.

Section Assembly.
  Variables (u : universe) (bh : behaviour) (f : fdecl) (d opts : list arg) (b : builder)
            (w : world) (t : tape vkey) (r : run) (fg : fgraph) (tr : list event).
  Hypothesis HB : build_args d opts = Some b.
  Hypothesis WF : wf_call u f b = true.
  Hypothesis HF : full_graph u f b false t = Ok (inl fg, tr).
  Hypothesis HC : call u bh f d opts w t = Ok r.

  Notation G := (fg_g fg).
  Notation tk := (KFunc (fn_type f)).
  Notation cached := (cached_of w).
  Notation g := (pruned (fg_g fg) (KFunc (fn_type f))).

  Lemma pruned_case_unsat :
    unsat_of fg <> [] -> c02_ok fg cached f (co_of_run r) = true.
  Proof.
    intros NU.
    rewrite (@call_unfold u bh f d opts b w t fg tr HB HF) in HC.
    destruct (full_graph_spec _ _ _ _ HF) as (GI & Fn & Tg & Ac & Bc & Fq & Vl & Ar & Tr & Og).
    rewrite prune_unfold in HC.
    destruct (unsat_of fg) as [|x xs] eqn:U; [contradiction NU; reflexivity|].
    inversion HC; subst r; clear HC.
    unfold c02_ok. destruct (target_derivable fg cached); [reflexivity|].
    unfold co_of_run. cbn [run_out co_ok co_panic co_events co_unsat run_trace].
    rewrite existsb_false_all.
    - simpl. destruct (convs_satisfiable fg cached); reflexivity.
    - intros e Ie. destruct (Og e Ie) as (gid & k & ->). reflexivity.
  Qed.

  Lemma sat_unsat :
    target_derivable fg cached = false -> convs_satisfiable fg cached = true -> unsat_of fg <> [].
  Proof.
    intros TD CS U.
    destruct (full_graph_spec _ _ _ _ HF) as (GI & Fn & Tg & Ac & Bc & Fq & Vl & Ar & Tr & Og).
    pose proof (gi_wf GI) as W. pose proof (gi_root GI) as R.
    unfold target_derivable in TD. apply forallb_false_ex in TD. destruct TD as (k0 & Ik0 & Nk0).
    apply membF in Nk0.
    assert (K0u : ~ In k0 (unsat_of fg)) by (rewrite U; intros []).
    unfold unsat_of in K0u. rewrite filter_In in K0u. rewrite Tg in K0u.
    rewrite (mem_pruned tk k0 W) in K0u.
    destruct (memb k0 (keepset G tk)) eqn:Kk; [|apply K0u; split; [exact Ik0|reflexivity]].
    apply membT in Kk.
    destruct (@sat_kept G f (fg_convs fg) cached GI) with (k := k0) as [E|D].
    - unfold convs_satisfiable in CS. rewrite forallb_forall in CS.
      intros c Ic. apply membT. apply (CS c Ic).
    - exact Kk.
    - destruct (Fq k0 Ik0) as [_ [->|Ib]]; [discriminate|].
      apply in_map_iff in Ib. destruct Ib as (fld & Eq & _).
      pose proof (field_key_nf fld) as N. rewrite Eq, E in N. discriminate.
    - contradiction.
  Qed.

  Hypothesis Small : 20 * Z.of_nat (length (g_vertex_keys (fg_g fg))) < INF.

  Lemma bounded_case : c02_ok fg cached f (co_of_run r) = true.
  Proof.
    destruct (unsat_of fg) as [|x xs] eqn:U.
    2:{ apply pruned_case_unsat. rewrite U. discriminate. }
    unfold c02_ok. destruct (target_derivable fg cached) eqn:TD; [reflexivity|].
    destruct (convs_satisfiable fg cached) eqn:CS.
    { exfalso. apply (sat_unsat TD CS). exact U. }
    rewrite (@call_unfold u bh f d opts b w t fg tr HB HF) in HC.
    destruct (full_graph_spec _ _ _ _ HF) as (GI & Fn & Tg & Ac & Bc & Fq & Vl & Ar & Tr & Og).
    pose proof (gi_wf GI) as W. pose proof (gi_root GI) as R.
    rewrite prune_unfold, U in HC. cbn [cg_g cg_target] in HC.
    rewrite Tg in HC.
    destruct (pruned_spec tk W) as (Wg & Hv & He).
    (* the underivable requirement *)
    pose proof TD as TD'. unfold target_derivable in TD'. apply forallb_false_ex in TD'.
    destruct TD' as (k0 & Ik0 & Nk0). apply membF in Nk0.
    destruct (Fq k0 Ik0) as [Ek0 Hk0].
    assert (K0 : In k0 (map field_key (fn_in f))).
    { destruct Hk0 as [->|Hk0]; [|exact Hk0]. exfalso. apply Nk0. apply (ds_root cached W R). }
    assert (K0nf : is_func k0 = false).
    { apply in_map_iff in K0. destruct K0 as (fld & <- & _). apply field_key_nf. }
    assert (K0k : In k0 (keepset G tk)).
    { assert (K0u : ~ In k0 (unsat_of fg)) by (rewrite U; intros []).
      unfold unsat_of in K0u. rewrite filter_In in K0u. rewrite Tg in K0u.
      rewrite (mem_pruned tk k0 W) in K0u.
      destruct (memb k0 (keepset G tk)) eqn:Kk; [apply membT; exact Kk|].
      exfalso. apply K0u. split; [exact Ik0|reflexivity]. }
    assert (Tkk : In tk (keepset G tk)).
    { apply (keep_closed W R tk K0k); [|exact Ek0]. intros ->. discriminate. }
    (* instantiation of the run-time invariant *)
    set (known := known_funcs f b).
    assert (IncK : incl (f :: fg_convs fg) known).
    { intros c [<-|Ic]; [left; reflexivity|right; apply Bc; exact Ic]. }
    pose proof (GInv_mono IncK GI) as GK.
    assert (WFk : wf_funcs known = true).
    { unfold wf_call in WF. apply andb_true_iff in WF. destruct WF as [WF1 _].
      apply andb_true_iff in WF1. destruct WF1 as [WF1 _].
      apply andb_true_iff in WF1. destruct WF1 as [WF1 _]. exact WF1. }
    assert (SubV : forall k p, vtx g k = Some p -> vtx G k = Some p).
    { intros k p. rewrite Hv. destruct (memb k (keepset G tk)); [auto|discriminate]. }
    assert (SubE : forall a c, ew g a c <> None -> ew G a c <> None).
    { intros a c. rewrite He. destruct (memb a (keepset G tk) && memb c (keepset G tk)); [auto|].
      intros N; contradiction N; reflexivity. }
    assert (Rg : vtx g KRoot <> None).
    { rewrite Hv. pose proof (keep_root tk W R) as Kr. apply membT in Kr. rewrite Kr. exact R. }
    assert (Wtg : forall a c w0, ew g a c = Some w0 -> 0 <= w0 <= 20).
    { intros a c w0. rewrite He. destruct (memb a (keepset G tk) && memb c (keepset G tk)); [|discriminate].
      apply (gi_wt GI). }
    assert (Smg : 20 * Z.of_nat (length (g_vertex_keys g)) < INF).
    { assert (Le : (length (g_vertex_keys g) <= length (g_vertex_keys G))%nat).
      { apply NoDup_incl_length; [apply (wf_hash_nodup Wg)|].
        intros k Ik. apply in_vertex_keys in Ik. apply in_vertex_keys.
        destruct (vtx g k) as [p|] eqn:V; [|contradiction Ik; reflexivity].
        rewrite (SubV _ _ V). discriminate. }
      lia. }
    assert (PlanOK : forall cur s path bad s',
               vtx g cur <> None -> plan g false cur s = Ok (path, bad, s') ->
               (exists rest, path = KRoot :: rest) /\ last path KRoot = cur /\ linkedR g path /\
               s_vals s' = s_vals s /\ s_world s' = s_world s /\ s_trace s' = s_trace s).
    { intros cur s path bad s' Vc PL. apply (plan_ok Wg Wtg Rg Smg) with (bad := bad); [|exact PL].
      apply (keep_rreach tk W R). rewrite Hv in Vc.
      destruct (memb cur (keepset G tk)) eqn:Kc; [apply membT; exact Kc|contradiction Vc; reflexivity]. }
    pose proof (@reach_inv u bh G g cached known f k0 W R Wg SubV SubE (gi_pay GK) (gi_fout GK) WFk
                           (or_introl eq_refl) K0 Nk0 PlanOK) as RI.
    (* the initial state *)
    set (cg := mkCG g (fg_vals fg) tk (fg_inputs fg) (fg_convs fg) (fg_trace fg) (fg_tape fg)) in *.
    assert (I0 : Inv G g cached f (init_state cg w)).
    { constructor; unfold init_state, cg; simpl.
      - intros k M. destruct (Vl k M) as [Ek Nf].
        apply (ds_value cached W R k KRoot Nf Ek). apply (ds_root cached W R).
      - intros ft c V On M. apply (ds_func_cached cached W R ft (SubV _ _ V) On).
        unfold cached, cached_of. apply mem_true. exact M.
      - intros e Ie. rewrite Tr in Ie. destruct (Og e Ie) as (gid & k & ->). reflexivity. }
    destruct (reach u bh g false (fuel_of cg) tk (init_state cg w)) as [[s r0]| | |] eqn:RE;
      cbn [bind] in HC; try discriminate.
    destruct (RI _ _ _ _ _ RE I0) as [I1 P1].
    destruct r0 as [am|e].
    - exfalso. destruct P1 as [_ P1]. apply Nk0. apply P1. apply in_out_keys.
      rewrite He. apply membT in Tkk. apply membT in K0k. rewrite Tkk, K0k. simpl. exact Ek0.
    - inversion HC; subst r; clear HC.
      assert (NoEx : existsb (is_exec_of (fn_id f)) (s_trace s) = false).
      { apply existsb_false_all. apply (inv_trace I1). }
      destruct e; unfold co_of_run; cbn [run_out co_ok co_panic co_events co_unsat run_trace];
        rewrite NoEx; reflexivity.
  Qed.
End Assembly.

Theorem C02_bounded_main : C02_partial_statement.
Proof.
  intros u bh f d opts b w t r fg tr HB WF HF Small HC.
  apply (@bounded_case u bh f d opts b w t r fg tr HB WF HF HC Small).
Qed.

Theorem C02_construction_main : C02_partial_construction_statement.
Proof.
  intros u bh f d opts b w t r fg tr HB WF HF HC TD [CS|(e & Pe)].
  - pose proof (@sat_unsat u f b w t fg tr HF TD CS) as NU. split.
    + rewrite prune_unfold. destruct (unsat_of fg); [contradiction NU; reflexivity|eauto].
    + apply (@pruned_case_unsat u bh f d opts b w t r fg tr HB HF HC NU).
  - split; [eauto|].
    apply (@pruned_case_unsat u bh f d opts b w t r fg tr HB HF HC).
    intros U. rewrite prune_unfold, U in Pe. discriminate.
Qed.

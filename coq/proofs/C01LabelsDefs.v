(* C01LabelsDefs.v -- shared vocabulary of the C01 proof: the edge rules of
   the call graph, the graph invariant, root reachability, the acyclicity
   of the strict "implements" relation. Definitions only. *)
From ArgMapper Require Import Base Graph GraphAlg GraphSpec Types Args Resolver ResolverSpec.
From Coq Require Import List ZArith Lia Relations.
Import ListNotations.
Set Implicit Arguments.
Local Open Scope Z_scope.

(* ---------- strict implementation chains ---------- *)
Definition strict_impl (u : universe) (a b : ty) : Prop := a <> b /\ implements u a b = true.
Definition impl_acyclic (u : universe) : Prop := forall a, ~ clos_trans ty (strict_impl u) a a.

(* ---------- edge rules ---------- *)
(* k is an output vertex of f: what outputValues looks up for it *)
Definition out_key_of (f : fdecl) (k : vkey) : Prop :=
  match k with
  | KVal n t s => exists i fld, last_named n (fn_out f) 0 None = Some (i, fld) /\
                                f_name fld = n /\ f_ty fld = t /\ f_sub fld = s
  | KOut t s => exists i fld, last_typed t (fn_out f) 0 None = Some (i, fld) /\
                              f_name fld = EmptyString /\ f_ty fld = t /\ f_sub fld = s
  | _ => False
  end.

(* erule x y: an edge x -> y ("x depends on y") of the call graph of a Call *)
Definition erule (u : universe) (b : builder) (fs : list fdecl) (x y : vkey) : Prop :=
  match y with
  | KRoot => match x with
             | KFunc _ => True
             | KVal _ _ _ | KOut _ _ => In x (map fst (input_vertices b))
             | _ => False end
  | KFunc ft => exists f, In f fs /\ fn_type f = ft /\ out_key_of f x
  | KVal n t s => match x with
                  | KFunc _ => True
                  | KArg t' s' => t' = t /\ (s' = EmptyString \/ s' = s)
                  | KVal n' t' s' => n' = n /\ t' = t /\ s' = EmptyString
                  | _ => False end
  | KOut t s => match x with
                | KVal _ t' _ => t' = t /\ s = EmptyString
                | KArg t' s' => t' = t /\ (s' = s \/ s = EmptyString \/ s' = EmptyString)
                | KOut t' s' => t <> t' /\ implements u t t' = true
                | _ => False end
  | KArg _ _ => match x with KFunc _ => True | _ => False end
  end.

Record ginv (u : universe) (b : builder) (fs : list fdecl) (g : rgraph) : Prop := {
  gi_wf : wf_graph g;
  gi_edge : forall x y w, lookup y (inner (gout g) x) = Some w -> erule u b fs x y /\ -20 <= w <= 20;
  gi_pay : forall ft f, g_vertex g (KFunc ft) = Some (PFunc f) -> In f fs /\ fn_type f = ft }.

(* reachable from the root against the edge direction (what the planner searches) *)
Inductive rchb (g : rgraph) : vkey -> Prop :=
| rchb_root : rchb g KRoot
| rchb_step a x : rchb g a -> In x (g_in_keys g a) -> rchb g x.

Definition is_gen (e : event) : Prop := match e with EGen _ _ => True | _ => False end.

(* C05CompletePlan.v -- what [plan] returns on a pruned call graph: a
   duplicate-free chain KRoot :: ... :: cur over edges of the graph. *)
From ArgMapper Require Import Base Graph GraphAlg GraphSpec Types Args Resolver ResolverSpec.
From ArgMapper.proofs Require Import C18DijkstraLemmas C18Dijkstra C19RefineMap C19RefineGraph
     C05CompleteDefs C05CompleteDijkstraRun C05CompleteDijkstraPath C05CompleteDijkstra.
From Coq Require Import Lia ZArith List.
Import ListNotations.
Set Implicit Arguments.
Local Open Scope Z_scope.

(* ---------- the reversed view ---------- *)
Section Rev.
  Context {K : Type} {E : EqDec K} {V : Type}.
  Notation graph := (graph K V).

  Lemma wf_reverse (g : graph) : wf_graph g -> wf_graph (g_reverse g).
  Proof.
    intros W. constructor; cbn [g_reverse gout gin ghash].
    - apply (wf_in_nodup W).
    - apply (wf_out_nodup W).
    - apply (wf_hash_nodup W).
    - apply (wf_in_keys W).
    - apply (wf_out_keys W).
    - apply (wf_inner_in_nodup W).
    - apply (wf_inner_out_nodup W).
    - intros a b w. symmetry. apply (wf_mirror W).
    - intros a b w Q. apply (wf_mirror W) in Q. destruct (wf_closed W _ _ Q) as [A B]. split; assumption.
  Qed.

  Lemma edge_reverse (g : graph) a b w : wf_graph g -> (edge (g_reverse g) a b w <-> edge g b a w).
  Proof. intros W. unfold edge. cbn [g_reverse gout]. symmetry. apply (wf_mirror W). Qed.

  Lemma vertex_reverse (g : graph) k : vertex (g_reverse g) k <-> vertex g k.
  Proof. reflexivity. Qed.

  Lemma reach_reverse (g : graph) a b : wf_graph g -> GraphSpec.reach g a b -> GraphSpec.reach (g_reverse g) b a.
  Proof.
    intros W (p & w & Wk). induction Wk as [a Va|a b c p w1 w2 Eab Wk IH].
    - exists [a], 0. constructor. exact Va.
    - destruct IH as (p' & w' & Wk').
      apply (edge_reverse b a w1 W) in Eab.
      exists (p' ++ [a]), (w' + w1). eapply walk_snoc; [exact Wk'|exact Eab|].
      apply (edge_reverse b a w1 W) in Eab. destruct (wf_closed W _ _ Eab) as [Va _]. exact Va.
  Qed.

  (* ---------- chains ---------- *)
  Lemma ppath_head (p : amap K K) src v l : ppath p src v l -> exists rest, l = src :: rest.
  Proof.
    induction 1 as [Q|v u l Q P IH].
    - exists []. reflexivity.
    - destruct IH as [rest ->]. exists (rest ++ [v]). reflexivity.
  Qed.

  Lemma ppath_last (p : amap K K) src v l d : ppath p src v l -> last l d = v.
  Proof.
    induction 1 as [Q|v u l Q P IH]; [reflexivity|]. apply last_last.
  Qed.

  Lemma ppath_last_app (p : amap K K) src v l : ppath p src v l -> exists l', l = l' ++ [v].
  Proof. induction 1 as [Q|v u l Q P IH]; [exists []; reflexivity|exists l; reflexivity]. Qed.

  Lemma app_snoc_inv {A} (l1 l2 : list A) (x y : A) : l1 ++ [x] = l2 ++ [y] -> l1 = l2 /\ x = y.
  Proof. intros Q. apply app_inj_tail in Q. exact Q. Qed.

  Lemma ppath_consec (p : amap K K) src v l : ppath p src v l ->
    forall l1 a b l2, l = l1 ++ a :: b :: l2 -> lookup b p = Some a.
  Proof.
    induction 1 as [Q|v u l Q P IH]; intros l1 a b l2 Ep.
    - destruct l1 as [|x [|y l1]]; discriminate.
    - destruct (ppath_last_app P) as [l' El]. subst l.
      destruct l2 as [|z l2] using rev_ind.
      + (* b is the last element *)
        replace (l1 ++ [a; b]) with ((l1 ++ [a]) ++ [b]) in Ep by (rewrite <- app_assoc; reflexivity).
        apply app_snoc_inv in Ep. destruct Ep as [E1 <-].
        apply app_snoc_inv in E1. destruct E1 as [_ <-]. exact Q.
      + clear IHl2.
        replace (l1 ++ a :: b :: l2 ++ [z]) with ((l1 ++ a :: b :: l2) ++ [z]) in Ep
          by (rewrite <- app_assoc; reflexivity).
        apply app_snoc_inv in Ep. destruct Ep as [E1 _].
        eapply IH. exact E1.
  Qed.
End Rev.

(* ---------- paths planned on a call graph ---------- *)
Definition is_kval (k : vkey) : bool := match k with KVal _ _ _ => true | _ => false end.

Record path_ok (g : rgraph) (cur : vkey) (path : list vkey) : Prop := {
  po_head : exists rest, path = KRoot :: rest;
  po_last : last path KRoot = cur;
  po_nodup : NoDup path;
  po_edges : forall l1 a b l2, path = l1 ++ a :: b :: l2 -> exists w, edge g b a w;
  (* without a discount the chain is locally shortest *)
  po_short : is_kval cur = false ->
             forall l1 a b c l2, path = l1 ++ a :: b :: c :: l2 ->
             forall w1 w2 w3, edge g b a w1 -> edge g c b w2 -> edge g c a w3 -> w1 + w2 <= w3
}.

Definition input_of (path : list vkey) (cur : vkey) : vkey :=
  match path with
  | KRoot :: x :: _ => x
  | x :: _ => x
  | [] => cur
  end.

Lemma before_trans {K} {E : EqDec K} (l : list K) a b c : NoDup l -> before l a b -> before l b c -> before l a c.
Proof.
  intros ND B1 B2. destruct (before_rank ND B1) as (_ & _ & R1). destruct (before_rank ND B2) as (_ & Ic & R2).
  apply rank_before; [exact Ic|lia].
Qed.

Lemma edge_fun (g : rgraph) a b w w' : edge g a b w -> edge g a b w' -> w = w'.
Proof. unfold edge. intros Q Q'. congruence. Qed.

Section Plan.
  Variable g : rgraph.
  Hypothesis WF : wf_graph g.
  Hypothesis ROOT : vertex g KRoot.
  Hypothesis WB : forall a b w, edge g a b w -> 1 <= w <= 20.
  Hypothesis SMALL : 20 * (Z.of_nat (length (g_vertex_keys g)) + 1) < INF.
  Hypothesis RR : forall k, vertex g k -> GraphSpec.reach g k KRoot.

  Lemma plan_ok cur s : vertex g cur ->
    (exists site, plan g false cur s = TapeErr site) \/
    (exists path t', plan g false cur s =
        Ok (path, existsb (fun v => memb v (s_inprog s)) path, add_input (set_tape s t') (input_of path cur)) /\
        path_ok g cur path).
  Proof.
    intros Vc.
    assert (WB20 : forall a b w, edge g a b w -> -20 <= w <= 20) by (intros a b w Q; apply WB in Q; lia).
    destruct (discount_proof cur WF WB20) as (Wc & Vsame & Ksame & Esame & Wbc & Same).
    set (cg := discount g cur) in *.
    assert (Wr : wf_graph (g_reverse cg)) by (apply wf_reverse; exact Wc).
    assert (Vr : forall k, vertex (g_reverse cg) k <-> vertex g k).
    { intros k. rewrite vertex_reverse. unfold vertex. change (keys (ghash cg)) with (g_vertex_keys cg).
      rewrite Ksame. reflexivity. }
    assert (Er : forall a b, (exists w, edge (g_reverse cg) a b w) <-> (exists w, edge g b a w)).
    { intros a b. rewrite <- Esame. split; intros [w Q]; exists w; apply (edge_reverse a b w Wc); exact Q. }
    assert (WBr : wbound (g_reverse cg) 20).
    { intros a b w Q. apply (edge_reverse a b w Wc) in Q. apply Wbc in Q. exact Q. }
    assert (Sr : 20 * (Z.of_nat (length (g_vertex_keys (g_reverse cg))) + 1) < INF).
    { change (g_vertex_keys (g_reverse cg)) with (g_vertex_keys cg). rewrite Ksame. exact SMALL. }
    assert (Rootr : vertex (g_reverse cg) KRoot) by (apply Vr; exact ROOT).
    (* reachability transfers: g and cg have the same edge pairs *)
    assert (Rr : forall k, vertex g k -> GraphSpec.reach (g_reverse cg) KRoot k).
    { intros k Vk. destruct (RR _ Vk) as (p & w & Wk).
      assert (Rc : GraphSpec.reach cg k KRoot).
      { clear - Wk Esame Ksame. induction Wk as [a Va|a b c p w1 w2 Eab Wk IH].
        - exists [a], 0. constructor. unfold vertex. change (keys (ghash cg)) with (g_vertex_keys cg).
          rewrite Ksame. exact Va.
        - destruct IH as (p' & w' & Wk'). destruct (proj2 (Esame a b) (ex_intro _ w1 Eab)) as [w1' Eab'].
          exists (a :: p'), (w1' + w'). econstructor; eauto. }
      apply reach_reverse; assumption. }
    unfold plan. fold cg.
    destruct (@dijkstra_small_alt_proof vkey _ vpay (g_reverse cg) KRoot (s_tape s) Wr Rootr WBr Sr) as [[site Q]|(d & p & t' & ord & Q & Fc & PR)].
    - left. exists site. rewrite Q. reflexivity.
    - right. rewrite Q. cbn [bind].
      assert (Vrc : vertex (g_reverse cg) cur) by (apply Vr; exact Vc).
      destruct (@dijkstra_path_alt_proof vkey _ vpay (g_reverse cg) KRoot d p ord cur Wr Fc PR Vrc (Rr _ Vc)) as (path & Qp & PP & ND).
      change (edge_to_path cg p cur) with (edge_to_path (g_reverse cg) p cur). rewrite Qp. cbn [bind].
      exists path, t'. split; [reflexivity|].
      destruct Fc as (NDo & Allo & Psrc & D1 & D2 & D3 & D4).
      constructor.
      + eapply ppath_head; eauto.
      + eapply ppath_last; eauto.
      + exact ND.
      + intros l1 a b l2 Ep. pose proof (ppath_consec PP _ _ _ _ Ep) as Lb.
        destruct (D1 _ _ Lb) as (_ & w & Ew & _). apply Er. exists w. exact Ew.
      + intros NK l1 a b c l2 Ep w1 w2 w3 E1 E2 E3.
        assert (Eg : cg = g).
        { destruct cur; try exact Same. discriminate NK. }
        assert (Lb : lookup b p = Some a) by (eapply (ppath_consec PP); exact Ep).
        assert (Lc : lookup c p = Some b).
        { eapply (ppath_consec PP) with (l1 := l1 ++ [a]). rewrite <- app_assoc. exact Ep. }
        destruct (D1 _ _ Lb) as (Bab & wb & Eb & Db & Fa).
        destruct (D1 _ _ Lc) as (Bbc & wc & Ec & Dc & Fb).
        rewrite Eg in Eb, Ec. apply (edge_reverse a b wb WF) in Eb. apply (edge_reverse b c wc WF) in Ec.
        assert (wb = w1) by (eapply edge_fun; eauto). assert (wc = w2) by (eapply edge_fun; eauto). subst wb wc.
        assert (Bac : before ord a c) by (eapply before_trans; eauto).
        assert (E3r : edge (g_reverse cg) a c w3) by (rewrite Eg; apply (edge_reverse a c w3 WF); exact E3).
        pose proof (D2 _ _ _ E3r Bac Fa) as Le. lia.
  Qed.
End Plan.

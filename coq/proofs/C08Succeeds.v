(* C08Succeeds.v -- C08, third clause: on the domain of C08, from a fresh
   world and for every order tape, Redefine succeeds (returns the list of
   inputs of the redefined function) whenever no output is rejected by the
   output filter and the type of every parameter of the target passes the
   input filter; the only error left is a failing converter generator.

   Why: step_redefine gives every value / argument vertex whose type passes
   the filter an edge of weight 1 to the root.  The requirements of the
   target are its parameters, so (i) none of them is pruned (no XUnsat from
   call_graph), (ii) Dijkstra on the reversed, name-discounted graph keeps
   the root as the predecessor of each of them (C08SucceedsDijkstra), so the
   planned path of each requirement is root -> requirement: no function
   vertex is walked, no recursion, no self-dependency, no XMissing / XConv,
   and the requirement itself is recorded as an input; (iii) two recorded
   inputs with the same upper-cased name are the same vertex, because names
   are lower case, each name denotes one type and there are no subtypes
   (no XDupInput).  The transitivity hypothesis of the statement is not
   needed; the size bound keeps Dijkstra's 64-bit arithmetic from wrapping. *)
From ArgMapper Require Import Base Graph GraphAlg GraphSpec Types Args Resolver ResolverSpec GenWeights
     CheckResolver Monitors Monitors2 ResolverStatements ResolverStatements2 ResolverStatements4.
From ArgMapper.proofs Require Import C18DijkstraLemmas C19RefineMap C19RefineGraph
     C0213UnsatGraph C0213UnsatClosure C0213UnsatBuild C0213UnsatPrune
     C04ErrorsLemmas C08RedefineGraph C08RedefineReach C08Redefine C141517VSLemmas
     C08SucceedsGraph C08SucceedsPlan C08SucceedsReach.
From Coq Require Import List Lia ZArith String.
Import ListNotations.
Set Implicit Arguments.
Local Open Scope Z_scope.

Lemma NoDup_nodupb (l : list string) : NoDup l -> nodupb l = true.
Proof.
  induction 1 as [|x l NI ND IH]; [reflexivity|].
  cbn [nodupb]. rewrite IH, andb_true_r. apply negb_true_iff. apply membF. exact NI.
Qed.

Definition name_of (k : vkey) : list string := match k with KVal n _ _ => [upper n] | _ => [] end.

Lemma names_nodup (P : vkey -> Prop) :
  (forall n1 t1 s1 n2 t2 s2, P (KVal n1 t1 s1) -> P (KVal n2 t2 s2) -> upper n1 = upper n2 ->
                             KVal n1 t1 s1 = KVal n2 t2 s2) ->
  forall l, NoDup l -> (forall k, In k l -> P k) -> NoDup (flat_map name_of l).
Proof.
  intros Inj. induction 1 as [|x l NI ND IH]; intros Hl; cbn [flat_map]; [constructor|].
  assert (IHl : NoDup (flat_map name_of l)) by (apply IH; intros k Ik; apply Hl; right; exact Ik).
  destruct x as [|ft|n t s|t s|t s]; cbn [name_of app]; try exact IHl.
  constructor; [|exact IHl].
  intros I. apply in_flat_map in I. destruct I as (k & Ik & In1).
  destruct k as [|ft'|n' t' s'|t' s'|t' s']; cbn [name_of] in In1; try (destruct In1; fail).
  destruct In1 as [Q|[]].
  apply NI. rewrite (Inj n t s n' t' s'); [exact Ik| | |symmetry; exact Q].
  - apply Hl. left; reflexivity.
  - apply Hl. right; exact Ik.
Qed.

Section Names.
  Variables (u : universe) (f : fdecl) (b : builder).
  Hypothesis WF : wf_call u f b = true.
  Hypothesis Dom : c08_domain u f b = true.

  Lemma target_lower fld : In fld (fn_in f) -> lower (f_name fld) = f_name fld.
  Proof.
    intros Ifld. pose proof (wf_known u f b WF) as Wk. unfold wf_funcs in Wk.
    apply andb_true_iff in Wk. destruct Wk as [Wk _].
    apply andb_true_iff in Wk. destruct Wk as [Wk _].
    rewrite forallb_forall in Wk. specialize (Wk f (or_introl eq_refl)).
    unfold wf_fn in Wk. apply andb_true_iff in Wk. destruct Wk as [_ Wk].
    rewrite forallb_forall in Wk. specialize (Wk fld (in_or_app _ _ _ (or_introl Ifld))).
    symmetry. exact (proj1 (Base.eqb_eq _ _) Wk).
  Qed.

  Lemma target_one_type fld1 fld2 :
    In fld1 (fn_in f) -> In fld2 (fn_in f) ->
    String.eqb (f_name fld1) "" = false -> String.eqb (f_name fld2) "" = false ->
    f_name fld1 = f_name fld2 -> f_ty fld1 = f_ty fld2.
  Proof.
    intros I1 I2 N1 N2 En. unfold c08_domain in Dom. cbv zeta in Dom.
    apply andb_true_iff in Dom. destruct Dom as [_ D4].
    rewrite forallb_forall in D4.
    assert (Inn : forall fld, In fld (fn_in f) -> String.eqb (f_name fld) "" = false ->
              In (f_name fld, f_ty fld)
                 (flat_map (fun g => flat_map (fun fld => if is_empty (f_name fld) then [] else [(f_name fld, f_ty fld)])
                                              (fn_in g ++ fn_out g)) (known_funcs f b) ++
                  flat_map (fun kv => match fst kv with KVal n t _ => [(n, t)] | _ => [] end) (input_vertices b))).
    { intros fld Ifld Nn. apply in_or_app. left. apply in_flat_map. exists f. split; [left; reflexivity|].
      apply in_flat_map. exists fld. split; [apply in_or_app; left; exact Ifld|].
      unfold is_empty. change (Base.eqb (f_name fld) EmptyString) with (String.eqb (f_name fld) "").
      rewrite Nn. left. reflexivity. }
    specialize (D4 _ (Inn fld1 I1 N1)). rewrite forallb_forall in D4.
    specialize (D4 _ (Inn fld2 I2 N2)). cbn [fst snd] in D4.
    rewrite En, Base.eqb_refl in D4. apply Z.eqb_eq. exact D4.
  Qed.

  Lemma target_sub fld : In fld (fn_in f) -> f_sub fld = EmptyString.
  Proof.
    intros Ifld. apply (@domain_fields u f b Dom f (or_introl eq_refl)). apply in_or_app. left. exact Ifld.
  Qed.

  Lemma param_names_inj n1 t1 s1 n2 t2 s2 :
    In (KVal n1 t1 s1) (map field_key (fn_in f)) -> In (KVal n2 t2 s2) (map field_key (fn_in f)) ->
    upper n1 = upper n2 -> KVal n1 t1 s1 = KVal n2 t2 s2.
  Proof.
    intros I1 I2 Eu.
    apply in_map_iff in I1. destruct I1 as (fld1 & K1 & I1).
    apply in_map_iff in I2. destruct I2 as (fld2 & K2 & I2).
    unfold field_key in K1, K2.
    destruct (String.eqb (f_name fld1) "") eqn:N1; [discriminate|].
    destruct (String.eqb (f_name fld2) "") eqn:N2; [discriminate|].
    inversion K1; subst n1 t1 s1. inversion K2; subst n2 t2 s2.
    assert (En : f_name fld1 = f_name fld2).
    { rewrite <- (target_lower fld1 I1), <- (target_lower fld2 I2).
      rewrite <- (lower_upper (f_name fld1)), <- (lower_upper (f_name fld2)), Eu. reflexivity. }
    rewrite En, (target_one_type fld1 fld2 I1 I2 N1 N2 En), (target_sub fld1 I1), (target_sub fld2 I2).
    reflexivity.
  Qed.
End Names.

Theorem C08_succeeds_proof : C08_succeeds_statement.
Proof.
  intros u f d opts b bo t x r HB HBo WF Dom OP PP Small _ H.
  unfold redefine in H. rewrite HBo in H.
  assert (Chk : match b_fout bo with
                | Some flt => negb (forallb (fun fld => flt_okv u flt (f_name fld) (f_ty fld) (f_sub fld)) (fn_out f))
                | None => false end = false).
  { unfold outputs_permitted in OP. destruct (b_fout bo) as [flt|]; [|reflexivity]. rewrite OP. reflexivity. }
  rewrite Chk in H. rewrite HB in H. unfold call_graph in H.
  destruct (full_graph u f b true t) as [[[fg|e] tr]| | |] eqn:FG; cbn [bind] in H; try discriminate.
  2:{ inversion H; subst x r; clear H. destruct (full_graph_err _ _ _ _ _ FG) as (z & ->).
      right. eauto. }
  rewrite prune_unfold in H.
  rewrite (full_unsat u f d opts t HB WF Dom PP FG) in H.
  cbn [cg_g cg_target cg_inputs fuel_of] in H.
  pose proof (pruned_full_SG u f d opts t HB WF Dom FG) as SGp.
  rewrite (full_target u f b t Dom FG) in H, SGp.
  set (g := pruned (fg_g fg) (KFunc (fn_type f))) in *.
  assert (Smg : 20 * Z.of_nat (List.length (g_vertex_keys g)) < INF).
  { pose proof (pruned_size (KFunc (fn_type f)) (sg_wf (full_SG u f d opts t HB WF Dom FG))) as Le. fold g in Le.
    pose proof (Small fg tr eq_refl) as Sm. lia. }
  unfold fuel_of in H. cbn [cg_g] in H. rewrite reach_S in H.
  match type of H with
  | bind (reach_body ?uu ?bh ?gg ?rd ?rec ?tgt ?s0) _ = _ =>
      assert (Of : only_funcs (s_inprog s0)) by (intros v []);
      destruct (reach_body uu bh gg rd rec tgt s0) as [[s r0]| | |] eqn:RE; cbn [bind] in H; try discriminate
  end.
  destruct (@reach_body_direct u (fun _ _ => BOk) (b_fin b) f g SGp Smg _
              (fun k Ik => params_perm u f b PP k Ik) _ _ _ Of RE)
    as ((am & ->) & Hin & Hnd).
  cbv zeta in H.
  match type of H with (if negb (nodupb ?names) then _ else _) = _ =>
    assert (Nn : nodupb names = true) end.
  { apply NoDup_nodupb.
    change (NoDup (flat_map name_of
      (filter (fun k => negb (memb k (cg_inputs (mkCG g (fg_vals fg) (KFunc (fn_type f)) (fg_inputs fg) (fg_convs fg) (fg_trace fg) (fg_tape fg)) ++
                 flat_map (fun k0 => match k0 with KOut t0 st => [KArg t0 st] | _ => [] end)
                          (cg_inputs (mkCG g (fg_vals fg) (KFunc (fn_type f)) (fg_inputs fg) (fg_convs fg) (fg_trace fg) (fg_tape fg))))))
              (s_inputs s)))).
    apply (names_nodup (fun k => In k (map field_key (fn_in f)))).
    - intros n1 t1 s1 n2 t2 s2. apply (@param_names_inj u f b WF Dom).
    - apply nodup_filter. apply Hnd. constructor.
    - intros k Ik. apply filter_In in Ik. destruct Ik as [Ik _].
      destruct (Hin k Ik) as [[]|I1]. exact I1. }
  rewrite Nn in H. cbn [negb] in H. inversion H; subst x r; clear H.
  left. eauto.
Qed.

Print Assumptions C08_succeeds_proof.

(* C20bKahnSort.v -- correctness of the KahnSort model (C20b). *)
From ArgMapper Require Import Base Graph GraphAlg GraphSpec GraphStatements.
From ArgMapper.proofs Require Import C20bKahnLemmas.
From Coq Require Import Permutation Lia ZArith List.
Set Implicit Arguments.

Section Kahn.
  Context {K : Type} `{EqDec K} {V : Type}.
  Notation graph := (graph K V).
  Implicit Types g : graph.

  Variable g0 : graph.
  Hypothesis Hwf0 : wf_graph g0.

  (* ---------------- outer loop invariant ---------------- *)
  Record kinv (g : graph) (S L : list K) : Prop := {
    ki_wf : wf_graph g;
    ki_hash : ghash g = ghash g0;
    ki_edge : forall a b w, edge g a b w <-> edge g0 a b w /\ ~ In a L;
    ki_S_nodup : NoDup S;
    ki_S : forall v, In v S <-> vertex g0 v /\ ~ In v L /\ indeg0 g v = true;
    ki_L_nodup : NoDup L;
    ki_L_vertex : forall v, In v L -> vertex g0 v;
    ki_order : forall a b w, edge g0 a b w -> In b L -> index_lt L a b
  }.

  Lemma nodup_snoc (l : list K) x : NoDup l -> ~ In x l -> NoDup (l ++ [x]).
  Proof.
    intros Hnd Hnin. eapply Permutation_NoDup; [apply Permutation_cons_append|].
    constructor; assumption.
  Qed.

  Lemma nodup_snoc_inv (l : list K) x : NoDup (l ++ [x]) -> NoDup l /\ ~ In x l.
  Proof.
    intros Hnd.
    assert (Hnd' : NoDup (x :: l)).
    { eapply Permutation_NoDup; [apply Permutation_sym; apply Permutation_cons_append|exact Hnd]. }
    inversion Hnd'; subst. auto.
  Qed.

  Lemma indeg0_remove_edge_other g n m v :
    v <> m -> indeg0 (g_remove_edge g n m) v = indeg0 g v.
  Proof.
    intros Hne. unfold indeg0, g_remove_edge. simpl. rewrite inner_adj_del.
    rewrite (eqb_sym_false Hne). reflexivity.
  Qed.

  (* ---------------- inner loop (kahn_edges) ---------------- *)
  Section Inner.
    Variable n : K.
    Variable L : list K.
    Hypothesis Hn_notin : ~ In n L.
    Hypothesis Hn_pred : forall a w, edge g0 a n w -> In a L.
    Hypothesis HclosedL : forall a b w, edge g0 a b w -> In b L -> In a L.

    Record einv (g : graph) (ms S : list K) : Prop := {
      ei_wf : wf_graph g;
      ei_hash : ghash g = ghash g0;
      ei_edge : forall a b w,
          edge g a b w <-> edge g0 a b w /\ ~ In a L /\ (a = n -> In b ms);
      ei_ms_nodup : NoDup ms;
      ei_ms_edge : forall m, In m ms -> exists w, edge g0 n m w;
      ei_S_nodup : NoDup S;
      ei_S : forall v, In v S <-> vertex g0 v /\ ~ In v L /\ v <> n /\ indeg0 g v = true
    }.

    Lemma kahn_edges_inv ms : forall g S,
      einv g ms S -> einv (fst (kahn_edges g n ms S)) [] (snd (kahn_edges g n ms S)).
    Proof.
      induction ms as [|m ms IH]; intros g S Hinv; simpl.
      - exact Hinv.
      - apply IH. clear IH.
        destruct Hinv as [Hwf Hhash Hedge Hmsnd Hmsedge HSnd HS].
        inversion Hmsnd as [|? ? Hm_notin Hmsnd']; subst.
        destruct (Hmsedge m (or_introl eq_refl)) as (wm & Hem0).
        assert (Hem : edge g n m wm).
        { apply Hedge. split; [exact Hem0|]. split; [exact Hn_notin|].
          intros _. left. reflexivity. }
        assert (Hm_ne_n : m <> n).
        { intros E. subst m. apply Hn_pred in Hem0. contradiction. }
        assert (Hm_notin_L : ~ In m L).
        { intros Hin. apply Hn_notin. eapply HclosedL; eassumption. }
        assert (Hm_vertex : vertex g0 m).
        { apply (wf_closed Hwf0) in Hem0. apply Hem0. }
        assert (Hm_notin_S : ~ In m S).
        { intros Hin. apply HS in Hin. destruct Hin as (_ & _ & _ & Hi).
          eapply indeg0_true; eassumption. }
        set (g1 := g_remove_edge g n m).
        assert (Hwf1 : wf_graph g1) by (apply wf_remove_edge; exact Hwf).
        constructor.
        + exact Hwf1.
        + exact Hhash.
        + intros a b w. unfold g1. rewrite edge_remove_edge, Hedge. split.
          * intros ((He0 & Hna & Himp) & Hnot). split; [exact He0|]. split; [exact Hna|].
            intros Ea. destruct (Himp Ea) as [Eb|Hin]; [|exact Hin].
            exfalso. apply Hnot. auto.
          * intros (He0 & Hna & Himp). split.
            -- split; [exact He0|]. split; [exact Hna|]. intros Ea. right. auto.
            -- intros [Ea Eb]. subst b. apply Hm_notin. auto.
        + exact Hmsnd'.
        + intros m' Hin. apply Hmsedge. right. exact Hin.
        + destruct (indeg0 g1 m); [|exact HSnd].
          apply nodup_snoc; assumption.
        + intros v. destruct (eqb_spec v m) as [Ev|Hne].
          * subst v. destruct (indeg0 g1 m) eqn:Hi.
            -- split.
               ++ intros _. auto.
               ++ intros _. apply in_or_app. right. left. reflexivity.
            -- split.
               ++ intros Hin. contradiction.
               ++ intros (_ & _ & _ & Hc). discriminate.
          * assert (Hiff : In v (if indeg0 g1 m then S ++ [m] else S) <-> In v S).
            { destruct (indeg0 g1 m); [|tauto]. rewrite in_app_iff. simpl.
              split; [intros [Hin|[E|[]]]; [exact Hin|congruence]|auto]. }
            rewrite Hiff, HS. unfold g1. rewrite (indeg0_remove_edge_other g n Hne).
            tauto.
    Qed.
  End Inner.

  Lemma rev_eq_cons (S : list K) n rS : rev S = n :: rS -> S = rev rS ++ [n].
  Proof. intros E. rewrite <- (rev_involutive S), E. reflexivity. Qed.

  Lemma kinv_pop g S L n rS :
    kinv g S L -> rev S = n :: rS ->
    ~ In n L /\ (forall a w, edge g0 a n w -> In a L) /\
    (forall a b w, edge g0 a b w -> In b L -> In a L) /\ vertex g0 n.
  Proof.
    intros Hk Hrev. apply rev_eq_cons in Hrev.
    destruct Hk as [Hwf Hhash Hedge HSnd HS HLnd HLv Hord].
    assert (HnS : In n S).
    { rewrite Hrev. apply in_or_app. right. left. reflexivity. }
    apply HS in HnS. destruct HnS as (Hnv & HnL & Hni).
    split; [exact HnL|]. split; [|split; [|exact Hnv]].
    - intros a w He. destruct (In_dec_K a L) as [Hin|Hnin]; [exact Hin|].
      exfalso. eapply (indeg0_true Hwf Hni). apply Hedge. split; eassumption.
    - intros a b w He Hb. eapply index_lt_in_l. eapply Hord; eassumption.
  Qed.

  Lemma kinv_to_einv g S L n rS ms :
    kinv g S L -> rev S = n :: rS -> Permutation ms (g_out_keys g n) ->
    einv n L g ms (rev rS).
  Proof.
    intros Hk Hrev Hperm.
    destruct (kinv_pop Hk Hrev) as (HnL & Hnpred & Hcl & Hnv).
    apply rev_eq_cons in Hrev.
    destruct Hk as [Hwf Hhash Hedge HSnd HS HLnd HLv Hord].
    rewrite Hrev in HSnd. apply nodup_snoc_inv in HSnd. destruct HSnd as [HSnd HnS].
    constructor.
    - exact Hwf.
    - exact Hhash.
    - intros a b w. rewrite Hedge. split.
      + intros (He0 & Hna). split; [exact He0|]. split; [exact Hna|].
        intros Ea. subst a. eapply Permutation_in; [apply Permutation_sym; exact Hperm|].
        eapply edge_g_out_keys. apply Hedge. split; eassumption.
      + intros (He0 & Hna & _). auto.
    - eapply Permutation_NoDup; [apply Permutation_sym; exact Hperm|].
      apply g_out_keys_nodup. exact Hwf.
    - intros m Hin. eapply Permutation_in in Hin; [|exact Hperm].
      apply g_out_keys_edge in Hin. destruct Hin as (w & He). exists w.
      apply Hedge in He. apply He.
    - exact HSnd.
    - intros v. split.
      + intros Hin. assert (HinS : In v S).
        { rewrite Hrev. apply in_or_app. left. exact Hin. }
        apply HS in HinS. destruct HinS as (Hv & HvL & Hvi).
        split; [exact Hv|]. split; [exact HvL|]. split; [|exact Hvi].
        intros E. subst v. contradiction.
      + intros (Hv & HvL & Hvn & Hvi).
        assert (HinS : In v S) by (apply HS; auto).
        rewrite Hrev in HinS. apply in_app_or in HinS.
        destruct HinS as [Hin|[E|[]]]; [exact Hin|]. exfalso. apply Hvn. auto.
  Qed.

  Lemma einv_to_kinv g S L n :
    ~ In n L -> (forall a w, edge g0 a n w -> In a L) -> vertex g0 n ->
    NoDup L -> (forall v, In v L -> vertex g0 v) ->
    (forall a b w, edge g0 a b w -> In b L -> index_lt L a b) ->
    einv n L g [] S -> kinv g S (L ++ [n]).
  Proof.
    intros HnL Hnpred Hnv HLnd HLv Hord He.
    destruct He as [Hwf Hhash Hedge _ _ HSnd HS].
    constructor.
    - exact Hwf.
    - exact Hhash.
    - intros a b w. rewrite Hedge, in_app_iff. simpl. split.
      + intros (He0 & Hna & Himp). split; [exact He0|].
        intros [Hin|[E|[]]]; [contradiction|]. apply Himp. auto.
      + intros (He0 & Hna). split; [exact He0|]. split; [tauto|].
        intros E. exfalso. apply Hna. right. left. auto.
    - exact HSnd.
    - intros v. rewrite HS, in_app_iff. simpl. split.
      + intros (Hv & HvL & Hvn & Hvi). split; [exact Hv|]. split; [|exact Hvi].
        intros [Hin|[E|[]]]; [contradiction|]. apply Hvn. auto.
      + intros (Hv & HvL & Hvi). split; [exact Hv|]. split; [tauto|]. split; [|exact Hvi].
        intros E. apply HvL. right. left. auto.
    - apply nodup_snoc; assumption.
    - intros v Hin. apply in_app_or in Hin. destruct Hin as [Hin|[E|[]]].
      + apply HLv. exact Hin.
      + subst v. exact Hnv.
    - intros a b w He0 Hin. apply in_app_or in Hin. destruct Hin as [Hin|[E|[]]].
      + apply index_lt_app_r. eapply Hord; eassumption.
      + subst b. apply index_lt_snoc. eapply Hnpred. exact He0.
  Qed.

  Lemma kinv_length g S L : kinv g S L -> length L <= length (keys (ghash g0)).
  Proof.
    intros Hk. apply NoDup_incl_length; [apply (ki_L_nodup Hk)|].
    intros v Hin. apply (ki_L_vertex Hk). exact Hin.
  Qed.

  Definition loop_post (r : res (graph * list K * tape K)) : Prop :=
    match r with
    | Ok (g', L', _) => kinv g' [] L'
    | TapeErr _ => True
    | Panic _ => False
    | OutOfFuel => False
    end.

  Lemma kahn_loop_inv fuel : forall g S L t,
    kinv g S L -> length (keys (ghash g0)) < fuel + length L ->
    loop_post (kahn_loop fuel g S L t).
  Proof.
    induction fuel as [|f IH]; intros g S L t Hk Hfuel.
    - exfalso. pose proof (kinv_length Hk). lia.
    - simpl. destruct (rev S) as [|n rS] eqn:Hrev.
      + simpl. assert (ES : S = []).
        { rewrite <- (rev_involutive S), Hrev. reflexivity. }
        subst S. exact Hk.
      + destruct (take_perm SITE_KAHN_M (g_out_keys g n) t) as [[ms t']|s|s|] eqn:Htp; simpl.
        * apply take_perm_Permutation in Htp.
          pose proof (kinv_to_einv Hk Hrev Htp) as He.
          destruct (kinv_pop Hk Hrev) as (HnL & Hnpred & Hcl & Hnv).
          apply (kahn_edges_inv HnL Hnpred Hcl) in He.
          destruct (kahn_edges g n ms (rev rS)) as [g' S'] eqn:Hke. simpl in He.
          apply IH.
          -- apply einv_to_kinv; try assumption.
             ++ apply (ki_L_nodup Hk).
             ++ apply (ki_L_vertex Hk).
             ++ apply (ki_order Hk).
          -- rewrite app_length. simpl. lia.
        * exfalso. eapply take_perm_not_panic. exact Htp.
        * exact I.
        * exfalso. eapply take_perm_not_oof. exact Htp.
  Qed.
End Kahn.

Section KahnTop.
  Context {K : Type} `{EqDec K} {V : Type}.
  Notation graph := (graph K V).
  Implicit Types g : graph.

  Lemma in_out_keys_length g :
    wf_graph g -> length (keys (gin g)) = length (keys (ghash g)).
  Proof.
    intros Hwf. apply Permutation_length. apply NoDup_Permutation.
    - apply (wf_in_nodup Hwf).
    - apply (wf_hash_nodup Hwf).
    - apply (wf_in_keys Hwf).
  Qed.

  Lemma kinv_init g ks :
    wf_graph g -> Permutation ks (keys (gin g)) ->
    kinv g g (filter (indeg0 g) ks) [].
  Proof.
    intros Hwf Hperm. constructor.
    - exact Hwf.
    - reflexivity.
    - intros a b w. simpl. tauto.
    - apply NoDup_filter. eapply Permutation_NoDup; [apply Permutation_sym; exact Hperm|].
      apply (wf_in_nodup Hwf).
    - intros v. rewrite filter_In. simpl. split.
      + intros (Hin & Hi). split; [|tauto]. apply (wf_in_keys Hwf).
        eapply Permutation_in; eassumption.
      + intros (Hv & _ & Hi). split; [|exact Hi].
        eapply Permutation_in; [apply Permutation_sym; exact Hperm|].
        apply (wf_in_keys Hwf). exact Hv.
    - constructor.
    - intros v [].
    - intros a b w _ [].
  Qed.

  Lemma order_walk g L c b p w :
    NoDup L -> (forall a b w, edge g a b w -> index_lt L a b) ->
    walk g c b p w -> c = b \/ index_lt L c b.
  Proof.
    intros Hnd Hord Hw. induction Hw as [a Hv|a b c p w1 w2 He Hw IH].
    - left. reflexivity.
    - right. apply Hord in He. destruct IH as [E|Hlt].
      + subst. exact He.
      + eapply index_lt_trans; eassumption.
  Qed.

  Lemma order_acyclic g L :
    NoDup L -> (forall a b w, edge g a b w -> index_lt L a b) -> acyclic g.
  Proof.
    intros Hnd Hord a (c & w & p & w2 & He & Hw).
    pose proof (Hord _ _ _ He) as Hlt.
    destruct (order_walk Hnd Hord Hw) as [E|Hlt2].
    - subst c. eapply index_lt_irrefl; eassumption.
    - eapply index_lt_irrefl; [exact Hnd|]. eapply index_lt_trans; eassumption.
  Qed.

  Definition kahn_post g (r : res (list K * tape K)) : Prop :=
    match r with
    | Ok (L, _) => Permutation L (keys (ghash g)) /\
                   (forall a b w, edge g a b w -> index_lt L a b) /\ acyclic g
    | Panic _ => ~ acyclic g
    | TapeErr _ => True
    | OutOfFuel => False
    end.

  Lemma kahn_spec g t : wf_graph g -> kahn_post g (kahn g t).
  Proof.
    intros Hwf. unfold kahn.
    assert (Hfuel : length (keys (ghash g)) < S (length (keys (gin g))) + length (@nil K)).
    { rewrite (in_out_keys_length Hwf). simpl. lia. }
    remember (S (length (keys (gin g)))) as fuel eqn:Efuel. clear Efuel.
    destruct (take_perm SITE_KAHN_S (keys (gin g)) t) as [[ks t1]|s|s|] eqn:Htp; simpl.
    - apply take_perm_Permutation in Htp.
      pose proof (kinv_init Hwf Htp) as Hk0.
      pose proof (kahn_loop_inv Hwf fuel t1 Hk0 Hfuel) as Hpost.
      destruct (kahn_loop fuel g (filter (indeg0 g) ks) [] t1)
        as [[[g' L] t2]|s|s|] eqn:Hloop; simpl in Hpost; simpl; try contradiction; [|exact I].
      destruct Hpost as [Hwf' Hhash Hedge _ HS HLnd HLv Hord].
      (* vertices outside L have a predecessor outside L *)
      assert (Hpred : forall v, vertex g v /\ ~ In v L ->
                 exists a w, edge g a v w /\ (vertex g a /\ ~ In a L)).
      { intros v (Hv & HvL). destruct (indeg0 g' v) eqn:Hi.
        - exfalso. apply (proj2 (HS v)). auto.
        - apply indeg0_false in Hi; [|exact Hwf']. destruct Hi as (a & w & He).
          apply Hedge in He. destruct He as (He0 & HaL). exists a, w.
          split; [exact He0|]. split; [|exact HaL].
          apply (wf_closed Hwf) in He0. apply He0. }
      destruct (has_edges g') eqn:Hhe; simpl.
      + apply has_edges_true in Hhe; [|exact Hwf'].
        destruct Hhe as (a & b & w & He). apply Hedge in He. destruct He as (He0 & HaL).
        apply (no_source_cycle (fun v => vertex g v /\ ~ In v L) Hwf Hpred).
        exists a. split; [|apply (wf_closed Hwf) in He0; apply He0].
        split; [apply (wf_closed Hwf) in He0; apply He0|exact HaL].
      + assert (Hall : forall v, vertex g v -> In v L).
        { intros v Hv. destruct (In_dec_K v L) as [Hin|Hnin]; [exact Hin|].
          exfalso. destruct (Hpred v (conj Hv Hnin)) as (a & w & He0 & _ & HaL).
          eapply has_edges_false; [exact Hhe|]. apply Hedge. split; eassumption. }
        assert (Hfwd : forall a b w, edge g a b w -> index_lt L a b).
        { intros a b w He0. eapply Hord; [exact He0|]. apply Hall.
          apply (wf_closed Hwf) in He0. apply He0. }
        split; [|split; [exact Hfwd|]].
        * apply NoDup_Permutation; [exact HLnd|apply (wf_hash_nodup Hwf)|].
          intros v. split; [apply HLv|apply Hall].
        * eapply order_acyclic; eassumption.
    - exfalso. eapply take_perm_not_panic. exact Htp.
    - exact I.
    - exfalso. eapply take_perm_not_oof. exact Htp.
  Qed.

  Theorem C20b_holds : @C20b_statement K _ V.
  Proof.
    intros g t Hwf. pose proof (kahn_spec t Hwf) as Hpost.
    destruct (kahn g t) as [[L t']|s|s|] eqn:Hk; simpl in Hpost.
    - split; [|split; [|split]].
      + intros L0 t0 E. inversion E; subst. exact Hpost.
      + intros s E. discriminate E.
      + intros _ s E. discriminate E.
      + intros E. discriminate E.
    - split; [|split; [|split]].
      + intros L0 t0 E. discriminate E.
      + intros s0 _. exact Hpost.
      + intros Hac. contradiction.
      + intros E. discriminate E.
    - split; [|split; [|split]].
      + intros L0 t0 E. discriminate E.
      + intros s0 E. discriminate E.
      + intros _ s0 E. discriminate E.
      + intros E. discriminate E.
    - contradiction.
  Qed.
End KahnTop.

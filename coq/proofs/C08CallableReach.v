(* C08CallableReach.v -- what a successful run of [reach] in redefining mode
   proves: every requirement of the target is derivable (AND-OR) from the
   recorded inputs (callState.InputSet) over the edges of the call graph that
   do not point to the root.  Helper of C08Callable.v. *)
From ArgMapper Require Import Base Graph GraphAlg GraphSpec Types Args Resolver.
From ArgMapper.proofs Require Import C18DijkstraLemmas C19RefineMap C19RefineGraph
     C0213UnsatGraph C0213UnsatBuild C0213UnsatPlan C0213UnsatReach C04ErrorsLemmas C08RedefineReach.
From Coq Require Import List Lia ZArith.
Import ListNotations.
Set Implicit Arguments.
Local Open Scope Z_scope.

(* ---------- small facts on association lists ---------- *)
Lemma mem_insert_ne {K} {E : EqDec K} {V} (k k' : K) (v : V) (m : amap K V) :
  k' <> k -> mem k' (insert k v m) = true -> mem k' m = true.
Proof. intros N M. apply mem_insert in M. destruct M as [M|M]; [contradiction|exact M]. Qed.

Lemma mem_set_val (s : rstate) (k k' : vkey) (v : option value) :
  mem k' (s_vals (set_val s k v)) = true -> k' = k \/ mem k' (s_vals s) = true.
Proof.
  unfold set_val, set_vals. cbn [s_vals]. destruct v as [x|]; intros M.
  - apply mem_insert in M. exact M.
  - right. apply (mem_delete _ _ _ M).
Qed.

Section RdReach.
  Variable u : universe.
  Variable bh : behaviour.
  Variable g : rgraph.
  Hypothesis Wg : wf_graph g.

  (* derivability from a set R of recorded inputs *)
  Inductive der (R : list vkey) : vkey -> Prop :=
  | der_root : der R KRoot
  | der_rec k : is_func k = false -> In k R -> der R k
  | der_val v p : is_func v = false -> p <> KRoot -> ew g v p <> None -> der R p -> der R v
  | der_func ft c : vtx g (KFunc ft) = Some (PFunc c) ->
                    (forall fld, In fld (fn_in c) -> der R (field_key fld)) -> der R (KFunc ft).

  Lemma der_mono R R' k : incl R R' -> der R k -> der R' k.
  Proof.
    intros Inc D. induction D as [|k Nf Ik|v p Nf Np Ev Dp IH|ft c V All IH].
    - constructor.
    - apply der_rec; [exact Nf|apply Inc; exact Ik].
    - eapply der_val; eauto.
    - eapply der_func; eauto.
  Qed.

  Record Inv (s : rstate) : Prop := {
    inv_arg : forall t st, mem (KArg t st) (s_vals s) = true -> der (s_inputs s) (KArg t st);
    inv_world : s_world s = [] }.

  Lemma Inv_core s s' :
    s_vals s' = s_vals s -> s_inputs s' = s_inputs s -> s_world s' = s_world s -> Inv s -> Inv s'.
  Proof.
    intros A B C [I1 I2]. constructor.
    - rewrite A, B. exact I1.
    - rewrite C. exact I2.
  Qed.

  Lemma Inv_set_val s k v :
    Inv s -> (forall t st, k = KArg t st -> der (s_inputs s) k) -> Inv (set_val s k v).
  Proof.
    intros [I1 I2] Hk. constructor.
    - intros t st M. change (s_inputs (set_val s k v)) with (s_inputs s).
      apply mem_set_val in M. destruct M as [M|M]; [rewrite M; apply (Hk t st); symmetry; exact M|apply I1; exact M].
    - exact I2.
  Qed.

  Lemma Inv_set_last s v : Inv s -> Inv (set_last s v).
  Proof. apply Inv_core; reflexivity. Qed.

  (* ---------- what [plan] returns ---------- *)
  Definition path_good (R : list vkey) (path : list vkey) (cur : vkey) : Prop :=
    exists x rest, path = KRoot :: x :: rest /\ ~ In KRoot (x :: rest) /\ last path KRoot = cur /\
                   linkedR g path /\ (is_func x = false -> In x R).

  Lemma path_good_mono R R' path cur : incl R R' -> path_good R path cur -> path_good R' path cur.
  Proof.
    intros Inc (x & rest & A & B & C & D & E). exists x, rest.
    split; [exact A|]. split; [exact B|]. split; [exact C|]. split; [exact D|].
    intros Nf. apply Inc. apply E. exact Nf.
  Qed.

  Hypothesis HPlan : forall cur s path bad s',
      vtx g cur <> None -> cur <> KRoot ->
      plan g true cur s = Ok (path, bad, s') ->
      path_good (s_inputs s') path cur /\ incl (s_inputs s) (s_inputs s') /\ s_world s' = s_world s /\
      (forall k, mem k (s_vals s') = true ->
                 mem k (s_vals s) = true \/ (is_func k = false /\ In k (s_inputs s'))).

  (* ---------- callDirect in redefining mode ---------- *)
  Lemma call_direct_rd c am s res s' :
    s_world s = [] ->
    call_direct u bh true c am s = Ok (res, s') ->
    s' = s /\
    (r_builderr res = true \/
     (r_builderr res = false /\ r_err res = None /\
      forall fld, In fld (fn_in c) -> mem (field_key fld) am = true)).
  Proof.
    intros Wd Q. unfold call_direct in Q. rewrite Wd in Q.
    assert (C0 : (if fn_once c then @lookup Z _ result (fn_id c) [] else None) = None)
      by (destruct (fn_once c); reflexivity).
    rewrite C0 in Q.
    set (args := map (fun fld => (fld, lookup (field_key fld) am)) (fn_in c)) in *.
    destruct (existsb (fun a => match snd a with
                                | Some v => negb (assignable u (v_ty v) (f_ty (fst a)))
                                | None => false end) args); [discriminate|].
    destruct (existsb (fun a => match snd a with None => true | Some _ => false end) args) eqn:Ex.
    - inversion Q; subst. split; [reflexivity|left; reflexivity].
    - inversion Q; subst. split; [reflexivity|right]. split; [reflexivity|]. split; [reflexivity|].
      intros fld I. apply mem_lookup. intros N.
      assert (Ia : In (fld, lookup (field_key fld) am) args).
      { unfold args. apply in_map_iff. exists fld. auto. }
      assert (T : existsb (fun a => match snd a with None => true | Some _ => false end) args = true).
      { apply existsb_exists. eexists; split; [exact Ia|]. simpl. rewrite N. reflexivity. }
      congruence.
  Qed.

  (* ---------- outputValues only writes value / output vertices ---------- *)
  Definition same_args (s s' : rstate) : Prop :=
    (forall t st, mem (KArg t st) (s_vals s') = true -> mem (KArg t st) (s_vals s) = true) /\
    s_inputs s' = s_inputs s /\ s_world s' = s_world s.

  Lemma output_values_args c res ins s s' :
    output_values c res ins s = Ok s' -> same_args s s'.
  Proof.
    unfold output_values. intros Q.
    set (F := fun (k : vkey) (s : rstate) =>
                match k with
                | KVal n _ _ => match last_named n (fn_out c) 0 None with
                                | Some (i, _) => Ok (set_val s k (nth_error (r_fields res) i))
                                | None => Panic 401%N
                                end
                | KOut t _ => match last_typed t (fn_out c) 0 None with
                              | Some (i, _) => Ok (set_val s k (nth_error (r_fields res) i))
                              | None => Panic 402%N
                              end
                | _ => Ok s
                end).
    change (fold_left (fun acc k => bind acc (F k)) ins (Ok s) = Ok s') in Q.
    apply (@fold_bind_inv _ _ F (same_args s) ins s s' Q).
    - split; [auto|split; reflexivity].
    - intros k s0 s1 _ (A & B & C) Fk0. unfold F in Fk0.
      assert (SV : forall k0 v, (forall t st, k0 <> KArg t st) -> same_args s (set_val s0 k0 v)).
      { intros k0 v Nk. split; [|split; [exact B|exact C]].
        intros t st M. apply mem_set_val in M. destruct M as [M|M]; [exfalso; apply (Nk t st); symmetry; exact M|].
        apply A. exact M. }
      destruct k as [|ft|n t st|t st|t st].
      + inversion Fk0; subst. split; [exact A|split; [exact B|exact C]].
      + inversion Fk0; subst. split; [exact A|split; [exact B|exact C]].
      + destruct (last_named n (fn_out c) 0 None) as [[i fl]|]; [|discriminate].
        inversion Fk0; subst. apply SV. intros; discriminate.
      + inversion Fk0; subst. split; [exact A|split; [exact B|exact C]].
      + destruct (last_typed t (fn_out c) 0 None) as [[i fl]|]; [|discriminate].
        inversion Fk0; subst. apply SV. intros; discriminate.
  Qed.

  Lemma Inv_same_args s s' : same_args s s' -> Inv s -> Inv s'.
  Proof.
    intros (A & B & C) [I1 I2]. constructor.
    - intros t st M. rewrite B. apply I1. apply A. exact M.
    - rewrite C. exact I2.
  Qed.

  (* ---------- the recursive call ---------- *)
  Definition post (target : vkey) (R : list vkey) (r : argmap + rerr) : Prop :=
    match r with
    | inl am => (forall k, mem k am = true -> der R k) /\
                (forall o, In o (g_out_keys g target) -> der R o)
    | inr _ => True
    end.

  Definition rec_ok (rec : vkey -> rstate -> res (rstate * (argmap + rerr))) : Prop :=
    forall v s s' r, rec v s = Ok (s', r) -> Inv s ->
      incl (s_inputs s) (s_inputs s') /\ Inv s' /\ post v (s_inputs s') r.

  (* ---------- walking one path (after its leading root) ---------- *)
  Lemma walk_inv rec : rec_ok rec ->
    forall vs prev final s s' r,
      walk u bh g true rec (Some prev) vs final s = Ok (s', r) -> Inv s ->
      ~ In KRoot vs -> linkedR g (prev :: vs) ->
      (prev = KRoot -> forall v rest, vs = v :: rest -> is_func v = false -> In v (s_inputs s)) ->
      (prev <> KRoot -> der (s_inputs s) prev) ->
      incl (s_inputs s) (s_inputs s') /\ Inv s' /\
      (forall fv, r = inl fv -> forall v, In v vs -> der (s_inputs s') v).
  Proof.
    intros ROK. induction vs as [|v vs IH]; intros prev final s s' r Q I NR Li HR HD.
    - cbn [walk] in Q. inversion Q; subst. split; [apply incl_refl|]. split; [exact I|]. intros fv _ v [].
    - destruct Li as [Ev Li].
      assert (Nv : v <> KRoot) by (intros ->; apply NR; left; reflexivity).
      assert (NR' : ~ In KRoot vs) by (intros C; apply NR; right; exact C).
      assert (VD : is_func v = false -> der (s_inputs s) v).
      { intros Nf. destruct (Base.eqb_spec prev KRoot) as [Ep|Np].
        - apply der_rec; [exact Nf|]. apply (HR Ep v vs eq_refl Nf).
        - apply der_val with (p := prev); [exact Nf|exact Np|exact Ev|exact (HD Np)]. }
      assert (Fin : forall s1 final1, Inv s1 -> incl (s_inputs s) (s_inputs s1) -> der (s_inputs s1) v ->
                walk u bh g true rec (Some v) vs final1 s1 = Ok (s', r) ->
                incl (s_inputs s) (s_inputs s') /\ Inv s' /\
                (forall fv, r = inl fv -> forall v0, In v0 (v :: vs) -> der (s_inputs s') v0)).
      { intros s1 final1 I1 Inc Dv Q1.
        destruct (IH v final1 s1 s' r Q1 I1 NR' Li) as (Inc' & I' & All).
        - intros C. contradiction.
        - intros _. exact Dv.
        - split; [eapply incl_tran; eauto|]. split; [exact I'|].
          intros fv E v0 [<-|I0]; [apply (der_mono Inc' Dv)|apply (All fv E v0 I0)]. }
      destruct v as [|ft|n t st|t st|t st].
      + contradiction Nv; reflexivity.
      + (* function vertex *)
        rewrite walk_func in Q. unfold g_vertex in Q. fold (vtx g (KFunc ft)) in Q.
        destruct (vtx g (KFunc ft)) as [[|c]|] eqn:V; try discriminate.
        destruct (rec (KFunc ft) s) as [[s1 r1]| | |] eqn:R; cbn [bind] in Q; try discriminate.
        destruct (ROK _ _ _ _ R I) as (Inc1 & I1 & P1).
        destruct r1 as [fam|e].
        2:{ inversion Q; subst. split; [exact Inc1|]. split; [exact I1|]. intros fv E; discriminate. }
        destruct P1 as [Keys _].
        destruct (call_direct u bh true c fam s1) as [[res s2]| | |] eqn:CD; cbn [bind] in Q; try discriminate.
        destruct (call_direct_rd _ _ _ (inv_world I1) CD) as [-> [Be|(Be & Er & All)]].
        * rewrite Be in Q. inversion Q; subst. split; [exact Inc1|]. split; [exact I1|]. intros fv E; discriminate.
        * rewrite Be, Er in Q.
          assert (Dv : der (s_inputs s1) (KFunc ft)).
          { apply der_func with (c := c); [exact V|]. intros fld Ifld. apply Keys. apply All. exact Ifld. }
          destruct (take_perm SITE_REACH_IN (g_in_keys g (KFunc ft)) (s_tape s1)) as [[ins t']| | |] eqn:TP;
            cbn [bind] in Q; try discriminate.
          destruct (output_values c res ins (set_tape s1 t')) as [s3| | |] eqn:OV; cbn [bind] in Q; try discriminate.
          pose proof (output_values_args _ _ _ _ OV) as SA.
          assert (I3 : Inv s3).
          { apply (Inv_same_args SA). apply (@Inv_core s1 (set_tape s1 t')); auto. }
          assert (E3 : s_inputs s3 = s_inputs s1) by (destruct SA as (_ & B & _); exact B).
          apply (Fin s3 final I3); [rewrite E3; exact Inc1|rewrite E3; exact Dv|exact Q].
      + (* named value *)
        pose proof (VD eq_refl) as Dv. cbn [walk] in Q.
        match type of Q with walk _ _ _ _ _ _ _ ?fin (set_last ?s1 _) = _ =>
          apply (Fin (set_last s1 (lookup (KVal n t st) (s_vals s1))) fin) end; [| | |exact Q].
        * apply Inv_set_last.
          destruct prev as [|ft0|n0 t0 st0|t0 st0|t0 st0]; try exact I.
          -- destruct (lookup (KVal n0 t0 st0) (s_vals s)); [|exact I]. apply Inv_set_val; [exact I|intros; discriminate].
          -- apply Inv_set_val; [exact I|intros; discriminate].
        * destruct prev as [|ft0|n0 t0 st0|t0 st0|t0 st0]; try apply incl_refl.
          destruct (lookup (KVal n0 t0 st0) (s_vals s)); apply incl_refl.
        * destruct prev as [|ft0|n0 t0 st0|t0 st0|t0 st0]; try exact Dv.
          destruct (lookup (KVal n0 t0 st0) (s_vals s)); exact Dv.
      + (* typed argument *)
        pose proof (VD eq_refl) as Dv. cbn [walk] in Q.
        match type of Q with walk _ _ _ _ _ _ _ ?fin ?s1 = _ => apply (Fin s1 fin) end; [| | |exact Q].
        * destruct (s_last s) as [x|]; [|exact I].
          destruct (assignable u (v_ty x) t); [|exact I]. apply Inv_set_val; [exact I|intros; exact Dv].
        * destruct (s_last s) as [x|]; [|apply incl_refl].
          destruct (assignable u (v_ty x) t); apply incl_refl.
        * destruct (s_last s) as [x|]; [|exact Dv].
          destruct (assignable u (v_ty x) t); exact Dv.
      + (* typed output *)
        pose proof (VD eq_refl) as Dv. cbn [walk] in Q.
        match type of Q with walk _ _ _ _ _ _ _ ?fin (set_last ?s1 _) = _ =>
          apply (Fin (set_last s1 (lookup (KOut t st) (s_vals s1))) fin) end; [| | |exact Q].
        * apply Inv_set_last.
          destruct prev as [|ft0|n0 t0 st0|t0 st0|t0 st0]; try exact I.
          apply Inv_set_val; [exact I|intros; discriminate].
        * destruct prev as [|ft0|n0 t0 st0|t0 st0|t0 st0]; apply incl_refl.
        * destruct prev as [|ft0|n0 t0 st0|t0 st0|t0 st0]; exact Dv.
  Qed.

  (* ---------- classification of the requirements (redefining mode) ---------- *)
  Definition cl_step (s : rstate) (acc : argmap * list vkey) (o : vkey) : argmap * list vkey :=
    let '(am, todo) := acc in
    match o with
    | KRoot => (am, todo)
    | KArg _ _ => match lookup o (s_vals s) with
                  | Some v => (insert o v am, todo)
                  | None => (am, todo ++ [o])
                  end
    | _ => (am, todo ++ [o])
    end.

  Lemma classify_eq s outs : classify true s outs = fold_left (cl_step s) outs ([], []).
  Proof. reflexivity. Qed.

  Definition cl_post (s : rstate) (am0 : argmap) (todo0 : list vkey) (am : argmap) (todo : list vkey) : Prop :=
    (forall k, mem k am = true ->
               mem k am0 = true \/ ((exists t st, k = KArg t st) /\ mem k (s_vals s) = true)) /\
    (forall k, mem k am0 = true -> mem k am = true) /\
    (forall o, In o todo0 -> In o todo).

  Lemma cl_step_spec s am0 todo0 o am1 todo1 :
    cl_step s (am0, todo0) o = (am1, todo1) ->
    (o = KRoot \/ mem o am1 = true \/ In o todo1) /\ cl_post s am0 todo0 am1 todo1.
  Proof.
    intros Q.
    assert (Keep : am1 = am0 /\ todo1 = todo0 ++ [o] ->
                   (o = KRoot \/ mem o am1 = true \/ In o todo1) /\ cl_post s am0 todo0 am1 todo1).
    { intros [-> ->]. split; [right; right; apply in_or_app; right; left; reflexivity|].
      split; [auto|]. split; [auto|]. intros o' I'. apply in_or_app. left. exact I'. }
    unfold cl_step in Q. destruct o as [|ft|n t st|t st|t st].
    - inversion Q; subst. split; [left; reflexivity|]. split; [auto|]. split; auto.
    - apply Keep. inversion Q; auto.
    - apply Keep. inversion Q; auto.
    - destruct (lookup (KArg t st) (s_vals s)) as [v|] eqn:L.
      + inversion Q; subst. split; [right; left; apply mem_insert; left; reflexivity|].
        split; [|split; [|auto]].
        * intros k M. apply mem_insert in M. destruct M as [->|M]; [right|left; exact M].
          split; [eauto|]. apply mem_lookup. rewrite L. discriminate.
        * intros k M. apply mem_insert. right. exact M.
      + apply Keep. inversion Q; auto.
    - apply Keep. inversion Q; auto.
  Qed.

  Lemma classify_spec (s : rstate) : forall outs am0 todo0 am todo,
    fold_left (cl_step s) outs (am0, todo0) = (am, todo) ->
    (forall o, In o outs -> o = KRoot \/ mem o am = true \/ In o todo) /\ cl_post s am0 todo0 am todo.
  Proof.
    induction outs as [|o outs IH]; intros am0 todo0 am todo Q; cbn [fold_left] in Q.
    - inversion Q; subst. split; [intros o []|]. split; [auto|]. split; auto.
    - destruct (cl_step s (am0, todo0) o) as [am1 todo1] eqn:St.
      destruct (cl_step_spec _ _ _ _ St) as (A1 & A2 & A3 & A4).
      destruct (IH _ _ _ _ Q) as (B1 & B2 & B3 & B4).
      split; [|split; [|split]].
      + intros o' [<-|I']; [|apply B1; exact I'].
        destruct A1 as [A1|[A1|A1]]; [left; exact A1|right; left; apply B3; exact A1|right; right; apply B4; exact A1].
      + intros k M. destruct (B2 k M) as [M1|M1]; [apply A2; exact M1|right; exact M1].
      + intros k M. apply B3. apply A3. exact M.
      + intros o' I'. apply B4. apply A4. exact I'.
  Qed.

  (* ---------- planning ---------- *)
  Lemma plan_steps_fail rd todo r :
    (forall a, r <> Ok a) -> fold_left (plan_step g rd) todo r = r.
  Proof.
    intros N. induction todo as [|c todo IH]; simpl; [reflexivity|].
    destruct r as [a| | |]; simpl; try exact IH. exfalso. apply (N a). reflexivity.
  Qed.

  Lemma plans_spec : forall todo paths0 unsat0 s0 paths unsat s1,
    (forall cur, In cur todo -> vtx g cur <> None /\ cur <> KRoot) ->
    fold_left (plan_step g true) todo (Ok (paths0, unsat0, s0)) = Ok (paths, unsat, s1) ->
    exists newp, paths = paths0 ++ newp /\ Forall2 (path_good (s_inputs s1)) newp todo /\
      incl (s_inputs s0) (s_inputs s1) /\ s_world s1 = s_world s0 /\
      (forall k, mem k (s_vals s1) = true ->
                 mem k (s_vals s0) = true \/ (is_func k = false /\ In k (s_inputs s1))).
  Proof.
    induction todo as [|c todo IH]; intros paths0 unsat0 s0 paths unsat s1 Vt Q.
    - simpl in Q. inversion Q; subst. exists []. rewrite app_nil_r.
      split; [reflexivity|]. split; [constructor|]. split; [apply incl_refl|]. split; [reflexivity|auto].
    - cbn [fold_left] in Q. unfold plan_step at 2 in Q. cbn [bind] in Q.
      destruct (plan g true c s0) as [[[path bad] s2]| | |] eqn:PL; cbn [bind] in Q.
      + destruct (Vt c (or_introl eq_refl)) as [Vc Nc].
        destruct (@HPlan _ _ _ _ _ Vc Nc PL) as (PG & Inc & Wd & Vals).
        destruct (IH _ _ _ _ _ _ (fun cur I => Vt cur (or_intror I)) Q) as (newp & -> & F2 & Inc2 & Wd2 & Vals2).
        exists (path :: newp). split; [rewrite <- app_assoc; reflexivity|].
        split; [constructor; [apply (path_good_mono Inc2 PG)|exact F2]|].
        split; [eapply incl_tran; eauto|]. split; [congruence|].
        intros k M. destruct (Vals2 k M) as [M2|M2]; [|right; exact M2].
        destruct (Vals k M2) as [M0|[Nf Ik]]; [left; exact M0|right]. split; [exact Nf|apply Inc2; exact Ik].
      + rewrite plan_steps_fail in Q; [discriminate|intros a; discriminate].
      + rewrite plan_steps_fail in Q; [discriminate|intros a; discriminate].
      + rewrite plan_steps_fail in Q; [discriminate|intros a; discriminate].
  Qed.

  (* ---------- walking all paths ---------- *)
  Lemma last_in' (l : list vkey) (d : vkey) : l <> [] -> In (last l d) l.
  Proof.
    induction l as [|x l IH]; intros Ne; [contradiction Ne; reflexivity|].
    destruct l as [|y l]; [left; reflexivity|]. right. apply IH. discriminate.
  Qed.

  Definition post2 (curs : list vkey) (R : list vkey) (r : argmap + rerr) : Prop :=
    match r with
    | inl am => (forall k, mem k am = true -> der R k) /\ (forall cur, In cur curs -> der R cur)
    | inr _ => True
    end.

  Lemma Inv_leave target s : Inv s -> Inv (leave target s).
  Proof. apply Inv_core; reflexivity. Qed.

  Lemma walk_paths_inv rec target (R0 : list vkey) :
    rec_ok rec ->
    forall paths curs, Forall2 (path_good R0) paths curs ->
    forall am s s' r,
      walk_paths u bh g true rec target paths am s = Ok (s', r) -> Inv s ->
      incl R0 (s_inputs s) ->
      (forall k, mem k am = true -> der (s_inputs s) k) ->
      incl (s_inputs s) (s_inputs s') /\ Inv s' /\ post2 curs (s_inputs s') r.
  Proof.
    intros ROK. induction 1 as [|path cur paths curs PG F2 IH]; intros am s s' r Q I IncR Keys.
    - rewrite walk_paths_nil in Q. inversion Q; subst.
      split; [apply incl_refl|]. split; [apply Inv_leave; exact I|].
      split; [exact Keys|intros c []].
    - rewrite walk_paths_cons in Q.
      destruct PG as (x & rest & -> & NR & La & Li & Hx).
      change (walk u bh g true rec None (KRoot :: x :: rest) None s)
        with (walk u bh g true rec (Some KRoot) (x :: rest) None s) in Q.
      destruct (walk u bh g true rec (Some KRoot) (x :: rest) None s) as [[s1 r1]| | |] eqn:WK;
        cbn [bind] in Q; try discriminate.
      destruct (@walk_inv rec ROK (x :: rest) KRoot None s s1 r1 WK I NR Li) as (Inc1 & I1 & All).
      { intros _ v rest' E Nf. inversion E; subst v rest'. apply IncR. apply Hx. exact Nf. }
      { intros C. contradiction C; reflexivity. }
      destruct r1 as [[fv|]|e].
      + assert (Dc : der (s_inputs s1) cur).
        { apply (All (Some fv) eq_refl). rewrite <- La.
          change (last (KRoot :: x :: rest) KRoot) with (last (x :: rest) KRoot).
          apply last_in'. discriminate. }
        destruct (IH _ _ _ _ Q I1) as (Inc' & I' & P').
        { eapply incl_tran; eauto. }
        { intros k M. apply mem_insert in M. destruct M as [->|M]; [rewrite La; exact Dc|].
          apply (der_mono Inc1). apply Keys. exact M. }
        split; [eapply incl_tran; eauto|]. split; [exact I'|].
        destruct r as [am'|e]; [|exact Logic.I].
        destruct P' as [P1 P2]. split; [exact P1|].
        intros c [<-|Ic]; [apply (der_mono Inc' Dc)|apply P2; exact Ic].
      + discriminate.
      + inversion Q; subst. split; [exact Inc1|]. split; [apply Inv_leave; exact I1|exact Logic.I].
  Qed.

  (* ---------- reachTarget in redefining mode ---------- *)
  Theorem reach_rd : forall fuel, rec_ok (reach u bh g true fuel).
  Proof.
    induction fuel as [|fuel IH]; intros target s s' r Q I; [rewrite reach_O in Q; discriminate|].
    rewrite reach_S in Q. unfold reach_body in Q.
    set (s0 := set_inprog s (target :: s_inprog s)) in *.
    destruct (take_perm SITE_REACH_OUT (g_out_keys g target) (s_tape s0)) as [[outs t']| | |] eqn:TP;
      cbn [bind] in Q; try discriminate.
    set (s1 := set_tape s0 t') in *.
    assert (I1 : Inv s1) by (apply (@Inv_core s s1); auto).
    pose proof (classify_todo true s1 outs) as CT.
    rewrite classify_eq in Q, CT.
    destruct (fold_left (cl_step s1) outs ([], [])) as [am todo] eqn:CL. cbn [snd] in CT.
    destruct (classify_spec _ _ _ _ CL) as (C1 & C2 & _ & _).
    assert (AmKeys : forall k, mem k am = true -> der (s_inputs s1) k).
    { intros k M. destruct (C2 k M) as [M0|[(t & st & ->) M0]]; [discriminate|]. apply (inv_arg I1 _ _ M0). }
    assert (Outs : forall R, incl (s_inputs s1) R -> (forall o, In o todo -> der R o) ->
                   forall o, In o (g_out_keys g target) -> der R o).
    { intros R IncR Td o Io. apply (take_perm_In' _ _ _ TP) in Io.
      destruct (C1 o Io) as [->|[M|It]]; [apply der_root|apply (der_mono IncR); apply AmKeys; exact M|apply Td; exact It]. }
    destruct todo as [|c0 todo'].
    - inversion Q; subst. split; [apply incl_refl|]. split; [apply Inv_leave; exact I1|].
      split; [exact AmKeys|]. apply (Outs (s_inputs s1)); [apply incl_refl|]. intros o [].
    - set (todo := c0 :: todo') in *.
      unfold plan_all in Q.
      destruct (fold_left (plan_step g true) todo (Ok ([], [], s1))) as [[[paths unsat] s2]| | |] eqn:PL;
        cbn [bind] in Q; try discriminate.
      assert (Vt : forall cur, In cur todo -> vtx g cur <> None /\ cur <> KRoot).
      { intros cur Ic. destruct (CT cur Ic) as [Io Nr]. split; [|exact Nr].
        apply (take_perm_In' _ _ _ TP) in Io. apply in_out_keys in Io.
        apply (ew_closed _ _ Wg Io). }
      destruct (@plans_spec _ _ _ _ _ _ _ Vt PL) as (newp & Ep & F2 & Inc2 & Wd2 & Vals2).
      simpl in Ep. subst newp.
      assert (I2 : Inv s2).
      { constructor.
        - intros t st M. destruct (Vals2 _ M) as [M1|[Nf Ik]].
          + apply (der_mono Inc2). apply (inv_arg I1 _ _ M1).
          + apply der_rec; assumption.
        - rewrite Wd2. apply (inv_world I1). }
      destruct unsat as [|x xs].
      + destruct (@walk_paths_inv _ target (s_inputs s2) IH paths todo F2 am s2 s' r Q I2) as (Inc' & I' & P').
        { apply incl_refl. }
        { intros k M. apply (der_mono Inc2). apply AmKeys. exact M. }
        split; [eapply incl_tran; eauto|]. split; [exact I'|].
        destruct r as [am'|e]; [|exact Logic.I].
        destruct P' as [P1 P2]. split; [exact P1|].
        apply Outs; [eapply incl_tran; eauto|exact P2].
      + inversion Q; subst. split; [exact Inc2|]. split; [apply Inv_leave; exact I2|exact Logic.I].
  Qed.
End RdReach.

(* C08CallableMono.v -- [full_graph] decomposed into stages of primitive
   operations, generators included; the call graph grows with the supplied
   inputs: every vertex and every edge that does not point to the root of
   the graph built for Redefine is in the graph built for the later Call
   with more inputs.  Helper of C08Callable.v. *)
From ArgMapper Require Import Base Graph GraphAlg GraphSpec Types Args Resolver ResolverSpec GenWeights.
From ArgMapper.proofs Require Import C18DijkstraLemmas C19RefineMap C19RefineGraph
     C0213UnsatGraph C0213UnsatBuild C0213UnsatPlan C0213UnsatReach C07AffinityOps C08CallableOps.
From Coq Require Import List Lia ZArith.
Import ListNotations.
Set Implicit Arguments.
Local Open Scope Z_scope.

(* ---------- steps that only add edges ---------- *)
Definition EO (g g' : rgraph) : Prop :=
  wf_graph g' /\ (forall k, vtx g' k = vtx g k) /\ (forall a b, ew g a b <> None -> ew g' a b <> None).

Lemma EO_refl g : wf_graph g -> EO g g.
Proof. intros W. split; [exact W|]. split; auto. Qed.

Lemma EO_trans g1 g2 g3 : EO g1 g2 -> EO g2 g3 -> EO g1 g3.
Proof.
  intros (W2 & V2 & E2) (W3 & V3 & E3). split; [exact W3|]. split.
  - intros k. rewrite V3. apply V2.
  - intros a b N. apply E3, E2, N.
Qed.

Lemma EO_add_e g g' a b w : EO g g' -> EO g (add_e g' a b w).
Proof.
  intros (W' & V' & E'). destruct (add_e_spec a b w W') as (W2 & Hv & He).
  split; [exact W2|]. split.
  - intros k. rewrite Hv. apply V'.
  - intros x y N. rewrite He.
    destruct (present g' a && present g' b && Base.eqb x a && Base.eqb y b); [discriminate|apply E'; exact N].
Qed.

Lemma EO_step_named_sub valued g : wf_graph g -> EO g (step_named_sub valued g).
Proof.
  intros W. unfold step_named_sub. apply (fold_left_inv (EO g)); [apply EO_refl; exact W|].
  intros g1 k I1 _. destruct k as [|ft|n t s|t s|t s]; try exact I1.
  destruct (String.eqb s "" && negb (valued (KVal n t s))); [|exact I1].
  apply (fold_left_inv (EO g)); [exact I1|].
  intros g2 k2 I2 _. destruct k2 as [|ft2|n2 t2 s2|t2 s2|t2 s2]; try exact I2.
  destruct (String.eqb n2 n && (t2 =? t) && negb (String.eqb s2 "")); [|exact I2].
  apply EO_add_e. exact I2.
Qed.

Lemma EO_step_arg_sub g : wf_graph g -> EO g (step_arg_sub g).
Proof.
  intros W. unfold step_arg_sub. apply (fold_left_inv (EO g)); [apply EO_refl; exact W|].
  intros g1 k I1 _. destruct k as [|ft|n t s|t s|t s]; try exact I1.
  apply (fold_left_inv (EO g)); [exact I1|].
  intros g2 k2 I2 _. destruct k2 as [|ft2|n2 t2 s2|t2 s2|t2 s2]; try exact I2.
  destruct ((t2 =? t) && (if String.eqb s "" then negb (String.eqb s2 "") else String.eqb s2 "")); [|exact I2].
  apply EO_add_e. exact I2.
Qed.

Lemma EO_step_redefine u fin g : wf_graph g -> EO g (step_redefine u fin g).
Proof.
  intros W. destruct (step_redefine_facts u fin W) as (W' & Hv & _ & Hm).
  split; [exact W'|]. split; [exact Hv|exact Hm].
Qed.

Lemma EO_step_ifaces u g : wf_graph g -> EO g (step_ifaces u g).
Proof.
  intros W. rewrite step_ifaces_ops.
  destruct (app_ops_spec (flat_map (iface_ops u (out_keys g)) (out_keys g)) W) as (W' & Hv & _ & Hm & _).
  split; [exact W'|]. split; [|exact Hm].
  intros k. unfold vtx. rewrite ghash_app_ops_noverts; [reflexivity|apply verts_iface].
Qed.

(* ---------- the stages of full_graph ---------- *)
Definition stage3 (f : fdecl) (b : builder) : rgraph :=
  fold_left (fun g c => func_graph g c true) (b_convs b)
    (fold_left (fun g kv => add_e (g_add_overwrite g (fst kv) PNone) (fst kv) KRoot w_normal)
               (input_vertices b) (func_graph g_root f false)).

Definition vals_of (b : builder) : amap vkey value :=
  fold_left (fun m kv => insert (fst kv) (snd kv) m) (input_vertices b) [].

Definition late_steps (u : universe) (b : builder) (rd : bool) (g6 : rgraph) : rgraph :=
  let g := step_arg_sub (step_named_sub (fun k => mem k (vals_of b)) (step_ifaces u g6)) in
  if rd then step_redefine u (b_fin b) g else g.

Definition conv_ops (cs : list fdecl) : list op := flat_map (fun c => fops c true) cs.
Definition S3 (f : fdecl) (b : builder) : list op :=
  fops f false ++ ins_ops (input_vertices b) ++ conv_ops (b_convs b).

Lemma stage3_ops f b : stage3 f b = app_ops (S3 f b) g_root.
Proof.
  unfold stage3, S3, conv_ops. rewrite !app_ops_app.
  rewrite <- func_graph_ops, <- inputs_ops.
  rewrite <- (app_ops_flat_map (fun c => fops c true)).
  apply fold_left_ext. intros a c. apply func_graph_ops.
Qed.

Lemma g_root_wf : wf_graph g_root.
Proof. unfold g_root. destruct (add_spec KRoot PNone (@wf_empty vkey _ vpay)) as (W & _ & _). exact W. Qed.

Lemma g_root_present_root : present g_root KRoot = true.
Proof.
  apply present_true. unfold g_root.
  destruct (add_spec KRoot PNone (@wf_empty vkey _ vpay)) as (_ & Hv & _). rewrite Hv. simpl. discriminate.
Qed.

Lemma wseq_conv_ops (P : vkey -> Prop) cs : P KRoot -> wseq P (conv_ops cs).
Proof.
  intros Pr. unfold conv_ops. apply wseq_flat_map. intros c Q _ PQ. apply wseq_fops. apply PQ. exact Pr.
Qed.

Lemma wseq_S3 (P : vkey -> Prop) f b : P KRoot -> wseq P (S3 f b).
Proof.
  intros Pr. unfold S3. apply wseq_app; [apply wseq_fops; exact Pr|].
  apply wseq_app; [apply wseq_ins_ops; left; exact Pr|].
  apply wseq_conv_ops. left. left. exact Pr.
Qed.

(* ---------- generators ---------- *)
Definition gacc := (rgraph * list fdecl * list event * option Z)%type.
Definition a_g (a : gacc) : rgraph := fst (fst (fst a)).
Definition a_convs (a : gacc) : list fdecl := snd (fst (fst a)).
Definition a_err (a : gacc) : option Z := snd a.

Definition gen_inner (k : vkey) (acc0 : gacc) (gn : gen) : gacc :=
  let '(g2, convs1, tr1, err0) := acc0 in
  match err0 with
  | Some _ => acc0
  | None =>
    let tr2 := tr1 ++ [EGen (gen_id gn) k] in
    match lookup k (gen_table gn) with
    | Some (GErr e) => (g2, convs1, tr2, Some e)
    | Some (GFunc f) => (func_graph g2 f true, convs1 ++ [f], tr2, None)
    | _ => (g2, convs1, tr2, None)
    end
  end.

Definition gen_outer (gens : list gen) (acc : gacc) (k : vkey) : gacc :=
  let '(g1, convs0, tr0, err) := acc in
  match err with
  | Some _ => acc
  | None => if value_of_vertex k then fold_left (gen_inner k) gens acc else acc
  end.

Lemma run_gens_eq g gens ks convs tr :
  run_gens g gens ks convs tr = fold_left (gen_outer gens) ks (g, convs, tr, None).
Proof. reflexivity. Qed.

Section Gens.
  Variable gens_all : list gen.
  Variable ks_all : list vkey.
  Variable g0 : rgraph.
  Variable convs0 : list fdecl.

  Definition from_gen (c : fdecl) : Prop :=
    exists k gn, In k ks_all /\ value_of_vertex k = true /\ In gn gens_all /\
                 lookup k (gen_table gn) = Some (GFunc c).

  Definition Sound (a : gacc) : Prop :=
    exists added, a_convs a = convs0 ++ added /\ a_g a = app_ops (conv_ops added) g0 /\
                  forall c, In c added -> from_gen c.

  Lemma gen_inner_spec k gn a :
    In k ks_all -> value_of_vertex k = true -> In gn gens_all -> Sound a ->
    Sound (gen_inner k a gn) /\ incl (a_convs a) (a_convs (gen_inner k a gn)) /\
    (a_err (gen_inner k a gn) = None ->
     a_err a = None /\
     forall c, lookup k (gen_table gn) = Some (GFunc c) -> In c (a_convs (gen_inner k a gn))).
  Proof.
    intros Ik Vk Ign So. destruct a as [[[g c] tr] e]. unfold gen_inner.
    destruct e as [e|].
    { split; [exact So|]. split; [apply incl_refl|]. intros C. discriminate C. }
    cbv zeta.
    destruct (lookup k (gen_table gn)) as [[|e|f]|] eqn:L.
    - split; [exact So|]. split; [apply incl_refl|]. intros _. split; [reflexivity|]. intros c0 C; discriminate C.
    - split; [exact So|]. split; [apply incl_refl|]. intros C. discriminate C.
    - split; [|split].
      + destruct So as (added & Ec & Eg & Fr). unfold a_convs, a_g in *. cbn [fst snd] in *.
        exists (added ++ [f]). split; [rewrite Ec, app_assoc; reflexivity|]. split.
        * unfold conv_ops. rewrite flat_map_app, app_ops_app. cbn [flat_map]. rewrite app_nil_r.
          fold (conv_ops added). rewrite <- Eg. apply func_graph_ops.
        * intros c0 I0. apply in_app_or in I0. destruct I0 as [I0|[<-|[]]]; [apply Fr; exact I0|].
          exists k, gn. auto.
      + unfold a_convs. cbn [fst snd]. intros x Ix. apply in_or_app. left. exact Ix.
      + intros _. split; [reflexivity|]. intros c0 C. inversion C; subst c0.
        unfold a_convs. cbn [fst snd]. apply in_or_app. right. left. reflexivity.
    - split; [exact So|]. split; [apply incl_refl|]. intros _. split; [reflexivity|]. intros c0 C; discriminate C.
  Qed.

  Lemma gen_inner_fold k : forall gl a,
    (forall gn, In gn gl -> In gn gens_all) -> In k ks_all -> value_of_vertex k = true -> Sound a ->
    Sound (fold_left (gen_inner k) gl a) /\ incl (a_convs a) (a_convs (fold_left (gen_inner k) gl a)) /\
    (a_err (fold_left (gen_inner k) gl a) = None ->
     a_err a = None /\
     forall gn c, In gn gl -> lookup k (gen_table gn) = Some (GFunc c) ->
                  In c (a_convs (fold_left (gen_inner k) gl a))).
  Proof.
    induction gl as [|gn gl IH]; intros a Sub Ik Vk So; cbn [fold_left].
    - split; [exact So|]. split; [apply incl_refl|]. intros E. split; [exact E|]. intros gn c [].
    - destruct (@gen_inner_spec k gn a Ik Vk (Sub gn (or_introl eq_refl)) So) as (So1 & Inc1 & C1).
      destruct (IH (gen_inner k a gn) (fun x I => Sub x (or_intror I)) Ik Vk So1) as (So2 & Inc2 & C2).
      split; [exact So2|]. split; [eapply incl_tran; eauto|].
      intros E. destruct (C2 E) as [E1 All2]. destruct (C1 E1) as [E0 All1].
      split; [exact E0|]. intros gn' c [<-|I'] L; [apply Inc2; apply All1; exact L|apply (All2 gn' c I' L)].
  Qed.

  Lemma gen_outer_spec k a :
    In k ks_all -> Sound a ->
    Sound (gen_outer gens_all a k) /\ incl (a_convs a) (a_convs (gen_outer gens_all a k)) /\
    (a_err (gen_outer gens_all a k) = None ->
     a_err a = None /\
     (value_of_vertex k = true -> forall gn c, In gn gens_all -> lookup k (gen_table gn) = Some (GFunc c) ->
                                  In c (a_convs (gen_outer gens_all a k)))).
  Proof.
    intros Ik So. destruct a as [[[g c] tr] e]. unfold gen_outer.
    destruct e as [e|].
    { split; [exact So|]. split; [apply incl_refl|]. intros C; discriminate C. }
    destruct (value_of_vertex k) eqn:Vk.
    - destruct (@gen_inner_fold k gens_all (g, c, tr, None) (fun x I => I) Ik Vk So) as (So2 & Inc2 & C2).
      split; [exact So2|]. split; [exact Inc2|]. intros E. destruct (C2 E) as [_ All].
      split; [reflexivity|]. intros _ gn c0 Ign L. apply (All gn c0 Ign L).
    - split; [exact So|]. split; [apply incl_refl|]. intros _. split; [reflexivity|]. intros C; discriminate C.
  Qed.

  Lemma gen_outer_fold : forall ks a,
    (forall k, In k ks -> In k ks_all) -> Sound a ->
    Sound (fold_left (gen_outer gens_all) ks a) /\
    incl (a_convs a) (a_convs (fold_left (gen_outer gens_all) ks a)) /\
    (a_err (fold_left (gen_outer gens_all) ks a) = None ->
     a_err a = None /\
     forall k gn c, In k ks -> value_of_vertex k = true -> In gn gens_all ->
                    lookup k (gen_table gn) = Some (GFunc c) ->
                    In c (a_convs (fold_left (gen_outer gens_all) ks a))).
  Proof.
    induction ks as [|k ks IH]; intros a Sub So; cbn [fold_left].
    - split; [exact So|]. split; [apply incl_refl|]. intros E. split; [exact E|]. intros k gn c [].
    - destruct (@gen_outer_spec k a (Sub k (or_introl eq_refl)) So) as (So1 & Inc1 & C1).
      destruct (IH (gen_outer gens_all a k) (fun x I => Sub x (or_intror I)) So1) as (So2 & Inc2 & C2).
      split; [exact So2|]. split; [eapply incl_tran; eauto|].
      intros E. destruct (C2 E) as [E1 All2]. destruct (C1 E1) as [E0 All1].
      split; [exact E0|]. intros k' gn c [<-|I'] Vk Ign L.
      + apply Inc2. apply (All1 Vk gn c Ign L).
      + apply (All2 k' gn c I' Vk Ign L).
  Qed.
End Gens.

Lemma run_gens_spec g0 gens ks convs0 g4 convs tr :
  run_gens g0 gens ks convs0 [] = (g4, convs, tr, None) ->
  (exists added, convs = convs0 ++ added /\ g4 = app_ops (conv_ops added) g0 /\
                 forall c, In c added -> from_gen gens ks c) /\
  (forall k gn c, In k ks -> value_of_vertex k = true -> In gn gens ->
                  lookup k (gen_table gn) = Some (GFunc c) -> In c convs).
Proof.
  rewrite run_gens_eq. intros Q.
  destruct (@gen_outer_fold gens ks g0 convs0 ks (g0, convs0, [], None) (fun k I => I)) as (So & _ & C).
  { exists []. unfold a_convs, a_g. cbn [fst snd]. rewrite app_nil_r. split; [reflexivity|].
    split; [reflexivity|intros c []]. }
  rewrite Q in So, C. unfold a_convs, a_g, a_err in *. cbn [fst snd] in *.
  split; [exact So|]. destruct (C eq_refl) as [_ All]. exact All.
Qed.

(* ---------- full_graph, unfolded ---------- *)
Lemma full_graph_inv u f b rd t fg tr :
  full_graph u f b rd t = Ok (inl fg, tr) ->
  exists ks t' g4 convs,
    (b_gens b = [] -> ks = []) /\
    (b_gens b <> [] -> forall x, In x ks <-> In x (g_vertex_keys (stage3 f b))) /\
    run_gens (stage3 f b) (b_gens b) ks (b_convs b) [] = (g4, convs, tr, None) /\
    fg = mkFG (late_steps u b rd (step_args (step_values g4))) (vals_of b) (KFunc (fn_type f))
              (g_out_keys (func_graph g_root f false) (KFunc (fn_type f)))
              (map fst (input_vertices b)) convs tr t'.
Proof.
  unfold full_graph. fold g_root. fold (stage3 f b). fold (vals_of b).
  destruct (match b_gens b with [] => Ok ([], t) | _ :: _ => take_perm SITE_GEN_VERTS (g_vertex_keys (stage3 f b)) t end)
    as [[ks t']| | |] eqn:TP; cbn [bind]; try discriminate.
  destruct (run_gens (stage3 f b) (b_gens b) ks (b_convs b) []) as [[[g4 convs] trg] gerr] eqn:RG.
  destruct gerr as [e|]; [discriminate|].
  intros Q. inversion Q; subst fg tr; clear Q.
  exists ks, t', g4, convs. split; [|split; [|split]].
  - intros E. rewrite E in TP. inversion TP. reflexivity.
  - intros N x. destruct (b_gens b) as [|gn gl]; [contradiction N; reflexivity|].
    apply (take_perm_In' _ _ _ TP).
  - exact RG.
  - unfold late_steps. destruct rd; reflexivity.
Qed.

(* C08RedefineVertex.v -- without any size bound, every vertex of the path
   returned by [plan] is a vertex of the call graph (re-export of the
   "light" Dijkstra facts of the C06 development under a name that does not
   drag the C06 restatement of [reach] into the C08 files). *)
From ArgMapper Require Import Base Graph GraphAlg GraphSpec Types Args Resolver.
From ArgMapper.proofs Require Import C06TotalLight.
From Coq Require Import List.
Import ListNotations.
Set Implicit Arguments.

Lemma plan_path_vertices (g : rgraph) (rd : bool) :
  wf_graph g -> vertex g KRoot ->
  forall cur s path bad s',
    vertex g cur -> plan g rd cur s = Ok (path, bad, s') ->
    forall v, In v path -> vertex g v.
Proof.
  intros W R cur s path bad s' Vc P.
  pose proof (@plan_light g rd W R false cur s Vc) as L.
  rewrite P in L. simpl in L. destruct L as (_ & _ & L). exact L.
Qed.

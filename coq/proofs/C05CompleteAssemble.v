(* C05CompleteAssemble.v -- from the facts about full_graph, closure and
   pruning to the hypotheses of the reach theorems, and from reach to call. *)
From ArgMapper Require Import Base Graph GraphAlg GraphSpec Types Args Resolver ResolverSpec
     CheckResolver Monitors ResolverStatements.
From ArgMapper.proofs Require Import C18DijkstraLemmas C19RefineMap C19RefineGraph C20aDfs
     C05CompleteDefs C05CompleteReachEq C05CompleteState C05CompletePlan C05CompleteReq
     C05CompleteWalk C05CompleteBody C05CompleteModes
     C05CompleteClosureBase C05CompleteClosure C05CompleteGraphBase C05CompleteGraphInv C05CompleteGraph.
From Coq Require Import Lia ZArith List String.
Import ListNotations.
Set Implicit Arguments.
Local Open Scope Z_scope.

(* ---------- wf_funcs in Prop form ---------- *)
Lemma wf_funcs_facts (L : list fdecl) : wf_funcs L = true ->
  (forall c, In c L -> wf_fn c = true) /\
  (forall c f, In c L -> In f L -> fn_type c = fn_type f ->
     sig_of (fn_in c) = sig_of (fn_in f) /\ sig_of (fn_out c) = sig_of (fn_out f)) /\
  (forall c f, In c L -> In f L -> fn_id c = fn_id f -> fn_type c = fn_type f).
Proof.
  unfold wf_funcs. rewrite !andb_true_iff. intros [[H1 H2] H3]. split; [|split].
  - intros c Ic. rewrite forallb_forall in H1. apply H1. exact Ic.
  - intros c f Ic If Et. rewrite forallb_forall in H2. specialize (H2 c Ic). rewrite forallb_forall in H2.
    specialize (H2 f If). rewrite Et, Z.eqb_refl in H2. unfold same_sig in H2. rewrite !andb_true_iff in H2.
    destruct H2 as [[A B] _]. split.
    + destruct (Base.eqb_spec (sig_of (fn_in c)) (sig_of (fn_in f))) as [E|N]; [exact E|discriminate A].
    + destruct (Base.eqb_spec (sig_of (fn_out c)) (sig_of (fn_out f))) as [E|N]; [exact E|discriminate B].
  - intros c f Ic If Ei. rewrite forallb_forall in H3. specialize (H3 c Ic). rewrite forallb_forall in H3.
    specialize (H3 f If). rewrite Ei, Z.eqb_refl in H3. rewrite andb_true_iff in H3. destruct H3 as [A _].
    apply Z.eqb_eq. exact A.
Qed.

Lemma sig_of_length fs gs : sig_of fs = sig_of gs -> List.length fs = List.length gs.
Proof. intros E. unfold sig_of in E. apply (f_equal (@List.length _)) in E. rewrite !map_length in E. exact E. Qed.

Lemma filter_nil_all {A} (p : A -> bool) (l : list A) : (forall x, In x l -> p x = false) -> filter p l = [].
Proof.
  induction l as [|a l IH]; intros H; [reflexivity|]. cbn [filter]. rewrite (H a (or_introl eq_refl)).
  apply IH. intros x Ix. apply H. right; exact Ix.
Qed.

Lemma walk_sub (g g' : rgraph) :
  (forall a b w, edge g' a b w -> edge g a b w) -> (forall k, vertex g' k -> vertex g k) ->
  forall a b p w, walk g' a b p w -> walk g a b p w.
Proof.
  intros HE HV a b p w W. induction W as [a Va|a b c p w1 w2 E W IH].
  - constructor. apply HV. exact Va.
  - econstructor; eauto.
Qed.

Lemma prune_unfold fg :
  prune fg =
  (let g' := prune_graph (fg_g fg) (keep_set (fg_g fg) (fg_target fg)) in
   match filter (fun k => negb (mem k (ghash g'))) (fg_freq fg) with
   | [] => inl (mkCG g' (fg_vals fg) (fg_target fg) (fg_inputs fg) (fg_convs fg) (fg_trace fg) (fg_tape fg))
   | x :: l => inr (XUnsat (x :: l) (fg_inputs fg) (map fn_type (fg_convs fg)) true)
   end).
Proof.
  unfold prune, keep_set, prune_graph. cbv zeta.
  destruct (filter _ (fg_freq fg)); reflexivity.
Qed.

Section Assemble.
  Variables (u : universe) (bh : behaviour) (f : fdecl) (d opts : list arg) (b : builder)
            (t : tape vkey) (fg : fgraph) (tr : list event).
  Hypothesis BA : build_args d opts = Some b.
  Hypothesis WFC : wf_call u f b = true.
  Hypothesis FULL : full_graph u f b false t = Ok (inl fg, tr).
  Hypothesis UT : univ_trans u = true.
  Hypothesis SM : small_graph fg = true.
  Hypothesis TDER : target_derivable fg [] = true.
  (* edges into a function vertex come from a converter of that type *)
  Hypothesis INCONV : forall a ft w, edge (fg_g fg) a (KFunc ft) w ->
      exists c fld, In c (fg_convs fg) /\ fn_type c = ft /\ In fld (fn_out c) /\ a = field_out_key fld.

  Let g := fg_g fg.
  Let tt := fn_type f.
  Let T := KFunc tt.
  Let F := f :: fg_convs fg.
  Let keep := keep_set g T.
  Let g' := prune_graph g keep.

  (* ---------- the full graph ---------- *)
  Lemma FGC : full_graph_concl u f b fg tr.
  Proof. eapply full_graph_alt_proof; eauto. Qed.

  Lemma Wg : wf_graph g. Proof. exact (proj1 FGC). Qed.
  Lemma Rootg : vertex g KRoot. Proof. destruct FGC as (_ & A & _). exact A. Qed.
  Lemma Tgt : fg_target fg = T. Proof. destruct FGC as (_ & _ & A & _). exact A. Qed.
  Lemma PayT : g_vertex g T = Some (PFunc f). Proof. destruct FGC as (_ & _ & _ & A & _). exact A. Qed.
  Lemma EIg : forall a b0 w, edge g a b0 w -> edge_inv u F (fg_vals fg) a b0 w.
  Proof. destruct FGC as (_ & _ & _ & _ & A & _). exact A. Qed.
  Lemma VIg : forall k pay, g_vertex g k = Some pay -> vert_inv F k pay.
  Proof. destruct FGC as (_ & _ & _ & _ & _ & A & _). exact A. Qed.
  Lemma Freq : forall r, In r (fg_freq fg) <-> exists w, edge g T r w.
  Proof. destruct FGC as (_ & _ & _ & _ & _ & _ & A & _). exact A. Qed.
  Lemma HasF : forall c, In c F ->
     vertex g (KFunc (fn_type c)) /\
     (forall fld, In fld (fn_in c) -> exists w, edge g (KFunc (fn_type c)) (field_key fld) w) /\
     (fn_in c = [] -> exists w, edge g (KFunc (fn_type c)) KRoot w).
  Proof. destruct FGC as (_ & _ & _ & _ & _ & _ & _ & A & _). exact A. Qed.
  Lemma Known : forall c, In c (fg_convs fg) -> In c (known_funcs f b).
  Proof. destruct FGC as (_ & _ & _ & _ & _ & _ & _ & _ & A & _). exact A. Qed.
  Lemma ValsT : forall k v, lookup k (fg_vals fg) = Some v ->
     match k with KVal _ t0 _ | KOut t0 _ => t0 = v_ty v | _ => False end.
  Proof. destruct FGC as (_ & _ & _ & _ & _ & _ & _ & _ & _ & A & _). exact A. Qed.
  Lemma Trace : fg_trace fg = tr.
  Proof. destruct FGC as (_ & _ & _ & _ & _ & _ & _ & _ & _ & _ & A). exact A. Qed.

  Lemma F_known : forall c, In c F -> In c (known_funcs f b).
  Proof. intros c [<-|Ic]; [left; reflexivity|apply Known; exact Ic]. Qed.

  Lemma WFK : wf_funcs (known_funcs f b) = true.
  Proof. unfold wf_call in WFC. rewrite !andb_true_iff in WFC. apply WFC. Qed.

  Lemma SAMESIG : forall f1 f2, In f1 F -> In f2 F -> fn_type f1 = fn_type f2 ->
      sig_of (fn_in f1) = sig_of (fn_in f2) /\ sig_of (fn_out f1) = sig_of (fn_out f2).
  Proof. intros f1 f2 I1 I2. apply (proj1 (proj2 (@wf_funcs_facts _ WFK))); apply F_known; assumption. Qed.
  Lemma SAMEID : forall f1 f2, In f1 F -> In f2 F -> fn_id f1 = fn_id f2 -> fn_type f1 = fn_type f2.
  Proof. intros f1 f2 I1 I2. apply (proj2 (proj2 (@wf_funcs_facts _ WFK))); apply F_known; assumption. Qed.
  Lemma WFFN : forall c, In c F -> wf_fn c = true.
  Proof. intros c Ic. apply (proj1 (@wf_funcs_facts _ WFK)). apply F_known; exact Ic. Qed.

  Lemma funcs_out : funcs_have_out g.
  Proof.
    intros ft V. apply (proj1 (in_keys_lookup _ _)) in V. destruct V as [pay Q].
    destruct (@VIg _ _ Q) as (c & _ & Et & Ic). destruct (@HasF c Ic) as (_ & A & B). rewrite Et in *.
    destruct (fn_in c) as [|fld l] eqn:En.
    - destruct (B eq_refl) as [w E]. eauto.
    - destruct (A fld (or_introl eq_refl)) as [w E]. eauto.
  Qed.

  (* ---------- closure and pruning ---------- *)
  Lemma CL : In KRoot keep /\
    (forall k, In k keep -> vertex g k) /\
    (forall a b0 w, In b0 keep -> b0 <> T -> edge g a b0 w -> In a keep) /\
    (forall k, In k keep ->
       exists p w, walk g k KRoot p w /\ (forall x, In x p -> In x keep) /\
                   (forall x, In x (tl p) -> x <> T)).
  Proof. exact (@closure_proof g T Wg Rootg). Qed.

  Lemma PR : wf_graph g' /\
    (forall k, g_vertex g' k = if memb k keep then g_vertex g k else None) /\
    (forall a b0 w, edge g' a b0 w <-> (edge g a b0 w /\ In a keep /\ In b0 keep)).
  Proof. exact (@prune_proof g keep Wg). Qed.

  Lemma Wg' : wf_graph g'. Proof. exact (proj1 PR). Qed.

  Lemma vertex_g' k : vertex g' k <-> In k keep.
  Proof.
    rewrite (@vertex_gv g' k). destruct PR as (_ & PV & _). rewrite PV. split.
    - intros [p Q]. destruct (memb k keep) eqn:M; [apply memb_In; exact M|discriminate Q].
    - intros Ik. assert (M : memb k keep = true) by (apply memb_In; exact Ik). rewrite M.
      apply (@vertex_gv g k). apply (proj1 (proj2 CL)). exact Ik.
  Qed.

  Lemma Rootg' : vertex g' KRoot. Proof. apply vertex_g'. exact (proj1 CL). Qed.

  Lemma edge_g'_g a b0 w : edge g' a b0 w -> edge g a b0 w.
  Proof. intros Q. apply (proj2 (proj2 PR)) in Q. exact (proj1 Q). Qed.

  Lemma EIg' : forall a b0 w, edge g' a b0 w -> edge_inv u F (fg_vals fg) a b0 w.
  Proof. intros a b0 w Q. apply EIg. apply edge_g'_g. exact Q. Qed.

  Lemma gv_g' k pay : g_vertex g' k = Some pay -> g_vertex g k = Some pay.
  Proof. destruct PR as (_ & PV & _). rewrite PV. destruct (memb k keep); [auto|discriminate]. Qed.

  Lemma VIg' : forall k pay, g_vertex g' k = Some pay -> vert_inv F k pay.
  Proof. intros k pay Q. apply VIg. apply gv_g'. exact Q. Qed.

  Lemma vertex_g'_g k : vertex g' k -> vertex g k.
  Proof. intros V. apply vertex_g' in V. exact (proj1 (proj2 CL) _ V). Qed.

  Lemma SMALLg' : 20 * (Z.of_nat (List.length (g_vertex_keys g')) + 1) < INF.
  Proof.
    unfold small_graph in SM. apply Z.ltb_lt in SM. fold g in SM.
    assert (Le : (List.length (g_vertex_keys g') <= List.length (g_vertex_keys g))%nat).
    { apply NoDup_incl_length; [exact (wf_hash_nodup Wg')|]. intros k V. apply vertex_g'_g. exact V. }
    lia.
  Qed.

  Lemma RRg' : forall k, vertex g' k -> GraphSpec.reach g' k KRoot.
  Proof.
    intros k V. apply vertex_g' in V. destruct (proj2 (proj2 (proj2 CL)) _ V) as (p & w & W & IK & _).
    exists p, w. clear V. induction W as [a Va|a b0 c p w1 w2 E W IH].
    - constructor. apply vertex_g'. apply IK. left; reflexivity.
    - econstructor.
      + apply (proj2 (proj2 PR)). split; [exact E|]. split; [apply IK; left; reflexivity|].
        apply IK. right. destruct W; left; reflexivity.
      + apply IH. intros x Ix. apply IK. right; exact Ix.
  Qed.

  (* ---------- the target's requirements are kept ---------- *)
  Lemma freq_derivable : forall r w, edge g T r w -> In r (derivable_set g []).
  Proof.
    intros r w E. unfold target_derivable in TDER. rewrite forallb_forall in TDER.
    apply memb_In. apply TDER. apply Freq. eauto.
  Qed.

  Lemma freq_keep : forall r w, edge g T r w -> In r keep.
  Proof.
    destruct (@derive_keep_alt_proof g T Wg Rootg funcs_out (ex_intro _ tt eq_refl)) as [_ K2].
    apply K2. exact freq_derivable.
  Qed.

  Lemma T_vertex_g : vertex g T.
  Proof. apply (@vertex_gv g T). exists (PFunc f). exact PayT. Qed.

  Lemma T_keep : In T keep.
  Proof.
    destruct (@funcs_out tt T_vertex_g) as (r & w & E).
    apply (proj1 (proj2 (proj2 CL)) T r w); [eapply freq_keep; eauto| |exact E].
    pose proof (@EIg _ _ _ E) as (_ & K). intros ->. contradiction K.
  Qed.

  Lemma PayT' : g_vertex g' T = Some (PFunc f).
  Proof.
    destruct PR as (_ & PV & _). rewrite PV.
    assert (M : memb T keep = true) by (apply memb_In; exact T_keep). rewrite M. exact PayT.
  Qed.

  Lemma prune_ok :
    prune fg = inl (mkCG g' (fg_vals fg) T (fg_inputs fg) (fg_convs fg) tr (fg_tape fg)).
  Proof.
    rewrite prune_unfold. cbv zeta. rewrite Tgt. fold g. fold keep. fold g'.
    rewrite filter_nil_all; [rewrite Trace; reflexivity|].
    intros k Ik. apply Freq in Ik. destruct Ik as [w E].
    assert (V : vertex g' k) by (apply vertex_g'; eapply freq_keep; eauto).
    apply (@vertex_gv g' k) in V. destruct V as [p Q]. unfold g_vertex in Q. unfold mem. rewrite Q. reflexivity.
  Qed.

  Lemma complete_T : complete_v g' T.
  Proof.
    intros f0 P fld Ifld. rewrite PayT' in P. inversion P; subst f0.
    destruct (@HasF f (or_introl eq_refl)) as (_ & A & _). destruct (A fld Ifld) as [w E].
    exists w. apply (proj2 (proj2 PR)). split; [exact E|]. split; [exact T_keep|]. eapply freq_keep; eauto.
  Qed.

  (* ---------- the initial state ---------- *)
  Let cg := mkCG g' (fg_vals fg) T (fg_inputs fg) (fg_convs fg) tr (fg_tape fg).

  Lemma Inv0 : Inv u bh F (fg_vals fg) (init_state cg world0).
  Proof.
    constructor; cbn [init_state s_vals s_world cg_vals cg world0 w_once].
    - intros k x L. pose proof (@ValsT _ _ L) as K. unfold val_ok.
      destruct k; try contradiction K; cbn [key_ty]; subst; apply assignable_refl.
    - intros k M. unfold mem in M. destruct (lookup k (fg_vals fg)); [discriminate|discriminate M].
    - intros fid r L. discriminate L.
  Qed.

  (* ---------- mode (a) ---------- *)
  Section A.
    Hypothesis SINGLEC : single_input_convs fg = true.

    Lemma conv_single c : In c (fg_convs fg) -> (List.length (fn_in c) <= 1)%nat.
    Proof.
      intros Ic. unfold single_input_convs in SINGLEC. rewrite forallb_forall in SINGLEC.
      apply Nat.leb_le. apply SINGLEC. exact Ic.
    Qed.

    Lemma SINGLE' : forall ft f0, g_vertex g' (KFunc ft) = Some (PFunc f0) -> ft <> tt ->
                                  (List.length (fn_in f0) <= 1)%nat.
    Proof.
      intros ft f0 P N. destruct (@VIg' _ _ P) as (c & E & Et & Ic). inversion E; subst c.
      destruct Ic as [<-|Ic]; [contradiction N; symmetry; exact Et|]. apply conv_single. exact Ic.
    Qed.

    Lemma TSINGLE' : forall f0 a w, g_vertex g' (KFunc tt) = Some (PFunc f0) -> edge g' a (KFunc tt) w ->
                                    (List.length (fn_in f0) <= 1)%nat.
    Proof.
      intros f0 a w P E. fold T in P. rewrite PayT' in P. inversion P; subst f0.
      destruct (@INCONV _ _ _ (@edge_g'_g _ _ _ E)) as (c & fld & Ic & Et & _).
      destruct (@SAMESIG c f (or_intror Ic) (or_introl eq_refl) Et) as [Si _].
      rewrite <- (@sig_of_length _ _ Si). apply conv_single. exact Ic.
    Qed.

    Lemma reach_mode_a :
      good_rec u bh g' F (fg_vals fg) T (init_state cg world0)
               (reach u bh g' false (fuel_of cg) T (init_state cg world0)).
    Proof.
      unfold fuel_of. cbn [cg_g cg].
      assert (L : exists n, List.length (g_vertex_keys g') = S n).
      { pose proof Rootg' as R. unfold vertex in R. change (keys (ghash g')) with (g_vertex_keys g') in R.
        destruct (g_vertex_keys g') as [|x l] eqn:El; [destruct R|exists (List.length l); reflexivity]. }
      destruct L as [n ->].
      apply (@reach_a u bh g' F (fg_vals fg) Wg' Rootg' EIg' VIg' UT SAMESIG SAMEID WFFN SMALLg' RRg'
                      tt SINGLE' TSINGLE' n (init_state cg world0)).
      - apply vertex_g'. exact T_keep.
      - exact Inv0.
      - reflexivity.
    Qed.
  End A.

  (* ---------- mode (b) ---------- *)
  Section B.
    Hypothesis NOCYC : conv_cyclic fg = false.
    Hypothesis SAT : convs_satisfiable fg [] = true.

    Lemma no_cycle_g ft : vertex g (KFunc ft) -> ~ reach1 g (KFunc ft) (KFunc ft).
    Proof.
      intros V. apply (@cyclic_proof g (KFunc ft) Wg V).
      unfold conv_cyclic in NOCYC. fold g in NOCYC.
      apply not_true_is_false. intros C. assert (X : existsb
        (fun k => match k with KFunc _ => func_on_cycle g k | _ => false end) (g_vertex_keys g) = true).
      { apply existsb_exists. exists (KFunc ft). split; [exact V|exact C]. }
      rewrite X in NOCYC. discriminate NOCYC.
    Qed.

    Lemma reach1_g'_g a c : reach1 g' a c -> reach1 g a c.
    Proof.
      intros (x & w & p & w' & E & W). exists x, w, p, w'. split; [apply edge_g'_g; exact E|].
      eapply walk_sub; [| |exact W]; [apply edge_g'_g|apply vertex_g'_g].
    Qed.

    Lemma reach_g'_g a c : GraphSpec.reach g' a c -> GraphSpec.reach g a c.
    Proof.
      intros (p & w & W). exists p, w. eapply walk_sub; [| |exact W]; [apply edge_g'_g|apply vertex_g'_g].
    Qed.

    Lemma ACYC' : forall ft, vertex g' (KFunc ft) -> ~ reach1 g' (KFunc ft) (KFunc ft).
    Proof. intros ft V R. apply (@no_cycle_g ft (@vertex_g'_g _ V)). apply reach1_g'_g. exact R. Qed.

    (* a derivable function vertex has derivable requirements *)
    Lemma func_derivable_reqs ft r w :
      In (KFunc ft) (derivable_set g []) -> edge g (KFunc ft) r w -> In r (derivable_set g []).
    Proof.
      intros D E. destruct (@derive_sound_proof g Wg _ D) as [X|(V & D' & Inc & St)]; [discriminate X|].
      cbn [derivable_step] in St. apply orb_true_iff in St. destruct St as [St|St].
      - rewrite forallb_forall in St. apply Inc. apply memb_In. apply St.
        apply (@out_keys_edge g (KFunc ft) r). eauto.
      - destruct (g_vertex g (KFunc ft)) as [[|f0]|]; try discriminate St.
        rewrite andb_true_iff in St. destruct St as [_ St]. discriminate St.
    Qed.

    Lemma COMP' : forall v, is_fn v = true -> GraphSpec.reach g' T v -> complete_v g' v.
    Proof.
      intros v Fv RT f0 P fld Ifld. destruct (@is_fn_inv _ Fv) as [ft ->].
      destruct (@VIg' _ _ P) as (c & E & Et & Ic). inversion E; subst c.
      destruct (@HasF f0 Ic) as (Vv & A & _). rewrite Et in *.
      destruct (A fld Ifld) as [w Eq]. exists w.
      assert (Vk : In (KFunc ft) keep).
      { apply vertex_g'. apply (@vertex_gv g' (KFunc ft)). eauto. }
      apply (proj2 (proj2 PR)). split; [exact Eq|]. split; [exact Vk|].
      (* the requirement is derivable and does not depend on the target *)
      destruct (@derive_keep_alt_proof g T Wg Rootg funcs_out (ex_intro _ tt eq_refl)) as [K1 _].
      apply K1.
      - destruct Ic as [Ef|Ic].
        + (* the target itself *)
          subst f0. rewrite <- Et in Eq. eapply freq_derivable. exact Eq.
        + eapply func_derivable_reqs; [|exact Eq].
          unfold convs_satisfiable in SAT. rewrite forallb_forall in SAT. apply memb_In.
          rewrite <- Et. apply SAT. exact Ic.
      - intros Rq. apply (@no_cycle_g ft Vv).
        eapply reach1_of; [exact Eq|]. eapply reach_trans; [exact Rq|]. apply reach_g'_g. exact RT.
    Qed.

    Lemma reach_mode_b :
      good_rec u bh g' F (fg_vals fg) T (init_state cg world0)
               (reach u bh g' false (fuel_of cg) T (init_state cg world0)).
    Proof.
      unfold fuel_of. cbn [cg_g cg].
      apply (@reach_b u bh g' F (fg_vals fg) Wg' Rootg' EIg' VIg' UT SAMESIG SAMEID WFFN SMALLg' RRg'
                      T ACYC' COMP' (S (List.length (g_vertex_keys g'))) tt (init_state cg world0)).
      - apply vertex_g'. exact T_keep.
      - apply reach_refl_v. apply vertex_g'. exact T_keep.
      - exact Inv0.
      - constructor.
      - intros w [].
      - cbn [init_state s_inprog List.length]. lia.
    Qed.
  End B.

  (* ---------- from reach to call ---------- *)
  Lemma call_unfold :
    call u bh f d opts world0 t =
    (do (s, r) <- reach u bh g' false (fuel_of cg) T (init_state cg world0);
     match r with
     | inr e => Ok (mkRun (OErr e) (s_trace s) (mkW (s_world s) (s_nexec s)) (s_tape s) (s_inputs s))
     | inl am =>
         do (res, s) <- call_direct u bh false f am s;
         Ok (mkRun (if r_builderr res then OErr XMissing else OOk res)
                   (s_trace s) (mkW (s_world s) (s_nexec s)) (s_tape s) (s_inputs s))
     end).
  Proof.
    unfold call. rewrite BA. unfold call_graph. rewrite FULL. cbn [bind]. rewrite prune_ok. reflexivity.
  Qed.

  Lemma call_of_reach :
    good_rec u bh g' F (fg_vals fg) T (init_state cg world0)
             (reach u bh g' false (fuel_of cg) T (init_state cg world0)) ->
    ((exists r, call u bh f d opts world0 t = Ok r /\ c05_ok fg [] (co_of_run r) = true) \/
     (exists s, call u bh f d opts world0 t = TapeErr s)) /\
    (no_failures bh -> forall r, call u bh f d opts world0 t = Ok r -> co_ok (co_of_run r) = true).
  Proof.
    intros G. rewrite call_unfold.
    destruct G as [[site Q]|[(s1 & e & Q & I1 & _ & (fid & n & B))|(s1 & am & Q & I1 & _ & AM)]]; rewrite Q; cbn [bind].
    - split; [right; exists site; reflexivity|]. intros _ r X. discriminate X.
    - split.
      + left. eexists. split; [reflexivity|]. unfold c05_ok, co_of_run. cbn [run_out].
        destruct (c05_premise fg []); [|reflexivity].
        cbn [co_panic co_ok co_err negb andb orb]. rewrite orb_true_r. reflexivity.
      + intros NF. exfalso. specialize (NF fid n). rewrite B in NF. exact NF.
    - assert (AMf : am_ok u f am).
      { eapply (@am_ok_of_v u g' tt f am); [exact PayT'|exact complete_T|exact AM]. }
      destruct (@call_direct_ok u bh F (fg_vals fg) SAMESIG SAMEID f am s1 (or_introl eq_refl) I1 AMf)
        as (res & s2 & Q2 & (R1 & R2 & R3) & _).
      rewrite Q2. cbn [bind]. rewrite R1. split.
      + left. eexists. split; [reflexivity|]. unfold c05_ok, co_of_run. cbn [run_out].
        destruct (c05_premise fg []); [|reflexivity].
        destruct (r_err res); cbn [co_panic co_ok co_err negb andb orb]; rewrite ?orb_true_r; reflexivity.
      + intros NF r X. inversion X; subst r. unfold co_of_run. cbn [run_out co_ok].
        destruct (r_err res) as [e|] eqn:Er; [|reflexivity].
        exfalso. destruct (R3 e eq_refl) as (fid & n & B). specialize (NF fid n). rewrite B in NF. exact NF.
  Qed.
End Assemble.

(* C0213UnsatGraph.v -- functional view of the graph store (vertex and edge
   lookup functions) and the effect of every mutator on it; generic list
   helpers (dedup, fold_left). Helper file of C0213Unsat.v. *)
From ArgMapper Require Import Base Graph GraphAlg GraphHist GraphSpec GraphStatements.
From ArgMapper.proofs Require Import C19RefineMap C19RefineGraph.
From Coq Require Import List Lia ZArith.
Import ListNotations.
Set Implicit Arguments.

Section Gen.
  Context {K : Type} {E : EqDec K} {V : Type}.
  Notation graph := (graph K V).

  (* ---------- list helpers ---------- *)
  Lemma membT (x : K) (l : list K) : memb x l = true <-> In x l.
  Proof. apply memb_in. Qed.

  Lemma membF (x : K) (l : list K) : memb x l = false <-> ~ In x l.
  Proof.
    rewrite <- membT. destruct (memb x l); split; intros A.
    - discriminate.
    - exfalso; apply A; reflexivity.
    - discriminate.
    - reflexivity.
  Qed.

  Lemma in_dedup (x : K) (l : list K) : In x (dedup l) <-> In x l.
  Proof.
    induction l as [|y l IH]; simpl; [tauto|].
    destruct (memb y l) eqn:M.
    - rewrite IH. apply membT in M. split; [auto|]. intros [->|A]; auto.
    - simpl. rewrite IH. tauto.
  Qed.

  Lemma nodup_dedup (l : list K) : NoDup (dedup l).
  Proof.
    induction l as [|y l IH]; simpl; [constructor|].
    destruct (memb y l) eqn:M; [exact IH|].
    constructor; [|exact IH]. rewrite in_dedup. apply membF. exact M.
  Qed.

  Lemma nodup_filter {A} (p : A -> bool) (l : list A) : NoDup l -> NoDup (filter p l).
  Proof.
    induction 1 as [|x l NI ND IH]; simpl; [constructor|].
    destruct (p x); [|exact IH]. constructor; [|exact IH].
    intros I. apply filter_In in I. destruct I as [I _]. contradiction.
  Qed.

  Lemma nodup_app {A} (l1 l2 : list A) :
    NoDup l1 -> NoDup l2 -> (forall x, In x l1 -> In x l2 -> False) -> NoDup (l1 ++ l2).
  Proof.
    induction 1 as [|x l NI ND IH]; simpl; intros N2 D; [exact N2|].
    constructor.
    - rewrite in_app_iff. intros [I|I]; [contradiction|]. apply (D x); [left; reflexivity|exact I].
    - apply IH; [exact N2|]. intros y I1 I2. apply (D y); [right; exact I1|exact I2].
  Qed.

  Lemma seteqb_refl (l : list K) : seteqb l l = true.
  Proof.
    unfold seteqb. assert (S : subsetb l l = true).
    { unfold subsetb. apply forallb_forall. intros x I. apply membT. exact I. }
    rewrite S. reflexivity.
  Qed.

  (* ---------- fold_left ---------- *)
  Lemma fold_left_inv {A B} (P : A -> Prop) (F : A -> B -> A) (l : list B) (a : A) :
    P a -> (forall a x, P a -> In x l -> P (F a x)) -> P (fold_left F l a).
  Proof.
    revert a; induction l as [|y l IH]; intros a Pa St; simpl; [exact Pa|].
    apply IH.
    - apply St; auto. left; reflexivity.
    - intros a' x Pa' I. apply St; auto. right; exact I.
  Qed.

  (* a fold that establishes Q x for every element x and never destroys it *)
  Lemma fold_left_establish {A B} (P : A -> Prop) (Q : B -> A -> Prop) (F : A -> B -> A)
        (l : list B) (a : A) :
    P a ->
    (forall a x, P a -> P (F a x)) ->
    (forall a x, P a -> Q x (F a x)) ->
    (forall a x y, P a -> Q y a -> Q y (F a x)) ->
    forall y, In y l -> Q y (fold_left F l a).
  Proof.
    intros Pa Pp Est Pres. revert a Pa.
    induction l as [|x l IH]; intros a Pa y I; simpl; [destruct I|].
    destruct I as [->|I].
    - assert (G : forall l' a', P a' -> Q y a' -> Q y (fold_left F l' a')).
      { induction l' as [|z l' IH']; intros a' Pa' Qa'; simpl; [exact Qa'|].
        apply IH'; [apply Pp; exact Pa'|apply Pres; assumption]. }
      apply G; [apply Pp; exact Pa|apply Est; exact Pa].
    - apply IH; [apply Pp; exact Pa|exact I].
  Qed.

  (* ---------- the functional view ---------- *)
  Definition vtx (g : graph) (k : K) : option V := lookup k (ghash g).
  Definition ew (g : graph) (a b : K) : option Z := lookup b (inner (gout g) a).

  Lemma wf_gspec (g : graph) : wf_graph g -> gspec g (vtx g) (ew g).
  Proof.
    intros W. split; [reflexivity|]. split; [reflexivity|]. split; [|exact W].
    intros a b. unfold ew.
    destruct (lookup b (inner (gout g) a)) as [w|] eqn:Q.
    - apply (wf_mirror W). exact Q.
    - destruct (lookup a (inner (gin g) b)) as [w|] eqn:Q'; [|reflexivity].
      apply (wf_mirror W) in Q'. congruence.
  Qed.

  Lemma gspec_vtx (g : graph) fv fe : gspec g fv fe -> forall k, vtx g k = fv k.
  Proof. intros (Hv & _). exact Hv. Qed.
  Lemma gspec_ew (g : graph) fv fe : gspec g fv fe -> forall a b, ew g a b = fe a b.
  Proof. intros (_ & Ho & _). exact Ho. Qed.
  Lemma gspec_wf (g : graph) fv fe : gspec g fv fe -> wf_graph g.
  Proof. intros (_ & _ & _ & W). exact W. Qed.

  Lemma in_out_keys (g : graph) (a b : K) : In b (g_out_keys g a) <-> ew g a b <> None.
  Proof.
    unfold g_out_keys, ew. rewrite in_keys_lookup.
    destruct (lookup b (inner (gout g) a)) as [w|]; split; try congruence; eauto.
    intros [w Q]; discriminate.
  Qed.

  Lemma in_in_keys (g : graph) (a b : K) : wf_graph g -> (In a (g_in_keys g b) <-> ew g a b <> None).
  Proof.
    intros W. unfold g_in_keys, ew. rewrite in_keys_lookup. split.
    - intros [w Q]. apply (wf_mirror W) in Q. congruence.
    - intros N. destruct (lookup b (inner (gout g) a)) as [w|] eqn:Q; [|congruence].
      apply (wf_mirror W) in Q. eauto.
  Qed.

  Lemma in_vertex_keys (g : graph) (k : K) : In k (g_vertex_keys g) <-> vtx g k <> None.
  Proof.
    unfold g_vertex_keys, vtx. rewrite in_keys_lookup.
    destruct (lookup k (ghash g)) as [w|]; split; try congruence; eauto.
    intros [w Q]; discriminate.
  Qed.

  Lemma mem_vtx (g : graph) (k : K) : mem k (ghash g) = true <-> vtx g k <> None.
  Proof. rewrite mem_true. apply in_vertex_keys. Qed.

  Lemma ew_closed (g : graph) (a b : K) :
    wf_graph g -> ew g a b <> None -> vtx g a <> None /\ vtx g b <> None.
  Proof.
    intros W N. unfold ew in N. destruct (lookup b (inner (gout g) a)) as [w|] eqn:Q; [|congruence].
    apply (wf_closed W) in Q. destruct Q as [Qa Qb].
    split; apply in_vertex_keys; assumption.
  Qed.

  (* ---------- mutators ---------- *)
  Lemma add_spec (g : graph) (k : K) (v : V) :
    wf_graph g ->
    wf_graph (g_add g k v) /\
    (forall k', vtx (g_add g k v) k' =
                match vtx g k with Some _ => vtx g k' | None => if eqb k' k then Some v else vtx g k' end) /\
    (forall a b, ew (g_add g k v) a b = ew g a b).
  Proof.
    intros W. pose proof (gspec_add k v (wf_gspec W)) as G.
    split; [exact (gspec_wf G)|]. split.
    - intros k'. rewrite (gspec_vtx G). destruct (vtx g k); reflexivity.
    - intros a b. apply (gspec_ew G).
  Qed.

  Lemma overwrite_spec (g : graph) (k : K) (v : V) :
    wf_graph g ->
    wf_graph (g_add_overwrite g k v) /\
    (forall k', vtx (g_add_overwrite g k v) k' = if eqb k' k then Some v else vtx g k') /\
    (forall a b, ew (g_add_overwrite g k v) a b = ew g a b).
  Proof.
    intros W. pose proof (gspec_overwrite k v (wf_gspec W)) as G.
    split; [exact (gspec_wf G)|]. split.
    - intros k'. rewrite (gspec_vtx G). reflexivity.
    - intros a b. apply (gspec_ew G).
  Qed.

  Lemma add_edge_spec (g : graph) (a b : K) (w : Z) :
    wf_graph g ->
    exists g', g_add_edge g a b w = Some g' /\ wf_graph g' /\
      (forall k, vtx g' k = vtx g k) /\
      (forall a' b', ew g' a' b' =
         match vtx g a, vtx g b with
         | Some _, Some _ => if eqb a' a && eqb b' b then Some w else ew g a' b'
         | _, _ => ew g a' b'
         end).
  Proof.
    intros W. destruct (gspec_add_edge a b w (wf_gspec W)) as (g' & Q & G).
    exists g'. split; [exact Q|]. split; [exact (gspec_wf G)|]. split.
    - apply (gspec_vtx G).
    - intros a' b'. rewrite (gspec_ew G). destruct (vtx g a); [|reflexivity].
      destruct (vtx g b); reflexivity.
  Qed.

  Lemma remove_spec (g : graph) (k : K) :
    wf_graph g ->
    wf_graph (g_remove g k) /\
    (forall k', vtx (g_remove g k) k' = if eqb k' k then None else vtx g k') /\
    (forall a b, ew (g_remove g k) a b = if eqb a k || eqb b k then None else ew g a b).
  Proof.
    intros W. pose proof (gspec_remove k (wf_gspec W)) as G.
    split; [exact (gspec_wf G)|]. split.
    - intros k'. rewrite (gspec_vtx G). reflexivity.
    - intros a b. apply (gspec_ew G).
  Qed.

  Lemma reverse_spec (g : graph) :
    wf_graph g ->
    wf_graph (g_reverse g) /\ (forall k, vtx (g_reverse g) k = vtx g k) /\
    (forall a b, ew (g_reverse g) a b = ew g b a).
  Proof.
    intros W. pose proof (gspec_reverse (wf_gspec W)) as G.
    split; [exact (gspec_wf G)|]. split.
    - apply (gspec_vtx G).
    - intros a b. apply (gspec_ew G).
  Qed.

  (* ---------- removing a set of vertices ---------- *)
  Definition removed (keep l : list K) (k : K) : bool := memb k l && negb (memb k keep).

  Lemma remove_fold_spec (keep : list K) (l : list K) (g : graph) :
    wf_graph g ->
    let g' := fold_left (fun g k => if memb k keep then g else g_remove g k) l g in
    wf_graph g' /\
    (forall k, vtx g' k = if removed keep l k then None else vtx g k) /\
    (forall a b, ew g' a b = if removed keep l a || removed keep l b then None else ew g a b).
  Proof.
    revert g. induction l as [|x l IH]; intros g W; simpl.
    - split; [exact W|]. split; reflexivity.
    - destruct (memb x keep) eqn:M.
      + destruct (IH g W) as (W' & Hv & He). split; [exact W'|]. split.
        * intros k. rewrite Hv. unfold removed. simpl.
          destruct (eqb_spec k x) as [->|N]; simpl; [|reflexivity].
          rewrite M. simpl. rewrite andb_false_r. destruct (memb x l); reflexivity.
        * intros a b. rewrite He. unfold removed. simpl.
          assert (R : forall c, (eqb c x || memb c l) && negb (memb c keep) = memb c l && negb (memb c keep)).
          { intros c. destruct (eqb_spec c x) as [->|N]; simpl; [|reflexivity].
            rewrite M. simpl. rewrite !andb_false_r. reflexivity. }
          rewrite !R. reflexivity.
      + destruct (remove_spec x W) as (W1 & Hv1 & He1).
        destruct (IH _ W1) as (W' & Hv & He). split; [exact W'|]. split.
        * intros k. rewrite Hv, Hv1. unfold removed. simpl.
          destruct (eqb_spec k x) as [->|N]; simpl.
          -- rewrite M. simpl. destruct (memb x l); reflexivity.
          -- reflexivity.
        * intros a b. rewrite He, He1. unfold removed. simpl.
          destruct (eqb_spec a x) as [->|Na]; destruct (eqb_spec b x) as [->|Nb]; simpl; rewrite ?M; simpl;
            repeat match goal with |- context [memb ?c ?l0] => destruct (memb c l0); simpl end; reflexivity.
  Qed.
End Gen.

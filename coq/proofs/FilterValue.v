(* FilterValue.v -- filters over whole values.  filter.go's FilterFunc
   receives a Value (name, type, subtype); the filters the library ships
   decide by type, and Types.flt / flt_ok model those.  This file defines the
   wider class [vflt] (tests on name and subtype as well), embeds [flt] in
   it, and proves that the embedding is conservative and that the embedded
   filters are exactly blind to name and subtype: the precise extent of what
   theorems C08* cover (DESIGN.md section 10).  Definitions here are not
   used by the resolver model yet. *)
From ArgMapper Require Import Base Types.
From Coq Require Import List Bool String.
Import ListNotations.

Inductive vflt :=
| VType (t : ty)
| VName (n : string)
| VSubtype (s : string)
| VOr (fs : list vflt)
| VAnd (fs : list vflt).

Fixpoint vflt_ok (u : universe) (f : vflt) (n : string) (t : ty) (s : string) : bool :=
  match f with
  | VType t0 => (t =? t0)%Z || implements u t t0
  | VName n0 => String.eqb n n0
  | VSubtype s0 => String.eqb s s0
  | VOr fs => existsb (fun g => vflt_ok u g n t s) fs
  | VAnd fs => forallb (fun g => vflt_ok u g n t s) fs
  end.

Fixpoint embed (f : flt) : vflt :=
  match f with
  | FltType t => VType t
  | FltOr fs => VOr (map embed fs)
  | FltAnd fs => VAnd (map embed fs)
  end.

(* induction principle for the nested type *)
Section FltInd.
  Variable P : flt -> Prop.
  Hypothesis HT : forall t, P (FltType t).
  Hypothesis HO : forall fs, Forall P fs -> P (FltOr fs).
  Hypothesis HA : forall fs, Forall P fs -> P (FltAnd fs).
  Fixpoint flt_ind' (f : flt) : P f :=
    match f with
    | FltType t => HT t
    | FltOr fs => HO fs ((fix go (l : list flt) : Forall P l :=
                         match l with [] => Forall_nil P | x :: r => Forall_cons x (flt_ind' x) (go r) end) fs)
    | FltAnd fs => HA fs ((fix go (l : list flt) : Forall P l :=
                          match l with [] => Forall_nil P | x :: r => Forall_cons x (flt_ind' x) (go r) end) fs)
    end.
End FltInd.

Lemma existsb_map_ext {A B} (h : A -> B) (p : B -> bool) (q : A -> bool) l :
  Forall (fun x => p (h x) = q x) l -> existsb p (map h l) = existsb q l.
Proof. induction 1 as [|x l Hx _ IH]; cbn; [reflexivity | rewrite Hx, IH; reflexivity]. Qed.
Lemma forallb_map_ext {A B} (h : A -> B) (p : B -> bool) (q : A -> bool) l :
  Forall (fun x => p (h x) = q x) l -> forallb p (map h l) = forallb q l.
Proof. induction 1 as [|x l Hx _ IH]; cbn; [reflexivity | rewrite Hx, IH; reflexivity]. Qed.

(* conservativity: on every value an embedded filter answers what the
   type-only model answers on the value's type *)
Theorem embed_conservative u f : forall n t s, vflt_ok u (embed f) n t s = flt_ok u f t.
Proof.
  induction f as [t0 | fs IH | fs IH] using flt_ind'; intros n t s.
  - reflexivity.
  - cbn [embed vflt_ok flt_ok]. apply existsb_map_ext.
    eapply Forall_impl; [|exact IH]. intros g Hg. apply Hg.
  - cbn [embed vflt_ok flt_ok]. apply forallb_map_ext.
    eapply Forall_impl; [|exact IH]. intros g Hg. apply Hg.
Qed.

(* hence embedded filters are blind to name and subtype ... *)
Corollary embed_name_blind u f n n' t s s' :
  vflt_ok u (embed f) n t s = vflt_ok u (embed f) n' t s'.
Proof. rewrite !embed_conservative. reflexivity. Qed.

(* ... and the wider class is strictly wider: a name test is no embedded filter *)
Theorem vname_not_embedded u n0 : n0 <> EmptyString ->
  forall f, exists n t s, vflt_ok u (VName n0) n t s <> vflt_ok u (embed f) n t s.
Proof.
  intros Hn f.
  destruct (flt_ok u f 0%Z) eqn:E.
  - exists EmptyString, 0%Z, EmptyString. rewrite embed_conservative, E. cbn [vflt_ok].
    destruct (String.eqb_spec EmptyString n0) as [Q|Q]; [congruence | discriminate].
  - exists n0, 0%Z, EmptyString. rewrite embed_conservative, E. cbn [vflt_ok].
    rewrite String.eqb_refl. discriminate.
Qed.

Print Assumptions embed_conservative.
Print Assumptions vname_not_embedded.

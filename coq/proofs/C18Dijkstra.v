(* C18Dijkstra.v -- correctness of the model's Dijkstra (C18_statement) and
   its totality on the domain (C18_total_statement). *)
From ArgMapper Require Import Base Graph GraphAlg GraphSpec GraphStatements.
From ArgMapper.proofs Require Import C18DijkstraLemmas.
From Coq Require Import Lia ZArith List Permutation.
Import ListNotations.
Set Implicit Arguments.
Local Open Scope Z_scope.

Section Main.
  Context {K : Type} {E : EqDec K} {V : Type}.
  Notation graph := (graph K V).

  Lemma NoDup_snoc {T} (l : list T) x : NoDup l -> ~ In x l -> NoDup (l ++ [x]).
  Proof.
    induction l as [|y l IH]; intros ND Nx; simpl.
    - constructor; [intros []|constructor].
    - inversion ND as [|? ? Hy ND']; subst. constructor.
      + intros A. apply in_app_or in A. destruct A as [A|[A|[]]]; auto.
        subst. apply Nx; left; auto.
      + apply IH; auto. intros A; apply Nx; right; auto.
  Qed.

  (* ---------- predecessor chains ---------- *)
  Inductive chain (p : amap K K) : K -> list K -> Prop :=
  | chain_root v : lookup v p = None -> chain p v [v]
  | chain_step v u l : lookup v p = Some u -> chain p u l -> chain p v (l ++ [v]).

  Lemma chain_ext p p' v l :
    chain p v l -> (forall y, In y l -> lookup y p' = lookup y p) -> chain p' v l.
  Proof.
    induction 1 as [v Q|v u l Q C IH]; intros Ext.
    - constructor. rewrite Ext; auto. left; auto.
    - apply chain_step with (u := u).
      + rewrite Ext; auto. apply in_or_app; right; left; auto.
      + apply IH. intros y A. apply Ext. apply in_or_app; auto.
  Qed.

  Lemma etp_chain p v l :
    chain p v l -> forall fuel acc, (length l <= fuel)%nat -> etp fuel p v acc = Ok (l ++ acc).
  Proof.
    induction 1 as [v Q|v u l Q C IH]; intros fuel acc Le.
    - destruct fuel as [|f]; [simpl in Le; lia|]. simpl. rewrite Q. reflexivity.
    - rewrite app_length in Le. simpl in Le.
      destruct fuel as [|f]; [lia|]. simpl. rewrite Q.
      rewrite IH by lia. rewrite <- app_assoc. reflexivity.
  Qed.

  (* ---------- the loop invariant ---------- *)
  Record Inv (g : graph) (src : K) (st : dstate) : Prop := {
    inv_nodup : NoDup (unvis st);
    inv_unvis_vertex : forall x, In x (unvis st) -> vertex g x;
    inv_total : forall v, vertex g v -> exists dv, lookup v (dist st) = Some dv;
    inv_range : forall v dv, lookup v (dist st) = Some dv -> 0 <= dv <= INF;
    inv_src : lookup src (dist st) = Some 0;
    (* a finite tentative distance is the weight of the predecessor chain,
       which is a simple walk from the source through popped vertices *)
    inv_fin : forall v dv, lookup v (dist st) = Some dv -> dv < INF ->
      exists l, chain (prev st) v l /\ walk g src v l dv /\ NoDup l /\
                (forall x, In x l -> x = v \/ ~ In x (unvis st));
    inv_prev_fin : forall v u, lookup v (prev st) = Some u ->
      exists dv, lookup v (dist st) = Some dv /\ dv < INF;
    (* all out-edges of a popped vertex with finite distance are relaxed *)
    inv_relaxed : forall u du v w, vertex g u -> ~ In u (unvis st) ->
      lookup u (dist st) = Some du -> du < INF -> edge g u v w ->
      exists dv, lookup v (dist st) = Some dv /\ dv <= du + w;
    (* popped vertices are not farther than unvisited ones *)
    inv_mono : forall u x du dx, vertex g u -> ~ In u (unvis st) -> In x (unvis st) ->
      lookup u (dist st) = Some du -> lookup x (dist st) = Some dx -> du <= dx
  }.

  (* ---------- initial state ---------- *)
  Lemma dist0_lookup (src v : K) ks :
    lookup v (insert src 0 (map (fun k => (k, INF)) ks)) =
    if eqb v src then Some 0 else if memb v ks then Some INF else None.
  Proof.
    destruct (eqb_spec v src) as [->|Ne].
    - apply lookup_insert_eq.
    - rewrite lookup_insert_neq by auto. apply lookup_map_const.
  Qed.

  Lemma dinit_inv (g : graph) src :
    wf_graph g -> vertex g src -> exists st0, dinit g src = Ok st0 /\ Inv g src st0.
  Proof.
    intros WF Vs. unfold dinit.
    assert (M : memb src (g_vertex_keys g) = true) by (apply memb_In; exact Vs).
    rewrite M. eexists; split; [reflexivity|].
    constructor; simpl.
    - apply (wf_hash_nodup WF).
    - intros x A; exact A.
    - intros v Vv. rewrite dist0_lookup. destruct (eqb v src); eauto.
      assert (M' : memb v (g_vertex_keys g) = true) by (apply memb_In; exact Vv).
      rewrite M'. eauto.
    - intros v dv. rewrite dist0_lookup. destruct (eqb v src).
      + intros Q; inversion Q; subst. unfold INF; lia.
      + destruct (memb v (g_vertex_keys g)); intros Q; inversion Q; subst. unfold INF; lia.
    - rewrite dist0_lookup, eqb_refl. reflexivity.
    - intros v dv. rewrite dist0_lookup. destruct (eqb_spec v src) as [->|Ne].
      + intros Q F; inversion Q; subst. exists [src]. split; [|split; [|split]].
        * constructor. reflexivity.
        * constructor; auto.
        * constructor; [intros []|constructor].
        * intros x [<-|[]]. left; auto.
      + destruct (memb v (g_vertex_keys g)); intros Q F; inversion Q; subst. lia.
    - intros v u Q. discriminate.
    - intros u du v w Vu Nu. exfalso. apply Nu. exact Vu.
    - intros u x du dx Vu Nu. exfalso. apply Nu. exact Vu.
  Qed.

  (* ---------- the relaxation fold ---------- *)
  Definition upd_spec (u : K) (du : Z) (es : list (K * Z)) (st st' : dstate) : Prop :=
    unvis st' = unvis st /\
    (forall x, (lookup x (dist st') = lookup x (dist st) /\ lookup x (prev st') = lookup x (prev st)) \/
               (In x (unvis st) /\ exists w dx, In (x, w) es /\ lookup x (dist st) = Some dx /\
                  wrap64 (du + w) < dx /\ lookup x (dist st') = Some (wrap64 (du + w)) /\
                  lookup x (prev st') = Some u)) /\
    (forall v w, In (v, w) es -> In v (unvis st) ->
       exists dv', lookup v (dist st') = Some dv' /\ dv' <= wrap64 (du + w)).

  Lemma upd_mono u du es st st' :
    upd_spec u du es st st' -> forall x dx, lookup x (dist st) = Some dx ->
    exists dx', lookup x (dist st') = Some dx' /\ dx' <= dx.
  Proof.
    intros (_ & Ch & _) x dx Q.
    destruct (Ch x) as [[A _]|(_ & w & dx0 & _ & Q0 & Lt & Q' & _)].
    - exists dx. rewrite A. split; auto. lia.
    - rewrite Q in Q0. inversion Q0; subst dx0. eexists; split; eauto. lia.
  Qed.

  Lemma upd_trans u du es1 es2 st st1 st2 :
    upd_spec u du es1 st st1 -> upd_spec u du es2 st1 st2 -> upd_spec u du (es1 ++ es2) st st2.
  Proof.
    intros S1 S2. pose proof (upd_mono S2) as M2.
    destruct S1 as (U1 & C1 & R1). destruct S2 as (U2 & C2 & R2).
    split; [congruence|]. split.
    - intros x.
      destruct (C1 x) as [[A1 B1]|(I1 & w1 & dx1 & E1 & Q1 & L1 & Q1' & P1)];
      destruct (C2 x) as [[A2 B2]|(I2 & w2 & dx2 & E2 & Q2 & L2 & Q2' & P2)].
      + left. split; congruence.
      + right. split; [congruence|]. exists w2, dx2. repeat split; auto.
        * apply in_or_app; auto.
        * congruence.
      + right. split; auto. exists w1, dx1. repeat split; auto.
        * apply in_or_app; auto.
        * congruence.
        * congruence.
      + right. split; auto. exists w2, dx1. repeat split; auto.
        * apply in_or_app; auto.
        * rewrite Q1' in Q2. inversion Q2; subst dx2. lia.
    - intros v w A Iv. apply in_app_or in A. destruct A as [A|A].
      + destruct (R1 v w A Iv) as (dv1 & Q1 & Le1).
        destruct (M2 _ _ Q1) as (dv2 & Q2 & Le2). exists dv2. split; auto. lia.
      + apply R2; auto. congruence.
  Qed.

  Lemma relax1_spec u du st v w dv :
    lookup v (dist st) = Some dv ->
    exists st1, relax1 u du (Ok st) (v, w) = Ok st1 /\ upd_spec u du [(v, w)] st st1.
  Proof.
    intros Qv. unfold relax1, bind. rewrite Qv.
    destruct (memb v (unvis st)) eqn:M.
    - destruct (wrap64 (du + w) <? dv) eqn:L.
      + apply Z.ltb_lt in L. apply memb_In in M.
        eexists; split; [reflexivity|]. split; [reflexivity|]. simpl. split.
        * intros x. destruct (eq_dec_K x v) as [->|Ne].
          -- right. split; auto. exists w, dv. repeat split; auto.
             ++ apply lookup_insert_eq.
             ++ apply lookup_insert_eq.
          -- left. split; apply lookup_insert_neq; auto.
        * intros v0 w0 [Q|[]] _. inversion Q; subst.
          exists (wrap64 (du + w0)). split; [apply lookup_insert_eq|lia].
      + apply Z.ltb_ge in L.
        eexists; split; [reflexivity|]. split; [reflexivity|]. split.
        * intros x; left; auto.
        * intros v0 w0 [Q|[]] _. inversion Q; subst. eauto.
    - eexists; split; [reflexivity|]. split; [reflexivity|]. split.
      + intros x; left; auto.
      + intros v0 w0 [Q|[]] Iv. inversion Q; subst.
        apply memb_In in Iv. congruence.
  Qed.

  Lemma relax_fold u du : forall es st,
    (forall v w, In (v, w) es -> exists dv, lookup v (dist st) = Some dv) ->
    exists st', fold_left (relax1 u du) es (Ok st) = Ok st' /\ upd_spec u du es st st'.
  Proof.
    induction es as [|[v w] es IH]; intros st Def.
    - exists st. split; [reflexivity|]. split; [reflexivity|]. split.
      + intros x; left; auto.
      + intros v w [].
    - destruct (Def v w (or_introl eq_refl)) as (dv & Qv).
      destruct (@relax1_spec u du st v w dv Qv) as (st1 & R1 & S1).
      destruct (IH st1) as (st' & F & S2).
      { intros v0 w0 A. destruct (Def v0 w0 (or_intror A)) as (d0 & Q0).
        destruct (upd_mono S1 _ Q0) as (d1 & Q1 & _). eauto. }
      exists st'. split.
      + change (fold_left (relax1 u du) ((v, w) :: es) (Ok st))
          with (fold_left (relax1 u du) es (relax1 u du (Ok st) (v, w))).
        rewrite R1. exact F.
      + change ((v, w) :: es) with ([(v, w)] ++ es). eapply upd_trans; eauto.
  Qed.

  (* ---------- one pop preserves the invariant (abstract form) ---------- *)
  Definition unchanged (st st' : @dstate K) (x : K) : Prop :=
    lookup x (dist st') = lookup x (dist st) /\ lookup x (prev st') = lookup x (prev st).

  Definition updated (g : graph) (st st' : @dstate K) (u : K) (du : Z) (x : K) : Prop :=
    In x (unvis st') /\ du < INF /\
    exists w dx, edge g u x w /\ lookup x (dist st) = Some dx /\ du + w < dx /\
                 lookup x (dist st') = Some (du + w) /\ lookup x (prev st') = Some u.

  (* the walk to a relaxation target is simple, hence below INF *)
  Lemma relax_target (g : graph) src st u du x w :
    wf_graph g -> nonneg g -> total_weight g < INF -> Inv g src st ->
    In u (unvis st) -> lookup u (dist st) = Some du -> du < INF ->
    edge g u x w -> In x (unvis st) -> x <> u ->
    exists lu, chain (prev st) u lu /\
               (forall y, In y lu -> y = u \/ ~ In y (unvis st)) /\
               walk g src x (lu ++ [x]) (du + w) /\ NoDup (lu ++ [x]) /\
               0 <= du + w /\ du + w < INF.
  Proof.
    intros WF NN TW I Hu Qu Fu Ed Ix Nxu.
    destruct I as [Ind Iuv Itot Irng Isrc Ifin Ipf Irel Imon].
    destruct (Ifin _ _ Qu Fu) as (lu & Cu & Wu & NDu & Pu).
    exists lu.
    assert (Vx : vertex g x) by apply (edge_vertices WF Ed).
    assert (W : walk g src x (lu ++ [x]) (du + w)) by (apply walk_snoc with (b := u); auto).
    assert (ND : NoDup (lu ++ [x])).
    { apply NoDup_snoc; auto. intros C. destruct (Pu x C); auto. }
    pose proof (walk_bound WF NN W ND). pose proof (NN _ _ _ Ed).
    pose proof (Irng _ _ Qu).
    split; [exact Cu|]. split; [exact Pu|]. split; [exact W|]. split; [exact ND|]. lia.
  Qed.

  Lemma step_inv (g : graph) src st u du st' :
    wf_graph g -> nonneg g -> total_weight g < INF -> Inv g src st ->
    In u (unvis st) -> lookup u (dist st) = Some du ->
    (forall x dx, In x (unvis st) -> lookup x (dist st) = Some dx -> du <= dx) ->
    unvis st' = remove1 u (unvis st) ->
    (forall x, unchanged st st' x \/ updated g st st' u du x) ->
    (du < INF -> forall v w, edge g u v w -> In v (unvis st') ->
       exists dv', lookup v (dist st') = Some dv' /\ dv' <= du + w) ->
    Inv g src st'.
  Proof.
    intros WF NN TW I Hu Qu Min Uv Ch Rl.
    assert (Tgt0 := @relax_target g src st u du).
    destruct I as [Ind Iuv Itot Irng Isrc Ifin Ipf Irel Imon].
    assert (I : Inv g src st) by (constructor; auto).
    assert (Vu : vertex g u) by (apply Iuv; auto).
    pose proof (Irng _ _ Qu) as Ru.
    assert (InU' : forall x, In x (unvis st') <-> In x (unvis st) /\ x <> u).
    { intros x. rewrite Uv. apply remove1_In_NoDup. exact Ind. }
    assert (Unch : forall x, ~ In x (unvis st') -> unchanged st st' x).
    { intros x N. destruct (Ch x) as [A|(A & _)]; auto. contradiction. }
    assert (Mono : forall x dx, lookup x (dist st) = Some dx ->
                     exists dx', lookup x (dist st') = Some dx' /\ dx' <= dx).
    { intros x dx Q. destruct (Ch x) as [[A _]|(_ & _ & w & dx0 & _ & Q0 & Lt & Q' & _)].
      - exists dx. rewrite A. split; auto. lia.
      - rewrite Q in Q0. inversion Q0; subst dx0. exists (du + w). split; auto. lia. }
    assert (Tgt : forall x w, du < INF -> edge g u x w -> In x (unvis st') ->
       exists lu, chain (prev st) u lu /\ (forall y, In y lu -> ~ In y (unvis st')) /\
                  walk g src x (lu ++ [x]) (du + w) /\ NoDup (lu ++ [x]) /\
                  0 <= du + w /\ du + w < INF).
    { intros x w Fu Ed Ix. apply InU' in Ix. destruct Ix as [Ix Nxu].
      destruct (Tgt0 x w WF NN TW I Hu Qu Fu Ed Ix Nxu) as (lu & Cu & Pu & W & ND & P0 & P1).
      exists lu. split; [exact Cu|]. split; [|auto].
      intros y A B. apply InU' in B. destruct B as [B1 B2]. destruct (Pu y A); auto. }
    clear Tgt0.
    constructor.
    - (* nodup *) rewrite Uv. apply remove1_NoDup. exact Ind.
    - intros x A. apply InU' in A. apply Iuv. tauto.
    - intros v Vv. destruct (Itot _ Vv) as (dv & Q).
      destruct (Mono _ _ Q) as (dv' & Q' & _). eauto.
    - intros v dv' Q'. destruct (Ch v) as [[A _]|(Ix & Fu & w & dx & Ed & Q & Lt & Qn & _)].
      + rewrite A in Q'. apply (Irng _ _ Q').
      + destruct (Tgt _ _ Fu Ed Ix) as (lu & _ & _ & _ & _ & P0 & P1).
        rewrite Qn in Q'. inversion Q'; subst dv'. lia.
    - destruct (Ch src) as [[A _]|(Ix & Fu & w & dx & Ed & Q & Lt & Qn & _)].
      + rewrite A. exact Isrc.
      + destruct (Tgt _ _ Fu Ed Ix) as (lu & _ & _ & _ & _ & P0 & P1).
        rewrite Isrc in Q. inversion Q; subst dx. lia.
    - (* fin *) intros v dv Q' Fv.
      destruct (Ch v) as [[A B]|(Ix & Fu & w & dx & Ed & Q & Lt & Qn & Pn)].
      + rewrite A in Q'. destruct (Ifin _ _ Q' Fv) as (l & C & W & ND & P).
        exists l. split; [|split; [exact W|split; [exact ND|]]].
        * apply chain_ext with (p := prev st); auto.
          intros y Iy. destruct (P y Iy) as [->|N]; auto.
          apply Unch. intros C'. apply InU' in C'. tauto.
        * intros x Ix. destruct (P x Ix) as [->|N]; auto.
          right. intros C'. apply InU' in C'. tauto.
      + destruct (Tgt _ _ Fu Ed Ix) as (lu & Cu & Pu & W & ND & P0 & P1).
        rewrite Qn in Q'. inversion Q'; subst dv.
        exists (lu ++ [v]). split; [|split; [exact W|split; [exact ND|]]].
        * apply chain_step with (u := u); auto.
          apply chain_ext with (p := prev st); auto.
          intros y Iy. apply Unch. auto.
        * intros x A. apply in_app_or in A. destruct A as [A|[A|[]]]; auto.
    - (* prev_fin *) intros v a Qp.
      destruct (Ch v) as [[A B]|(Ix & Fu & w & dx & Ed & Q & Lt & Qn & Pn)].
      + rewrite B in Qp. destruct (Ipf _ _ Qp) as (dv & Q & F). exists dv. rewrite A. auto.
      + destruct (Tgt _ _ Fu Ed Ix) as (lu & _ & _ & _ & _ & P0 & P1). exists (du + w). auto.
    - (* relaxed *) intros a da b w Va Na Qa Fa Ed.
      destruct (Unch a Na) as [Aa _]. rewrite Aa in Qa.
      destruct (edge_vertices WF Ed) as [_ Vb].
      destruct (eq_dec_K a u) as [->|Nau].
      + rewrite Qu in Qa. inversion Qa; subst da.
        destruct (In_dec_K b (unvis st')) as [Ib|Nb].
        * apply (Rl Fa _ _ Ed Ib).
        * destruct (Unch b Nb) as [Ab _]. destruct (Itot _ Vb) as (db & Qb).
          exists db. rewrite Ab. split; auto.
          pose proof (NN _ _ _ Ed).
          destruct (eq_dec_K b u) as [->|Nbu].
          -- rewrite Qu in Qb. inversion Qb; subst. lia.
          -- assert (Nb' : ~ In b (unvis st)) by (intros C; apply Nb; apply InU'; auto).
             pose proof (Imon _ _ _ _ Vb Nb' Hu Qb Qu). lia.
      + assert (Na' : ~ In a (unvis st)) by (intros C; apply Na; apply InU'; auto).
        destruct (Irel _ _ _ _ Va Na' Qa Fa Ed) as (db & Qb & Le).
        destruct (Mono _ _ Qb) as (db' & Qb' & Le'). exists db'. split; auto. lia.
    - (* mono *) intros a x da dx' Va Na Ix Qa Qx.
      destruct (Unch a Na) as [Aa _]. rewrite Aa in Qa.
      assert (Ix0 := Ix). apply InU' in Ix0. destruct Ix0 as [Ix1 Nxu].
      assert (Lau : da <= du).
      { destruct (eq_dec_K a u) as [->|Nau].
        - rewrite Qu in Qa. inversion Qa. lia.
        - assert (Na' : ~ In a (unvis st)) by (intros C; apply Na; apply InU'; auto).
          apply (Imon _ _ _ _ Va Na' Hu Qa Qu). }
      destruct (Ch x) as [[A _]|(_ & Fu & w & dx & Ed & Q & Lt & Qn & _)].
      + rewrite A in Qx.
        destruct (eq_dec_K a u) as [->|Nau].
        * rewrite Qu in Qa. inversion Qa; subst da. apply (Min _ _ Ix1 Qx).
        * assert (Na' : ~ In a (unvis st)) by (intros C; apply Na; apply InU'; auto).
          apply (Imon _ _ _ _ Va Na' Ix1 Qa Qx).
      + rewrite Qn in Qx. inversion Qx; subst dx'. pose proof (NN _ _ _ Ed). lia.
  Qed.

  (* ---------- one pop of the model ---------- *)
  Lemma dstep_inv (g : graph) src st u :
    wf_graph g -> nonneg g -> total_weight g < INF -> Inv g src st -> is_min st u = true ->
    exists st', dstep g st u = Ok st' /\ Inv g src st' /\ unvis st' = remove1 u (unvis st).
  Proof.
    intros WF NN TW I Hm.
    unfold dstep. rewrite Hm. cbv zeta.
    unfold is_min in Hm. apply andb_true_iff in Hm. destruct Hm as [Hu Hmin].
    apply memb_In in Hu. rewrite forallb_forall in Hmin.
    assert (Vu : vertex g u) by (apply (inv_unvis_vertex I); auto).
    destruct (inv_total I _ Vu) as (du & Qu).
    assert (Gu : getd (dist st) u = du) by (unfold getd; rewrite Qu; auto).
    rewrite Gu.
    assert (Min : forall x dx, In x (unvis st) -> lookup x (dist st) = Some dx -> du <= dx).
    { intros x dx A Q. specialize (Hmin x A). rewrite Gu in Hmin. unfold getd in Hmin.
      rewrite Q in Hmin. apply Z.leb_le; auto. }
    pose proof (inv_range I _ Qu) as Ru.
    assert (InU' : forall x, In x (remove1 u (unvis st)) <-> In x (unvis st) /\ x <> u).
    { intros x. apply remove1_In_NoDup. apply (inv_nodup I). }
    destruct (du =? INF) eqn:Einf.
    - apply Z.eqb_eq in Einf.
      eexists; split; [reflexivity|]. split; [|reflexivity].
      apply step_inv with (st := st) (u := u) (du := du); auto.
      + intros x. left. split; reflexivity.
      + intros Fu. lia.
    - apply Z.eqb_neq in Einf. assert (Fu : du < INF) by lia.
      assert (EsEdge : forall x w, In (x, w) (inner (gout g) u) -> edge g u x w).
      { intros x w A. unfold edge. unfold inner in *.
        destruct (lookup u (gout g)) as [i|] eqn:Q; [|destruct A].
        apply In_lookup; auto. apply (wf_inner_out_nodup WF _ Q). }
      destruct (relax_fold u du (inner (gout g) u) (mkD (remove1 u (unvis st)) (dist st) (prev st)))
        as (st' & Fold & Uv & Ch & Rl).
      { intros v w A. simpl. apply (inv_total I).
        apply (edge_vertices WF (EsEdge _ _ A)). }
      simpl in Uv, Ch, Rl.
      exists st'. split; [exact Fold|]. split; [|exact Uv].
      assert (Wr : forall x w, In (x, w) (inner (gout g) u) -> In x (remove1 u (unvis st)) ->
                   edge g u x w /\ wrap64 (du + w) = du + w).
      { intros x w A B. pose proof (EsEdge _ _ A) as Ed. split; auto.
        apply InU' in B. destruct B as [B1 B2].
        destruct (relax_target WF NN TW I Hu Qu Fu Ed B1 B2) as (lu & _ & _ & _ & _ & P0 & P1).
        apply wrap64_id; auto. }
      apply step_inv with (st := st) (u := u) (du := du); auto.
      + intros x. destruct (Ch x) as [A|(Ix & w & dx & A & Q & Lt & Qn & Pn)].
        * left. exact A.
        * right. destruct (Wr _ _ A Ix) as [Ed Wq]. rewrite Wq in *.
          split; [rewrite Uv; exact Ix|]. split; [exact Fu|].
          exists w, dx. auto.
      + intros _ v w Ed Iv. rewrite Uv in Iv.
        assert (A : In (v, w) (inner (gout g) u)) by (apply lookup_In; exact Ed).
        destruct (Wr _ _ A Iv) as [_ Wq]. rewrite <- Wq. apply Rl; auto.
  Qed.

  Lemma dloop_inv (g : graph) src :
    wf_graph g -> nonneg g -> total_weight g < INF ->
    forall pops st, Inv g src st -> forall st', dloop g st pops = Ok st' ->
    Inv g src st' /\ unvis st' = [].
  Proof.
    intros WF NN TW. induction pops as [|u pops IH]; intros st I st' D; simpl in D.
    - destruct (unvis st) eqn:Q; [|discriminate]. inversion D; subst. auto.
    - destruct (is_min st u) eqn:M.
      + destruct (@dstep_inv g src st u WF NN TW I M) as (st1 & S1 & I1 & _).
        rewrite S1 in D. simpl in D. eapply IH; eauto.
      + unfold dstep in D. rewrite M in D. simpl in D. discriminate.
  Qed.

  (* ---------- consequences of the invariant at the end ---------- *)
  Lemma final_dist_le_walk (g : graph) src st :
    wf_graph g -> nonneg g -> Inv g src st -> unvis st = [] ->
    forall a c p w, walk g a c p w -> forall da, lookup a (dist st) = Some da -> da < INF ->
    exists dc, lookup c (dist st) = Some dc /\ dc <= da + w.
  Proof.
    intros WF NN I Uv.
    destruct I as [Ind Iuv Itot Irng Isrc Ifin Ipf Irel Imon].
    intros a c p w W. induction W as [a Va|a b c p w1 w2 Ed W IH]; intros da Qa Fa.
    - exists da. split; auto. lia.
    - destruct (edge_vertices WF Ed) as [Va Vb].
      assert (Na : ~ In a (unvis st)) by (rewrite Uv; intros []).
      destruct (Irel _ _ _ _ Va Na Qa Fa Ed) as (db & Qb & Le).
      destruct (Z_lt_ge_dec db INF) as [Fb|Gb].
      + destruct (IH db Qb Fb) as (dc & Qc & Lc). exists dc. split; auto. lia.
      + pose proof (walk_end_vertex W) as Vc.
        destruct (Itot _ Vc) as (dc & Qc). pose proof (Irng _ _ Qc).
        pose proof (walk_nonneg NN W). exists dc. split; auto. lia.
  Qed.

  Theorem C18_main : @C18_statement K E V.
  Proof.
    unfold C18_statement. intros g src pops d p (WF & Vs & NN & TW) Dj v Vv.
    unfold dijkstra in Dj.
    destruct (@dinit_inv g src WF Vs) as (st0 & D0 & I0). rewrite D0 in Dj. simpl in Dj.
    destruct (dloop g st0 pops) as [st| | |] eqn:DL; simpl in Dj; try discriminate.
    inversion Dj; subst d p.
    destruct (@dloop_inv g src WF NN TW pops st0 I0 st DL) as [I Uv].
    assert (LW := @final_dist_le_walk g src st WF NN I Uv).
    destruct I as [Ind Iuv Itot Irng Isrc Ifin Ipf Irel Imon].
    assert (R : reach g src v -> exists dv l, lookup v (dist st) = Some dv /\ dv < INF /\
                  chain (prev st) v l /\ walk g src v l dv /\ NoDup l).
    { intros (p0 & w0 & W0).
      destruct (walk_simple NN W0) as (p1 & w1 & W1 & ND1 & Le1).
      pose proof (walk_bound WF NN W1 ND1).
      destruct (LW _ _ _ _ W1 0 Isrc) as (dv & Q & Le); [unfold INF; lia|].
      assert (F : dv < INF) by lia.
      destruct (Ifin _ _ Q F) as (l & C & W & ND & _). exists dv, l. auto. }
    assert (NR : ~ reach g src v -> lookup v (dist st) = Some INF /\ lookup v (prev st) = None).
    { intros NRc. destruct (Itot _ Vv) as (dv & Q).
      assert (NF : ~ dv < INF).
      { intros F. destruct (Ifin _ _ Q F) as (l & _ & W & _). apply NRc. exists l, dv; auto. }
      pose proof (Irng _ _ Q). assert (dv = INF) by lia. subst dv. split; auto.
      destruct (lookup v (prev st)) as [q|] eqn:Qp; auto.
      destruct (Ipf _ _ Qp) as (dv' & Q' & F'). rewrite Q in Q'. inversion Q'; subst. lia. }
    split; [|split; [|split]].
    - intros Rc. destruct (R Rc) as (dv & l & Q & F & C & W & ND).
      exists dv. split; auto. split; [eauto|].
      intros p0 w0 W0. destruct (LW _ _ _ _ W0 0 Isrc) as (dv' & Q' & Le); [unfold INF; lia|].
      rewrite Q in Q'. inversion Q'; subst. lia.
    - intros NRc. apply NR; auto.
    - intros Rc. destruct (R Rc) as (dv & l & Q & F & C & W & ND).
      exists l, dv. split; [|auto].
      unfold edge_to_path. rewrite (etp_chain C).
      + rewrite app_nil_r. reflexivity.
      + assert (Inc : incl l (g_vertex_keys g)).
        { intros x A. apply (walk_In_vertex WF W _ A). }
        pose proof (NoDup_incl_length ND Inc). lia.
    - intros NRc. destruct (NR NRc) as [Q Qp]. exists [v]. split.
      + unfold edge_to_path. simpl. rewrite Qp. reflexivity.
      + intros [A|[]]. subst v. apply NRc. exists [src], 0. constructor; auto.
  Qed.

  (* ---------- totality ---------- *)
  Lemma exists_pops (g : graph) src :
    wf_graph g -> nonneg g -> total_weight g < INF ->
    forall n st, length (unvis st) = n -> Inv g src st ->
    exists pops st', dloop g st pops = Ok st'.
  Proof.
    intros WF NN TW. induction n as [|n IH]; intros st Ln I.
    - apply length_zero_iff_nil in Ln. exists [], st. simpl. rewrite Ln. reflexivity.
    - assert (Ne : unvis st <> []) by (intros C; rewrite C in Ln; discriminate).
      destruct (argmin_exists (getd (dist st)) Ne) as (u & Iu & Mu).
      assert (M : is_min st u = true).
      { unfold is_min. apply andb_true_iff. split; [apply memb_In; auto|].
        apply forallb_forall. intros x A. apply Z.leb_le. auto. }
      destruct (@dstep_inv g src st u WF NN TW I M) as (st1 & S1 & I1 & U1).
      assert (L1 : length (unvis st1) = n).
      { rewrite U1. pose proof (remove1_length u (unvis st) Iu). lia. }
      destruct (IH st1 L1 I1) as (pops & st' & D).
      exists (u :: pops), st'. simpl. rewrite S1. simpl. exact D.
  Qed.

  Lemma all_pops (g : graph) src :
    wf_graph g -> nonneg g -> total_weight g < INF ->
    forall pops st, Inv g src st ->
    (exists st', dloop g st pops = Ok st') \/ dloop g st pops = TapeErr SITE_POP.
  Proof.
    intros WF NN TW. induction pops as [|u pops IH]; intros st I; simpl.
    - destruct (unvis st); eauto.
    - destruct (is_min st u) eqn:M.
      + destruct (@dstep_inv g src st u WF NN TW I M) as (st1 & S1 & I1 & _).
        rewrite S1. simpl. apply IH; auto.
      + right. unfold dstep. rewrite M. reflexivity.
  Qed.

  Theorem C18_total_main : @C18_total_statement K E V.
  Proof.
    unfold C18_total_statement. intros g src (WF & Vs & NN & TW).
    destruct (@dinit_inv g src WF Vs) as (st0 & D0 & I0).
    split.
    - destruct (@exists_pops g src WF NN TW _ st0 eq_refl I0) as (pops & st' & D).
      exists pops, (dist st'), (prev st'). unfold dijkstra. rewrite D0. simpl. rewrite D. reflexivity.
    - intros pops. unfold dijkstra. rewrite D0. simpl.
      destruct (@all_pops g src WF NN TW pops st0 I0) as [(st' & D)|D]; rewrite D; simpl; eauto.
  Qed.
End Main.

Theorem C18_proof : forall (K : Type) (E : EqDec K) (V : Type), @C18_statement K E V.
Proof. intros. apply C18_main. Qed.
Print Assumptions C18_proof.

Theorem C18_total_proof : forall (K : Type) (E : EqDec K) (V : Type), @C18_total_statement K E V.
Proof. intros. apply C18_total_main. Qed.
Print Assumptions C18_total_proof.

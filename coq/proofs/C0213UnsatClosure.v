(* C0213UnsatClosure.v -- the two fixpoint computations of the specification
   and of prune: [closure] (OR-reachability) and [derive] (AND-OR
   derivability).  Both reach their fixpoint with the fuel they are given;
   each comes with an induction principle. *)
From ArgMapper Require Import Base Graph GraphAlg GraphSpec Types Args Resolver ResolverSpec.
From ArgMapper.proofs Require Import C19RefineMap C19RefineGraph C0213UnsatGraph.
From Coq Require Import List Lia ZArith.
Import ListNotations.
Set Implicit Arguments.

Lemma filter_nil_all {A} (p : A -> bool) (l : list A) :
  filter p l = [] -> forall x, In x l -> p x = false.
Proof.
  induction l as [|y l IH]; simpl; intros Q x I; [destruct I|].
  destruct (p y) eqn:Py; [discriminate|].
  destruct I as [->|I]; [exact Py|apply IH; assumption].
Qed.

Section Closure.
  Variable g : rgraph.
  Variable stop : vkey.
  Hypothesis W : wf_graph g.
  Hypothesis Root : vtx g KRoot <> None.

  Definition cl_inv (frontier seen : list vkey) : Prop :=
    incl frontier seen /\ In KRoot seen /\ NoDup seen /\
    (forall x, In x seen -> vtx g x <> None) /\
    (forall a x, In a seen -> ~ In a frontier -> a <> stop -> ew g x a <> None -> In x seen).

  Lemma next_in (frontier : list vkey) (x : vkey) :
    In x (dedup (flat_map (fun a => if Base.eqb a stop then [] else g_in_keys g a) frontier)) <->
    exists a, In a frontier /\ a <> stop /\ ew g x a <> None.
  Proof.
    rewrite in_dedup, in_flat_map. split.
    - intros (a & Ia & Ix). exists a. destruct (Base.eqb_spec a stop) as [->|N]; [destruct Ix|].
      split; [exact Ia|]. split; [exact N|]. apply (in_in_keys x a W). exact Ix.
    - intros (a & Ia & N & Ex). exists a. split; [exact Ia|].
      destruct (Base.eqb_spec a stop) as [->|_]; [contradiction N; reflexivity|].
      apply (in_in_keys x a W). exact Ex.
  Qed.

  Lemma seen_bound (seen : list vkey) :
    NoDup seen -> (forall x, In x seen -> vtx g x <> None) ->
    (length seen <= length (g_vertex_keys g))%nat.
  Proof.
    intros ND Vs. apply NoDup_incl_length; [exact ND|].
    intros x I. apply in_vertex_keys. apply Vs. exact I.
  Qed.

  Lemma closure_closed : forall fuel frontier seen,
    cl_inv frontier seen ->
    (length (g_vertex_keys g) + 2 <= fuel + length seen)%nat ->
    In KRoot (closure fuel g stop frontier seen) /\
    (forall a x, In a (closure fuel g stop frontier seen) -> a <> stop -> ew g x a <> None ->
                 In x (closure fuel g stop frontier seen)).
  Proof.
    induction fuel as [|f IH]; intros frontier seen (Inc & Rt & ND & Vs & Cl) Len.
    - exfalso. pose proof (seen_bound ND Vs). simpl in Len. lia.
    - cbn [closure].
      set (next := dedup (flat_map (fun a => if Base.eqb a stop then [] else g_in_keys g a) frontier)).
      destruct (filter (fun x => negb (memb x seen)) next) as [|y fr] eqn:Fr.
      + split; [exact Rt|]. intros a x Ia Ns Ex.
        destruct (memb a frontier) eqn:Ma.
        * apply membT in Ma.
          assert (Ix : In x next) by (apply next_in; exists a; auto).
          pose proof (filter_nil_all _ _ Fr x Ix) as Q. simpl in Q.
          apply negb_false_iff in Q. apply membT in Q. exact Q.
        * apply membF in Ma. apply (Cl a x); auto.
      + set (fresh := y :: fr) in *.
        assert (FrIn : forall x, In x fresh <-> In x next /\ ~ In x seen).
        { intros x. rewrite <- Fr, filter_In, negb_true_iff, membF. reflexivity. }
        apply IH.
        * split; [|split; [|split; [|split]]].
          -- intros x I. apply in_or_app. right. exact I.
          -- apply in_or_app. left. exact Rt.
          -- apply nodup_app; [exact ND| |].
             ++ rewrite <- Fr. apply nodup_filter. apply nodup_dedup.
             ++ intros x I1 I2. apply FrIn in I2. destruct I2 as [_ N]. contradiction.
          -- intros x I. apply in_app_or in I. destruct I as [I|I]; [apply Vs; exact I|].
             apply FrIn in I. destruct I as [I _]. apply next_in in I.
             destruct I as (a & _ & _ & Ex). apply (ew_closed _ _ W Ex).
          -- intros a x Ia Na Ns Ex.
             assert (Ia' : In a seen).
             { apply in_app_or in Ia. destruct Ia as [Ia|Ia]; [exact Ia|contradiction]. }
             destruct (memb a frontier) eqn:Ma.
             ++ apply membT in Ma.
                assert (Ix : In x next) by (apply next_in; exists a; auto).
                destruct (memb x seen) eqn:Mx.
                ** apply membT in Mx. apply in_or_app. left. exact Mx.
                ** apply membF in Mx. apply in_or_app. right. apply FrIn. split; assumption.
             ++ apply membF in Ma. apply in_or_app. left. apply (Cl a x); auto.
        * rewrite app_length. unfold fresh. simpl. lia.
  Qed.

  Lemma closure_ind (P : vkey -> Prop) :
    (forall a x, P a -> a <> stop -> ew g x a <> None -> P x) ->
    forall fuel frontier seen, incl frontier seen -> (forall k, In k seen -> P k) ->
    forall k, In k (closure fuel g stop frontier seen) -> P k.
  Proof.
    intros St. induction fuel as [|f IH]; intros frontier seen Inc Ps k Ik.
    - simpl in Ik. apply Ps. exact Ik.
    - cbn [closure] in Ik.
      set (next := dedup (flat_map (fun a => if Base.eqb a stop then [] else g_in_keys g a) frontier)) in *.
      destruct (filter (fun x => negb (memb x seen)) next) as [|y fr] eqn:Fr.
      + apply Ps. exact Ik.
      + revert Ik. apply IH.
        * intros x I. apply in_or_app. right. exact I.
        * intros x I. apply in_app_or in I. destruct I as [I|I]; [apply Ps; exact I|].
          rewrite <- Fr in I. apply filter_In in I. destruct I as [I _].
          apply next_in in I. destruct I as (a & Ia & Ns & Ex).
          apply (St a x); auto.
  Qed.

  Definition keepset : list vkey := or_reachable g stop.

  Lemma keep_root : In KRoot keepset.
  Proof.
    unfold keepset, or_reachable.
    apply closure_closed.
    - split; [|split; [|split; [|split]]].
      + intros x I; exact I.
      + left; reflexivity.
      + constructor; [intros []|constructor].
      + intros x [<-|[]]. exact Root.
      + intros a x Ia Na. exfalso. apply Na. exact Ia.
    - simpl. lia.
  Qed.

  Lemma keep_closed (a x : vkey) : In a keepset -> a <> stop -> ew g x a <> None -> In x keepset.
  Proof.
    unfold keepset, or_reachable.
    apply closure_closed.
    - split; [|split; [|split; [|split]]].
      + intros y I; exact I.
      + left; reflexivity.
      + constructor; [intros []|constructor].
      + intros y [<-|[]]. exact Root.
      + intros a' x' Ia Na. exfalso. apply Na. exact Ia.
    - simpl. lia.
  Qed.

  Lemma keep_ind (P : vkey -> Prop) :
    P KRoot -> (forall a x, P a -> a <> stop -> ew g x a <> None -> P x) ->
    forall k, In k keepset -> P k.
  Proof.
    intros P0 St. unfold keepset, or_reachable. apply closure_ind.
    - exact St.
    - intros x I; exact I.
    - intros k [<-|[]]. exact P0.
  Qed.

  Lemma keep_vertex (k : vkey) : In k keepset -> vtx g k <> None.
  Proof.
    revert k. apply (keep_ind (fun k => vtx g k <> None)); [exact Root|].
    intros a x _ _ Ex. apply (ew_closed _ _ W Ex).
  Qed.
End Closure.

Section Derive.
  Variable g : rgraph.
  Variable cached : list Z.
  Hypothesis W : wf_graph g.
  Hypothesis Root : vtx g KRoot <> None.

  Lemma derive_closed : forall fuel D,
    In KRoot D -> NoDup D -> (forall x, In x D -> vtx g x <> None) ->
    (length (g_vertex_keys g) + 2 <= fuel + length D)%nat ->
    In KRoot (derive fuel g cached D) /\
    (forall k, vtx g k <> None -> derivable_step g cached (derive fuel g cached D) k = true ->
               In k (derive fuel g cached D)).
  Proof.
    induction fuel as [|f IH]; intros D Rt ND Vs Len.
    - exfalso. pose proof (seen_bound g ND Vs). simpl in Len. lia.
    - cbn [derive].
      destruct (filter (fun k => negb (memb k D) && derivable_step g cached D k) (g_vertex_keys g))
        as [|y fr] eqn:Fr.
      + split; [exact Rt|]. intros k Vk Dk.
        assert (Ik : In k (g_vertex_keys g)) by (apply in_vertex_keys; exact Vk).
        pose proof (filter_nil_all _ _ Fr k Ik) as Q. simpl in Q. rewrite Dk, andb_true_r in Q.
        apply negb_false_iff in Q. apply membT in Q. exact Q.
      + set (fresh := y :: fr) in *.
        assert (FrIn : forall x, In x fresh -> In x (g_vertex_keys g) /\ ~ In x D).
        { intros x. rewrite <- Fr, filter_In, andb_true_iff, negb_true_iff, membF. tauto. }
        apply IH.
        * apply in_or_app. left. exact Rt.
        * apply nodup_app; [exact ND| |].
          -- rewrite <- Fr. apply nodup_filter. apply (wf_hash_nodup W).
          -- intros x I1 I2. apply FrIn in I2. destruct I2 as [_ N]. contradiction.
        * intros x I. apply in_app_or in I. destruct I as [I|I]; [apply Vs; exact I|].
          apply FrIn in I. destruct I as [I _]. apply in_vertex_keys. exact I.
        * rewrite app_length. unfold fresh. simpl. lia.
  Qed.

  Lemma derive_ind (P : vkey -> Prop) :
    (forall D k, (forall d, In d D -> P d) -> vtx g k <> None ->
                 derivable_step g cached D k = true -> P k) ->
    forall fuel D, (forall d, In d D -> P d) -> forall k, In k (derive fuel g cached D) -> P k.
  Proof.
    intros St. induction fuel as [|f IH]; intros D PD k Ik.
    - simpl in Ik. apply PD. exact Ik.
    - cbn [derive] in Ik.
      destruct (filter (fun k => negb (memb k D) && derivable_step g cached D k) (g_vertex_keys g))
        as [|y fr] eqn:Fr.
      + apply PD. exact Ik.
      + revert Ik. apply IH. intros x I. apply in_app_or in I. destruct I as [I|I]; [apply PD; exact I|].
        rewrite <- Fr in I. apply filter_In in I. destruct I as [I Q].
        apply andb_true_iff in Q. destruct Q as [_ Q].
        apply (St D x); auto. apply in_vertex_keys. exact I.
  Qed.

  Definition DS : list vkey := derivable_set g cached.

  Lemma ds_facts :
    In KRoot DS /\ (forall k, vtx g k <> None -> derivable_step g cached DS k = true -> In k DS).
  Proof.
    unfold DS, derivable_set. apply derive_closed.
    - left; reflexivity.
    - constructor; [intros []|constructor].
    - intros x [<-|[]]. exact Root.
    - simpl. lia.
  Qed.

  Lemma ds_root : In KRoot DS.
  Proof. exact (proj1 ds_facts). Qed.

  Lemma ds_closed (k : vkey) : vtx g k <> None -> derivable_step g cached DS k = true -> In k DS.
  Proof. exact (proj2 ds_facts k). Qed.

  Lemma ds_ind (P : vkey -> Prop) :
    P KRoot ->
    (forall D k, (forall d, In d D -> P d) -> vtx g k <> None ->
                 derivable_step g cached D k = true -> P k) ->
    forall k, In k DS -> P k.
  Proof.
    intros P0 St. unfold DS, derivable_set. apply derive_ind; [exact St|].
    intros d [<-|[]]. exact P0.
  Qed.

  Lemma ds_vertex (k : vkey) : In k DS -> vtx g k <> None.
  Proof.
    revert k. apply (ds_ind (fun k => vtx g k <> None)); [exact Root|].
    intros D k' _ Vk _. exact Vk.
  Qed.

  (* a value vertex with an edge to a derivable vertex is derivable *)
  Lemma ds_value (k r : vkey) :
    is_func k = false -> ew g k r <> None -> In r DS -> In k DS.
  Proof.
    intros Nf Ex Ir. destruct k as [|ft|n t s|t s|t s]; try discriminate Nf.
    - apply ds_root.
    - apply ds_closed; [apply (ew_closed _ _ W Ex)|]. simpl.
      apply existsb_exists. exists r. split; [apply in_out_keys; exact Ex|apply membT; exact Ir].
    - apply ds_closed; [apply (ew_closed _ _ W Ex)|]. simpl.
      apply existsb_exists. exists r. split; [apply in_out_keys; exact Ex|apply membT; exact Ir].
    - apply ds_closed; [apply (ew_closed _ _ W Ex)|]. simpl.
      apply existsb_exists. exists r. split; [apply in_out_keys; exact Ex|apply membT; exact Ir].
  Qed.

  (* a function vertex all of whose requirements are derivable is derivable *)
  Lemma ds_func_all (ft : Z) :
    vtx g (KFunc ft) <> None -> (forall r, ew g (KFunc ft) r <> None -> In r DS) -> In (KFunc ft) DS.
  Proof.
    intros Vk All. apply ds_closed; [exact Vk|]. simpl.
    apply orb_true_iff. left. apply forallb_forall. intros r I.
    apply membT. apply All. apply in_out_keys. exact I.
  Qed.

  Lemma ds_func_cached (ft : Z) (f : fdecl) :
    vtx g (KFunc ft) = Some (PFunc f) -> fn_once f = true -> In (fn_id f) cached -> In (KFunc ft) DS.
  Proof.
    intros Vk On Ic. apply ds_closed; [rewrite Vk; discriminate|]. simpl.
    apply orb_true_iff. right. unfold g_vertex. unfold vtx in Vk. rewrite Vk.
    rewrite On. simpl. apply membT. exact Ic.
  Qed.
End Derive.

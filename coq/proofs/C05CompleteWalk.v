(* C05CompleteWalk.v -- the walk lemma: walking a planned path values every
   vertex on it and ends with a final value of the right type; function
   vertices on the path are resolved by the (abstract) recursive call. *)
From ArgMapper Require Import Base Graph GraphAlg GraphSpec Types Args Resolver ResolverSpec
     CheckResolver Monitors ResolverStatements.
From ArgMapper.proofs Require Import C18DijkstraLemmas C19RefineMap C19RefineGraph C20aDfs
     C05CompleteDefs C05CompleteReachEq C05CompleteState C05CompletePlan C05CompleteReq.
From Coq Require Import Lia ZArith List String.
Import ListNotations.
Set Implicit Arguments.
Local Open Scope Z_scope.

Ltac csplit := repeat match goal with |- _ /\ _ => split end.

Definition is_fn (k : vkey) : bool := match k with KFunc _ => true | _ => false end.

Section Walk.
  Variable u : universe.
  Variable bh : behaviour.
  Variable g : rgraph.
  Variable F : list fdecl.
  Variable vals0 : amap vkey value.

  Hypothesis WF : wf_graph g.
  Hypothesis EI : forall a b w, edge g a b w -> edge_inv u F vals0 a b w.
  Hypothesis VI : forall k pay, g_vertex g k = Some pay -> vert_inv F k pay.
  Hypothesis UT : univ_trans u = true.
  Hypothesis SAMESIG : forall f1 f2, In f1 F -> In f2 F -> fn_type f1 = fn_type f2 ->
      sig_of (fn_in f1) = sig_of (fn_in f2) /\ sig_of (fn_out f1) = sig_of (fn_out f2).
  Hypothesis SAMEID : forall f1 f2, In f1 F -> In f2 F -> fn_id f1 = fn_id f2 -> fn_type f1 = fn_type f2.
  Hypothesis WFFN : forall f, In f F -> wf_fn f = true.

  Notation Inv := (Inv u bh F vals0).
  Notation val_ok := (val_ok u).

  (* the recursive call *)
  Variable rec : vkey -> rstate -> res (rstate * (argmap + rerr)).

  (* every requirement of v has a typed entry *)
  Definition am_ok_v (v : vkey) (am : argmap) : Prop :=
    forall r w, edge g v r w -> r <> KRoot -> exists x, lookup r am = Some x /\ val_ok r x.

  Definition good_rec (v : vkey) (s0 : rstate) (r : res (rstate * (argmap + rerr))) : Prop :=
    (exists site, r = TapeErr site) \/
    (exists s' e, r = Ok (s', inr (XConv e)) /\ Inv s' /\ s_inprog s' = s_inprog s0 /\
                  exists fid n, bh fid n = BErr e) \/
    (exists s' am, r = Ok (s', inl am) /\ Inv s' /\ s_inprog s' = s_inprog s0 /\ am_ok_v v am).

  (* all requirement edges of the function at v are present *)
  Definition complete_v (v : vkey) : Prop :=
    forall f, g_vertex g v = Some (PFunc f) ->
      forall fld, In fld (fn_in f) -> exists w, edge g v (field_key fld) w.

  (* ---------- payload facts ---------- *)
  Lemma func_payload ft : vertex g (KFunc ft) ->
    exists f, g_vertex g (KFunc ft) = Some (PFunc f) /\ fn_type f = ft /\ In f F.
  Proof.
    intros V. apply (proj1 (in_keys_lookup _ _)) in V. destruct V as [pay Q].
    destruct (VI _ Q) as (f & -> & Et & If). exists f. auto.
  Qed.

  Lemma edge_vertex_l a b w : edge g a b w -> vertex g a.
  Proof. intros Q. exact (proj1 (wf_closed WF _ _ Q)). Qed.
  Lemma edge_vertex_r a b w : edge g a b w -> vertex g b.
  Proof. intros Q. exact (proj2 (wf_closed WF _ _ Q)). Qed.

  (* in-neighbours of a function vertex are output keys of its payload *)
  Lemma in_edge_out_key ft f k w :
    g_vertex g (KFunc ft) = Some (PFunc f) -> edge g k (KFunc ft) w -> out_key_of f k.
  Proof.
    intros P Q. destruct (VI _ P) as (f0 & E0 & Et & If). inversion E0; subst f0.
    pose proof (@EI _ _ _ Q) as (_ & K).
    assert (X : exists f' fld, In f' F /\ fn_type f' = ft /\ In fld (fn_out f') /\ k = field_out_key fld).
    { destruct k; try contradiction K; exact K. }
    destruct X as (f' & fld & If' & Et' & Ifld & Ek).
    destruct (@SAMESIG _ _ If' If (eq_trans Et' (eq_sym Et))) as [_ So].
    destruct (@sig_of_In _ _ _ So Ifld) as (fld' & Ifld' & En & Ety & Es).
    exists fld'. split; [exact Ifld'|]. rewrite Ek. apply field_out_key_ext; congruence.
  Qed.

  (* am_ok_v + completeness give a complete typed argument map *)
  Lemma am_ok_of_v ft f am :
    g_vertex g (KFunc ft) = Some (PFunc f) -> complete_v (KFunc ft) -> am_ok_v (KFunc ft) am -> am_ok u f am.
  Proof.
    intros P C A fld Ifld. destruct (C _ P _ Ifld) as [w Q].
    assert (NR : field_key fld <> KRoot) by (unfold field_key; destruct (String.eqb (f_name fld) ""); discriminate).
    destruct (A _ _ Q NR) as (x & Lx & Vx). exists x. split; [exact Lx|].
    unfold C05CompleteState.val_ok in Vx. rewrite key_ty_field_key in Vx. exact Vx.
  Qed.

  (* ---------- the walk invariant ---------- *)
  (* what is known right after the vertex [b] (the last of [done]) was processed *)
  Definition J (last : option vkey) (final : option value) (s : rstate) : Prop :=
    match last with
    | Some (KOut t st) => exists x, lookup (KOut t st) (s_vals s) = Some x /\ s_last s = Some x
    | Some (KVal n t st) => exists x, lookup (KVal n t st) (s_vals s) = Some x /\ s_last s = Some x /\ final = Some x
    | Some (KArg t st) => exists x, lookup (KArg t st) (s_vals s) = Some x /\ final = Some x
    | Some (KFunc ft) => forall k w, edge g k (KFunc ft) w -> lookup k (s_vals s) <> None
    | _ => True
    end.

  (* consecutive vertices of the remaining path are linked by edges (later -> earlier) *)
  Fixpoint chain_ok (prev : option vkey) (vs : list vkey) : Prop :=
    match vs with
    | [] => True
    | v :: vs' => (match prev with Some p => exists w, edge g v p w | None => v = KRoot end) /\
                  chain_ok (Some v) vs'
    end.

  Definition walk_good (ip : list vkey) (last : option vkey) (r : res (rstate * (option value + rerr))) : Prop :=
    (exists site, r = TapeErr site) \/
    (exists s' e, r = Ok (s', inr (XConv e)) /\ Inv s' /\ s_inprog s' = ip /\
                  exists fid n, bh fid n = BErr e) \/
    (exists s' fin, r = Ok (s', inl fin) /\ Inv s' /\ s_inprog s' = ip /\ J last fin s').

  Definition last_opt (prev : option vkey) (vs : list vkey) : option vkey :=
    match vs with [] => prev | _ => Some (last vs KRoot) end.

  Lemma last_opt_cons prev v vs : last_opt prev (v :: vs) = last_opt (Some v) vs.
  Proof.
    unfold last_opt. destruct vs as [|w vs]; [reflexivity|]. reflexivity.
  Qed.

  (* what the recursive call is assumed to do on the function vertices of the path *)
  Variable Pre : vkey -> rstate -> Prop.
  Variable inprog0 : list vkey.

  Lemma walk_ok : forall vs prev final s,
    chain_ok prev vs -> Inv s -> s_inprog s = inprog0 -> J prev final s ->
    (forall v, In v vs -> is_fn v = true -> complete_v v) ->
    (forall v s1, In v vs -> is_fn v = true -> Inv s1 -> s_inprog s1 = inprog0 -> Pre v s1 ->
                  good_rec v s1 (rec v s1)) ->
    (* the precondition of the recursive call follows from the walk invariant *)
    (forall v p fin s1, In v vs -> is_fn v = true -> (exists w, edge g v p w) -> Inv s1 -> J (Some p) fin s1 -> Pre v s1) ->
    walk_good inprog0 (last_opt prev vs) (walk_ u bh g false rec prev vs final s).
  Proof.
    induction vs as [|v vs IH]; intros prev final s CH I IP Jp HC HR HP.
    - right; right. exists s, final. cbn [walk_ last_opt]. csplit; auto.
    - destruct CH as [Lk CH]. rewrite last_opt_cons.
      assert (HC' : forall v', In v' vs -> is_fn v' = true -> complete_v v') by (intros v' I'; apply HC; right; exact I').
      assert (HR' : forall v' s1, In v' vs -> is_fn v' = true -> Inv s1 -> s_inprog s1 = inprog0 -> Pre v' s1 ->
                                  good_rec v' s1 (rec v' s1)) by (intros v' s1 I'; apply HR; right; exact I').
      assert (HP' : forall v' p fin s1, In v' vs -> is_fn v' = true -> (exists w, edge g v' p w) -> Inv s1 ->
                                        J (Some p) fin s1 -> Pre v' s1) by (intros v' p fin s1 I'; apply HP; right; exact I').
      destruct v as [|ft|n t st|t st|t st].
      + (* KRoot *)
        cbn [walk_]. apply IH; auto. exact Logic.I.
      + (* KFunc *)
        cbn [walk_].
        assert (Vv : vertex g (KFunc ft)).
        { destruct prev as [p|]; [destruct Lk as [w Q]; eapply edge_vertex_l; eauto|discriminate Lk]. }
        destruct (@func_payload ft Vv) as (f & Pf & Et & If). rewrite Pf.
        unfold walk_func.
        assert (PRE : Pre (KFunc ft) s).
        { destruct prev as [p|]; [|discriminate Lk]. eapply HP; eauto. left; reflexivity. }
        destruct (HR (KFunc ft) s (or_introl eq_refl) eq_refl I IP PRE) as
            [[site Q]|[(s1 & e & Q & I1 & IP1 & B)|(s1 & am & Q & I1 & IP1 & AM)]]; rewrite Q; cbn [bind].
        * left. exists site. reflexivity.
        * right; left. exists s1, e. csplit; auto; try congruence.
        * assert (AMf : am_ok u f am).
          { eapply am_ok_of_v; eauto. apply HC; [left; reflexivity|reflexivity]. }
          destruct (@call_direct_ok u bh F vals0 SAMESIG SAMEID f am s1 If I1 AMf) as (res & s2 & Q2 & RT & I2 & V2 & L2 & P2 & T2 & _).
          rewrite Q2. cbn [bind]. pose proof RT as (R1 & R2 & R3). rewrite R1.
          destruct (r_err res) as [e|] eqn:Er.
          -- right; left. exists s2, e. csplit; auto; try congruence; try (apply R3; reflexivity).
          -- destruct (take_perm_total SITE_REACH_IN (g_in_keys g (KFunc ft)) (s_tape s2)) as [[[ins t'] T]|T]; rewrite T; cbn [bind].
             2:{ left. exists SITE_REACH_IN. reflexivity. }
             pose proof (take_perm_In _ _ _ T) as TI.
             assert (INS : forall k, In k ins <-> exists w, edge g k (KFunc ft) w).
             { intros k. rewrite TI. unfold g_in_keys, edge. rewrite in_keys_lookup.
               split; intros [w Q']; exists w; apply (wf_mirror WF); exact Q'. }
             assert (I2' : Inv (set_tape s2 t')) by (eapply Inv_ext; [| |exact I2]; reflexivity).
             destruct (@output_values_ok u bh F vals0 WFFN f res If RT ins (set_tape s2 t'))
               as (s3 & Q3 & I3 & V3 & G3 & L3 & P3 & T3 & W3); [|exact I2'|].
             { intros k Ik. apply INS in Ik. destruct Ik as [w Ek]. eapply in_edge_out_key; eauto. }
             rewrite Q3. cbn [bind].
             apply (IH (Some (KFunc ft)) final s3); auto.
             ++ rewrite P3. cbn [set_tape s_inprog]. congruence.
             ++ cbn [J]. intros k w Ek. apply V3. apply INS. exists w. exact Ek.
      + (* KVal *)
        cbn [walk_].
        set (s1 := step_nval prev (KVal n t st) s).
        assert (S1 : Inv s1 /\ s_inprog s1 = inprog0 /\ exists x, lookup (KVal n t st) (s_vals s1) = Some x).
        { unfold s1. destruct prev as [p|]; [|discriminate Lk]. destruct Lk as [w Q].
          pose proof (@EI _ _ _ Q) as (_ & K). destruct p as [|ft'|n' t' st'|t' st'|t' st']; cbn [step_nval].
          - (* after the root: a supplied value *)
            split; [exact I|]. split; [exact IP|]. cbn in K.
            destruct (lookup (KVal n t st) (s_vals s)) as [x|] eqn:L; [eauto|].
            exfalso. exact (@inv_inputs u bh F vals0 s I _ K L).
          - (* after a function: one of its outputs *)
            split; [exact I|]. split; [exact IP|]. cbn [J] in Jp.
            destruct (lookup (KVal n t st) (s_vals s)) as [x|] eqn:L; [eauto|]. exfalso. exact (Jp _ _ Q L).
          - (* after a named value: takes its value *)
            cbn [J] in Jp. destruct Jp as (x & Lx & _). rewrite Lx.
            destruct K as (En & Et & _). subst n' t'.
            split; [|split; [exact IP|]].
            + apply Inv_set_val; [exact I|]. pose proof (@inv_typed u bh F vals0 s I _ _ Lx) as Vx. exact Vx.
            + exists x. rewrite set_val_lookup, Base.eqb_refl. reflexivity.
          - contradiction K.
          - (* after a typed output: takes its value *)
            cbn [J] in Jp. destruct Jp as (x & Lx & _). rewrite Lx.
            destruct K as (Et & _). subst t'.
            split; [|split; [exact IP|]].
            + apply Inv_set_val; [exact I|]. pose proof (@inv_typed u bh F vals0 s I _ _ Lx) as Vx. exact Vx.
            + exists x. rewrite set_val_lookup, Base.eqb_refl. reflexivity. }
        destruct S1 as (I1 & IP1 & x & Lx). rewrite Lx.
        apply (IH (Some (KVal n t st)) (Some x) (set_last s1 (Some x))); auto.
        * eapply Inv_ext; [| |exact I1]; reflexivity.
        * cbn [J]. exists x. cbn [set_last s_vals s_last]. auto.
      + (* KArg *)
        cbn [walk_].
        assert (S1 : exists x, s_last s = Some x /\ assignable u (v_ty x) t = true).
        { destruct prev as [p|]; [|discriminate Lk]. destruct Lk as [w Q].
          pose proof (@EI _ _ _ Q) as (_ & K). destruct p as [|ft'|n' t' st'|t' st'|t' st']; try contradiction K.
          - cbn [J] in Jp. destruct Jp as (x & Lx & Sx & _). destruct K as [Et _]. subst t'.
            exists x. split; [exact Sx|]. exact (@inv_typed u bh F vals0 s I _ _ Lx).
          - cbn [J] in Jp. destruct Jp as (x & Lx & Sx). subst t'.
            exists x. split; [exact Sx|]. exact (@inv_typed u bh F vals0 s I _ _ Lx). }
        destruct S1 as (x & Sx & Ax). unfold step_arg. rewrite Sx, Ax.
        rewrite set_val_lookup, Base.eqb_refl.
        apply (IH (Some (KArg t st)) (Some x) (set_val s (KArg t st) (Some x))); auto.
        * apply Inv_set_val; [exact I|]. exact Ax.
        * cbn [J]. exists x. rewrite set_val_lookup, Base.eqb_refl. auto.
      + (* KOut *)
        cbn [walk_].
        set (s1 := step_val prev (KOut t st) s).
        assert (S1 : Inv s1 /\ s_inprog s1 = inprog0 /\ exists x, lookup (KOut t st) (s_vals s1) = Some x).
        { unfold s1. destruct prev as [p|]; [|discriminate Lk]. destruct Lk as [w Q].
          pose proof (@EI _ _ _ Q) as (_ & K). destruct p as [|ft'|n' t' st'|t' st'|t' st']; cbn [step_val]; try contradiction K.
          - split; [exact I|]. split; [exact IP|]. cbn in K.
            destruct (lookup (KOut t st) (s_vals s)) as [x|] eqn:L; [eauto|].
            exfalso. exact (@inv_inputs u bh F vals0 s I _ K L).
          - split; [exact I|]. split; [exact IP|]. cbn [J] in Jp.
            destruct (lookup (KOut t st) (s_vals s)) as [x|] eqn:L; [eauto|]. exfalso. exact (Jp _ _ Q L).
          - (* an interface output takes the value of an implementation *)
            cbn [J] in Jp. destruct Jp as (x & Lx & _). rewrite Lx.
            split; [|split; [exact IP|]].
            + apply Inv_set_val; [exact I|]. pose proof (@inv_typed u bh F vals0 s I _ _ Lx) as Vx.
              unfold C05CompleteState.val_ok in *. cbn [key_ty] in *. eapply assignable_trans; eauto.
            + exists x. rewrite set_val_lookup, Base.eqb_refl. reflexivity. }
        destruct S1 as (I1 & IP1 & x & Lx). rewrite Lx.
        apply (IH (Some (KOut t st)) final (set_last s1 (Some x))); auto.
        * eapply Inv_ext; [| |exact I1]; reflexivity.
        * cbn [J]. exists x. cbn [set_last s_vals s_last]. auto.
  Qed.
End Walk.

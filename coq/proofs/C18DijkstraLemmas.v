(* C18DijkstraLemmas.v -- generic lemmas used by the Dijkstra correctness
   proof (C18): association lists, remove1/memb, walks, simple walks and the
   bound "weight of a simple walk <= total_weight". *)
From ArgMapper Require Import Base Graph GraphAlg GraphSpec.
From Coq Require Import Lia ZArith List Permutation.
Import ListNotations.
Set Implicit Arguments.
Local Open Scope Z_scope.

Section Lemmas.
  Context {K : Type} {E : EqDec K} {V : Type}.
  Notation graph := (graph K V).

  (* ---------- memb / remove1 ---------- *)
  Lemma memb_In (x : K) l : memb x l = true <-> In x l.
  Proof.
    induction l as [|y l IH]; simpl.
    - split; [discriminate|tauto].
    - rewrite orb_true_iff, IH, eqb_eq. split; intros [A|A]; subst; auto.
  Qed.

  Lemma memb_false (x : K) l : memb x l = false <-> ~ In x l.
  Proof.
    rewrite <- memb_In. destruct (memb x l); split; intros A; auto; try discriminate.
    exfalso; apply A; reflexivity.
  Qed.

  Lemma In_dec_K (x : K) l : In x l \/ ~ In x l.
  Proof.
    destruct (memb x l) eqn:Q.
    - left; apply memb_In; auto.
    - right; apply memb_false; auto.
  Qed.

  Lemma eq_dec_K (x y : K) : x = y \/ x <> y.
  Proof. destruct (eqb_spec x y); auto. Qed.

  Lemma remove1_In_NoDup (u x : K) l :
    NoDup l -> (In x (remove1 u l) <-> In x l /\ x <> u).
  Proof.
    induction l as [|y l IH]; simpl; intros ND.
    - tauto.
    - inversion ND as [|? ? Hy ND']; subst.
      destruct (eqb_spec u y) as [->|Ne].
      + split.
        * intros A. split; auto. intros ->. contradiction.
        * intros [[A|A] B]; auto. subst. contradiction.
      + simpl. rewrite (IH ND'). split.
        * intros [A|[A B]]; subst; auto.
        * intros [[A|A] B]; auto.
  Qed.

  Lemma remove1_NoDup (u : K) l : NoDup l -> NoDup (remove1 u l).
  Proof.
    induction l as [|y l IH]; simpl; intros ND; auto.
    inversion ND as [|? ? Hy ND']; subst.
    destruct (eqb_spec u y) as [->|Ne]; auto.
    constructor; auto.
    intros A. apply remove1_In_NoDup in A; auto. tauto.
  Qed.

  Lemma remove1_length (u : K) l : In u l -> S (length (remove1 u l)) = length l.
  Proof.
    induction l as [|y l IH]; simpl; intros A; [contradiction|].
    destruct (eqb_spec u y) as [->|Ne]; auto.
    destruct A as [A|A]; [congruence|]. simpl. rewrite IH; auto.
  Qed.

  (* ---------- association lists ---------- *)
  Lemma lookup_insert_eq {T} (k : K) (v : T) m : lookup k (insert k v m) = Some v.
  Proof.
    induction m as [|[k' v'] m IH]; simpl.
    - rewrite eqb_refl; auto.
    - destruct (eqb k k') eqn:Q; simpl; rewrite Q; auto.
  Qed.

  Lemma lookup_insert_neq {T} (k k' : K) (v : T) m :
    k' <> k -> lookup k' (insert k v m) = lookup k' m.
  Proof.
    intros Ne. induction m as [|[k0 v0] m IH]; simpl.
    - destruct (eqb_spec k' k); [contradiction|auto].
    - destruct (eqb_spec k k0) as [->|Ne0]; simpl.
      + destruct (eqb_spec k' k0); [contradiction|auto].
      + destruct (eqb_spec k' k0); auto.
  Qed.

  Lemma lookup_In {T} (k : K) (v : T) m : lookup k m = Some v -> In (k, v) m.
  Proof.
    induction m as [|[k' v'] m IH]; simpl; [discriminate|].
    destruct (eqb_spec k k') as [->|Ne]; intros Q.
    - inversion Q; auto.
    - auto.
  Qed.

  Lemma lookup_keys {T} (k : K) (v : T) m : lookup k m = Some v -> In k (keys m).
  Proof.
    intros Q. apply lookup_In in Q. unfold keys. change k with (fst (k, v)). apply in_map; auto.
  Qed.

  Lemma keys_lookup {T} (k : K) (m : amap K T) : In k (keys m) -> exists v, lookup k m = Some v.
  Proof.
    induction m as [|[k' v'] m IH]; simpl; [contradiction|].
    intros [->|A].
    - rewrite eqb_refl. eauto.
    - destruct (eqb k k'); eauto.
  Qed.

  Lemma In_lookup {T} (k : K) (v : T) m : NoDup (keys m) -> In (k, v) m -> lookup k m = Some v.
  Proof.
    induction m as [|[k' v'] m IH]; simpl; [contradiction|].
    intros ND [Q|A].
    - inversion Q; subst. rewrite eqb_refl; auto.
    - inversion ND as [|? ? Hn ND']; subst.
      destruct (eqb_spec k k') as [->|Ne]; auto.
      exfalso. apply Hn. change k' with (fst (k', v)). apply in_map; auto.
  Qed.

  Lemma lookup_map_const {T} (c : T) (v : K) ks :
    lookup v (map (fun k => (k, c)) ks) = if memb v ks then Some c else None.
  Proof.
    induction ks as [|k ks IH]; simpl; auto.
    destruct (eqb v k); simpl; auto.
  Qed.

  (* ---------- edges and walks ---------- *)
  Lemma edge_vertices (g : graph) a b w : wf_graph g -> edge g a b w -> vertex g a /\ vertex g b.
  Proof. intros WF Ed. exact (wf_closed WF _ _ Ed). Qed.

  Lemma walk_end_vertex (g : graph) a b p w : walk g a b p w -> vertex g b.
  Proof. induction 1; auto. Qed.

  Lemma walk_start_vertex (g : graph) a b p w : wf_graph g -> walk g a b p w -> vertex g a.
  Proof.
    intros WF W. destruct W as [a Va|a b c p w1 w2 Ed W]; auto.
    apply (edge_vertices WF Ed).
  Qed.

  Lemma walk_In_vertex (g : graph) a b p w :
    wf_graph g -> walk g a b p w -> forall x, In x p -> vertex g x.
  Proof.
    intros WF W. induction W as [a Va|a b c p w1 w2 Ed W IH]; intros x [A|A]; subst; auto.
    - contradiction.
    - apply (edge_vertices WF Ed).
  Qed.

  Lemma walk_nonneg (g : graph) a b p w : nonneg g -> walk g a b p w -> 0 <= w.
  Proof.
    intros NN W. induction W as [a Va|a b c p w1 w2 Ed W IH]; [lia|].
    pose proof (NN _ _ _ Ed). lia.
  Qed.

  Lemma walk_snoc (g : graph) a b p w :
    walk g a b p w -> forall c w', edge g b c w' -> vertex g c ->
    walk g a c (p ++ [c]) (w + w').
  Proof.
    intros W. induction W as [a Va|a b c p w1 w2 Ed W IH]; intros c' w' Ed' Vc.
    - replace (0 + w') with (w' + 0) by lia.
      change ([a] ++ [c']) with (a :: [c']).
      eapply walk_cons; eauto. constructor; auto.
    - replace (w1 + w2 + w') with (w1 + (w2 + w')) by lia.
      change ((a :: p) ++ [c']) with (a :: (p ++ [c'])).
      eapply walk_cons; eauto.
  Qed.

  (* suffix of a walk starting at any of its vertices *)
  Lemma walk_suffix (g : graph) a c p w :
    nonneg g -> walk g a c p w -> forall x, In x p ->
    exists p1 p' w', p = p1 ++ p' /\ walk g x c p' w' /\ w' <= w.
  Proof.
    intros NN W. induction W as [a Va|a b c p w1 w2 Ed W IH]; intros x A.
    - destruct A as [->|[]]. exists [], [x], 0. repeat split; auto; try lia. constructor; auto.
    - destruct (eq_dec_K x a) as [->|Ne].
      + exists [], (a :: p), (w1 + w2). repeat split; auto; try lia. econstructor; eauto.
      + destruct A as [A|A]; [congruence|].
        destruct (IH x A) as (p1 & p' & w' & Ep & W' & Le).
        exists (a :: p1), p', w'. subst p. repeat split; auto.
        pose proof (NN _ _ _ Ed). lia.
  Qed.

  Lemma NoDup_app_r {T} (l1 l2 : list T) : NoDup (l1 ++ l2) -> NoDup l2.
  Proof.
    induction l1 as [|x l1 IH]; simpl; auto. intros ND. inversion ND; auto.
  Qed.

  (* every walk contains a simple walk that is not heavier *)
  Lemma walk_simple (g : graph) a c p w :
    nonneg g -> walk g a c p w ->
    exists p' w', walk g a c p' w' /\ NoDup p' /\ w' <= w.
  Proof.
    intros NN W. induction W as [a Va|a b c p w1 w2 Ed W IH].
    - exists [a], 0. repeat split; try lia.
      + constructor; auto.
      + constructor; [intros []|constructor].
    - destruct IH as (p' & w' & W' & ND & Le).
      pose proof (NN _ _ _ Ed) as P1.
      destruct (In_dec_K a p') as [A|A].
      + destruct (walk_suffix NN W' _ A) as (p1 & p2 & w2' & Ep & W2 & Le2).
        exists p2, w2'. repeat split; auto; try lia.
        subst p'. eapply NoDup_app_r; eauto.
      + exists (a :: p'), (w1 + w'). repeat split; try lia.
        * econstructor; eauto.
        * constructor; auto.
  Qed.

  (* ---------- sums ---------- *)
  Definition zsum (l : list Z) : Z := fold_right Z.add 0 l.

  Lemma zsum_app l1 l2 : zsum (l1 ++ l2) = zsum l1 + zsum l2.
  Proof. induction l1 as [|x l1 IH]; simpl; lia. Qed.

  Lemma zsum_nonneg l : (forall x, In x l -> 0 <= x) -> 0 <= zsum l.
  Proof.
    induction l as [|x l IH]; simpl; intros P; [lia|].
    assert (0 <= x) by (apply P; auto).
    assert (0 <= zsum l) by (apply IH; intros; apply P; auto). lia.
  Qed.

  Lemma sum_sub {T} (f : T -> Z) (l : list T) :
    forall L, NoDup l -> incl l L -> (forall x, In x L -> 0 <= f x) ->
    zsum (map f l) <= zsum (map f L).
  Proof.
    induction l as [|a l IH]; intros L ND Inc NN; simpl.
    - apply zsum_nonneg. intros x A. apply in_map_iff in A. destruct A as (y & <- & A). auto.
    - inversion ND as [|? ? Ha ND']; subst.
      assert (Ia : In a L) by (apply Inc; left; auto).
      destruct (in_split _ _ Ia) as (L1 & L2 & ->).
      assert (Inc' : incl l (L1 ++ L2)).
      { intros x A. assert (B : In x (L1 ++ a :: L2)) by (apply Inc; right; auto).
        apply in_app_or in B. apply in_or_app. destruct B as [B|[B|B]]; auto.
        subst. contradiction. }
      assert (NN' : forall x, In x (L1 ++ L2) -> 0 <= f x).
      { intros x A. apply NN. apply in_app_or in A. apply in_or_app. destruct A; simpl; auto. }
      pose proof (IH (L1 ++ L2) ND' Inc' NN') as P.
      rewrite map_app, zsum_app in *. simpl. lia.
  Qed.

  (* ---------- total weight as a sum over the list of edges ---------- *)
  Definition all_edges (g : graph) : list (K * K * Z) :=
    flat_map (fun kv : K * amap K Z => map (fun e : K * Z => (fst kv, fst e, snd e)) (snd kv)) (gout g).
  Definition ew (e : K * K * Z) : Z := snd e.

  Lemma inner_fold (l : list (K * Z)) : forall acc,
    fold_left (fun acc (e : K * Z) => acc + snd e) l acc = acc + zsum (map snd l).
  Proof. induction l as [|e l IH]; intros acc; simpl; [lia|]. rewrite IH. lia. Qed.

  Lemma total_weight_sum (g : graph) : total_weight g = zsum (map ew (all_edges g)).
  Proof.
    unfold total_weight, all_edges.
    enough (G : forall (m : adj K) acc,
      fold_left (fun acc (kv : K * amap K Z) => fold_left (fun acc (e : K * Z) => acc + snd e) (snd kv) acc) m acc
      = acc + zsum (map ew (flat_map (fun kv : K * amap K Z => map (fun e : K * Z => (fst kv, fst e, snd e)) (snd kv)) m))).
    { rewrite G. lia. }
    induction m as [|kv m IH]; intros acc; simpl; [lia|].
    rewrite IH, inner_fold, map_app, zsum_app, map_map. unfold ew. simpl.
    rewrite Z.add_assoc. reflexivity.
  Qed.

  Lemma edge_in_all (g : graph) a b w : edge g a b w -> In (a, b, w) (all_edges g).
  Proof.
    unfold edge, inner, all_edges. intros Ed.
    destruct (lookup a (gout g)) as [i|] eqn:Q; [|discriminate].
    apply in_flat_map. exists (a, i). split; [apply lookup_In; auto|].
    simpl. apply in_map_iff. exists (b, w). split; auto. apply lookup_In; auto.
  Qed.

  Lemma all_edge (g : graph) a b w : wf_graph g -> In (a, b, w) (all_edges g) -> edge g a b w.
  Proof.
    unfold all_edges. intros WF A. apply in_flat_map in A. destruct A as ([a' i] & A & B).
    simpl in B. apply in_map_iff in B. destruct B as ([b' w'] & Q & B). simpl in Q.
    inversion Q; subst.
    assert (L : lookup a (gout g) = Some i) by (apply In_lookup; auto; apply (wf_out_nodup WF)).
    unfold edge, inner. rewrite L. apply In_lookup; auto.
    apply (wf_inner_out_nodup WF _ L).
  Qed.

  Lemma walk_edges (g : graph) a b p w :
    walk g a b p w -> NoDup p ->
    exists es, zsum (map ew es) = w /\ NoDup es /\ incl es (all_edges g) /\
               (forall x y z, In (x, y, z) es -> In x p).
  Proof.
    intros W. induction W as [a Va|a b c p w1 w2 Ed W IH]; intros ND.
    - exists []. split; [reflexivity|]. split; [constructor|].
      split; [intros x []|intros ? ? ? []].
    - inversion ND as [|? ? Ha ND']; subst.
      destruct (IH ND') as (es & S & NDe & Inc & Src).
      exists ((a, b, w1) :: es). repeat split.
      + change (zsum (map ew ((a, b, w1) :: es))) with (w1 + zsum (map ew es)).
        rewrite S. reflexivity.
      + constructor; auto. intros A. apply Src in A. contradiction.
      + intros e [<-|A]; auto. apply edge_in_all; auto.
      + intros x y z [Q|A]; [inversion Q; left; auto|right; eauto].
  Qed.

  Lemma walk_bound (g : graph) a b p w :
    wf_graph g -> nonneg g -> walk g a b p w -> NoDup p -> w <= total_weight g.
  Proof.
    intros WF NN W ND.
    destruct (walk_edges W ND) as (es & S & NDe & Inc & _).
    rewrite total_weight_sum, <- S. apply sum_sub; auto.
    intros [[x y] z] A. unfold ew; simpl. apply (NN x y z). apply all_edge; auto.
  Qed.

  (* ---------- wrap64 ---------- *)
  Lemma wrap64_id z : 0 <= z -> z < INF -> wrap64 z = z.
  Proof.
    unfold wrap64, INF. intros A B. rewrite Z.mod_small; lia.
  Qed.

  (* ---------- arg-min over a nonempty list ---------- *)
  Lemma argmin_exists (f : K -> Z) (l : list K) :
    l <> [] -> exists u, In u l /\ forall x, In x l -> f u <= f x.
  Proof.
    induction l as [|y l IH]; intros Ne; [congruence|].
    destruct l as [|z l].
    - exists y. split; [left; auto|]. intros x [<-|[]]. lia.
    - destruct IH as (u & Iu & Mu); [discriminate|].
      destruct (Z_le_gt_dec (f y) (f u)) as [L|G].
      + exists y. split; [left; auto|]. intros x [<-|A]; [lia|]. specialize (Mu x A). lia.
      + exists u. split; [right; auto|]. intros x [<-|A]; [lia|]. auto.
  Qed.
End Lemmas.

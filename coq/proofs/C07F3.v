(* C07F3.v -- C07, family F3: a target with several named parameters of one
   type U, all produced by ONE type-only converter conv : T -> U from supplied
   named values of type T.  For every order tape and every behaviour the i-th
   argument of the target is an output of an execution of conv on exactly the
   supplied value named like the i-th parameter; conv receives nothing else;
   without failing functions the call succeeds. *)
From ArgMapper Require Import Base Graph GraphAlg GraphSpec Types Args Resolver ResolverSpec
     CheckResolver Monitors Monitors2 ResolverStatements ResolverStatements2 ResolverStatements5.
From ArgMapper.proofs Require Import C18DijkstraLemmas C19RefineMap C19RefineGraph C0213UnsatGraph
     C0213UnsatClosure C0213UnsatBuild C0213UnsatPrune C0213UnsatReach
     C07AffinityGraph C07Affinity C07F3Graph C07F3Plan C07F3Walk.
From Coq Require Import List Lia ZArith String.
Import ListNotations.
Set Implicit Arguments.
Local Open Scope Z_scope.

(* ================= the call of a member of the family ================= *)
Section F3Call.
  Variables (u : universe) (T U : ty) (f c : fdecl) (pns : list string)
            (named : list (string * value)) (bd : builder).
  Hypothesis H3 : f3h u T U f c pns named bd.
  Variable bh : behaviour.
  Local Notation PG := (PG3 T f c named).
  Local Notation NU := (vNU U).

  Lemma param_key n : In n pns -> field_key (mkF n U EmptyString) = NU n.
  Proof. intros I. unfold field_key. cbn [f_name f_ty f_sub]. rewrite (h_pE H3 n I). reflexivity. Qed.

  Lemma target_args am :
    (forall n, In n pns -> exists a, lookup (NU n) am = Some a /\ v_ty a = U) ->
    forall l, (forall p, In p l -> exists n, In n pns /\ p = mkF n U EmptyString) ->
    existsb (fun a : field * option value =>
               match snd a with
               | Some v => negb (assignable u (v_ty v) (f_ty (fst a)))
               | None => false end)
            (map (fun fld => (fld, lookup (field_key fld) am)) l) = false /\
    existsb (fun a : field * option value => match snd a with None => true | Some _ => false end)
            (map (fun fld => (fld, lookup (field_key fld) am)) l) = false /\
    Forall2 (fun p a => lookup (field_key p) am = Some a) l
      (flat_map (fun a : field * option value =>
                   match snd a with Some v => [mkV (v_id v) (f_ty (fst a))] | None => [] end)
                (map (fun fld => (fld, lookup (field_key fld) am)) l)).
  Proof.
    intros Ham. induction l as [|p l IH]; intros Hl.
    - cbn. repeat split. constructor.
    - destruct (Hl p (or_introl eq_refl)) as (n & In' & ->).
      destruct (Ham n In') as (a & La & Ta).
      destruct IH as (E1 & E2 & F2); [intros q Iq; apply Hl; right; exact Iq|].
      cbn [map existsb flat_map fst snd]. rewrite (param_key n In'), La. cbn [f_ty].
      rewrite E1, E2. rewrite Ta. unfold assignable. rewrite Z.eqb_refl. cbn [orb negb app].
      repeat split. constructor; [|exact F2].
      rewrite (param_key n In'), La. destruct a as [ia ta]. cbn [v_id v_ty] in *. subst ta. reflexivity.
  Qed.

  Lemma call_direct_target am s res s' :
    (forall n, In n pns -> exists a, lookup (NU n) am = Some a /\ v_ty a = U) ->
    call_direct u bh false f am s = Ok (res, s') ->
    r_builderr res = false /\ (no_failures bh -> r_err res = None) /\
    exists argv, s_trace s' = s_trace s ++ [EExec (fn_id f) argv (r_fields res) (r_err res)] /\
                 Forall2 (fun p a => lookup (field_key p) am = Some a) (fn_in f) argv.
  Proof.
    intros Ham. unfold call_direct. rewrite (h_fonce H3). cbv zeta.
    destruct (@target_args am Ham (fn_in f)) as (E1 & E2 & F2).
    { intros p Ip. rewrite (h_f H3) in Ip. apply in_map_iff in Ip. destruct Ip as (n & <- & In'). eauto. }
    rewrite E1, E2.
    destruct (bh (fn_id f) (s_nexec s + 1)) eqn:B; intros X; inversion X; subst res s'; clear X;
      cbn [r_fields r_err r_builderr s_trace]; (split; [reflexivity|]); (split; [|eexists; split; [reflexivity|exact F2]]).
    - intros _. destruct (fn_err f); reflexivity.
    - intros NF. specialize (NF (fn_id f) (s_nexec s + 1)). rewrite B in NF. destruct NF.
    - intros _. destruct (fn_err f); reflexivity.
  Qed.

  Lemma param_in n : In n pns -> In (mkF n U EmptyString) (fn_in f).
  Proof. intros I. rewrite (h_f H3). apply (in_map (fun n0 => mkF n0 U EmptyString)). exact I. Qed.

  Lemma conv_events_ok tr :
    tr_ok T c pns named tr ->
    forall args outs e, In (EExec (fn_id c) args outs e) tr ->
      exists p vn, In p (fn_in f) /\ lookup (f_name p) named = Some vn /\ args = [mkV (v_id vn) T].
  Proof.
    intros TR args outs e I. destruct (TR _ I) as (n & vn & couts & err & In' & Lk & E).
    inversion E; subst. exists (mkF n U EmptyString), vn. split; [apply param_in; exact In'|]. split; [exact Lk|reflexivity].
  Qed.

  Lemma no_target_event tr args outs e :
    tr_ok T c pns named tr -> ~ In (EExec (fn_id f) args outs e) tr.
  Proof.
    intros TR I. destruct (TR _ I) as (n & vn & couts & err & _ & _ & E). inversion E as [[E1 E2 E3 E4]].
    apply (h_cid H3). symmetry. exact E1.
  Qed.

  Theorem call_family3 opts t r :
    build_args [] opts = Some bd ->
    call u bh f [] opts world0 t = Ok r ->
    (forall args outs e, In (EExec (fn_id f) args outs e) (run_trace r) ->
       Forall2 (fun p a => exists vn couts,
                   lookup (f_name p) named = Some vn /\
                   In (EExec (fn_id c) [mkV (v_id vn) T] couts None) (run_trace r) /\
                   In a couts)
               (fn_in f) args) /\
    (forall args outs e, In (EExec (fn_id c) args outs e) (run_trace r) ->
       exists p vn, In p (fn_in f) /\ lookup (f_name p) named = Some vn /\ args = [mkV (v_id vn) T]) /\
    (no_failures bh -> co_ok (co_of_run r) = true).
  Proof.
    intros HB. rewrite (call_unfold u bh f [] opts world0 t HB (full_graph3_eq H3 t)), (prune3_eq H3).
    unfold fuel_of. cbn [cg_g CG3 cg_target].
    pose proof (PG3_keys_ge H3) as Ge.
    destruct (List.length (g_vertex_keys PG)) as [|k2] eqn:El; [lia|].
    destruct (reach u bh PG false (S (S k2)) (vfk f) (init_state (CG3 T f c named t) world0)) as [[s r0]| | |] eqn:R;
      cbn [bind]; try discriminate.
    destruct (@reach_top3 _ _ _ _ _ _ _ _ H3 bh k2 (init_state (CG3 T f c named t) world0) s r0 eq_refl eq_refl eq_refl R)
      as (TR & R0).
    destruct r0 as [am|e0].
    - destruct R0 as (AM & Hall).
      assert (Ham : forall n, In n pns -> exists a, lookup (NU n) am = Some a /\ v_ty a = U).
      { intros n In'. destruct (lookup (NU n) am) as [a|] eqn:La; [|contradiction (Hall n In'); exact La].
        exists a. split; [reflexivity|]. destruct (AM _ _ La) as (n1 & vn1 & couts1 & _ & _ & _ & _ & _ & Ta). exact Ta. }
      destruct (call_direct u bh false f am s) as [[res s']| | |] eqn:CD; cbn [bind]; try discriminate.
      destruct (@call_direct_target am s res s' Ham CD) as (Be & NF & argv & Tr' & F2).
      intros X. inversion X; subst r; clear X. cbn [run_trace run_out]. rewrite Be.
      split; [|split].
      + intros args outs e I. rewrite Tr' in I. apply in_app_or in I. destruct I as [I|[I|[]]].
        * exfalso. apply (@no_target_event _ _ _ _ TR I).
        * inversion I; subst args outs e. clear I.
          apply (Forall2_impl_in _ F2). intros p a Ip La.
          rewrite (h_f H3) in Ip. apply in_map_iff in Ip. destruct Ip as (n & <- & In').
          rewrite (param_key n In') in La.
          destruct (AM _ _ La) as (n1 & vn1 & couts1 & E1 & I1 & L1 & Ev1 & Ia1 & Ta).
          unfold vNU in E1. inversion E1; subst n1.
          exists vn1, couts1. cbn [f_name]. split; [exact L1|]. split; [|exact Ia1].
          rewrite Tr'. apply in_or_app. left. exact Ev1.
      + intros args outs e I. rewrite Tr' in I. apply in_app_or in I. destruct I as [I|[I|[]]].
        * apply (conv_events_ok TR _ _ _ I).
        * exfalso. inversion I as [[E1 E2 E3 E4]]. apply (h_cid H3). symmetry. exact E1.
      + intros NoF. unfold co_of_run. cbn [run_out]. rewrite (NF NoF). reflexivity.
    - intros X. inversion X; subst r; clear X. cbn [run_trace run_out].
      split; [|split].
      + intros args outs e I. exfalso. apply (@no_target_event _ _ _ _ TR I).
      + intros args outs e I. apply (conv_events_ok TR _ _ _ I).
      + intros NoF. exfalso. apply R0. exact NoF.
  Qed.
End F3Call.

(* ================= what f3_ok says ================= *)
Lemma field_eta (p : field) ty0 :
  f_ty p = ty0 -> f_sub p = EmptyString -> p = mkF (f_name p) ty0 EmptyString.
Proof. destruct p as [a b d]. cbn. intros -> ->. reflexivity. Qed.

Lemma f3_ok_facts F : f3_ok F = true ->
  f3h (f3_u F) (f3_T F) (f3_U F) (f3_target F) (f3_conv F) (map (fun p => f_name p) (fn_in (f3_target F)))
      (f3_named F) (fam_builder (f3_named F) [f3_conv F]) /\
  (forall m v, In (m, v) (f3_named F) -> String.eqb m EmptyString = false /\ lower m = m).
Proof.
  unfold f3_ok. intros H. rewrite !andb_true_iff in H.
  destruct H as ((((((((((((((((((HTU & HiT) & HiU) & Hlen2) & Hps) & Hpnd) & Htonce) & Hcin) & Hcout) & Hty) & Hid) & Hpos) & Hconce) & Hwft) & Hwfc) & Hnd) & Hpin) & Hall) & Hids).
  rewrite forallb_forall in Hps.
  assert (Ps : forall p, In p (fn_in (f3_target F)) ->
             String.eqb (f_name p) EmptyString = false /\ f_ty p = f3_U F /\ f_sub p = EmptyString).
  { intros p Ip. specialize (Hps p Ip). rewrite !andb_true_iff in Hps. destruct Hps as (((A1 & A2) & A3) & A4).
    split; [apply negb_true_iff in A1; exact A1|]. split; [apply Z.eqb_eq; exact A3|].
    unfold is_empty in A4. apply beq_true in A4. exact A4. }
  assert (Each : forall m v, In (m, v) (f3_named F) ->
            (String.eqb m EmptyString = false /\ lower m = m) /\ v_ty v = f3_T F /\ 0 < v_id v < 1000).
  { intros m v I. rewrite forallb_forall in Hall. specialize (Hall (m, v) I). cbn [fst snd] in Hall.
    rewrite !andb_true_iff in Hall. destruct Hall as ((((D1 & D2) & D3) & D4) & D5).
    split; [split|split].
    - apply negb_true_iff in D1. exact D1.
    - apply beq_true in D2. symmetry. exact D2.
    - apply Z.eqb_eq in D3. exact D3.
    - apply Z.ltb_lt in D4. apply Z.ltb_lt in D5. lia. }
  assert (NDn : NoDup (map fst (f3_named F))) by (apply nodupb_NoDup; exact Hnd).
  assert (NDp : NoDup (map (fun p => f_name p) (fn_in (f3_target F)))) by (apply nodupb_NoDup; exact Hpnd).
  assert (Pin : forall n, In n (map (fun p => f_name p) (fn_in (f3_target F))) -> In n (map fst (f3_named F))).
  { intros n I. apply in_map_iff in I. destruct I as (p & <- & Ip).
    rewrite forallb_forall in Hpin. apply membT. apply Hpin. exact Ip. }
  assert (Ln : (List.length (f3_named F) <= 999)%nat).
  { rewrite <- (map_length (fun nv => v_id (snd nv))). apply nodup_bounded_len.
    - apply nodupb_NoDup. exact Hids.
    - intros x Ix. apply in_map_iff in Ix. destruct Ix as ([m v] & <- & I).
      cbn [snd]. apply (Each m v I). }
  split; [|intros m v I; apply (Each m v I)].
  constructor.
  - apply negb_true_iff in HTU. apply Z.eqb_neq in HTU. exact HTU.
  - rewrite map_map. rewrite <- (map_id (fn_in (f3_target F))) at 1. apply map_ext_in.
    intros p Ip. destruct (Ps p Ip) as (_ & A2 & A3). apply field_eta; assumption.
  - intros n I. apply in_map_iff in I. destruct I as (p & <- & Ip). apply (Ps p Ip).
  - destruct (fn_in (f3_target F)) as [|p0 l]; [discriminate Hlen2|]. exists (f_name p0). left. reflexivity.
  - exact Pin.
  - exact NDp.
  - apply beq_true in Hcin. apply sig_single in Hcin. exact Hcin.
  - apply beq_true in Hcout. apply sig_single in Hcout. exact Hcout.
  - apply negb_true_iff in Hty. apply Z.eqb_neq in Hty. exact Hty.
  - apply negb_true_iff in Hid. apply Z.eqb_neq in Hid. exact Hid.
  - apply negb_true_iff in Hconce. exact Hconce.
  - apply negb_true_iff in Htonce. exact Htonce.
  - intros m v I. destruct (Each m v I) as ((A1 & _) & A2 & _). split; assumption.
  - apply negb_true_iff in HiT. exact HiT.
  - apply negb_true_iff in HiU. exact HiU.
  - reflexivity.
  - reflexivity.
  - reflexivity.
  - reflexivity.
  - reflexivity.
  - reflexivity.
  - exact NDn.
  - exact Ln.
  - rewrite <- (map_length fst) in Ln.
    apply (Nat.le_trans _ (List.length (map fst (f3_named F)))); [|exact Ln].
    apply NoDup_incl_length; [exact NDp|exact Pin].
Qed.

(* ================= F3 ================= *)
Theorem C07_f3_proof : C07_f3_statement.
Proof.
  intros F bh t r Hok Hcall.
  destruct (f3_ok_facts F Hok) as (H3 & Hlow).
  assert (HB : build_args [] (f3_opts F) = Some (fam_builder (f3_named F) [f3_conv F])).
  { apply (build_family (f3_named F) [f3_conv F]); [exact Hlow|apply (h_nd H3)]. }
  exact (call_family3 H3 bh (f3_opts F) t HB Hcall).
Qed.
Print Assumptions C07_f3_proof.

(* C05CompleteReachEq.v -- [reach] restated: the nested fixpoints of
   Resolver.reach as separate definitions with the recursive call
   abstracted; the unfolding equation holds by computation. *)
From ArgMapper Require Import Base Graph GraphAlg GraphSpec Types Args Resolver.
From Coq Require Import Lia ZArith List.
Import ListNotations.
Set Implicit Arguments.
Local Open Scope Z_scope.

Section ReachEq.
  Variable u : universe.
  Variable behave : behaviour.
  Variable g : rgraph.
  Variable redefine : bool.
  (* the recursive call: reach at the smaller fuel *)
  Variable rec : vkey -> rstate -> res (rstate * (argmap + rerr)).

  (* what happens at a function vertex of a path *)
  Definition walk_func (v : vkey) (f : fdecl) (s : rstate)
             (k : rstate -> res (rstate * (option value + rerr)))
    : res (rstate * (option value + rerr)) :=
    do (s, r) <- rec v s;
    match r with
    | inr e => Ok (s, inr e)
    | inl fam =>
        do (res, s) <- call_direct u behave redefine f fam s;
        if r_builderr res then Ok (s, inr XMissing)
        else match r_err res with
             | Some e => Ok (s, inr (XConv e))
             | None =>
                 do (ins, t') <- take_perm SITE_REACH_IN (g_in_keys g v) (s_tape s);
                 do s <- output_values f res ins (set_tape s t');
                 k s
             end
    end.

  (* a typed output takes the value of the typed output it follows *)
  Definition step_val (prev : option vkey) (v : vkey) (s : rstate) : rstate :=
    match prev with
    | Some (KOut t st) => set_val s v (lookup (KOut t st) (s_vals s))
    | _ => s end.
  (* a named value takes the value of the typed output or named value it follows *)
  Definition step_nval (prev : option vkey) (v : vkey) (s : rstate) : rstate :=
    match prev with
    | Some (KOut t st) => set_val s v (lookup (KOut t st) (s_vals s))
    | Some (KVal n2 t2 s2) =>
        match lookup (KVal n2 t2 s2) (s_vals s) with
        | Some x => set_val s v (Some x)
        | None => s
        end
    | _ => s end.

  Definition step_arg (v : vkey) (t : ty) (s : rstate) : rstate :=
    match s_last s with
    | Some x => if assignable u (v_ty x) t then set_val s v (Some x) else s
    | None => s end.

  Fixpoint walk_ (prev : option vkey) (vs : list vkey) (final : option value) (s : rstate)
    : res (rstate * (option value + rerr)) :=
    match vs with
    | [] => Ok (s, inl final)
    | v :: vs =>
      match v with
      | KRoot => walk_ (Some v) vs final s
      | KVal _ _ _ =>
          let s := step_nval prev v s in
          let cur := lookup v (s_vals s) in
          let s := set_last s cur in
          walk_ (Some v) vs (match cur with Some x => Some x | None => final end) s
      | KArg t _ =>
          let s := step_arg v t s in
          walk_ (Some v) vs (lookup v (s_vals s)) s
      | KOut _ _ =>
          let s := step_val prev v s in
          let s := set_last s (lookup v (s_vals s)) in
          walk_ (Some v) vs final s
      | KFunc _ =>
          match g_vertex g v with
          | Some (PFunc f) => walk_func v f s (fun s => walk_ (Some v) vs final s)
          | _ => Panic 403%N
          end
      end
    end.

  Definition leave_ (target : vkey) (s : rstate) : rstate :=
    set_inprog s (remove1 target (s_inprog s)).

  Definition walk_paths_ (target : vkey) :=
    fix wp (paths : list (list vkey)) (am : argmap) (s : rstate) {struct paths}
    : res (rstate * (argmap + rerr)) :=
    match paths with
    | [] => Ok (leave_ target s, inl am)
    | path :: rest =>
        bind (walk_ None path None s)
             (fun sr => let '(s, r) := sr in
                match r with
                | inr e => Ok (leave_ target s, inr e)
                | inl None => Panic 404%N
                | inl (Some fv) => wp rest (insert (last path KRoot) fv am) s
                end)
    end.

  Lemma walk_paths_nil target am s : walk_paths_ target [] am s = Ok (leave_ target s, inl am).
  Proof. reflexivity. Qed.
  Lemma walk_paths_cons target path rest am s :
    walk_paths_ target (path :: rest) am s =
    bind (walk_ None path None s)
         (fun sr => let '(s, r) := sr in
            match r with
            | inr e => Ok (leave_ target s, inr e)
            | inl None => Panic 404%N
            | inl (Some fv) => walk_paths_ target rest (insert (last path KRoot) fv am) s
            end).
  Proof. reflexivity. Qed.

  (* which requirements still need a value *)
  Definition req_step (s : rstate) (acc : argmap * list vkey) (o : vkey) : argmap * list vkey :=
    let '(am, todo) := acc in
    match o with
    | KRoot => (am, todo)
    | KArg _ _ => match lookup o (s_vals s) with
                  | Some v => (insert o v am, todo)
                  | None => (am, todo ++ [o])
                  end
    | KVal _ _ _ => match (if redefine then None else lookup o (s_vals s)) with
                    | Some v => (insert o v am, todo)
                    | None => (am, todo ++ [o])
                    end
    | _ => (am, todo ++ [o])
    end.
  Definition req_split (s : rstate) (outs : list vkey) : argmap * list vkey :=
    fold_left (req_step s) outs (([] : argmap), ([] : list vkey)).

  Definition plan_step (acc : res (list (list vkey) * list vkey * rstate)) (cur : vkey)
    : res (list (list vkey) * list vkey * rstate) :=
    do (paths, unsat, s) <- acc;
    do (path, bad, s) <- plan g redefine cur s;
    Ok (paths ++ [path], (if (bad : bool) then unsat ++ [cur] else unsat), s).
  Definition plan_all (todo : list vkey) (s : rstate) : res (list (list vkey) * list vkey * rstate) :=
    fold_left plan_step todo (Ok ([], [], s)).

  Definition reach_body (target : vkey) (s : rstate) : res (rstate * (argmap + rerr)) :=
    let s := set_inprog s (target :: s_inprog s) in
    do (outs, t') <- take_perm SITE_REACH_OUT (g_out_keys g target) (s_tape s);
    let s := set_tape s t' in
    let '(am, todo) := req_split s outs in
    match todo with
    | [] => Ok (leave_ target s, inl am)
    | _ =>
      do (paths, unsat, s) <- plan_all todo s;
      match unsat with
      | _ :: _ => Ok (leave_ target s, inr (XUnsat unsat [] [] false))
      | [] => walk_paths_ target paths am s
      end
    end.
End ReachEq.

Lemma reach_0 u bh g rd target s : reach u bh g rd 0 target s = OutOfFuel.
Proof. reflexivity. Qed.

Lemma reach_S u bh g rd fuel target s :
  reach u bh g rd (S fuel) target s = reach_body u bh g rd (reach u bh g rd fuel) target s.
Proof. reflexivity. Qed.

(* C0213UnsatBuild.v -- invariants of the call graph built by [full_graph]:
   well-formedness, payloads of function vertices, out-edges of function
   vertices, weights, monotonicity of every construction step, and the
   specific edges C13 / C02 rely on. *)
From ArgMapper Require Import Base Graph GraphAlg GraphSpec Types Args Resolver ResolverSpec GenWeights.
From ArgMapper.proofs Require Import C18DijkstraLemmas C19RefineMap C19RefineGraph C0213UnsatGraph.
From Coq Require Import List Lia ZArith.
Import ListNotations.
Set Implicit Arguments.
Local Open Scope Z_scope.

(* ---------- add_v / add_e on the functional view ---------- *)
Definition present (g : rgraph) (k : vkey) : bool :=
  match vtx g k with Some _ => true | None => false end.

Lemma present_true g k : present g k = true <-> vtx g k <> None.
Proof. unfold present. destruct (vtx g k); split; congruence. Qed.

Lemma add_e_spec (g : rgraph) (a b : vkey) (w : Z) :
  wf_graph g ->
  wf_graph (add_e g a b w) /\
  (forall k, vtx (add_e g a b w) k = vtx g k) /\
  (forall a' b', ew (add_e g a b w) a' b' =
                 if present g a && present g b && Base.eqb a' a && Base.eqb b' b
                 then Some w else ew g a' b').
Proof.
  intros W. unfold add_e. destruct (add_edge_spec a b w W) as (g' & Q & W' & Hv & He).
  rewrite Q. split; [exact W'|]. split; [exact Hv|].
  intros a' b'. rewrite He. unfold present.
  destruct (vtx g a); simpl; [|reflexivity]. destruct (vtx g b); simpl; reflexivity.
Qed.

Lemma add_v_spec (g : rgraph) (k : vkey) :
  wf_graph g ->
  wf_graph (add_v g k) /\
  (forall k', vtx (add_v g k) k' = if present g k then vtx g k' else if Base.eqb k' k then Some PNone else vtx g k') /\
  (forall a b, ew (add_v g k) a b = ew g a b).
Proof.
  intros W. unfold add_v. destruct (add_spec k PNone W) as (W' & Hv & He).
  split; [exact W'|]. split; [|exact He].
  intros k'. rewrite Hv. unfold present. destruct (vtx g k); reflexivity.
Qed.

(* ---------- monotonicity ---------- *)
Definition gle (g g' : rgraph) : Prop :=
  (forall k, vtx g k <> None -> vtx g' k <> None) /\
  (forall a b, ew g a b <> None -> ew g' a b <> None).

Lemma gle_refl g : gle g g.
Proof. split; auto. Qed.
Lemma gle_trans g1 g2 g3 : gle g1 g2 -> gle g2 g3 -> gle g1 g3.
Proof. intros [A B] [C D]. split; auto. Qed.

(* ---------- the invariant ---------- *)
Record GInv (known : list fdecl) (g : rgraph) : Prop := {
  gi_wf : wf_graph g;
  gi_root : vtx g KRoot <> None;
  gi_pay : forall ft p, vtx g (KFunc ft) = Some p ->
                        exists c, p = PFunc c /\ In c known /\ fn_type c = ft;
  gi_fout : forall ft b, ew g (KFunc ft) b <> None ->
                         b = KRoot \/ exists c, In c known /\ fn_type c = ft /\ In b (map field_key (fn_in c));
  gi_wt : forall a b w, ew g a b = Some w -> 0 <= w <= 20 }.

Lemma GInv_mono known known' g : incl known known' -> GInv known g -> GInv known' g.
Proof.
  intros Inc [W R P F T]. constructor; auto.
  - intros ft p Q. destruct (P ft p Q) as (c & -> & I & Ty). exists c. auto.
  - intros ft b Q. destruct (F ft b Q) as [->|(c & I & Ty & Ib)]; [left; reflexivity|].
    right. exists c. auto.
Qed.

(* ---------- elementary construction steps ---------- *)
Inductive gstep (known : list fdecl) (af : bool) : rgraph -> rgraph -> Prop :=
| gs_v g k : is_func k = false -> gstep known af g (add_v g k)
| gs_ow g k : is_func k = false -> gstep known af g (g_add_overwrite g k PNone)
| gs_e g a b w : is_func a = false -> 0 <= w <= 20 -> gstep known af g (add_e g a b w)
| gs_f g c : af = true -> In c known -> gstep known af g (g_add g (KFunc (fn_type c)) (PFunc c))
| gs_fe g c b w : In c known -> (b = KRoot \/ In b (map field_key (fn_in c))) -> 0 <= w <= 20 ->
                  gstep known af g (add_e g (KFunc (fn_type c)) b w).

Inductive gsteps (known : list fdecl) (af : bool) : rgraph -> rgraph -> Prop :=
| gss_refl g : gsteps known af g g
| gss_snoc g g' g'' : gsteps known af g g' -> gstep known af g' g'' -> gsteps known af g g''.

Lemma gsteps_trans known af g1 g2 g3 : gsteps known af g1 g2 -> gsteps known af g2 g3 -> gsteps known af g1 g3.
Proof.
  intros A B. induction B as [|g g' g'' B IH S]; [exact A|].
  eapply gss_snoc; [apply IH; exact A|exact S].
Qed.

Lemma gsteps_one known af g g' : gstep known af g g' -> gsteps known af g g'.
Proof. intros S. eapply gss_snoc; [apply gss_refl|exact S]. Qed.

Lemma gstep_mono known af known' g g' : incl known known' -> gstep known af g g' -> gstep known' af g g'.
Proof.
  intros Inc S. destruct S.
  - apply gs_v; auto.
  - apply gs_ow; auto.
  - apply gs_e; auto.
  - apply gs_f; auto.
  - apply gs_fe; auto.
Qed.

Lemma gsteps_mono known af known' g g' : incl known known' -> gsteps known af g g' -> gsteps known' af g g'.
Proof.
  intros Inc S. induction S as [|g g' g'' S IH St]; [apply gss_refl|].
  eapply gss_snoc; [exact IH|eapply gstep_mono; eauto].
Qed.

Lemma gsteps_af known g g' : gsteps known false g g' -> gsteps known true g g'.
Proof.
  intros S. induction S as [|g g' g'' S IH St]; [apply gss_refl|].
  eapply gss_snoc; [exact IH|]. destruct St.
  - apply gs_v; auto.
  - apply gs_ow; auto.
  - apply gs_e; auto.
  - discriminate.
  - apply gs_fe; auto.
Qed.

Lemma gsteps_fold known af {B} (F : rgraph -> B -> rgraph) (l : list B) (g : rgraph) :
  (forall g x, In x l -> gsteps known af g (F g x)) -> gsteps known af g (fold_left F l g).
Proof.
  intros St. apply (fold_left_inv (fun g' => gsteps known af g g')).
  - apply gss_refl.
  - intros a x A I. eapply gsteps_trans; [exact A|apply St; exact I].
Qed.

Lemma is_func_false_neq k ft : is_func k = false -> Base.eqb (KFunc ft) k = false.
Proof. intros N. apply Base.eqb_neq. intros <-. discriminate. Qed.

Lemma gstep_inv known af g g' : GInv known g -> gstep known af g g' -> GInv known g' /\ gle g g'.
Proof.
  intros [W R P F T] S. destruct S as [g k Nf|g k Nf|g a b w Nf Wt|g c Ic|g c b w Ic Hb Wt].
  - destruct (add_v_spec k W) as (W' & Hv & He). split.
    + constructor.
      * exact W'.
      * rewrite Hv. destruct (present g k); [exact R|]. destruct (Base.eqb KRoot k); [discriminate|exact R].
      * intros ft p. rewrite Hv. destruct (present g k); [apply P|].
        rewrite (is_func_false_neq _ ft Nf). apply P.
      * intros ft b. rewrite He. apply F.
      * intros a b w. rewrite He. apply T.
    + split.
      * intros k'. rewrite Hv. destruct (present g k); [auto|]. destruct (Base.eqb k' k); [discriminate|auto].
      * intros a b. rewrite He. auto.
  - destruct (overwrite_spec k PNone W) as (W' & Hv & He). split.
    + constructor.
      * exact W'.
      * rewrite Hv. destruct (Base.eqb KRoot k); [discriminate|exact R].
      * intros ft p. rewrite Hv. rewrite (is_func_false_neq _ ft Nf). apply P.
      * intros ft b. rewrite He. apply F.
      * intros a b w. rewrite He. apply T.
    + split.
      * intros k'. rewrite Hv. destruct (Base.eqb k' k); [discriminate|auto].
      * intros a b. rewrite He. auto.
  - destruct (add_e_spec a b w W) as (W' & Hv & He). split.
    + constructor.
      * exact W'.
      * rewrite Hv. exact R.
      * intros ft p. rewrite Hv. apply P.
      * intros ft b'. rewrite He. rewrite (is_func_false_neq _ ft Nf).
        rewrite andb_false_r. simpl. apply F.
      * intros a' b' w'. rewrite He.
        destruct (present g a && present g b && Base.eqb a' a && Base.eqb b' b).
        -- intros Q; inversion Q; subst. exact Wt.
        -- apply T.
    + split.
      * intros k'. rewrite Hv. auto.
      * intros a' b'. rewrite He.
        destruct (present g a && present g b && Base.eqb a' a && Base.eqb b' b); [discriminate|auto].
  - destruct (add_spec (KFunc (fn_type c)) (PFunc c) W) as (W' & Hv & He). split.
    + constructor.
      * exact W'.
      * rewrite Hv. destruct (vtx g (KFunc (fn_type c))); [exact R|]. simpl. exact R.
      * intros ft p. rewrite Hv. destruct (vtx g (KFunc (fn_type c))) eqn:Q; [apply P|].
        destruct (Base.eqb_spec (KFunc ft) (KFunc (fn_type c))) as [Eq|Ne]; [|apply P].
        intros Q'; inversion Q'; subst. inversion Eq; subst. exists c. auto.
      * intros ft b. rewrite He. apply F.
      * intros a b w. rewrite He. apply T.
    + split.
      * intros k'. rewrite Hv. destruct (vtx g (KFunc (fn_type c))); [auto|].
        destruct (Base.eqb k' (KFunc (fn_type c))); [discriminate|auto].
      * intros a b. rewrite He. auto.
  - destruct (add_e_spec (KFunc (fn_type c)) b w W) as (W' & Hv & He). split.
    + constructor.
      * exact W'.
      * rewrite Hv. exact R.
      * intros ft p. rewrite Hv. apply P.
      * intros ft b'. rewrite He.
        destruct (present g (KFunc (fn_type c)) && present g b); cbn [andb]; [|apply F].
        destruct (Base.eqb_spec (KFunc ft) (KFunc (fn_type c))) as [E1|N1]; cbn [andb]; [|apply F].
        destruct (Base.eqb_spec b' b) as [E2|N2]; [|apply F].
        intros _. inversion E1; subst.
        destruct Hb as [->|Hb]; [left; reflexivity|]. right. exists c. auto.
      * intros a' b' w'. rewrite He.
        destruct (present g (KFunc (fn_type c)) && present g b && Base.eqb a' (KFunc (fn_type c)) && Base.eqb b' b).
        -- intros Q; inversion Q; subst. exact Wt.
        -- apply T.
    + split.
      * intros k'. rewrite Hv. auto.
      * intros a' b'. rewrite He.
        destruct (present g (KFunc (fn_type c)) && present g b && Base.eqb a' (KFunc (fn_type c)) && Base.eqb b' b); [discriminate|auto].
Qed.

Lemma gsteps_inv known af g g' : GInv known g -> gsteps known af g g' -> GInv known g' /\ gle g g'.
Proof.
  intros I S. induction S as [|g g' g'' S IH St].
  - split; [exact I|apply gle_refl].
  - destruct (IH I) as [I' L]. destruct (gstep_inv I' St) as [I'' L'].
    split; [exact I''|eapply gle_trans; eauto].
Qed.

(* ---------- Func.graph ---------- *)
Lemma field_key_nf fld : is_func (field_key fld) = false.
Proof. unfold field_key. destruct (String.eqb (f_name fld) ""); reflexivity. Qed.
Lemma field_out_key_nf fld : is_func (field_out_key fld) = false.
Proof. unfold field_out_key. destruct (String.eqb (f_name fld) ""); reflexivity. Qed.

Lemma wt_normal : 0 <= w_normal <= 20. Proof. unfold w_normal; lia. Qed.
Lemma wt_typed : 0 <= w_typed <= 20. Proof. unfold w_typed; lia. Qed.
Lemma wt_other : 0 <= w_other_subtype <= 20. Proof. unfold w_other_subtype; lia. Qed.

Definition first_fn (g : rgraph) (c : fdecl) : rgraph :=
  let fk := KFunc (fn_type c) in
  let ga := g_add g fk (PFunc c) in
  match fn_in c with
  | [] => add_e ga fk KRoot w_normal
  | fld :: _ => add_e (add_v ga (field_key fld)) fk (field_key fld)
                      (if String.eqb (f_name fld) EmptyString then w_typed else w_normal)
  end.

Lemma first_fn_steps known g c : In c known -> gsteps known true g (first_fn g c).
Proof.
  intros Ic. unfold first_fn.
  assert (Sa : gsteps known true g (g_add g (KFunc (fn_type c)) (PFunc c))).
  { apply gsteps_one, gs_f; [reflexivity|exact Ic]. }
  destruct (fn_in c) as [|fld rest] eqn:Q.
  - eapply gss_snoc; [exact Sa|]. apply gs_fe; auto using wt_normal.
  - eapply gss_snoc; [eapply gss_snoc; [exact Sa|apply gs_v, field_key_nf]|].
    apply gs_fe; [exact Ic|right; rewrite Q; left; reflexivity|].
    destruct (String.eqb (f_name fld) ""); auto using wt_normal, wt_typed.
Qed.

Lemma func_graph_rest known af g c io : In c known -> gsteps known af (first_fn g c) (func_graph g c io).
Proof.
  intros Ic. unfold func_graph, first_fn.
  set (fk := KFunc (fn_type c)).
  set (ga := g_add g fk (PFunc c)).
  set (F := fun (g0 : rgraph) (fld : field) =>
              add_e (add_v g0 (field_key fld)) fk (field_key fld)
                    (if String.eqb (f_name fld) "" then w_typed else w_normal)).
  assert (SF : forall l g0, incl l (fn_in c) -> gsteps known af g0 (fold_left F l g0)).
  { intros l g0 Inc. apply gsteps_fold. intros g1 fld I. unfold F.
    eapply gss_snoc; [apply gsteps_one, gs_v, field_key_nf|].
    apply gs_fe; [exact Ic|right; apply in_map; apply Inc; exact I|].
    destruct (String.eqb (f_name fld) ""); auto using wt_normal, wt_typed. }
  assert (SO : forall g0, gsteps known af g0
             (if io then
                fold_left (fun g fld => let k := field_out_key fld in add_e (add_v g k) k fk w_typed)
                          (typed_entries (fn_out c))
                  (fold_left (fun g fld => let k := field_out_key fld in add_e (add_v g k) k fk w_normal)
                             (named_entries (fn_out c)) g0)
              else g0)).
  { intros g0. destruct io; [|apply gss_refl].
    eapply gsteps_trans.
    - apply gsteps_fold. intros g1 fld I.
      eapply gss_snoc; [apply gsteps_one, gs_v, field_out_key_nf|].
      apply gs_e; [apply field_out_key_nf|apply wt_normal].
    - apply gsteps_fold. intros g1 fld I.
      eapply gss_snoc; [apply gsteps_one, gs_v, field_out_key_nf|].
      apply gs_e; [apply field_out_key_nf|apply wt_typed]. }
  fold F.
  destruct (fn_in c) as [|fld rest] eqn:Q.
  - cbn [fold_left]. apply SO.
  - cbn [fold_left]. fold (F ga fld).
    eapply gsteps_trans; [apply (SF rest (F ga fld))|apply SO].
    intros x I. right. exact I.
Qed.

Lemma func_graph_steps known g c io : In c known -> gsteps known true g (func_graph g c io).
Proof.
  intros Ic. eapply gsteps_trans; [apply first_fn_steps; exact Ic|apply func_graph_rest; exact Ic].
Qed.

Lemma gsteps_ve known af g k a b w :
  is_func k = false -> is_func a = false -> 0 <= w <= 20 -> gsteps known af g (add_e (add_v g k) a b w).
Proof.
  intros Nk Na Wt. eapply gss_snoc; [apply gsteps_one, gs_v; exact Nk|]. apply gs_e; assumption.
Qed.

(* ---------- every function vertex has a requirement edge ---------- *)
Definition FN (g : rgraph) : Prop :=
  forall ft, vtx g (KFunc ft) <> None -> exists b, ew g (KFunc ft) b <> None.

Lemma gstep_false_FN known g g' : GInv known g -> FN g -> gstep known false g g' -> FN g'.
Proof.
  intros I Fn S. pose proof (gi_wf I) as W.
  destruct (gstep_inv I S) as [_ [_ Le]].
  assert (Back : (forall ft, vtx g' (KFunc ft) <> None -> vtx g (KFunc ft) <> None) -> FN g').
  { intros B ft V. destruct (Fn ft (B ft V)) as (b & Eb). exists b. apply Le. exact Eb. }
  destruct S as [g k Nf|g k Nf|g a b w Nf Wt|g c Af Ic|g c b w Ic Hb Wt].
  - apply Back. intros ft. destruct (add_v_spec k W) as (_ & Hv & _). rewrite Hv.
    destruct (present g k); [auto|]. rewrite (is_func_false_neq _ ft Nf). auto.
  - apply Back. intros ft. destruct (overwrite_spec k PNone W) as (_ & Hv & _). rewrite Hv.
    rewrite (is_func_false_neq _ ft Nf). auto.
  - apply Back. intros ft. destruct (add_e_spec a b w W) as (_ & Hv & _). rewrite Hv. auto.
  - discriminate.
  - apply Back. intros ft. destruct (add_e_spec (KFunc (fn_type c)) b w W) as (_ & Hv & _). rewrite Hv. auto.
Qed.

Lemma gsteps_false_FN known g g' : GInv known g -> FN g -> gsteps known false g g' -> FN g'.
Proof.
  intros I Fn S. induction S as [|g g' g'' S IH St]; [exact Fn|].
  destruct (gsteps_inv I S) as [I' _].
  eapply gstep_false_FN; [exact I'|apply IH; assumption|exact St].
Qed.

Lemma first_fn_FN known g c : GInv known g -> FN g -> FN (first_fn g c).
Proof.
  intros I Fn. pose proof (gi_wf I) as W. pose proof (gi_root I) as R.
  unfold first_fn.
  set (fk := KFunc (fn_type c)).
  destruct (add_spec fk (PFunc c) W) as (Wa & Hva & Hea).
  set (ga := g_add g fk (PFunc c)) in *.
  assert (Pfk : vtx ga fk <> None).
  { rewrite Hva. destruct (vtx g fk) eqn:Q; [discriminate|]. rewrite Base.eqb_refl. discriminate. }
  assert (Pr : vtx ga KRoot <> None).
  { rewrite Hva. destruct (vtx g fk); [exact R|]. destruct (Base.eqb KRoot fk); [discriminate|exact R]. }
  assert (Old : forall ft, Base.eqb (KFunc ft) fk = false -> vtx ga (KFunc ft) <> None ->
                           exists b, ew ga (KFunc ft) b <> None).
  { intros ft Ne V. rewrite Hva in V. rewrite Ne in V.
    assert (V' : vtx g (KFunc ft) <> None) by (destruct (vtx g fk); exact V).
    destruct (Fn ft V') as (b & Eb). exists b. rewrite Hea. exact Eb. }
  destruct (fn_in c) as [|fld rest].
  - destruct (add_e_spec fk KRoot w_normal Wa) as (_ & Hv & He).
    intros ft V. rewrite Hv in V.
    destruct (Base.eqb (KFunc ft) fk) eqn:Q.
    + exists KRoot. rewrite He. apply present_true in Pfk. apply present_true in Pr.
      rewrite Pfk, Pr, Q, Base.eqb_refl. simpl. discriminate.
    + destruct (Old ft Q V) as (b & Eb). exists b. rewrite He.
      destruct (present ga fk && present ga KRoot && Base.eqb (KFunc ft) fk && Base.eqb b KRoot); [discriminate|exact Eb].
  - set (fkey := field_key fld).
    destruct (add_v_spec fkey Wa) as (Wb & Hvb & Heb).
    set (gb := add_v ga fkey) in *.
    set (w := if String.eqb (f_name fld) "" then w_typed else w_normal).
    destruct (add_e_spec fk fkey w Wb) as (_ & Hv & He).
    assert (Nf : Base.eqb fk fkey = false).
    { apply Base.eqb_neq. intros Q. pose proof (field_key_nf fld) as N. fold fkey in N. rewrite <- Q in N. discriminate. }
    assert (Pb1 : present gb fk = true).
    { apply present_true. rewrite Hvb. destruct (present ga fkey); [exact Pfk|]. rewrite Nf. exact Pfk. }
    assert (Pb2 : present gb fkey = true).
    { apply present_true. rewrite Hvb. destruct (present ga fkey) eqn:Q; [apply present_true; exact Q|].
      rewrite Base.eqb_refl. discriminate. }
    intros ft V. rewrite Hv in V.
    destruct (Base.eqb (KFunc ft) fk) eqn:Q.
    + exists fkey. rewrite He. rewrite Pb1, Pb2, Q, Base.eqb_refl. simpl. discriminate.
    + assert (V' : vtx ga (KFunc ft) <> None).
      { rewrite Hvb in V. destruct (present ga fkey); [exact V|].
        pose proof (is_func_false_neq _ ft (field_key_nf fld)) as Nq. fold fkey in Nq.
        rewrite Nq in V. exact V. }
      destruct (Old ft Q V') as (b & Eb). exists b. rewrite He, Heb.
      destruct (present gb fk && present gb fkey && Base.eqb (KFunc ft) fk && Base.eqb b fkey); [discriminate|exact Eb].
Qed.

Lemma func_graph_FN known g c io : In c known -> GInv known g -> FN g -> FN (func_graph g c io).
Proof.
  intros Ic I Fn.
  destruct (gsteps_inv I (@first_fn_steps known g c Ic)) as [I1 _].
  eapply gsteps_false_FN; [exact I1|apply (first_fn_FN c I Fn)|apply func_graph_rest; exact Ic].
Qed.

Lemma func_graph_inv known g c io :
  In c known -> GInv known g /\ FN g -> (GInv known (func_graph g c io) /\ FN (func_graph g c io)) /\ gle g (func_graph g c io).
Proof.
  intros Ic [I Fn]. destruct (gsteps_inv I (@func_graph_steps known g c io Ic)) as [I' L].
  split; [split; [exact I'|apply (@func_graph_FN known); assumption]|exact L].
Qed.

(* ---------- the callGraph steps ---------- *)
Lemma step_values_steps known af g : gsteps known af g (step_values g).
Proof.
  unfold step_values. apply gsteps_fold. intros g0 k _.
  destruct k as [|ft|n t s|t s|t s]; try apply gss_refl.
  set (ga := add_e (add_v g0 (KOut t "")) (KVal n t s) (KOut t "") w_typed).
  assert (Sa : gsteps known af g0 ga).
  { apply gsteps_ve; [reflexivity|reflexivity|apply wt_typed]. }
  set (gb := add_e (add_v ga (KArg t "")) (KArg t "") (KVal n t s) w_typed).
  assert (Sb : gsteps known af g0 gb).
  { eapply gsteps_trans; [exact Sa|]. apply gsteps_ve; [reflexivity|reflexivity|apply wt_typed]. }
  destruct (String.eqb s ""); [exact Sb|].
  eapply gsteps_trans; [exact Sb|]. apply gsteps_ve; [reflexivity|reflexivity|apply wt_typed].
Qed.

Lemma step_args_steps known af g : gsteps known af g (step_args g).
Proof.
  unfold step_args. apply gsteps_fold. intros g0 k _.
  destruct k as [|ft|n t s|t s|t s]; try apply gss_refl.
  apply gsteps_ve; [reflexivity|reflexivity|apply wt_typed].
Qed.

Lemma step_ifaces_steps known af u g : gsteps known af g (step_ifaces u g).
Proof.
  unfold step_ifaces. apply gsteps_fold. intros g0 k _.
  destruct k as [|ft|n t s|t s|t s]; try apply gss_refl.
  destruct (is_iface u t); [|apply gss_refl].
  apply gsteps_fold. intros g1 k2 _.
  destruct k2 as [|ft2|n2 t2 s2|t2 s2|t2 s2]; try apply gss_refl.
  destruct (negb (Base.eqb (KOut t s) (KOut t2 s2)) && negb (t2 =? t) && implements u t2 t); [|apply gss_refl].
  apply gsteps_one. apply gs_e; [reflexivity|apply wt_typed].
Qed.

Lemma step_named_sub_steps known af valued g : gsteps known af g (step_named_sub valued g).
Proof.
  unfold step_named_sub. apply gsteps_fold. intros g0 k _.
  destruct k as [|ft|n t s|t s|t s]; try apply gss_refl.
  destruct (String.eqb s "" && negb (valued (KVal n t s))); [|apply gss_refl].
  apply gsteps_fold. intros g1 k2 _.
  destruct k2 as [|ft2|n2 t2 s2|t2 s2|t2 s2]; try apply gss_refl.
  destruct (String.eqb n2 n && (t2 =? t) && negb (String.eqb s2 "")); [|apply gss_refl].
  apply gsteps_one. apply gs_e; [reflexivity|apply wt_typed].
Qed.

Lemma step_arg_sub_steps known af g : gsteps known af g (step_arg_sub g).
Proof.
  unfold step_arg_sub. apply gsteps_fold. intros g0 k _.
  destruct k as [|ft|n t s|t s|t s]; try apply gss_refl.
  apply gsteps_fold. intros g1 k2 _.
  destruct k2 as [|ft2|n2 t2 s2|t2 s2|t2 s2]; try apply gss_refl.
  destruct ((t2 =? t) && (if String.eqb s "" then negb (String.eqb s2 "") else String.eqb s2 "")); [|apply gss_refl].
  apply gsteps_one. apply gs_e; [reflexivity|apply wt_other].
Qed.

(* ---------- inputs ---------- *)
Definition inputs_graph (ins : list (vkey * value)) (g : rgraph) : rgraph :=
  fold_left (fun g kv => add_e (g_add_overwrite g (fst kv) PNone) (fst kv) KRoot w_normal) ins g.

Lemma input_key_nf (b : builder) kv : In kv (input_vertices b) -> is_func (fst kv) = false.
Proof.
  unfold input_vertices. rewrite !in_app_iff, !in_map_iff.
  intros [(x & <- & _)|[(x & <- & _)|[(x & <- & _)|(x & <- & _)]]]; reflexivity.
Qed.

Lemma inputs_graph_steps known af (b : builder) g : gsteps known af g (inputs_graph (input_vertices b) g).
Proof.
  unfold inputs_graph. apply gsteps_fold. intros g0 kv I.
  pose proof (input_key_nf b kv I) as Nf.
  eapply gss_snoc; [apply gsteps_one, gs_ow; exact Nf|].
  apply gs_e; [exact Nf|apply wt_normal].
Qed.

Lemma inputs_graph_edges (ins : list (vkey * value)) g :
  wf_graph g -> vtx g KRoot <> None ->
  forall kv, In kv ins -> ew (inputs_graph ins g) (fst kv) KRoot <> None.
Proof.
  intros W R. unfold inputs_graph.
  apply (fold_left_establish (fun g => wf_graph g /\ vtx g KRoot <> None)
                             (fun kv g => ew g (fst kv) KRoot <> None)).
  - split; assumption.
  - intros a x [Wa Ra]. destruct (overwrite_spec (fst x) PNone Wa) as (W1 & Hv1 & He1).
    destruct (add_e_spec (fst x) KRoot w_normal W1) as (W2 & Hv2 & He2).
    split; [exact W2|]. rewrite Hv2, Hv1. destruct (Base.eqb KRoot (fst x)); [discriminate|exact Ra].
  - intros a x [Wa Ra]. destruct (overwrite_spec (fst x) PNone Wa) as (W1 & Hv1 & He1).
    destruct (add_e_spec (fst x) KRoot w_normal W1) as (W2 & Hv2 & He2).
    rewrite He2.
    assert (P1 : present (g_add_overwrite a (fst x) PNone) (fst x) = true).
    { apply present_true. rewrite Hv1, Base.eqb_refl. discriminate. }
    assert (P2 : present (g_add_overwrite a (fst x) PNone) KRoot = true).
    { apply present_true. rewrite Hv1. destruct (Base.eqb KRoot (fst x)); [discriminate|exact Ra]. }
    rewrite P1, P2, !Base.eqb_refl. simpl. discriminate.
  - intros a x y [Wa Ra] Q. destruct (overwrite_spec (fst x) PNone Wa) as (W1 & Hv1 & He1).
    destruct (add_e_spec (fst x) KRoot w_normal W1) as (W2 & Hv2 & He2).
    rewrite He2.
    destruct (present (g_add_overwrite a (fst x) PNone) (fst x) && present (g_add_overwrite a (fst x) PNone) KRoot &&
              Base.eqb (fst y) (fst x) && Base.eqb KRoot KRoot); [discriminate|].
    rewrite He1. exact Q.
Qed.

Lemma vals_keys (ins : list (vkey * value)) : forall m k,
  In k (keys (fold_left (fun m kv => insert (fst kv) (snd kv) m) ins m)) <->
  In k (keys m) \/ In k (map fst ins).
Proof.
  induction ins as [|x ins IH]; intros m k; simpl; [tauto|].
  rewrite IH, in_keys_insert. split.
  - intros [[->|A]|A]; auto.
  - intros [A|[<-|A]]; auto.
Qed.

(* ---------- step_args gives every typed argument its output twin ---------- *)
Lemma step_args_edges g :
  wf_graph g ->
  forall t s, vtx g (KArg t s) <> None -> ew (step_args g) (KArg t s) (KOut t s) <> None.
Proof.
  intros W t s Vk. unfold step_args.
  assert (Ik : In (KArg t s) (arg_keys g)).
  { unfold arg_keys. apply filter_In. split; [apply in_vertex_keys; exact Vk|reflexivity]. }
  revert Ik.
  generalize (arg_keys g). intros l Ik.
  pose (F := fun (g : rgraph) (k : vkey) =>
               match k with KArg t s => add_e (add_v g (KOut t s)) k (KOut t s) w_typed | _ => g end).
  assert (Q : forall t0 s0, KArg t s = KArg t0 s0 -> vtx g (KArg t s) <> None ->
                            ew (fold_left F l g) (KArg t s) (KOut t0 s0) <> None).
  { apply (fold_left_establish (fun g' => wf_graph g' /\ gle g g')
             (fun k g' => forall t0 s0, k = KArg t0 s0 -> vtx g k <> None -> ew g' k (KOut t0 s0) <> None)
             F l g); auto.
    - split; [exact W|apply gle_refl].
    - intros a x [Wa La]. unfold F. destruct x as [|ft|n t1 s1|t1 s1|t1 s1]; try (split; assumption).
      destruct (add_v_spec (KOut t1 s1) Wa) as (W1 & Hv1 & He1).
      destruct (add_e_spec (KArg t1 s1) (KOut t1 s1) w_typed W1) as (W2 & Hv2 & He2).
      split; [exact W2|]. eapply gle_trans; [exact La|]. split.
      + intros k. rewrite Hv2, Hv1. destruct (present a (KOut t1 s1)); [auto|].
        destruct (Base.eqb k (KOut t1 s1)); [discriminate|auto].
      + intros a' b'. rewrite He2, He1.
        destruct (present (add_v a (KOut t1 s1)) (KArg t1 s1) && present (add_v a (KOut t1 s1)) (KOut t1 s1) &&
                  Base.eqb a' (KArg t1 s1) && Base.eqb b' (KOut t1 s1)); [discriminate|auto].
    - intros a x [Wa La] t0 s0 -> Vx. unfold F.
      destruct (add_v_spec (KOut t0 s0) Wa) as (W1 & Hv1 & He1).
      destruct (add_e_spec (KArg t0 s0) (KOut t0 s0) w_typed W1) as (W2 & Hv2 & He2).
      rewrite He2.
      assert (P1 : present (add_v a (KOut t0 s0)) (KArg t0 s0) = true).
      { apply present_true. rewrite Hv1. destruct (present a (KOut t0 s0)); [apply La; exact Vx|].
        simpl. apply La. exact Vx. }
      assert (P2 : present (add_v a (KOut t0 s0)) (KOut t0 s0) = true).
      { apply present_true. rewrite Hv1. destruct (present a (KOut t0 s0)) eqn:Pa.
        - apply present_true. exact Pa.
        - rewrite Base.eqb_refl. discriminate. }
      rewrite P1, P2, !Base.eqb_refl. simpl. discriminate.
    - intros a x y [Wa La] Qy t0 s0 Ey Vy. specialize (Qy t0 s0 Ey Vy).
      unfold F. destruct x as [|ft|n t1 s1|t1 s1|t1 s1]; try exact Qy.
      destruct (add_v_spec (KOut t1 s1) Wa) as (W1 & Hv1 & He1).
      destruct (add_e_spec (KArg t1 s1) (KOut t1 s1) w_typed W1) as (W2 & Hv2 & He2).
      rewrite He2.
      destruct (present (add_v a (KOut t1 s1)) (KArg t1 s1) && present (add_v a (KOut t1 s1)) (KOut t1 s1) &&
                Base.eqb y (KArg t1 s1) && Base.eqb (KOut t0 s0) (KOut t1 s1)); [discriminate|].
      rewrite He1. exact Qy. }
  exact (Q t s eq_refl Vk).
Qed.

(* ---------- generators ---------- *)
Definition only_gen (tr : list event) : Prop := forall e, In e tr -> exists gid k, e = EGen gid k.

Definition rg_inv (f : fdecl) (bc : list fdecl) (gens : list gen) (g0 : rgraph)
           (acc : rgraph * list fdecl * list event * option Z) : Prop :=
  let '(g, convs, tr, err) := acc in
  GInv (f :: convs) g /\ FN g /\ gle g0 g /\
  incl bc convs /\ incl convs (bc ++ gen_funcs gens) /\ only_gen tr.

Lemma gen_funcs_in (gens : list gen) gn k c :
  In gn gens -> lookup k (gen_table gn) = Some (GFunc c) -> In c (gen_funcs gens).
Proof.
  intros Ig Q. unfold gen_funcs. apply in_flat_map. exists gn. split; [exact Ig|].
  apply in_flat_map. exists (k, GFunc c). split; [|left; reflexivity].
  apply lookup_In. exact Q.
Qed.

Lemma run_gens_inv f bc gens allgens g0 g ks tr0 :
  incl gens allgens ->
  rg_inv f bc allgens g0 (g, bc, tr0, None) ->
  rg_inv f bc allgens g0 (run_gens g gens ks bc tr0).
Proof.
  intros IncG I0. unfold run_gens.
  apply (fold_left_inv (rg_inv f bc allgens g0)); [exact I0|].
  intros [[[g1 convs] tr] err] k I _.
  destruct err as [e|]; [exact I|].
  destruct (value_of_vertex k); [|exact I].
  apply (fold_left_inv (rg_inv f bc allgens g0)); [exact I|].
  intros [[[g2 convs2] tr2] err2] gn I2 Ign.
  destruct err2 as [e|]; [exact I2|].
  destruct I2 as (G2 & F2 & L2 & A2 & B2 & C2).
  assert (C3 : only_gen (tr2 ++ [EGen (gen_id gn) k])).
  { intros e Ie. apply in_app_or in Ie. destruct Ie as [Ie|[<-|[]]]; [apply C2; exact Ie|eauto]. }
  destruct (lookup k (gen_table gn)) as [[|e|c]|] eqn:Q; unfold rg_inv.
  - split; [exact G2|]. split; [exact F2|]. split; [exact L2|]. split; [exact A2|]. split; [exact B2|exact C3].
  - split; [exact G2|]. split; [exact F2|]. split; [exact L2|]. split; [exact A2|]. split; [exact B2|exact C3].
  - assert (G2' : GInv (f :: convs2 ++ [c]) g2).
    { eapply GInv_mono; [|exact G2]. intros x [<-|Ix]; [left; reflexivity|right; apply in_or_app; left; exact Ix]. }
    assert (Ic : In c (f :: convs2 ++ [c])) by (right; apply in_or_app; right; left; reflexivity).
    destruct (@func_graph_inv _ g2 c true Ic (conj G2' F2)) as [[G3 F3] L3].
    split; [exact G3|]. split; [exact F3|]. split; [eapply gle_trans; eauto|].
    split; [|split].
    + intros x Ix. apply in_or_app. left. apply A2. exact Ix.
    + intros x Ix. apply in_app_or in Ix. destruct Ix as [Ix|[<-|[]]]; [apply B2; exact Ix|].
      apply in_or_app. right. eapply gen_funcs_in; [apply IncG; exact Ign|exact Q].
    + exact C3.
  - split; [exact G2|]. split; [exact F2|]. split; [exact L2|]. split; [exact A2|]. split; [exact B2|exact C3].
Qed.

(* ---------- full_graph ---------- *)
Definition g_root : rgraph := g_add g_empty KRoot PNone.

Lemma g_root_inv known : GInv known g_root.
Proof.
  unfold g_root. destruct (add_spec KRoot PNone (@wf_empty vkey _ vpay)) as (W & Hv & He).
  constructor.
  - exact W.
  - rewrite Hv. simpl. discriminate.
  - intros ft p. rewrite Hv. simpl. discriminate.
  - intros ft b. rewrite He. unfold ew. simpl. intros N; contradiction N; reflexivity.
  - intros a b w. rewrite He. unfold ew. simpl. discriminate.
Qed.

Definition fg_spec (f : fdecl) (b : builder) (fg : fgraph) (tr : list event) : Prop :=
  GInv (f :: fg_convs fg) (fg_g fg) /\ FN (fg_g fg) /\
  fg_target fg = KFunc (fn_type f) /\
  incl (b_convs b) (fg_convs fg) /\
  incl (fg_convs fg) (b_convs b ++ gen_funcs (b_gens b)) /\
  (forall k, In k (fg_freq fg) ->
             ew (fg_g fg) (KFunc (fn_type f)) k <> None /\ (k = KRoot \/ In k (map field_key (fn_in f)))) /\
  (forall k, mem k (fg_vals fg) = true -> ew (fg_g fg) k KRoot <> None /\ is_func k = false) /\
  (forall t s, In (KArg t s) (fg_freq fg) -> ew (fg_g fg) (KArg t s) (KOut t s) <> None) /\
  fg_trace fg = tr /\ only_gen tr.

Lemma g_root_FN : FN g_root.
Proof.
  intros ft V. exfalso. apply V. unfold g_root.
  destruct (add_spec KRoot PNone (@wf_empty vkey _ vpay)) as (_ & Hv & _). rewrite Hv. reflexivity.
Qed.

Lemma full_graph_spec u f b t fg tr :
  full_graph u f b false t = Ok (inl fg, tr) -> fg_spec f b fg tr.
Proof.
  unfold full_graph.
  fold g_root.
  set (g1 := func_graph g_root f false).
  set (tk := KFunc (fn_type f)).
  set (ins := input_vertices b).
  fold (inputs_graph ins g1).
  set (g2 := inputs_graph ins g1).
  set (vals := fold_left (fun m kv => insert (fst kv) (snd kv) m) ins []).
  set (g3 := fold_left (fun g c => func_graph g c true) (b_convs b) g2).
  assert (If : In f [f]) by (left; reflexivity).
  destruct (@func_graph_inv _ g_root f false If (conj (g_root_inv [f]) g_root_FN)) as [[I1 F1] _]. fold g1 in I1, F1.
  set (kb := f :: b_convs b).
  assert (I1b : GInv kb g1).
  { eapply GInv_mono; [|exact I1]. intros x [<-|[]]. left; reflexivity. }
  destruct (gsteps_inv I1b (inputs_graph_steps kb false b g1)) as [I2 L12]. fold ins in I2, L12. fold g2 in I2, L12.
  assert (F2 : FN g2).
  { eapply gsteps_false_FN; [exact I1b|exact F1|apply inputs_graph_steps]. }
  assert (I3 : (GInv kb g3 /\ FN g3) /\ gle g2 g3).
  { unfold g3. apply (fold_left_inv (fun g => (GInv kb g /\ FN g) /\ gle g2 g)).
    - split; [split; assumption|apply gle_refl].
    - intros a c [Ia La] Ic. destruct (@func_graph_inv kb a c true (or_intror Ic) Ia) as [Ia' La'].
      split; [exact Ia'|eapply gle_trans; eauto]. }
  destruct I3 as [[I3 F3] L23].
  destruct (match b_gens b with [] => Ok ([], t) | _ :: _ => take_perm SITE_GEN_VERTS (g_vertex_keys g3) t end)
    as [[ks t']| | |]; simpl; try discriminate.
  pose proof (@run_gens_inv f (b_convs b) (b_gens b) (b_gens b) g3 g3 ks []) as RG.
  destruct (run_gens g3 (b_gens b) ks (b_convs b) []) as [[[g4 convs] trg] gerr].
  destruct gerr as [e|]; [discriminate|].
  intros Q. inversion Q; subst fg tr; clear Q. simpl.
  destruct RG as (I4 & F4 & L34 & A4 & B4 & C4).
  { intros x I; exact I. }
  { split; [exact I3|]. split; [exact F3|]. split; [apply gle_refl|].
    split; [intros x I; exact I|]. split; [intros x I; apply in_or_app; left; exact I|].
    intros e []. }
  set (g5 := step_values g4) in *.
  set (g6 := step_args g5) in *.
  set (g7 := step_ifaces u g6) in *.
  set (g8 := step_named_sub (fun k => mem k vals) g7) in *.
  set (g9 := step_arg_sub g8) in *.
  set (known := f :: convs).
  assert (S49 : gsteps known false g4 g9).
  { eapply gsteps_trans; [apply step_values_steps|]. fold g5.
    eapply gsteps_trans; [apply step_args_steps|]. fold g6.
    eapply gsteps_trans; [apply step_ifaces_steps|]. fold g7.
    eapply gsteps_trans; [apply step_named_sub_steps|]. fold g8.
    apply step_arg_sub_steps. }
  destruct (gsteps_inv I4 (step_values_steps known false g4)) as [I5 L45]. fold g5 in I5, L45.
  destruct (gsteps_inv I5 (step_args_steps known false g5)) as [I6 L56]. fold g6 in I6, L56.
  destruct (gsteps_inv I6 (step_ifaces_steps known false u g6)) as [I7 L67]. fold g7 in I7, L67.
  destruct (gsteps_inv I7 (step_named_sub_steps known false (fun k => mem k vals) g7)) as [I8 L78]. fold g8 in I8, L78.
  destruct (gsteps_inv I8 (step_arg_sub_steps known false g8)) as [I9 L89]. fold g9 in I9, L89.
  assert (L69 : gle g6 g9) by (eapply gle_trans; [exact L67|eapply gle_trans; [exact L78|exact L89]]).
  assert (L25 : gle g2 g5) by (eapply gle_trans; [exact L23|eapply gle_trans; [exact L34|exact L45]]).
  assert (L29 : gle g2 g9) by (eapply gle_trans; [exact L25|eapply gle_trans; [exact L56|exact L69]]).
  assert (L19 : gle g1 g9) by (eapply gle_trans; [exact L12|exact L29]).
  split; [exact I9|].
  split; [eapply gsteps_false_FN; [exact I4|exact F4|exact S49]|].
  split; [reflexivity|]. split; [exact A4|]. split; [exact B4|].
  split; [|split; [|split; [|split; [reflexivity|exact C4]]]].
  - intros k Ik. apply in_out_keys in Ik. split; [apply L19; exact Ik|].
    destruct (gi_fout I1 _ _ Ik) as [->|(c & [<-|[]] & _ & Ib)]; [left; reflexivity|right; exact Ib].
  - intros k Mk. apply mem_true in Mk. apply vals_keys in Mk. destruct Mk as [[]|Mk].
    apply in_map_iff in Mk. destruct Mk as (kv & <- & Ikv).
    split; [|apply (input_key_nf b kv Ikv)].
    apply L29. apply inputs_graph_edges; [apply (gi_wf I1)|apply (gi_root I1)|exact Ikv].
  - intros t0 s Ik. apply in_out_keys in Ik.
    apply L69. apply step_args_edges; [apply (gi_wf I5)|].
    assert (L15 : gle g1 g5) by (eapply gle_trans; [exact L12|exact L25]).
    apply (proj1 L15). apply (proj2 (ew_closed _ _ (gi_wf I1) Ik)).
Qed.

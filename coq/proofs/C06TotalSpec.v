(* C06TotalSpec.v -- the invariants of the C06 totality proof:
   what every edge of a call graph looks like ([edge_ok]), the call-graph
   invariant [GOK] the resolver relies on, and the typing of values. *)
From ArgMapper Require Import Base Graph GraphAlg GraphSpec GraphStatements Types Args GenWeights Resolver.
From ArgMapper.proofs Require Import C18DijkstraLemmas C19RefineMap C19RefineGraph C06TotalDijkstra C06TotalBase.
From Coq Require Import Lia ZArith List.
Import ListNotations.
Set Implicit Arguments.
Local Open Scope Z_scope.
Local Open Scope list_scope.

(* interface satisfaction is transitive (true of Go's method sets) *)
Definition u_transitive (u : universe) : Prop :=
  forall a b c, implements u a b = true -> implements u b c = true -> implements u a c = true.

Definition key_ty (k : vkey) : option ty :=
  match k with KVal _ t _ | KArg t _ | KOut t _ => Some t | _ => None end.

Definition is_val (k : vkey) : bool := match k with KVal _ _ _ => true | _ => false end.
Definition is_arg (k : vkey) : bool := match k with KArg _ _ => true | _ => false end.
Definition is_out (k : vkey) : bool := match k with KOut _ _ => true | _ => false end.
Definition is_fn (k : vkey) : bool := match k with KFunc _ => true | _ => false end.

Section Spec.
  Variable u : universe.
  Variable F : list fdecl.         (* the functions known to the call *)
  Variable inkeys : list vkey.     (* the vertices of the supplied values *)
  Variable rd : bool.              (* building the graph for Redefine *)

  (* a value may sit on a vertex when its type is assignable to the vertex's type *)
  Definition val_ok (k : vkey) (v : value) : Prop :=
    match key_ty k with Some t => assignable u (v_ty v) t = true | None => True end.

  (* a is an output of a known function of Go type ft *)
  Definition out_edge (a : vkey) (ft : Z) : Prop :=
    exists f fld, In f F /\ fn_type f = ft /\ In fld (fn_out f) /\ field_out_key fld = a.

  (* who may have an edge to the root *)
  Definition rootin_ok (k : vkey) : Prop :=
    match k with
    | KOut _ _ => In k inkeys
    | KVal _ _ _ => rd = true \/ In k inkeys
    | KArg _ _ => rd = true
    | KFunc _ => True
    | KRoot => False
    end.

  Definition edge_ok (a b : vkey) (w : Z) : Prop :=
    1 <= w <= 20 /\
    match a, b with
    | _, KRoot => rootin_ok a
    | KFunc _, KArg _ _ | KFunc _, KVal _ _ _ => True
    | KVal n t s, KFunc ft => out_edge a ft
    | KVal n t s, KOut t' s' => t' = t
    | KVal n t s, KVal n' t' s' => n' = n /\ t' = t /\ s = EmptyString /\ s' <> EmptyString /\ w = w_typed
    | KArg t s, KVal n' t' s' => t' = t /\ (s = EmptyString \/ s' = s) /\ w = w_typed
    | KArg t s, KOut t' s' => t' = t
    | KOut t s, KFunc ft => out_edge a ft
    | KOut t s, KOut t' s' => implements u t' t = true
    | _, _ => False
    end.

  (* invariant of the graph under construction *)
  Record FOK (g : rgraph) : Prop := {
    f_wf : wf_graph g;
    f_root : vertex g KRoot;
    f_pay : forall k f, Vx g k = Some (PFunc f) -> k = KFunc (fn_type f) /\ In f F;
    f_func : forall ft p, Vx g (KFunc ft) = Some p -> exists f, p = PFunc f;
    f_edge : forall a b w, Eg g a b = Some w -> edge_ok a b w }.

  (* every named value can be taken directly by the untyped-subtype argument of its type *)
  Definition short_ok (g : rgraph) : Prop :=
    forall n t s, vertex g (KVal n t s) -> vertex g (KArg t EmptyString) ->
                  Eg g (KArg t EmptyString) (KVal n t s) = Some w_typed.

  (* the invariant of the pruned call graph *)
  Record GOK (g : rgraph) : Prop := {
    gk_fok : FOK g;
    gk_size : 20 * (Z.of_nat (List.length (g_vertex_keys g)) + 1) < INF;
    gk_reach : forall k, vertex g k -> GraphSpec.reach (g_reverse g) KRoot k;
    gk_short : short_ok g }.
End Spec.

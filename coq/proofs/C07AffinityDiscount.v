(* C07AffinityDiscount.v -- exact effect of the matching-name discount on the
   edge weights of a call graph.  Helper of C07Affinity.v *)
From ArgMapper Require Import Base Graph GraphAlg GraphSpec Types Args Resolver ResolverSpec GenWeights.
From ArgMapper.proofs Require Import C18DijkstraLemmas C19RefineMap C19RefineGraph C0213UnsatGraph C0213UnsatBuild C07AffinityOps.
From Coq Require Import List Lia ZArith String.
Import ListNotations.
Set Implicit Arguments.
Local Open Scope Z_scope.

Lemma inner_discount (k : vkey) (wm : Z) (l : list vkey) : forall (g' : rgraph),
  wf_graph g' -> (forall a, In a l -> ew g' a k <> None) ->
  let g'' := fold_left (fun h src => add_e h src k wm) l g' in
  wf_graph g'' /\ (forall x, vtx g'' x = vtx g' x) /\
  (forall a b, ew g'' a b = if Base.eqb b k && memb a l then Some wm else ew g' a b).
Proof.
  induction l as [|x l IH]; intros g' W Hl; cbn [fold_left].
  - split; [exact W|]. split; [reflexivity|]. intros a b. cbn. rewrite andb_false_r. reflexivity.
  - destruct (add_e_spec x k wm W) as (W1 & Hv1 & He1).
    assert (Px : present g' x = true /\ present g' k = true).
    { assert (N : ew g' x k <> None) by (apply Hl; left; reflexivity).
      destruct (ew_closed _ _ W N) as [A B]. split; apply present_true; assumption. }
    destruct Px as [Px Pk].
    assert (Hl1 : forall a, In a l -> ew (add_e g' x k wm) a k <> None).
    { intros a Ia. rewrite He1. destruct (present g' x && present g' k && Base.eqb a x && Base.eqb k k); [discriminate|].
      apply Hl. right. exact Ia. }
    destruct (IH _ W1 Hl1) as (W2 & Hv2 & He2).
    split; [exact W2|]. split; [intros y; rewrite Hv2, Hv1; reflexivity|].
    intros a b. rewrite He2, He1, Px, Pk. cbn [memb andb].
    destruct (Base.eqb b k); cbn [andb]; [|rewrite andb_false_r; reflexivity].
    rewrite andb_true_r. destruct (Base.eqb a x); cbn [orb]; [|reflexivity].
    destruct (memb a l); reflexivity.
Qed.

Definition isn (n : string) (b : vkey) : bool :=
  match b with KVal n2 _ _ => String.eqb n2 n | _ => false end.

Definition dstep_fn (n : string) (g' : rgraph) (k : vkey) : rgraph :=
  match k with
  | KVal n2 _ _ => if String.eqb n2 n
                   then fold_left (fun g' src => add_e g' src k w_matching_name) (g_in_keys g' k) g'
                   else g'
  | _ => g'
  end.

Lemma discount_unfold (g : rgraph) n t s :
  discount g (KVal n t s) = fold_left (dstep_fn n) (g_vertex_keys g) g.
Proof. reflexivity. Qed.

Lemma memb_in_keys (g : rgraph) a k : wf_graph g -> memb a (g_in_keys g k) = true <-> ew g a k <> None.
Proof. intros W. rewrite membT. apply in_in_keys. exact W. Qed.

Lemma outer_discount (g : rgraph) (n : string) (l : list vkey) : forall (g' : rgraph) (done : list vkey),
  wf_graph g' -> (forall x, vtx g' x = vtx g x) ->
  (forall a b, ew g' a b = match ew g a b with
                           | Some w => if isn n b && memb b done then Some w_matching_name else Some w
                           | None => None end) ->
  let g'' := fold_left (dstep_fn n) l g' in
  wf_graph g'' /\ (forall x, vtx g'' x = vtx g x) /\
  (forall a b, ew g'' a b = match ew g a b with
                            | Some w => if isn n b && memb b (done ++ l) then Some w_matching_name else Some w
                            | None => None end).
Proof.
  induction l as [|k l IH]; intros g' done W Hv He; cbn [fold_left].
  - rewrite app_nil_r. auto.
  - assert (S1 : wf_graph (dstep_fn n g' k) /\ (forall x, vtx (dstep_fn n g' k) x = vtx g x) /\
                 (forall a b, ew (dstep_fn n g' k) a b =
                    match ew g a b with
                    | Some w => if isn n b && memb b (done ++ [k]) then Some w_matching_name else Some w
                    | None => None end)).
    { assert (Same : isn n k = false ->
                     forall a b, ew g' a b = match ew g a b with
                       | Some w => if isn n b && memb b (done ++ [k]) then Some w_matching_name else Some w
                       | None => None end).
      { intros Nk a b. rewrite He. destruct (ew g a b); [|reflexivity].
        rewrite C07AffinityOps.memb_app. cbn [memb]. rewrite orb_false_r.
        destruct (Base.eqb_spec b k) as [->|Nb]; [rewrite Nk; reflexivity|]. rewrite orb_false_r. reflexivity. }
      destruct k as [|ft|n2 t2 s2|t2 s2|t2 s2]; cbn [dstep_fn];
        try (split; [exact W|]; split; [exact Hv|]; apply Same; reflexivity).
      destruct (String.eqb n2 n) eqn:En.
      2:{ split; [exact W|]. split; [exact Hv|]. apply Same. cbn. exact En. }
      set (k := KVal n2 t2 s2).
      destruct (@inner_discount k w_matching_name (g_in_keys g' k) g' W) as (W2 & Hv2 & He2).
      { intros a Ia. apply (in_in_keys a k W). exact Ia. }
      split; [exact W2|]. split; [intros x; rewrite Hv2; apply Hv|].
      intros a b. rewrite He2.
      rewrite C07AffinityOps.memb_app. cbn [memb]. rewrite orb_false_r.
      destruct (Base.eqb_spec b k) as [->|Nb]; cbn [andb].
      - destruct (memb a (g_in_keys g' k)) eqn:M.
        + apply (memb_in_keys a k W) in M. rewrite He in M.
          destruct (ew g a k); [|contradiction M; reflexivity].
          assert (Ik : isn n k = true) by (cbn; exact En). rewrite Ik. rewrite orb_true_r. reflexivity.
        + assert (N : ew g' a k = None).
          { destruct (ew g' a k) eqn:Q; [|reflexivity]. exfalso.
            assert (M' : memb a (g_in_keys g' k) = true) by (apply (memb_in_keys a k W); rewrite Q; discriminate).
            congruence. }
          rewrite N. rewrite He in N. destruct (ew g a k); [|reflexivity].
          destruct (isn n k && memb k done); discriminate.
      - rewrite He. rewrite orb_false_r. reflexivity. }
    destruct S1 as (W1 & Hv1 & He1).
    destruct (IH _ (done ++ [k]) W1 Hv1 He1) as (W2 & Hv2 & He2).
    split; [exact W2|]. split; [exact Hv2|]. intros a b. rewrite He2. rewrite <- app_assoc. reflexivity.
Qed.

Lemma add_e_hash (g : rgraph) a b w : ghash (add_e g a b w) = ghash g.
Proof.
  unfold add_e, g_add_edge. destruct (mem a (ghash g) && mem b (ghash g)); [|reflexivity].
  destruct (lookup a (gout g)); [|reflexivity]. destruct (lookup b (gin g)); reflexivity.
Qed.

Lemma dstep_fn_hash n (g : rgraph) k : ghash (dstep_fn n g k) = ghash g.
Proof.
  destruct k as [|ft|n2 t2 s2|t2 s2|t2 s2]; cbn [dstep_fn]; try reflexivity.
  destruct (String.eqb n2 n); [|reflexivity].
  generalize (g_in_keys g (KVal n2 t2 s2)). intros l. revert g.
  induction l as [|x l IH]; intros g; cbn [fold_left]; [reflexivity|].
  rewrite IH. apply add_e_hash.
Qed.

Lemma discount_hash (g : rgraph) n t s : ghash (discount g (KVal n t s)) = ghash g.
Proof.
  rewrite discount_unfold. generalize (g_vertex_keys g). intros l. revert g.
  induction l as [|x l IH]; intros g; cbn [fold_left]; [reflexivity|].
  rewrite IH. apply dstep_fn_hash.
Qed.

Theorem discount_exact (g : rgraph) n t s :
  wf_graph g ->
  let cg := discount g (KVal n t s) in
  wf_graph cg /\ (forall x, vtx cg x = vtx g x) /\ g_vertex_keys cg = g_vertex_keys g /\
  (forall a b, ew cg a b = match ew g a b with
                           | Some w => if isn n b then Some w_matching_name else Some w
                           | None => None end).
Proof.
  intros W cg. unfold cg. rewrite discount_unfold.
  destruct (@outer_discount g n (g_vertex_keys g) g [] W) as (W2 & Hv2 & He2).
  - reflexivity.
  - intros a b. destruct (ew g a b); [|reflexivity]. cbn [memb]. rewrite andb_false_r. reflexivity.
  - split; [exact W2|]. split; [exact Hv2|]. split.
    + rewrite <- (discount_unfold g n t s). unfold g_vertex_keys. rewrite discount_hash. reflexivity.
    + intros a b. rewrite He2. cbn [app]. destruct (ew g a b) as [w|] eqn:Q; [|reflexivity].
      assert (Vb : memb b (g_vertex_keys g) = true).
      { apply membT. apply in_vertex_keys.
        assert (N : ew g a b <> None) by (rewrite Q; discriminate). apply (ew_closed _ _ W N). }
      rewrite Vb, andb_true_r. reflexivity.
Qed.

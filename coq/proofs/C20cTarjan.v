(* C20cTarjan.v -- proof of C20c (Tarjan's strongly connected components)
   over the model GraphAlg.strongly_connected.

   Structure of the proof
   - [Inv]  : global invariant of the state (indices, partition of the
              indexed vertices into stack + finished components, every
              finished component is a full mutual-reachability class);
   - [Ext]  : monotone extension of the state;
   - [Seg]  : properties of the stack segment pushed since a call started
              (mutually reachable with the root of the call, successors all
              indexed, low-link bound on the edges into the stack);
   - [Post] : post-condition of one call of [scc];
   - [LI]   : invariant of the successor loop of one call;
   - [scc_spec] : by induction on the fuel. *)
From ArgMapper Require Import Base Graph GraphAlg GraphHist GraphSpec GraphStatements.
From ArgMapper.proofs Require Import C20cTarjanLemmas.
From Coq Require Import Permutation Lia List.
Set Implicit Arguments.

Section Tarjan.
  Context {K : Type} `{EqDec K} {V : Type}.
  Variable g : graph K V.
  Hypothesis WF : wf_graph g.
  Notation sst := (@scc_st K).

  (* the successor loop of [scc], as a stand-alone function of the recursive call *)
  Section Loop.
    Variable rec : K -> sst -> res (sst * nat).
    Fixpoint scc_loop (ws : list K) (st : sst) (minIdx : nat) : res (sst * nat) :=
      match ws with
      | [] => Ok (st, minIdx)
      | w :: ws =>
          let ti := idx_of st w in
          match ti with
          | O => do (st', r) <- rec w st; scc_loop ws st' (Nat.min minIdx r)
          | _ => if memb w (stack st) then scc_loop ws st (Nat.min minIdx ti)
                 else scc_loop ws st minIdx
          end
      end.
  End Loop.

  Lemma scc_unfold (f : nat) (v : K) (st : sst) :
    scc g (S f) v st =
      let index := nexti st in
      let st := mkScc (S index) (insert v index (vidx st)) (v :: stack st) (sccs st) (stape st) in
      do (ws, t') <- take_perm SITE_SCC_OUT (g_out_keys g v) (stape st);
      do (st, minIdx) <- scc_loop (scc g f) ws
                           (mkScc (nexti st) (vidx st) (stack st) (sccs st) t') index;
      if Nat.eqb index minIdx then
        let (comp, stk') := pop_until v (stack st) [] in
        Ok (mkScc (nexti st) (vidx st) stk' (sccs st ++ [comp]) (stape st), minIdx)
      else Ok (st, minIdx).
  Proof. reflexivity. Qed.

  (* ---------------- invariants ---------------- *)
  Definition seen (st : sst) : list K := stack st ++ concat (sccs st).
  Definition nV : nat := length (keys (ghash g)).

  Definition comp_ok (c : list K) : Prop :=
    c <> [] /\ forall a b, In a c -> (In b c <-> (reach g a b /\ reach g b a)).

  Record Inv (st : sst) : Prop := {
    inv_next : 1 <= nexti st;
    inv_idx : forall k i, lookup k (vidx st) = Some i -> 1 <= i < nexti st /\ vertex g k;
    inv_seen : forall k, In k (seen st) <-> lookup k (vidx st) <> None;
    inv_nodup : NoDup (seen st);
    inv_comp : forall c, In c (sccs st) -> comp_ok c
  }.

  Record Ext (st st' : sst) : Prop := {
    ext_idx : forall k i, lookup k (vidx st) = Some i -> lookup k (vidx st') = Some i;
    ext_new : forall k i, lookup k (vidx st') = Some i ->
                          lookup k (vidx st) = Some i \/ nexti st <= i;
    ext_next : nexti st <= nexti st';
    ext_len : length (seen st) <= length (seen st')
  }.

  Record Seg (v : K) (st0 st : sst) (s : list K) (n : nat) : Prop := {
    seg_idx : forall y, In y s -> exists i, lookup y (vidx st) = Some i /\ nexti st0 <= i;
    seg_reach : forall y, In y s -> reach g v y /\ reach g y v;
    seg_succ : forall y z w, In y s -> edge g y z w -> lookup z (vidx st) <> None;
    seg_low : forall y z w i, In y s -> edge g y z w -> In z (stack st) ->
                              lookup z (vidx st) = Some i -> n <= i
  }.

  Definition low_witness (v : K) (st0 : sst) (n : nat) : Prop :=
    n < nexti st0 /\
    exists y0, In y0 (stack st0) /\ lookup y0 (vidx st0) = Some n /\ reach g v y0.

  Record Post (v : K) (st0 st' : sst) (n : nat) : Prop := {
    post_inv : Inv st';
    post_ext : Ext st0 st';
    post_v : lookup v (vidx st') = Some (nexti st0);
    post_next : nexti st0 < nexti st';
    post_len : length (seen st0) < length (seen st');
    post_seg : exists s, stack st' = s ++ stack st0 /\ Seg v st0 st' s n /\
                 ((s = [] /\ n = nexti st0) \/ (In v s /\ low_witness v st0 n))
  }.

  Record LI (v : K) (st0 st : sst) (n : nat) (dn : list K) : Prop := {
    li_inv : Inv st;
    li_ext : Ext st0 st;
    li_v : lookup v (vidx st) = Some (nexti st0);
    li_next : nexti st0 < nexti st;
    li_len : length (seen st0) < length (seen st);
    li_stack : exists s, stack st = s ++ v :: stack st0 /\ Seg v st0 st s n;
    li_dn : forall z, In z dn ->
              lookup z (vidx st) <> None /\
              (forall i, In z (stack st) -> lookup z (vidx st) = Some i -> n <= i);
    li_n : n = nexti st0 \/ low_witness v st0 n
  }.

  Definition Pre (v : K) (st : sst) (f : nat) : Prop :=
    Inv st /\ lookup v (vidx st) = None /\ vertex g v /\
    (forall y, In y (stack st) -> reach g y v) /\
    nV < f + length (seen st).

  (* ---------------- small facts ---------------- *)
  Lemma idx_of_lookup (st : sst) (k : K) (i : nat) :
    lookup k (vidx st) = Some i -> idx_of st k = i.
  Proof. unfold idx_of. intros ->. reflexivity. Qed.

  Lemma idx_of_zero (st : sst) (k : K) :
    Inv st -> idx_of st k = 0 -> lookup k (vidx st) = None.
  Proof.
    intros I. unfold idx_of. destruct (lookup k (vidx st)) as [i|] eqn:L; [|reflexivity].
    intros ->. destruct (inv_idx I _ L) as [B _]. lia.
  Qed.

  Lemma idx_of_S (st : sst) (k : K) (m : nat) :
    idx_of st k = S m -> lookup k (vidx st) = Some (S m).
  Proof.
    unfold idx_of. destruct (lookup k (vidx st)) as [i|]; [intros ->; reflexivity|discriminate].
  Qed.

  Lemma seen_lookup (st : sst) (k : K) :
    Inv st -> In k (seen st) -> exists i, lookup k (vidx st) = Some i.
  Proof.
    intros I HI. apply (inv_seen I) in HI.
    destruct (lookup k (vidx st)) as [i|]; [eauto|congruence].
  Qed.

  Lemma lookup_seen (st : sst) (k : K) (i : nat) :
    Inv st -> lookup k (vidx st) = Some i -> In k (seen st).
  Proof. intros I L. apply (inv_seen I). congruence. Qed.

  Lemma stack_seen (st : sst) (k : K) : In k (stack st) -> In k (seen st).
  Proof. intros HI. unfold seen. apply in_or_app. left. exact HI. Qed.

  Lemma white_len (st : sst) (v : K) :
    Inv st -> lookup v (vidx st) = None -> vertex g v -> S (length (seen st)) <= nV.
  Proof.
    intros I L Vv. unfold nV.
    apply (@NoDup_incl_length K (v :: seen st)).
    - constructor; [|exact (inv_nodup I)].
      intros HI. apply (inv_seen I) in HI. congruence.
    - intros k [<-|HI]; [exact Vv|].
      destruct (seen_lookup _ I HI) as [i L']. exact (proj2 (inv_idx I _ L')).
  Qed.

  Lemma Ext_refl (st : sst) : Ext st st.
  Proof. constructor; auto. Qed.

  Lemma Ext_trans (st1 st2 st3 : sst) : Ext st1 st2 -> Ext st2 st3 -> Ext st1 st3.
  Proof.
    intros E1 E2. constructor.
    - intros k i L. apply (ext_idx E2). apply (ext_idx E1). exact L.
    - intros k i L. destruct (ext_new E2 _ L) as [L'|B].
      + exact (ext_new E1 _ L').
      + right. pose proof (ext_next E1). lia.
    - pose proof (ext_next E1). pose proof (ext_next E2). lia.
    - pose proof (ext_len E1). pose proof (ext_len E2). lia.
  Qed.

  Lemma low_witness_lt (v : K) (st0 : sst) (n : nat) : low_witness v st0 n -> n < nexti st0.
  Proof. intros [L _]. exact L. Qed.

  Lemma li_n_le (v : K) (st0 st : sst) (n : nat) (dn : list K) :
    LI v st0 st n dn -> n <= nexti st0.
  Proof. intros L. destruct (li_n L) as [->|W]; [lia|]. apply low_witness_lt in W. lia. Qed.

  (* a stack vertex whose index is below the index of v was on the stack
     before the call on v started *)
  Lemma li_old (v : K) (st0 st : sst) (n : nat) (dn : list K) (y : K) (i : nat) :
    Inv st0 -> LI v st0 st n dn ->
    In y (stack st) -> lookup y (vidx st) = Some i -> i < nexti st0 ->
    In y (stack st0) /\ lookup y (vidx st0) = Some i.
  Proof.
    intros I0 L Hy Ly Lt.
    destruct (li_stack L) as [s [Hs SG]].
    rewrite Hs in Hy. apply in_app_or in Hy. destruct Hy as [Hy|[<-|Hy]].
    - destruct (seg_idx SG _ Hy) as [j [Lj B]]. rewrite Ly in Lj. inversion Lj; subst. lia.
    - rewrite (li_v L) in Ly. inversion Ly; subst. lia.
    - split; [exact Hy|].
      destruct (seen_lookup _ I0 (stack_seen _ _ Hy)) as [j Lj].
      pose proof (ext_idx (li_ext L) _ Lj) as Lj'. rewrite Ly in Lj'. inversion Lj'; subst.
      exact Lj.
  Qed.

  Lemma li_stack_reach (v : K) (st0 st : sst) (n : nat) (dn : list K) :
    vertex g v -> (forall y, In y (stack st0) -> reach g y v) ->
    LI v st0 st n dn -> forall y, In y (stack st) -> reach g y v.
  Proof.
    intros Vv R0 L y Hy.
    destruct (li_stack L) as [s [Hs SG]].
    rewrite Hs in Hy. apply in_app_or in Hy. destruct Hy as [Hy|[<-|Hy]].
    - exact (proj2 (seg_reach SG _ Hy)).
    - apply reach_refl. exact Vv.
    - apply R0. exact Hy.
  Qed.

  (* ---------------- the loop: initial state ---------------- *)
  Lemma li_init (v : K) (st : sst) (t' : tape K) :
    Inv st -> lookup v (vidx st) = None -> vertex g v ->
    LI v st (mkScc (S (nexti st)) (insert v (nexti st) (vidx st)) (v :: stack st) (sccs st) t')
       (nexti st) [].
  Proof.
    intros I Lv Vv.
    assert (Hl : forall k, lookup k (insert v (nexti st) (vidx st)) =
                           if eqb k v then Some (nexti st) else lookup k (vidx st))
      by (intros k; apply lookup_insert).
    constructor; simpl.
    - (* Inv *)
      constructor; simpl.
      + lia.
      + intros k i. rewrite Hl. destruct (eqb_spec k v) as [->|NE].
        * intros E; inversion E; subst. pose proof (inv_next I). split; [lia|exact Vv].
        * intros L. destruct (inv_idx I _ L) as [B Vk]. split; [lia|exact Vk].
      + intros k. unfold seen; simpl. rewrite Hl. destruct (eqb_spec k v) as [->|NE].
        * split; [congruence|auto].
        * rewrite <- (inv_seen I k). unfold seen. split; [intros [E|HI]; [congruence|exact HI]|auto].
      + unfold seen; simpl. constructor; [|exact (inv_nodup I)].
        intros HI. apply (inv_seen I) in HI. congruence.
      + exact (inv_comp I).
    - (* Ext *)
      constructor; simpl.
      + intros k i L. rewrite Hl. destruct (eqb_spec k v) as [->|NE]; [congruence|exact L].
      + intros k i. rewrite Hl. destruct (eqb_spec k v) as [->|NE].
        * intros E; inversion E; subst. right. lia.
        * auto.
      + lia.
      + unfold seen; simpl. lia.
    - rewrite Hl, eqb_refl. reflexivity.
    - lia.
    - unfold seen; simpl. lia.
    - exists []. split; [reflexivity|].
      constructor; intros; simpl in *; tauto.
    - intros z [].
    - left; reflexivity.
  Qed.

  (* ---------------- the loop: an already indexed successor ---------------- *)
  Lemma li_skip (v : K) (st0 st : sst) (n : nat) (dn : list K) (w : K) (iw : nat) :
    LI v st0 st n dn -> lookup w (vidx st) = Some iw -> ~ In w (stack st) ->
    LI v st0 st n (dn ++ [w]).
  Proof.
    intros L Lw NI.
    destruct L as [I E Lv Nx Ln Stk Dn Nn].
    constructor; auto.
    intros z Hz. apply in_app_or in Hz. destruct Hz as [Hz|[<-|[]]].
    - exact (Dn z Hz).
    - split; [congruence|]. intros i Hw. contradiction.
  Qed.

  Lemma li_onstack (v : K) (st0 st : sst) (n : nat) (dn : list K) (w : K) (wt : Z) (iw : nat) :
    Inv st0 ->
    LI v st0 st n dn -> edge g v w wt -> lookup w (vidx st) = Some iw -> In w (stack st) ->
    LI v st0 st (Nat.min n iw) (dn ++ [w]).
  Proof.
    intros I0 L Ed Lw Hw.
    pose proof (li_n_le L) as Nle.
    pose proof (fun i H1 H2 => @li_old v st0 st n dn w i I0 L H1 H2) as Old.
    destruct L as [I E Lv Nx Ln Stk Dn Nn].
    constructor; auto.
    - destruct Stk as [s [Hs SG]]. exists s. split; [exact Hs|].
      destruct SG as [S1 S2 S3 S4]. constructor; auto.
      intros y z w' i Hy Ed' Hz Lz. pose proof (S4 y z w' i Hy Ed' Hz Lz). lia.
    - intros z Hz. apply in_app_or in Hz. destruct Hz as [Hz|[<-|[]]].
      + destruct (Dn z Hz) as [D1 D2]. split; [exact D1|].
        intros i H1 H2. pose proof (D2 i H1 H2). lia.
      + split; [congruence|]. intros i _ Li. rewrite Lw in Li. inversion Li; subst. lia.
    - destruct (Nat.le_gt_cases n iw) as [LE|GT].
      + rewrite Nat.min_l by exact LE. exact Nn.
      + rewrite Nat.min_r by lia. right.
        assert (Lt : iw < nexti st0) by lia.
        destruct (Old iw Hw Lw Lt) as [O1 O2].
        split; [exact Lt|]. exists w. split; [exact O1|]. split; [exact O2|].
        eapply reach_edge; eauto.
  Qed.

  (* ---------------- the loop: a white successor ---------------- *)
  Lemma li_child_pre (v : K) (st0 st : sst) (n : nat) (dn : list K) (w : K) (wt : Z) (f : nat) :
    vertex g v -> (forall y, In y (stack st0) -> reach g y v) ->
    LI v st0 st n dn -> edge g v w wt -> lookup w (vidx st) = None ->
    nV < f + length (seen st) ->
    Pre w st f.
  Proof.
    intros Vv R0 L Ed Lw Fu.
    split; [exact (li_inv L)|]. split; [exact Lw|].
    split; [exact (proj2 (edge_vertices WF Ed))|]. split; [|exact Fu].
    intros y Hy. eapply reach_trans; [eapply li_stack_reach; eauto|].
    eapply reach_edge; eauto.
  Qed.

  Lemma li_child (v : K) (st0 st : sst) (n : nat) (dn : list K) (w : K) (wt : Z)
        (st' : sst) (r : nat) :
    Inv st0 -> vertex g v -> (forall y, In y (stack st0) -> reach g y v) ->
    LI v st0 st n dn -> edge g v w wt -> lookup w (vidx st) = None ->
    Post w st st' r ->
    LI v st0 st' (Nat.min n r) (dn ++ [w]).
  Proof.
    intros I0 Vv R0 L Ed Lw P.
    pose proof (li_n_le L) as Nle.
    pose proof (@li_stack_reach v st0 st n dn Vv R0 L) as SR.
    pose proof (fun y i H1 H2 => @li_old v st0 st n dn y i I0 L H1 H2) as Old.
    assert (Rvw : reach g v w) by (eapply reach_edge; eauto).
    destruct L as [I E Lv Nx Ln Stk Dn Nn].
    destruct P as [I' E' Lw' Nx' Ln' Sg'].
    destruct Stk as [s [Hs SG]].
    destruct Sg' as [s' [Hs' [SG' Alt]]].
    (* a vertex of the new segment s' has a large index *)
    assert (Big : forall z i, In z s' -> lookup z (vidx st') = Some i -> nexti st <= i).
    { intros z i Hz Lz. destruct (seg_idx SG' _ Hz) as [j [Lj B]].
      rewrite Lz in Lj. inversion Lj; subst. exact B. }
    (* w reaches v whenever s' is not empty *)
    assert (Rwv : forall y, In y s' -> reach g w v).
    { intros y Hy. destruct Alt as [[-> _]|[_ [_ [y0 [H0 [_ R]]]]]]; [contradiction|].
      eapply reach_trans; [exact R|]. apply SR. exact H0. }
    constructor.
    - exact I'.
    - eapply Ext_trans; eauto.
    - apply (ext_idx E'). exact Lv.
    - lia.
    - lia.
    - exists (s' ++ s). split; [rewrite Hs', Hs, app_assoc; reflexivity|].
      constructor.
      + intros y Hy. apply in_app_or in Hy. destruct Hy as [Hy|Hy].
        * destruct (seg_idx SG' _ Hy) as [j [Lj B]]. exists j. split; [exact Lj|lia].
        * destruct (seg_idx SG _ Hy) as [j [Lj B]]. exists j. split; [|exact B].
          apply (ext_idx E'). exact Lj.
      + intros y Hy. apply in_app_or in Hy. destruct Hy as [Hy|Hy].
        * destruct (seg_reach SG' _ Hy) as [R1 R2]. split.
          -- eapply reach_trans; eauto.
          -- eapply reach_trans; [exact R2|]. eapply Rwv; eauto.
        * exact (seg_reach SG _ Hy).
      + intros y z w' Hy Ed'. apply in_app_or in Hy. destruct Hy as [Hy|Hy].
        * exact (seg_succ SG' Hy Ed').
        * pose proof (seg_succ SG Hy Ed') as NN.
          destruct (lookup z (vidx st)) as [j|] eqn:Lz; [|congruence].
          rewrite (ext_idx E' _ Lz). congruence.
      + intros y z w' i Hy Ed' Hz Lz. apply in_app_or in Hy. destruct Hy as [Hy|Hy].
        * pose proof (seg_low SG' Hy Ed' Hz Lz). lia.
        * rewrite Hs' in Hz. apply in_app_or in Hz. destruct Hz as [Hz|Hz].
          -- pose proof (Big _ _ Hz Lz). lia.
          -- destruct (seen_lookup _ I (stack_seen _ _ Hz)) as [j Lj].
             pose proof (ext_idx E' _ Lj) as Lj'. rewrite Lz in Lj'. inversion Lj'; subst.
             pose proof (seg_low SG Hy Ed' Hz Lj). lia.
    - intros z Hz. apply in_app_or in Hz. destruct Hz as [Hz|[<-|[]]].
      + destruct (Dn z Hz) as [D1 D2]. split.
        * destruct (lookup z (vidx st)) as [j|] eqn:Lz; [|congruence].
          rewrite (ext_idx E' _ Lz). congruence.
        * intros i Hz' Lz. rewrite Hs' in Hz'. apply in_app_or in Hz'. destruct Hz' as [Hz'|Hz'].
          -- pose proof (Big _ _ Hz' Lz). lia.
          -- destruct (seen_lookup _ I (stack_seen _ _ Hz')) as [j Lj].
             pose proof (ext_idx E' _ Lj) as Lj'. rewrite Lz in Lj'. inversion Lj'; subst.
             pose proof (D2 _ Hz' Lj). lia.
      + split; [congruence|]. intros i _ Li. rewrite Lw' in Li. inversion Li; subst. lia.
    - destruct (Nat.le_gt_cases n r) as [LE|GT].
      + rewrite Nat.min_l by exact LE. exact Nn.
      + rewrite Nat.min_r by lia. right.
        assert (Lt : r < nexti st0) by lia.
        destruct Alt as [[_ ->]|[_ [_ [y0 [H0 [L0 R]]]]]]; [lia|].
        destruct (Old y0 r H0 L0 Lt) as [O1 O2].
        split; [exact Lt|]. exists y0. split; [exact O1|]. split; [exact O2|].
        eapply reach_trans; eauto.
  Qed.

  (* ---------------- the loop ---------------- *)
  Definition scc_ok (f : nat) : Prop :=
    forall w st, Pre w st f ->
      okres (fun p => Post w st (fst p) (snd p)) (scc g f w st).

  Lemma loop_spec (f : nat) (v : K) (st0 : sst) :
    scc_ok f -> Inv st0 -> vertex g v -> (forall y, In y (stack st0) -> reach g y v) ->
    forall ws st n dn,
      LI v st0 st n dn -> (forall w, In w ws -> exists wt, edge g v w wt) ->
      nV < f + length (seen st) ->
      okres (fun p => LI v st0 (fst p) (snd p) (dn ++ ws)) (scc_loop (scc g f) ws st n).
  Proof.
    intros IH I0 Vv R0.
    induction ws as [|w ws IHws]; intros st n dn L Ed Fu.
    - simpl. rewrite app_nil_r. exact L.
    - replace (dn ++ w :: ws) with ((dn ++ [w]) ++ ws) by (rewrite <- app_assoc; reflexivity).
      destruct (Ed w (or_introl eq_refl)) as [wt Edw].
      assert (Ed' : forall w0, In w0 ws -> exists wt0, edge g v w0 wt0)
        by (intros w0 Hw0; apply Ed; right; exact Hw0).
      simpl. destruct (idx_of st w) as [|m] eqn:Ix.
      + (* white successor: recursive call *)
        pose proof (idx_of_zero _ (li_inv L) Ix) as Lw.
        pose proof (@li_child_pre v st0 st n dn w wt f Vv R0 L Edw Lw Fu) as PreW.
        eapply okres_bind; [exact (IH w st PreW)|].
        intros [st' r] P; simpl in P.
        apply IHws; [|exact Ed'|].
        * eapply li_child; eauto.
        * pose proof (post_len P). lia.
      + pose proof (idx_of_S _ _ Ix) as Lw.
        destruct (memb w (stack st)) eqn:M.
        * apply memb_In in M. apply IHws; [|exact Ed'|exact Fu].
          eapply li_onstack; eauto.
        * apply memb_false in M. apply IHws; [|exact Ed'|exact Fu].
          eapply li_skip; eauto.
  Qed.

  (* ---------------- end of a call: the component is popped ---------------- *)
  Lemma comp_reach (v : K) (st0 st : sst) (s : list K) (n : nat) :
    vertex g v -> Seg v st0 st s n ->
    forall y, In y (s ++ [v]) -> reach g v y /\ reach g y v.
  Proof.
    intros Vv SG y Hy. apply in_app_or in Hy. destruct Hy as [Hy|[<-|[]]].
    - exact (seg_reach SG _ Hy).
    - split; apply reach_refl; exact Vv.
  Qed.

  Lemma pop_comp_ok (v : K) (st0 st : sst) (dn : list K) (s : list K) :
    Inv st0 -> vertex g v ->
    LI v st0 st (nexti st0) dn ->
    (forall z wt, edge g v z wt -> In z dn) ->
    stack st = s ++ v :: stack st0 -> Seg v st0 st s (nexti st0) ->
    comp_ok (s ++ [v]).
  Proof.
    intros I0 Vv L All Hs SG.
    pose proof (comp_reach Vv SG) as CR.
    pose proof (li_inv L) as I.
    (* a walk that starts in the component and whose end reaches v stays inside *)
    assert (Stay : forall x b p wt, walk g x b p wt ->
                     In x (s ++ [v]) -> reach g b v -> In b (s ++ [v])).
    { intros x b p wt W. induction W as [a Va|a b c p w1 w2 Ed W IHW]; intros Hx Rb.
      - exact Hx.
      - apply IHW; [|exact Rb].
        (* b is indexed, and every edge from a into the stack has index >= index v *)
        assert (Hb : lookup b (vidx st) <> None /\
                     (forall i, In b (stack st) -> lookup b (vidx st) = Some i -> nexti st0 <= i)).
        { apply in_app_or in Hx. destruct Hx as [Hx|[<-|[]]].
          - split; [exact (seg_succ SG Hx Ed)|].
            intros i Hb Lb. exact (seg_low SG Hx Ed Hb Lb).
          - exact (li_dn L _ (All _ _ Ed)). }
        destruct Hb as [Hb1 Hb2].
        destruct (lookup b (vidx st)) as [i|] eqn:Lb; [|congruence].
        pose proof (lookup_seen _ I Lb) as Sb. unfold seen in Sb.
        apply in_app_or in Sb. destruct Sb as [Sb|Sb].
        + pose proof (Hb2 i Sb eq_refl) as Bi.
          rewrite Hs in Sb. apply in_app_or in Sb. destruct Sb as [Sb|[<-|Sb]].
          * apply in_or_app; left; exact Sb.
          * apply in_or_app; right; left; reflexivity.
          * exfalso.
            destruct (seen_lookup _ I0 (stack_seen _ _ Sb)) as [j Lj].
            pose proof (ext_idx (li_ext L) _ Lj) as Lj'. rewrite Lb in Lj'. inversion Lj'; subst.
            destruct (inv_idx I0 _ Lj) as [B _]. lia.
        + exfalso.
          apply in_concat in Sb. destruct Sb as [c0 [Hc0 Hb0]].
          destruct (inv_comp I _ Hc0) as [_ C0].
          assert (Hv0 : In v c0).
          { apply (C0 b v Hb0). split.
            - eapply reach_trans; [|exact Rb]. exists p, w2. exact W.
            - eapply reach_trans; [exact (proj1 (CR _ Hx))|]. eapply reach_edge; eauto. }
          apply (@NoDup_app_disjoint K (stack st) (concat (sccs st)) v (inv_nodup I)).
          * rewrite Hs. apply in_or_app; right; left; reflexivity.
          * apply in_concat. exists c0. split; assumption. }
    split.
    - intros E. apply app_eq_nil in E. destruct E as [_ E]. discriminate.
    - intros a b Ha. split.
      + intros Hb. destruct (CR _ Ha) as [A1 A2]. destruct (CR _ Hb) as [B1 B2].
        split; eapply reach_trans; eauto.
      + intros [Rab Rba]. destruct (CR _ Ha) as [A1 A2].
        assert (Rvb : reach g v b) by (eapply reach_trans; eauto).
        destruct Rvb as [p [wt W]].
        apply (Stay v b p wt W).
        * apply in_or_app; right; left; reflexivity.
        * eapply reach_trans; eauto.
  Qed.

  Lemma post_popped (v : K) (st0 st : sst) (ws : list K) (s : list K) :
    Inv st0 -> vertex g v ->
    LI v st0 st (nexti st0) ws ->
    (forall z wt, edge g v z wt -> In z ws) ->
    stack st = s ++ v :: stack st0 -> Seg v st0 st s (nexti st0) ->
    Post v st0 (mkScc (nexti st) (vidx st) (stack st0) (sccs st ++ [s ++ [v]]) (stape st))
         (nexti st0).
  Proof.
    intros I0 Vv L All Hs SG.
    pose proof (pop_comp_ok I0 Vv L All Hs SG) as CO.
    pose proof (li_inv L) as I.
    assert (PM : Permutation (seen (mkScc (nexti st) (vidx st) (stack st0)
                                           (sccs st ++ [s ++ [v]]) (stape st))) (seen st)).
    { unfold seen; simpl. rewrite Hs. apply perm_pop. }
    constructor; simpl.
    - constructor; simpl.
      + exact (inv_next I).
      + exact (inv_idx I).
      + intros k. rewrite <- (inv_seen I k). split; intros HI.
        * eapply Permutation_in; [exact PM|exact HI].
        * eapply Permutation_in; [apply Permutation_sym; exact PM|exact HI].
      + eapply Permutation_NoDup; [apply Permutation_sym; exact PM|exact (inv_nodup I)].
      + intros c Hc. apply in_app_or in Hc. destruct Hc as [Hc|[<-|[]]].
        * exact (inv_comp I _ Hc).
        * exact CO.
    - destruct (li_ext L) as [E1 E2 E3 E4]. constructor; simpl; auto.
      rewrite (Permutation_length PM). exact E4.
    - exact (li_v L).
    - exact (li_next L).
    - rewrite (Permutation_length PM). exact (li_len L).
    - exists []. split; [reflexivity|]. split.
      + constructor; intros; simpl in *; tauto.
      + left; split; reflexivity.
  Qed.

  Lemma post_kept (v : K) (st0 st : sst) (n : nat) (ws : list K) :
    vertex g v ->
    LI v st0 st n ws ->
    (forall z wt, edge g v z wt -> In z ws) ->
    n <> nexti st0 ->
    Post v st0 st n.
  Proof.
    intros Vv L All NE.
    destruct (li_stack L) as [s [Hs SG]].
    constructor.
    - exact (li_inv L).
    - exact (li_ext L).
    - exact (li_v L).
    - exact (li_next L).
    - exact (li_len L).
    - exists (s ++ [v]). split; [rewrite Hs, <- app_assoc; reflexivity|]. split.
      + constructor.
        * intros y Hy. apply in_app_or in Hy. destruct Hy as [Hy|[<-|[]]].
          -- exact (seg_idx SG _ Hy).
          -- exists (nexti st0). split; [exact (li_v L)|lia].
        * exact (comp_reach Vv SG).
        * intros y z w Hy Ed. apply in_app_or in Hy. destruct Hy as [Hy|[<-|[]]].
          -- exact (seg_succ SG Hy Ed).
          -- exact (proj1 (li_dn L _ (All _ _ Ed))).
        * intros y z w i Hy Ed Hz Lz. apply in_app_or in Hy. destruct Hy as [Hy|[<-|[]]].
          -- exact (seg_low SG Hy Ed Hz Lz).
          -- exact (proj2 (li_dn L _ (All _ _ Ed)) i Hz Lz).
      + right. split; [apply in_or_app; right; left; reflexivity|].
        destruct (li_n L) as [E|W]; [contradiction|exact W].
  Qed.

  (* ---------------- one call of scc ---------------- *)
  Lemma scc_spec (f : nat) : scc_ok f.
  Proof.
    induction f as [|f IHf]; intros v st [I [Lv [Vv [R0 Fu]]]].
    - pose proof (white_len _ I Lv Vv). simpl in Fu. lia.
    - rewrite scc_unfold. cbv zeta. simpl nexti; simpl vidx; simpl stack; simpl sccs; simpl stape.
      eapply okres_bind; [apply take_perm_spec|].
      intros [ws t'] PW; simpl in PW.
      pose proof (@li_init v st t' I Lv Vv) as L0.
      assert (EdW : forall w, In w ws -> exists wt, edge g v w wt).
      { intros w Hw. apply (edge_out_keys g v w).
        eapply Permutation_in; [exact PW|exact Hw]. }
      assert (All : forall z wt, edge g v z wt -> In z ws).
      { intros z wt Ed. eapply Permutation_in; [apply Permutation_sym; exact PW|].
        apply (edge_out_keys g v z). eauto. }
      assert (Fu' : nV < f + length (seen (mkScc (S (nexti st)) (insert v (nexti st) (vidx st))
                                                 (v :: stack st) (sccs st) t'))).
      { unfold seen in *; simpl. lia. }
      eapply okres_bind; [exact (loop_spec IHf I Vv R0 ws L0 EdW Fu')|].
      intros [st2 n] L; simpl in L.
      destruct (Nat.eqb (nexti st) n) eqn:EQ.
      + apply Nat.eqb_eq in EQ. subst n.
        destruct (li_stack L) as [s [Hs SG]].
        assert (NI : ~ In v s).
        { pose proof (inv_nodup (li_inv L)) as ND. unfold seen in ND.
          apply NoDup_app_l in ND. rewrite Hs in ND.
          apply NoDup_remove_2 in ND. intros HI. apply ND. apply in_or_app; left; exact HI. }
        rewrite Hs, (pop_until_spec v s (stack st) [] NI). simpl.
        exact (post_popped I Vv L All Hs SG).
      + apply Nat.eqb_neq in EQ. simpl.
        eapply post_kept; eauto.
  Qed.

  (* ---------------- the driver ---------------- *)
  Definition top_step (r : res sst) (v : K) : res sst :=
    do st <- r;
    match idx_of st v with
    | O => do (st', _) <- scc g (S (length (g_vertex_keys g))) v st; Ok st'
    | _ => Ok st
    end.

  Lemma strongly_connected_unfold (t : tape K) :
    strongly_connected g t =
      do (vs, t1) <- take_perm SITE_SCC_V (g_vertex_keys g) t;
      do st <- fold_left top_step vs (Ok (mkScc 1 [] [] [] t1));
      Ok (sccs st, stape st).
  Proof. reflexivity. Qed.

  Lemma fold_top_err (vs : list K) (r : res sst) :
    (forall st, r <> Ok st) -> fold_left top_step vs r = r.
  Proof.
    revert r; induction vs as [|v vs IH]; intros r NE; simpl; [reflexivity|].
    destruct r as [st|s|s|]; simpl.
    - exfalso. apply (NE st). reflexivity.
    - apply IH. intros st; discriminate.
    - apply IH. intros st; discriminate.
    - apply IH. intros st; discriminate.
  Qed.

  Lemma top_step_ok (st : sst) (v : K) :
    top_step (Ok st) v =
      match idx_of st v with
      | O => do (st', _) <- scc g (S (length (g_vertex_keys g))) v st; Ok st'
      | _ => Ok st
      end.
  Proof. reflexivity. Qed.

  Lemma fold_top_cons (v : K) (vs : list K) (r : res sst) :
    fold_left top_step (v :: vs) r = fold_left top_step vs (top_step r v).
  Proof. reflexivity. Qed.

  Definition TL (st : sst) : Prop := Inv st /\ stack st = [].

  Lemma fold_top_spec (vs : list K) :
    forall st, TL st -> (forall v, In v vs -> vertex g v) ->
      okres (fun st' => TL st' /\ Ext st st' /\ forall v, In v vs -> lookup v (vidx st') <> None)
            (fold_left top_step vs (Ok st)).
  Proof.
    induction vs as [|v vs IH]; intros st [I S0] Vs.
    - simpl. split; [split; assumption|]. split; [apply Ext_refl|]. intros v [].
    - rewrite fold_top_cons, top_step_ok.
      assert (Vs' : forall v0, In v0 vs -> vertex g v0) by (intros v0 Hv0; apply Vs; right; exact Hv0).
      destruct (idx_of st v) as [|m] eqn:Ix.
      + pose proof (idx_of_zero _ I Ix) as Lv.
        assert (PreV : Pre v st (S (length (g_vertex_keys g)))).
        { split; [exact I|]. split; [exact Lv|]. split; [apply Vs; left; reflexivity|].
          split; [rewrite S0; intros y []|]. unfold nV, g_vertex_keys. lia. }
        pose proof (scc_spec PreV) as SP.
        destruct (scc g (S (length (g_vertex_keys g))) v st) as [[st' r]|s|s|]; simpl in SP; cbn [bind].
        * destruct SP as [I' E' Lv' Nx' Ln' [s [Hs [SG Alt]]]].
          assert (S0' : stack st' = []).
          { rewrite S0 in Hs. rewrite app_nil_r in Hs.
            destruct Alt as [[-> _]|[_ [_ [y0 [H0 _]]]]]; [exact Hs|].
            rewrite S0 in H0. destruct H0. }
          eapply okres_weaken; [exact (IH st' (conj I' S0') Vs')|].
          intros st'' [T [E'' Ix'']]. split; [exact T|]. split; [eapply Ext_trans; eauto|].
          intros v0 [<-|Hv0]; [|exact (Ix'' _ Hv0)].
          rewrite (ext_idx E'' _ Lv'). congruence.
        * contradiction.
        * rewrite fold_top_err by (intros st'; discriminate). simpl. exact Logic.I.
        * contradiction.
      + pose proof (idx_of_S _ _ Ix) as Lv.
        eapply okres_weaken; [exact (IH st (conj I S0) Vs')|].
        intros st'' [T [E'' Ix'']]. split; [exact T|]. split; [exact E''|].
        intros v0 [<-|Hv0]; [|exact (Ix'' _ Hv0)].
        rewrite (ext_idx E'' _ Lv). congruence.
  Qed.

  Lemma Inv_init (t1 : tape K) : TL (mkScc 1 [] [] [] t1).
  Proof.
    split; [|reflexivity]. constructor; simpl.
    - lia.
    - intros k i E; discriminate.
    - intros k. unfold seen; simpl. split; [tauto|congruence].
    - constructor.
    - intros c [].
  Qed.

  Lemma strongly_connected_spec (t : tape K) :
    okres (fun r => Permutation (concat (fst r)) (keys (ghash g)) /\
                    forall c, In c (fst r) -> comp_ok c)
          (strongly_connected g t).
  Proof.
    rewrite strongly_connected_unfold.
    eapply okres_bind; [apply take_perm_spec|].
    intros [vs t1] PW; simpl in PW.
    assert (Vs : forall v, In v vs -> vertex g v).
    { intros v Hv. eapply Permutation_in; [exact PW|exact Hv]. }
    eapply okres_bind; [exact (fold_top_spec vs (Inv_init t1) Vs)|].
    intros st [[I S0] [_ Ix]]. simpl. split; [|exact (inv_comp I)].
    assert (Sn : seen st = concat (sccs st)) by (unfold seen; rewrite S0; reflexivity).
    apply NoDup_Permutation.
    - rewrite <- Sn. exact (inv_nodup I).
    - exact (wf_hash_nodup WF).
    - intros k. rewrite <- Sn. split; intros Hk.
      + destruct (seen_lookup _ I Hk) as [i L]. exact (proj2 (inv_idx I _ L)).
      + apply (inv_seen I). apply Ix. eapply Permutation_in; [apply Permutation_sym; exact PW|exact Hk].
  Qed.
End Tarjan.

Theorem C20c_proof : forall (K : Type) (E : EqDec K) (V : Type), @C20c_statement K E V.
Proof.
  intros K E V g t t' cs WF Hr.
  pose proof (strongly_connected_spec WF t) as SP.
  rewrite Hr in SP. simpl in SP. destruct SP as [P C].
  split; [exact P|]. split.
  - intros c Hc. exact (proj1 (C c Hc)).
  - intros c a b Hc Ha. exact (proj2 (C c Hc) a b Ha).
Qed.
Print Assumptions C20c_proof.

Theorem C20c_total_proof : forall (K : Type) (E : EqDec K) (V : Type), @C20c_total_statement K E V.
Proof.
  intros K E V g t WF.
  pose proof (strongly_connected_spec WF t) as SP.
  destruct (strongly_connected g t) as [r|s|s|]; simpl in SP.
  - left. exists r. reflexivity.
  - contradiction.
  - right. exists s. reflexivity.
  - contradiction.
Qed.
Print Assumptions C20c_total_proof.

(* C05CompleteGraphBase.v -- the graph mutators used by full_graph, seen
   through [vertex] / [edge] / [g_vertex]; the monotonicity relation [gsub]. *)
From ArgMapper Require Import Base Graph GraphAlg GraphSpec GraphStatements Types Args Resolver GenWeights.
From ArgMapper.proofs Require Import C18DijkstraLemmas C19RefineMap C19RefineGraph.
From Coq Require Import Lia ZArith List.
Import ListNotations.
Set Implicit Arguments.
Local Open Scope Z_scope.

Notation rg := (graph vkey vpay).

Definition fvof (g : rg) : vkey -> option vpay := fun k => lookup k (ghash g).
Definition feof (g : rg) : vkey -> vkey -> option Z := fun a b => lookup b (inner (gout g) a).

Lemma wf_gspec (g : rg) : wf_graph g -> gspec g (fvof g) (feof g).
Proof.
  intros W. split; [reflexivity|]. split; [reflexivity|]. split; [|exact W].
  intros a b. unfold feof.
  destruct (lookup b (inner (gout g) a)) as [w|] eqn:Q.
  - apply (wf_mirror W) in Q. exact Q.
  - destruct (lookup a (inner (gin g) b)) as [w|] eqn:Q'; [|reflexivity].
    apply (wf_mirror W) in Q'. congruence.
Qed.

Lemma vertex_fv (g : rg) k : vertex g k <-> fvof g k <> None.
Proof.
  unfold vertex, fvof. rewrite in_keys_lookup. destruct (lookup k (ghash g)).
  - split; [discriminate|eauto].
  - split; [intros [v Q]; discriminate|intros N; contradiction N; reflexivity].
Qed.

Lemma vertex_gv (g : rg) k : vertex g k <-> exists p, g_vertex g k = Some p.
Proof. unfold vertex, g_vertex. apply in_keys_lookup. Qed.

Lemma edge_fe (g : rg) a b w : edge g a b w <-> feof g a b = Some w.
Proof. reflexivity. Qed.

Lemma gv_fv (g : rg) k : g_vertex g k = fvof g k.
Proof. reflexivity. Qed.

Lemma out_keys_edge (g : rg) a x : In x (g_out_keys g a) <-> exists w, edge g a x w.
Proof. unfold g_out_keys, edge. apply in_keys_lookup. Qed.

(* ---------- the mutators ---------- *)
Lemma g_add_facts (g : rg) k v :
  wf_graph g ->
  wf_graph (g_add g k v) /\
  (forall x, vertex (g_add g k v) x <-> x = k \/ vertex g x) /\
  (forall a b, feof (g_add g k v) a b = feof g a b) /\
  (forall x, fvof (g_add g k v) x =
             match fvof g k with
             | Some _ => fvof g x
             | None => if Base.eqb x k then Some v else fvof g x
             end).
Proof.
  intros W. pose proof (gspec_add k v (wf_gspec W)) as (Hv & Ho & _ & W').
  split; [exact W'|]. split; [|split].
  - intros x. rewrite !vertex_fv. unfold fvof at 1. rewrite Hv.
    destruct (fvof g k) eqn:Q.
    + split; [auto|]. intros [->|A]; [congruence|exact A].
    + unfold upd1. destruct (Base.eqb_spec x k) as [->|N].
      * split; [auto|discriminate].
      * split; [auto|]. intros [A|A]; [contradiction|exact A].
  - intros a b. unfold feof at 1. rewrite Ho. reflexivity.
  - intros x. unfold fvof at 1. rewrite Hv. destruct (fvof g k); reflexivity.
Qed.

Lemma g_over_facts (g : rg) k v :
  wf_graph g ->
  wf_graph (g_add_overwrite g k v) /\
  (forall x, vertex (g_add_overwrite g k v) x <-> x = k \/ vertex g x) /\
  (forall a b, feof (g_add_overwrite g k v) a b = feof g a b) /\
  (forall x, fvof (g_add_overwrite g k v) x = if Base.eqb x k then Some v else fvof g x).
Proof.
  intros W. pose proof (gspec_overwrite k v (wf_gspec W)) as (Hv & Ho & _ & W').
  split; [exact W'|]. split; [|split].
  - intros x. rewrite !vertex_fv. unfold fvof at 1. rewrite Hv.
    unfold upd1. destruct (Base.eqb_spec x k) as [->|N].
    + split; [auto|discriminate].
    + split; [auto|]. intros [A|A]; [contradiction|exact A].
  - intros a b. unfold feof at 1. rewrite Ho. reflexivity.
  - intros x. unfold fvof at 1. rewrite Hv. reflexivity.
Qed.

Lemma add_e_facts (g : rg) a b w :
  wf_graph g ->
  wf_graph (add_e g a b w) /\
  (forall x, fvof (add_e g a b w) x = fvof g x) /\
  (forall x y, feof (add_e g a b w) x y =
               if fvof g a then if fvof g b then (if Base.eqb x a && Base.eqb y b then Some w else feof g x y)
                                else feof g x y else feof g x y).
Proof.
  intros W. destruct (gspec_add_edge a b w (wf_gspec W)) as (g' & Q & Hv & Ho & _ & W').
  unfold add_e. rewrite Q. split; [exact W'|]. split.
  - intros x. unfold fvof at 1. rewrite Hv. reflexivity.
  - intros x y. unfold feof at 1. rewrite Ho.
    destruct (fvof g a); [|reflexivity]. destruct (fvof g b); reflexivity.
Qed.

Lemma add_e_wf (g : rg) a b w : wf_graph g -> wf_graph (add_e g a b w).
Proof. intros W. apply (add_e_facts a b w W). Qed.

Lemma add_e_gv (g : rg) a b w x : wf_graph g -> g_vertex (add_e g a b w) x = g_vertex g x.
Proof. intros W. apply (add_e_facts a b w W). Qed.

Lemma add_e_vertex (g : rg) a b w x : wf_graph g -> (vertex (add_e g a b w) x <-> vertex g x).
Proof. intros W. rewrite !vertex_fv. destruct (add_e_facts a b w W) as (_ & F & _). rewrite F. reflexivity. Qed.

Lemma add_e_edge_inv (g : rg) a b w x y w' :
  wf_graph g -> edge (add_e g a b w) x y w' -> edge g x y w' \/ (x = a /\ y = b /\ w' = w).
Proof.
  intros W. destruct (add_e_facts a b w W) as (_ & _ & F). rewrite !edge_fe, F.
  destruct (fvof g a); [|intros Q; left; exact Q]. destruct (fvof g b); [|intros Q; left; exact Q].
  destruct (Base.eqb_spec x a) as [->|N]; cbn [andb]; [|intros Q; left; exact Q].
  destruct (Base.eqb_spec y b) as [->|N']; [|intros Q; left; exact Q].
  intros Q; inversion Q; right; auto.
Qed.

Lemma add_e_edge_mono (g : rg) a b w x y w' :
  wf_graph g -> edge g x y w' -> exists w'', edge (add_e g a b w) x y w''.
Proof.
  intros W. destruct (add_e_facts a b w W) as (_ & _ & F). intros Ed.
  setoid_rewrite edge_fe. rewrite F.
  destruct (fvof g a); eauto. destruct (fvof g b); eauto.
  destruct (Base.eqb x a && Base.eqb y b); eauto.
Qed.

Lemma add_e_edge_new (g : rg) a b w :
  wf_graph g -> vertex g a -> vertex g b -> edge (add_e g a b w) a b w.
Proof.
  intros W Va Vb. destruct (add_e_facts a b w W) as (_ & _ & F). rewrite edge_fe, F.
  apply vertex_fv in Va. apply vertex_fv in Vb.
  destruct (fvof g a); [|contradiction Va; reflexivity].
  destruct (fvof g b); [|contradiction Vb; reflexivity].
  rewrite !Base.eqb_refl. reflexivity.
Qed.

(* ---------- monotonicity: vertices stay, edges stay (maybe reweighted),
   function vertices keep their payload ---------- *)
Definition is_fn (k : vkey) : bool := match k with KFunc _ => true | _ => false end.

Definition gsub (g g' : rg) : Prop :=
  (forall x, vertex g x -> vertex g' x) /\
  (forall a b w, edge g a b w -> exists w', edge g' a b w') /\
  (forall ft p, g_vertex g (KFunc ft) = Some p -> g_vertex g' (KFunc ft) = Some p).

Lemma gsub_refl g : gsub g g.
Proof. split; [|split]; eauto. Qed.

Lemma gsub_trans g1 g2 g3 : gsub g1 g2 -> gsub g2 g3 -> gsub g1 g3.
Proof.
  intros (V1 & E1 & P1) (V2 & E2 & P2). split; [auto|]. split; [|auto].
  intros a b w Ed. destruct (E1 _ _ _ Ed) as (w' & Ed'). eauto.
Qed.

Lemma gsub_add (g : rg) k v : wf_graph g -> gsub g (g_add g k v).
Proof.
  intros W. destruct (g_add_facts k v W) as (_ & Vx & F & P). split; [|split].
  - intros x A. apply Vx. auto.
  - intros a b w Ed. exists w. rewrite edge_fe, F. exact Ed.
  - intros ft p Q. rewrite gv_fv in *. rewrite P.
    destruct (fvof g k) eqn:Qk; [exact Q|].
    destruct (Base.eqb_spec (KFunc ft) k) as [<-|N]; [congruence|exact Q].
Qed.

Lemma gsub_over (g : rg) k v : wf_graph g -> is_fn k = false -> gsub g (g_add_overwrite g k v).
Proof.
  intros W Nf. destruct (g_over_facts k v W) as (_ & Vx & F & P). split; [|split].
  - intros x A. apply Vx. auto.
  - intros a b w Ed. exists w. rewrite edge_fe, F. exact Ed.
  - intros ft p Q. rewrite gv_fv in *. rewrite P.
    destruct (Base.eqb_spec (KFunc ft) k) as [<-|N]; [discriminate Nf|exact Q].
Qed.

Lemma gsub_add_e (g : rg) a b w : wf_graph g -> gsub g (add_e g a b w).
Proof.
  intros W. split; [|split].
  - intros x A. apply add_e_vertex; auto.
  - intros x y w' Ed. eapply add_e_edge_mono; eauto.
  - intros ft p Q. rewrite add_e_gv; auto.
Qed.

(* ---------- small facts on keys ---------- *)
Lemma field_key_nf fld : is_fn (field_key fld) = false.
Proof. unfold field_key. destruct (String.eqb (f_name fld) ""); reflexivity. Qed.
Lemma field_out_key_nf fld : is_fn (field_out_key fld) = false.
Proof. unfold field_out_key. destruct (String.eqb (f_name fld) ""); reflexivity. Qed.

Lemma input_vertices_shape b kv :
  In kv (input_vertices b) ->
  match fst kv with KVal _ _ _ | KOut _ _ => True | _ => False end.
Proof.
  unfold input_vertices. rewrite !in_app_iff, !in_map_iff.
  intros [(x & <- & _)|[(x & <- & _)|[(x & <- & _)|(x & <- & _)]]]; exact I.
Qed.

Lemma input_vertices_nf b kv : In kv (input_vertices b) -> is_fn (fst kv) = false.
Proof.
  intros H. apply input_vertices_shape in H. destruct (fst kv); try reflexivity; contradiction.
Qed.

(* the value map built from the inputs *)
Lemma vals_fold_lookup (l : list (vkey * value)) : forall (m : amap vkey value) k v,
  lookup k (fold_left (fun m kv => insert (fst kv) (snd kv) m) l m) = Some v ->
  lookup k m = Some v \/ In (k, v) l.
Proof.
  induction l as [|[k0 v0] l IH]; intros m k v Q; cbn [fold_left] in Q; [left; exact Q|].
  apply IH in Q. destruct Q as [Q|Q]; [|right; right; exact Q].
  cbn [fst snd] in Q. rewrite lookup_insert in Q.
  destruct (Base.eqb_spec k k0) as [->|N]; [|left; exact Q].
  inversion Q; subst. right; left; reflexivity.
Qed.

Lemma vals_fold_mem (l : list (vkey * value)) : forall (m : amap vkey value) k,
  (mem k m = true \/ In k (map fst l)) ->
  mem k (fold_left (fun m kv => insert (fst kv) (snd kv) m) l m) = true.
Proof.
  induction l as [|[k0 v0] l IH]; intros m k Q; cbn [fold_left].
  - destruct Q as [Q|[]]; exact Q.
  - apply IH. cbn [fst snd map] in *.
    destruct Q as [Q|[Q|Q]]; [left|left|right; exact Q].
    + unfold mem in *. rewrite lookup_insert. destruct (Base.eqb k k0); [reflexivity|exact Q].
    + subst k0. unfold mem. rewrite lookup_insert, Base.eqb_refl. reflexivity.
Qed.

(* entries of the value-set maps are fields of the list *)
Lemma last_named_in n fs : forall i acc j g,
  last_named n fs i acc = Some (j, g) -> In g fs \/ acc = Some (j, g).
Proof.
  induction fs as [|f fs IH]; intros i acc j g Q; cbn [last_named] in Q; [right; exact Q|].
  apply IH in Q. destruct Q as [Q|Q]; [left; right; exact Q|].
  destruct (negb (String.eqb (f_name f) "") && String.eqb (f_name f) n).
  - inversion Q; subst. left; left; reflexivity.
  - right; exact Q.
Qed.

Lemma last_typed_in t fs : forall i acc j g,
  last_typed t fs i acc = Some (j, g) -> In g fs \/ acc = Some (j, g).
Proof.
  induction fs as [|f fs IH]; intros i acc j g Q; cbn [last_typed] in Q; [right; exact Q|].
  apply IH in Q. destruct Q as [Q|Q]; [left; right; exact Q|].
  destruct (String.eqb (f_name f) "" && (f_ty f =? t)).
  - inversion Q; subst. left; left; reflexivity.
  - right; exact Q.
Qed.

Lemma named_entries_in fs fld : In fld (named_entries fs) -> In fld fs.
Proof.
  unfold named_entries. rewrite in_flat_map. intros (x & Ix & Q).
  destruct (String.eqb (f_name x) ""); [destruct Q|].
  destruct (last_named (f_name x) fs 0 None) as [[j g]|] eqn:L; [|destruct Q].
  destruct Q as [<-|[]]. apply last_named_in in L. destruct L as [L|L]; [exact L|discriminate].
Qed.

Lemma typed_entries_in fs fld : In fld (typed_entries fs) -> In fld fs.
Proof.
  unfold typed_entries. rewrite in_flat_map. intros (x & Ix & Q).
  destruct (String.eqb (f_name x) ""); [|destruct Q].
  destruct (last_typed (f_ty x) fs 0 None) as [[j g]|] eqn:L; [|destruct Q].
  destruct Q as [<-|[]]. apply last_typed_in in L. destruct L as [L|L]; [exact L|discriminate].
Qed.

(* Non-vacuity of the C08 theorems: a concrete scenario (case 137 of the
   redefstrict stream, seed 1, with the iteration orders recorded from the Go
   library) meets every premise of C08_succeeds and C08_callable: Redefine
   with an input filter and a converter on the chosen path returns one
   declared input, and the call of the redefined function executes the
   converter and the target. *)
From Coq Require Import List ZArith Bool String.
From ArgMapper Require Import Base Graph GraphAlg Types Args Resolver ResolverSpec Monitors Monitors2
     CheckResolver ResolverStatements ResolverStatements2 ResolverStatements3 ResolverStatements4.
Import ListNotations. Open Scope Z_scope.

Definition nv_scn : scn := (mkScn (mkU [10; 11; 12] [(0,10); (1,10); (1,11); (3,10); (10,10); (11,10); (11,11); (6,12); (12,12)]) [] [((OpRedefine (mkFn 1 111 FStruct [(mkF "b"%string 1 ""%string); (mkF "d"%string 0 ""%string)] FPos [(mkF ""%string 5 ""%string)] true false) [] [(AFilterIn (FltOr [(FltType 0)])); (ATyped [(Some (mkV 11 3))]); (AConvFunc [(Some (mkFn 2 112 FPos [(mkF ""%string 3 ""%string)] FStruct [(mkF "b"%string 1 ""%string)] true false))])]), (mkOpObs (ObsRedefine ObsOk [(RNamed "d"%string 0)]) [] [(10%N, [(KVal "b"%string 1 ""%string); (KVal "d"%string 0 ""%string)]); (1%N, [KRoot]); (1%N, [(KOut 3 ""%string)]); (1%N, [(KVal "d"%string 0 ""%string)]); (1%N, [(KArg 0 ""%string)]); (1%N, [(KFunc 111)]); (1%N, [(KArg 3 ""%string)]); (1%N, [(KFunc 112)]); (1%N, [(KVal "b"%string 1 ""%string)]); (1%N, [(KArg 1 ""%string)]); (1%N, [KRoot]); (1%N, [(KVal "d"%string 0 ""%string)]); (1%N, [(KArg 0 ""%string)]); (1%N, [(KFunc 111)]); (1%N, [(KOut 3 ""%string)]); (1%N, [(KArg 3 ""%string)]); (1%N, [(KFunc 112)]); (1%N, [(KVal "b"%string 1 ""%string)]); (1%N, [(KArg 1 ""%string)]); (10%N, [(KArg 3 ""%string)]); (11%N, [(KVal "b"%string 1 ""%string)])])); ((OpCallRedef 0%nat), (mkOpObs (ObsCallRedef 113 [(RNamed "d"%string 0, mkV 510 0)] ObsOk 1 [[2001]]) [(EExec 2 [(mkV 11 3)] [(mkV 1001 1)] None); (EExec 1 [(mkV 1001 1); (mkV 510 0)] [(mkV 2001 5)] None)] [(10%N, [(KVal "d"%string 0 ""%string)]); (10%N, [(KVal "d"%string 0 ""%string); (KVal "b"%string 1 ""%string)]); (1%N, [KRoot]); (1%N, [(KVal "d"%string 0 ""%string)]); (1%N, [(KOut 3 ""%string)]); (1%N, [(KFunc 111)]); (1%N, [(KArg 3 ""%string)]); (1%N, [(KArg 0 ""%string)]); (1%N, [(KFunc 112)]); (1%N, [(KVal "b"%string 1 ""%string)]); (1%N, [(KArg 1 ""%string)]); (10%N, [(KArg 3 ""%string)]); (11%N, [(KVal "b"%string 1 ""%string)])]))]).

Definition nv_u := sc_u nv_scn.
Definition nv_f : fdecl := match sc_ops nv_scn with (OpRedefine f _ _, _) :: _ => f | _ => identity_fn 0 end.
Definition nv_opts : list arg := match sc_ops nv_scn with (OpRedefine _ _ o, _) :: _ => o | _ => [] end.
Definition nv_t : tape vkey := match sc_ops nv_scn with (_, ob) :: _ => oo_tape ob | _ => [] end.
Definition nv_ins : list rfield := [RNamed "d"%string 0].
Definition nv_ivs : list (rfield * value) := [(RNamed "d"%string 0, mkV 510 0)].
(* the tape of the inner call = what the outer resolution of the synthesised function leaves *)
Definition nv_t' : tape vkey :=
  match sc_ops nv_scn with
  | _ :: (_, ob) :: _ =>
      match oo_obs ob with
      | ObsCallRedef ft given _ _ _ =>
          match call nv_u (fun _ _ => BOk) (redef_fn ft nv_ins) [] (given_opts given) world0 (oo_tape ob) with
          | Ok rn => run_tape rn | _ => [] end
      | _ => [] end
  | _ => [] end.

Definition nv_redefine_ok : bool :=
  match redefine nv_u nv_f [] nv_opts world0 nv_t with
  | Ok (inl ins, _) => rfields_seteq ins nv_ins && Nat.eqb (List.length ins) 1 | _ => false end.
Definition nv_call_ok : bool :=
  match call nv_u (fun _ _ => BOk) nv_f [] (redefined_opts nv_opts nv_ivs) world0 nv_t' with
  | Ok r => match run_out r with OOk _ => Nat.eqb (List.length (run_trace r)) 2 | _ => false end
  | _ => false end.

Example C08_premises_satisfiable :
  (exists b, build_args [] nv_opts = Some b /\ wf_call nv_u nv_f b = true /\ c08_domain nv_u nv_f b = true /\
             outputs_permitted nv_u nv_f b = true) /\
  nv_redefine_ok = true /\ nv_call_ok = true.
Proof.
  split.
  - eexists; split; [reflexivity|]. vm_compute. repeat split; reflexivity.
  - split; vm_compute; reflexivity.
Qed.

(* C10C16OptsLemmas.v -- lemmas on option processing (Args.v) for C16. *)
From ArgMapper Require Import Base Graph GraphAlg Types Args Resolver ResolverSpec CheckResolver Monitors ResolverStatements.
From ArgMapper.proofs Require Import C19RefineMap.
From Coq Require Import Permutation Lia.
Set Implicit Arguments.
Local Open Scope Z_scope.

(* ---------- slots ---------- *)
Lemma str_eqb_eq (a b : string) : @Base.eqb string EqDec_string a b = true <-> a = b.
Proof. apply (@Base.eqb_eq string EqDec_string). Qed.
Lemma str_eqb_refl (a : string) : @Base.eqb string EqDec_string a a = true.
Proof. apply str_eqb_eq. reflexivity. Qed.
Lemma slot_eqb_eq (a b : slot) : slot_eqb a b = true <-> a = b.
Proof.
  destruct a as [n|n st|t|t st], b as [n'|n' st'|t'|t' st']; simpl;
    split; intros HE; try discriminate HE.
  - apply str_eqb_eq in HE. subst. reflexivity.
  - inversion HE. apply str_eqb_refl.
  - apply andb_true_iff in HE. destruct HE as [H1 H2].
    apply str_eqb_eq in H1. apply str_eqb_eq in H2. subst. reflexivity.
  - inversion HE. rewrite !str_eqb_refl. reflexivity.
  - apply Z.eqb_eq in HE. subst. reflexivity.
  - inversion HE. apply Z.eqb_refl.
  - apply andb_true_iff in HE. destruct HE as [H1 H2].
    apply Z.eqb_eq in H1. apply str_eqb_eq in H2. subst. reflexivity.
  - inversion HE. rewrite Z.eqb_refl, str_eqb_refl. reflexivity.
Qed.

Lemma slot_eqb_refl (a : slot) : slot_eqb a a = true.
Proof. apply slot_eqb_eq. reflexivity. Qed.

Lemma slot_eqb_neq (a b : slot) : slot_eqb a b = false <-> a <> b.
Proof.
  split.
  - intros HE HN. apply slot_eqb_eq in HN. congruence.
  - intros HN. destruct (slot_eqb a b) eqn:HE; [|reflexivity].
    apply slot_eqb_eq in HE. contradiction.
Qed.

Lemma is_empty_eq (s : string) : is_empty s = String.eqb s EmptyString.
Proof. reflexivity. Qed.

Section LookupInsert.
  Context {K : Type} {E : EqDec K} {V : Type}.
  Lemma lookup_insert_same (k : K) (v : V) (m : amap K V) : lookup k (insert k v m) = Some v.
  Proof. rewrite lookup_insert. rewrite (Base.eqb_refl k). reflexivity. Qed.
  Lemma lookup_insert_other (k k' : K) (v : V) (m : amap K V) : k' <> k -> lookup k' (insert k v m) = lookup k' m.
  Proof.
    intros HN. rewrite lookup_insert. destruct (Base.eqb_spec k' k) as [HQ|HQ]; [contradiction|reflexivity].
  Qed.
End LookupInsert.

(* one write *)
Definition wstep (s : slot) (acc : option value) (sv : slot * value) : option value :=
  if slot_eqb (fst sv) s then Some (snd sv) else acc.
(* the writes of one option *)
Definition astep (s : slot) (acc : option value) (a : arg) : option value :=
  fold_left (wstep s) (writes a) acc.

Lemma last_write_eq (s : slot) (opts : list arg) :
  last_write s opts = fold_left (astep s) opts None.
Proof. reflexivity. Qed.

(* ---------- the setters against [slot_lookup] ---------- *)
Lemma slot_lookup_set_typed (b : builder) (v : option value) (s : slot) :
  slot_lookup (set_typed b v) s = fold_left (wstep s) (w_typed v) (slot_lookup b s).
Proof.
  destruct v as [x|]; [|reflexivity].
  unfold set_typed, w_typed, wstep. cbn [fold_left fst snd].
  destruct s as [n|n st|t|t st]; cbn [slot_lookup slot_eqb b_named b_namedsub b_typed b_typedsub]; try reflexivity.
  rewrite lookup_insert.
  change (@Base.eqb Z EqDec_Z t (v_ty x)) with (t =? v_ty x).
  rewrite (Z.eqb_sym (v_ty x) t). reflexivity.
Qed.

Lemma slot_lookup_set_typedsub (b : builder) (v : option value) (st : string) (s : slot) :
  slot_lookup (set_typedsub b v st) s = fold_left (wstep s) (w_typedsub v st) (slot_lookup b s).
Proof.
  unfold set_typedsub, w_typedsub. rewrite is_empty_eq.
  destruct (String.eqb st EmptyString) eqn:HE.
  - apply slot_lookup_set_typed.
  - destruct v as [x|]; [|reflexivity].
    unfold wstep. cbn [fold_left fst snd].
    destruct s as [n|n st'|t|t st']; cbn [slot_lookup b_named b_namedsub b_typed b_typedsub]; try reflexivity.
    destruct (slot_eqb (STypedSub (v_ty x) st) (STypedSub t st')) eqn:HS.
    + apply slot_eqb_eq in HS. inversion HS. subst. apply lookup_insert_same.
    + apply slot_eqb_neq in HS. apply lookup_insert_other.
      intros HQ. inversion HQ. subst. contradiction HS. reflexivity.
Qed.

Lemma slot_lookup_set_named (b : builder) (n : string) (v : option value) (s : slot) :
  slot_lookup (set_named b n v) s = fold_left (wstep s) (w_named n v) (slot_lookup b s).
Proof.
  unfold set_named, w_named. rewrite is_empty_eq.
  destruct (String.eqb n EmptyString) eqn:HE.
  - apply slot_lookup_set_typed.
  - destruct v as [x|]; [|reflexivity].
    unfold wstep. cbn [fold_left fst snd].
    destruct s as [n'|n' st'|t|t st']; cbn [slot_lookup b_named b_namedsub b_typed b_typedsub]; try reflexivity.
    destruct (slot_eqb (SNamed (lower n)) (SNamed n')) eqn:HS.
    + apply slot_eqb_eq in HS. inversion HS. subst. apply lookup_insert_same.
    + apply slot_eqb_neq in HS. apply lookup_insert_other.
      intros HQ. subst. contradiction HS. reflexivity.
Qed.

Lemma slot_lookup_set_namedsub (b : builder) (n : string) (v : option value) (st : string) (s : slot) :
  slot_lookup (set_namedsub b n v st) s = fold_left (wstep s) (writes (ANamedSub n v st)) (slot_lookup b s).
Proof.
  unfold set_namedsub, writes. rewrite !is_empty_eq.
  destruct (String.eqb n EmptyString) eqn:HE.
  - apply slot_lookup_set_typedsub.
  - destruct (String.eqb st EmptyString) eqn:HE2.
    + apply slot_lookup_set_named.
    + destruct v as [x|]; [|reflexivity].
      unfold wstep. cbn [fold_left fst snd].
      destruct s as [n'|n' st'|t|t st']; cbn [slot_lookup b_named b_namedsub b_typed b_typedsub]; try reflexivity.
      destruct (slot_eqb (SNamedSub (lower n) st) (SNamedSub n' st')) eqn:HS.
      * apply slot_eqb_eq in HS. inversion HS. subst. apply lookup_insert_same.
      * apply slot_eqb_neq in HS. apply lookup_insert_other.
        intros HQ. inversion HQ. subst. contradiction HS. reflexivity.
Qed.

Lemma slot_lookup_fold_set_typed (vs : list (option value)) (b : builder) (s : slot) :
  slot_lookup (fold_left set_typed vs b) s = fold_left (wstep s) (flat_map w_typed vs) (slot_lookup b s).
Proof.
  revert b. induction vs as [|v vs IH]; intros b; [reflexivity|].
  cbn [fold_left flat_map]. rewrite fold_left_app. rewrite IH, slot_lookup_set_typed. reflexivity.
Qed.

Lemma slot_lookup_add_convs_raw (fs : list (option fdecl)) (b : builder) (s : slot) :
  slot_lookup (add_convs_raw b fs) s = slot_lookup b s.
Proof.
  revert b. induction fs as [|[f|] fs IH]; intros b; cbn [add_convs_raw].
  - reflexivity.
  - rewrite IH. destruct s; reflexivity.
  - destruct s; reflexivity.
Qed.

Lemma slot_lookup_apply_arg (b : builder) (a : arg) (s : slot) :
  slot_lookup (apply_arg b a) s = astep s (slot_lookup b s) a.
Proof.
  unfold astep.
  destruct a as [n v|n v st|vs|v st|fs|fs|gs|f|f| |]; cbn [apply_arg].
  - apply slot_lookup_set_named.
  - apply slot_lookup_set_namedsub.
  - apply slot_lookup_fold_set_typed.
  - apply slot_lookup_set_typedsub.
  - apply slot_lookup_add_convs_raw.
  - destruct s; reflexivity.
  - destruct s; reflexivity.
  - destruct s; reflexivity.
  - destruct s; reflexivity.
  - reflexivity.
  - reflexivity.
Qed.

Lemma build_from_slot_lookup (opts : list arg) (b b' : builder) (s : slot) :
  build_from b opts = Some b' ->
  slot_lookup b' s = fold_left (astep s) opts (slot_lookup b s).
Proof.
  revert b. induction opts as [|a opts IH]; intros b HB; cbn [build_from] in HB.
  - destruct (b_err b); [discriminate HB|]. inversion HB. reflexivity.
  - destruct (is_nil_arg a); [discriminate HB|].
    cbn [fold_left]. rewrite <- slot_lookup_apply_arg. apply IH. exact HB.
Qed.

(* ---------- nil options ---------- *)
Lemma build_from_nil (opts : list arg) (b : builder) :
  existsb is_nil_arg opts = true -> build_from b opts = None.
Proof.
  revert b. induction opts as [|a opts IH]; intros b HE; cbn [existsb] in HE.
  - discriminate HE.
  - cbn [build_from]. destruct (is_nil_arg a); [reflexivity|].
    apply IH. exact HE.
Qed.

(* ---------- converters ---------- *)
Definition some_list (fs : list (option fdecl)) : list fdecl :=
  flat_map (fun o => match o with Some f => [f] | None => [] end) fs.
Definition convs_of (a : arg) : list fdecl :=
  match a with AConv fs | AConvFunc fs => some_list fs | _ => [] end.

Lemma add_convs_raw_err (fs : list (option fdecl)) (b : builder) :
  b_err b = true -> b_err (add_convs_raw b fs) = true.
Proof.
  revert b. induction fs as [|[f|] fs IH]; intros b HB; cbn [add_convs_raw].
  - exact HB.
  - apply IH. exact HB.
  - reflexivity.
Qed.

Lemma add_convs_raw_convs (fs : list (option fdecl)) (b : builder) :
  b_err (add_convs_raw b fs) = false ->
  b_convs (add_convs_raw b fs) = b_convs b ++ some_list fs.
Proof.
  revert b. induction fs as [|[f|] fs IH]; intros b HB; cbn [add_convs_raw] in *.
  - unfold some_list. cbn [flat_map]. rewrite app_nil_r. reflexivity.
  - rewrite (IH _ HB). cbn [b_convs]. unfold some_list. cbn [flat_map].
    rewrite <- app_assoc. reflexivity.
  - discriminate HB.
Qed.

Lemma fold_set_typed_err (vs : list (option value)) (b : builder) :
  b_err (fold_left set_typed vs b) = b_err b /\ b_convs (fold_left set_typed vs b) = b_convs b.
Proof.
  revert b. induction vs as [|[x|] vs IH]; intros b; cbn [fold_left].
  - split; reflexivity.
  - destruct (IH (set_typed b (Some x))) as [H1 H2]. rewrite H1, H2. split; reflexivity.
  - apply IH.
Qed.

Lemma set_typed_err (b : builder) v :
  b_err (set_typed b v) = b_err b /\ b_convs (set_typed b v) = b_convs b.
Proof. destruct v; split; reflexivity. Qed.
Lemma set_typedsub_err (b : builder) v st :
  b_err (set_typedsub b v st) = b_err b /\ b_convs (set_typedsub b v st) = b_convs b.
Proof.
  unfold set_typedsub. destruct (String.eqb st EmptyString); [apply set_typed_err|].
  destruct v; split; reflexivity.
Qed.
Lemma set_named_err (b : builder) n v :
  b_err (set_named b n v) = b_err b /\ b_convs (set_named b n v) = b_convs b.
Proof.
  unfold set_named. destruct (String.eqb n EmptyString); [apply set_typed_err|].
  destruct v; split; reflexivity.
Qed.
Lemma set_namedsub_err (b : builder) n v st :
  b_err (set_namedsub b n v st) = b_err b /\ b_convs (set_namedsub b n v st) = b_convs b.
Proof.
  unfold set_namedsub. destruct (String.eqb n EmptyString); [apply set_typedsub_err|].
  destruct (String.eqb st EmptyString); [apply set_named_err|].
  destruct v; split; reflexivity.
Qed.

Lemma apply_arg_err_mono (b : builder) (a : arg) :
  b_err b = true -> b_err (apply_arg b a) = true.
Proof.
  intros HB.
  destruct a as [n v|n v st|vs|v st|fs|fs|gs|f|f| |]; cbn [apply_arg]; try exact HB.
  - rewrite (proj1 (set_named_err b n v)). exact HB.
  - rewrite (proj1 (set_namedsub_err b n v st)). exact HB.
  - rewrite (proj1 (fold_set_typed_err vs b)). exact HB.
  - rewrite (proj1 (set_typedsub_err b v st)). exact HB.
  - apply add_convs_raw_err. exact HB.
Qed.

Lemma apply_arg_convs (b : builder) (a : arg) :
  b_err (apply_arg b a) = false ->
  b_convs (apply_arg b a) = b_convs b ++ convs_of a.
Proof.
  intros HB.
  destruct a as [n v|n v st|vs|v st|fs|fs|gs|f|f| |]; cbn [apply_arg convs_of] in *;
    rewrite ?app_nil_r; try reflexivity.
  - apply (proj2 (set_named_err b n v)).
  - apply (proj2 (set_namedsub_err b n v st)).
  - apply (proj2 (fold_set_typed_err vs b)).
  - apply (proj2 (set_typedsub_err b v st)).
  - apply add_convs_raw_convs. exact HB.
Qed.

Lemma build_from_err (opts : list arg) (b b' : builder) :
  build_from b opts = Some b' -> b_err b = false.
Proof.
  revert b. induction opts as [|a opts IH]; intros b HB; cbn [build_from] in HB.
  - destruct (b_err b); [discriminate HB|reflexivity].
  - destruct (is_nil_arg a); [discriminate HB|].
    apply IH in HB. destruct (b_err b) eqn:HE; [|reflexivity].
    rewrite (apply_arg_err_mono b a HE) in HB. discriminate HB.
Qed.

Lemma build_from_convs (opts : list arg) (b b' : builder) :
  build_from b opts = Some b' ->
  b_convs b' = b_convs b ++ flat_map convs_of opts.
Proof.
  revert b. induction opts as [|a opts IH]; intros b HB; cbn [build_from] in HB.
  - destruct (b_err b); [discriminate HB|]. inversion HB. cbn [flat_map]. rewrite app_nil_r. reflexivity.
  - destruct (is_nil_arg a); [discriminate HB|].
    pose proof (build_from_err _ _ HB) as HE.
    rewrite (IH _ HB). rewrite (apply_arg_convs b a HE).
    cbn [flat_map]. rewrite <- app_assoc. reflexivity.
Qed.

(* ---------- permutation invariance ---------- *)
Lemma fold_astep_flat (s : slot) (opts : list arg) (acc : option value) :
  fold_left (astep s) opts acc = fold_left (wstep s) (flat_map writes opts) acc.
Proof.
  revert acc. induction opts as [|a opts IH]; intros acc; [reflexivity|].
  cbn [fold_left flat_map]. rewrite fold_left_app. rewrite IH. reflexivity.
Qed.

Lemma fold_wstep_char (s : slot) (l : list (slot * value)) (acc : option value) (v : value) :
  NoDup (map fst l) ->
  (fold_left (wstep s) l acc = Some v <->
   In (s, v) l \/ (~ In s (map fst l) /\ acc = Some v)).
Proof.
  revert acc. induction l as [|[s' v'] l IH]; intros acc HN.
  - cbn [fold_left map In]. split.
    + intros HA. right. split; [intros HF; exact HF|exact HA].
    + intros [HF|[_ HA]]; [contradiction HF|exact HA].
  - cbn [map fst] in HN. inversion HN as [|x xs HNI HN']. subst.
    cbn [fold_left]. rewrite (IH _ HN'). unfold wstep. cbn [fst snd map In].
    destruct (slot_eqb s' s) eqn:HS.
    + apply slot_eqb_eq in HS. subst s'. split.
      * intros [HI|[_ HV]].
        -- left. right. exact HI.
        -- inversion HV. left. left. reflexivity.
      * intros [[HQ|HI]|[HF _]].
        -- inversion HQ. right. split; [exact HNI|reflexivity].
        -- left. exact HI.
        -- contradiction HF. left. reflexivity.
    + apply slot_eqb_neq in HS. split.
      * intros [HI|[HF HA]].
        -- left. right. exact HI.
        -- right. split; [|exact HA]. intros [HQ|HI]; [contradiction|contradiction].
      * intros [[HQ|HI]|[HF HA]].
        -- inversion HQ. contradiction.
        -- left. exact HI.
        -- right. split; [|exact HA]. intros HI. apply HF. right. exact HI.
Qed.

Lemma perm_flat_map_writes (opts opts' : list arg) :
  Permutation opts opts' -> Permutation (flat_map writes opts) (flat_map writes opts').
Proof.
  intros HP. induction HP as [|a l l' HP IH|a a' l|l l' l'' HP1 IH1 HP2 IH2].
  - apply perm_nil.
  - cbn [flat_map]. apply Permutation_app_head. exact IH.
  - cbn [flat_map]. rewrite !app_assoc. apply Permutation_app_tail. apply Permutation_app_comm.
  - eapply perm_trans; eassumption.
Qed.

Lemma last_write_perm (opts opts' : list arg) (s : slot) :
  Permutation opts opts' ->
  NoDup (map fst (flat_map writes opts)) ->
  last_write s opts = last_write s opts'.
Proof.
  intros HP HN.
  rewrite !last_write_eq, !fold_astep_flat.
  pose proof (perm_flat_map_writes HP) as HPW.
  assert (HN' : NoDup (map fst (flat_map writes opts'))).
  { eapply Permutation_NoDup; [|exact HN]. apply Permutation_map. exact HPW. }
  assert (HC : forall v, fold_left (wstep s) (flat_map writes opts) None = Some v <->
                         fold_left (wstep s) (flat_map writes opts') None = Some v).
  { intros v. rewrite (fold_wstep_char s _ None v HN), (fold_wstep_char s _ None v HN').
    split; intros [HI|[_ HA]]; try discriminate HA; left.
    - eapply Permutation_in; [exact HPW|exact HI].
    - eapply Permutation_in; [apply Permutation_sym; exact HPW|exact HI]. }
  destruct (fold_left (wstep s) (flat_map writes opts) None) as [v|] eqn:H1.
  - symmetry. apply (proj1 (HC v)). reflexivity.
  - destruct (fold_left (wstep s) (flat_map writes opts') None) as [v'|] eqn:H2; [|reflexivity].
    apply (proj2 (HC v')). reflexivity.
Qed.

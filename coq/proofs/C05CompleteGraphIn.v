(* C05CompleteGraphIn.v -- every edge INTO a function vertex of the call graph
   was added by [func_graph g c true] for a converter c of the call (the
   target is added without its output edges). *)
From ArgMapper Require Import Base Graph GraphAlg GraphSpec GraphStatements Types Args
     ResolverSpec ResolverStatements Resolver GenWeights.
From ArgMapper.proofs Require Import C18DijkstraLemmas C19RefineMap C19RefineGraph
     C05CompleteDefs C05CompleteGraphBase C05CompleteGraphInv C05CompleteGraph.
From Coq Require Import Lia ZArith List.
Import ListNotations.
Set Implicit Arguments.
Local Open Scope Z_scope.

Definition in_edge_conv_spec : Prop :=
  forall u f b d opts t fg tr,
    build_args d opts = Some b -> wf_call u f b = true ->
    full_graph u f b false t = Ok (inl fg, tr) ->
    forall a ft w, edge (fg_g fg) a (KFunc ft) w ->
      exists c fld, In c (fg_convs fg) /\ fn_type c = ft /\ In fld (fn_out c) /\ a = field_out_key fld.

(* ---------- a generic edge invariant ---------- *)
Section EdgeSat.
  Variable P : vkey -> vkey -> Z -> Prop.

  Definition ES (g : rg) : Prop := wf_graph g /\ forall a b w, edge g a b w -> P a b w.

  Lemma ES_add g k v : ES g -> ES (g_add g k v).
  Proof.
    intros [W I]. destruct (g_add_facts k v W) as (W' & _ & Fe & _). split; [exact W'|].
    intros a b w. rewrite edge_fe, Fe. apply I.
  Qed.

  Lemma ES_add_v g k : ES g -> ES (add_v g k).
  Proof. apply ES_add. Qed.

  Lemma ES_over g k v : ES g -> ES (g_add_overwrite g k v).
  Proof.
    intros [W I]. destruct (g_over_facts k v W) as (W' & _ & Fe & _). split; [exact W'|].
    intros a b w. rewrite edge_fe, Fe. apply I.
  Qed.

  Lemma ES_add_e g a b w : ES g -> P a b w -> ES (add_e g a b w).
  Proof.
    intros [W I] Ok. split; [apply add_e_wf; exact W|].
    intros x y w' Ed. destruct (add_e_edge_inv _ _ _ W Ed) as [A|(-> & -> & ->)]; auto.
  Qed.

  Lemma ES_fold {A} (step : rg -> A -> rg) (l : list A) :
    (forall g x, In x l -> ES g -> ES (step g x)) ->
    forall g, ES g -> ES (fold_left step l g).
  Proof.
    induction l as [|x l IH]; intros St g G; simpl; [exact G|].
    apply IH.
    - intros g' y Iy. apply St. right; exact Iy.
    - apply St; [left; reflexivity|exact G].
  Qed.
End EdgeSat.

(* ---------- the invariant on edges into function vertices ---------- *)
Definition PC (C : list fdecl) (a b : vkey) (w : Z) : Prop :=
  forall ft, b = KFunc ft ->
    exists c fld, In c C /\ fn_type c = ft /\ In fld (fn_out c) /\ a = field_out_key fld.

Lemma PC_nf C a b w : is_fn b = false -> PC C a b w.
Proof. intros Nf ft ->. discriminate Nf. Qed.

Section Conv.
  Variable C : list fdecl.
  Notation ESC := (ES (PC C)).

  Lemma ESC_func_graph g c inc : (inc = true -> In c C) -> ESC g -> ESC (func_graph g c inc).
  Proof.
    intros Hc G. rewrite func_graph_eq.
    assert (GA : ESC (fgA g c)) by (apply ES_add; exact G).
    assert (GB : ESC (fgB (fgA g c) c)).
    { unfold fgB. destruct (fn_in c); [|exact GA]. apply ES_add_e; [exact GA|apply PC_nf; reflexivity]. }
    assert (GC : ESC (fgC (fgB (fgA g c) c) c)).
    { unfold fgC. apply ES_fold; [|exact GB]. intros g' fld _ G'. unfold fgC_step.
      apply ES_add_e; [apply ES_add_v; exact G'|apply PC_nf, field_key_nf]. }
    unfold fgD. destruct inc; [|exact GC].
    specialize (Hc eq_refl).
    apply ES_fold.
    { intros g' fld If G'. cbv zeta. apply ES_add_e; [apply ES_add_v; exact G'|].
      intros ft Q. inversion Q; subst ft. exists c, fld.
      split; [exact Hc|]. split; [reflexivity|]. split; [apply typed_entries_in; exact If|reflexivity]. }
    apply ES_fold; [|exact GC].
    intros g' fld If G'. cbv zeta. apply ES_add_e; [apply ES_add_v; exact G'|].
    intros ft Q. inversion Q; subst ft. exists c, fld.
    split; [exact Hc|]. split; [reflexivity|]. split; [apply named_entries_in; exact If|reflexivity].
  Qed.

  Lemma ESC_step_values g : ESC g -> ESC (step_values g).
  Proof.
    intros I. unfold step_values. apply ES_fold; [|exact I].
    intros g' k _ G'. destruct k as [|ft|n t s|t s|t s]; try exact G'.
    assert (G1 : ESC (add_e (add_v g' (KOut t "")) (KVal n t s) (KOut t "") w_typed)).
    { apply ES_add_e; [apply ES_add_v; exact G'|apply PC_nf; reflexivity]. }
    assert (G2 : ESC (add_e (add_v (add_e (add_v g' (KOut t "")) (KVal n t s) (KOut t "") w_typed) (KArg t ""))
                            (KArg t "") (KVal n t s) w_typed)).
    { apply ES_add_e; [apply ES_add_v; exact G1|apply PC_nf; reflexivity]. }
    cbv zeta. destruct (String.eqb s ""); [exact G2|].
    apply ES_add_e; [apply ES_add_v; exact G2|apply PC_nf; reflexivity].
  Qed.

  Lemma ESC_step_args g : ESC g -> ESC (step_args g).
  Proof.
    intros I. unfold step_args. apply ES_fold; [|exact I].
    intros g' k _ G'. destruct k as [|ft|n t s|t s|t s]; try exact G'.
    apply ES_add_e; [apply ES_add_v; exact G'|apply PC_nf; reflexivity].
  Qed.

  Lemma ESC_step_ifaces u g : ESC g -> ESC (step_ifaces u g).
  Proof.
    intros I. unfold step_ifaces. apply ES_fold; [|exact I].
    intros g' k _ G'. destruct k as [|ft|n t s|t s|t s]; try exact G'.
    destruct (is_iface u t); [|exact G'].
    apply ES_fold; [|exact G'].
    intros g'' k2 _ G''. destruct k2 as [|ft2|n2 t2 s2|t2 s2|t2 s2]; try exact G''.
    match goal with |- ESC (if ?c then _ else _) => destruct c end; [|exact G''].
    apply ES_add_e; [exact G''|apply PC_nf; reflexivity].
  Qed.

  Lemma ESC_step_named_sub valued g : ESC g -> ESC (step_named_sub valued g).
  Proof.
    intros I. unfold step_named_sub. apply ES_fold; [|exact I].
    intros g' k _ G'. destruct k as [|ft|n t s|t s|t s]; try exact G'.
    match goal with |- ESC (if ?c then _ else _) => destruct c end; [|exact G'].
    apply ES_fold; [|exact G'].
    intros g'' k2 _ G''. destruct k2 as [|ft2|n2 t2 s2|t2 s2|t2 s2]; try exact G''.
    match goal with |- ESC (if ?c then _ else _) => destruct c end; [|exact G''].
    apply ES_add_e; [exact G''|apply PC_nf; reflexivity].
  Qed.

  Lemma ESC_step_arg_sub g : ESC g -> ESC (step_arg_sub g).
  Proof.
    intros I. unfold step_arg_sub. apply ES_fold; [|exact I].
    intros g' k _ G'. destruct k as [|ft|n t s|t s|t s]; try exact G'.
    apply ES_fold; [|exact G'].
    intros g'' k2 _ G''. destruct k2 as [|ft2|n2 t2 s2|t2 s2|t2 s2]; try exact G''.
    match goal with |- ESC (if ?c then _ else _) => destruct c end; [|exact G''].
    apply ES_add_e; [exact G''|apply PC_nf; reflexivity].
  Qed.

  Lemma ESC_stage0 : ESC stage0.
  Proof.
    unfold stage0.
    destruct (g_add_facts KRoot PNone (wf_empty (K := vkey) (V := vpay))) as (W & _ & Fe & _).
    split; [exact W|]. intros a c w Ed. rewrite edge_fe, Fe in Ed. discriminate Ed.
  Qed.

  Lemma ESC_stage3 f b : incl (b_convs b) C -> ESC (stage3 f b).
  Proof.
    intros Hc. unfold stage3. apply ES_fold.
    { intros g c Ic G. apply ESC_func_graph; [intros _; apply Hc; exact Ic|exact G]. }
    unfold stage2. apply ES_fold.
    { intros g kv _ G. apply ES_add_e; [apply ES_over; exact G|apply PC_nf; reflexivity]. }
    unfold stage1. apply ESC_func_graph; [discriminate|apply ESC_stage0].
  Qed.

  Lemma ESC_steps u b g : ESC g -> ESC (steps u b g).
  Proof.
    intros I. unfold steps.
    apply ESC_step_arg_sub, ESC_step_named_sub, ESC_step_ifaces, ESC_step_args, ESC_step_values. exact I.
  Qed.
End Conv.

(* ---------- generators ---------- *)
Section Gens2.
  Variable g0 : rg.
  Variable gens : list gen.

  Definition gen_in (acc : gacc) : Prop :=
    let '(g, convs, _, _) := acc in forall C, incl convs C -> ES (PC C) g0 -> ES (PC C) g.

  Lemma gen_inner_in k gn acc : gen_in acc -> gen_in (gen_inner k acc gn).
  Proof.
    intros Ok. destruct acc as [[[g c] tr] e]. unfold gen_inner.
    destruct e; [exact Ok|]. cbv zeta.
    destruct (lookup k (gen_table gn)) as [[| e | f]|] eqn:L; try exact Ok.
    intros C Hincl I0.
    apply ESC_func_graph.
    - intros _. apply Hincl, in_or_app. right; left; reflexivity.
    - apply Ok; [|exact I0]. intros x Ix. apply Hincl, in_or_app. left; exact Ix.
  Qed.

  Lemma gen_inner_fold_in k gl : forall acc, gen_in acc -> gen_in (fold_left (gen_inner k) gl acc).
  Proof.
    induction gl as [|gn gl IH]; intros acc Ok; cbn [fold_left]; [exact Ok|].
    apply IH. apply gen_inner_in; exact Ok.
  Qed.

  Lemma gen_outer_in k acc : gen_in acc -> gen_in (gen_outer gens acc k).
  Proof.
    intros Ok. destruct acc as [[[g c] tr] e]. unfold gen_outer.
    destruct e; [exact Ok|]. destruct (value_of_vertex k); [|exact Ok].
    apply gen_inner_fold_in; exact Ok.
  Qed.

  Lemma gen_outer_fold_in ks : forall acc, gen_in acc -> gen_in (fold_left (gen_outer gens) ks acc).
  Proof.
    induction ks as [|k ks IH]; intros acc Ok; cbn [fold_left]; [exact Ok|].
    apply IH. apply gen_outer_in; exact Ok.
  Qed.

  Lemma run_gens_in ks convs0 tr : gen_in (run_gens g0 gens ks convs0 tr).
  Proof.
    rewrite run_gens_eq. apply gen_outer_fold_in. unfold gen_in. intros C _ I0. exact I0.
  Qed.
End Gens2.

Theorem in_edge_conv_proof : in_edge_conv_spec.
Proof.
  intros u f b d opts t fg tr _ _ Hfull a ft w Ed.
  destruct (full_graph_inv _ _ _ _ Hfull) as (ks & t' & g4 & c4 & RG & ->).
  cbn [fg_g fg_convs] in *.
  pose proof (run_gens_ok u (vals_of b) (b_gens b) (stage3 f b) (b_convs b) ks []) as Ok.
  rewrite RG in Ok. destruct Ok as [(new & Ec & _) _].
  assert (Hconvs : incl (b_convs b) c4).
  { intros x Ix. rewrite Ec. apply in_or_app. left; exact Ix. }
  pose proof (run_gens_in (stage3 f b) (b_gens b) ks (b_convs b) []) as In4.
  rewrite RG in In4. unfold gen_in in In4.
  pose proof (In4 c4 (fun x Ix => Ix) (ESC_stage3 f b Hconvs)) as G4.
  pose proof (ESC_steps u b G4) as [_ G5].
  exact (G5 _ _ _ Ed ft eq_refl).
Qed.

Print Assumptions in_edge_conv_proof.

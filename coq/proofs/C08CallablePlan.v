(* C08CallablePlan.v -- [plan] in redefining mode: the path starts at the
   root, never returns to it, ends at the requirement, follows edges of the
   call graph; the vertex after the root is recorded as an input and is the
   only vertex that may receive a (zero) value.  Helper of C08Callable.v. *)
From ArgMapper Require Import Base Graph GraphAlg GraphSpec Types Args Resolver ResolverSpec GenWeights.
From ArgMapper.proofs Require Import C18DijkstraLemmas C18Dijkstra C19RefineMap C19RefineGraph
     C0213UnsatGraph C0213UnsatBuild C0213UnsatDijkstra C0213UnsatPlan C0213UnsatReach
     C04ErrorsLemmas C08RedefineReach C08CallableReach.
From Coq Require Import List Lia ZArith.
Import ListNotations.
Set Implicit Arguments.
Local Open Scope Z_scope.

Section Chain.
  Context {K : Type} {E : EqDec K}.
  Lemma chain_tail_prev (p : amap K K) (v : K) (l : list K) :
    chain p v l -> exists h rest, l = h :: rest /\ lookup h p = None /\
                                  forall x, In x rest -> lookup x p <> None.
  Proof.
    induction 1 as [v Q|v q l Q C IH].
    - exists v, []. split; [reflexivity|]. split; [exact Q|]. intros x [].
    - destruct IH as (h & rest & -> & Hh & Hr). exists h, (rest ++ [v]).
      split; [reflexivity|]. split; [exact Hh|].
      intros x Ix. apply in_app_or in Ix. destruct Ix as [Ix|[<-|[]]]; [apply Hr; exact Ix|].
      rewrite Q. discriminate.
  Qed.
End Chain.

Section Plan.
  Variable g : rgraph.
  Hypothesis W : wf_graph g.
  Hypothesis Wt : forall a b w, ew g a b = Some w -> 0 <= w <= 20.
  Hypothesis Root : vtx g KRoot <> None.
  Hypothesis Small : 20 * Z.of_nat (length (g_vertex_keys g)) < INF.

  (* plan_ok of C0213UnsatPlan, with the additional fact that the root occurs only at the head *)
  Lemma plan_ok_noroot (cur : vkey) (s : rstate) path bad s' :
    rreach g cur ->
    plan g false cur s = Ok (path, bad, s') ->
    exists rest, path = KRoot :: rest /\ ~ In KRoot rest /\ last path KRoot = cur /\ linkedR g path.
  Proof.
    intros RR P. unfold plan in P.
    destruct (discount_DI cur W Wt) as (Wc & Hh & He & Hw).
    set (cg := discount g cur) in *.
    destruct (reverse_spec Wc) as (WH & HvH & HeH).
    set (H := g_reverse cg) in *.
    destruct (dijkstra_t H KRoot (s_tape s)) as [[[d p] t']| | |] eqn:DT; cbn [bind] in P; try discriminate.
    destruct (edge_to_path cg p cur) as [pth| | |] eqn:EP; cbn [bind] in P; try discriminate.
    inversion P; subst path bad s'; clear P.
    unfold dijkstra_t in DT.
    destruct (take_pops (length (g_vertex_keys H)) (s_tape s)) as [[pops t1]| | |]; cbn [bind] in DT; try discriminate.
    destruct (dijkstra H KRoot pops) as [[d1 p1]| | |] eqn:DJ; cbn [bind] in DT; try discriminate.
    inversion DT; subst d1 p1 t1; clear DT.
    assert (VK : g_vertex_keys H = g_vertex_keys g).
    { unfold g_vertex_keys, H. simpl. fold (ghash cg). rewrite Hh. reflexivity. }
    assert (VR : vtx H KRoot <> None).
    { rewrite HvH. unfold vtx. rewrite Hh. exact Root. }
    assert (WtH : forall a b w, ew H a b = Some w -> -20 <= w <= 20).
    { intros a b w. rewrite HeH. apply Hw. }
    assert (SmH : 20 * Z.of_nat (length (g_vertex_keys H)) < INF) by (rewrite VK; exact Small).
    destruct (dij_complete KRoot WH WtH SmH pops VR DJ) as (P1 & P2 & P3).
    unfold edge_to_path in EP. apply etp_chain_inv in EP. destruct EP as (l & C & ->).
    rewrite app_nil_r.
    assert (FRall : forall y, rreach g y -> freach H KRoot y).
    { intros y Ry. induction Ry as [|a x Ry IH Ex]; [constructor|].
      apply fr_step with (u := a); [exact IH|]. rewrite HeH. apply He. exact Ex. }
    pose proof (FRall cur RR) as FR.
    destruct (chain_path H P1 P2 C (P3 _ FR)) as (rest & -> & La & Li).
    destruct (chain_tail_prev C) as (h & rest' & Eq & _ & Hr). inversion Eq; subst h rest'.
    exists rest. split; [reflexivity|]. split.
    - intros I. apply (Hr _ I). exact P1.
    - split; [exact La|].
      clear - Li HeH He. revert Li. generalize (KRoot :: rest). intros l.
      induction l as [|a l IH]; [auto|]. destruct l as [|b l]; [auto|].
      intros [Eab Li]. split; [|apply IH; exact Li].
      apply He. rewrite <- HeH. exact Eab.
  Qed.

  Hypothesis RR : forall k, vtx g k <> None -> rreach g k.

  Lemma plan_rd_ok : forall cur s path bad s',
      vtx g cur <> None -> cur <> KRoot ->
      plan g true cur s = Ok (path, bad, s') ->
      path_good g (s_inputs s') path cur /\ incl (s_inputs s) (s_inputs s') /\ s_world s' = s_world s /\
      (forall k, mem k (s_vals s') = true ->
                 mem k (s_vals s) = true \/ (is_func k = false /\ In k (s_inputs s'))).
  Proof.
    intros cur s path bad s' Vc Nc P.
    destruct (plan_shape _ _ _ _ P) as [(s0 & P0) _].
    destruct (@plan_ok_noroot cur s path bad s0 (@RR cur Vc) P0) as (rest & -> & NR & La & Li).
    destruct rest as [|x rest].
    { simpl in La. contradiction Nc. symmetry. exact La. }
    unfold plan in P.
    apply bind_ok in P. destruct P as [[[d p] t'] [_ P]].
    apply bind_ok in P. destruct P as [pth [_ P]].
    inversion P as [[Ep Eb Es]]; clear P. subst pth.
    set (s1 := add_input (set_tape s t') x).
    assert (Ix : In x (s_inputs s1)).
    { unfold s1, add_input, set_tape. cbn [s_inputs].
      destruct (memb x (s_inputs s)) eqn:M; [apply membT; exact M|apply in_or_app; right; left; reflexivity]. }
    assert (Inc : incl (s_inputs s) (s_inputs s1)).
    { unfold s1, add_input, set_tape. cbn [s_inputs].
      destruct (memb x (s_inputs s)); [apply incl_refl|intros k Ik; apply in_or_app; left; exact Ik]. }
    assert (Ex : ew g x KRoot <> None) by (destruct Li as [Ex _]; exact Ex).
    assert (Fin : forall s2, s_inputs s2 = s_inputs s1 -> s_world s2 = s_world s ->
                  (forall k, mem k (s_vals s2) = true -> k = x \/ mem k (s_vals s) = true) ->
                  (is_func x = false \/ s_vals s2 = s_vals s) ->
                  path_good g (s_inputs s2) (KRoot :: x :: rest) cur /\ incl (s_inputs s) (s_inputs s2) /\
                  s_world s2 = s_world s /\
                  (forall k, mem k (s_vals s2) = true ->
                             mem k (s_vals s) = true \/ (is_func k = false /\ In k (s_inputs s2)))).
    { intros s2 E1 E2 E3 E4. rewrite E1. split.
      - exists x, rest. split; [reflexivity|]. split; [exact NR|]. split; [exact La|]. split; [exact Li|].
        intros _. exact Ix.
      - split; [exact Inc|]. split; [exact E2|].
        intros k M. destruct E4 as [Nf|Ev].
        + destruct (E3 k M) as [->|M0]; [right; split; [exact Nf|exact Ix]|left; exact M0].
        + left. rewrite <- Ev. exact M. }
    destruct x as [|ft|n t st|t st|t st].
    - apply Fin; [reflexivity|reflexivity|intros k M; right; exact M|right; reflexivity].
    - apply Fin; [reflexivity|reflexivity|intros k M; right; exact M|right; reflexivity].
    - match goal with |- context [if ?c then _ else _] => destruct c end.
      + apply Fin; [reflexivity|reflexivity|intros k M; right; exact M|left; reflexivity].
      + apply Fin; [reflexivity|reflexivity| |left; reflexivity].
        intros k M. apply mem_set_val in M. exact M.
    - apply Fin; [reflexivity|reflexivity| |left; reflexivity].
      intros k M. apply mem_set_val in M. exact M.
    - apply Fin; [reflexivity|reflexivity|intros k M; right; exact M|right; reflexivity].
  Qed.
End Plan.

(* C05CompleteModes.v -- reach on a pruned call graph succeeds
   (b) when no function lies on a dependency cycle and all requirement
       edges below the target are present: induction on the fuel;
   (a) when every converter has at most one input: no nested planning. *)
From ArgMapper Require Import Base Graph GraphAlg GraphSpec Types Args Resolver ResolverSpec
     CheckResolver Monitors ResolverStatements.
From ArgMapper.proofs Require Import C18DijkstraLemmas C19RefineMap C19RefineGraph C20aDfs
     C05CompleteDefs C05CompleteReachEq C05CompleteState C05CompletePlan C05CompleteReq
     C05CompleteWalk C05CompleteBody.
From Coq Require Import Lia ZArith List String.
Import ListNotations.
Set Implicit Arguments.
Local Open Scope Z_scope.

Section Modes.
  Variable u : universe.
  Variable bh : behaviour.
  Variable g : rgraph.
  Variable F : list fdecl.
  Variable vals0 : amap vkey value.

  Hypothesis WF : wf_graph g.
  Hypothesis ROOT : vertex g KRoot.
  Hypothesis EI : forall a b w, edge g a b w -> edge_inv u F vals0 a b w.
  Hypothesis VI : forall k pay, g_vertex g k = Some pay -> vert_inv F k pay.
  Hypothesis UT : univ_trans u = true.
  Hypothesis SAMESIG : forall f1 f2, In f1 F -> In f2 F -> fn_type f1 = fn_type f2 ->
      sig_of (fn_in f1) = sig_of (fn_in f2) /\ sig_of (fn_out f1) = sig_of (fn_out f2).
  Hypothesis SAMEID : forall f1 f2, In f1 F -> In f2 F -> fn_id f1 = fn_id f2 -> fn_type f1 = fn_type f2.
  Hypothesis WFFN : forall f, In f F -> wf_fn f = true.
  Hypothesis SMALL : 20 * (Z.of_nat (List.length (g_vertex_keys g)) + 1) < INF.
  Hypothesis RR : forall k, vertex g k -> GraphSpec.reach g k KRoot.

  Notation Inv := (Inv u bh F vals0).
  Notation good := (good_rec u bh g F vals0).

  (* ---------- walks along planned paths ---------- *)
  Lemma reach_refl_v a : vertex g a -> GraphSpec.reach g a a.
  Proof. intros V. exists [a], 0. constructor. exact V. Qed.

  Lemma reach_step a b c w : edge g a b w -> GraphSpec.reach g b c -> GraphSpec.reach g a c.
  Proof. intros E (p & w' & W). exists (a :: p), (w + w'). econstructor; eauto. Qed.

  Lemma reach_trans a b c : GraphSpec.reach g a b -> GraphSpec.reach g b c -> GraphSpec.reach g a c.
  Proof.
    intros (p & w & W) R. induction W as [a Va|a b c' p w1 w2 E W IH]; [exact R|].
    eapply reach_step; eauto.
  Qed.

  Lemma reach1_of a b c w : edge g a b w -> GraphSpec.reach g b c -> reach1 g a c.
  Proof. intros E (p & w' & W). exists b, w, p, w'. split; assumption. Qed.

  Lemma reach1_reach a c : reach1 g a c -> GraphSpec.reach g a c.
  Proof. intros (b & w & p & w' & E & W). eapply reach_step; eauto. exists p, w'. exact W. Qed.

  Lemma reach_reach1 a b c : GraphSpec.reach g a b -> reach1 g b c -> reach1 g a c.
  Proof.
    intros (p & w & W) R. induction W as [a Va|a b c' p w1 w2 E W IH]; [exact R|].
    eapply reach1_of; [exact E|]. apply reach1_reach. apply IH. exact R.
  Qed.

  Lemma reach1_reach_r a b c : reach1 g a b -> GraphSpec.reach g b c -> reach1 g a c.
  Proof.
    intros (x & w & p & w' & E & W) R. eapply reach1_of; [exact E|].
    eapply reach_trans; [exists p, w'; exact W|exact R].
  Qed.

  (* every vertex of a list linked by edges (later -> earlier) is reached from its last element *)
  Lemma chain_reach : forall l,
    (forall x, In x l -> vertex g x) ->
    (forall l1 a b l2, l = l1 ++ a :: b :: l2 -> exists w, edge g b a w) ->
    forall x, In x l -> GraphSpec.reach g (last l KRoot) x.
  Proof.
    induction l as [|c l IH] using rev_ind; intros VS ED x Ix; [destruct Ix|].
    rewrite last_last.
    apply in_app_or in Ix. destruct Ix as [Ix|[<-|[]]].
    2:{ apply reach_refl_v. apply VS. apply in_or_app; right; left; reflexivity. }
    destruct l as [|b l'] using rev_ind; [destruct Ix|]. clear IHl'.
    destruct (ED l' b c []) as [w E]. { rewrite <- app_assoc. reflexivity. }
    eapply reach_step; [exact E|].
    assert (R : GraphSpec.reach g (last (l' ++ [b]) KRoot) x).
    { apply IH; [| |exact Ix].
      - intros y Iy. apply VS. apply in_or_app; left; exact Iy.
      - intros l1 a0 b0 l2 Eq. apply (ED l1 a0 b0 (l2 ++ [c])). rewrite Eq. rewrite <- app_assoc. reflexivity. }
    rewrite last_last in R. exact R.
  Qed.

  Lemma path_vertices cur path : path_ok g cur path -> forall x, In x path -> vertex g x.
  Proof.
    intros PO x Ix. destruct (in_split _ _ Ix) as (l1 & l2 & E).
    destruct l2 as [|b l2].
    - destruct l1 as [|a l1] using rev_ind.
      + destruct (po_head PO) as [rest Er]. rewrite E in Er. inversion Er; subst. exact ROOT.
      + clear IHl1. destruct (po_edges PO l1 a x []) as [w Q]. { rewrite E, <- app_assoc. reflexivity. }
        exact (proj1 (wf_closed WF _ _ Q)).
    - destruct (po_edges PO l1 x b l2 E) as [w Q]. exact (proj2 (wf_closed WF _ _ Q)).
  Qed.

  Lemma path_reach cur path x : path_ok g cur path -> In x path -> GraphSpec.reach g cur x.
  Proof.
    intros PO Ix. rewrite <- (po_last PO). apply chain_reach; [apply (path_vertices PO)|apply (po_edges PO)|exact Ix].
  Qed.

  Lemma existsb_memb_false (l ip : list vkey) :
    (forall x, In x l -> In x ip -> False) -> existsb (fun v => memb v ip) l = false.
  Proof.
    intros H. apply not_true_is_false. intros E. apply existsb_exists in E. destruct E as (x & Ix & M).
    apply memb_In in M. exact (H x Ix M).
  Qed.

  Lemma is_fn_inv v : is_fn v = true -> exists ft, v = KFunc ft.
  Proof. destruct v; try discriminate. eauto. Qed.

  (* ================================================================== *)
  (* (b) acyclic: induction on the fuel                                  *)
  (* ================================================================== *)
  Section ModeB.
    Variable T : vkey.
    Hypothesis ACYC : forall ft, vertex g (KFunc ft) -> ~ reach1 g (KFunc ft) (KFunc ft).
    Hypothesis COMP : forall v, is_fn v = true -> GraphSpec.reach g T v -> complete_v g v.

    Lemma reach_b : forall fuel ft s,
      vertex g (KFunc ft) -> GraphSpec.reach g T (KFunc ft) -> Inv s ->
      NoDup (s_inprog s) ->
      (forall w, In w (s_inprog s) -> is_fn w = true /\ vertex g w /\ reach1 g w (KFunc ft)) ->
      (List.length (g_vertex_keys g) <= fuel + List.length (s_inprog s))%nat ->
      good (KFunc ft) s (reach u bh g false fuel (KFunc ft) s).
    Proof.
      induction fuel as [|fuel IH]; intros ft s Vv RT I ND IPW FU.
      - (* impossible: the in-progress functions, the current one and the root are distinct vertices *)
        exfalso.
        assert (NI : ~ In (KFunc ft) (s_inprog s)).
        { intros A. destruct (IPW _ A) as (_ & _ & R). exact (@ACYC ft Vv R). }
        assert (NR : ~ In KRoot (KFunc ft :: s_inprog s)).
        { intros [A|A]; [discriminate A|]. destruct (IPW _ A) as (Fn & _). discriminate Fn. }
        assert (ND' : NoDup (KRoot :: KFunc ft :: s_inprog s)).
        { constructor; [exact NR|]. constructor; assumption. }
        assert (INCL : incl (KRoot :: KFunc ft :: s_inprog s) (g_vertex_keys g)).
        { intros x [<-|[<-|A]]; [exact ROOT|exact Vv|]. destruct (IPW _ A) as (_ & V & _). exact V. }
        pose proof (NoDup_incl_length ND' INCL) as Le. cbn [List.length] in Le. lia.
      - rewrite reach_S.
        assert (NI : ~ In (KFunc ft) (s_inprog s)).
        { intros A. destruct (IPW _ A) as (_ & _ & R). exact (@ACYC ft Vv R). }
        apply (@reach_body_ok u bh g F vals0 WF ROOT EI VI UT SAMESIG SAMEID WFFN SMALL RR
                              (reach u bh g false fuel) (fun _ _ => True) ft s I).
        + (* no planned path meets a function in progress *)
          intros cur path w Ec PO. apply existsb_memb_false. intros x Ix Ip.
          pose proof (@path_reach cur path x PO Ix) as Rx.
          destruct Ip as [<-|Ip].
          * exact (@ACYC ft Vv (@reach1_of _ _ _ _ Ec Rx)).
          * destruct (IPW _ Ip) as (Fx & Vx & R1).
            destruct (is_fn_inv _ Fx) as [fx ->].
            apply (@ACYC fx Vx). eapply reach1_reach_r; [exact R1|]. eapply reach_step; eauto.
        + intros cur path w Ec PO. split; [|split].
          * intros v Iv Fv. apply COMP; [exact Fv|].
            eapply reach_trans; [exact RT|]. eapply reach_step; [exact Ec|]. eapply path_reach; eauto.
          * intros v s1 Iv Fv I1 IP1 _. destruct (is_fn_inv _ Fv) as [fv ->].
            pose proof (@path_reach cur path _ PO Iv) as Rv.
            apply IH.
            -- eapply path_vertices; eauto.
            -- eapply reach_trans; [exact RT|]. eapply reach_step; eauto.
            -- exact I1.
            -- rewrite IP1. constructor; assumption.
            -- rewrite IP1. intros x [<-|Ix].
               ++ split; [reflexivity|]. split; [exact Vv|]. eapply reach1_of; eauto.
               ++ destruct (IPW _ Ix) as (Fx & Vx & R1). split; [exact Fx|]. split; [exact Vx|].
                  eapply reach1_reach_r; [exact R1|]. eapply reach_step; eauto.
            -- rewrite IP1. cbn [List.length]. lia.
          * intros; exact Logic.I.
    Qed.
  End ModeB.

  (* ================================================================== *)
  (* (a) single-input converters                                         *)
  (* ================================================================== *)
  Definition all_valued (v : vkey) (s : rstate) : Prop :=
    forall r w, edge g v r w -> r <> KRoot -> lookup r (s_vals s) <> None.

  (* a function all of whose requirements hold a value needs no planning *)
  Lemma reach_valued n ft s :
    Inv s -> all_valued (KFunc ft) s ->
    good (KFunc ft) s (reach u bh g false (S n) (KFunc ft) s).
  Proof.
    intros I AV. rewrite reach_S, reach_body_eq. cbv zeta.
    set (s1 := set_inprog s (KFunc ft :: s_inprog s)).
    destruct (take_perm_total SITE_REACH_OUT (g_out_keys g (KFunc ft)) (s_tape s1)) as [[[outs t'] T]|T]; rewrite T; cbn [bind].
    2:{ left. exists SITE_REACH_OUT. reflexivity. }
    pose proof (take_perm_In _ _ _ T) as TI.
    set (s2 := set_tape s1 t').
    assert (I2 : Inv s2) by (eapply Inv_ext; [| |exact I]; reflexivity).
    assert (OUTS : forall o, In o outs <-> exists w, edge g (KFunc ft) o w).
    { intros o. rewrite TI. unfold g_out_keys, edge. apply in_keys_lookup. }
    destruct (req_split false s2 outs) as [am todo] eqn:RS. cbn [fst snd].
    destruct (@req_split_spec s2 outs) with (am := am) (todo := todo) as (A1 & A2 & A3); [|exact RS|].
    { intros o Io. apply OUTS in Io. destruct Io as [w Q]. eapply func_out_kind; eauto. }
    assert (TN : todo = []).
    { destruct todo as [|c todo]; [reflexivity|]. exfalso.
      destruct (A3 c (or_introl eq_refl)) as (Io & Rq & LN).
      apply OUTS in Io. destruct Io as [w Q].
      apply (AV c w Q); [intros ->; discriminate Rq|exact LN]. }
    subst todo. cbn [after_split].
    right; right. exists (leave_ (KFunc ft) s2), am. split; [reflexivity|].
    split; [apply Inv_leave; exact I2|]. split; [apply leave_inprog; reflexivity|].
    intros r w Q NR. assert (Io : In r outs) by (apply OUTS; eauto).
    destruct (A2 _ Io NR) as [[x L]|[]]. exists x. split; [exact L|].
    apply A1 in L. exact (@inv_typed u bh F vals0 s2 I2 _ _ L).
  Qed.

  Section ModeA.
    Variable tt : Z.                      (* the target is KFunc tt *)
    (* every other function has at most one input *)
    Hypothesis SINGLE : forall ft f, g_vertex g (KFunc ft) = Some (PFunc f) -> ft <> tt ->
                                     (List.length (fn_in f) <= 1)%nat.
    (* the target too as soon as something depends on it (it then shares its type with a converter) *)
    Hypothesis TSINGLE : forall f a w, g_vertex g (KFunc tt) = Some (PFunc f) -> edge g a (KFunc tt) w ->
                                       (List.length (fn_in f) <= 1)%nat.
    Hypothesis TCOMP : complete_v g (KFunc tt).

    (* the requirements of a function with at most one input *)
    Lemma single_out ft f r w :
      g_vertex g (KFunc ft) = Some (PFunc f) -> (List.length (fn_in f) <= 1)%nat ->
      edge g (KFunc ft) r w ->
      (r = KRoot /\ fn_in f = []) \/ (exists fld, fn_in f = [fld] /\ r = field_key fld).
    Proof.
      intros P L Q. destruct (VI _ P) as (f0 & E0 & Et & If). inversion E0; subst f0.
      pose proof (@EI _ _ _ Q) as (_ & K).
      destruct r as [|ft'|n t st|t st|t st]; try contradiction K.
      - destruct K as (f' & If' & Et' & En). left. split; [reflexivity|].
        destruct (@SAMESIG f' f If' If (eq_trans Et' (eq_sym Et))) as [Si _].
        rewrite En in Si. destruct (fn_in f); [reflexivity|discriminate Si].
      - destruct K as (f' & fld & If' & Et' & Ifld & Ek). right.
        destruct (@SAMESIG f' f If' If (eq_trans Et' (eq_sym Et))) as [Si _].
        destruct (@sig_of_In _ _ _ Si Ifld) as (fld' & Ifld' & En & Ety & Es).
        destruct (fn_in f) as [|x [|y l]]; [destruct Ifld'| |cbn [List.length] in L; lia].
        destruct Ifld' as [<-|[]]. exists x. split; [reflexivity|]. rewrite Ek. apply field_key_ext; congruence.
      - destruct K as (f' & fld & If' & Et' & Ifld & Ek). right.
        destruct (@SAMESIG f' f If' If (eq_trans Et' (eq_sym Et))) as [Si _].
        destruct (@sig_of_In _ _ _ Si Ifld) as (fld' & Ifld' & En & Ety & Es).
        destruct (fn_in f) as [|x [|y l]]; [destruct Ifld'| |cbn [List.length] in L; lia].
        destruct Ifld' as [<-|[]]. exists x. split; [reflexivity|]. rewrite Ek. apply field_key_ext; congruence.
    Qed.

    Lemma field_key_not_root fld : field_key fld <> KRoot.
    Proof. unfold field_key. destruct (String.eqb (f_name fld) ""); discriminate. Qed.

    (* a single-input function that has one requirement edge has them all *)
    Lemma single_complete ft f p w :
      g_vertex g (KFunc ft) = Some (PFunc f) -> (List.length (fn_in f) <= 1)%nat ->
      edge g (KFunc ft) p w -> complete_v g (KFunc ft).
    Proof.
      intros P L Q f' P' fld Ifld. rewrite P in P'. inversion P'; subst f'.
      destruct (@single_out ft f _ _ P L Q) as [[_ En]|(fld0 & En & Ep)]; rewrite En in Ifld; [destruct Ifld|].
      destruct Ifld as [<-|[]]. exists w. rewrite <- Ep. exact Q.
    Qed.

    Lemma single_valued ft f p w fin s1 :
      g_vertex g (KFunc ft) = Some (PFunc f) -> (List.length (fn_in f) <= 1)%nat ->
      edge g (KFunc ft) p w -> J g (Some p) fin s1 -> all_valued (KFunc ft) s1.
    Proof.
      intros P L Q Jp r w' Q' NR.
      destruct (@single_out ft f _ _ P L Q') as [[-> _]|(fld & En & Er)]; [contradiction NR; reflexivity|].
      destruct (@single_out ft f _ _ P L Q) as [[_ En']|(fld' & En' & Ep)]; [congruence|].
      assert (fld' = fld) by congruence. subst fld'. rewrite Er, <- Ep.
      pose proof (@EI _ _ _ Q) as (_ & K).
      destruct p as [|ft'|n t st|t st|t st]; try contradiction K; cbn [J] in Jp.
      - exfalso. apply (@field_key_not_root fld). congruence.
      - destruct Jp as (x & Lx & _). rewrite Lx. discriminate.
      - destruct Jp as (x & Lx & _). rewrite Lx. discriminate.
    Qed.

    (* the target is not on a path planned for one of its own requirements *)
    Lemma target_not_on_path cur path w :
      edge g (KFunc tt) cur w -> path_ok g cur path -> ~ In (KFunc tt) path.
    Proof.
      intros Ec PO It.
      destruct (in_split _ _ It) as (l1 & l2 & E).
      (* the target is neither the first nor the last vertex *)
      destruct l1 as [|a l1] using rev_ind.
      { destruct (po_head PO) as [rest Er]. rewrite E in Er. discriminate Er. }
      clear IHl1.
      destruct l2 as [|b l2].
      { pose proof (po_last PO) as La. rewrite E in La. rewrite <- app_assoc in La. cbn [app] in La.
        replace (l1 ++ [a; KFunc tt]) with ((l1 ++ [a]) ++ [KFunc tt]) in La by (rewrite <- app_assoc; reflexivity).
        rewrite last_last in La. subst cur.
        pose proof (@EI _ _ _ Ec) as (_ & K). contradiction K. }
      (* a is a requirement of the target, b depends on it *)
      destruct (po_edges PO l1 a (KFunc tt) (b :: l2)) as [wa Qa]. { rewrite E, <- app_assoc. reflexivity. }
      destruct (po_edges PO (l1 ++ [a]) (KFunc tt) b l2) as [wb Qb]. { rewrite E. reflexivity. }
      assert (Vt : vertex g (KFunc tt)) by exact (proj1 (wf_closed WF _ _ Ec)).
      destruct (@func_payload g F VI tt Vt) as (f & Pf & _ & _).
      pose proof (@TSINGLE f b wb Pf Qb) as L.
      (* both a and cur are THE requirement of the target: the path repeats it *)
      destruct (@single_out tt f _ _ Pf L Ec) as [[-> En]|(fld & En & Ecur)].
      - destruct (@single_out tt f _ _ Pf L Qa) as [[-> _]|(fld' & En' & _)]; [|congruence].
        (* a = KRoot in the middle and cur = KRoot at the end: cur is the last vertex *)
        pose proof (po_nodup PO) as ND. pose proof (po_last PO) as La.
        destruct (po_head PO) as [rest Er].
        (* KRoot is the head and also the last element of a path of length >= 3 *)
        rewrite E in ND. rewrite <- app_assoc in ND. cbn [app] in ND.
        assert (In KRoot (b :: l2)).
        { rewrite E in La. rewrite <- app_assoc in La. cbn [app] in La.
          assert (X : last (l1 ++ KRoot :: KFunc tt :: b :: l2) KRoot = last (b :: l2) KRoot).
          { clear. induction l1 as [|x l1 IH]; [reflexivity|].
            cbn [app]. destruct (l1 ++ KRoot :: KFunc tt :: b :: l2) eqn:Q; [destruct l1; discriminate Q|].
            cbn [last]. exact IH. }
          rewrite X in La.
          assert (Y : forall (l : list vkey) d, l <> [] -> In (last l d) l).
          { clear. induction l as [|x l IH]; intros d N; [contradiction N; reflexivity|].
            destruct l as [|y l]; [left; reflexivity|]. right. apply (IH d). discriminate. }
          rewrite <- La. apply Y. discriminate. }
        apply NoDup_remove_2 in ND. apply ND. apply in_or_app. right. right. exact H.
      - destruct (@single_out tt f _ _ Pf L Qa) as [[_ En']|(fld' & En' & Ea)]; [congruence|].
        assert (fld' = fld) by congruence. subst fld'.
        assert (Eac : a = cur) by congruence.
        pose proof (po_nodup PO) as ND. pose proof (po_last PO) as La.
        rewrite E in ND. rewrite <- app_assoc in ND. cbn [app] in ND.
        assert (In cur (b :: l2)).
        { rewrite E in La. rewrite <- app_assoc in La. cbn [app] in La.
          assert (X : last (l1 ++ a :: KFunc tt :: b :: l2) KRoot = last (b :: l2) KRoot).
          { clear. induction l1 as [|x l1 IH]; [reflexivity|].
            cbn [app]. destruct (l1 ++ a :: KFunc tt :: b :: l2) eqn:Q; [destruct l1; discriminate Q|].
            cbn [last]. exact IH. }
          rewrite X in La.
          assert (Y : forall (l : list vkey) d, l <> [] -> In (last l d) l).
          { clear. induction l as [|x l IH]; intros d N; [contradiction N; reflexivity|].
            destruct l as [|y l]; [left; reflexivity|]. right. apply (IH d). discriminate. }
          rewrite <- La. apply Y. discriminate. }
        apply NoDup_remove_2 in ND. apply ND. apply in_or_app. right. right. rewrite Eac. exact H.
    Qed.

    Lemma reach_a n s :
      vertex g (KFunc tt) -> Inv s -> s_inprog s = [] ->
      good (KFunc tt) s (reach u bh g false (S (S n)) (KFunc tt) s).
    Proof.
      intros Vt I IP. rewrite reach_S.
      apply (@reach_body_ok u bh g F vals0 WF ROOT EI VI UT SAMESIG SAMEID WFFN SMALL RR
                            (reach u bh g false (S n)) all_valued tt s I).
      - intros cur path w Ec PO. rewrite IP. apply existsb_memb_false.
        intros x Ix [<-|[]]. exact (@target_not_on_path cur path w Ec PO Ix).
      - intros cur path w Ec PO.
        assert (ONP : forall v, In v path -> is_fn v = true ->
                        exists ft f p wp, v = KFunc ft /\ ft <> tt /\ g_vertex g v = Some (PFunc f) /\ edge g v p wp).
        { intros v Iv Fv. destruct (is_fn_inv _ Fv) as [ft ->].
          assert (Nt : ft <> tt) by (intros ->; exact (@target_not_on_path cur path w Ec PO Iv)).
          destruct (@func_payload g F VI ft (@path_vertices cur path PO _ Iv)) as (f & Pf & _ & _).
          destruct (in_split _ _ Iv) as (l1 & l2 & E).
          destruct l1 as [|p l1] using rev_ind.
          { destruct (po_head PO) as [rest Er]. rewrite E in Er. discriminate Er. }
          clear IHl1. destruct (po_edges PO l1 p (KFunc ft) l2) as [wp Qp]. { rewrite E, <- app_assoc. reflexivity. }
          exists ft, f, p, wp. auto. }
        split; [|split].
        + intros v Iv Fv. destruct (ONP v Iv Fv) as (ft & f & p & wp & -> & Nt & Pf & Qp).
          eapply single_complete; eauto.
        + intros v s1 Iv Fv I1 IP1 AV. destruct (is_fn_inv _ Fv) as [ft ->].
          apply reach_valued; assumption.
        + intros v p fin s1 Iv Fv [wp Qp] I1 Jp. destruct (ONP v Iv Fv) as (ft & f & p' & wp' & -> & Nt & Pf & _).
          eapply single_valued; eauto.
    Qed.
  End ModeA.
End Modes.

(* C04ErrorsGraph.v -- what the function vertices of the call graph carry:
   every payload is the target or one of the supplied / generated
   converters, and sits on the vertex of its own Go function type.
   Also: graph construction only records generator events. *)
From ArgMapper Require Import Base Graph GraphAlg GenWeights Types Args Resolver ResolverSpec.
From ArgMapper.proofs Require Import C19RefineMap C04ErrorsLemmas.
Set Implicit Arguments.
Local Open Scope Z_scope.
Local Open Scope list_scope.

Definition is_gen (e : event) : Prop := match e with EGen _ _ => True | _ => False end.

Section Payload.
  Variable P : fdecl -> Prop.

  Definition pay_inv (g : rgraph) : Prop :=
    forall k f', lookup k (ghash g) = Some (PFunc f') -> k = KFunc (fn_type f') /\ P f'.

  Lemma pay_empty : pay_inv g_empty.
  Proof. intros k f' H. discriminate. Qed.

  Lemma pay_add_none g k : pay_inv g -> pay_inv (g_add g k PNone).
  Proof.
    intros Hg k' f' H. unfold g_add in H.
    destruct (mem k (gout g)); [apply Hg; exact H|].
    cbn [ghash] in H. rewrite lookup_insert in H.
    destruct (Base.eqb k' k); [discriminate|apply Hg; exact H].
  Qed.

  Lemma pay_add_v g k : pay_inv g -> pay_inv (add_v g k).
  Proof. apply pay_add_none. Qed.

  Lemma pay_add_func g c : pay_inv g -> P c -> pay_inv (g_add g (KFunc (fn_type c)) (PFunc c)).
  Proof.
    intros Hg Hc k' f' H. unfold g_add in H.
    destruct (mem (KFunc (fn_type c)) (gout g)); [apply Hg; exact H|].
    cbn [ghash] in H. rewrite lookup_insert in H.
    destruct (Base.eqb_spec k' (KFunc (fn_type c))) as [->|N].
    - inversion H; subst. split; [reflexivity|exact Hc].
    - apply Hg; exact H.
  Qed.

  Lemma pay_overwrite_none g k : pay_inv g -> pay_inv (g_add_overwrite g k PNone).
  Proof.
    intros Hg k' f' H. unfold g_add_overwrite in H.
    destruct (mem k (gout g)); cbn [ghash] in H; rewrite lookup_insert in H;
      (destruct (Base.eqb k' k); [discriminate|apply Hg; exact H]).
  Qed.

  Lemma ghash_add_e g a b w : ghash (add_e g a b w) = ghash g.
  Proof.
    unfold add_e, g_add_edge.
    destruct (mem a (ghash g) && mem b (ghash g)); [|reflexivity].
    destruct (lookup a (gout g)); [|reflexivity].
    destruct (lookup b (gin g)); reflexivity.
  Qed.

  Lemma pay_add_e g a b w : pay_inv g -> pay_inv (add_e g a b w).
  Proof. intros Hg k f' H. rewrite ghash_add_e in H. apply Hg; exact H. Qed.

  Lemma pay_remove g k : pay_inv g -> pay_inv (g_remove g k).
  Proof.
    intros Hg k' f' H. unfold g_remove in H. cbn [ghash] in H.
    rewrite lookup_delete in H. destruct (Base.eqb k' k); [discriminate|apply Hg; exact H].
  Qed.

  Lemma pay_func_graph g c io : pay_inv g -> P c -> pay_inv (func_graph g c io).
  Proof.
    intros Hg Hc. unfold func_graph.
    assert (H1 : pay_inv (g_add g (KFunc (fn_type c)) (PFunc c))) by (apply pay_add_func; assumption).
    set (g1 := g_add g (KFunc (fn_type c)) (PFunc c)) in *. clearbody g1.
    assert (H2 : pay_inv (match fn_in c with [] => add_e g1 (KFunc (fn_type c)) KRoot w_normal | _ :: _ => g1 end)).
    { destruct (fn_in c); [apply pay_add_e|]; assumption. }
    set (g2 := match fn_in c with [] => add_e g1 (KFunc (fn_type c)) KRoot w_normal | _ :: _ => g1 end) in *.
    clearbody g2.
    assert (H3 : pay_inv (fold_left (fun g0 fld =>
                        let k := field_key fld in
                        let g3 := add_v g0 k in
                        add_e g3 (KFunc (fn_type c)) k (if String.eqb (f_name fld) EmptyString then w_typed else w_normal))
                     (fn_in c) g2)).
    { apply fold_left_inv; [exact H2|]. intros a x Ha. cbv zeta. apply pay_add_e, pay_add_v, Ha. }
    destruct io; [|exact H3].
    apply fold_left_inv.
    - apply fold_left_inv; [exact H3|]. intros a x Ha. cbv zeta. apply pay_add_e, pay_add_v, Ha.
    - intros a x Ha. cbv zeta. apply pay_add_e, pay_add_v, Ha.
  Qed.

  Lemma pay_step_values g : pay_inv g -> pay_inv (step_values g).
  Proof.
    intros Hg. unfold step_values. apply fold_left_inv; [exact Hg|].
    intros a x Ha. destruct x; try exact Ha. cbv zeta.
    destruct (String.eqb s EmptyString); repeat (apply pay_add_e || apply pay_add_v); exact Ha.
  Qed.

  Lemma pay_step_args g : pay_inv g -> pay_inv (step_args g).
  Proof.
    intros Hg. unfold step_args. apply fold_left_inv; [exact Hg|].
    intros a x Ha. destruct x; try exact Ha. apply pay_add_e, pay_add_v, Ha.
  Qed.

  Lemma pay_step_ifaces u g : pay_inv g -> pay_inv (step_ifaces u g).
  Proof.
    intros Hg. unfold step_ifaces. apply fold_left_inv; [exact Hg|].
    intros a x Ha. destruct x; try exact Ha.
    destruct (is_iface u t); [|exact Ha].
    apply fold_left_inv; [exact Ha|].
    intros a' x' Ha'. destruct x'; try exact Ha'.
    match goal with |- pay_inv (if ?c then _ else _) => destruct c end; [apply pay_add_e|]; exact Ha'.
  Qed.

  Lemma pay_step_named_sub valued g : pay_inv g -> pay_inv (step_named_sub valued g).
  Proof.
    intros Hg. unfold step_named_sub. apply fold_left_inv; [exact Hg|].
    intros a x Ha. destruct x; try exact Ha.
    match goal with |- pay_inv (if ?c then _ else _) => destruct c end; [|exact Ha].
    apply fold_left_inv; [exact Ha|].
    intros a' x' Ha'. destruct x'; try exact Ha'.
    match goal with |- pay_inv (if ?c then _ else _) => destruct c end; [apply pay_add_e|]; exact Ha'.
  Qed.

  Lemma pay_step_arg_sub g : pay_inv g -> pay_inv (step_arg_sub g).
  Proof.
    intros Hg. unfold step_arg_sub. apply fold_left_inv; [exact Hg|].
    intros a x Ha. destruct x; try exact Ha.
    apply fold_left_inv; [exact Ha|].
    intros a' x' Ha'. destruct x'; try exact Ha'.
    match goal with |- pay_inv (if ?c then _ else _) => destruct c end; [apply pay_add_e|]; exact Ha'.
  Qed.

  Lemma lookup_in {K V} `{EqDec K} (k : K) (m : amap K V) v : lookup k m = Some v -> In (k, v) m.
  Proof.
    induction m as [|[k0 v0] m IH]; simpl; [discriminate|].
    destruct (Base.eqb_spec k k0) as [->|N]; intros E.
    - inversion E; subst. left; reflexivity.
    - right; apply IH; exact E.
  Qed.

  Definition rg_inv (acc : rgraph * list fdecl * list event * option Z) : Prop :=
    let '(g, convs, tr, err) := acc in pay_inv g /\ Forall is_gen tr.

  Lemma run_gens_spec g gens ks convs tr :
    (forall c, In c (gen_funcs gens) -> P c) ->
    pay_inv g -> Forall is_gen tr ->
    rg_inv (run_gens g gens ks convs tr).
  Proof.
    intros HP Hg Htr. unfold run_gens.
    apply fold_left_inv; [split; assumption|].
    intros [[[g1 c1] tr1] e1] k Ha.
    destruct e1; [exact Ha|].
    destruct (value_of_vertex k); [|exact Ha].
    apply fold_left_inv_in; [exact Ha|].
    intros [[[g2 c2] tr2] e2] gn Hgn Ha2.
    destruct e2; [exact Ha2|].
    destruct Ha2 as [Hg2 Htr2].
    assert (Htr3 : Forall is_gen (tr2 ++ [EGen (gen_id gn) k])).
    { apply Forall_app; split; [exact Htr2|]. constructor; [exact I|constructor]. }
    destruct (lookup k (gen_table gn)) as [[|e|f0]|] eqn:El; try (split; assumption).
    split; [|exact Htr3].
    apply pay_func_graph; [exact Hg2|].
    apply HP. unfold gen_funcs. apply in_flat_map. exists gn. split; [exact Hgn|].
    apply in_flat_map. exists (k, GFunc f0). split; [apply lookup_in; exact El|].
    left; reflexivity.
  Qed.
End Payload.

(* ---------- full_graph / prune / call_graph ---------- *)
Definition known_pay (f : fdecl) (b : builder) (c : fdecl) : Prop :=
  c = f \/ In c (b_convs b ++ gen_funcs (b_gens b)).

Lemma full_graph_spec u f b t r tr :
  full_graph u f b false t = Ok (r, tr) ->
  Forall is_gen tr /\
  match r with
  | inl fg => pay_inv (known_pay f b) (fg_g fg) /\ fg_target fg = KFunc (fn_type f) /\ fg_trace fg = tr
  | inr _ => True
  end.
Proof.
  unfold full_graph. intros H.
  apply bind_ok in H. destruct H as [[ks t1] [_ H]].
  match type of H with context [run_gens ?G ?gens ?k ?c ?t0] =>
    assert (HG : pay_inv (known_pay f b) G);
    [|pose proof (@run_gens_spec (known_pay f b) G gens k c t0) as Hrg;
      destruct (run_gens G gens k c t0) as [[[g1 c1] tr1] e1]]
  end.
  { apply fold_left_inv_in.
    - apply fold_left_inv.
      + apply pay_func_graph; [|left; reflexivity].
        apply pay_add_none, pay_empty.
      + intros a x Ha. apply pay_add_e, pay_overwrite_none, Ha.
    - intros a x Hx Ha. apply pay_func_graph; [exact Ha|].
      right. apply in_or_app. left; exact Hx. }
  assert (Hrg' : pay_inv (known_pay f b) g1 /\ Forall is_gen tr1).
  { apply Hrg; [|exact HG|constructor].
    intros c Hc. right. apply in_or_app. right; exact Hc. }
  clear Hrg. destruct Hrg' as [Hg1 Htr1].
  destruct e1 as [e|].
  - inversion H; subst. split; [exact Htr1|exact I].
  - inversion H; subst; clear H. split; [exact Htr1|].
    cbn [fg_g fg_target fg_trace].
    split; [|split; reflexivity].
    apply pay_step_arg_sub, pay_step_named_sub, pay_step_ifaces, pay_step_args, pay_step_values, Hg1.
Qed.

Lemma prune_spec P fg cg :
  prune fg = inl cg -> pay_inv P (fg_g fg) ->
  pay_inv P (cg_g cg) /\ cg_target cg = fg_target fg /\ cg_trace cg = fg_trace fg.
Proof.
  unfold prune. intros H Hg.
  match type of H with (match ?x with _ => _ end) = _ => destruct x end; [|discriminate].
  inversion H; subst; clear H. cbn [cg_g cg_target cg_trace].
  split; [|split; reflexivity].
  apply fold_left_inv; [exact Hg|].
  intros a x Ha.
  match goal with |- pay_inv _ (if ?c then _ else _) => destruct c end; [exact Ha|apply pay_remove; exact Ha].
Qed.

Lemma call_graph_spec u f b t r tr :
  call_graph u f b false t = Ok (r, tr) ->
  Forall is_gen tr /\
  match r with
  | inl cg => pay_inv (known_pay f b) (cg_g cg) /\ cg_target cg = KFunc (fn_type f) /\ cg_trace cg = tr
  | inr _ => True
  end.
Proof.
  unfold call_graph. intros H.
  apply bind_ok in H. destruct H as [[r0 tr0] [Hf H]].
  apply full_graph_spec in Hf. destruct Hf as [Htr Hr0].
  destruct r0 as [fg|e]; inversion H; subst; clear H; (split; [exact Htr|]); [|exact I].
  destruct Hr0 as [Hp [Ht Htr0]].
  destruct (prune fg) as [cg|e] eqn:Ep; [|exact I].
  destruct (@prune_spec _ _ _ Ep Hp) as [Hp' [Ht' Htr']].
  split; [exact Hp'|]. split; congruence.
Qed.

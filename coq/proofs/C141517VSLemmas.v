(* C141517VSLemmas.v -- string / list lemmas for the value-set properties
   (C14, C15, C17). *)
From ArgMapper Require Import Base Types ValueSet CheckValueSet ValueSetStatements.
From Coq Require Import String Ascii List Bool Lia.
Import ListNotations.
Set Implicit Arguments.

(* ---------- string append ---------- *)
Lemma sapp_nil_r (s : string) : (s ++ "")%string = s.
Proof. induction s as [|x r IH]; cbn [append]; [reflexivity | rewrite IH; reflexivity]. Qed.

Lemma sapp_assoc (a b c : string) : ((a ++ b) ++ c)%string = (a ++ (b ++ c))%string.
Proof. induction a as [|x r IH]; cbn [append]; [reflexivity | rewrite IH; reflexivity]. Qed.

Lemma beqb_string (a b : string) : Base.eqb a b = String.eqb a b.
Proof. reflexivity. Qed.

Lemma beqb_empty_false (s : string) : s <> EmptyString -> Base.eqb s EmptyString = false.
Proof. intros Hne. apply Base.eqb_neq. exact Hne. Qed.

Lemma beqb_empty_true (s : string) : Base.eqb s EmptyString = true -> s = EmptyString.
Proof. intros Hq. apply (proj1 (Base.eqb_eq s EmptyString)). exact Hq. Qed.

(* ---------- split_on ---------- *)
Lemma split_on_nochar (c : ascii) (s cur : string) :
  has_char c s = false -> split_on c s cur = [(cur ++ s)%string].
Proof.
  revert cur; induction s as [|x r IH]; intros cur Hc; cbn [split_on].
  - rewrite sapp_nil_r; reflexivity.
  - cbn [has_char] in Hc. apply orb_false_iff in Hc. destruct Hc as [Hx Hr].
    rewrite Hx. rewrite (IH _ Hr). rewrite sapp_assoc. reflexivity.
Qed.

Lemma split_on_app (c : ascii) (a b cur : string) :
  has_char c a = false ->
  split_on c (a ++ String c b) cur = (cur ++ a)%string :: split_on c b EmptyString.
Proof.
  revert cur; induction a as [|x r IH]; intros cur Hc; cbn [append split_on].
  - rewrite Ascii.eqb_refl, sapp_nil_r. reflexivity.
  - cbn [has_char] in Hc. apply orb_false_iff in Hc. destruct Hc as [Hx Hr].
    rewrite Hx. rewrite (IH _ Hr). rewrite sapp_assoc. reflexivity.
Qed.

Lemma split_comma_nochar (s : string) :
  has_char "," s = false -> split_comma s = [s].
Proof. intros Hc. unfold split_comma. rewrite split_on_nochar by exact Hc. reflexivity. Qed.

Lemma split_comma_app (a b : string) :
  has_char "," a = false ->
  split_comma (a ++ String "," b) = a :: split_comma b.
Proof. intros Hc. unfold split_comma. rewrite split_on_app by exact Hc. reflexivity. Qed.

(* ---------- ASCII case mapping ---------- *)
Lemma lower_ascii_idem (c : ascii) : lower_ascii (lower_ascii c) = lower_ascii c.
Proof.
  destruct c as [b0 b1 b2 b3 b4 b5 b6 b7];
    destruct b0, b1, b2, b3, b4, b5, b6, b7; reflexivity.
Qed.

Lemma lower_upper_ascii (c : ascii) : lower_ascii (upper_ascii c) = lower_ascii c.
Proof.
  destruct c as [b0 b1 b2 b3 b4 b5 b6 b7];
    destruct b0, b1, b2, b3, b4, b5, b6, b7; reflexivity.
Qed.

Lemma lower_idem (s : string) : lower (lower s) = lower s.
Proof.
  induction s as [|x r IH]; cbn [lower]; [reflexivity|].
  rewrite lower_ascii_idem, IH. reflexivity.
Qed.

Lemma lower_upper (s : string) : lower (upper s) = lower s.
Proof.
  induction s as [|x r IH]; cbn [lower upper]; [reflexivity|].
  rewrite lower_upper_ascii, IH. reflexivity.
Qed.

Lemma lower_empty_inv (s : string) : lower s = EmptyString -> s = EmptyString.
Proof. destruct s; cbn [lower]; [reflexivity | discriminate]. Qed.

Lemma upper_empty_inv (s : string) : upper s = EmptyString -> s = EmptyString.
Proof. destruct s; cbn [upper]; [reflexivity | discriminate]. Qed.

(* ---------- field_value characterisation ---------- *)
Definition fv_of (n p0 : string) (rest : list string) (t : ty) : ivalue :=
  let opts := parse_opts rest [] in
  mkIV (if mem "typeOnly"%string opts then EmptyString
        else lower (if Base.eqb p0 EmptyString then n else p0))
       t
       (match lookup "subtype"%string opts with Some s => s | None => EmptyString end).

Lemma field_value_notag (n : string) (e : bool) (t : ty) (m : bool) :
  field_value (mkIF n e EmptyString t m) = mkIV (lower n) t EmptyString.
Proof. reflexivity. Qed.

Lemma field_value_split (n : string) (e : bool) (tag : string) (t : ty) (m : bool)
      (p0 : string) (rest : list string) :
  tag <> EmptyString -> split_comma tag = p0 :: rest ->
  field_value (mkIF n e tag t m) = fv_of n p0 rest t.
Proof.
  intros Hne Hsp. unfold field_value, fv_of. cbn [if_tag if_name if_ty].
  rewrite (beqb_empty_false Hne). rewrite Hsp. reflexivity.
Qed.

(* ---------- generic "last match" fold ---------- *)
Section LastMatch.
  Variable p : ivalue -> bool.
  Definition lm_step (acc : option ivalue) (v : ivalue) : option ivalue :=
    if p v then Some v else acc.

  Lemma lm_nomatch (l : list ivalue) (acc : option ivalue) :
    (forall w, In w l -> p w = false) -> fold_left lm_step l acc = acc.
  Proof.
    revert acc; induction l as [|a l IH]; intros acc Hno; cbn [fold_left]; [reflexivity|].
    rewrite IH.
    - unfold lm_step. rewrite (Hno a (or_introl eq_refl)). reflexivity.
    - intros w Hw. apply Hno. right. exact Hw.
  Qed.

  Lemma lm_last (l1 l2 : list ivalue) (x : ivalue) (acc : option ivalue) :
    p x = true -> (forall w, In w l2 -> p w = false) ->
    fold_left lm_step (l1 ++ x :: l2) acc = Some x.
  Proof.
    intros Hx Hno. rewrite fold_left_app. cbn [fold_left].
    rewrite (lm_nomatch _ _ Hno). unfold lm_step at 1. rewrite Hx. reflexivity.
  Qed.

  Lemma lm_some (l : list ivalue) (r : ivalue) :
    p r = true ->
    exists r', fold_left lm_step l (Some r) = Some r' /\ (r' = r \/ In r' l) /\ p r' = true.
  Proof.
    revert r; induction l as [|a l IH]; intros r Hr; cbn [fold_left].
    - exists r. auto.
    - unfold lm_step at 2. destruct (p a) eqn:Ha.
      + destruct (IH a Ha) as [r' [Hf [Hin Hp]]]. exists r'. split; [exact Hf|]. split; [|exact Hp].
        right. destruct Hin as [Hin|Hin]; [left; symmetry; exact Hin | right; exact Hin].
      + destruct (IH r Hr) as [r' [Hf [Hin Hp]]]. exists r'. split; [exact Hf|]. split; [|exact Hp].
        destruct Hin as [Hin|Hin]; [left; exact Hin | right; right; exact Hin].
  Qed.

  Lemma lm_exists (l : list ivalue) (acc : option ivalue) :
    (exists x, In x l /\ p x = true) ->
    exists r, fold_left lm_step l acc = Some r /\ In r l /\ p r = true.
  Proof.
    revert acc; induction l as [|a l IH]; intros acc [x [Hin Hx]]; [destruct Hin|].
    cbn [fold_left]. unfold lm_step at 2. destruct (p a) eqn:Ha.
    - destruct (lm_some l Ha) as [r' [Hf [Hin' Hp]]]. exists r'. split; [exact Hf|]. split; [|exact Hp].
      destruct Hin' as [Hin'|Hin']; [left; symmetry; exact Hin' | right; exact Hin'].
    - destruct Hin as [Hin|Hin]; [subst a; congruence|].
      destruct (IH acc (ex_intro _ x (conj Hin Hx))) as [r [Hf [Hin' Hp]]].
      exists r. split; [exact Hf|]. split; [right; exact Hin' | exact Hp].
  Qed.
End LastMatch.

Lemma vs_named_lm (vs : list ivalue) (n : string) :
  vs_named vs n =
  fold_left (lm_step (fun v => negb (Base.eqb (iv_name v) EmptyString) && Base.eqb (iv_name v) n)) vs None.
Proof. reflexivity. Qed.

Lemma vs_typed_lm (vs : list ivalue) (t : ty) :
  vs_typed vs t =
  fold_left (lm_step (fun v => Base.eqb (iv_name v) EmptyString && (iv_ty v =? t)%Z)) vs None.
Proof. reflexivity. Qed.

(* ---------- find over a map with a unique match ---------- *)
Lemma find_map_unique (g : ivalue -> ivalue) (q : ivalue -> bool) (l : list ivalue) (v : ivalue) :
  In v l -> q (g v) = true ->
  (forall w, In w l -> q (g w) = true -> w = v) ->
  find q (map g l) = Some (g v).
Proof.
  induction l as [|a l IH]; intros Hin Hqv Huniq; [destruct Hin|].
  cbn [map find]. destruct (q (g a)) eqn:Ha.
  - rewrite (Huniq a (or_introl eq_refl) Ha). reflexivity.
  - destruct Hin as [Hin|Hin]; [subst a; congruence|].
    apply IH; [exact Hin | exact Hqv |].
    intros w Hw Hq. apply Huniq; [right; exact Hw | exact Hq].
Qed.

(* ---------- combine with seq ---------- *)
Lemma map_combine_seq_snd (A B : Type) (h : nat -> A -> B) (h' : A -> B) (l : list A) (a : nat) :
  (forall i x, In x l -> h i x = h' x) ->
  map (fun iv => h (fst iv) (snd iv)) (combine (seq a (List.length l)) l) = map h' l.
Proof.
  revert a; induction l as [|x l IH]; intros a Hh; cbn [List.length seq combine map]; [reflexivity|].
  cbn [fst snd]. rewrite (Hh a x (or_introl eq_refl)). rewrite IH; [reflexivity|].
  intros i y Hy. apply Hh. right. exact Hy.
Qed.

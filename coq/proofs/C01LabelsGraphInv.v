(* C01LabelsGraphInv.v -- the graph invariant [ginv] is preserved by the
   elementary graph operations and by every construction step of
   [full_graph] (redefining = false). *)
From ArgMapper Require Import Base Graph GraphAlg GraphHist GraphSpec GraphStatements Types Args Resolver ResolverSpec GenWeights.
From ArgMapper.proofs Require Import C19RefineMap C19RefineGraph C18DijkstraLemmas C01LabelsDefs.
From Coq Require Import List ZArith Lia.
Import ListNotations.
Set Implicit Arguments.
Local Open Scope Z_scope.

(* ---------- generic fold lemmas ---------- *)
Lemma fold_left_inv_in {A B} (P : A -> Prop) (f : A -> B -> A) (l : list B) :
  (forall a x, In x l -> P a -> P (f a x)) -> forall a, P a -> P (fold_left f l a).
Proof.
  induction l as [|x l IH]; intros Hf a Pa; simpl; [exact Pa|].
  apply IH.
  - intros a' x' I. apply Hf. right; exact I.
  - apply Hf; [left; reflexivity|exact Pa].
Qed.

Lemma fold_left_inv {A B} (P : A -> Prop) (f : A -> B -> A) (l : list B) :
  (forall a x, P a -> P (f a x)) -> forall a, P a -> P (fold_left f l a).
Proof. intros Hf. apply fold_left_inv_in. intros a x _. apply Hf. Qed.

(* ---------- wf graphs show their own lookup functions ---------- *)
Definition fvof (g : rgraph) : vkey -> option vpay := fun k => lookup k (ghash g).
Definition feof (g : rgraph) : vkey -> vkey -> option Z := fun a b => lookup b (inner (gout g) a).

Lemma wf_gspec (g : rgraph) : wf_graph g -> gspec g (fvof g) (feof g).
Proof.
  intros W. unfold fvof, feof. split; [reflexivity|]. split; [reflexivity|]. split; [|exact W].
  intros a b.
  destruct (lookup b (inner (gout g) a)) as [w|] eqn:Q.
  - apply (wf_mirror W) in Q. exact Q.
  - destruct (lookup a (inner (gin g) b)) as [w|] eqn:Q2; [|reflexivity].
    apply (wf_mirror W) in Q2. congruence.
Qed.

Lemma vk_eq (a b : vkey) : Base.eqb a b = true -> a = b.
Proof. apply Base.eqb_eq. Qed.

Section Inv.
  Variable u : universe.
  Variable b : builder.
  Variable fs : list fdecl.
  Notation ginv := (ginv u b fs).
  Notation erule := (erule u b fs).

  Lemma ginv_gspec (g : rgraph) : ginv g -> gspec g (fvof g) (feof g).
  Proof. intros G. apply wf_gspec. apply (gi_wf G). Qed.

  Lemma ginv_intro (g : rgraph) fv fe :
    gspec g fv fe ->
    (forall x y w, fe x y = Some w -> erule x y /\ -20 <= w <= 20) ->
    (forall ft f, fv (KFunc ft) = Some (PFunc f) -> In f fs /\ fn_type f = ft) ->
    ginv g.
  Proof.
    intros (Hv & Ho & Hi & W) He Hp. constructor.
    - exact W.
    - intros x y w Q. apply He. rewrite <- Ho. exact Q.
    - intros ft f Q. apply Hp. rewrite <- Hv. exact Q.
  Qed.

  Lemma ginv_root : ginv (g_add g_empty KRoot PNone).
  Proof.
    assert (G0 : gspec (@g_empty vkey vpay) (fun _ => None) (fun _ _ => None)).
    { apply gspec_empty; reflexivity. }
    pose proof (gspec_add KRoot PNone G0) as G1. cbv beta in G1.
    eapply ginv_intro; [exact G1| |].
    - intros x y w Q. discriminate.
    - intros ft f Q. unfold upd1 in Q. simpl in Q. discriminate.
  Qed.

  Lemma ginv_g_add (g : rgraph) (k : vkey) (p : vpay) :
    (forall ft f, k = KFunc ft -> p = PFunc f -> In f fs /\ fn_type f = ft) ->
    ginv g -> ginv (g_add g k p).
  Proof.
    intros Hp G. pose proof (ginv_gspec G) as S.
    pose proof (gspec_add k p S) as S1.
    eapply ginv_intro; [exact S1| |].
    - intros x y w Q. apply (gi_edge G). exact Q.
    - intros ft f Q. destruct (fvof g k) as [v0|] eqn:F.
      + apply (gi_pay G). exact Q.
      + unfold upd1 in Q. destruct (Base.eqb_spec (KFunc ft) k) as [Ek|Nk].
        * inversion Q; subst. apply Hp; reflexivity.
        * apply (gi_pay G). exact Q.
  Qed.

  Lemma ginv_add_v (g : rgraph) (k : vkey) : ginv g -> ginv (add_v g k).
  Proof. unfold add_v. apply ginv_g_add. intros ft f _ Q. discriminate. Qed.

  Lemma ginv_add_func (g : rgraph) (f : fdecl) :
    In f fs -> ginv g -> ginv (g_add g (KFunc (fn_type f)) (PFunc f)).
  Proof.
    intros I. apply ginv_g_add. intros ft f0 Ek Ep. inversion Ek; inversion Ep; subst. auto.
  Qed.

  Lemma ginv_overwrite (g : rgraph) (k : vkey) : ginv g -> ginv (g_add_overwrite g k PNone).
  Proof.
    intros G. pose proof (ginv_gspec G) as S.
    pose proof (gspec_overwrite k PNone S) as S1.
    eapply ginv_intro; [exact S1| |].
    - intros x y w Q. apply (gi_edge G). exact Q.
    - intros ft f Q. unfold upd1 in Q. destruct (Base.eqb (KFunc ft) k); [discriminate|].
      apply (gi_pay G). exact Q.
  Qed.

  Lemma add_e_spec (g : rgraph) (x y : vkey) (w : Z) :
    ginv g ->
    gspec (add_e g x y w) (fvof g)
          (match fvof g x, fvof g y with
           | Some _, Some _ => upd2 (feof g) x y (Some w)
           | _, _ => feof g end).
  Proof.
    intros G. pose proof (ginv_gspec G) as S.
    destruct (gspec_add_edge x y w S) as (g' & Eg & S1).
    unfold add_e. rewrite Eg. exact S1.
  Qed.

  Lemma ginv_add_e (g : rgraph) (x y : vkey) (w : Z) :
    erule x y -> -20 <= w <= 20 -> ginv g -> ginv (add_e g x y w).
  Proof.
    intros R Bw G. pose proof (add_e_spec x y w G) as S1.
    eapply ginv_intro; [exact S1| |].
    - intros x' y' w' Q.
      destruct (fvof g x); [|apply (gi_edge G); exact Q].
      destruct (fvof g y); [|apply (gi_edge G); exact Q].
      unfold upd2 in Q.
      destruct (Base.eqb x' x && Base.eqb y' y) eqn:T.
      + apply andb_true_iff in T. destruct T as [T1 T2].
        apply vk_eq in T1. apply vk_eq in T2. subst x' y'. inversion Q; subst w'. split; [exact R|exact Bw].
      + apply (gi_edge G). exact Q.
    - intros ft f Q. apply (gi_pay G). exact Q.
  Qed.

  Lemma ginv_remove (g : rgraph) (k : vkey) : ginv g -> ginv (g_remove g k).
  Proof.
    intros G. pose proof (ginv_gspec G) as S.
    pose proof (gspec_remove k S) as S1.
    eapply ginv_intro; [exact S1| |].
    - intros x y w Q. cbv beta in Q. destruct (Base.eqb x k || Base.eqb y k); [discriminate|].
      apply (gi_edge G). exact Q.
    - intros ft f Q. unfold upd1 in Q. destruct (Base.eqb (KFunc ft) k); [discriminate|].
      apply (gi_pay G). exact Q.
  Qed.

  (* ---------- weights ---------- *)
  Lemma wb_normal : -20 <= w_normal <= 20. Proof. unfold w_normal; lia. Qed.
  Lemma wb_typed : -20 <= w_typed <= 20. Proof. unfold w_typed; lia. Qed.
  Lemma wb_other : -20 <= w_other_subtype <= 20. Proof. unfold w_other_subtype; lia. Qed.
  Lemma wb_match : -20 <= w_matching_name <= 20. Proof. unfold w_matching_name; lia. Qed.

  (* ---------- last_named / last_typed ---------- *)
  Lemma last_named_name (n : string) (l : list field) :
    forall i acc j g,
      (forall j0 g0, acc = Some (j0, g0) -> f_name g0 = n /\ n <> EmptyString) ->
      last_named n l i acc = Some (j, g) -> f_name g = n /\ n <> EmptyString.
  Proof.
    induction l as [|f l IH]; intros i acc j g Hacc Q; simpl in Q.
    - apply (Hacc j g). exact Q.
    - eapply IH; [|exact Q].
      intros j0 g0 E.
      destruct (negb (String.eqb (f_name f) "") && String.eqb (f_name f) n) eqn:T.
      + inversion E; subst. apply andb_true_iff in T. destruct T as [T1 T2].
        apply String.eqb_eq in T2. apply negb_true_iff in T1. apply String.eqb_neq in T1.
        split; [exact T2|]. rewrite <- T2. exact T1.
      + apply (Hacc j0 g0). exact E.
  Qed.

  Lemma last_typed_name (t : ty) (l : list field) :
    forall i acc j g,
      (forall j0 g0, acc = Some (j0, g0) -> f_name g0 = EmptyString /\ f_ty g0 = t) ->
      last_typed t l i acc = Some (j, g) -> f_name g = EmptyString /\ f_ty g = t.
  Proof.
    induction l as [|f l IH]; intros i acc j g Hacc Q; simpl in Q.
    - apply (Hacc j g). exact Q.
    - eapply IH; [|exact Q].
      intros j0 g0 E.
      destruct (String.eqb (f_name f) "" && (f_ty f =? t)) eqn:T.
      + inversion E; subst. apply andb_true_iff in T. destruct T as [T1 T2].
        apply String.eqb_eq in T1. apply Z.eqb_eq in T2. split; assumption.
      + apply (Hacc j0 g0). exact E.
  Qed.

  Lemma named_entries_out (f : fdecl) (fld : field) :
    In fld (named_entries (fn_out f)) -> out_key_of f (field_out_key fld).
  Proof.
    unfold named_entries. intros I. apply in_flat_map in I. destruct I as (f0 & I0 & I).
    destruct (String.eqb (f_name f0) "") eqn:T; [destruct I|].
    destruct (last_named (f_name f0) (fn_out f) 0 None) as [[j g]|] eqn:Q; [|destruct I].
    destruct I as [I|[]]. subst g.
    pose proof Q as Q'. apply last_named_name in Q'; [|intros j0 g0 E; discriminate].
    destruct Q' as [En Nn].
    unfold field_out_key. rewrite En, T. simpl.
    exists j, fld. split; [exact Q|]. split; [exact En|]. split; reflexivity.
  Qed.

  Lemma typed_entries_out (f : fdecl) (fld : field) :
    In fld (typed_entries (fn_out f)) -> out_key_of f (field_out_key fld).
  Proof.
    unfold typed_entries. intros I. apply in_flat_map in I. destruct I as (f0 & I0 & I).
    destruct (String.eqb (f_name f0) "") eqn:T; [|destruct I].
    destruct (last_typed (f_ty f0) (fn_out f) 0 None) as [[j g]|] eqn:Q; [|destruct I].
    destruct I as [I|[]]. subst g.
    pose proof Q as Q'. apply last_typed_name in Q'; [|intros j0 g0 E; discriminate].
    destruct Q' as [En Et].
    unfold field_out_key. rewrite En. simpl.
    exists j, fld. split; [rewrite Et; exact Q|]. split; [exact En|]. split; reflexivity.
  Qed.

  (* ---------- Func.graph ---------- *)
  Lemma erule_func_field (ft : Z) (fld : field) : erule (KFunc ft) (field_key fld).
  Proof. unfold field_key. destruct (String.eqb (f_name fld) ""); simpl; exact I. Qed.

  Lemma ginv_func_graph (g : rgraph) (f : fdecl) (incl : bool) :
    In f fs -> ginv g -> ginv (func_graph g f incl).
  Proof.
    intros If G. unfold func_graph.
    set (fk := KFunc (fn_type f)).
    assert (G1 : ginv (g_add g fk (PFunc f))) by (apply ginv_add_func; assumption).
    set (g1 := g_add g fk (PFunc f)) in *.
    assert (G2 : ginv (match fn_in f with [] => add_e g1 fk KRoot w_normal | _ => g1 end)).
    { destruct (fn_in f); [|exact G1]. apply ginv_add_e; [exact I|apply wb_normal|exact G1]. }
    set (g2 := match fn_in f with [] => add_e g1 fk KRoot w_normal | _ => g1 end) in *.
    assert (G3 : ginv (fold_left (fun g fld =>
                        let k := field_key fld in
                        let g := add_v g k in
                        add_e g fk k (if String.eqb (f_name fld) EmptyString then w_typed else w_normal))
                     (fn_in f) g2)).
    { apply fold_left_inv; [|exact G2]. intros a fld Ga. cbv zeta.
      apply ginv_add_e.
      - apply erule_func_field.
      - destruct (String.eqb (f_name fld) ""); [apply wb_typed|apply wb_normal].
      - apply ginv_add_v. exact Ga. }
    destruct incl; [|exact G3].
    apply fold_left_inv_in.
    - intros a fld Ifld Ga. cbv zeta. apply ginv_add_e.
      + simpl. exists f. split; [exact If|]. split; [reflexivity|]. apply typed_entries_out. exact Ifld.
      + apply wb_typed.
      + apply ginv_add_v. exact Ga.
    - apply fold_left_inv_in; [|exact G3].
      intros a fld Ifld Ga. cbv zeta. apply ginv_add_e.
      + simpl. exists f. split; [exact If|]. split; [reflexivity|]. apply named_entries_out. exact Ifld.
      + apply wb_normal.
      + apply ginv_add_v. exact Ga.
  Qed.

  (* ---------- inputs ---------- *)
  Lemma input_key_shape (k : vkey) :
    In k (map fst (input_vertices b)) ->
    match k with KVal _ _ _ | KOut _ _ => True | _ => False end.
  Proof.
    unfold input_vertices. rewrite !map_app, !in_app_iff, !map_map. simpl.
    intros [I|[I|[I|I]]]; apply in_map_iff in I; destruct I as (kv & E & _); subst k; exact I.
  Qed.

  Lemma erule_input (k : vkey) : In k (map fst (input_vertices b)) -> erule k KRoot.
  Proof.
    intros I. pose proof (input_key_shape _ I) as Sh. simpl.
    destruct k; try contradiction; exact I.
  Qed.

  Lemma ginv_inputs (g : rgraph) :
    ginv g ->
    ginv (fold_left (fun g kv => add_e (g_add_overwrite g (fst kv) PNone) (fst kv) KRoot w_normal)
                    (input_vertices b) g).
  Proof.
    intros G. apply fold_left_inv_in; [|exact G].
    intros a kv I Ga. apply ginv_add_e.
    - apply erule_input. apply in_map. exact I.
    - apply wb_normal.
    - apply ginv_overwrite. exact Ga.
  Qed.

  Lemma ginv_convs (g : rgraph) (cs : list fdecl) :
    incl cs fs -> ginv g -> ginv (fold_left (fun g c => func_graph g c true) cs g).
  Proof.
    intros Hc G. apply fold_left_inv_in; [|exact G].
    intros a c I Ga. apply ginv_func_graph; [apply Hc; exact I|exact Ga].
  Qed.

  (* ---------- generators ---------- *)
  Definition gacc := (rgraph * list fdecl * list event * option Z)%type.
  Definition gacc_ok (a : gacc) : Prop :=
    ginv (fst (fst (fst a))) /\ Forall is_gen (snd (fst a)).

  Lemma run_gens_ok (g : rgraph) (gens : list gen) (ks : list vkey) (convs : list fdecl) (tr : list event) :
    incl (gen_funcs gens) fs -> ginv g -> Forall is_gen tr ->
    gacc_ok (run_gens g gens ks convs tr).
  Proof.
    intros Hg G T. unfold run_gens.
    apply fold_left_inv with (P := gacc_ok); [|split; assumption].
    intros [[[g1 c1] t1] e1] k Pa.
    destruct e1 as [e|]; [exact Pa|].
    destruct (value_of_vertex k); [|exact Pa].
    apply fold_left_inv_in with (P := gacc_ok); [|exact Pa].
    intros [[[g2 c2] t2] e2] gn Ign Pb.
    destruct e2 as [e|]; [exact Pb|].
    destruct Pb as [Gb Tb]. simpl in Gb, Tb.
    assert (T2 : Forall is_gen (t2 ++ [EGen (gen_id gn) k])).
    { apply Forall_app. split; [exact Tb|]. constructor; [exact I|constructor]. }
    destruct (lookup k (gen_table gn)) as [[|e|f]|] eqn:L; split; cbn [fst snd]; try assumption.
    apply ginv_func_graph; [|exact Gb].
    apply Hg. unfold gen_funcs. apply in_flat_map. exists gn. split; [exact Ign|].
    apply in_flat_map. exists (k, GFunc f). split; [apply lookup_In; exact L|].
    simpl. left; reflexivity.
  Qed.

  (* ---------- the edge steps of callGraph ---------- *)
  Lemma ginv_step_values (g : rgraph) : ginv g -> ginv (step_values g).
  Proof.
    intros G. unfold step_values. apply fold_left_inv; [|exact G].
    intros a k Ga. destruct k as [|ft|n t s|t s|t s]; try exact Ga.
    assert (G1 : ginv (add_e (add_v a (KOut t EmptyString)) (KVal n t s) (KOut t EmptyString) w_typed)).
    { apply ginv_add_e; [simpl; split; reflexivity|apply wb_typed|apply ginv_add_v; exact Ga]. }
    set (a1 := add_e (add_v a (KOut t EmptyString)) (KVal n t s) (KOut t EmptyString) w_typed) in *.
    assert (G2 : ginv (add_e (add_v a1 (KArg t EmptyString)) (KArg t EmptyString) (KVal n t s) w_typed)).
    { apply ginv_add_e; [simpl; split; [reflexivity|left; reflexivity]|apply wb_typed|apply ginv_add_v; exact G1]. }
    cbv zeta. fold a1.
    destruct (String.eqb s ""); [exact G2|].
    apply ginv_add_e; [simpl; split; [reflexivity|right; reflexivity]|apply wb_typed|apply ginv_add_v; exact G2].
  Qed.

  Lemma ginv_step_args (g : rgraph) : ginv g -> ginv (step_args g).
  Proof.
    intros G. unfold step_args. apply fold_left_inv; [|exact G].
    intros a k Ga. destruct k as [|ft|n t s|t s|t s]; try exact Ga.
    apply ginv_add_e; [simpl; split; [reflexivity|left; reflexivity]|apply wb_typed|apply ginv_add_v; exact Ga].
  Qed.

  Lemma ginv_step_ifaces (g : rgraph) : ginv g -> ginv (step_ifaces u g).
  Proof.
    intros G. unfold step_ifaces. apply fold_left_inv; [|exact G].
    intros a k Ga. destruct k as [|ft|n t s|t s|t s]; try exact Ga.
    destruct (is_iface u t); [|exact Ga].
    apply fold_left_inv; [|exact Ga].
    intros a2 k2 Ga2. destruct k2 as [|ft2|n2 t2 s2|t2 s2|t2 s2]; try exact Ga2.
    destruct (negb (Base.eqb (KOut t s) (KOut t2 s2)) && negb (t2 =? t) && implements u t2 t) eqn:T;
      [|exact Ga2].
    apply andb_true_iff in T. destruct T as [T T3]. apply andb_true_iff in T. destruct T as [T1 T2].
    apply negb_true_iff in T2. apply Z.eqb_neq in T2.
    apply ginv_add_e; [simpl; split; assumption|apply wb_typed|exact Ga2].
  Qed.

  Lemma ginv_step_named_sub (valued : vkey -> bool) (g : rgraph) : ginv g -> ginv (step_named_sub valued g).
  Proof.
    intros G. unfold step_named_sub. apply fold_left_inv; [|exact G].
    intros a k Ga. destruct k as [|ft|n t s|t s|t s]; try exact Ga.
    destruct (String.eqb s "" && negb (valued (KVal n t s))) eqn:T0; [|exact Ga].
    apply andb_true_iff in T0. destruct T0 as [T0 _]. apply String.eqb_eq in T0.
    apply fold_left_inv; [|exact Ga].
    intros a2 k2 Ga2. destruct k2 as [|ft2|n2 t2 s2|t2 s2|t2 s2]; try exact Ga2.
    destruct (String.eqb n2 n && (t2 =? t) && negb (String.eqb s2 "")) eqn:T; [|exact Ga2].
    apply andb_true_iff in T. destruct T as [T T3]. apply andb_true_iff in T. destruct T as [T1 T2].
    apply String.eqb_eq in T1. apply Z.eqb_eq in T2.
    apply ginv_add_e; [simpl; auto|apply wb_typed|exact Ga2].
  Qed.

  Lemma ginv_step_arg_sub (g : rgraph) : ginv g -> ginv (step_arg_sub g).
  Proof.
    intros G. unfold step_arg_sub. apply fold_left_inv; [|exact G].
    intros a k Ga. destruct k as [|ft|n t s|t s|t s]; try exact Ga.
    apply fold_left_inv; [|exact Ga].
    intros a2 k2 Ga2. destruct k2 as [|ft2|n2 t2 s2|t2 s2|t2 s2]; try exact Ga2.
    destruct ((t2 =? t) && (if String.eqb s "" then negb (String.eqb s2 "") else String.eqb s2 "")) eqn:T;
      [|exact Ga2].
    apply andb_true_iff in T. destruct T as [T1 T2]. apply Z.eqb_eq in T1.
    apply ginv_add_e; [|apply wb_other|exact Ga2].
    simpl. split; [auto|].
    destruct (String.eqb s "") eqn:Es.
    - apply String.eqb_eq in Es. right; right; exact Es.
    - apply String.eqb_eq in T2. right; left; exact T2.
  Qed.
End Inv.

(* C20bKahnTsp.v -- the topological shortest-path routine computes exact
   distances on a single-rooted DAG (towards C20d). *)
From ArgMapper Require Import Base Graph GraphAlg GraphSpec GraphStatements.
From ArgMapper.proofs Require Import C20bKahnLemmas C20bKahnSort.
From Coq Require Import Permutation Lia ZArith List.
Set Implicit Arguments.
Local Open Scope Z_scope.

(* ------------------------------------------------------------------ *)
(* weights of duplicate-free walks are bounded by the total weight *)
Section Weights.
  Context {K : Type} `{EqDec K} {V : Type}.
  Notation graph := (graph K V).

  Fixpoint sumz (l : list Z) : Z :=
    match l with [] => 0 | x :: l => x + sumz l end.
  Definition row_sum (i : amap K Z) : Z := sumz (map snd i).
  Fixpoint sumf (f : K -> Z) (l : list K) : Z :=
    match l with [] => 0 | k :: l => f k + sumf f l end.

  Lemma fold_row (i : amap K Z) : forall acc,
    fold_left (fun acc (e : K * Z) => acc + snd e) i acc = acc + row_sum i.
  Proof.
    induction i as [|e i IH]; intros acc; simpl.
    - unfold row_sum. simpl. lia.
    - rewrite IH. unfold row_sum. simpl. lia.
  Qed.

  Lemma row_sum_nonneg (i : amap K Z) :
    (forall e, In e i -> 0 <= snd e) -> 0 <= row_sum i.
  Proof.
    induction i as [|e i IH]; intros Hnn; unfold row_sum; simpl; [lia|].
    assert (0 <= snd e) by (apply Hnn; left; reflexivity).
    assert (0 <= row_sum i) by (apply IH; intros e' Hin; apply Hnn; right; exact Hin).
    unfold row_sum in *. lia.
  Qed.

  Lemma row_sum_ge (i : amap K Z) e :
    (forall e, In e i -> 0 <= snd e) -> In e i -> snd e <= row_sum i.
  Proof.
    induction i as [|e' i IH]; intros Hnn Hin; [destruct Hin|].
    assert (Hnn' : forall e, In e i -> 0 <= snd e) by (intros e0 H0; apply Hnn; right; exact H0).
    pose proof (row_sum_nonneg _ Hnn') as Hr.
    assert (He' : 0 <= snd e') by (apply Hnn; left; reflexivity).
    unfold row_sum in *. simpl. destruct Hin as [E|Hin].
    - subst e'. lia.
    - specialize (IH Hnn' Hin). lia.
  Qed.

  Lemma sumf_ext_in f f' l : (forall k, In k l -> f k = f' k) -> sumf f l = sumf f' l.
  Proof.
    induction l as [|k l IH]; intros Hext; simpl; [reflexivity|].
    rewrite (Hext k (or_introl eq_refl)). rewrite IH; [reflexivity|].
    intros k' Hin. apply Hext. right. exact Hin.
  Qed.

  Lemma sumf_split f l1 x l2 : sumf f (l1 ++ x :: l2) = f x + sumf f (l1 ++ l2).
  Proof. induction l1 as [|k l1 IH]; simpl; [reflexivity|]. rewrite IH. lia. Qed.

  Lemma sumf_incl_le f l : forall l',
    (forall k, 0 <= f k) -> NoDup l -> incl l l' -> sumf f l <= sumf f l'.
  Proof.
    induction l as [|x l IH]; intros l' Hnn Hnd Hincl; simpl.
    - clear Hincl. induction l' as [|k l' IH']; simpl; [lia|]. specialize (Hnn k). lia.
    - inversion Hnd as [|? ? Hnotin Hnd']; subst.
      assert (Hx : In x l') by (apply Hincl; left; reflexivity).
      apply in_split in Hx. destruct Hx as (l1 & l2 & E). subst l'.
      rewrite sumf_split.
      assert (Hincl' : incl l (l1 ++ l2)).
      { intros y Hy. assert (Hy' : In y (l1 ++ x :: l2)) by (apply Hincl; right; exact Hy).
        apply in_app_or in Hy'. apply in_or_app. destruct Hy' as [Hy'|[E|Hy']]; auto.
        subst y. contradiction. }
      specialize (IH (l1 ++ l2) Hnn Hnd' Hincl'). lia.
  Qed.

  Lemma total_fold (m : adj K) : forall acc, NoDup (keys m) ->
    fold_left (fun acc (kv : K * amap K Z) =>
                 fold_left (fun acc (e : K * Z) => acc + snd e) (snd kv) acc) m acc
    = acc + sumf (fun k => row_sum (inner m k)) (keys m).
  Proof.
    induction m as [|[k' i'] m IH]; intros acc Hnd; simpl.
    - lia.
    - inversion Hnd as [|? ? Hnotin Hnd']; subst.
      rewrite IH by exact Hnd'. rewrite fold_row.
      unfold inner at 2. simpl. rewrite eqb_refl.
      rewrite (@sumf_ext_in (fun k => row_sum (inner ((k', i') :: m) k))
                            (fun k => row_sum (inner m k)) (keys m)).
      + lia.
      + intros k Hin. unfold inner. simpl.
        destruct (eqb_spec k k') as [E|Hne]; [|reflexivity].
        subst k. contradiction.
  Qed.

  Lemma inner_entry_edge (g : graph) k v w :
    wf_graph g -> In (v, w) (inner (gout g) k) -> edge g k v w.
  Proof.
    intros Hwf Hin. unfold edge. apply In_lookup; [|exact Hin].
    unfold inner. destruct (lookup k (gout g)) as [i|] eqn:E; [|constructor].
    eapply (wf_inner_out_nodup Hwf). exact E.
  Qed.

  Lemma walk_weight_bound (g : graph) a b p w :
    wf_graph g -> nonneg g -> walk g a b p w -> NoDup p -> w <= total_weight g.
  Proof.
    intros Hwf Hnn Hw Hnd.
    set (f := fun k => row_sum (inner (gout g) k)).
    assert (Hent : forall k e, In e (inner (gout g) k) -> 0 <= snd e).
    { intros k [v w0] Hin. simpl. eapply Hnn. eapply inner_entry_edge; eassumption. }
    assert (Hf : forall k, 0 <= f k).
    { intros k. unfold f. apply row_sum_nonneg. apply Hent. }
    assert (Hle : w <= sumf f p).
    { clear Hnd. induction Hw as [a Hv|a b c p w1 w2 He Hw IH]; simpl.
      - specialize (Hf a). lia.
      - assert (w1 <= f a).
        { unfold f. change w1 with (snd (b, w1)). apply row_sum_ge; [apply Hent|].
          apply lookup_In. exact He. }
        lia. }
    assert (Hincl : incl p (keys (gout g))).
    { intros x Hx. apply (wf_out_keys Hwf). eapply walk_incl; eassumption. }
    pose proof (sumf_incl_le f Hf Hnd Hincl) as Hle2.
    unfold total_weight. rewrite total_fold by apply (wf_out_nodup Hwf).
    fold f. lia.
  Qed.

  Lemma wrap64_id z : 0 <= z < INF -> wrap64 z = z.
  Proof.
    unfold wrap64, INF. intros Hz. rewrite Z.mod_small; lia.
  Qed.
End Weights.

(* ------------------------------------------------------------------ *)
Section Tsp.
  Context {K : Type} `{EqDec K} {V : Type}.
  Notation graph := (graph K V).

  (* the distance component of tsp_edge on its own *)
  Definition uval (d : amap K Z) (u : K) : Z :=
    match lookup u d with Some x => x | None => 0 end.

  Definition tsp_edge_d (u : K) (d : amap K Z) (e : K * Z) : amap K Z :=
    let (v, w) := e in
    let x := wrap64 (uval d u + w) in
    match lookup v d with
    | Some dv => if x <? dv then insert v x d else d
    | None => insert v x d
    end.

  Lemma fst_tsp_edge u acc e : fst (tsp_edge u acc e) = tsp_edge_d u (fst acc) e.
  Proof.
    destruct acc as [d p]. destruct e as [v w]. unfold tsp_edge, tsp_edge_d, uval. simpl.
    destruct (lookup v d) as [dv|]; [|reflexivity].
    destruct (wrap64 (match lookup u d with Some x => x | None => 0 end + w) <? dv);
      reflexivity.
  Qed.

  Lemma fst_fold_tsp_edge u es : forall acc,
    fst (fold_left (tsp_edge u) es acc) = fold_left (tsp_edge_d u) es (fst acc).
  Proof.
    induction es as [|e es IH]; intros acc; simpl; [reflexivity|].
    rewrite IH, fst_tsp_edge. reflexivity.
  Qed.

  Definition tsp_d (g : graph) (L : list K) (d : amap K Z) : amap K Z :=
    fold_left (fun d u => fold_left (tsp_edge_d u) (inner (gout g) u) d) L d.

  Lemma fst_fold_tsp (g : graph) L : forall acc,
    fst (fold_left (fun acc u => fold_left (tsp_edge u) (inner (gout g) u) acc) L acc)
    = tsp_d g L (fst acc).
  Proof.
    induction L as [|u L IH]; intros acc; simpl; [reflexivity|].
    rewrite IH, fst_fold_tsp_edge. reflexivity.
  Qed.

  Lemma fst_topo (g : graph) L : fst (topo_shortest_path g L) = tsp_d g L [].
  Proof. unfold topo_shortest_path. rewrite fst_fold_tsp. reflexivity. Qed.

  (* ---------------- the invariant ---------------- *)
  Variable g : graph.
  Variable r : K.
  Hypothesis Hwf : wf_graph g.
  Hypothesis Hnn : nonneg g.
  Hypothesis Htw : total_weight g < INF.
  Hypothesis Hac : acyclic g.
  Hypothesis Hroot : single_root g r.

  Lemma walk_wrap a b p w : walk g a b p w -> wrap64 w = w.
  Proof.
    intros Hw. apply wrap64_id. split.
    - eapply walk_nonneg; eassumption.
    - assert (w <= total_weight g); [|lia].
      eapply walk_weight_bound; try eassumption. eapply walk_nodup; eassumption.
  Qed.

  Lemma root_no_pred a w : ~ edge g a r w.
  Proof.
    destruct Hroot as [Hv Hr]. destruct (Hr r Hv) as [_ Hback].
    apply (Hback eq_refl).
  Qed.

  Lemma nonroot_pred v : vertex g v -> v <> r -> exists a w, edge g a v w.
  Proof.
    intros Hv Hne. destruct (indeg0 g v) eqn:Hi.
    - exfalso. apply Hne. destruct Hroot as [_ Hr]. apply (Hr v Hv).
      apply indeg0_true; assumption.
    - apply indeg0_false; assumption.
  Qed.

  Lemma min_dist_unique a d1 d2 : min_dist g r a d1 -> min_dist g r a d2 -> d1 = d2.
  Proof.
    intros [[p1 Hw1] Hm1] [[p2 Hw2] Hm2].
    pose proof (Hm1 _ _ Hw2). pose proof (Hm2 _ _ Hw1). lia.
  Qed.

  Lemma min_dist_root : min_dist g r r 0.
  Proof.
    split.
    - exists [r]. constructor. apply Hroot.
    - intros p w Hw. eapply walk_nonneg; eassumption.
  Qed.

  Definition good (D : amap K Z) : Prop :=
    lookup r D = None /\ forall v dv, lookup v D = Some dv -> exists p, walk g r v p dv.

  Definition le_map (D D' : amap K Z) : Prop :=
    forall x dx, lookup x D = Some dx -> exists dx', lookup x D' = Some dx' /\ dx' <= dx.

  Lemma le_map_refl D : le_map D D.
  Proof. intros x dx Hl. exists dx. split; [exact Hl|lia]. Qed.

  Lemma le_map_trans D1 D2 D3 : le_map D1 D2 -> le_map D2 D3 -> le_map D1 D3.
  Proof.
    intros H12 H23 x dx Hl. destruct (H12 _ _ Hl) as (d2 & Hl2 & Hle2).
    destruct (H23 _ _ Hl2) as (d3 & Hl3 & Hle3). exists d3. split; [exact Hl3|lia].
  Qed.

  (* one relaxation *)
  Lemma tsp_step u D v w :
    good D -> (exists p, walk g r u p (uval D u)) -> edge g u v w ->
    good (tsp_edge_d u D (v, w)) /\
    le_map D (tsp_edge_d u D (v, w)) /\
    lookup u (tsp_edge_d u D (v, w)) = lookup u D /\
    exists dv, lookup v (tsp_edge_d u D (v, w)) = Some dv /\ dv <= uval D u + w.
  Proof.
    intros [Hr Hwalks] [pu Hwu] He.
    assert (Hvv : vertex g v) by (apply (wf_closed Hwf) in He; apply He).
    pose proof (walk_snoc Hwu He Hvv) as Hwv.
    assert (Hwrap : wrap64 (uval D u + w) = uval D u + w) by (eapply walk_wrap; exact Hwv).
    assert (Hvr : v <> r).
    { intros E. subst v. eapply root_no_pred. exact He. }
    assert (Hvu : v <> u).
    { intros E. subst v. eapply Hac. exists u, w, [u], 0.
      split; [exact He|]. constructor. exact Hvv. }
    (* the map after an actual update *)
    assert (Hupd : good (insert v (uval D u + w) D) /\
                   lookup u (insert v (uval D u + w) D) = lookup u D).
    { split; [split|].
      - rewrite lookup_insert. rewrite (eqb_sym_false (fun E => Hvr (eq_sym E))). exact Hr.
      - intros x dx. rewrite lookup_insert. destruct (eqb_spec x v) as [E|Hne].
        + subst x. intros E. inversion E; subst. eexists. exact Hwv.
        + apply Hwalks.
      - rewrite lookup_insert. rewrite (eqb_sym_false (fun E => Hvu (eq_sym E))). reflexivity. }
    destruct Hupd as [Hgood' Hu'].
    unfold tsp_edge_d. rewrite Hwrap.
    destruct (lookup v D) as [dv|] eqn:Hlv.
    - destruct (Z.ltb_spec (uval D u + w) dv) as [Hlt|Hge].
      + split; [exact Hgood'|]. split; [|split; [exact Hu'|]].
        * intros x dx Hl. rewrite lookup_insert. destruct (eqb_spec x v) as [E|Hne].
          -- subst x. rewrite Hlv in Hl. inversion Hl; subst. eexists. split; [reflexivity|lia].
          -- exists dx. split; [exact Hl|lia].
        * exists (uval D u + w). rewrite lookup_insert, eqb_refl. split; [reflexivity|lia].
      + split; [split; assumption|]. split; [apply le_map_refl|]. split; [reflexivity|].
        exists dv. split; [exact Hlv|lia].
    - split; [exact Hgood'|]. split; [|split; [exact Hu'|]].
      + intros x dx Hl. rewrite lookup_insert. destruct (eqb_spec x v) as [E|Hne].
        * subst x. congruence.
        * exists dx. split; [exact Hl|lia].
      + exists (uval D u + w). rewrite lookup_insert, eqb_refl. split; [reflexivity|lia].
  Qed.

  (* all out-edges of u *)
  Lemma tsp_inner u es : forall D,
    (forall e, In e es -> edge g u (fst e) (snd e)) ->
    good D -> (exists p, walk g r u p (uval D u)) ->
    good (fold_left (tsp_edge_d u) es D) /\
    le_map D (fold_left (tsp_edge_d u) es D) /\
    lookup u (fold_left (tsp_edge_d u) es D) = lookup u D /\
    forall e, In e es ->
      exists dv, lookup (fst e) (fold_left (tsp_edge_d u) es D) = Some dv /\
                 dv <= uval D u + snd e.
  Proof.
    induction es as [|[v w] es IH]; intros D Hes Hgood Hwu; cbn [fold_left].
    - split; [exact Hgood|]. split; [apply le_map_refl|]. split; [reflexivity|].
      intros e [].
    - assert (He : edge g u v w) by (apply (Hes (v, w)); left; reflexivity).
      destruct (tsp_step Hgood Hwu He) as (Hgood1 & Hle1 & Hu1 & dv1 & Hlv1 & Hdv1).
      set (D1 := tsp_edge_d u D (v, w)) in *.
      assert (Huval : uval D1 u = uval D u) by (unfold uval; rewrite Hu1; reflexivity).
      assert (Hwu1 : exists p, walk g r u p (uval D1 u)) by (rewrite Huval; exact Hwu).
      assert (Hes1 : forall e, In e es -> edge g u (fst e) (snd e)).
      { intros e Hin. apply Hes. right. exact Hin. }
      destruct (IH D1 Hes1 Hgood1 Hwu1) as (Hgood2 & Hle2 & Hu2 & Hall2).
      split; [exact Hgood2|]. split; [eapply le_map_trans; eassumption|].
      split; [rewrite Hu2; exact Hu1|].
      intros e [E|Hin].
      + subst e. simpl. destruct (Hle2 _ _ Hlv1) as (dv2 & Hlv2 & Hdv2).
        exists dv2. split; [exact Hlv2|lia].
      + destruct (Hall2 e Hin) as (dv & Hl & Hd). exists dv. split; [exact Hl|]. lia.
  Qed.

  (* outer invariant: L1 is the list of vertices already processed *)
  Definition dinv (L1 : list K) (D : amap K Z) : Prop :=
    good D /\
    forall a, In a L1 -> exists da, min_dist g r a da /\
      forall v w, edge g a v w -> exists dv, lookup v D = Some dv /\ dv <= da + w.

  Lemma settled L1 D v :
    dinv L1 D -> vertex g v -> v <> r -> (forall a w, edge g a v w -> In a L1) ->
    exists dv, lookup v D = Some dv /\ min_dist g r v dv.
  Proof.
    intros [[Hr Hwalks] Hdone] Hv Hne Hpreds.
    destruct (nonroot_pred Hv Hne) as (a & w & He).
    destruct (Hdone a (Hpreds _ _ He)) as (da & Hda & Hout).
    destruct (Hout _ _ He) as (dv & Hlv & Hdv).
    exists dv. split; [exact Hlv|]. split; [apply Hwalks; exact Hlv|].
    intros p W Hw. destruct (walk_last Hwf Hw) as [(_ & E & _)|(c & p' & w1 & w2 & Hwc & Hec & EW)].
    - exfalso. apply Hne. auto.
    - destruct (Hdone c (Hpreds _ _ Hec)) as (dc & [_ Hdcmin] & Houtc).
      destruct (Houtc _ _ Hec) as (dv2 & Hlv2 & Hdv2).
      assert (dv2 = dv) by congruence. subst dv2.
      specialize (Hdcmin _ _ Hwc). lia.
  Qed.

  Lemma dinv_step L1 D u :
    dinv L1 D -> vertex g u -> (forall a w, edge g a u w -> In a L1) ->
    dinv (L1 ++ [u]) (fold_left (tsp_edge_d u) (inner (gout g) u) D).
  Proof.
    intros Hd Hu Hpreds.
    assert (Hmin : min_dist g r u (uval D u)).
    { destruct (eqb_spec u r) as [E|Hne].
      - subst u. unfold uval. destruct Hd as [[Hr _] _]. rewrite Hr. apply min_dist_root.
      - destruct (settled Hd Hu Hne Hpreds) as (du & Hl & Hm).
        unfold uval. rewrite Hl. exact Hm. }
    destruct Hd as [Hgood Hdone].
    assert (Hes : forall e, In e (inner (gout g) u) -> edge g u (fst e) (snd e)).
    { intros [v w] Hin. simpl. apply inner_entry_edge; assumption. }
    destruct (tsp_inner (inner (gout g) u) Hes Hgood (proj1 Hmin)) as (Hgood' & Hle & _ & Hall).
    split; [exact Hgood'|].
    intros a Hin. apply in_app_or in Hin. destruct Hin as [Hin|[E|[]]].
    - destruct (Hdone a Hin) as (da & Hda & Hout). exists da. split; [exact Hda|].
      intros v w He. destruct (Hout _ _ He) as (dv & Hl & Hdv).
      destruct (Hle _ _ Hl) as (dv' & Hl' & Hdv'). exists dv'. split; [exact Hl'|lia].
    - subst a. exists (uval D u). split; [exact Hmin|].
      intros v w He. apply (Hall (v, w)). apply lookup_In. exact He.
  Qed.

  Lemma dinv_fold L2 : forall L1 D,
    NoDup (L1 ++ L2) ->
    (forall a b w, edge g a b w -> index_lt (L1 ++ L2) a b) ->
    (forall v, In v L2 -> vertex g v) ->
    dinv L1 D -> dinv (L1 ++ L2) (tsp_d g L2 D).
  Proof.
    induction L2 as [|u L2 IH]; intros L1 D Hnd Hord Hvs Hd.
    - rewrite app_nil_r. exact Hd.
    - simpl.
      assert (Eapp : L1 ++ u :: L2 = (L1 ++ [u]) ++ L2).
      { rewrite <- app_assoc. reflexivity. }
      rewrite Eapp. apply IH.
      + rewrite <- Eapp. exact Hnd.
      + rewrite <- Eapp. exact Hord.
      + intros v Hin. apply Hvs. right. exact Hin.
      + apply dinv_step.
        * exact Hd.
        * apply Hvs. left. reflexivity.
        * intros a w He. eapply index_lt_prefix; [exact Hnd|]. eapply Hord. exact He.
  Qed.

  Lemma dinv_nil : dinv [] [].
  Proof.
    split.
    - split; [reflexivity|]. intros v dv Hl. discriminate Hl.
    - intros a [].
  Qed.

  Lemma tsp_exact L v :
    Permutation L (keys (ghash g)) ->
    (forall a b w, edge g a b w -> index_lt L a b) ->
    vertex g v -> v <> r ->
    exists dv, lookup v (fst (topo_shortest_path g L)) = Some dv /\ min_dist g r v dv.
  Proof.
    intros Hperm Hord Hv Hne. rewrite fst_topo.
    assert (Hnd : NoDup L).
    { eapply Permutation_NoDup; [apply Permutation_sym; exact Hperm|].
      apply (wf_hash_nodup Hwf). }
    assert (Hd : dinv ([] ++ L) (tsp_d g L [])).
    { apply dinv_fold; simpl.
      - exact Hnd.
      - exact Hord.
      - intros x Hin. eapply Permutation_in; eassumption.
      - exact dinv_nil. }
    simpl in Hd. apply (settled Hd Hv Hne).
    intros a w He. eapply Permutation_in; [apply Permutation_sym; exact Hperm|].
    apply (wf_closed Hwf) in He. apply He.
  Qed.
End Tsp.

(* ------------------------------------------------------------------ *)
Section C20d.
  Lemma C20d_from_C18 :
    (forall (K : Type) (E : EqDec K) (V : Type), @C18_statement K E V) ->
    forall (K : Type) (E : EqDec K) (V : Type), @C20d_statement K E V.
  Proof.
    intros HC18 K E V g r t t' L pops d p Hdom Hroot Hkahn Hdij v Hv Hne.
    pose proof Hdom as (Hwf & Hrv & Hnn & Htw).
    destruct (@C20b_holds K E V g t Hwf) as (Hok & _).
    destruct (Hok L t' Hkahn) as (Hperm & Hord & Hac).
    destruct (tsp_exact Hwf Hnn Htw Hac Hroot Hperm Hord Hv Hne) as (dv & Hl & Hmin).
    rewrite Hl.
    destruct (HC18 K E V g r pops d p Hdom Hdij v Hv) as (Hreach & _).
    assert (Hr : reach g r v).
    { destruct Hmin as [[pw Hw] _]. exists pw, dv. exact Hw. }
    destruct (Hreach Hr) as (dv' & Hl' & Hmin').
    rewrite Hl'. f_equal. eapply min_dist_unique; eassumption.
  Qed.
End C20d.

(* C01LabelsWalk.v -- the value invariant of reachTarget (model: [reach]).
   Part 1: the nested loops of [reach] restated as top-level functions. *)
From ArgMapper Require Import Base Graph GraphAlg GraphSpec Types Args Resolver ResolverSpec CheckResolver Monitors ResolverStatements.
From ArgMapper.proofs Require Import C19RefineMap C18DijkstraLemmas C20aDfs C01LabelsDefs C01LabelsBase.
From Coq Require Import List ZArith Lia Relations.
Import ListNotations.
Set Implicit Arguments.
Local Open Scope Z_scope.

Section Restate.
  Variables (u : universe) (bh : behaviour) (g : rgraph).
  Notation RT := (res (rstate * (argmap + rerr))).
  Variable rec : vkey -> rstate -> RT.

  Fixpoint walkF (prev : option vkey) (vs : list vkey) (final : option value) (s : rstate)
    : res (rstate * (option value + rerr)) :=
    match vs with
    | [] => Ok (s, inl final)
    | v :: vs =>
      match v with
      | KRoot => walkF (Some v) vs final s
      | KVal _ _ _ =>
          let s := match prev with
                   | Some (KOut t st) => set_val s v (lookup (KOut t st) (s_vals s))
                   | Some (KVal n2 t2 s2) =>
                       match lookup (KVal n2 t2 s2) (s_vals s) with
                       | Some x => set_val s v (Some x)
                       | None => s
                       end
                   | _ => s end in
          let cur := lookup v (s_vals s) in
          let s := set_last s cur in
          walkF (Some v) vs (match cur with Some x => Some x | None => final end) s
      | KArg t _ =>
          let s := match s_last s with
                   | Some x => if assignable u (v_ty x) t then set_val s v (Some x) else s
                   | None => s end in
          walkF (Some v) vs (lookup v (s_vals s)) s
      | KOut _ _ =>
          let s := match prev with
                   | Some (KOut t st) => set_val s v (lookup (KOut t st) (s_vals s))
                   | _ => s end in
          let s := set_last s (lookup v (s_vals s)) in
          walkF (Some v) vs final s
      | KFunc _ =>
          match g_vertex g v with
          | Some (PFunc f) =>
              do (s, r) <- rec v s;
              match r with
              | inr e => Ok (s, inr e)
              | inl fam =>
                  do (res, s) <- call_direct u bh false f fam s;
                  if r_builderr res then Ok (s, inr XMissing)
                  else match r_err res with
                       | Some e => Ok (s, inr (XConv e))
                       | None =>
                           do (ins, t') <- take_perm SITE_REACH_IN (g_in_keys g v) (s_tape s);
                           do s <- output_values f res ins (set_tape s t');
                           walkF (Some v) vs final s
                       end
              end
          | _ => Panic 403%N
          end
      end
    end.

  Variable leave : rstate -> rstate.
  Fixpoint walk_pathsF (paths : list (list vkey)) (am : argmap) (s : rstate) : RT :=
    match paths with
    | [] => Ok (leave s, inl am)
    | path :: rest =>
      bind (walkF None path None s)
           (fun sr =>
              let '(s, r) := sr in
              match r with
              | inr e => Ok (leave s, inr e)
              | inl None => Panic 404%N
              | inl (Some fv) => walk_pathsF rest (insert (last path KRoot) fv am) s
              end)
    end.

  Definition req_step (s : rstate) (acc : argmap * list vkey) (o : vkey) : argmap * list vkey :=
    let '(am, todo) := acc in
    match o with
    | KRoot => (am, todo)
    | KArg _ _ => match lookup o (s_vals s) with
                  | Some v => (insert o v am, todo)
                  | None => (am, todo ++ [o])
                  end
    | KVal _ _ _ => match lookup o (s_vals s) with
                    | Some v => (insert o v am, todo)
                    | None => (am, todo ++ [o])
                    end
    | _ => (am, todo ++ [o])
    end.

  Definition plan_step (acc : res (list (list vkey) * list vkey * rstate)) (cur : vkey)
    : res (list (list vkey) * list vkey * rstate) :=
    do (paths, unsat, s) <- acc;
    do (path, bad, s) <- plan g false cur s;
    Ok (paths ++ [path], (if (bad : bool) then unsat ++ [cur] else unsat), s).

End Restate.

Section Restate2.
  Variables (u : universe) (bh : behaviour) (g : rgraph).
  Notation RT := (res (rstate * (argmap + rerr))).
  Variable rec : vkey -> rstate -> RT.
  Definition reach_body (target : vkey) (s : rstate) : RT :=
    let s := set_inprog s (target :: s_inprog s) in
    let leave (s : rstate) := set_inprog s (remove1 target (s_inprog s)) in
    do (outs, t') <- take_perm SITE_REACH_OUT (g_out_keys g target) (s_tape s);
    let s := set_tape s t' in
    let '(am, todo) := fold_left (req_step s) outs (([] : argmap), ([] : list vkey)) in
    match todo with
    | [] => Ok (leave s, inl am)
    | _ =>
      do (paths, unsat, s) <- fold_left (plan_step g) todo (Ok ([], [], s));
      match unsat with
      | _ :: _ => Ok (leave s, inr (XUnsat unsat [] [] false))
      | [] => walk_pathsF u bh g rec leave paths am s
      end
    end.
End Restate2.

Lemma reach_S u bh g n target s :
  reach u bh g false (S n) target s = reach_body u bh g (reach u bh g false n) target s.
Proof. reflexivity. Qed.

Lemma reach_O u bh g target s : reach u bh g false O target s = OutOfFuel.
Proof. reflexivity. Qed.

(* ================= Part 2: vocabulary of the invariant ================= *)
(* a path whose first vertex is the root and whose consecutive vertices are
   linked by edges of g (each vertex depends on its predecessor) *)
Inductive lpath (g : rgraph) : option vkey -> list vkey -> Prop :=
| lp_nil p : lpath g p []
| lp_first vs : lpath g (Some KRoot) vs -> lpath g None (KRoot :: vs)
| lp_cons p v vs : In v (g_in_keys g p) -> lpath g (Some v) vs -> lpath g (Some p) (v :: vs).

Definition same_core (s s' : rstate) : Prop :=
  s_vals s' = s_vals s /\ s_world s' = s_world s /\ s_trace s' = s_trace s /\ s_nexec s' = s_nexec s.

Definition in_ok (k : vkey) (v : value) : Prop :=
  match k with KVal _ t _ | KOut t _ => t = v_ty v | _ => False end.

Definition vk (k : vkey) : bool := match k with KVal _ _ _ | KArg _ _ => true | _ => false end.

Section Inv.
  Variables (u : universe) (bh : behaviour) (g : rgraph) (b : builder) (fs : list fdecl) (earlier : list event).
  (* FS: all functions the memo table may hold results of (a superset of fs) *)
  Variable FS : list fdecl.
  Hypothesis Hfs : wf_funcs fs = true.
  Hypothesis HFS : wf_funcs FS = true.
  Hypothesis Hincl : forall f, In f fs -> In f FS.
  Hypothesis Hwv : wf_values b = true.
  Hypothesis Hin : forall k v, In (k, v) (input_vertices b) -> in_ok k v.
  Hypothesis Hg : ginv u b fs g.
  Hypothesis Hout : forall f, In f fs -> Z.of_nat (length (fn_out f)) < 1000.
  Hypothesis Hacy : impl_acyclic u.
  Hypothesis Hplan : forall target cur s path bad s',
      In cur (g_out_keys g target) -> cur <> KRoot ->
      plan g false cur s = Ok (path, bad, s') -> lpath g None path /\ same_core s s'.

  (* ---------- labels that may sit on a vertex ---------- *)
  Definition hop (L : label) (t : ty) : Prop :=
    l_name L = EmptyString /\ clos_trans ty (strict_impl u) (l_ty L) t.
  Definition sub_ok (a s : string) : Prop := a = EmptyString \/ s = EmptyString \/ a = s.
  Definition flows (L : label) (k : vkey) : Prop :=
    match k with
    | KOut t s => L = mkL EmptyString t s \/ hop L t
    | KVal n t s => (l_ty L = t /\ (l_name L = EmptyString \/ l_name L = n) /\ sub_ok (l_sub L) s) \/ hop L t
    | KArg t s => (l_ty L = t /\ sub_ok (l_sub L) s) \/ hop L t
    | _ => True
    end.

  Definition src_of (tr : list event) (id : Z) (L : label) (T : ty) : Prop :=
    supplied_source b id = Some (L, T) \/ In (L, T) (produced_source fs (earlier ++ tr) id).
  Definition good (tr : list event) (k : vkey) (v : value) : Prop :=
    exists L, src_of tr (v_id v) L (v_ty v) /\ l_ty L = v_ty v /\ flows L k.

  Lemma src_of_mono tr e id L T : src_of tr id L T -> src_of (tr ++ e) id L T.
  Proof.
    intros [A|A]; [left; exact A|right]. rewrite app_assoc. apply produced_source_mono. exact A.
  Qed.

  Lemma good_mono tr e k v : good tr k v -> good (tr ++ e) k v.
  Proof. intros (L & A & B & C). exists L. split; [apply src_of_mono; exact A|auto]. Qed.

  Lemma flows_T1 L n t s : flows L (KOut t EmptyString) -> flows L (KVal n t s).
  Proof.
    simpl. intros [A|A]; [left|right; exact A]. subst L. simpl. unfold sub_ok. auto.
  Qed.

  Lemma flows_T2 L t' s' t s : flows L (KOut t' s') -> strict_impl u t' t -> flows L (KOut t s).
  Proof.
    simpl. intros [A|[A1 A2]] S; right.
    - subst L. split; [reflexivity|]. simpl. apply t_step. exact S.
    - split; [exact A1|]. eapply t_trans; [exact A2|]. apply t_step. exact S.
  Qed.

  Lemma flows_T3a L n t s s' : flows L (KVal n t s) -> (s' = EmptyString \/ s' = s) -> flows L (KArg t s').
  Proof.
    simpl. intros [(A1 & A2 & A3)|A] S; [left|right; exact A]. split; [exact A1|].
    unfold sub_ok in *. destruct S as [S|S]; subst; auto.
  Qed.

  Lemma flows_T3b L t s s' : flows L (KOut t s) -> (s' = s \/ s = EmptyString \/ s' = EmptyString) -> flows L (KArg t s').
  Proof.
    simpl. intros [A|A] S; [left|right; exact A]. subst L. simpl. split; [reflexivity|].
    unfold sub_ok. destruct S as [S|[S|S]]; subst; auto.
  Qed.

  Lemma flows_T4 L n t s : flows L (KVal n t s) -> flows L (KVal n t EmptyString).
  Proof.
    simpl. intros [(A1 & A2 & A3)|A]; [left|right; exact A]. unfold sub_ok. auto.
  Qed.

  Lemma good_T1 tr n t s x : good tr (KOut t EmptyString) x -> good tr (KVal n t s) x.
  Proof. intros (L & A & B & C). exists L. split; [exact A|]. split; [exact B|]. apply flows_T1; exact C. Qed.
  Lemma good_T2 tr t' s' t s x : good tr (KOut t' s') x -> strict_impl u t' t -> good tr (KOut t s) x.
  Proof. intros (L & A & B & C) S. exists L. split; [exact A|]. split; [exact B|]. eapply flows_T2; eauto. Qed.
  Lemma good_T3a tr n t s s' x : good tr (KVal n t s) x -> (s' = EmptyString \/ s' = s) -> good tr (KArg t s') x.
  Proof. intros (L & A & B & C) S. exists L. split; [exact A|]. split; [exact B|]. eapply flows_T3a; eauto. Qed.
  Lemma good_T3b tr t s s' x : good tr (KOut t s) x -> (s' = s \/ s = EmptyString \/ s' = EmptyString) -> good tr (KArg t s') x.
  Proof. intros (L & A & B & C) S. exists L. split; [exact A|]. split; [exact B|]. eapply flows_T3b; eauto. Qed.
  Lemma good_T4 tr n t s x : good tr (KVal n t s) x -> good tr (KVal n t EmptyString) x.
  Proof. intros (L & A & B & C). exists L. split; [exact A|]. split; [exact B|]. eapply flows_T4; eauto. Qed.

  (* ---------- from the vertex invariant to the matching table ---------- *)
  Lemma flows_compat L fld :
    flows L (field_key fld) -> assignable u (l_ty L) (f_ty fld) = true ->
    compat u L (label_of_field fld) = true.
  Proof.
    intros F A. unfold compat, label_of_field. cbn [l_name l_ty l_sub].
    assert (HOP : hop L (f_ty fld) ->
                  (is_empty (l_name L) || is_empty (f_name fld) || Base.eqb (l_name L) (f_name fld)) &&
                  (if l_ty L =? f_ty fld
                   then Base.eqb (l_sub L) (f_sub fld) || is_empty (l_sub L) || is_empty (f_sub fld)
                   else implements u (l_ty L) (f_ty fld)) = true).
    { intros [H1 H2]. apply andb_true_iff. split.
      - rewrite (proj2 (is_empty_true _) H1). reflexivity.
      - destruct (l_ty L =? f_ty fld) eqn:Q.
        + apply Z.eqb_eq in Q. rewrite Q in H2. exfalso. exact (Hacy H2).
        + unfold assignable in A. rewrite Q in A. simpl in A. exact A. }
    assert (SUB : l_ty L = f_ty fld -> sub_ok (l_sub L) (f_sub fld) ->
                  (if l_ty L =? f_ty fld
                   then Base.eqb (l_sub L) (f_sub fld) || is_empty (l_sub L) || is_empty (f_sub fld)
                   else implements u (l_ty L) (f_ty fld)) = true).
    { intros Q S. rewrite Q, Z.eqb_refl. destruct S as [S|[S|S]].
      - rewrite (proj2 (is_empty_true _) S). rewrite orb_true_r. reflexivity.
      - rewrite (proj2 (is_empty_true _) S). rewrite orb_true_r. reflexivity.
      - rewrite (proj2 (str_eqb_eq _ _) S). reflexivity. }
    unfold field_key in F. destruct (String.eqb (f_name fld) "") eqn:N.
    - apply String.eqb_eq in N. simpl in F. destruct F as [[F1 F2]|F]; [|apply HOP; exact F].
      apply andb_true_iff. split; [|apply SUB; assumption].
      rewrite (proj2 (is_empty_true (f_name fld)) N). rewrite orb_true_r. reflexivity.
    - simpl in F. destruct F as [(F1 & F2 & F3)|F]; [|apply HOP; exact F].
      apply andb_true_iff. split; [|apply SUB; assumption].
      destruct F2 as [F2|F2].
      + rewrite (proj2 (is_empty_true _) F2). reflexivity.
      + rewrite (proj2 (str_eqb_eq _ _) F2). rewrite orb_true_r. reflexivity.
  Qed.

  Lemma good_arg_ok tr fld v fld' a :
    good tr (field_key fld) v -> assignable u (v_ty v) (f_ty fld) = true ->
    label_of_field fld' = label_of_field fld -> v_id a = v_id v ->
    arg_ok u b fs (earlier ++ tr) fld' a = true.
  Proof.
    intros (L & S & T & F) A E I. unfold arg_ok.
    assert (FT : f_ty fld' = f_ty fld).
    { unfold label_of_field in E. inversion E. reflexivity. }
    rewrite E, FT, I.
    assert (C : compat u L (label_of_field fld) && assignable u (v_ty v) (f_ty fld) = true).
    { apply andb_true_iff. split; [|exact A]. apply flows_compat; [exact F|]. rewrite T. exact A. }
    destruct S as [S|S].
    - rewrite S. rewrite C. reflexivity.
    - apply orb_true_iff. right. apply existsb_exists. exists (L, v_ty v). split; [exact S|exact C].
  Qed.

  (* ================= Part 3: the state invariant ================= *)
  Record InvC (vals : amap vkey value) (world : amap Z result) (tr : list event) (nexec : Z) : Prop := {
    i_ev : c01_events u b fs earlier tr = true;
    i_vals : forall k v, lookup k vals = Some v -> good tr k v;
    i_world : forall fid r, lookup fid world = Some r ->
                r_builderr r = false /\ exists args, In (EExec fid args (r_fields r) (r_err r)) (earlier ++ tr);
    i_typed : forall fid r f, lookup fid world = Some r -> In f FS -> fn_id f = fid ->
                map v_ty (r_fields r) = map f_ty (fn_out f);
    i_ids : forall fid args outs err v, In (EExec fid args outs err) (earlier ++ tr) -> In v outs ->
                v_id v < 1000 * (nexec + 1);
    i_nexec : 0 <= nexec;
    i_inputs : forall k, In k (map fst (input_vertices b)) -> mem k vals = true }.
  Definition Inv (s : rstate) : Prop := InvC (s_vals s) (s_world s) (s_trace s) (s_nexec s).
  Definition ext (s s' : rstate) : Prop := exists e, s_trace s' = s_trace s ++ e.

  Lemma ext_refl s : ext s s.
  Proof. exists []. rewrite app_nil_r. reflexivity. Qed.
  Lemma ext_trans s1 s2 s3 : ext s1 s2 -> ext s2 s3 -> ext s1 s3.
  Proof. intros [e1 E1] [e2 E2]. exists (e1 ++ e2). rewrite E2, E1, app_assoc. reflexivity. Qed.
  Lemma ext_eq s s' : s_trace s' = s_trace s -> ext s s'.
  Proof. intros Q. exists []. rewrite app_nil_r. exact Q. Qed.
  Lemma good_ext s s' k v : ext s s' -> good (s_trace s) k v -> good (s_trace s') k v.
  Proof. intros [e E] G. rewrite E. apply good_mono. exact G. Qed.

  Lemma Inv_core s s' : same_core s s' -> Inv s -> Inv s'.
  Proof. intros (A & B & C & D) I. unfold Inv. rewrite A, B, C, D. exact I. Qed.

  Lemma mem_lookup {T} (k : vkey) (m : amap vkey T) : mem k m = true -> exists x, lookup k m = Some x.
  Proof. unfold mem. destruct (lookup k m) as [x|]; [eauto|discriminate]. Qed.
  Lemma lookup_mem {T} (k : vkey) (m : amap vkey T) x : lookup k m = Some x -> mem k m = true.
  Proof. unfold mem. intros ->. reflexivity. Qed.
  Lemma mem_insert_mono {T} (k k' : vkey) (x : T) m : mem k' m = true -> mem k' (insert k x m) = true.
  Proof.
    unfold mem. rewrite lookup_insert. destruct (Base.eqb k' k); [reflexivity|auto].
  Qed.
  Lemma mem_insert_same {T} (k : vkey) (x : T) m : mem k (insert k x m) = true.
  Proof. unfold mem. rewrite lookup_insert, Base.eqb_refl. reflexivity. Qed.

  Lemma Inv_set_val s k v : Inv s -> good (s_trace s) k v -> Inv (set_val s k (Some v)).
  Proof.
    intros I G. destruct I as [I1 I2 I3 I4 I5 I6 I7]. unfold Inv. cbn.
    constructor; auto.
    - intros k' v'. rewrite lookup_insert. destruct (Base.eqb_spec k' k) as [->|N].
      + intros Q. inversion Q; subst. exact G.
      + apply I2.
    - intros k' A. apply mem_insert_mono. apply I7. exact A.
  Qed.

  (* edges of g in terms of the rules *)
  Lemma in_keys_erule v p : In v (g_in_keys g p) -> erule u b fs v p.
  Proof.
    intros A. unfold g_in_keys in A. apply keys_lookup in A. destruct A as [w A].
    apply (wf_mirror (gi_wf Hg)) in A. apply (gi_edge Hg) in A. exact (proj1 A).
  Qed.

  Lemma in_key_shape k : In k (map fst (input_vertices b)) -> exists v, In (k, v) (input_vertices b).
  Proof.
    intros A. apply in_map_iff in A. destruct A as ([k' v] & Q & A). simpl in Q. subst. eauto.
  Qed.

  (* ---------- results of executions ---------- *)
  Definition outs_good (tr : list event) (f : fdecl) (res : result) : Prop :=
    length (r_fields res) = length (fn_out f) /\
    forall i fld v, nth_error (fn_out f) i = Some fld -> nth_error (r_fields res) i = Some v ->
                    v_ty v = f_ty fld /\ src_of tr (v_id v) (label_of_field fld) (v_ty v).

  Lemma nth_error_combine_seq {T} (l : list T) : forall a i x,
    nth_error l i = Some x -> nth_error (combine (seq a (length l)) l) i = Some ((a + i)%nat, x).
  Proof.
    induction l as [|y l IH]; intros a i x N; destruct i as [|i]; simpl in *; try discriminate.
    - inversion N; subst. rewrite Nat.add_0_r. reflexivity.
    - rewrite (IH (S a) i x N). f_equal. f_equal. lia.
  Qed.

  Lemma fresh_outs_nth f n i fld v :
    nth_error (fn_out f) i = Some fld -> nth_error (fresh_outs f n) i = Some v ->
    v = mkV (1000 * n + Z.of_nat i + 1) (f_ty fld).
  Proof.
    intros N1 N2. unfold fresh_outs in N2. rewrite nth_error_map in N2.
    rewrite (@nth_error_combine_seq _ _ O _ _ N1) in N2. simpl in N2. inversion N2. reflexivity.
  Qed.

  Lemma fresh_outs_length f n : length (fresh_outs f n) = length (fn_out f).
  Proof. unfold fresh_outs. rewrite map_length, combine_length, seq_length. lia. Qed.

  Lemma zero_outs_nth f i fld v :
    nth_error (fn_out f) i = Some fld -> nth_error (zero_outs f) i = Some v -> v = mkV 0 (f_ty fld).
  Proof.
    intros N1 N2. unfold zero_outs in N2. rewrite nth_error_map, N1 in N2. simpl in N2. inversion N2. reflexivity.
  Qed.

  Lemma zero_outs_length f : length (zero_outs f) = length (fn_out f).
  Proof. unfold zero_outs. apply map_length. Qed.

  (* the outputs recorded in an event of f are attributable to that event *)
  Lemma event_outs_good tr f args outs err :
    In f fs -> In (EExec (fn_id f) args outs err) (earlier ++ tr) ->
    map v_ty outs = map f_ty (fn_out f) ->
    outs_good tr f (mkR outs err false).
  Proof.
    intros Hf A T. split.
    - simpl. apply (f_equal (@length _)) in T. rewrite !map_length in T. exact T.
    - intros i fld v N1 N2. simpl in N2.
      assert (TY : v_ty v = f_ty fld).
      { apply (f_equal (fun l => nth_error l i)) in T. rewrite !nth_error_map, N1, N2 in T.
        simpl in T. inversion T. reflexivity. }
      split; [exact TY|]. right.
      destruct (find_fn_some fs f Hf) as (d & F & Hd & Id).
      pose proof (wf_funcs_id fs f d Hfs Hf Hd (eq_sym Id)) as SS.
      apply same_sig_spec in SS. destruct SS as [_ SO].
      destruct (sig_nth _ _ _ SO N1) as (fd & N3 & FE).
      pose proof (produced_In fs _ _ _ _ _ _ A F N3 N2) as P.
      rewrite (feq_label FE) in P. destruct FE as (_ & FE2 & _). rewrite FE2, <- TY in P. exact P.
  Qed.

  (* ---------- callDirect ---------- *)
  Definition am_good (tr : list event) (am : argmap) : Prop :=
    forall k v, lookup k am = Some v -> vk k = true -> good tr k v.

  Lemma am_good_ext s s' am : ext s s' -> am_good (s_trace s) am -> am_good (s_trace s') am.
  Proof. intros E G k v Q V. eapply good_ext; eauto. Qed.

  Lemma vk_field_key fld : vk (field_key fld) = true.
  Proof. unfold field_key. destruct (String.eqb (f_name fld) ""); reflexivity. Qed.

  Lemma label_inj x y : label_of_field y = label_of_field x -> f_ty y = f_ty x.
  Proof. unfold label_of_field. intros Q. inversion Q. reflexivity. Qed.

  Lemma argv_ok tr (am : argmap) : forall (l ld : list field),
    am_good tr am ->
    map label_of_field ld = map label_of_field l ->
    existsb (fun a : field * option value =>
               match snd a with Some v => negb (assignable u (v_ty v) (f_ty (fst a))) | None => false end)
            (map (fun fld => (fld, lookup (field_key fld) am)) l) = false ->
    existsb (fun a : field * option value => match snd a with None => true | Some _ => false end)
            (map (fun fld => (fld, lookup (field_key fld) am)) l) = false ->
    let argv := flat_map (fun a : field * option value =>
                            match snd a with Some v => [mkV (v_id v) (f_ty (fst a))] | None => [] end)
                         (map (fun fld => (fld, lookup (field_key fld) am)) l) in
    length argv = length ld /\
    forallb (fun fa => arg_ok u b fs (earlier ++ tr) (fst fa) (snd fa)) (combine ld argv) = true.
  Proof.
    induction l as [|x l IH]; intros [|y ld] G M E1 E2; simpl in M; try discriminate.
    - simpl. auto.
    - pose proof (f_equal (hd (label_of_field x)) M) as M1. cbn [hd] in M1.
      pose proof (f_equal (@tl _) M) as M2. cbn [tl] in M2. simpl in E1, E2.
      apply orb_false_iff in E1. destruct E1 as [E1 E1'].
      apply orb_false_iff in E2. destruct E2 as [E2 E2'].
      specialize (IH ld G M2 E1' E2'). destruct IH as [IH1 IH2].
      destruct (lookup (field_key x) am) as [v|] eqn:Q; [|discriminate].
      apply negb_false_iff in E1. cbn [map flat_map snd fst app].
      rewrite Q. cbn [app length combine forallb fst snd].
      split; [f_equal; exact IH1|].
      apply andb_true_iff. split; [|exact IH2].
      apply good_arg_ok with (fld := x) (v := v); auto.
      apply G; [exact Q|apply vk_field_key].
  Qed.

  Lemma map_snd_combine_seq {T} (l : list T) a : map snd (combine (seq a (length l)) l) = l.
  Proof. revert a. induction l as [|x l IH]; intros a; simpl; [reflexivity|]. rewrite IH. reflexivity. Qed.

  Lemma fresh_outs_ty f n : map v_ty (fresh_outs f n) = map f_ty (fn_out f).
  Proof.
    unfold fresh_outs. rewrite map_map. cbn [v_ty].
    rewrite <- (map_map snd f_ty). rewrite map_snd_combine_seq. reflexivity.
  Qed.

  Lemma zero_outs_ty f : map v_ty (zero_outs f) = map f_ty (fn_out f).
  Proof. unfold zero_outs. rewrite map_map. reflexivity. Qed.

  Lemma fresh_outs_id f n v : In f fs -> In v (fresh_outs f n) -> v_id v < 1000 * (n + 1).
  Proof.
    intros Hf A. unfold fresh_outs in A. apply in_map_iff in A. destruct A as ([i fld] & Q & A).
    subst v. cbn [v_id fst]. apply in_combine_l in A. apply in_seq in A.
    pose proof (Hout f Hf). lia.
  Qed.

  Lemma zero_outs_id f v : In v (zero_outs f) -> v_id v = 0.
  Proof. unfold zero_outs. intros A. apply in_map_iff in A. destruct A as (fld & Q & _). subst. reflexivity. Qed.

  Lemma in_app_mid {T} (x : T) l1 l2 l3 : In x (l1 ++ l2) -> In x (l1 ++ l2 ++ l3).
  Proof. intros A. rewrite app_assoc. apply in_or_app. left. exact A. Qed.

  Lemma exec_inv f s outs err argv :
    Inv s -> In f fs ->
    c01_events u b fs (earlier ++ s_trace s) [EExec (fn_id f) argv outs err] = true ->
    (outs = fresh_outs f (s_nexec s + 1) \/ outs = zero_outs f) ->
    let n := s_nexec s + 1 in
    let r := mkR outs err false in
    let w := if fn_once f then insert (fn_id f) r (s_world s) else s_world s in
    let s' := mkS (s_vals s) (s_last s) (s_inputs s) (s_inprog s) w
                  (s_trace s ++ [EExec (fn_id f) argv outs err]) n (s_tape s) in
    Inv s' /\ outs_good (s_trace s') f r.
  Proof.
    intros I Hf EV OU n r w s'.
    assert (TY : map v_ty outs = map f_ty (fn_out f)).
    { destruct OU as [->| ->]; [apply fresh_outs_ty|apply zero_outs_ty]. }
    assert (N0 : 0 <= s_nexec s) by apply (i_nexec I).
    assert (ID : forall v, In v outs -> v_id v < 1000 * (n + 1)).
    { intros v A. destruct OU as [->| ->].
      - apply fresh_outs_id with (f := f); auto.
      - rewrite (zero_outs_id _ _ A). unfold n. lia. }
    assert (INE : In (EExec (fn_id f) argv outs err) (earlier ++ s_trace s')).
    { unfold s'. cbn [s_trace]. apply in_or_app. right. apply in_or_app. right. left. reflexivity. }
    split.
    - unfold Inv, s'. cbn [s_vals s_world s_trace s_nexec]. constructor.
      + rewrite c01_events_app. rewrite (i_ev I). exact EV.
      + intros k v Q. apply good_mono. apply (i_vals I). exact Q.
      + intros fid r0 Q. unfold w in Q.
        assert (OLD : lookup fid (s_world s) = Some r0 ->
                      r_builderr r0 = false /\
                      exists args, In (EExec fid args (r_fields r0) (r_err r0))
                                      (earlier ++ s_trace s ++ [EExec (fn_id f) argv outs err])).
        { intros Q0. destruct (i_world I _ Q0) as [B [args A]]. split; [exact B|].
          exists args. apply in_app_mid. exact A. }
        destruct (fn_once f); [|apply OLD; exact Q].
        rewrite lookup_insert in Q. destruct (Base.eqb_spec fid (fn_id f)) as [->|N]; [|apply OLD; exact Q].
        inversion Q; subst r0. split; [reflexivity|]. exists argv. exact INE.
      + intros fid r0 f0 Q Hf0 Id0. unfold w in Q.
        destruct (fn_once f); [|eapply (i_typed I); eauto].
        rewrite lookup_insert in Q. destruct (Base.eqb_spec fid (fn_id f)) as [E|N]; [|eapply (i_typed I); eauto].
        inversion Q; subst r0. unfold r. cbn [r_fields]. rewrite TY.
        assert (SS : same_sig f f0 = true).
        { apply wf_funcs_id with (fs := FS); auto. congruence. }
        apply same_sig_spec in SS. destruct SS as [_ SO]. apply sig_map_ty. exact SO.
      + intros fid args outs0 err0 v A B.
        rewrite app_assoc in A. apply in_app_or in A. destruct A as [A|[A|[]]].
        * pose proof (i_ids I _ _ _ _ _ A B). unfold n. lia.
        * inversion A; subst. apply ID. exact B.
      + unfold n. lia.
      + apply (i_inputs I).
    - apply event_outs_good with (args := argv); auto.
  Qed.

  Lemma call_direct_inv f am s res s' :
    Inv s -> In f fs -> am_good (s_trace s) am ->
    call_direct u bh false f am s = Ok (res, s') ->
    Inv s' /\ ext s s' /\ s_vals s' = s_vals s /\ (r_builderr res = false -> outs_good (s_trace s') f res).
  Proof.
    intros I Hf G C. unfold call_direct in C.
    destruct (if fn_once f then lookup (fn_id f) (s_world s) else None) as [r|] eqn:W.
    - inversion C; subst res s'. split; [exact I|]. split; [apply ext_refl|]. split; [reflexivity|].
      intros _. destruct (fn_once f); [|discriminate].
      destruct (i_world I _ W) as [B [args A]].
      pose proof (i_typed I _ W (Hincl _ Hf) eq_refl) as T.
      destruct r as [rf re rb]. cbn [r_builderr r_fields r_err] in *. subst rb.
      apply event_outs_good with (args := args); auto.
    - match type of C with
      | (if existsb ?p ?l then _ else _) = _ => destruct (existsb p l) eqn:E1; [discriminate|]
      end.
      match type of C with
      | (if existsb ?p ?l then _ else _) = _ => destruct (existsb p l) eqn:E2
      end.
      + inversion C; subst res s'. split; [exact I|]. split; [apply ext_refl|]. split; [reflexivity|].
        cbn [r_builderr]. discriminate.
      + destruct (find_fn_some fs f Hf) as (d & F & Hd & Id).
        pose proof (wf_funcs_id fs f d Hfs Hf Hd (eq_sym Id)) as SS.
        apply same_sig_spec in SS. destruct SS as [SI _].
        pose proof (@argv_ok (s_trace s) am (fn_in f) (fn_in d) G (eq_sym (sig_map_label _ _ SI)) E1 E2) as [AL AO].
        match type of AL with length ?a = _ => set (argv := a) in * end.
        assert (EV : forall outs err, c01_events u b fs (earlier ++ s_trace s) [EExec (fn_id f) argv outs err] = true).
        { intros outs err. cbn [c01_events]. rewrite F. rewrite AL, Nat.eqb_refl. cbn [andb]. rewrite AO. reflexivity. }
        destruct (bh (fn_id f) (s_nexec s + 1)) as [|e|]; cbn beta iota in C; inversion C; subst res.
        * match goal with
          | |- Inv ?st /\ _ => 
              destruct (@exec_inv f s (fresh_outs f (s_nexec s + 1)) (if fn_err f then None else None) argv I Hf (EV _ _) (or_introl eq_refl)) as [X1 X2]
          end.
          split; [exact X1|]. split; [eexists; reflexivity|]. split; [reflexivity|]. intros _. exact X2.
        * destruct (@exec_inv f s (zero_outs f) (if fn_err f then Some e else None) argv I Hf (EV _ _) (or_intror eq_refl)) as [X1 X2].
          split; [exact X1|]. split; [eexists; reflexivity|]. split; [reflexivity|]. intros _. exact X2.
        * destruct (@exec_inv f s (zero_outs f) (if fn_err f then None else None) argv I Hf (EV _ _) (or_intror eq_refl)) as [X1 X2].
          split; [exact X1|]. split; [eexists; reflexivity|]. split; [reflexivity|]. intros _. exact X2.
  Qed.

  (* ---------- outputValues ---------- *)
  Definition ov_step (f : fdecl) (r : result) (acc : res rstate) (k : vkey) : res rstate :=
    do s <- acc;
    match k with
    | KVal n _ _ => match last_named n (fn_out f) 0 None with
                    | Some (i, _) => Ok (set_val s k (nth_error (r_fields r) i))
                    | None => Panic 401%N
                    end
    | KOut t _ => match last_typed t (fn_out f) 0 None with
                  | Some (i, _) => Ok (set_val s k (nth_error (r_fields r) i))
                  | None => Panic 402%N
                  end
    | _ => Ok s
    end.

  Lemma output_values_fold f r ins s : output_values f r ins s = fold_left (ov_step f r) ins (Ok s).
  Proof. reflexivity. Qed.

  Lemma ov_fold_ok f r : forall ins acc s', fold_left (ov_step f r) ins acc = Ok s' -> exists s0, acc = Ok s0.
  Proof.
    induction ins as [|k ins IH]; intros acc s' Q; simpl in Q.
    - eauto.
    - apply IH in Q. destruct Q as [s1 Q]. destruct acc as [s0| | |]; simpl in Q; try discriminate. eauto.
  Qed.

  Lemma out_key_payload ft f k :
    In f fs -> fn_type f = ft -> In k (g_in_keys g (KFunc ft)) -> out_key_of f k.
  Proof.
    intros Hf T A. apply in_keys_erule in A. simpl in A. destruct A as (f' & Hf' & T' & O).
    apply out_key_of_sig with (f' := f'); [|exact O].
    assert (SS : same_sig f' f = true) by (apply wf_funcs_type with (fs := fs); auto; congruence).
    apply same_sig_spec in SS. exact (proj2 SS).
  Qed.

  Lemma nth_error_len {T} (l : list T) i : (i < length l)%nat -> exists x, nth_error l i = Some x.
  Proof.
    intros Lt. destruct (nth_error l i) as [x|] eqn:Q; [eauto|]. apply nth_error_None in Q. lia.
  Qed.

  Lemma ov_step_inv ft f r k s s1 :
    Inv s -> In f fs -> fn_type f = ft -> outs_good (s_trace s) f r ->
    In k (g_in_keys g (KFunc ft)) ->
    ov_step f r (Ok s) k = Ok s1 ->
    Inv s1 /\ s_trace s1 = s_trace s /\
    (forall k', mem k' (s_vals s) = true -> mem k' (s_vals s1) = true) /\
    mem k (s_vals s1) = true.
  Proof.
    intros I Hf T [OL OG] A Q.
    pose proof (@out_key_payload ft f k Hf T A) as O.
    destruct k as [|ft'|n t st|t st|t st]; simpl in O; try contradiction.
    - destruct O as (i & fld & LN & O1 & O2 & O3).
      cbn [ov_step bind] in Q. rewrite LN in Q.
      pose proof (last_named_nth _ _ LN) as N1.
      assert (Lt : (i < length (r_fields r))%nat).
      { rewrite OL. apply nth_error_Some. rewrite N1. discriminate. }
      destruct (nth_error_len _ Lt) as [v N2]. rewrite N2 in Q. inversion Q; subst s1.
      destruct (OG _ _ _ N1 N2) as [TY SR].
      assert (G : good (s_trace s) (KVal n t st) v).
      { exists (label_of_field fld). split; [exact SR|]. split.
        - unfold label_of_field. cbn [l_ty]. congruence.
        - simpl. left. unfold label_of_field. cbn [l_ty l_name l_sub]. unfold sub_ok. auto. }
      split; [apply Inv_set_val; assumption|]. split; [reflexivity|]. split.
      + intros k' M. cbn. apply mem_insert_mono. exact M.
      + cbn. apply mem_insert_same.
    - destruct O as (i & fld & LN & O1 & O2 & O3).
      cbn [ov_step bind] in Q. rewrite LN in Q.
      pose proof (last_typed_nth _ _ LN) as N1.
      assert (Lt : (i < length (r_fields r))%nat).
      { rewrite OL. apply nth_error_Some. rewrite N1. discriminate. }
      destruct (nth_error_len _ Lt) as [v N2]. rewrite N2 in Q. inversion Q; subst s1.
      destruct (OG _ _ _ N1 N2) as [TY SR].
      assert (G : good (s_trace s) (KOut t st) v).
      { exists (label_of_field fld). split; [exact SR|]. split.
        - unfold label_of_field. cbn [l_ty]. congruence.
        - simpl. left. unfold label_of_field. rewrite O1, O2, O3. reflexivity. }
      split; [apply Inv_set_val; assumption|]. split; [reflexivity|]. split.
      + intros k' M. cbn. apply mem_insert_mono. exact M.
      + cbn. apply mem_insert_same.
  Qed.

  Lemma output_values_inv ft f r : forall ins s s',
    Inv s -> In f fs -> fn_type f = ft -> outs_good (s_trace s) f r ->
    (forall k, In k ins -> In k (g_in_keys g (KFunc ft))) ->
    output_values f r ins s = Ok s' ->
    Inv s' /\ s_trace s' = s_trace s /\
    (forall k, mem k (s_vals s) = true -> mem k (s_vals s') = true) /\
    (forall k, In k ins -> mem k (s_vals s') = true).
  Proof.
    intros ins s s' I Hf T OG HI Q. rewrite output_values_fold in Q.
    revert s I OG HI Q. induction ins as [|k ins IH]; intros s I OG HI Q.
    - simpl in Q. inversion Q; subst. split; [exact I|]. split; [reflexivity|]. split; [auto|]. intros k [].
    - simpl in Q. destruct (ov_fold_ok _ _ _ _ Q) as [s1 Q1]. rewrite Q1 in Q.
      destruct (@ov_step_inv ft f r k s s1 I Hf T OG (HI k (or_introl eq_refl)) Q1) as (I1 & T1 & M1 & K1).
      assert (OG1 : outs_good (s_trace s1) f r) by (rewrite T1; exact OG).
      destruct (IH s1 I1 OG1 (fun k' A => HI k' (or_intror A)) Q) as (I2 & T2 & M2 & K2).
      split; [exact I2|]. split; [congruence|]. split; [auto|].
      intros k' [<-|A]; auto.
  Qed.

  (* ================= Part 4: walking one path ================= *)
  Definition Wpre (prev : option vkey) (final : option value) (s : rstate) : Prop :=
    match prev with
    | Some (KOut t st) => exists x, lookup (KOut t st) (s_vals s) = Some x /\ s_last s = Some x
    | Some (KVal n t st) => s_last s = lookup (KVal n t st) (s_vals s) /\
                            exists y, final = Some y /\ good (s_trace s) (KVal n t st) y
    | Some (KArg t st) => forall y, final = Some y -> good (s_trace s) (KArg t st) y
    | Some (KFunc ft) => forall k, In k (g_in_keys g (KFunc ft)) -> mem k (s_vals s) = true
    | _ => True
    end.

  Definition linkedp (prev : option vkey) (v : vkey) : Prop :=
    match prev with None => v = KRoot | Some p => In v (g_in_keys g p) end.

  Lemma lpath_inv prev v vs : lpath g prev (v :: vs) -> linkedp prev v /\ lpath g (Some v) vs.
  Proof. intros L. inversion L; subst; simpl; auto. Qed.

  Lemma input_mem s k : Inv s -> In k (map fst (input_vertices b)) -> exists x, lookup k (s_vals s) = Some x.
  Proof. intros I A. apply mem_lookup. apply (i_inputs I). exact A. Qed.

  (* a named value vertex *)
  Definition val_take (prev : option vkey) (v : vkey) (s : rstate) : rstate :=
    match prev with
    | Some (KOut t' st') => set_val s v (lookup (KOut t' st') (s_vals s))
    | Some (KVal n2 t2 s2) =>
        match lookup (KVal n2 t2 s2) (s_vals s) with
        | Some x => set_val s v (Some x)
        | None => s
        end
    | _ => s end.

  Lemma step_val n t st prev final s :
    Inv s -> Wpre prev final s -> linkedp prev (KVal n t st) ->
    let v := KVal n t st in
    let s1 := val_take prev v s in
    let cur := lookup v (s_vals s1) in
    let s2 := set_last s1 cur in
    let final' := match cur with Some x => Some x | None => final end in
    Inv s2 /\ s_trace s2 = s_trace s /\ Wpre (Some v) final' s2.
  Proof.
    intros I WP LK v.
    (* whenever the vertex ends up holding a good value *)
    assert (VALUED : forall s1 x, Inv s1 -> s_trace s1 = s_trace s -> lookup v (s_vals s1) = Some x ->
              let cur := lookup v (s_vals s1) in
              let s2 := set_last s1 cur in
              let final' := match cur with Some x => Some x | None => final end in
              Inv s2 /\ s_trace s2 = s_trace s /\ Wpre (Some v) final' s2).
    { intros s1 x I1 T1 Q. cbv zeta. rewrite Q. split; [exact I1|]. split; [exact T1|].
      unfold v. cbn [Wpre s_last set_last s_vals s_trace]. split; [symmetry; exact Q|].
      exists x. split; [reflexivity|]. apply (i_vals I1). exact Q. }
    assert (TAKE : forall x, good (s_trace s) v x ->
              let s1 := set_val s v (Some x) in
              let cur := lookup v (s_vals s1) in
              let s2 := set_last s1 cur in
              let final' := match cur with Some x => Some x | None => final end in
              Inv s2 /\ s_trace s2 = s_trace s /\ Wpre (Some v) final' s2).
    { intros x G. apply (VALUED (set_val s v (Some x)) x).
      - apply Inv_set_val; assumption.
      - reflexivity.
      - cbn. rewrite lookup_insert, Base.eqb_refl. reflexivity. }
    destruct prev as [p|]; [|simpl in LK; discriminate].
    simpl in LK. pose proof (in_keys_erule _ _ LK) as ER.
    destruct p as [|ft|n' t' st'|t' st'|t' st']; simpl in ER.
    - destruct (@input_mem s _ I ER) as [x Q]. apply (VALUED s x I eq_refl Q).
    - destruct (mem_lookup _ _ (WP _ LK)) as [x Q]. apply (VALUED s x I eq_refl Q).
    - destruct ER as (-> & -> & ->). destruct WP as [WL (y & Fy & Gy)].
      unfold val_take. destruct (lookup (KVal n' t' st') (s_vals s)) as [x0|] eqn:Q0.
      + apply TAKE. unfold v. eapply good_T4. apply (i_vals I). exact Q0.
      + destruct (lookup v (s_vals s)) as [x|] eqn:Q.
        * pose proof (VALUED s x I eq_refl Q) as X. cbv zeta in X. rewrite Q in X. exact X.
        * cbv zeta. try rewrite Q. split; [exact I|]. split; [reflexivity|].
          unfold v. cbn [Wpre s_last set_last s_vals s_trace]. split; [symmetry; exact Q|].
          exists y. split; [exact Fy|]. eapply good_T4. exact Gy.
    - contradiction.
    - destruct ER as [-> ->]. destruct WP as (x & Q & LS).
      unfold val_take. rewrite Q. apply TAKE. unfold v. apply good_T1. apply (i_vals I). exact Q.
  Qed.

  (* a typed argument vertex *)
  Lemma step_arg t st prev final s :
    Inv s -> Wpre prev final s -> linkedp prev (KArg t st) ->
    let v := KArg t st in
    let s1 := match s_last s with
              | Some x => if assignable u (v_ty x) t then set_val s v (Some x) else s
              | None => s end in
    Inv s1 /\ s_trace s1 = s_trace s /\ Wpre (Some v) (lookup v (s_vals s1)) s1.
  Proof.
    intros I WP LK v.
    assert (FIN : forall s1, Inv s1 -> s_trace s1 = s_trace s ->
                  Inv s1 /\ s_trace s1 = s_trace s /\ Wpre (Some v) (lookup v (s_vals s1)) s1).
    { intros s1 I1 T1. split; [exact I1|]. split; [exact T1|].
      unfold v. cbn [Wpre]. intros y Q. apply (i_vals I1). exact Q. }
    assert (LAST : forall x, s_last s = Some x -> good (s_trace s) v x).
    { intros x LS. destruct prev as [p|]; [|simpl in LK; discriminate].
      simpl in LK. pose proof (in_keys_erule _ _ LK) as ER.
      destruct p as [|ft|n' t' st'|t' st'|t' st']; simpl in ER; try contradiction.
      - destruct ER as (f0 & _ & _ & O). simpl in O. contradiction.
      - destruct ER as [-> ER]. destruct WP as [WL _]. rewrite LS in WL. symmetry in WL.
        unfold v. eapply good_T3a; [apply (i_vals I); exact WL|exact ER].
      - destruct ER as [-> ER]. destruct WP as (x0 & Q & LS0). rewrite LS in LS0. inversion LS0; subst x0.
        unfold v. eapply good_T3b; [apply (i_vals I); exact Q|exact ER]. }
    cbv zeta. destruct (s_last s) as [x|] eqn:LS; [|apply FIN; auto].
    destruct (assignable u (v_ty x) t); [|apply FIN; auto].
    apply FIN; [|reflexivity]. apply Inv_set_val; [exact I|]. apply LAST. reflexivity.
  Qed.

  (* a typed output vertex *)
  Lemma step_out t st prev final s :
    Inv s -> Wpre prev final s -> linkedp prev (KOut t st) ->
    let v := KOut t st in
    let s1 := match prev with
              | Some (KOut t' st') => set_val s v (lookup (KOut t' st') (s_vals s))
              | _ => s end in
    let s2 := set_last s1 (lookup v (s_vals s1)) in
    Inv s2 /\ s_trace s2 = s_trace s /\ Wpre (Some v) final s2.
  Proof.
    intros I WP LK v.
    assert (VALUED : forall x, lookup v (s_vals s) = Some x ->
              match prev with Some (KOut _ _) => False | _ => True end ->
              let s1 := match prev with
                        | Some (KOut t' st') => set_val s v (lookup (KOut t' st') (s_vals s))
                        | _ => s end in
              let s2 := set_last s1 (lookup v (s_vals s1)) in
              Inv s2 /\ s_trace s2 = s_trace s /\ Wpre (Some v) final s2).
    { intros x Q NP.
      assert (E : match prev with
                  | Some (KOut t' st') => set_val s v (lookup (KOut t' st') (s_vals s))
                  | _ => s end = s).
      { destruct prev as [[| | | |]|]; try reflexivity. contradiction. }
      rewrite E. cbv zeta. rewrite Q. split; [exact I|]. split; [reflexivity|].
      unfold v. cbn [Wpre s_last set_last s_vals]. exists x. split; [exact Q|reflexivity]. }
    destruct prev as [p|]; [|simpl in LK; discriminate].
    simpl in LK. pose proof (in_keys_erule _ _ LK) as ER.
    destruct p as [|ft|n' t' st'|t' st'|t' st']; simpl in ER; try contradiction.
    - destruct (@input_mem s _ I ER) as [x Q]. apply (VALUED x Q Logic.I).
    - destruct (mem_lookup _ _ (WP _ LK)) as [x Q]. apply (VALUED x Q Logic.I).
    - destruct WP as (x & Q & LS). cbv zeta. rewrite Q.
      assert (G : good (s_trace s) v x).
      { unfold v. eapply good_T2; [apply (i_vals I); exact Q|]. split; [apply (proj1 ER)|apply (proj2 ER)]. }
      pose proof (@Inv_set_val s v x I G) as I1.
      assert (Q1 : lookup v (s_vals (set_val s v (Some x))) = Some x).
      { cbn. rewrite lookup_insert, Base.eqb_refl. reflexivity. }
      rewrite Q1. split; [exact I1|]. split; [reflexivity|].
      unfold v. cbn [Wpre s_last set_last]. exists x. split; [exact Q1|reflexivity].
  Qed.

  Definition Rspec (rec : vkey -> rstate -> res (rstate * (argmap + rerr))) : Prop :=
    forall v s s' r, Inv s -> rec v s = Ok (s', r) ->
      Inv s' /\ ext s s' /\ (forall am, r = inl am -> am_good (s_trace s') am).

  Definition lastv (prev : option vkey) (vs : list vkey) : option vkey :=
    match vs with [] => prev | _ => Some (last vs KRoot) end.

  Lemma lastv_cons prev v vs : lastv prev (v :: vs) = lastv (Some v) vs.
  Proof. destruct vs; reflexivity. Qed.

  Lemma Wpre_ext prev final s s' :
    ext s s' -> s_vals s' = s_vals s -> s_last s' = s_last s -> Wpre prev final s -> Wpre prev final s'.
  Proof.
    intros E V L W. destruct prev as [[|ft|n t st|t st|t st]|]; simpl in *; auto.
    - rewrite V. exact W.
    - rewrite V, L. destruct W as [W1 (y & W2 & W3)]. split; [exact W1|]. exists y. split; [exact W2|].
      eapply good_ext; eauto.
    - intros y Q. eapply good_ext; eauto.
    - rewrite V, L. exact W.
  Qed.

  Section WalkInv.
    Variable rec : vkey -> rstate -> res (rstate * (argmap + rerr)).
    Hypothesis HR : Rspec rec.

    Lemma walkF_inv : forall vs prev final s s' r,
      Inv s -> lpath g prev vs -> Wpre prev final s ->
      walkF u bh g rec prev vs final s = Ok (s', r) ->
      Inv s' /\ ext s s' /\
      (forall fv, r = inl (Some fv) -> forall k, lastv prev vs = Some k -> vk k = true -> good (s_trace s') k fv).
    Proof.
      induction vs as [|v vs IH]; intros prev final s s' r I LP WP W.
      - simpl in W. inversion W; subst s' r. split; [exact I|]. split; [apply ext_refl|].
        intros fv Q k LV VK. inversion Q; subst final. simpl in LV. subst prev.
        destruct k as [|ft|n t st|t st|t st]; simpl in VK; try discriminate; simpl in WP.
        + destruct WP as [_ (y & Fy & Gy)]. inversion Fy; subst. exact Gy.
        + apply WP. reflexivity.
      - apply lpath_inv in LP. destruct LP as [LK LP]. rewrite lastv_cons.
        destruct v as [|ft|n t st|t st|t st].
        + (* root *)
          cbn [walkF] in W. apply (IH (Some KRoot) final s s' r I LP Logic.I W).
        + (* function *)
          cbn [walkF] in W.
          destruct (g_vertex g (KFunc ft)) as [[|f]|] eqn:GV; try discriminate.
          destruct (gi_pay Hg _ GV) as [Hf Tf].
          destruct (rec (KFunc ft) s) as [[s1 r1]| | |] eqn:R; cbn [bind] in W; try discriminate.
          destruct (HR I R) as (I1 & E1 & AM1).
          destruct r1 as [fam|e].
          2:{ inversion W; subst s' r. split; [exact I1|]. split; [exact E1|]. intros fv Q. discriminate. }
          specialize (AM1 fam eq_refl).
          destruct (call_direct u bh false f fam s1) as [[res s2]| | |] eqn:CD; cbn [bind] in W; try discriminate.
          destruct (call_direct_inv _ I1 Hf AM1 CD) as (I2 & E2 & V2 & OG2).
          destruct (r_builderr res) eqn:BE.
          { inversion W; subst s' r. split; [exact I2|]. split; [eapply ext_trans; eauto|]. intros fv Q. discriminate. }
          specialize (OG2 eq_refl).
          destruct (r_err res) as [e|].
          { inversion W; subst s' r. split; [exact I2|]. split; [eapply ext_trans; eauto|]. intros fv Q. discriminate. }
          destruct (take_perm SITE_REACH_IN (g_in_keys g (KFunc ft)) (s_tape s2)) as [[ins t']| | |] eqn:TP;
            cbn [bind] in W; try discriminate.
          destruct (output_values f res ins (set_tape s2 t')) as [s3| | |] eqn:OV; cbn [bind] in W; try discriminate.
          assert (HI : forall k, In k ins -> In k (g_in_keys g (KFunc ft))).
          { intros k A. apply (take_perm_In _ _ _ TP). exact A. }
          destruct (@output_values_inv ft f res ins (set_tape s2 t') s3 I2 Hf Tf OG2 HI OV) as (I3 & T3 & M3 & K3).
          assert (E3 : ext s s3).
          { eapply ext_trans; [exact E1|]. eapply ext_trans; [exact E2|]. apply ext_eq. exact T3. }
          assert (WP3 : Wpre (Some (KFunc ft)) final s3).
          { simpl. intros k A. apply K3. apply (take_perm_In _ _ _ TP). exact A. }
          destruct (IH (Some (KFunc ft)) final s3 s' r I3 LP WP3 W) as (I4 & E4 & F4).
          split; [exact I4|]. split; [eapply ext_trans; eauto|]. exact F4.
        + (* named value *)
          cbn [walkF] in W.
          destruct (@step_val n t st prev final s I WP LK) as (I2 & T2 & W2).
          destruct (IH _ _ _ _ _ I2 LP W2 W) as (I4 & E4 & F4).
          split; [exact I4|]. split; [|exact F4].
          eapply ext_trans; [|exact E4]. apply ext_eq. exact T2.
        + (* typed argument *)
          cbn [walkF] in W.
          destruct (@step_arg t st prev final s I WP LK) as (I2 & T2 & W2).
          destruct (IH _ _ _ _ _ I2 LP W2 W) as (I4 & E4 & F4).
          split; [exact I4|]. split; [|exact F4].
          eapply ext_trans; [|exact E4]. apply ext_eq. exact T2.
        + (* typed output *)
          cbn [walkF] in W.
          destruct (@step_out t st prev final s I WP LK) as (I2 & T2 & W2).
          destruct (IH _ _ _ _ _ I2 LP W2 W) as (I4 & E4 & F4).
          split; [exact I4|]. split; [|exact F4].
          eapply ext_trans; [|exact E4]. apply ext_eq. exact T2.
    Qed.
  End WalkInv.

  (* ================= Part 5: all paths, the whole of reach ================= *)
  Lemma req_fold_inv s tr (G : forall k v, lookup k (s_vals s) = Some v -> good tr k v) :
    forall outs am0 todo0 am todo,
      fold_left (req_step s) outs (am0, todo0) = (am, todo) ->
      am_good tr am0 ->
      am_good tr am /\ (forall x, In x todo -> (In x todo0 \/ (In x outs /\ x <> KRoot))).
  Proof.
    induction outs as [|o outs IH]; intros am0 todo0 am todo Q A0; simpl in Q.
    - inversion Q; subst. split; [exact A0|]. intros x A. left; exact A.
    - assert (INS : forall v, lookup o (s_vals s) = Some v -> am_good tr (insert o v am0)).
      { intros v L k v' Q' VK. rewrite lookup_insert in Q'. destruct (Base.eqb_spec k o) as [->|N].
        - inversion Q'; subst. apply G. exact L.
        - apply A0; assumption. }
      assert (STEP : forall am1 todo1, fold_left (req_step s) outs (am1, todo1) = (am, todo) ->
                am_good tr am1 -> (forall x, In x todo1 -> In x todo0 \/ (x = o /\ x <> KRoot)) ->
                am_good tr am /\ (forall x, In x todo -> (In x todo0 \/ (In x (o :: outs) /\ x <> KRoot)))).
      { intros am1 todo1 Q1 A1 T1. destruct (IH _ _ _ _ Q1 A1) as [R1 R2]. split; [exact R1|].
        intros x A. destruct (R2 x A) as [B|[B1 B2]].
        - destruct (T1 x B) as [C|[C1 C2]]; [left; exact C|right]. subst. split; [left; reflexivity|exact C2].
        - right. split; [right; exact B1|exact B2]. }
      assert (ADD : forall x, In x (todo0 ++ [o]) -> o <> KRoot -> In x todo0 \/ (x = o /\ x <> KRoot)).
      { intros x A N. apply in_app_or in A. destruct A as [A|[A|[]]]; [left; exact A|right]. subst. auto. }
      destruct o as [|ft|n t st|t st|t st]; cbn [req_step] in Q.
      + apply (STEP _ _ Q A0). intros x A. left; exact A.
      + apply (STEP _ _ Q A0). intros x A. apply ADD; [exact A|discriminate].
      + destruct (lookup (KVal n t st) (s_vals s)) as [v|] eqn:L.
        * apply (STEP _ _ Q (INS v eq_refl)). intros x A. left; exact A.
        * apply (STEP _ _ Q A0). intros x A. apply ADD; [exact A|discriminate].
      + destruct (lookup (KArg t st) (s_vals s)) as [v|] eqn:L.
        * apply (STEP _ _ Q (INS v eq_refl)). intros x A. left; exact A.
        * apply (STEP _ _ Q A0). intros x A. apply ADD; [exact A|discriminate].
      + apply (STEP _ _ Q A0). intros x A. apply ADD; [exact A|discriminate].
  Qed.

  Lemma same_core_refl s : same_core s s.
  Proof. unfold same_core. auto. Qed.
  Lemma same_core_trans s1 s2 s3 : same_core s1 s2 -> same_core s2 s3 -> same_core s1 s3.
  Proof. unfold same_core. intros (A1 & A2 & A3 & A4) (B1 & B2 & B3 & B4). repeat split; congruence. Qed.

  Lemma plan_fold_inv target : forall todo acc paths unsat s2,
    fold_left (plan_step g) todo acc = Ok (paths, unsat, s2) ->
    (forall c, In c todo -> In c (g_out_keys g target) /\ c <> KRoot) ->
    exists paths0 unsat0 s0, acc = Ok (paths0, unsat0, s0) /\
      (Forall (lpath g None) paths0 -> Forall (lpath g None) paths) /\ same_core s0 s2.
  Proof.
    induction todo as [|c todo IH]; intros acc paths unsat s2 Q HT; simpl in Q.
    - exists paths, unsat, s2. split; [exact Q|]. split; [auto|apply same_core_refl].
    - destruct (IH _ _ _ _ Q (fun c' A => HT c' (or_intror A))) as (p1 & u1 & s1 & Q1 & F1 & C1).
      unfold plan_step in Q1.
      destruct acc as [[[p0 u0] s0]| | |]; cbn [bind] in Q1; try discriminate.
      destruct (plan g false c s0) as [[[path bad] s0']| | |] eqn:PL; cbn [bind] in Q1; try discriminate.
      inversion Q1; subst p1 u1 s1.
      destruct (HT c (or_introl eq_refl)) as [HT1 HT2].
      destruct (Hplan _ _ HT1 HT2 PL) as [LP SC].
      exists p0, u0, s0. split; [reflexivity|]. split.
      + intros F0. apply F1. apply Forall_app. split; [exact F0|]. constructor; [exact LP|constructor].
      + eapply same_core_trans; eauto.
  Qed.

  Section ReachInv.
    Variable rec : vkey -> rstate -> res (rstate * (argmap + rerr)).
    Hypothesis HR : Rspec rec.
    Variable leave : rstate -> rstate.
    Hypothesis HL : forall s, same_core s (leave s).

    Lemma leave_inv s : Inv s -> Inv (leave s) /\ ext s (leave s).
    Proof.
      intros I. split; [eapply Inv_core; [apply HL|exact I]|]. apply ext_eq.
      destruct (HL s) as (_ & _ & T & _). exact T.
    Qed.

    Lemma walk_paths_inv : forall paths am s s' r,
      Inv s -> Forall (lpath g None) paths -> am_good (s_trace s) am ->
      walk_pathsF u bh g rec leave paths am s = Ok (s', r) ->
      Inv s' /\ ext s s' /\ (forall am', r = inl am' -> am_good (s_trace s') am').
    Proof.
      induction paths as [|path rest IH]; intros am s s' r I FP AG W.
      - simpl in W. inversion W; subst s' r. destruct (leave_inv I) as [I1 E1].
        split; [exact I1|]. split; [exact E1|]. intros am' Q. inversion Q; subst am'.
        eapply am_good_ext; eauto.
      - cbn [walk_pathsF] in W. inversion FP as [|? ? LP FR]; subst.
        destruct (walkF u bh g rec None path None s) as [[s1 r1]| | |] eqn:WK; cbn [bind] in W; try discriminate.
        destruct (@walkF_inv rec HR path None None s s1 r1 I LP Logic.I WK) as (I1 & E1 & F1).
        destruct r1 as [[fv|]|e]; try discriminate.
        + assert (AG1 : am_good (s_trace s1) (insert (last path KRoot) fv am)).
          { intros k v Q VK. rewrite lookup_insert in Q.
            destruct (Base.eqb_spec k (last path KRoot)) as [->|N].
            - inversion Q; subst v. apply (F1 fv eq_refl); [|exact VK].
              destruct path as [|p0 path0]; [|reflexivity].
              simpl in WK. inversion WK.
            - eapply am_good_ext; eauto. }
          destruct (IH _ _ _ _ I1 FR AG1 W) as (I2 & E2 & F2).
          split; [exact I2|]. split; [eapply ext_trans; eauto|exact F2].
        + inversion W; subst s' r. destruct (leave_inv I1) as [I2 E2].
          split; [exact I2|]. split; [eapply ext_trans; eauto|]. intros am' Q. discriminate.
    Qed.
  End ReachInv.

  Lemma reach_body_inv rec (HR : Rspec rec) target s s' r :
    Inv s -> reach_body u bh g rec target s = Ok (s', r) ->
    Inv s' /\ ext s s' /\ (forall am, r = inl am -> am_good (s_trace s') am).
  Proof.
    intros I W. unfold reach_body in W.
    set (leave := fun s0 : rstate => set_inprog s0 (remove1 target (s_inprog s0))) in W.
    assert (HL : forall s0, same_core s0 (leave s0)).
    { intros s0. unfold leave, same_core. cbn. auto. }
    cbv zeta in W.
    destruct (take_perm SITE_REACH_OUT (g_out_keys g target) (s_tape (set_inprog s (target :: s_inprog s))))
      as [[outs t']| | |] eqn:TP; cbn [bind] in W; try discriminate.
    remember (set_tape (set_inprog s (target :: s_inprog s)) t') as s1 eqn:Es1.
    assert (C1 : same_core s s1). { subst s1. unfold same_core. cbn. auto. }
    assert (I1 : Inv s1) by (eapply Inv_core; eauto).
    assert (T1 : s_trace s1 = s_trace s) by (destruct C1 as (_ & _ & T & _); exact T).
    match type of W with
    | context [fold_left (req_step s1) outs ?x] =>
        destruct (fold_left (req_step s1) outs x) as [am todo] eqn:RQ
    end.
    assert (AG0 : am_good (s_trace s1) ([] : argmap)).
    { intros k v Q. simpl in Q. discriminate. }
    destruct (@req_fold_inv s1 (s_trace s1) (i_vals I1) outs [] [] am todo RQ AG0) as [AG TD].
    assert (TD' : forall c, In c todo -> In c (g_out_keys g target) /\ c <> KRoot).
    { intros c A. destruct (TD c A) as [[]|[B1 B2]]. split; [|exact B2].
      apply (take_perm_In _ _ _ TP). exact B1. }
    destruct todo as [|c0 todo']; cbv beta iota in W.
    - assert (Es : s' = leave s1 /\ r = inl am) by (inversion W; auto). destruct Es as [-> ->].
      destruct (@leave_inv leave HL s1 I1) as [I2 E2].
      split; [exact I2|]. split; [eapply ext_trans; [apply ext_eq; exact T1|exact E2]|].
      intros am' Q. inversion Q; subst am'. eapply am_good_ext; eauto.
    - destruct (fold_left (plan_step g) (c0 :: todo') (Ok ([], [], s1))) as [[[paths unsat] s2]| | |] eqn:PL;
        cbn [bind] in W; try discriminate.
      destruct (plan_fold_inv target _ _ PL TD') as (p0 & u0 & s0 & Q0 & F0 & C2).
      inversion Q0; subst p0 u0 s0.
      assert (FP : Forall (lpath g None) paths) by (apply F0; constructor).
      assert (I2 : Inv s2) by (eapply Inv_core; eauto).
      assert (T2 : s_trace s2 = s_trace s1) by (destruct C2 as (_ & _ & T & _); exact T).
      assert (E02 : ext s s2). { apply ext_eq. congruence. }
      destruct unsat as [|x unsat'].
      + assert (AG2 : am_good (s_trace s2) am) by (rewrite T2; exact AG).
        destruct (@walk_paths_inv rec HR leave HL paths am s2 s' r I2 FP AG2 W) as (I3 & E3 & F3).
        split; [exact I3|]. split; [eapply ext_trans; eauto|exact F3].
      + assert (Es : s' = leave s2 /\ r = inr (XUnsat (x :: unsat') [] [] false)) by (inversion W; auto).
        destruct Es as [-> ->]. destruct (@leave_inv leave HL s2 I2) as [I3 E3].
        split; [exact I3|]. split; [eapply ext_trans; eauto|]. intros am' Q. discriminate.
  Qed.

  Theorem reach_inv : forall n, Rspec (reach u bh g false n).
  Proof.
    induction n as [|n IH]; intros v s s' r I W.
    - rewrite reach_O in W. discriminate.
    - rewrite reach_S in W. eapply reach_body_inv; eauto.
  Qed.
End Inv.

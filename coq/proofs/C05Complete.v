(* C05Complete.v -- property C05 (completeness of conversion chaining).

   RESULT.  [C05_statement] is FALSE of the model as written
   ([C05_refuted], file C05CompleteCx.v): it lacks two hypotheses --
   (1) the implements relation of the type universe is transitive (cx2: a
       value travels out:T1 -> out:I2 -> out:I3 and is then not assignable);
   (2) the graph is small enough for Dijkstra's distances not to overflow
       (20 * (|V| + 1) < MaxInt; cannot be dropped, cannot be witnessed).
   A third, genuine counterexample (cx1: a 2-cycle of single-input
   converters over named values with subtypes; replayed on the Go library,
   200 failures in 200 runs) was repaired in the library and in Resolver.v
   while this proof was being written; it is kept as a regression example.

   [C05_alt_statement] (C05CompleteDefs.v) is C05_statement with exactly
   these two boolean hypotheses added to the premise
   ([c05_alt_premise u fg = c05_premise fg [] && univ_trans u && small_graph fg]);
   it is proved here in full, for both cases of the premise:
   (a) every converter has at most one input (cycles allowed),
   (b) no converter on a dependency cycle and every converter satisfiable,
   for every behaviour, every order tape, generators included. *)
From ArgMapper Require Import Base Graph GraphAlg GraphSpec Types Args Resolver ResolverSpec
     CheckResolver Monitors ResolverStatements.
From ArgMapper.proofs Require Import C05CompleteDefs C05CompleteCx C05CompleteGraph C05CompleteGraphIn
     C05CompleteAssemble.
From Coq Require Import Lia ZArith List Bool.
Import ListNotations.
Local Open Scope Z_scope.

Lemma c05_alt_premise_eq u fg :
  c05_alt_premise u fg = c05_premise fg [] && univ_trans u && small_graph fg.
Proof.
  unfold c05_alt_premise, c05_premise.
  destruct (target_derivable fg []), (univ_trans u), (small_graph fg),
           (single_input_convs fg || negb (conv_cyclic fg) && convs_satisfiable fg []); reflexivity.
Qed.

Theorem C05_alt_proof : C05_alt_statement.
Proof.
  intros u bh f d opts b t fg tr BA WFC FULL PREM.
  unfold c05_alt_premise in PREM. rewrite !andb_true_iff in PREM.
  destruct PREM as [[[TD UT] SM] MODE].
  pose proof (@in_edge_conv_proof u f b d opts t fg tr BA WFC FULL) as INCONV.
  apply orb_true_iff in MODE. destruct MODE as [SI|CY].
  - apply (@call_of_reach u bh f d opts b t fg tr BA WFC FULL TD).
    apply (@reach_mode_a u bh f d opts b t fg tr BA WFC FULL UT SM TD INCONV SI).
  - apply andb_true_iff in CY. destruct CY as [NC SAT]. apply negb_true_iff in NC.
    apply (@call_of_reach u bh f d opts b t fg tr BA WFC FULL TD).
    apply (@reach_mode_b u bh f d opts b t fg tr BA WFC FULL UT SM TD NC SAT).
Qed.

(* non-vacuity: the strengthened premise holds on the regression scenario cx1
   (named values, subtypes, a 2-cycle of single-input converters), so the
   theorem applies to it: every order tape gives success or TapeErr *)
Example cx1_alt_premise : c05_alt_premise cx1_u cx1_fg = true.
Proof. vm_compute. reflexivity. Qed.

Corollary cx1_all_orders : forall t fg tr,
  full_graph cx1_u cx1_f cx1_b false t = Ok (inl fg, tr) ->
  c05_alt_premise cx1_u fg = true ->
  (exists r, call cx1_u all_ok cx1_f [] cx1_opts world0 t = Ok r /\ co_ok (co_of_run r) = true) \/
  (exists s, call cx1_u all_ok cx1_f [] cx1_opts world0 t = TapeErr s).
Proof.
  intros t fg tr FULL PREM.
  destruct (C05_alt_proof cx1_u all_ok cx1_f [] cx1_opts cx1_b t fg tr cx1_build cx1_wf FULL PREM) as [[(r & Q & _)|E] H2].
  - left. exists r. split; [exact Q|]. apply H2; [exact all_ok_no_failures|exact Q].
  - right. exact E.
Qed.

(* the statement as written does not hold *)
Theorem C05_refuted_proof : ~ C05_statement.
Proof. exact C05_refuted. Qed.

Print Assumptions C05_refuted_proof.
Print Assumptions C05_alt_proof.

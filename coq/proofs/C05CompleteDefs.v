(* C05CompleteDefs.v -- shared vocabulary and lemma CONTRACTS for the C05
   development.  Definitions only (each contract is a [Definition _ : Prop]
   proved in its own file C05Complete<Part>.v). *)
From ArgMapper Require Import Base Graph GraphAlg GraphSpec Types Args Resolver ResolverSpec
     CheckResolver Monitors ResolverStatements.
From Coq Require Import Lia ZArith List Permutation.
Import ListNotations.
Set Implicit Arguments.
Local Open Scope Z_scope.

Notation rgraph := (graph vkey vpay).

(* ================================================================== *)
(* Part D: Dijkstra with arbitrary small weights (generic)            *)
(* ================================================================== *)
Section DijkstraContract.
  Context {K : Type} {E : EqDec K} {V : Type}.
  Notation graph := (graph K V).

  (* a occurs strictly before b in the list *)
  Definition before (ord : list K) (a b : K) : Prop :=
    exists l1 l2 l3, ord = l1 ++ a :: l2 ++ b :: l3.

  Definition wbound (g : graph) (B : Z) : Prop := forall a b w, edge g a b w -> - B <= w <= B.

  (* path = src :: ... :: v such that each element is the predecessor (under p) of the next *)
  Inductive ppath (p : amap K K) (src : K) : K -> list K -> Prop :=
  | ppath_src : lookup src p = None -> ppath p src src [src]
  | ppath_step v u l : lookup v p = Some u -> ppath p src u l -> ppath p src v (l ++ [v]).

  (* What a run of the search guarantees, whatever the signs of the weights:
     [ord] is the pop order. *)
  Definition dijkstra_facts (g : graph) (src : K) (d : amap K Z) (p : amap K K) (ord : list K) : Prop :=
    NoDup ord /\ (forall v, In v ord <-> vertex g v) /\
    lookup src p = None /\
    (forall v u, lookup v p = Some u ->
       before ord u v /\ exists w, edge g u v w /\ getd d v = getd d u + w /\ getd d u <> INF) /\
    (forall a c w, edge g a c w -> before ord a c -> getd d a <> INF -> getd d c <= getd d a + w) /\
    (forall v, GraphSpec.reach g src v -> v <> src -> exists u, lookup v p = Some u) /\
    (forall v u, lookup v p = Some u -> GraphSpec.reach g src v).

  Definition dijkstra_small_spec : Prop :=
    forall (g : graph) (src : K) (t : tape K),
      wf_graph g -> vertex g src -> wbound g 20 ->
      20 * (Z.of_nat (length (g_vertex_keys g)) + 1) < INF ->
      (exists s, dijkstra_t g src t = TapeErr s) \/
      (exists d p t' ord, dijkstra_t g src t = Ok (d, p, t') /\ dijkstra_facts g src d p ord).

  (* the path read off the predecessor map *)
  Definition dijkstra_path_spec : Prop :=
    forall (g : graph) (src : K) (d : amap K Z) (p : amap K K) (ord : list K) (v : K),
      wf_graph g -> dijkstra_facts g src d p ord -> vertex g v -> GraphSpec.reach g src v ->
      exists path, edge_to_path g p v = Ok path /\ ppath p src v path /\ NoDup path.
End DijkstraContract.

(* ================================================================== *)
(* Part D2: the matching-name discount only changes weights           *)
(* ================================================================== *)
Definition discount_spec : Prop :=
  forall (g : rgraph) (cur : vkey), wf_graph g ->
    (forall a b w, edge g a b w -> -20 <= w <= 20) ->
    let cg := discount g cur in
    wf_graph cg /\
    (forall k, g_vertex cg k = g_vertex g k) /\
    g_vertex_keys cg = g_vertex_keys g /\
    (forall a b, (exists w, edge cg a b w) <-> (exists w, edge g a b w)) /\
    (forall a b w, edge cg a b w -> -20 <= w <= 20) /\
    (match cur with KVal _ _ _ => True | _ => cg = g end).

(* ================================================================== *)
(* Part C: closures, pruning, derivability (generic over rgraph)      *)
(* ================================================================== *)
Definition keep_set (g : rgraph) (stop : vkey) : list vkey :=
  closure (S (List.length (g_vertex_keys g))) g stop [KRoot] [KRoot].

Definition prune_graph (g : rgraph) (keep : list vkey) : rgraph :=
  fold_left (fun g k => if memb k keep then g else g_remove g k) (g_vertex_keys g) g.

(* the closure is exactly backwards reachability from the root that does not continue through [stop] *)
Definition closure_spec : Prop :=
  forall (g : rgraph) (stop : vkey), wf_graph g -> vertex g KRoot ->
    let keep := keep_set g stop in
    In KRoot keep /\
    (forall k, In k keep -> vertex g k) /\
    (forall a b w, In b keep -> b <> stop -> edge g a b w -> In a keep) /\
    (forall k, In k keep ->
       exists p w, walk g k KRoot p w /\ (forall x, In x p -> In x keep) /\
                   (forall x, In x (tl p) -> x <> stop)).

(* pruning yields the induced subgraph *)
Definition prune_spec : Prop :=
  forall (g : rgraph) (keep : list vkey), wf_graph g ->
    let g' := prune_graph g keep in
    wf_graph g' /\
    (forall k, g_vertex g' k = if memb k keep then g_vertex g k else None) /\
    (forall a b w, edge g' a b w <-> (edge g a b w /\ In a keep /\ In b keep)).

(* every function vertex has at least one requirement edge (the root when it has no input) *)
Definition funcs_have_out (g : rgraph) : Prop :=
  forall ft, vertex g (KFunc ft) -> exists b w, edge g (KFunc ft) b w.

(* derivable vertices that do not depend on [stop] are kept *)
Definition derive_keep_spec : Prop :=
  forall (g : rgraph) (stop : vkey), wf_graph g -> vertex g KRoot -> funcs_have_out g ->
    (forall k, In k (derivable_set g []) -> ~ GraphSpec.reach g k stop -> In k (keep_set g stop)) /\
    (* the requirements of [stop] itself, when all of them are derivable *)
    ((forall r w, edge g stop r w -> In r (derivable_set g [])) ->
     forall r w, edge g stop r w -> In r (keep_set g stop)).

(* derivable_set is sound: every member other than the root is a vertex that passed
   [derivable_step] against a subset of the final set *)
Definition derive_sound_spec : Prop :=
  forall (g : rgraph), wf_graph g ->
    forall k, In k (derivable_set g []) ->
      k = KRoot \/
      (vertex g k /\ exists D, incl D (derivable_set g []) /\ derivable_step g [] D k = true).

(* the boolean cycle test is complete *)
Definition cyclic_spec : Prop :=
  forall (g : rgraph) (k : vkey), wf_graph g -> vertex g k ->
    func_on_cycle g k = false -> ~ reach1 g k k.

(* ================================================================== *)
(* Part G: structure of the call graph built by full_graph            *)
(* ================================================================== *)
Definition key_ty (k : vkey) : option ty :=
  match k with KVal _ t _ | KArg t _ | KOut t _ => Some t | _ => None end.

(* what every edge a -w-> b of a call graph looks like.
   F: the functions of the call; vals: the supplied values *)
Definition edge_inv (u : universe) (F : list fdecl) (vals : amap vkey value) (a b : vkey) (w : Z) : Prop :=
  1 <= w <= 20 /\
  match a, b with
  | KFunc ft, KRoot => exists f, In f F /\ fn_type f = ft /\ fn_in f = []
  | KFunc ft, (KArg _ _ | KVal _ _ _) =>
      exists f fld, In f F /\ fn_type f = ft /\ In fld (fn_in f) /\ b = field_key fld
  | (KVal _ _ _ | KOut _ _), KRoot => mem a vals = true
  | (KVal _ _ _ | KOut _ _), KFunc ft =>
      exists f fld, In f F /\ fn_type f = ft /\ In fld (fn_out f) /\ a = field_out_key fld
  | KVal n t s, KOut t' s' => t' = t /\ s' = EmptyString
  | KVal n t s, KVal n' t' s' => n' = n /\ t' = t /\ s = EmptyString /\ s' <> EmptyString /\ w = 5
  | KOut t s, KOut t' s' => implements u t' t = true
  | KArg t s, KVal _ t' _ => t' = t /\ w = 5
  | KArg t s, KOut t' _ => t' = t
  | _, _ => False
  end.

Definition vert_inv (F : list fdecl) (k : vkey) (pay : vpay) : Prop :=
  match k with
  | KFunc ft => exists f, pay = PFunc f /\ fn_type f = ft /\ In f F
  | _ => True
  end.

Definition full_graph_spec : Prop :=
  forall u f b t fg tr,
    wf_call u f b = true ->
    full_graph u f b false t = Ok (inl fg, tr) ->
    let g := fg_g fg in
    let F := f :: fg_convs fg in
    wf_graph g /\ vertex g KRoot /\
    fg_target fg = KFunc (fn_type f) /\
    g_vertex g (KFunc (fn_type f)) = Some (PFunc f) /\
    (forall a b w, edge g a b w -> edge_inv u F (fg_vals fg) a b w) /\
    (forall k pay, g_vertex g k = Some pay -> vert_inv F k pay) /\
    (* the recorded requirements of the target are its out-neighbours *)
    (forall r, In r (fg_freq fg) <-> exists w, edge g (KFunc (fn_type f)) r w) /\
    (* every function of the call has its vertex and all its requirement edges *)
    (forall c, In c F ->
       vertex g (KFunc (fn_type c)) /\
       (forall fld, In fld (fn_in c) -> exists w, edge g (KFunc (fn_type c)) (field_key fld) w) /\
       (fn_in c = [] -> exists w, edge g (KFunc (fn_type c)) KRoot w)) /\
    (forall c, In c (fg_convs fg) -> In c (known_funcs f b)) /\
    (* supplied values sit on value / typed-output vertices of exactly their type *)
    (forall k v, lookup k (fg_vals fg) = Some v ->
       match k with KVal _ t _ | KOut t _ => t = v_ty v | _ => False end) /\
    fg_trace fg = tr.

(* ================================================================== *)
(* the strengthened premise of the corrected statement                *)
(* ================================================================== *)
(* the implements relation of the universe is transitive (as Go's is) *)
Definition univ_trans (u : universe) : bool :=
  forallb (fun ab => forallb (fun bc =>
     if (snd ab =? fst bc) && is_iface u (snd ab) && is_iface u (snd bc)
     then memb (fst ab, snd bc) (u_impl u) else true) (u_impl u)) (u_impl u).

(* distances cannot overflow *)
Definition small_graph (fg : fgraph) : bool :=
  20 * (Z.of_nat (List.length (g_vertex_keys (fg_g fg))) + 1) <? INF.

Definition c05_alt_premise (u : universe) (fg : fgraph) : bool :=
  target_derivable fg [] && univ_trans u && small_graph fg &&
  (single_input_convs fg ||
   (negb (conv_cyclic fg) && convs_satisfiable fg [])).

Definition C05_alt_statement : Prop :=
  forall u bh f d opts b t fg tr,
    build_args d opts = Some b -> wf_call u f b = true ->
    full_graph u f b false t = Ok (inl fg, tr) ->
    c05_alt_premise u fg = true ->
    ((exists r, call u bh f d opts world0 t = Ok r /\ c05_ok fg [] (co_of_run r) = true) \/
     (exists s, call u bh f d opts world0 t = TapeErr s)) /\
    (no_failures bh -> forall r, call u bh f d opts world0 t = Ok r -> co_ok (co_of_run r) = true).

(* C05CompleteReq.v -- the first two phases of reach_body: splitting the
   requirements (req_split) and planning the missing ones (plan_all). *)
From ArgMapper Require Import Base Graph GraphAlg GraphSpec Types Args Resolver ResolverSpec.
From ArgMapper.proofs Require Import C18DijkstraLemmas C19RefineMap C19RefineGraph
     C05CompleteDefs C05CompleteReachEq C05CompleteState C05CompletePlan.
From Coq Require Import Lia ZArith List.
Import ListNotations.
Set Implicit Arguments.
Local Open Scope Z_scope.

Definition is_req (k : vkey) : bool := match k with KArg _ _ | KVal _ _ _ => true | _ => false end.

(* ---------- req_split ---------- *)
Lemma req_split_spec (s : rstate) (outs : list vkey) :
  (forall o, In o outs -> o = KRoot \/ is_req o = true) ->
  forall am todo, req_split false s outs = (am, todo) ->
    (forall o x, lookup o am = Some x -> lookup o (s_vals s) = Some x) /\
    (forall o, In o outs -> o <> KRoot -> (exists x, lookup o am = Some x) \/ In o todo) /\
    (forall o, In o todo -> In o outs /\ is_req o = true /\ lookup o (s_vals s) = None).
Proof.
  unfold req_split.
  assert (G : forall outs am0 todo0,
             (forall o, In o outs -> o = KRoot \/ is_req o = true) ->
             forall am todo, fold_left (req_step false s) outs (am0, todo0) = (am, todo) ->
             (forall o x, lookup o am = Some x -> lookup o am0 = Some x \/ lookup o (s_vals s) = Some x) /\
             (forall o, (exists x, lookup o am0 = Some x) -> exists x, lookup o am = Some x) /\
             (forall o, In o todo0 -> In o todo) /\
             (forall o, In o outs -> o <> KRoot -> (exists x, lookup o am = Some x) \/ In o todo) /\
             (forall o, In o todo -> In o todo0 \/ (In o outs /\ is_req o = true /\ lookup o (s_vals s) = None))).
  { clear outs. induction outs as [|o outs IH]; intros am0 todo0 K am todo Q.
    - cbn [fold_left] in Q. inversion Q; subst. repeat split; auto. intros o [].
    - cbn [fold_left] in Q.
      assert (K' : forall o', In o' outs -> o' = KRoot \/ is_req o' = true) by (intros o' I'; apply K; right; exact I').
      destruct (req_step false s (am0, todo0) o) as [am1 todo1] eqn:St.
      destruct (IH am1 todo1 K' am todo Q) as (A1 & A2 & A3 & A4 & A5).
      assert (Step : (am1 = am0 /\ todo1 = todo0 /\ o = KRoot) \/
                     (exists x, lookup o (s_vals s) = Some x /\ am1 = insert o x am0 /\ todo1 = todo0 /\ is_req o = true) \/
                     (am1 = am0 /\ todo1 = todo0 ++ [o] /\ is_req o = true /\ lookup o (s_vals s) = None)).
      { destruct (K o (or_introl eq_refl)) as [->|R].
        - left. cbn in St. inversion St; auto.
        - destruct o as [| | n t st | t st | ]; try discriminate R; cbn [req_step] in St.
          + destruct (lookup (KVal n t st) (s_vals s)) as [x|] eqn:L; inversion St; subst.
            * right; left. exists x. auto.
            * right; right. auto.
          + destruct (lookup (KArg t st) (s_vals s)) as [x|] eqn:L; inversion St; subst.
            * right; left. exists x. auto.
            * right; right. auto. }
      destruct Step as [(-> & -> & ->)|[(x & Lx & -> & -> & R)|(-> & -> & R & LN)]].
      + repeat split; auto.
        * intros o' [<-|I'] N; [contradiction|]. apply A4; auto.
        * intros o' I'. destruct (A5 _ I') as [B|[B C]]; auto. right. split; [right; exact B|exact C].
      + split; [|split; [|split; [|split]]].
        * intros o' x' L'. destruct (A1 _ _ L') as [B|B]; [|right; exact B].
          rewrite lookup_insert in B. destruct (Base.eqb_spec o' o) as [->|N]; [|left; exact B].
          inversion B; subst. right. exact Lx.
        * intros o' [x' L']. apply A2. rewrite lookup_insert. destruct (Base.eqb o' o); eauto.
        * exact A3.
        * intros o' [<-|I'] N; [|apply A4; auto].
          left. apply A2. rewrite lookup_insert, Base.eqb_refl. eauto.
        * intros o' I'. destruct (A5 _ I') as [B|[B C]]; auto. right. split; [right; exact B|exact C].
      + split; [|split; [|split; [|split]]]; auto.
        * intros o' I'. apply A3. apply in_or_app; left; exact I'.
        * intros o' [<-|I'] N; [|apply A4; auto].
          right. apply A3. apply in_or_app; right; left; reflexivity.
        * intros o' I'. destruct (A5 _ I') as [B|[B C]].
          -- apply in_app_or in B. destruct B as [B|[<-|[]]]; [left; exact B|].
             right. split; [left; reflexivity|split; [exact R|exact LN]].
          -- right. split; [right; exact B|exact C]. }
  intros K am todo Q. destruct (G outs [] [] K am todo Q) as (A1 & A2 & A3 & A4 & A5).
  split; [|split].
  - intros o x L. destruct (A1 _ _ L) as [B|B]; [discriminate|exact B].
  - exact A4.
  - intros o I. destruct (A5 _ I) as [[]|B]. exact B.
Qed.

(* ---------- plan_all ---------- *)
Section PlanAll.
  Variable g : rgraph.
  Hypothesis WF : wf_graph g.
  Hypothesis ROOT : vertex g KRoot.
  Hypothesis WB : forall a b w, edge g a b w -> 1 <= w <= 20.
  Hypothesis SMALL : 20 * (Z.of_nat (length (g_vertex_keys g)) + 1) < INF.
  Hypothesis RR : forall k, vertex g k -> GraphSpec.reach g k KRoot.

  (* states that differ only in tape and recorded inputs *)
  Definition same_core (s s' : rstate) : Prop :=
    s_vals s' = s_vals s /\ s_last s' = s_last s /\ s_inprog s' = s_inprog s /\ s_world s' = s_world s /\
    s_trace s' = s_trace s /\ s_nexec s' = s_nexec s.

  Lemma same_core_refl s : same_core s s.
  Proof. repeat split; reflexivity. Qed.
  Lemma same_core_trans s1 s2 s3 : same_core s1 s2 -> same_core s2 s3 -> same_core s1 s3.
  Proof.
    intros (A1 & A2 & A3 & A4 & A5 & A6) (B1 & B2 & B3 & B4 & B5 & B6).
    repeat split; congruence.
  Qed.

  Lemma plan_step_eq paths0 unsat0 s0 cur path bad s1 :
    plan g false cur s0 = Ok (path, bad, s1) ->
    plan_step g false (Ok (paths0, unsat0, s0)) cur =
    Ok (paths0 ++ [path], (if (bad : bool) then unsat0 ++ [cur] else unsat0), s1).
  Proof. intros Q. unfold plan_step. cbn [bind]. rewrite Q. reflexivity. Qed.
  Lemma plan_step_err paths0 unsat0 s0 cur site :
    plan g false cur s0 = TapeErr site ->
    plan_step g false (Ok (paths0, unsat0, s0)) cur = TapeErr site.
  Proof. intros Q. unfold plan_step. cbn [bind]. rewrite Q. reflexivity. Qed.
  Lemma plan_fold_err todo site : fold_left (plan_step g false) todo (TapeErr site) = TapeErr site.
  Proof. induction todo as [|c todo IH]; [reflexivity|]. cbn [fold_left]. exact IH. Qed.

  Lemma plan_all_ok todo : forall s,
    (forall cur, In cur todo -> vertex g cur) ->
    (exists site, plan_all g false todo s = TapeErr site) \/
    (exists paths unsat s', plan_all g false todo s = Ok (paths, unsat, s') /\
        same_core s s' /\ Forall2 (path_ok g) todo paths /\
        ((forall cur path, In cur todo -> path_ok g cur path ->
                           existsb (fun v => memb v (s_inprog s)) path = false) -> unsat = [])).
  Proof.
    unfold plan_all.
    assert (G : forall todo paths0 unsat0 s0 s,
               same_core s s0 ->
               (forall cur, In cur todo -> vertex g cur) ->
               (exists site, fold_left (plan_step g false) todo (Ok (paths0, unsat0, s0)) = TapeErr site) \/
               (exists paths unsat s', fold_left (plan_step g false) todo (Ok (paths0, unsat0, s0)) = Ok (paths0 ++ paths, unsat, s') /\
                   same_core s s' /\ Forall2 (path_ok g) todo paths /\
                   ((forall cur path, In cur todo -> path_ok g cur path ->
                                      existsb (fun v => memb v (s_inprog s)) path = false) -> unsat = unsat0))).
    { clear todo. induction todo as [|cur todo IH]; intros paths0 unsat0 s0 s SC VT.
      - right. exists [], unsat0, s0. cbn [fold_left]. rewrite app_nil_r. split; [reflexivity|].
        split; [exact SC|]. split; [constructor|]. reflexivity.
      - cbn [fold_left].
        destruct (@plan_ok g WF ROOT WB SMALL RR cur s0 (VT cur (or_introl eq_refl))) as [[site Q]|(path & t' & Q & PO)].
        + left. exists site. rewrite (@plan_step_err paths0 unsat0 s0 cur site Q). apply plan_fold_err.
        + rewrite (@plan_step_eq paths0 unsat0 s0 cur _ _ _ Q).
          set (bad := existsb (fun v => memb v (s_inprog s0)) path).
          set (s1 := add_input (set_tape s0 t') (input_of path cur)).
          assert (SC1 : same_core s s1).
          { eapply same_core_trans; [exact SC|]. unfold s1. repeat split; reflexivity. }
          destruct (IH (paths0 ++ [path]) (if bad then unsat0 ++ [cur] else unsat0) s1 s SC1) as
              [[site Q2]|(paths & unsat & s' & Q2 & SC2 & F2 & U2)].
          { intros c I. apply VT. right; exact I. }
          * left. exists site. exact Q2.
          * right. exists (path :: paths), unsat, s'. rewrite <- app_assoc in Q2. split; [exact Q2|].
            split; [exact SC2|]. split; [constructor; assumption|].
            intros NB. rewrite U2.
            -- assert (B : bad = false).
               { unfold bad. destruct SC as (_ & _ & Ei & _). rewrite Ei. apply (NB cur path); [left; reflexivity|exact PO]. }
               rewrite B. reflexivity.
            -- intros c p I. apply NB. right; exact I. }
    intros s VT. destruct (G todo [] [] s s (same_core_refl s) VT) as [L|(paths & unsat & s' & Q & R)].
    - left; exact L.
    - right. exists paths, unsat, s'. exact (conj Q R).
  Qed.
End PlanAll.

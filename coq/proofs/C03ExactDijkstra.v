(* C03ExactDijkstra.v -- a size-independent fact about the model's Dijkstra:
   on a well-formed graph whose weights lie in [1, WM], a vertex [c] that is
   two cheap edges away from the source ends up with the predecessor chain
   c <- X <- src for a source-adjacent X, WHATEVER the (validated) pop
   sequence and however large the graph (no bound on the total weight: the
   vertices near the source are settled before any 64-bit wrap-around can
   happen).  Also: the search never panics on a well-formed graph. *)
From ArgMapper Require Import Base Graph GraphAlg GraphSpec GraphStatements.
From ArgMapper.proofs Require Import C18DijkstraLemmas C18Dijkstra.
From Coq Require Import Lia ZArith List.
Import ListNotations.
Set Implicit Arguments.
Local Open Scope Z_scope.

Section Near.
  Context {K : Type} {E : EqDec K} {V : Type}.
  Notation graph := (graph K V).
  Variable g : graph.
  Variable src : K.
  Hypothesis WF : wf_graph g.
  Variable WM : Z.
  Hypothesis WMb : 1 <= WM <= 1000.
  Hypothesis Wts : forall a b w, edge g a b w -> 1 <= w <= WM.

  Definition dtotal (st : @dstate K) : Prop :=
    forall v, vertex g v -> exists dv, lookup v (dist st) = Some dv.

  Lemma remove1_incl (u x : K) l : In x (remove1 u l) -> In x l.
  Proof.
    induction l as [|y l IH]; simpl; [tauto|].
    destruct (eqb u y); simpl; intros A; auto. destruct A as [A|A]; auto.
  Qed.

  Lemma inner_edge u x w : In (x, w) (inner (gout g) u) -> edge g u x w.
  Proof.
    intros A. unfold edge. unfold inner in *.
    destruct (lookup u (gout g)) as [i|] eqn:Q; [|destruct A].
    apply In_lookup; auto. apply (wf_inner_out_nodup WF _ Q).
  Qed.

  (* ---------- one pop, abstractly ---------- *)
  Definition step_rel (st st' : @dstate K) (u : K) (du : Z) : Prop :=
    unvis st' = remove1 u (unvis st) /\
    (forall x, unchanged st st' x \/
               (In x (remove1 u (unvis st)) /\ du <> INF /\
                exists w dx, edge g u x w /\ lookup x (dist st) = Some dx /\
                  wrap64 (du + w) < dx /\ lookup x (dist st') = Some (wrap64 (du + w)) /\
                  lookup x (prev st') = Some u)) /\
    (du <> INF -> forall v w, edge g u v w -> In v (remove1 u (unvis st)) ->
       exists dv', lookup v (dist st') = Some dv' /\ dv' <= wrap64 (du + w)).

  Lemma dstep_rel st u :
    dtotal st -> is_min st u = true ->
    exists st', dstep g st u = Ok st' /\ step_rel st st' u (getd (dist st) u).
  Proof.
    intros DT Hm. unfold dstep. rewrite Hm. cbv zeta.
    set (du := getd (dist st) u).
    destruct (du =? INF) eqn:Einf.
    - apply Z.eqb_eq in Einf. eexists; split; [reflexivity|].
      split; [reflexivity|]. split.
      + intros x. left. split; reflexivity.
      + intros N. contradiction.
    - apply Z.eqb_neq in Einf.
      destruct (relax_fold u du (inner (gout g) u) (mkD (remove1 u (unvis st)) (dist st) (prev st)))
        as (st' & Fold & Uv & Ch & Rl).
      { intros v w A. simpl. apply DT. apply (edge_vertices WF (inner_edge _ _ _ A)). }
      simpl in Uv, Ch, Rl.
      exists st'. split; [exact Fold|]. split; [exact Uv|]. split.
      + intros x. destruct (Ch x) as [A|(Ix & w & dx & A & Q & Lt & Qn & Pn)].
        * left. exact A.
        * right. split; [exact Ix|]. split; [exact Einf|].
          exists w, dx. split; [apply inner_edge; exact A|]. auto.
      + intros _ v w Ed Iv. apply Rl; auto. apply lookup_In. exact Ed.
  Qed.

  Lemma dstep_not_min st u : is_min st u = false -> dstep g st u = TapeErr SITE_POP.
  Proof. intros M. unfold dstep. rewrite M. reflexivity. Qed.

  Lemma step_rel_total st st' u du : dtotal st -> step_rel st st' u du -> dtotal st'.
  Proof.
    intros DT (_ & Ch & _) v Vv. destruct (DT v Vv) as (dv & Q).
    destruct (Ch v) as [[A _]|(_ & _ & w & dx & _ & _ & _ & Qn & _)].
    - exists dv. rewrite A. exact Q.
    - eauto.
  Qed.

  Lemma step_rel_frozen st st' u du x :
    step_rel st st' u du -> ~ In x (unvis st) ->
    lookup x (dist st') = lookup x (dist st) /\ lookup x (prev st') = lookup x (prev st).
  Proof.
    intros (_ & Ch & _) N. destruct (Ch x) as [A|(Ix & _)]; [exact A|].
    exfalso. apply N. apply remove1_incl with (u := u). exact Ix.
  Qed.

  Lemma step_rel_unvis st st' u du x :
    step_rel st st' u du -> In x (unvis st') -> In x (unvis st).
  Proof. intros (Uv & _) A. rewrite Uv in A. apply remove1_incl with (u := u). exact A. Qed.

  (* ---------- phase 1: before any wrap-around ---------- *)
  Record Ph1 (st : @dstate K) : Prop := {
    p_nodup : NoDup (unvis st);
    p_unvis : forall x, In x (unvis st) -> vertex g x;
    p_range : forall v dv, lookup v (dist st) = Some dv -> 0 <= dv <= INF;
    p_src : lookup src (dist st) = Some 0;
    p_srcp : lookup src (prev st) = None;
    p_mono : forall u x du dx, vertex g u -> ~ In u (unvis st) -> In x (unvis st) ->
      lookup u (dist st) = Some du -> lookup x (dist st) = Some dx -> du <= dx;
    p_relaxed : forall u du v w, vertex g u -> ~ In u (unvis st) ->
      lookup u (dist st) = Some du -> du < INF -> edge g u v w ->
      exists dv, lookup v (dist st) = Some dv /\ dv <= du + w;
    p_prev : forall v dv, lookup v (dist st) = Some dv -> dv < INF -> v <> src ->
      exists u w du, lookup v (prev st) = Some u /\ vertex g u /\ ~ In u (unvis st) /\
                     edge g u v w /\ lookup u (dist st) = Some du /\ dv = du + w
  }.

  Lemma ph1_step st st' u du :
    dtotal st -> Ph1 st -> In u (unvis st) -> lookup u (dist st) = Some du ->
    (forall x dx, In x (unvis st) -> lookup x (dist st) = Some dx -> du <= dx) ->
    (du = INF \/ du + WM < INF) ->
    step_rel st st' u du -> Ph1 st'.
  Proof.
    intros DT I Hu Qu Min Small (Uv & Ch & Rl).
    destruct I as [Ind Iuv Irng Isrc Isrcp Imon Irel Iprev].
    assert (Vu : vertex g u) by (apply Iuv; auto).
    pose proof (Irng _ _ Qu) as Ru.
    assert (InU' : forall x, In x (unvis st') <-> In x (unvis st) /\ x <> u).
    { intros x. rewrite Uv. apply remove1_In_NoDup. exact Ind. }
    assert (InR : forall x, In x (remove1 u (unvis st)) <-> In x (unvis st) /\ x <> u).
    { intros x. apply remove1_In_NoDup. exact Ind. }
    (* no wrap on a relaxation from u *)
    assert (NW : du <> INF -> forall x w, edge g u x w ->
                 wrap64 (du + w) = du + w /\ 0 <= du + w /\ du + w < INF /\ du < du + w).
    { intros Ne x w Ed. pose proof (Wts Ed). destruct Small as [S|S]; [contradiction|].
      assert (0 <= du + w) by lia. assert (du + w < INF) by lia.
      split; [apply wrap64_id; auto|]. lia. }
    assert (Unch : forall x, ~ In x (unvis st') -> unchanged st st' x).
    { intros x N. destruct (Ch x) as [A|(A & _)]; auto. exfalso. apply N. rewrite Uv. exact A. }
    assert (Mono : forall x dx, lookup x (dist st) = Some dx ->
                     exists dx', lookup x (dist st') = Some dx' /\ dx' <= dx).
    { intros x dx Q. destruct (Ch x) as [[A _]|(_ & Ne & w & dx0 & Ed & Q0 & Lt & Q' & _)].
      - exists dx. rewrite A. split; auto. lia.
      - rewrite Q in Q0. inversion Q0; subst dx0. eexists; split; [exact Q'|]. lia. }
    constructor.
    - rewrite Uv. apply remove1_NoDup. exact Ind.
    - intros x A. apply InU' in A. apply Iuv. tauto.
    - intros v dv' Q'. destruct (Ch v) as [[A _]|(Ix & Ne & w & dx & Ed & Q & Lt & Qn & _)].
      + rewrite A in Q'. apply (Irng _ _ Q').
      + destruct (NW Ne _ _ Ed) as (W1 & W2 & W3 & W4).
        rewrite Qn in Q'. inversion Q'; subst dv'. lia.
    - destruct (Ch src) as [[A _]|(Ix & Ne & w & dx & Ed & Q & Lt & Qn & _)].
      + rewrite A. exact Isrc.
      + destruct (NW Ne _ _ Ed) as (W1 & W2 & W3 & W4).
        rewrite Isrc in Q. inversion Q; subst dx. lia.
    - destruct (Ch src) as [[_ A]|(Ix & Ne & w & dx & Ed & Q & Lt & Qn & _)].
      + rewrite A. exact Isrcp.
      + destruct (NW Ne _ _ Ed) as (W1 & W2 & W3 & W4).
        rewrite Isrc in Q. inversion Q; subst dx. lia.
    - (* mono *) intros a x da dx' Va Na Ix Qa Qx.
      destruct (Unch a Na) as [Aa _]. rewrite Aa in Qa.
      assert (Ix0 := Ix). apply InU' in Ix0. destruct Ix0 as [Ix1 Nxu].
      assert (Lau : da <= du).
      { destruct (eq_dec_K a u) as [->|Nau].
        - rewrite Qu in Qa. inversion Qa. lia.
        - assert (Na' : ~ In a (unvis st)) by (intros C; apply Na; apply InU'; auto).
          apply (Imon _ _ _ _ Va Na' Hu Qa Qu). }
      destruct (Ch x) as [[A _]|(_ & Ne & w & dx & Ed & Q & Lt & Qn & _)].
      + rewrite A in Qx.
        destruct (eq_dec_K a u) as [->|Nau].
        * rewrite Qu in Qa. inversion Qa; subst da. apply (Min _ _ Ix1 Qx).
        * assert (Na' : ~ In a (unvis st)) by (intros C; apply Na; apply InU'; auto).
          apply (Imon _ _ _ _ Va Na' Ix1 Qa Qx).
      + destruct (NW Ne _ _ Ed) as (W1 & W2 & W3 & W4).
        rewrite Qn, W1 in Qx. inversion Qx; subst dx'. lia.
    - (* relaxed *) intros a da b w Va Na Qa Fa Ed.
      destruct (Unch a Na) as [Aa _]. rewrite Aa in Qa.
      destruct (edge_vertices WF Ed) as [_ Vb].
      destruct (eq_dec_K a u) as [->|Nau].
      + rewrite Qu in Qa. inversion Qa; subst da.
        assert (Ne : du <> INF) by lia.
        destruct (NW Ne _ _ Ed) as (W1 & W2 & W3 & W4).
        destruct (In_dec_K b (unvis st')) as [Ib|Nb].
        * rewrite Uv in Ib. destruct (Rl Ne _ _ Ed Ib) as (dv' & Q' & Le).
          exists dv'. split; auto. lia.
        * destruct (Unch b Nb) as [Ab _]. destruct (DT _ Vb) as (db & Qb).
          exists db. rewrite Ab. split; auto.
          destruct (eq_dec_K b u) as [->|Nbu].
          -- rewrite Qu in Qb. inversion Qb; subst. lia.
          -- assert (Nb' : ~ In b (unvis st)) by (intros C; apply Nb; apply InU'; auto).
             pose proof (Imon _ _ _ _ Vb Nb' Hu Qb Qu). lia.
      + assert (Na' : ~ In a (unvis st)) by (intros C; apply Na; apply InU'; auto).
        destruct (Irel _ _ _ _ Va Na' Qa Fa Ed) as (db & Qb & Le).
        destruct (Mono _ _ Qb) as (db' & Qb' & Le'). exists db'. split; auto. lia.
    - (* prev *) intros v dv Q' Fv Nvs.
      destruct (Ch v) as [[A B]|(Ix & Ne & w & dx & Ed & Q & Lt & Qn & Pn)].
      + rewrite A in Q'. destruct (Iprev _ _ Q' Fv Nvs) as (a & w & da & Pa & Va & Na & Ed & Qa & Eq).
        exists a, w, da. rewrite B. split; [exact Pa|]. split; [exact Va|].
        assert (Na' : ~ In a (unvis st')) by (intros C; apply Na; apply InU' in C; tauto).
        split; [exact Na'|]. split; [exact Ed|]. split; [|exact Eq].
        destruct (Unch a Na') as [Aa _]. rewrite Aa. exact Qa.
      + destruct (NW Ne _ _ Ed) as (W1 & W2 & W3 & W4).
        rewrite Qn, W1 in Q'. inversion Q'; subst dv.
        assert (Nu' : ~ In u (unvis st')) by (intros C; apply InU' in C; tauto).
        exists u, w, du. split; [exact Pn|]. split; [exact Vu|]. split; [exact Nu'|].
        split; [exact Ed|]. split; [|reflexivity].
        destruct (Unch u Nu') as [Au _]. rewrite Au. exact Qu.
  Qed.

  (* ---------- the vertex two cheap edges away ---------- *)
  Variables c x1 : K.
  Variable wc : Z.
  Hypothesis Hcs : c <> src.
  Hypothesis Hx1 : edge g src x1 1.
  Hypothesis Hx1c : edge g x1 c wc.
  Hypothesis Hin : forall a w, edge g a c w -> a <> src /\ wc <= w.

  Definition shape (unv : list K) (p : amap K K) : Prop :=
    ~ In c unv /\ exists X, lookup c p = Some X /\ lookup X p = Some src /\ lookup src p = None /\
      ~ In X unv /\ ~ In src unv /\ (exists w, edge g X c w) /\ (exists w, edge g src X w).

  Lemma ph1_shape st :
    dtotal st -> Ph1 st ->
    (forall x dx, In x (unvis st) -> lookup x (dist st) = Some dx -> 1 + wc < dx) ->
    shape (unvis st) (prev st).
  Proof.
    intros DT I Far.
    destruct I as [Ind Iuv Irng Isrc Isrcp Imon Irel Iprev].
    pose proof (Wts Hx1c) as Wc.
    destruct (edge_vertices WF Hx1) as [Vs Vx1].
    destruct (edge_vertices WF Hx1c) as [_ Vc].
    assert (Ns : ~ In src (unvis st)).
    { intros C. pose proof (Far _ _ C Isrc). lia. }
    destruct (Irel _ _ _ _ Vs Ns Isrc ltac:(unfold INF; lia) Hx1) as (d1 & Q1 & L1).
    assert (N1 : ~ In x1 (unvis st)).
    { intros C. pose proof (Far _ _ C Q1). lia. }
    pose proof (Irng _ _ Q1) as R1.
    destruct (Irel _ _ _ _ Vx1 N1 Q1 ltac:(unfold INF; lia) Hx1c) as (dc & Qc & Lc).
    assert (Nc : ~ In c (unvis st)).
    { intros C. pose proof (Far _ _ C Qc). lia. }
    pose proof (Irng _ _ Qc) as Rc.
    assert (Fc : dc < INF) by (unfold INF in *; lia).
    destruct (Iprev _ _ Qc Fc Hcs) as (X & w & dX & PX & VX & NX & EdX & QX & EqX).
    destruct (Hin EdX) as [NXs LwX].
    pose proof (Irng _ _ QX) as RX.
    assert (FX : dX < INF) by (unfold INF in *; lia).
    destruct (Iprev _ _ QX FX NXs) as (Y & w' & dY & PY & VY & NY & EdY & QY & EqY).
    pose proof (Wts EdY) as WY. pose proof (Irng _ _ QY) as RY.
    assert (Ys : Y = src).
    { destruct (eq_dec_K Y src) as [A|A]; [exact A|exfalso].
      assert (FY : dY < INF) by (unfold INF in *; lia).
      destruct (Iprev _ _ QY FY A) as (Z0 & w'' & dZ & _ & _ & _ & EdZ & QZ & EqZ).
      pose proof (Wts EdZ). pose proof (Irng _ _ QZ). lia. }
    subst Y.
    split; [exact Nc|]. exists X. repeat split; eauto.
  Qed.

  Lemma shape_step st st' u du :
    step_rel st st' u du -> shape (unvis st) (prev st) -> shape (unvis st') (prev st').
  Proof.
    intros SR (Nc & X & Pc & PX & Ps & NX & Ns & E1 & E2).
    pose proof (step_rel_frozen c SR Nc) as [_ Fc].
    pose proof (step_rel_frozen X SR NX) as [_ FX].
    pose proof (step_rel_frozen src SR Ns) as [_ Fs].
    split; [intros C; apply Nc; eapply step_rel_unvis; eauto|].
    exists X. rewrite Fc, FX, Fs.
    repeat split; auto; intros C; [apply NX|apply Ns]; eapply step_rel_unvis; eauto.
  Qed.

  Definition J (st : @dstate K) : Prop := dtotal st /\ (Ph1 st \/ shape (unvis st) (prev st)).

  Lemma J_step st u :
    J st -> is_min st u = true -> exists st', dstep g st u = Ok st' /\ J st'.
  Proof.
    intros [DT Ph] Hm.
    destruct (dstep_rel u DT Hm) as (st' & S & SR).
    exists st'. split; [exact S|]. split; [eapply step_rel_total; eauto|].
    destruct Ph as [I|Sh]; [|right; eapply shape_step; eauto].
    unfold is_min in Hm. apply andb_true_iff in Hm. destruct Hm as [Hu Hmin].
    apply memb_In in Hu. rewrite forallb_forall in Hmin.
    assert (Vu : vertex g u) by (apply (p_unvis I); auto).
    destruct (DT _ Vu) as (du & Qu).
    assert (Gu : getd (dist st) u = du) by (unfold getd; rewrite Qu; auto).
    rewrite Gu in SR.
    assert (Min : forall x dx, In x (unvis st) -> lookup x (dist st) = Some dx -> du <= dx).
    { intros x dx A Q. specialize (Hmin x A). rewrite Gu in Hmin. unfold getd in Hmin.
      rewrite Q in Hmin. apply Z.leb_le; auto. }
    pose proof (p_range I _ Qu) as Ru.
    destruct (Z.eq_dec du INF) as [Ei|Ni].
    - left. eapply ph1_step; eauto.
    - destruct (Z_lt_ge_dec (du + WM) INF) as [Sm|Bg].
      + left. eapply ph1_step; eauto.
      + right. eapply shape_step; eauto. apply ph1_shape; auto.
        intros x dx A Q. pose proof (Min _ _ A Q). pose proof (Wts Hx1c).
        unfold INF in *. lia.
  Qed.

  Lemma J_loop : forall pops st, J st ->
    (exists st', dloop g st pops = Ok st' /\ J st' /\ unvis st' = []) \/
    dloop g st pops = TapeErr SITE_POP.
  Proof.
    induction pops as [|u pops IH]; intros st Jst; simpl.
    - destruct (unvis st) eqn:Q; [left|right; reflexivity].
      exists st. auto.
    - destruct (is_min st u) eqn:M.
      + destruct (J_step u Jst M) as (st1 & S1 & J1). rewrite S1. simpl. apply IH. exact J1.
      + rewrite (dstep_not_min _ _ M). simpl. right. reflexivity.
  Qed.

  Lemma J_init : vertex g src -> exists st0, dinit g src = Ok st0 /\ J st0.
  Proof.
    intros Vs. unfold dinit.
    assert (M : memb src (g_vertex_keys g) = true) by (apply memb_In; exact Vs).
    rewrite M. eexists; split; [reflexivity|].
    split.
    - intros v Vv. simpl. rewrite dist0_lookup. destruct (eqb v src); eauto.
      assert (M' : memb v (g_vertex_keys g) = true) by (apply memb_In; exact Vv).
      rewrite M'. eauto.
    - left. constructor; simpl.
      + apply (wf_hash_nodup WF).
      + intros x A; exact A.
      + intros v dv. rewrite dist0_lookup. destruct (eqb v src).
        * intros Q; inversion Q; subst. unfold INF; lia.
        * destruct (memb v (g_vertex_keys g)); intros Q; inversion Q; subst. unfold INF; lia.
      + rewrite dist0_lookup, eqb_refl. reflexivity.
      + reflexivity.
      + intros u x du dx Vu Nu. exfalso. apply Nu. exact Vu.
      + intros u du v w Vu Nu. exfalso. apply Nu. exact Vu.
      + intros v dv. rewrite dist0_lookup. destruct (eqb_spec v src) as [->|Ne].
        * intros _ _ C. contradiction.
        * destruct (memb v (g_vertex_keys g)); intros Q F; inversion Q; subst. lia.
  Qed.

  (* the result: either the tape is rejected or the chain has the shape *)
  Theorem dijkstra_near (pops : list K) :
    (exists d p X, dijkstra g src pops = Ok (d, p) /\
       lookup c p = Some X /\ lookup X p = Some src /\ lookup src p = None /\
       (exists w, edge g X c w) /\ (exists w, edge g src X w)) \/
    dijkstra g src pops = TapeErr SITE_POP.
  Proof.
    destruct (edge_vertices WF Hx1) as [Vs _].
    destruct (J_init Vs) as (st0 & D0 & J0).
    unfold dijkstra. rewrite D0. simpl.
    destruct (J_loop pops J0) as [(st' & DL & [DT Ph] & Uv)|DL]; rewrite DL; simpl; [left|right; reflexivity].
    assert (Sh : shape (unvis st') (prev st')).
    { destruct Ph as [I|Sh]; [|exact Sh]. apply ph1_shape; auto.
      intros x dx A. rewrite Uv in A. destruct A. }
    destruct Sh as (_ & X & Pc & PX & Ps & _ & _ & E1 & E2).
    exists (dist st'), (prev st'), X. repeat split; auto.
  Qed.
End Near.

(* C06TotalLight.v -- the "light" totality facts about [reach], which need
   only the representation invariant of the call graph:
   - reach never runs out of fuel (C06_fuel_lemma),
   - Dijkstra never panics inside reach (Panic 100/101),
   - when every function vertex carries a function whose value sets cover
     its in-edges, the panics 401/402/403 are impossible. *)
From ArgMapper Require Import Base Graph GraphAlg GraphSpec GraphStatements Types Args GenWeights Resolver.
From ArgMapper.proofs Require Import C18DijkstraLemmas C18Dijkstra C19RefineMap C19RefineGraph
     C06TotalDijkstra C06TotalBase.
From Coq Require Import Lia ZArith List.
Import ListNotations.
Set Implicit Arguments.
Local Open Scope Z_scope.
Local Open Scope list_scope.

Lemma classify_todo_sub rd s : forall outs acc c,
  In c (snd (fold_left (classify_step rd s) outs acc)) -> In c (snd acc) \/ In c outs.
Proof.
  induction outs as [|o outs IH]; intros acc c A; simpl in A; [left; exact A|].
  apply IH in A. destruct A as [A|A]; [|right; right; exact A].
  destruct acc as [am todo]. unfold classify_step in A.
  assert (G : In c (todo ++ [o]) -> In c todo \/ In c (o :: outs)).
  { intros B. apply in_app_or in B. destruct B as [B|[<-|[]]]; [left; exact B|right; left; reflexivity]. }
  destruct o as [|ft|n t st|t st|t st]; simpl in A; auto.
  - destruct rd; simpl in A; auto. destruct (lookup (KVal n t st) (s_vals s)); simpl in A; auto.
  - destruct (lookup (KArg t st) (s_vals s)); simpl in A; auto.
Qed.

Lemma leave_inprog target s I0 : s_inprog s = target :: I0 -> s_inprog (leave target s) = I0.
Proof. unfold leave. cbn [s_inprog set_inprog]. intros ->. apply remove1_head. Qed.

Section Light.
  Variable u : universe.
  Variable behave : behaviour.
  Variable g : rgraph.
  Variable redefine : bool.
  Hypothesis WF : wf_graph g.
  Hypothesis Vroot : vertex g KRoot.

  (* every function vertex carries a function whose value sets know all in-edges *)
  Definition out_key_ok (f : fdecl) (k : vkey) : Prop :=
    match k with
    | KVal n _ _ => last_named n (fn_out f) 0 None <> None
    | KOut t _ => last_typed t (fn_out f) 0 None <> None
    | _ => True
    end.
  Definition funcs_ok : Prop :=
    forall ft, vertex g (KFunc ft) ->
      exists f, g_vertex g (KFunc ft) = Some (PFunc f) /\
                forall k, In k (g_in_keys g (KFunc ft)) -> out_key_ok f k.

  Variable strict : bool.
  Hypothesis Hstrict : strict = true -> funcs_ok.

  Definition panic_ok (n : N) : Prop :=
    n = 400%N \/ n = 404%N \/ (strict = false /\ (n = 401%N \/ n = 402%N \/ n = 403%N)).

  Definition lightP {A} (P : A -> Prop) (r : res A) : Prop :=
    match r with Ok a => P a | TapeErr _ => True | Panic n => panic_ok n | OutOfFuel => False end.

  Lemma lightP_bind {A B} (P : A -> Prop) (Q : B -> Prop) (r : res A) (f : A -> res B) :
    lightP P r -> (forall a, P a -> lightP Q (f a)) -> lightP Q (bind r f).
  Proof. destruct r; simpl; auto; tauto. Qed.

  Lemma lightP_imp {A} (P Q : A -> Prop) (r : res A) :
    lightP P r -> (forall a, P a -> Q a) -> lightP Q r.
  Proof. destruct r; simpl; auto. Qed.

  (* ---------- plan ---------- *)
  Lemma vertex_same_hash (g1 g2 : rgraph) k : ghash g1 = ghash g2 -> vertex g1 k -> vertex g2 k.
  Proof. unfold vertex. intros ->. auto. Qed.

  Lemma plan_light cur s :
    vertex g cur ->
    lightP (fun r => let '(path, bad, s') := r in
                     s_inprog s' = s_inprog s /\
                     bad = existsb (fun v => memb v (s_inprog s)) path /\
                     forall v, In v path -> vertex g v) (plan g redefine cur s).
  Proof.
    intros Vc. unfold plan.
    destruct (same_shape_discount WF cur) as (Wc & Hc & _ & _).
    set (cg := discount g cur) in *.
    destruct (g_reverse_spec Wc) as (Wr & Hr & _).
    assert (Vr : vertex (g_reverse cg) KRoot).
    { apply vertex_same_hash with (g1 := g); [|exact Vroot]. rewrite Hr, Hc. reflexivity. }
    destruct (dijkstra_t_light KRoot (s_tape s) Wr Vr) as [(d & p & t' & D & Pe & Pc)|D]; rewrite D; cbn [bind];
      [|exact I].
    unfold edge_to_path.
    destruct (Pc cur (S (length (g_vertex_keys cg)))) as (l & Et & C).
    { unfold g_vertex_keys. rewrite Hr. lia. }
    rewrite Et. cbn [bind].
    assert (Vl : forall v, In v l -> vertex g v).
    { apply (@chain_vertices _ _ (fun v => vertex g v) p) with (v := cur); auto.
      intros v a Q. destruct (Pe _ _ Q) as (w & Ed).
      destruct (edge_vertices Wr Ed) as [Va _].
      apply vertex_same_hash with (g1 := g_reverse cg); [|exact Va]. rewrite Hr, Hc. reflexivity. }
    split; [|split; [reflexivity|exact Vl]].
    destruct redefine; [|reflexivity].
    match goal with |- context [match ?i with KRoot => _ | _ => _ end] => destruct i end; try reflexivity.
    match goal with |- context [if ?c then _ else _] => destruct c end; reflexivity.
  Qed.

  Lemma plan_all_light todo s :
    (forall c, In c todo -> vertex g c) ->
    lightP (fun r => let '(paths, unsat, s') := r in
                     s_inprog s' = s_inprog s /\
                     (forall path v, In path paths -> In v path -> vertex g v) /\
                     (unsat = [] -> forall path v, In path paths -> In v path -> ~ In v (s_inprog s)))
           (plan_all g redefine todo s).
  Proof.
    unfold plan_all.
    assert (G : forall todo acc,
      (forall c, In c todo -> vertex g c) ->
      lightP (fun r => let '(paths, unsat, s') := r in
                       s_inprog s' = s_inprog s /\
                       (forall path v, In path paths -> In v path -> vertex g v) /\
                       (unsat = [] -> forall path v, In path paths -> In v path -> ~ In v (s_inprog s))) acc ->
      lightP (fun r => let '(paths, unsat, s') := r in
                       s_inprog s' = s_inprog s /\
                       (forall path v, In path paths -> In v path -> vertex g v) /\
                       (unsat = [] -> forall path v, In path paths -> In v path -> ~ In v (s_inprog s)))
             (fold_left (plan_step g redefine) todo acc)).
    { clear todo. induction todo as [|c todo IH]; intros acc Vt Hacc; simpl; [exact Hacc|].
      apply IH; [intros c' A; apply Vt; right; exact A|].
      unfold plan_step. eapply lightP_bind; [exact Hacc|].
      intros [[paths unsat] s1] (I1 & V1 & U1).
      eapply lightP_bind; [apply plan_light; apply Vt; left; reflexivity|].
      intros [[path bad] s2] (I2 & Bd & V2). simpl.
      split; [congruence|]. split.
      - intros path' v A B. apply in_app_or in A. destruct A as [A|[<-|[]]]; eauto.
      - intros Un path' v A B. destruct bad eqn:Eb.
        + destruct unsat; discriminate.
        + apply in_app_or in A. destruct A as [A|[<-|[]]]; [eapply U1; eauto|].
          intros C. symmetry in Bd. rewrite I1 in Bd.
          assert (existsb (fun v0 => memb v0 (s_inprog s)) path = true); [|congruence].
          apply existsb_exists. exists v. split; auto. apply memb_In; auto. }
    intros Vt. apply G; auto. simpl. split; [reflexivity|]. split; [intros ? ? []|intros _ ? ? []].
  Qed.

  (* ---------- callDirect / outputValues ---------- *)
  Lemma call_direct_light f am s :
    lightP (fun r => s_inprog (snd r) = s_inprog s) (call_direct u behave redefine f am s).
  Proof.
    unfold call_direct.
    destruct (if fn_once f then lookup (fn_id f) (s_world s) else None); [reflexivity|].
    destruct (existsb _ _); [left; reflexivity|].
    destruct (existsb _ _); [reflexivity|].
    destruct redefine; [reflexivity|].
    destruct (behave (fn_id f) (s_nexec s + 1)); reflexivity.
  Qed.

  Lemma output_values_light f r ins s :
    (strict = true -> forall k, In k ins -> out_key_ok f k) ->
    lightP (fun s' => s_inprog s' = s_inprog s) (output_values f r ins s).
  Proof.
    unfold output_values.
    assert (G : forall ins acc,
      (strict = true -> forall k, In k ins -> out_key_ok f k) ->
      lightP (fun s' => s_inprog s' = s_inprog s) acc ->
      lightP (fun s' => s_inprog s' = s_inprog s)
        (fold_left (fun acc k =>
           do s <- acc;
           match k with
           | KVal n _ _ => match last_named n (fn_out f) 0 None with
                           | Some (i, _) => Ok (set_val s k (nth_error (r_fields r) i))
                           | None => Panic 401%N
                           end
           | KOut t _ => match last_typed t (fn_out f) 0 None with
                         | Some (i, _) => Ok (set_val s k (nth_error (r_fields r) i))
                         | None => Panic 402%N
                         end
           | _ => Ok s
           end) ins acc)).
    { clear ins. induction ins as [|k ins IH]; intros acc Hk Hacc; simpl; [exact Hacc|].
      apply IH; [intros St k' A; apply Hk; auto; right; exact A|].
      eapply lightP_bind; [exact Hacc|]. intros s1 I1.
      assert (Hk0 : strict = true -> out_key_ok f k) by (intros St; apply Hk; auto; left; reflexivity).
      destruct k as [|ft|n t st|t st|t st]; simpl; auto.
      - destruct (last_named n (fn_out f) 0 None) as [[i fld]|] eqn:Q; simpl.
        + destruct (nth_error (r_fields r) i); exact I1.
        + destruct strict eqn:St; [exfalso; apply (Hk0 eq_refl); exact Q|].
          right; right. auto.
      - destruct (last_typed t (fn_out f) 0 None) as [[i fld]|] eqn:Q; simpl.
        + destruct (nth_error (r_fields r) i); exact I1.
        + destruct strict eqn:St; [exfalso; apply (Hk0 eq_refl); exact Q|].
          right; right. auto. }
    intros Hk. apply G; auto. reflexivity.
  Qed.

  (* ---------- the walk ---------- *)
  Section Walk.
    Variable rec : vkey -> rstate -> res (rstate * (argmap + rerr)).
    Variable L : list vkey.
    Hypothesis Hrec : forall ft s, vertex g (KFunc ft) -> ~ In (KFunc ft) L -> s_inprog s = L ->
      lightP (fun r => s_inprog (fst r) = L) (rec (KFunc ft) s).

    Lemma walk_func_light ft s :
      vertex g (KFunc ft) -> ~ In (KFunc ft) L -> s_inprog s = L ->
      lightP (fun r => s_inprog (fst r) = L) (walk_func u behave g redefine rec (KFunc ft) s).
    Proof.
      intros Vv Nv Is. unfold walk_func.
      assert (Fk : strict = true -> exists f, g_vertex g (KFunc ft) = Some (PFunc f) /\
                     forall k, In k (g_in_keys g (KFunc ft)) -> out_key_ok f k)
        by (intros St; apply (Hstrict St); exact Vv).
      destruct (g_vertex g (KFunc ft)) as [[|f]|] eqn:Qv.
      - destruct strict eqn:St; [destruct (Fk eq_refl) as (f & Q & _); discriminate|].
        right; right; auto.
      - eapply lightP_bind; [apply Hrec; auto|].
        intros [s1 [fam|e]] I1; simpl in I1; [|exact I1].
        eapply lightP_bind; [apply call_direct_light|].
        intros [res s2] I2; simpl in I2.
        destruct (r_builderr res); [simpl; congruence|].
        destruct (r_err res); [simpl; congruence|].
        destruct (take_perm_cases SITE_REACH_IN (g_in_keys g (KFunc ft)) (s_tape s2))
          as [(ins & t' & Q & Hin)|Q]; rewrite Q; cbn [bind]; [|exact I].
        eapply lightP_bind.
        + apply output_values_light. intros St k A.
          destruct (Fk St) as (f' & Q' & Ok'). inversion Q'; subst f'. apply Ok'. apply Hin. exact A.
        + intros s3 I3. simpl in *. congruence.
      - destruct strict eqn:St; [destruct (Fk eq_refl) as (f & Q & _); discriminate|].
        right; right; auto.
    Qed.

    Lemma walk_light : forall vs prev final s,
      s_inprog s = L -> (forall v, In v vs -> vertex g v /\ ~ In v L) ->
      lightP (fun r => s_inprog (fst r) = L) (walk u behave g redefine rec prev vs final s).
    Proof.
      induction vs as [|v vs IH]; intros prev final s Is Hv; [exact Is|].
      assert (Hv' : forall v', In v' vs -> vertex g v' /\ ~ In v' L) by (intros v' A; apply Hv; right; exact A).
      destruct (Hv v (or_introl eq_refl)) as [Vv Nv].
      destruct v as [|ft|n t st|t st|t st].
      - cbn [walk]. apply IH; auto.
      - rewrite walk_func_eq. eapply lightP_bind; [apply walk_func_light; auto|].
        intros [s1 [e|]] I1; simpl in I1; [exact I1|]. apply IH; auto.
      - cbn [walk]. apply IH; auto.
        destruct prev as [[| |n2 t2 s2| |]|]; try exact Is.
        destruct (lookup (KVal n2 t2 s2) (s_vals s)); exact Is.
      - cbn [walk]. apply IH; auto.
        destruct (s_last s); [|exact Is]. destruct (assignable u (v_ty v) t); exact Is.
      - cbn [walk]. apply IH; auto.
        destruct prev as [[| | | |]|]; exact Is.
    Qed.

    Lemma walk_paths_light target I0 : forall paths am s,
      L = target :: I0 -> s_inprog s = L ->
      (forall path v, In path paths -> In v path -> vertex g v /\ ~ In v L) ->
      lightP (fun r => s_inprog (fst r) = I0) (walk_paths u behave g redefine rec target paths am s).
    Proof.
      induction paths as [|path rest IH]; intros am s EL Is Hp; cbn [walk_paths].
      - change (s_inprog (leave target s) = I0). apply leave_inprog. congruence.
      - eapply lightP_bind; [apply walk_light with (s := s); auto; intros v A; apply (Hp path); auto; left; reflexivity|].
        intros [s1 [[fv|]|e]] I1; simpl in I1.
        + apply IH; auto. intros p v A B. apply (Hp p); auto. right; exact A.
        + right; left; reflexivity.
        + change (s_inprog (leave target s1) = I0). apply leave_inprog. congruence.
    Qed.
  End Walk.

  (* ---------- the fuel measure ---------- *)
  Definition pending (inprog : list vkey) : nat :=
    length (filter (fun k => is_func k && negb (memb k inprog)) (g_vertex_keys g)).

  Lemma pending_le inprog : (pending inprog <= length (g_vertex_keys g))%nat.
  Proof.
    unfold pending. induction (g_vertex_keys g) as [|x l IH]; simpl; [lia|].
    destruct (is_func x && negb (memb x inprog)); simpl; lia.
  Qed.

  Lemma pending_cons v inprog :
    vertex g v -> is_func v = true -> ~ In v inprog -> (pending (v :: inprog) < pending inprog)%nat.
  Proof.
    intros Vv Fv Nv. unfold pending. apply filter_length_lt with (v := v); auto.
    - intros x. rewrite !andb_true_iff, !negb_true_iff. simpl. intros [A B].
      apply orb_false_iff in B. tauto.
    - rewrite Fv. simpl. apply negb_true_iff. apply memb_false. exact Nv.
    - rewrite Fv. cbn [memb andb]. rewrite Base.eqb_refl. reflexivity.
  Qed.

  Theorem reach_light : forall fuel target s,
    (pending (target :: s_inprog s) < fuel)%nat ->
    lightP (fun r => s_inprog (fst r) = s_inprog s) (reach u behave g redefine fuel target s).
  Proof.
    induction fuel as [|fuel IH]; intros target s Lt; [lia|].
    rewrite reach_S. unfold reach_body.
    set (s1 := set_inprog s (target :: s_inprog s)).
    destruct (take_perm_cases SITE_REACH_OUT (g_out_keys g target) (s_tape s1))
      as [(outs & t' & Q & Hout)|Q]; rewrite Q; cbn [bind]; [|exact I].
    set (s2 := set_tape s1 t').
    destruct (classify redefine s2 outs) as [am todo] eqn:Cl.
    assert (Vt : forall c, In c todo -> vertex g c).
    { intros c A.
      assert (G : In c (snd (classify redefine s2 outs)) -> In c (@nil vkey) \/ In c outs)
        by (apply (@classify_todo_sub redefine s2 outs ([], []) c)).
      rewrite Cl in G. destruct (G A) as [B|B]; [destruct B|].
      apply Hout in B. apply out_keys_Eg in B. destruct B as (w & Qe).
      apply (Eg_vertices _ _ WF Qe). }
    destruct todo as [|c0 todo].
    - change (s_inprog (leave target s2) = s_inprog s). apply leave_inprog. reflexivity.
    - eapply lightP_bind; [apply plan_all_light; exact Vt|].
      intros [[paths unsat] s3] (I3 & Vp & Up).
      destruct unsat as [|x unsat].
      + apply walk_paths_light with (L := target :: s_inprog s) (I0 := s_inprog s); auto.
        * intros ft s' Vv Nv Is. eapply lightP_imp; [apply IH|].
          -- rewrite Is. pose proof (@pending_cons (KFunc ft) (target :: s_inprog s) Vv eq_refl Nv). lia.
          -- intros [s'' r] Q'. simpl in *. congruence.
        * intros path v A B. split; [eapply Vp; eauto|]. apply (Up eq_refl path v A B).
      + change (s_inprog (leave target s3) = s_inprog s). apply leave_inprog. rewrite I3. reflexivity.
  Qed.
End Light.

(* ---------- the deliverables ---------- *)
(* (2) reach never runs out of fuel *)
Theorem C06_fuel_lemma :
  forall u behave (g : rgraph) redefine fuel target s,
    wf_graph g -> vertex g KRoot ->
    (length (g_vertex_keys g) < fuel)%nat -> s_inprog s = [] ->
    reach u behave g redefine fuel target s <> OutOfFuel.
Proof.
  intros u behave g rd fuel target s WF Vr Lt Is.
  assert (H : lightP false (fun r => s_inprog (fst r) = s_inprog s) (reach u behave g rd fuel target s)).
  { apply reach_light; auto; [discriminate|].
    pose proof (pending_le g (target :: s_inprog s)). lia. }
  intros Q. rewrite Q in H. exact H.
Qed.

(* (3) neither Dijkstra nor the value-set lookups nor a missing function can panic *)
Theorem C06_no_panic_graph :
  forall u behave (g : rgraph) redefine fuel target s n,
    wf_graph g -> vertex g KRoot -> funcs_ok g ->
    (length (g_vertex_keys g) < fuel)%nat -> s_inprog s = [] ->
    reach u behave g redefine fuel target s = Panic n -> n = 400%N \/ n = 404%N.
Proof.
  intros u behave g rd fuel target s n WF Vr Fk Lt Is Q.
  assert (H : lightP true (fun r => s_inprog (fst r) = s_inprog s) (reach u behave g rd fuel target s)).
  { apply reach_light; auto.
    pose proof (pending_le g (target :: s_inprog s)). lia. }
  rewrite Q in H. destruct H as [H|[H|[H _]]]; auto. discriminate.
Qed.

(* C0213UnsatDijkstra.v -- completeness of the model's Dijkstra for graphs
   whose weights are small (|w| <= 20, negative weights allowed) and whose
   size keeps every tentative distance away from the representable
   infinity: every vertex reachable from the source gets a predecessor
   chain that leads back to the source over existing edges. *)
From ArgMapper Require Import Base Graph GraphAlg GraphSpec GraphStatements.
From ArgMapper.proofs Require Import C18DijkstraLemmas C18Dijkstra C19RefineMap C19RefineGraph C0213UnsatGraph.
From Coq Require Import List Lia ZArith.
Import ListNotations.
Set Implicit Arguments.
Local Open Scope Z_scope.

Section Dij.
  Context {K : Type} {E : EqDec K} {V : Type}.
  Notation graph := (graph K V).

  Lemma wrap64_id' z : - INF <= z -> z < INF -> wrap64 z = z.
  Proof.
    intros A B. unfold wrap64, INF in *. rewrite Z.mod_small; lia.
  Qed.

  Inductive freach (H : graph) (src : K) : K -> Prop :=
  | fr_src : freach H src src
  | fr_step u v : freach H src u -> ew H u v <> None -> freach H src v.

  Variable H : graph.
  Variable src : K.
  Hypothesis W : wf_graph H.
  Hypothesis Wt : forall a b w, ew H a b = Some w -> -20 <= w <= 20.
  Let n0 := length (g_vertex_keys H).
  Hypothesis Small : 20 * Z.of_nat n0 < INF.

  Definition fin (st : @dstate K) (v : K) : Prop :=
    exists dv, lookup v (dist st) = Some dv /\ dv <> INF.

  Definition bnd (st : @dstate K) : Z := 20 * (Z.of_nat n0 - Z.of_nat (length (unvis st))).

  Record DJ (st : @dstate K) : Prop := {
    dj_nodup : NoDup (unvis st);
    dj_unvis_v : forall x, In x (unvis st) -> vtx H x <> None;
    dj_len : (length (unvis st) <= n0)%nat;
    dj_total : forall v, vtx H v <> None -> exists dv, lookup v (dist st) = Some dv;
    dj_bound : forall v dv, lookup v (dist st) = Some dv -> dv = INF \/ - bnd st <= dv <= bnd st;
    dj_relaxed : forall u v, vtx H u <> None -> ~ In u (unvis st) -> fin st u -> ew H u v <> None -> fin st v;
    dj_prev_or_src : forall v, fin st v -> v = src \/ lookup v (prev st) <> None;
    dj_prev : forall v u, lookup v (prev st) = Some u -> ew H u v <> None /\ fin st u /\ fin st v;
    dj_src : lookup src (prev st) = None /\ lookup src (dist st) = Some 0 /\
             (In src (unvis st) -> forall x, In x (unvis st) -> x <> src -> lookup x (dist st) = Some INF);
    dj_infpop : forall u, vtx H u <> None -> ~ In u (unvis st) -> lookup u (dist st) = Some INF ->
                          forall x, In x (unvis st) -> lookup x (dist st) = Some INF
  }.

  Lemma vtx_vertex (k : K) : vtx H k <> None <-> vertex H k.
  Proof. unfold vertex. symmetry. apply in_vertex_keys. Qed.

  Lemma dinit_DJ : vtx H src <> None -> exists st0, dinit H src = Ok st0 /\ DJ st0.
  Proof.
    intros Vs. unfold dinit.
    assert (M : memb src (g_vertex_keys H) = true) by (apply membT; apply in_vertex_keys; exact Vs).
    rewrite M. eexists; split; [reflexivity|].
    assert (LK : forall v, lookup v (insert src 0 (map (fun k => (k, INF)) (g_vertex_keys H))) =
                           if eqb v src then Some 0 else if memb v (g_vertex_keys H) then Some INF else None).
    { intros v. apply dist0_lookup. }
    constructor; simpl.
    - apply (wf_hash_nodup W).
    - intros x I. apply in_vertex_keys. exact I.
    - unfold n0. lia.
    - intros v Vv. rewrite LK. destruct (eqb v src); [eauto|].
      assert (M' : memb v (g_vertex_keys H) = true) by (apply membT; apply in_vertex_keys; exact Vv).
      rewrite M'. eauto.
    - intros v dv. rewrite LK. unfold bnd. cbn [unvis]. unfold n0. destruct (eqb v src).
      + intros Q; inversion Q; subst. right. lia.
      + destruct (memb v (g_vertex_keys H)); intros Q; inversion Q; subst. left; reflexivity.
    - intros u v Vu Nu. exfalso. apply Nu. apply in_vertex_keys. exact Vu.
    - intros v (dv & Q & Ne). rewrite LK in Q. destruct (eqb_spec v src) as [->|N]; [left; reflexivity|].
      destruct (memb v (g_vertex_keys H)); inversion Q; subst. contradiction Ne; reflexivity.
    - intros v u Q. discriminate.
    - split; [reflexivity|]. split.
      + rewrite LK, eqb_refl. reflexivity.
      + intros _ x Ix Nx. rewrite LK. destruct (eqb_spec x src) as [->|_]; [contradiction Nx; reflexivity|].
        apply membT in Ix. rewrite Ix. reflexivity.
    - intros u Vu Nu. exfalso. apply Nu. apply in_vertex_keys. exact Vu.
  Qed.

  Lemma es_edge (u x : K) (w : Z) : In (x, w) (inner (gout H) u) -> ew H u x = Some w.
  Proof.
    intros A. unfold ew. unfold inner in *.
    destruct (lookup u (gout H)) as [i|] eqn:Q; [|destruct A].
    apply In_lookup; [|exact A]. apply (wf_inner_out_nodup W _ Q).
  Qed.

  Lemma edge_es (u x : K) (w : Z) : ew H u x = Some w -> In (x, w) (inner (gout H) u).
  Proof. unfold ew. apply lookup_In. Qed.

  Lemma dstep_DJ (st : @dstate K) (u : K) (st' : @dstate K) :
    DJ st -> dstep H st u = Ok st' -> DJ st'.
  Proof.
    intros I S. unfold dstep in S.
    destruct (is_min st u) eqn:Hm; [|discriminate].
    unfold is_min in Hm. apply andb_true_iff in Hm. destruct Hm as [Hu Hmin].
    apply membT in Hu. rewrite forallb_forall in Hmin.
    destruct I as [Ind Iuv Ilen Itot Ibnd Irel Ipos Iprev Isrc Iinf].
    assert (Vu : vtx H u <> None) by (apply Iuv; exact Hu).
    destruct (Itot _ Vu) as (du & Qu).
    assert (Gu : getd (dist st) u = du) by (unfold getd; rewrite Qu; reflexivity).
    rewrite Gu in S.
    assert (Min : forall x dx, In x (unvis st) -> lookup x (dist st) = Some dx -> du <= dx).
    { intros x dx A Q. specialize (Hmin x A). rewrite Gu in Hmin. unfold getd in Hmin.
      rewrite Q in Hmin. apply Z.leb_le. exact Hmin. }
    assert (InU' : forall x, In x (remove1 u (unvis st)) <-> In x (unvis st) /\ x <> u).
    { intros x. apply remove1_In_NoDup. exact Ind. }
    pose proof (remove1_length u (unvis st) Hu) as Len1.
    set (st1 := mkD (remove1 u (unvis st)) (dist st) (prev st)) in *.
    assert (B1 : bnd st1 = bnd st + 20).
    { unfold bnd, st1. cbn [unvis]. lia. }
    assert (B1le : bnd st1 <= 20 * Z.of_nat n0).
    { unfold bnd, st1. cbn [unvis]. lia. }
    assert (B0 : 0 <= bnd st) by (unfold bnd; lia).
    destruct (du =? INF) eqn:Einf.
    - (* nothing reachable is left *)
      apply Z.eqb_eq in Einf. inversion S; subst st'; clear S.
      assert (AllInf : forall x, In x (unvis st) -> lookup x (dist st) = Some INF).
      { intros x Ix. destruct (Itot x (Iuv x Ix)) as (dx & Qx).
        pose proof (Min x dx Ix Qx) as Le. destruct (Ibnd _ _ Qx) as [->|Bd]; [exact Qx|].
        exfalso. lia. }
      constructor; simpl.
      + apply remove1_NoDup. exact Ind.
      + intros x Ix. apply InU' in Ix. apply Iuv. apply Ix.
      + lia.
      + exact Itot.
      + intros v dv Q. destruct (Ibnd _ _ Q) as [->|Bd]; [left; reflexivity|right]. rewrite B1. lia.
      + intros u0 v Vu0 Nu0 Fu0 Euv.
        destruct (eq_dec_K u0 u) as [->|Ne].
        * exfalso. destruct Fu0 as (d0 & Q0 & N0). simpl in Q0. rewrite Qu in Q0. inversion Q0; subst. contradiction.
        * assert (Nu : ~ In u0 (unvis st)) by (intros C; apply Nu0; apply InU'; split; assumption).
          apply (Irel u0 v Vu0 Nu Fu0 Euv).
      + exact Ipos.
      + exact Iprev.
      + destruct Isrc as (S1 & S2 & S3). split; [exact S1|]. split; [exact S2|].
        intros Is x Ix Nx. apply InU' in Is. apply InU' in Ix. apply S3; tauto.
      + intros u0 _ _ _ x Ix. apply InU' in Ix. apply AllInf. apply Ix.
    - apply Z.eqb_neq in Einf.
      destruct (Ibnd _ _ Qu) as [C|Bu]; [contradiction|].
      destruct (relax_fold u du (inner (gout H) u) st1) as (st2 & Fold & Uv & Ch & Rl).
      { intros v w A. simpl. apply Itot. apply es_edge in A.
        assert (N : ew H u v <> None) by (rewrite A; discriminate).
        apply (ew_closed _ _ W N). }
      rewrite Fold in S. inversion S; subst st'; clear S. simpl in Uv, Ch, Rl.
      assert (Wr : forall x w, In (x, w) (inner (gout H) u) ->
                   wrap64 (du + w) = du + w /\ - bnd st1 <= du + w <= bnd st1).
      { intros x w A. apply es_edge in A. pose proof (Wt _ _ A) as Ww.
        split; [apply wrap64_id'|]; lia. }
      assert (Unch : forall x, ~ In x (remove1 u (unvis st)) ->
                     lookup x (dist st2) = lookup x (dist st) /\ lookup x (prev st2) = lookup x (prev st)).
      { intros x Nx. destruct (Ch x) as [A|(Ix & _)]; [exact A|contradiction]. }
      assert (FinMono : forall v, fin st v -> fin st2 v).
      { intros v (dv & Q & Ne). destruct (Ch v) as [[A _]|(Ix & w & dx & A & Q0 & Lt & Qn & Pn)].
        - exists dv. rewrite A. split; assumption.
        - destruct (Wr _ _ A) as [Wq Bd]. rewrite Wq in Qn. exists (du + w). split; [exact Qn|]. lia. }
      assert (NoInfPopped : forall v, vtx H v <> None -> ~ In v (unvis st) -> fin st v).
      { intros v Vv Nv. destruct (Itot v Vv) as (dv & Qv). exists dv. split; [exact Qv|].
        intros ->. pose proof (Iinf v Vv Nv Qv u Hu) as Q. rewrite Qu in Q. inversion Q. contradiction. }
      assert (FinU : fin st2 u).
      { destruct (Unch u) as [A _]; [intros C; apply InU' in C; destruct C as [_ C]; apply C; reflexivity|].
        exists du. rewrite A. split; assumption. }
      constructor.
      + rewrite Uv. apply remove1_NoDup. exact Ind.
      + rewrite Uv. intros x Ix. apply InU' in Ix. apply Iuv. apply Ix.
      + rewrite Uv. lia.
      + intros v Vv. destruct (Itot v Vv) as (dv & Qv).
        destruct (Ch v) as [[A _]|(Ix & w & dx & A & Q0 & Lt & Qn & Pn)]; [rewrite A; eauto|eauto].
      + intros v dv Q.
        assert (Bq : bnd st2 = bnd st1) by (unfold bnd; rewrite Uv; reflexivity).
        rewrite Bq.
        destruct (Ch v) as [[A _]|(Ix & w & dx & A & Q0 & Lt & Qn & Pn)].
        * rewrite A in Q. destruct (Ibnd _ _ Q) as [->|Bd]; [left; reflexivity|right; lia].
        * destruct (Wr _ _ A) as [Wq Bd]. rewrite Wq in Qn. rewrite Qn in Q. inversion Q; subst. right. exact Bd.
      + intros u0 v Vu0 Nu0 Fu0 Euv. rewrite Uv in Nu0.
        destruct (eq_dec_K u0 u) as [->|Ne].
        * destruct (ew H u v) as [w|] eqn:Qe; [|contradiction Euv; reflexivity].
          pose proof (edge_es _ _ Qe) as A.
          destruct (In_dec_K v (remove1 u (unvis st))) as [Iv|Nv].
          -- destruct (Rl v w A Iv) as (dv' & Qv' & Le). destruct (Wr _ _ A) as [Wq Bd].
             exists dv'. split; [exact Qv'|]. lia.
          -- destruct (eq_dec_K v u) as [->|Nvu]; [exact FinU|].
             apply FinMono. apply NoInfPopped.
             ++ assert (N : ew H u v <> None) by (rewrite Qe; discriminate). apply (ew_closed _ _ W N).
             ++ intros C. apply Nv. apply InU'. split; assumption.
        * assert (Nu : ~ In u0 (unvis st)) by (intros C; apply Nu0; apply InU'; split; assumption).
          apply FinMono. apply (Irel u0 v Vu0 Nu); [|exact Euv].
          destruct Fu0 as (d0 & Q0 & N0). destruct (Unch u0 Nu0) as [A _]. rewrite A in Q0.
          exists d0. split; assumption.
      + intros v Fv. destruct (Ch v) as [[A B]|(Ix & w & dx & A & Q0 & Lt & Qn & Pn)].
        * rewrite B. apply Ipos. destruct Fv as (dv & Q & Ne). rewrite A in Q. exists dv. split; assumption.
        * right. rewrite Pn. discriminate.
      + intros v u0 Q. destruct (Ch v) as [[A B]|(Ix & w & dx & A & Q0 & Lt & Qn & Pn)].
        * rewrite B in Q. destruct (Iprev _ _ Q) as (Ee & Fu0 & Fv).
          split; [exact Ee|]. split; apply FinMono; assumption.
        * rewrite Pn in Q. inversion Q; subst u0. split; [|split].
          -- apply es_edge in A. rewrite A. discriminate.
          -- exact FinU.
          -- destruct (Wr _ _ A) as [Wq Bd]. rewrite Wq in Qn. exists (du + w). split; [exact Qn|]. lia.
      + destruct Isrc as (S1 & S2 & S3).
        assert (Ns : ~ In src (remove1 u (unvis st))).
        { intros C. apply InU' in C. destruct C as [C1 C2].
          assert (Q : lookup u (dist st) = Some INF) by (apply S3; auto).
          rewrite Qu in Q. inversion Q. contradiction. }
        destruct (Unch src Ns) as [A B]. rewrite A, B. split; [exact S1|]. split; [exact S2|].
        rewrite Uv. intros C. contradiction.
      + intros u0 Vu0 Nu0 Q0. exfalso. rewrite Uv in Nu0.
        destruct (Unch u0 Nu0) as [A _]. rewrite A in Q0.
        destruct (eq_dec_K u0 u) as [->|Ne].
        * rewrite Qu in Q0. inversion Q0. contradiction.
        * assert (Nu : ~ In u0 (unvis st)) by (intros C; apply Nu0; apply InU'; split; assumption).
          pose proof (Iinf u0 Vu0 Nu Q0 u Hu) as Q. rewrite Qu in Q. inversion Q. contradiction.
  Qed.

  Lemma dloop_DJ : forall pops st st', DJ st -> dloop H st pops = Ok st' -> DJ st' /\ unvis st' = [].
  Proof.
    induction pops as [|u pops IH]; intros st st' I D; simpl in D.
    - destruct (unvis st) eqn:Q; [|discriminate]. inversion D; subst. auto.
    - destruct (dstep H st u) as [st1| | |] eqn:S1; simpl in D; try discriminate.
      eapply IH; [|exact D]. eapply dstep_DJ; eauto.
  Qed.

  Theorem dij_complete pops d p :
    vtx H src <> None -> dijkstra H src pops = Ok (d, p) ->
    lookup src p = None /\
    (forall v u, lookup v p = Some u -> ew H u v <> None /\ (u = src \/ lookup u p <> None)) /\
    (forall v, freach H src v -> v = src \/ lookup v p <> None).
  Proof.
    intros Vs Dj. unfold dijkstra in Dj.
    destruct (dinit_DJ Vs) as (st0 & D0 & I0). rewrite D0 in Dj. simpl in Dj.
    destruct (dloop H st0 pops) as [st| | |] eqn:DL; simpl in Dj; try discriminate.
    inversion Dj; subst d p; clear Dj.
    destruct (dloop_DJ _ I0 DL) as [I Uv].
    destruct I as [Ind Iuv Ilen Itot Ibnd Irel Ipos Iprev Isrc Iinf].
    split; [apply Isrc|]. split.
    - intros v u Q. destruct (Iprev _ _ Q) as (Ee & Fu & _). split; [exact Ee|]. apply Ipos. exact Fu.
    - intros v R.
      assert (F : fin st v).
      { induction R as [|u v R IH Euv].
        - exists 0. split; [apply Isrc|]. unfold INF. lia.
        - apply (Irel u v); [apply (ew_closed _ _ W Euv)|rewrite Uv; intros []|exact IH|exact Euv]. }
      apply Ipos. exact F.
  Qed.

  (* ---------- the path read back from the predecessor map ---------- *)
  Lemma etp_chain_inv p : forall fuel v acc path,
    etp fuel p v acc = Ok path -> exists l, chain p v l /\ path = l ++ acc.
  Proof.
    induction fuel as [|f IH]; intros v acc path Q; simpl in Q; [discriminate|].
    destruct (lookup v p) as [q|] eqn:Qp.
    - destruct (IH _ _ _ Q) as (l & C & ->). exists (l ++ [v]). split.
      + eapply chain_step; eauto.
      + rewrite <- app_assoc. reflexivity.
    - inversion Q; subst. exists [v]. split; [constructor; exact Qp|reflexivity].
  Qed.

  Fixpoint linked (l : list K) : Prop :=
    match l with
    | a :: (b :: _) as t => ew H a b <> None /\ linked t
    | _ => True
    end.

  Lemma linked_snoc (l : list K) (u v : K) :
    linked l -> last l u = u -> l <> [] -> ew H u v <> None -> linked (l ++ [v]).
  Proof.
    induction l as [|a l IH]; intros L La Ne Euv; [contradiction Ne; reflexivity|].
    destruct l as [|b l].
    - simpl in La. subst a. simpl. auto.
    - destruct L as [Eab L]. split; [exact Eab|]. apply IH; auto. discriminate.
  Qed.

  Lemma last_indep (l : list K) (d1 d2 : K) : l <> [] -> last l d1 = last l d2.
  Proof.
    induction l as [|x l IHl]; intros Ne; [contradiction Ne; reflexivity|].
    destruct l as [|y l]; [reflexivity|]. apply IHl. discriminate.
  Qed.

  Lemma chain_path p :
    lookup src p = None ->
    (forall v u, lookup v p = Some u -> ew H u v <> None /\ (u = src \/ lookup u p <> None)) ->
    forall v l, chain p v l -> (v = src \/ lookup v p <> None) ->
    exists rest, l = src :: rest /\ last l src = v /\ linked l.
  Proof.
    intros Ps Pp. induction 1 as [v Q|v u l Q C IH]; intros Hv.
    - destruct Hv as [->|N]; [|contradiction]. exists []. simpl. auto.
    - destruct (Pp _ _ Q) as [Euv Hu]. destruct (IH Hu) as (rest & -> & La & Li).
      exists (rest ++ [v]). split; [reflexivity|]. split.
      + apply last_last.
      + apply linked_snoc with (u := u); auto.
        * rewrite <- La at 2. apply last_indep. discriminate.
        * discriminate.
  Qed.
End Dij.

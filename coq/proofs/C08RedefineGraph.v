(* C08RedefineGraph.v -- invariants of the call graph built for Redefine on
   the domain of C08: well-formedness, small weights, every vertex key has
   an empty subtype, and the only vertices with an edge to the root are the
   supplied inputs, function vertices and the value / argument vertices
   whose type passes the input filter. *)
From ArgMapper Require Import Base Graph GraphAlg GraphSpec Types Args Resolver ResolverSpec GenWeights
     CheckResolver Monitors Monitors2 ResolverStatements ResolverStatements2.
From ArgMapper.proofs Require Import C18DijkstraLemmas C19RefineMap C19RefineGraph
     C0213UnsatGraph C0213UnsatClosure C0213UnsatBuild C0213UnsatPrune C0213UnsatDijkstra C0213UnsatPlan.
From Coq Require Import List Lia ZArith.
Import ListNotations.
Set Implicit Arguments.
Local Open Scope Z_scope.

(* the key carries no subtype *)
Definition se (k : vkey) : Prop :=
  match k with KVal _ _ s | KArg _ s | KOut _ s => s = EmptyString | _ => True end.

Lemma named_entries_in fs fld : In fld (named_entries fs) -> In fld fs.
Proof.
  unfold named_entries. rewrite in_flat_map. intros (x & Ix & Hx).
  destruct (String.eqb (f_name x) ""); [destruct Hx|].
  assert (G : forall l i acc j g0, last_named (f_name x) l i acc = Some (j, g0) ->
                                   (exists j0, acc = Some (j0, g0)) \/ In g0 l).
  { induction l as [|y l IH]; intros i acc j g0 Q; simpl in Q.
    - left. eauto.
    - apply IH in Q. destruct Q as [(j0 & Q)|Q]; [|right; right; exact Q].
      destruct (negb (String.eqb (f_name y) "") && String.eqb (f_name y) (f_name x)).
      + inversion Q; subst. right. left. reflexivity.
      + left. eauto. }
  destruct (last_named (f_name x) fs 0 None) as [[j g0]|] eqn:Q; [|destruct Hx].
  destruct Hx as [<-|[]].
  destruct (G _ _ _ _ _ Q) as [(j0 & Q0)|I]; [discriminate|exact I].
Qed.

Lemma typed_entries_in fs fld : In fld (typed_entries fs) -> In fld fs.
Proof.
  unfold typed_entries. rewrite in_flat_map. intros (x & Ix & Hx).
  destruct (String.eqb (f_name x) ""); [|destruct Hx].
  assert (G : forall l i acc j g0, last_typed (f_ty x) l i acc = Some (j, g0) ->
                                   (exists j0, acc = Some (j0, g0)) \/ In g0 l).
  { induction l as [|y l IH]; intros i acc j g0 Q; simpl in Q.
    - left. eauto.
    - apply IH in Q. destruct Q as [(j0 & Q)|Q]; [|right; right; exact Q].
      destruct (String.eqb (f_name y) "" && (f_ty y =? f_ty x)).
      + inversion Q; subst. right. left. reflexivity.
      + left. eauto. }
  destruct (last_typed (f_ty x) fs 0 None) as [[j g0]|] eqn:Q; [|destruct Hx].
  destruct Hx as [<-|[]].
  destruct (G _ _ _ _ _ Q) as [(j0 & Q0)|I]; [discriminate|exact I].
Qed.

Section Inv.
  Variable u : universe.
  Variable fin : option flt.
  Variable inkeys : list vkey.

  Definition fin_ok (n : string) (t : ty) (s : string) : bool := match fin with Some f => flt_okv u f n t s | None => true end.

  (* who may have an edge to the root *)
  Definition rootok (x : vkey) : Prop :=
    In x inkeys \/ is_func x = true \/
    match x with KVal n t s => fin_ok n t s = true | KArg t s => fin_ok EmptyString t s = true | _ => False end.

  Record RI (g : rgraph) : Prop := {
    ri_wf : wf_graph g;
    ri_root : vtx g KRoot <> None;
    ri_wt : forall a b w, ew g a b = Some w -> 0 <= w <= 20;
    ri_se : forall k, vtx g k <> None -> se k;
    ri_re : forall x, ew g x KRoot <> None -> rootok x }.

  Lemma RI_add g k v : RI g -> se k -> RI (g_add g k v).
  Proof.
    intros [W R Wt Se Re] Sk. destruct (add_spec k v W) as (W' & Hv & He).
    constructor.
    - exact W'.
    - rewrite Hv. destruct (vtx g k); [exact R|].
      destruct (Base.eqb KRoot k); [discriminate|exact R].
    - intros a b w. rewrite He. apply Wt.
    - intros k'. rewrite Hv. destruct (vtx g k); [apply Se|].
      destruct (Base.eqb_spec k' k) as [->|N]; [intros _; exact Sk|apply Se].
    - intros x. rewrite He. apply Re.
  Qed.

  Lemma RI_add_v g k : RI g -> se k -> RI (add_v g k).
  Proof. unfold add_v. apply RI_add. Qed.

  Lemma RI_overwrite g k v : RI g -> se k -> RI (g_add_overwrite g k v).
  Proof.
    intros [W R Wt Se Re] Sk. destruct (overwrite_spec k v W) as (W' & Hv & He).
    constructor.
    - exact W'.
    - rewrite Hv. destruct (Base.eqb KRoot k); [discriminate|exact R].
    - intros a b w. rewrite He. apply Wt.
    - intros k'. rewrite Hv.
      destruct (Base.eqb_spec k' k) as [->|N]; [intros _; exact Sk|apply Se].
    - intros x. rewrite He. apply Re.
  Qed.

  Lemma RI_add_e g a b w : RI g -> 0 <= w <= 20 -> (b = KRoot -> rootok a) -> RI (add_e g a b w).
  Proof.
    intros [W R Wt Se Re] Hw Hr. destruct (add_e_spec a b w W) as (W' & Hv & He).
    constructor.
    - exact W'.
    - rewrite Hv. exact R.
    - intros a' b' w'. rewrite He.
      destruct (present g a && present g b && Base.eqb a' a && Base.eqb b' b); [|apply Wt].
      intros Q; inversion Q; subst. exact Hw.
    - intros k. rewrite Hv. apply Se.
    - intros x. rewrite He.
      destruct (present g a && present g b && Base.eqb x a && Base.eqb KRoot b) eqn:C; [|apply Re].
      intros _. apply andb_true_iff in C. destruct C as [C Eb].
      apply andb_true_iff in C. destruct C as [_ Ea].
      apply (proj1 (Base.eqb_eq _ _)) in Ea. apply (proj1 (Base.eqb_eq _ _)) in Eb. rewrite Ea. apply Hr. symmetry. exact Eb.
  Qed.

  Definition fields_se (f : fdecl) : Prop :=
    forall fld, In fld (fn_in f ++ fn_out f) -> f_sub fld = EmptyString.

  Lemma se_field_key fld : f_sub fld = EmptyString -> se (field_key fld).
  Proof. intros Q. unfold field_key. destruct (String.eqb (f_name fld) ""); exact Q. Qed.
  Lemma se_field_out_key fld : f_sub fld = EmptyString -> se (field_out_key fld).
  Proof. intros Q. unfold field_out_key. destruct (String.eqb (f_name fld) ""); exact Q. Qed.

  Lemma rootok_func ft : rootok (KFunc ft).
  Proof. right. left. reflexivity. Qed.

  Lemma RI_func_graph g f io : RI g -> fields_se f -> RI (func_graph g f io).
  Proof.
    intros I0 Fs. unfold func_graph.
    set (fk := KFunc (fn_type f)).
    assert (I1 : RI (g_add g fk (PFunc f))) by (apply RI_add; [exact I0|exact Logic.I]).
    set (g1 := g_add g fk (PFunc f)) in *.
    assert (I2 : RI (match fn_in f with [] => add_e g1 fk KRoot w_normal | _ :: _ => g1 end)).
    { destruct (fn_in f); [|exact I1]. apply RI_add_e; [exact I1|apply wt_normal|].
      intros _. apply rootok_func. }
    set (g2 := match fn_in f with [] => add_e g1 fk KRoot w_normal | _ :: _ => g1 end) in *.
    assert (I3 : RI (fold_left (fun g fld =>
                        let k := field_key fld in
                        let g := add_v g k in
                        add_e g fk k (if String.eqb (f_name fld) EmptyString then GenWeights.w_typed else w_normal))
                     (fn_in f) g2)).
    { apply (fold_left_inv RI); [exact I2|].
      intros a fld Ia Ifld. cbv zeta.
      apply RI_add_e.
      - apply RI_add_v; [exact Ia|]. apply se_field_key. apply Fs. apply in_or_app. left. exact Ifld.
      - destruct (String.eqb (f_name fld) ""); [apply wt_typed|apply wt_normal].
      - intros _. apply rootok_func. }
    destruct io; [|exact I3].
    apply (fold_left_inv RI).
    - apply (fold_left_inv RI); [exact I3|].
      intros a fld Ia Ifld. cbv zeta. apply RI_add_e.
      + apply RI_add_v; [exact Ia|]. apply se_field_out_key. apply Fs. apply in_or_app. right.
        apply named_entries_in. exact Ifld.
      + apply wt_normal.
      + discriminate.
    - intros a fld Ia Ifld. cbv zeta. apply RI_add_e.
      + apply RI_add_v; [exact Ia|]. apply se_field_out_key. apply Fs. apply in_or_app. right.
        apply typed_entries_in. exact Ifld.
      + apply wt_typed.
      + discriminate.
  Qed.

  Lemma RI_inputs (ins : list (vkey * value)) g :
    (forall kv, In kv ins -> se (fst kv) /\ In (fst kv) inkeys) ->
    RI g -> RI (fold_left (fun g kv => add_e (g_add_overwrite g (fst kv) Resolver.PNone) (fst kv) KRoot w_normal) ins g).
  Proof.
    intros Hi I0. apply (fold_left_inv RI); [exact I0|].
    intros a kv Ia Ikv. destruct (Hi kv Ikv) as [Sk Ik].
    apply RI_add_e; [apply RI_overwrite; assumption|apply wt_normal|].
    intros _. left. exact Ik.
  Qed.

  Definition rg_RI (acc : rgraph * list fdecl * list event * option Z) : Prop :=
    let '(g, convs, tr, err) := acc in RI g.

  Lemma RI_run_gens g gens ks convs tr :
    (forall c, In c (gen_funcs gens) -> fields_se c) ->
    RI g -> rg_RI (run_gens g gens ks convs tr).
  Proof.
    intros Hg I0. unfold run_gens.
    apply (fold_left_inv rg_RI); [exact I0|].
    intros [[[g1 convs1] tr1] err] k I _.
    destruct err as [e|]; [exact I|].
    destruct (value_of_vertex k); [|exact I].
    apply (fold_left_inv rg_RI); [exact I|].
    intros [[[g2 convs2] tr2] err2] gn I2 Ign.
    destruct err2 as [e|]; [exact I2|].
    destruct (lookup k (gen_table gn)) as [[|e|c]|] eqn:Q; unfold rg_RI; try exact I2.
    apply RI_func_graph; [exact I2|]. apply Hg. eapply gen_funcs_in; [exact Ign|exact Q].
  Qed.

  Lemma val_keys_vtx (g : rgraph) k : In k (val_keys g) -> vtx g k <> None.
  Proof. unfold val_keys. rewrite filter_In. intros [I _]. apply in_vertex_keys. exact I. Qed.
  Lemma arg_keys_vtx (g : rgraph) k : In k (arg_keys g) -> vtx g k <> None.
  Proof. unfold arg_keys. rewrite filter_In. intros [I _]. apply in_vertex_keys. exact I. Qed.

  Lemma RI_step_values g : RI g -> RI (step_values g).
  Proof.
    intros I0. unfold step_values. apply (fold_left_inv RI); [exact I0|].
    intros a k Ia Ik. pose proof (ri_se I0 _ (val_keys_vtx _ _ Ik)) as Sk.
    destruct k as [|ft|n t s|t s|t s]; try exact Ia.
    simpl in Sk.
    assert (Ja : RI (add_e (add_v a (KOut t "")) (KVal n t s) (KOut t "") GenWeights.w_typed)).
    { apply RI_add_e; [apply RI_add_v; [exact Ia|reflexivity]|apply wt_typed|discriminate]. }
    assert (Jb : RI (add_e (add_v (add_e (add_v a (KOut t "")) (KVal n t s) (KOut t "") GenWeights.w_typed) (KArg t ""))
                           (KArg t "") (KVal n t s) GenWeights.w_typed)).
    { apply RI_add_e; [apply RI_add_v; [exact Ja|reflexivity]|apply wt_typed|discriminate]. }
    cbv zeta. destruct (String.eqb s ""); [exact Jb|].
    apply RI_add_e; [apply RI_add_v; [exact Jb|exact Sk]|apply wt_typed|discriminate].
  Qed.

  Lemma RI_step_args g : RI g -> RI (step_args g).
  Proof.
    intros I0. unfold step_args. apply (fold_left_inv RI); [exact I0|].
    intros a k Ia Ik. pose proof (ri_se I0 _ (arg_keys_vtx _ _ Ik)) as Sk.
    destruct k as [|ft|n t s|t s|t s]; try exact Ia.
    apply RI_add_e; [apply RI_add_v; [exact Ia|exact Sk]|apply wt_typed|discriminate].
  Qed.

  Lemma RI_step_ifaces g : RI g -> RI (step_ifaces u g).
  Proof.
    intros I0. unfold step_ifaces. apply (fold_left_inv RI); [exact I0|].
    intros a k Ia _.
    destruct k as [|ft|n t s|t s|t s]; try exact Ia.
    destruct (is_iface u t); [|exact Ia].
    apply (fold_left_inv RI); [exact Ia|].
    intros a1 k2 Ia1 _.
    destruct k2 as [|ft2|n2 t2 s2|t2 s2|t2 s2]; try exact Ia1.
    destruct (negb (Base.eqb (KOut t s) (KOut t2 s2)) && negb (t2 =? t) && implements u t2 t); [|exact Ia1].
    apply RI_add_e; [exact Ia1|apply wt_typed|discriminate].
  Qed.

  Lemma RI_step_named_sub valued g : RI g -> RI (step_named_sub valued g).
  Proof.
    intros I0. unfold step_named_sub. apply (fold_left_inv RI); [exact I0|].
    intros a k Ia _.
    destruct k as [|ft|n t s|t s|t s]; try exact Ia.
    destruct (String.eqb s "" && negb (valued (KVal n t s))); [|exact Ia].
    apply (fold_left_inv RI); [exact Ia|].
    intros a1 k2 Ia1 _.
    destruct k2 as [|ft2|n2 t2 s2|t2 s2|t2 s2]; try exact Ia1.
    destruct (String.eqb n2 n && (t2 =? t) && negb (String.eqb s2 "")); [|exact Ia1].
    apply RI_add_e; [exact Ia1|apply wt_typed|discriminate].
  Qed.

  Lemma RI_step_arg_sub g : RI g -> RI (step_arg_sub g).
  Proof.
    intros I0. unfold step_arg_sub. apply (fold_left_inv RI); [exact I0|].
    intros a k Ia _.
    destruct k as [|ft|n t s|t s|t s]; try exact Ia.
    apply (fold_left_inv RI); [exact Ia|].
    intros a1 k2 Ia1 _.
    destruct k2 as [|ft2|n2 t2 s2|t2 s2|t2 s2]; try exact Ia1.
    destruct ((t2 =? t) && (if String.eqb s "" then negb (String.eqb s2 "") else String.eqb s2 "")); [|exact Ia1].
    apply RI_add_e; [exact Ia1|apply wt_other|discriminate].
  Qed.

  Lemma RI_step_redefine g : RI g -> RI (step_redefine u fin g).
  Proof.
    intros I0. unfold step_redefine. apply (fold_left_inv RI); [exact I0|].
    intros a k Ia _.
    destruct k as [|ft|n t s|t s|t s]; try exact Ia.
    - destruct (match fin with Some f => flt_okv u f n t s | None => true end) eqn:F; [|exact Ia].
      apply RI_add_e; [exact Ia|apply wt_normal|]. intros _. right. right. exact F.
    - destruct (match fin with Some f => flt_okv u f EmptyString t s | None => true end) eqn:F; [|exact Ia].
      apply RI_add_e; [exact Ia|apply wt_normal|]. intros _. right. right. exact F.
  Qed.

  Lemma RI_root : RI (g_add g_empty KRoot Resolver.PNone).
  Proof.
    destruct (add_spec KRoot Resolver.PNone (@wf_empty vkey _ vpay)) as (W & Hv & He).
    constructor.
    - exact W.
    - rewrite Hv. simpl. discriminate.
    - intros a b w. rewrite He. unfold ew. simpl. discriminate.
    - intros k. rewrite Hv. simpl.
      destruct (Base.eqb_spec k KRoot) as [->|N]; [intros _; exact Logic.I|].
      apply Base.eqb_neq in N. simpl in N. rewrite N.
      intros N0; contradiction N0; reflexivity.
    - intros x. rewrite He. unfold ew. simpl. intros N; contradiction N; reflexivity.
  Qed.
End Inv.

(* ---------- the domain of C08, as propositions ---------- *)
Lemma is_empty_eq s : is_empty s = true -> s = EmptyString.
Proof. unfold is_empty. apply Base.eqb_eq. Qed.

Lemma domain_fields u f b :
  c08_domain u f b = true -> forall c, In c (known_funcs f b) -> fields_se c.
Proof.
  unfold c08_domain. intros D. cbv zeta in D.
  apply andb_true_iff in D. destruct D as [D _].
  apply andb_true_iff in D. destruct D as [D _].
  apply andb_true_iff in D. destruct D as [_ D].
  rewrite forallb_forall in D. intros c Ic fld Ifld.
  specialize (D c Ic). rewrite forallb_forall in D. apply is_empty_eq. apply D. exact Ifld.
Qed.

Lemma domain_inputs u f b :
  c08_domain u f b = true -> forall kv, In kv (input_vertices b) -> se (fst kv).
Proof.
  unfold c08_domain. intros D. cbv zeta in D.
  apply andb_true_iff in D. destruct D as [D _].
  apply andb_true_iff in D. destruct D as [_ D].
  rewrite forallb_forall in D. intros kv Ikv. specialize (D kv Ikv).
  assert (Shape : match fst kv with KVal _ _ _ | KOut _ _ => True | _ => False end).
  { revert Ikv. unfold input_vertices. rewrite !in_app_iff, !in_map_iff.
    intros [(x & <- & _)|[(x & <- & _)|[(x & <- & _)|(x & <- & _)]]]; exact I. }
  destruct (fst kv) as [|ft|n t s|t s|t s]; try contradiction; simpl; apply is_empty_eq; exact D.
Qed.

(* ---------- full_graph in Redefine mode ---------- *)
Definition fgR_spec (u : universe) (b : builder) (f : fdecl) (fg : fgraph) : Prop :=
  RI u (b_fin b) (map fst (input_vertices b)) (fg_g fg) /\
  fg_target fg = KFunc (fn_type f) /\
  fg_inputs fg = map fst (input_vertices b) /\
  fg_vals fg = fold_left (fun m kv => insert (fst kv) (snd kv) m) (input_vertices b) [].

Lemma full_graph_RI u f b rd t fg tr :
  c08_domain u f b = true ->
  full_graph u f b rd t = Ok (inl fg, tr) -> fgR_spec u b f fg.
Proof.
  intros D. pose proof (@domain_fields _ _ _ D) as Df. pose proof (@domain_inputs _ _ _ D) as Di.
  set (fin := b_fin b). set (inkeys := map fst (input_vertices b)).
  unfold full_graph.
  assert (I1 : RI u fin inkeys (func_graph (g_add g_empty KRoot Resolver.PNone) f false)).
  { apply RI_func_graph; [apply RI_root|]. apply Df. left. reflexivity. }
  set (g1 := func_graph (g_add g_empty KRoot Resolver.PNone) f false) in *.
  assert (I2 : RI u fin inkeys
                  (fold_left (fun g kv => add_e (g_add_overwrite g (fst kv) Resolver.PNone) (fst kv) KRoot w_normal)
                             (input_vertices b) g1)).
  { apply RI_inputs; [|exact I1]. intros kv Ikv. split; [apply Di; exact Ikv|].
    unfold inkeys. apply in_map. exact Ikv. }
  set (g2 := fold_left (fun g kv => add_e (g_add_overwrite g (fst kv) Resolver.PNone) (fst kv) KRoot w_normal)
                       (input_vertices b) g1) in *.
  assert (I3 : RI u fin inkeys (fold_left (fun g c => func_graph g c true) (b_convs b) g2)).
  { apply (fold_left_inv (RI u fin inkeys)); [exact I2|].
    intros a c Ia Ic. apply RI_func_graph; [exact Ia|]. apply Df. right. apply in_or_app. left. exact Ic. }
  set (g3 := fold_left (fun g c => func_graph g c true) (b_convs b) g2) in *.
  destruct (match b_gens b with [] => Ok ([], t) | _ :: _ => take_perm SITE_GEN_VERTS (g_vertex_keys g3) t end)
    as [[ks t']| | |]; simpl; try discriminate.
  pose proof (@RI_run_gens u fin inkeys g3 (b_gens b) ks (b_convs b) []) as RG.
  destruct (run_gens g3 (b_gens b) ks (b_convs b) []) as [[[g4 convs] trg] gerr].
  destruct gerr as [e|]; [discriminate|].
  intros Q. inversion Q; subst fg tr; clear Q. unfold fgR_spec. simpl.
  split; [|split; [reflexivity|split; reflexivity]].
  assert (I4 : RI u fin inkeys g4).
  { apply RG; [|exact I3]. intros c Ic. apply Df. right. apply in_or_app. right. exact Ic. }
  assert (I9 : RI u fin inkeys
                  (step_arg_sub (step_named_sub
                     (fun k => mem k (fold_left (fun m kv => insert (fst kv) (snd kv) m) (input_vertices b) []))
                     (step_ifaces u (step_args (step_values g4)))))).
  { apply RI_step_arg_sub, RI_step_named_sub, RI_step_ifaces, RI_step_args, RI_step_values. exact I4. }
  destruct rd; [apply RI_step_redefine|]; exact I9.
Qed.

(* ---------- pruning ---------- *)
Lemma pruned_RI u fin inkeys (G : rgraph) tk :
  RI u fin inkeys G -> RI u fin inkeys (pruned G tk).
Proof.
  intros [W R Wt Se Re]. destruct (pruned_spec tk W) as (Wg & Hv & He).
  constructor.
  - exact Wg.
  - rewrite Hv. pose proof (keep_root tk W R) as Kr. apply membT in Kr. rewrite Kr. exact R.
  - intros a b w. rewrite He. destruct (memb a (keepset G tk) && memb b (keepset G tk)); [apply Wt|discriminate].
  - intros k. rewrite Hv. destruct (memb k (keepset G tk)); [apply Se|]. intros N; contradiction N; reflexivity.
  - intros x. rewrite He. destruct (memb x (keepset G tk) && memb KRoot (keepset G tk)); [apply Re|].
    intros N; contradiction N; reflexivity.
Qed.

(* every vertex of the pruned graph is reachable from the root inside it *)
Lemma pruned_rreach (G : rgraph) (tk : vkey) :
  wf_graph G -> vtx G KRoot <> None ->
  forall k, vtx (pruned G tk) k <> None -> rreach (pruned G tk) k.
Proof.
  intros W R.
  destruct (pruned_spec tk W) as (_ & Hv & He).
  assert (P : forall k, In k (keepset G tk) -> In k (keepset G tk) /\ rreach (pruned G tk) k).
  { apply (keep_ind W (fun k => In k (keepset G tk) /\ rreach (pruned G tk) k)).
    - split; [apply (keep_root _ W R)|constructor].
    - intros a x [Ka Ra] Ns Ex.
      assert (Kx : In x (keepset G tk)) by (apply (keep_closed W R x Ka Ns Ex)).
      split; [exact Kx|]. apply rr_step with (a := a); [exact Ra|].
      rewrite He. apply membT in Ka. apply membT in Kx. rewrite Ka, Kx. simpl. exact Ex. }
  intros k Vk. rewrite Hv in Vk.
  destruct (memb k (keepset G tk)) eqn:Kk; [|contradiction Vk; reflexivity].
  apply membT in Kk. apply (P k Kk).
Qed.

Lemma pruned_size (G : rgraph) tk :
  wf_graph G -> (length (g_vertex_keys (pruned G tk)) <= length (g_vertex_keys G))%nat.
Proof.
  intros W. destruct (pruned_spec tk W) as (Wg & Hv & _).
  apply NoDup_incl_length; [apply (wf_hash_nodup Wg)|].
  intros k Ik. apply in_vertex_keys in Ik. apply in_vertex_keys.
  rewrite Hv in Ik. destruct (memb k (keepset G tk)); [exact Ik|contradiction Ik; reflexivity].
Qed.

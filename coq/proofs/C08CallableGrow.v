(* C08CallableGrow.v -- the call graph grows with the supplied inputs
   (same converters, same generators): vertices, edges that do not point to
   the root, recorded requirements and converters of the first graph are in
   the second.  The first graph must be subtype-free (the domain of C08).
   Helper of C08Callable.v. *)
From ArgMapper Require Import Base Graph GraphAlg GraphSpec Types Args Resolver ResolverSpec GenWeights
     CheckResolver Monitors Monitors2 ResolverStatements ResolverStatements2.
From ArgMapper.proofs Require Import C18DijkstraLemmas C19RefineMap C19RefineGraph
     C0213UnsatGraph C0213UnsatClosure C0213UnsatBuild C0213UnsatPrune C0213UnsatDijkstra C0213UnsatPlan
     C07AffinityOps C08RedefineGraph C08CallableOps C08CallableMono.
From Coq Require Import List Lia ZArith.
Import ListNotations.
Set Implicit Arguments.
Local Open Scope Z_scope.

(* ---------- more on ops_le ---------- *)
Lemma ops_le_trans L1 L2 L3 : ops_le L1 L2 -> ops_le L2 L3 -> ops_le L1 L3.
Proof. intros [A1 B1] [A2 B2]. split; auto. Qed.

Lemma ops_le_appl L M1 M2 : ops_le L M1 -> ops_le L (M1 ++ M2).
Proof.
  intros [A B]. split.
  - intros k I. apply in_verts_app. left. apply A. exact I.
  - intros a b w I. apply in_or_app. left. apply B. exact I.
Qed.

Lemma ops_le_appr L M1 M2 : ops_le L M2 -> ops_le L (M1 ++ M2).
Proof.
  intros [A B]. split.
  - intros k I. apply in_verts_app. right. apply A. exact I.
  - intros a b w I. apply in_or_app. right. apply B. exact I.
Qed.

Lemma ops_le_join L1 L2 M : ops_le L1 M -> ops_le L2 M -> ops_le (L1 ++ L2) M.
Proof.
  intros [A1 B1] [A2 B2]. split.
  - intros k I. apply in_verts_app in I. destruct I as [I|I]; auto.
  - intros a b w I. apply in_app_or in I. destruct I as [I|I]; auto.
Qed.

Lemma ops_le_ins (ins1 ins2 : list (vkey * value)) :
  incl (map fst ins1) (map fst ins2) -> ops_le (ins_ops ins1) (ins_ops ins2).
Proof.
  intros Inc. unfold ins_ops. split.
  - intros k. rewrite !in_verts_flat_map. intros (kv & Ikv & I).
    simpl in I. destruct I as [<-|[]].
    assert (I2 : In (fst kv) (map fst ins2)) by (apply Inc; apply in_map; exact Ikv).
    apply in_map_iff in I2. destruct I2 as (kv2 & E & I2). exists kv2. split; [exact I2|]. simpl. left. exact E.
  - intros a b w. rewrite !in_flat_map. intros (kv & Ikv & I).
    destruct I as [I|[I|[]]]; [discriminate|]. inversion I; subst a b w.
    assert (I2 : In (fst kv) (map fst ins2)) by (apply Inc; apply in_map; exact Ikv).
    apply in_map_iff in I2. destruct I2 as (kv2 & E & I2). exists kv2. split; [exact I2|].
    right. left. rewrite E. reflexivity.
Qed.

Lemma ops_le_iface u ks1 l1 ks2 l2 :
  incl ks1 ks2 -> incl l1 l2 -> ops_le (flat_map (iface_ops u ks1) l1) (flat_map (iface_ops u ks2) l2).
Proof.
  intros Ik Il. split.
  - intros k. rewrite verts_iface. intros [].
  - intros a b w. rewrite !in_iface_ops.
    intros (t & s & t2 & s2 & Ea & Eb & Ew & Ia & Ib & R). exists t, s, t2, s2.
    split; [exact Ea|]. split; [exact Eb|]. split; [exact Ew|]. split; [apply Il; exact Ia|].
    split; [apply Ik; exact Ib|exact R].
Qed.

Lemma verts_arg_ops l k : In k (verts (flat_map arg_ops l)) -> exists t s, k = KOut t s.
Proof.
  rewrite in_verts_flat_map. intros (x & _ & I).
  destruct x as [|ft|n t s|t s|t s]; simpl in I; try contradiction. destruct I as [<-|[]]. eauto.
Qed.

(* ---------- the stages of one full graph ---------- *)
Inductive stages (u : universe) (f : fdecl) (b : builder) (rd : bool) (fg : fgraph) : Prop :=
| Build_stages (st_added : list fdecl) (st_ks : list vkey) (st_g4 : rgraph)
  (st_convs : fg_convs fg = b_convs b ++ st_added)
  (st_g4_eq : st_g4 = app_ops (S3 f b ++ conv_ops st_added) g_root)
  (st_from : forall c, In c st_added -> from_gen (b_gens b) st_ks c)
  (st_complete : forall k gn c, In k st_ks -> value_of_vertex k = true -> In gn (b_gens b) ->
                               lookup k (gen_table gn) = Some (GFunc c) -> In c (fg_convs fg))
  (st_ks_all : b_gens b <> [] -> forall x, In x st_ks <-> In x (g_vertex_keys (stage3 f b)))
  (st_g : fg_g fg = late_steps u b rd (step_args (step_values st_g4)))
  (st_freq : fg_freq fg = g_out_keys (func_graph g_root f false) (KFunc (fn_type f))).

Lemma full_graph_stages u f b rd t fg tr :
  full_graph u f b rd t = Ok (inl fg, tr) -> stages u f b rd fg.
Proof.
  intros FG. destruct (full_graph_inv _ _ _ _ _ FG) as (ks & t' & g4 & convs & K0 & K1 & RG & ->).
  destruct (run_gens_spec _ _ _ _ RG) as ((added & Ec & Eg & Fr) & Co).
  apply (@Build_stages u f b rd _ added ks g4); cbn [fg_convs fg_g fg_freq].
  - exact Ec.
  - rewrite Eg, stage3_ops, app_ops_app. reflexivity.
  - exact Fr.
  - exact Co.
  - exact K1.
  - reflexivity.
  - reflexivity.
Qed.

Lemma wseq_S34 f b added : wseq (fun k => present g_root k = true) (S3 f b ++ conv_ops added).
Proof.
  apply wseq_app; [apply wseq_S3; apply g_root_present_root|].
  apply wseq_conv_ops. left. apply g_root_present_root.
Qed.

(* well-formedness and vertex sets along the pipeline *)
Lemma pipeline_facts u f b rd (added : list fdecl) :
  let g4 := app_ops (S3 f b ++ conv_ops added) g_root in
  let g5 := step_values g4 in
  let g6 := step_args g5 in
  let g7 := step_ifaces u g6 in
  let G := late_steps u b rd g6 in
  wf_graph g4 /\ wf_graph g5 /\ wf_graph g6 /\ wf_graph g7 /\ EO g6 g7 /\ EO g7 G /\ EO g6 G.
Proof.
  intros g4 g5 g6 g7 G.
  destruct (@stage_facts g_root _ g_root_wf (wseq_S34 f b added)) as (W4 & _). fold g4 in W4.
  assert (W5 : wf_graph g5).
  { unfold g5. rewrite step_values_ops. destruct (app_ops_spec (flat_map val_ops (val_keys g4)) W4) as (W & _). exact W. }
  assert (W6 : wf_graph g6).
  { unfold g6. rewrite step_args_ops. destruct (app_ops_spec (flat_map arg_ops (arg_keys g5)) W5) as (W & _). exact W. }
  pose proof (EO_step_ifaces u W6) as E67. fold g7 in E67.
  assert (W7 : wf_graph g7) by (apply E67).
  assert (E7G : EO g7 G).
  { unfold G, late_steps. fold g7.
    pose proof (@EO_step_named_sub (fun k => mem k (vals_of b)) g7 W7) as E1.
    pose proof (@EO_step_arg_sub _ (proj1 E1)) as E2.
    pose proof (EO_trans E1 E2) as E12.
    destruct rd; [|exact E12].
    eapply EO_trans; [exact E12|]. apply EO_step_redefine. apply E12. }
  split; [exact W4|]. split; [exact W5|]. split; [exact W6|]. split; [exact W7|].
  split; [exact E67|]. split; [exact E7G|]. eapply EO_trans; eauto.
Qed.

(* every typed argument of a call graph has the edge to its output twin *)
Lemma full_graph_arg_twin u f b rd t fg tr :
  full_graph u f b rd t = Ok (inl fg, tr) ->
  forall t0 s, vtx (fg_g fg) (KArg t0 s) <> None -> ew (fg_g fg) (KArg t0 s) (KOut t0 s) <> None.
Proof.
  intros FG t0 s V. destruct (full_graph_stages _ _ _ _ _ FG) as [added ks g4 _ Eg _ _ _ EG _].
  subst g4. rewrite EG in *.
  destruct (pipeline_facts u f b rd added) as (W4 & W5 & W6 & _ & _ & _ & (_ & Hv & Hm)).
  apply Hm. rewrite Hv in V.
  apply step_args_edges; [exact W5|].
  rewrite step_args_ops in V.
  destruct (app_ops_spec (flat_map arg_ops (arg_keys (step_values (app_ops (S3 f b ++ conv_ops added) g_root)))) W5)
    as (_ & Hp & _).
  apply present_true in V. rewrite Hp in V. apply orb_true_iff in V. destruct V as [V|V].
  - apply present_true. exact V.
  - apply membT in V. apply verts_arg_ops in V. destruct V as (t1 & s1 & C). discriminate C.
Qed.

(* ---------- growth ---------- *)
Theorem full_graph_grows u f b1 b2 rd1 rd2 t1 t2 fg1 fg2 tr1 tr2 :
  b_convs b2 = b_convs b1 -> b_gens b2 = b_gens b1 ->
  incl (map fst (input_vertices b1)) (map fst (input_vertices b2)) ->
  (forall k, vtx (fg_g fg1) k <> None -> se k) ->
  full_graph u f b1 rd1 t1 = Ok (inl fg1, tr1) ->
  full_graph u f b2 rd2 t2 = Ok (inl fg2, tr2) ->
  (forall k, vtx (fg_g fg1) k <> None -> vtx (fg_g fg2) k <> None) /\
  (forall a b, b <> KRoot -> ew (fg_g fg1) a b <> None -> ew (fg_g fg2) a b <> None) /\
  fg_freq fg2 = fg_freq fg1 /\ incl (fg_convs fg1) (fg_convs fg2).
Proof.
  intros Ec Eg Inc SE FG1 FG2.
  destruct (full_graph_stages _ _ _ _ _ FG1) as [added1 ks1 g41 Cv1 E41 Fr1 Co1 Ka1 G1 Fq1].
  destruct (full_graph_stages _ _ _ _ _ FG2) as [added2 ks2 g42 Cv2 E42 Fr2 Co2 Ka2 G2 Fq2].
  (* stage 3 *)
  assert (L3 : ops_le (S3 f b1) (S3 f b2)).
  { unfold S3. apply ops_le_app; [apply ops_le_refl|]. apply ops_le_app; [apply ops_le_ins; exact Inc|].
    rewrite Ec. apply ops_le_refl. }
  assert (G3 : gle (stage3 f b1) (stage3 f b2)).
  { rewrite !stage3_ops. apply stage_mono; [apply g_root_wf|apply g_root_wf|apply gle_refl|exact L3|].
    apply wseq_S3. apply g_root_present_root. }
  (* generators *)
  assert (IncA : forall c, In c added1 -> In c (b_convs b2 ++ added2)).
  { intros c Ic. rewrite <- Cv2. destruct (Fr1 c Ic) as (k & gn & Ik & Vk & Ign & L).
    assert (Ng : b_gens b1 <> []) by (intros C; rewrite C in Ign; destruct Ign).
    apply (Co2 k gn c); [|exact Vk|rewrite Eg; exact Ign|exact L].
    apply Ka2; [rewrite Eg; exact Ng|]. apply in_vertex_keys. apply (proj1 G3).
    apply in_vertex_keys. apply (Ka1 Ng). exact Ik. }
  assert (L4 : ops_le (S3 f b1 ++ conv_ops added1) (S3 f b2 ++ conv_ops added2)).
  { apply ops_le_join; [apply ops_le_appl; exact L3|].
    apply ops_le_trans with (L2 := conv_ops (b_convs b2 ++ added2)).
    - unfold conv_ops. apply ops_le_flat_map. exact IncA.
    - unfold conv_ops at 1. rewrite flat_map_app. fold (conv_ops (b_convs b2)). fold (conv_ops added2).
      unfold S3. rewrite <- !app_assoc. apply ops_le_appr. apply ops_le_appr. apply ops_le_refl. }
  destruct (pipeline_facts u f b1 rd1 added1) as (W41 & W51 & W61 & W71 & E671 & E7G1 & E6G1).
  destruct (pipeline_facts u f b2 rd2 added2) as (W42 & W52 & W62 & W72 & E672 & E7G2 & E6G2).
  rewrite <- E41 in *. rewrite <- E42 in *.
  assert (G4 : gle g41 g42).
  { rewrite E41, E42. apply stage_mono; [apply g_root_wf|apply g_root_wf|apply gle_refl|exact L4|apply wseq_S34]. }
  (* step_values *)
  assert (G5 : gle (step_values g41) (step_values g42)).
  { rewrite !step_values_ops. apply stage_mono; [exact W41|exact W42|exact G4| |].
    - apply ops_le_flat_map. intros k Ik. apply in_val_keys in Ik. apply in_val_keys.
      destruct Ik as [Sh P]. split; [exact Sh|]. apply present_true. apply (proj1 G4). apply present_true. exact P.
    - apply wseq_val_ops. intros k Ik. apply in_val_keys in Ik. apply Ik. }
  set (g51 := step_values g41) in *. set (g52 := step_values g42) in *.
  (* step_args *)
  assert (G6 : gle (step_args g51) (step_args g52)).
  { rewrite !step_args_ops. apply stage_mono; [exact W51|exact W52|exact G5| |].
    - apply ops_le_flat_map. intros k Ik. apply in_arg_keys in Ik. apply in_arg_keys.
      destruct Ik as [Sh P]. split; [exact Sh|]. apply present_true. apply (proj1 G5). apply present_true. exact P.
    - apply wseq_arg_ops. intros k Ik. apply in_arg_keys in Ik. apply Ik. }
  set (g61 := step_args g51) in *. set (g62 := step_args g52) in *.
  (* step_ifaces *)
  assert (OK : forall k, In k (out_keys g61) -> In k (out_keys g62)).
  { intros k Ik. apply in_out_keys' in Ik. apply in_out_keys'.
    destruct Ik as [Sh P]. split; [exact Sh|]. apply present_true. apply (proj1 G6). apply present_true. exact P. }
  assert (G7 : gle (step_ifaces u g61) (step_ifaces u g62)).
  { rewrite !step_ifaces_ops. apply stage_mono; [exact W61|exact W62|exact G6| |].
    - apply ops_le_iface; exact OK.
    - apply wseq_iface_ops; intros k Ik; apply in_out_keys' in Ik; apply Ik. }
  set (g71 := step_ifaces u g61) in *. set (g72 := step_ifaces u g62) in *.
  (* the late steps: identities on the first graph *)
  assert (V1 : forall k, vtx (fg_g fg1) k = vtx g71 k).
  { intros k. rewrite G1. apply (proj1 (proj2 E7G1)). }
  assert (SE7 : forall k, present g71 k = true -> se k).
  { intros k P. apply SE. rewrite V1. apply present_true. exact P. }
  assert (Id1 : step_arg_sub (step_named_sub (fun k => mem k (vals_of b1)) g71) = g71).
  { rewrite step_named_sub_id.
    - apply step_arg_sub_id.
      + intros t s P. apply (SE7 _ P).
      + intros t s P. apply (SE7 _ P).
    - intros n t s P. apply (SE7 _ P). }
  assert (E1 : forall a b, b <> KRoot -> ew (fg_g fg1) a b <> None -> ew g71 a b <> None).
  { intros a b Nb. rewrite G1. unfold late_steps. fold g71. rewrite Id1.
    destruct rd1; [|auto]. destruct (step_redefine_facts u (b_fin b1) W71) as (_ & _ & He & _).
    rewrite (He a b Nb). auto. }
  split; [|split; [|split]].
  - intros k V. rewrite V1 in V. rewrite G2. rewrite (proj1 (proj2 E7G2)). apply (proj1 G7). exact V.
  - intros a b Nb N. rewrite G2. apply (proj2 (proj2 E7G2)). apply (proj2 G7). apply (E1 a b Nb N).
  - rewrite Fq1, Fq2. reflexivity.
  - rewrite Cv1, Cv2. intros c Ic. apply in_app_or in Ic. destruct Ic as [Ic|Ic].
    + apply in_or_app. left. rewrite Ec. exact Ic.
    + apply IncA. exact Ic.
Qed.

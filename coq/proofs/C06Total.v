(* C06Total.v -- C06: well-formed use of Call / Convert / Redefine never
   panics and never runs out of fuel; malformed options are an error result.

   Results of this file:
   - C06_malformed_proof         : C06_malformed_statement            (as stated)
   - C06_counterexample,
     C06_statement_false         : ~ C06_statement                    (the statement as written is false:
                                   it allows universes whose interface-satisfaction relation is not transitive)
   - C06_convert_counterexample,
     C06_convert_statement_false : ~ C06_convert_statement            (same reason)
   - C06_alt_proof, C06_convert_alt_proof : the statements with two added hypotheses:
       (a) [u_transitive u]  -- "t implements i" is transitive (always true of Go method sets);
       (b) [graphs_small ..] -- the call graph has fewer than (2^63-1)/20 - 1 vertices, so that the
           int distances of the shortest-path search cannot wrap around.
   - C06_fuel_lemma, C06_no_panic_graph (C06TotalLight.v), reach_heavy (C06TotalHeavy.v):
     the intermediate deliverables. *)
From ArgMapper Require Import Base Graph GraphAlg GraphSpec Types Args GenWeights Resolver ResolverSpec
     CheckResolver Monitors ResolverStatements.
From ArgMapper.proofs Require Import C06TotalDijkstra C06TotalBase C06TotalLight C06TotalSpec
     C06TotalHeavy C06TotalGraph.
From Coq Require Import Lia ZArith List String.
Import ListNotations.
Local Open Scope Z_scope.

(* ================= (1) malformed options ================= *)
Theorem C06_malformed_proof : C06_malformed_statement.
Proof.
  intros u bh f d opts w t Hb. unfold call. rewrite Hb.
  eexists. split; [reflexivity|]. split; reflexivity.
Qed.
Print Assumptions C06_malformed_proof.

(* ================= the statements as written are false ================= *)
(* Types 2 and 3 are interfaces, 1 implements 2 and 2 implements 3, but the
   universe does not say that 1 implements 3.  The value of type 1 travels
   out:1 -> out:2 -> out:3 and is then not assignable to the argument of
   type 3: "didn't reach a final value" (Panic 404). *)
Definition cx_u : universe := mkU [2; 3] [(1, 2); (2, 3); (2, 2); (3, 3)].
Definition cx_f : fdecl :=
  mkFn 1 100 FPos [mkF EmptyString 2 EmptyString; mkF EmptyString 3 EmptyString] FPos [] false false.
Definition cx_opts : list arg := [ATyped [Some (mkV 7 1)]].
Definition cx_pops : tape vkey :=
  [(1%N, [KRoot]); (1%N, [KOut 1 EmptyString]); (1%N, [KOut 2 EmptyString]);
   (1%N, [KArg 2 EmptyString]); (1%N, [KOut 3 EmptyString]); (1%N, [KFunc 100]);
   (1%N, [KArg 3 EmptyString])].
Definition cx_tape : tape vkey :=
  (SITE_REACH_OUT, [KArg 2 EmptyString; KArg 3 EmptyString]) :: cx_pops ++ cx_pops.

Example C06_counterexample :
  (forall b, build_args [] cx_opts = Some b ->
             wf_call cx_u cx_f b = true /\ world_typed (known_funcs cx_f b) world0) /\
  call cx_u (fun _ _ => BOk) cx_f [] cx_opts world0 cx_tape = Panic 404%N.
Proof.
  split; [|vm_compute; reflexivity].
  intros b Hb. vm_compute in Hb. inversion Hb; subst b. split; [vm_compute; reflexivity|].
  intros fid r g Q. discriminate Q.
Qed.

Theorem C06_statement_false : ~ C06_statement.
Proof.
  intros H. destruct C06_counterexample as [Hwf Hp].
  destruct (H cx_u (fun _ _ => BOk) cx_f [] cx_opts world0 cx_tape Hwf) as [[(r & Q)|(s & Q)] _];
    rewrite Hp in Q; discriminate Q.
Qed.
Print Assumptions C06_statement_false.

Definition cx_conv : fdecl :=
  mkFn 5 200 FPos [mkF EmptyString 2 EmptyString] FPos [mkF EmptyString 5 EmptyString] false false.
Definition cx_copts : list arg := [ATyped [Some (mkV 7 1)]; AConvFunc [Some cx_conv]].
Definition cx_ctape : tape vkey :=
  [(SITE_REACH_OUT, [KArg 3 EmptyString]);
   (1%N, [KRoot]); (1%N, [KOut 1 EmptyString]); (1%N, [KOut 2 EmptyString]);
   (1%N, [KArg 2 EmptyString]); (1%N, [KOut 3 EmptyString]); (1%N, [KArg 3 EmptyString]);
   (1%N, [KFunc 200]); (1%N, [KFunc (-4)]); (1%N, [KOut 5 EmptyString])].

Example C06_convert_counterexample :
  (forall b, build_args [] cx_copts = Some b ->
             wf_call cx_u (identity_fn 3) b = true /\ world_typed (known_funcs (identity_fn 3) b) world0) /\
  convert cx_u (fun _ _ => BOk) 3 cx_copts world0 cx_ctape = Panic 404%N.
Proof.
  split; [|vm_compute; reflexivity].
  intros b Hb. vm_compute in Hb. inversion Hb; subst b. split; [vm_compute; reflexivity|].
  intros fid r g Q. discriminate Q.
Qed.

Theorem C06_convert_statement_false : ~ C06_convert_statement.
Proof.
  intros H. destruct C06_convert_counterexample as [Hwf Hp].
  destruct (H cx_u (fun _ _ => BOk) 3 cx_copts world0 cx_ctape Hwf) as [(r & Q)|(s & Q)];
    rewrite Hp in Q; discriminate Q.
Qed.
Print Assumptions C06_convert_statement_false.

(* ================= the closest true statements ================= *)
(* (b) every call graph built for these options is small enough for the
   distances (Go ints) of the shortest-path search not to wrap around *)
Definition graphs_small (u : universe) (f : fdecl) (d opts : list arg) (t : tape vkey) : Prop :=
  forall b rd fg tr, build_args d opts = Some b -> full_graph u f b rd t = Ok (inl fg, tr) ->
    20 * (Z.of_nat (List.length (g_vertex_keys (fg_g fg))) + 1) < INF.

Definition C06_alt_statement : Prop :=
  forall u bh f d opts w t,
    u_transitive u -> graphs_small u f d opts t ->
    (forall b, build_args d opts = Some b -> wf_call u f b = true /\ world_typed (known_funcs f b) w) ->
    total (call u bh f d opts w t) /\ total (redefine u f d opts w t).

Definition C06_convert_alt_statement : Prop :=
  forall u bh ty opts w t,
    u_transitive u -> graphs_small u (identity_fn ty) [] opts t ->
    (forall b, build_args [] opts = Some b ->
               wf_call u (identity_fn ty) b = true /\ world_typed (known_funcs (identity_fn ty) b) w) ->
    total (convert u bh ty opts w t).

Lemma wf_call_funcs u f b : wf_call u f b = true -> wf_funcs (known_funcs f b) = true.
Proof.
  unfold wf_call. intros H. apply andb_true_iff in H. destruct H as [H _].
  apply andb_true_iff in H. destruct H as [H _]. apply andb_true_iff in H. destruct H as [H _]. exact H.
Qed.

Lemma init_SOK u f b rd cg w :
  bt_ok b -> cg_ok u f b rd cg -> world_typed (known_funcs f b) w ->
  SOK u (known_funcs f b) (map fst (input_vertices b)) (init_state cg w).
Proof.
  intros Bt (_ & _ & Vl) Wt. constructor; cbn [init_state s_vals s_world].
  - intros k v Q. rewrite Vl in Q. unfold vals_of in Q. apply fold_insert_lookup in Q.
    destruct Q as [Q|Q]; [|discriminate Q]. apply (@input_vertices_ok u b k v Bt Q).
  - intros fid r g Q Ig Eg0. apply (Wt fid r g Q Ig Eg0).
  - intros k Ik. rewrite Vl. unfold vals_of. apply fold_insert_mem. left; exact Ik.
Qed.

(* the resolution proper: reachTarget on the pruned call graph *)
Lemma reach_total u bh f b rd cg w :
  u_transitive u -> bt_ok b -> wf_call u f b = true -> world_typed (known_funcs f b) w ->
  cg_ok u f b rd cg ->
  resP (fun sr => SOK u (known_funcs f b) (map fst (input_vertices b)) (fst sr) /\
                  forall am, snd sr = inl am -> am_ok u am)
       (reach u bh (cg_g cg) rd (fuel_of cg) (cg_target cg) (init_state cg w)).
Proof.
  intros Tr Bt Wc Wt Cg. pose proof Cg as (G & Tg & _). rewrite Tg.
  eapply resP_imp.
  - apply reach_heavy with (F := known_funcs f b) (inkeys := map fst (input_vertices b)); auto.
    + apply wf_call_funcs with (u := u); exact Wc.
    + unfold fuel_of. pose proof (pending_le (cg_g cg) (KFunc (fn_type f) :: s_inprog (init_state cg w))). lia.
    + eapply init_SOK; eauto.
  - intros [s r] ((S1 & _ & _) & A). split; [exact S1|exact A].
Qed.

(* (3)-(5) in one statement: on a call graph satisfying the invariant [GOK]
   (established for every graph built by [call_graph], C06TotalGraph.call_graph_spec),
   from a well-typed state, reachTarget neither panics (100/101, 400-404) nor
   runs out of fuel *)
Theorem C06_reach_total :
  forall u bh (g : rgraph) rd F inkeys fuel ft s,
    u_transitive u -> wf_funcs F = true -> GOK u F inkeys rd g ->
    SOK u F inkeys s -> s_inprog s = [] -> (List.length (g_vertex_keys g) < fuel)%nat ->
    total (reach u bh g rd fuel (KFunc ft) s).
Proof.
  intros u bh g rd F inkeys fuel ft s Tr Wf G Hs Is Lt.
  apply resP_total with (P := reach_post u F inkeys s).
  apply reach_heavy; auto.
  pose proof (pending_le g (KFunc ft :: s_inprog s)) as Pl. lia.
Qed.
Print Assumptions C06_reach_total.

Theorem C06_alt_proof : C06_alt_statement.
Proof.
  intros u bh f d opts w t Tr Sm Hwf. split.
  - (* Call *)
    unfold call. destruct (build_args d opts) as [b|] eqn:Hb; [|left; eexists; reflexivity].
    destruct (Hwf b eq_refl) as (Wc & Wt). pose proof (bt_build_args _ _ Hb) as Bt.
    apply resP_total with (P := fun _ => True).
    eapply resP_bind.
    + apply call_graph_spec; [exact Bt|]. intros fg tr Q. apply (Sm b false fg tr Hb Q).
    + intros [[cg|e] tr0] Cg; cbn [fst] in Cg; [|exact I].
      eapply resP_bind; [apply reach_total with (f := f) (b := b); eauto|].
      intros [s [am|e]] (S1 & A1); cbn [fst snd] in *; [|exact I].
      destruct Cg as (G & _ & _).
      eapply resP_bind.
      * apply call_direct_heavy with (g := cg_g cg) (F := known_funcs f b) (inkeys := map fst (input_vertices b));
          [apply wf_call_funcs with (u := u); exact Wc|exact G|exact S1|apply A1; reflexivity|left; reflexivity].
      * intros [res s'] _. exact I.
  - (* Redefine *)
    unfold redefine. destruct (build_args [] opts) as [bo|]; [|left; eexists; reflexivity].
    match goal with |- total (if ?c then _ else _) => destruct c end; [left; eexists; reflexivity|].
    destruct (build_args d opts) as [b|] eqn:Hb; [|left; eexists; reflexivity].
    destruct (Hwf b eq_refl) as (Wc & Wt). pose proof (bt_build_args _ _ Hb) as Bt.
    apply resP_total with (P := fun _ => True).
    eapply resP_bind.
    + apply call_graph_spec; [exact Bt|]. intros fg tr Q. apply (Sm b true fg tr Hb Q).
    + intros [[cg|e] tr0] Cg; cbn [fst] in Cg; [|exact I].
      eapply resP_bind; [apply reach_total with (f := f) (b := b); eauto|].
      intros [s [am|e]] _; cbv zeta; [|exact I].
      match goal with |- resP _ (if ?c then _ else _) => destruct c end; exact I.
Qed.
Print Assumptions C06_alt_proof.

Theorem C06_convert_alt_proof : C06_convert_alt_statement.
Proof.
  intros u bh ty opts w t Tr Sm Hwf. unfold convert.
  destruct (C06_alt_proof u (fun fid n => if fid =? -1 then BOk else bh fid n) (identity_fn ty) [] opts w t Tr Sm Hwf)
    as [[(r & Q)|(s & Q)] _]; rewrite Q; cbn [bind].
  - left. destruct (run_out r) as [res|e]; [|eexists; reflexivity].
    destruct (r_err res); eexists; reflexivity.
  - right. eexists; reflexivity.
Qed.
Print Assumptions C06_convert_alt_proof.

(* the added hypotheses are satisfiable: the counterexample scenario with the
   universe completed by the missing pair (1 implements 3) is total *)
Definition ok_u : universe := mkU [2; 3] [(1, 2); (2, 3); (1, 3); (2, 2); (3, 3)].

Lemma ok_u_transitive : u_transitive ok_u.
Proof.
  intros a b c H1 H2. unfold implements in *.
  apply andb_true_iff in H1. destruct H1 as [_ M1]. apply andb_true_iff in H2. destruct H2 as [_ M2].
  apply C18DijkstraLemmas.memb_In in M1. apply C18DijkstraLemmas.memb_In in M2.
  simpl in M1, M2.
  repeat (destruct M1 as [M1|M1]; [inversion M1; subst; clear M1;
            repeat (destruct M2 as [M2|M2]; [inversion M2; subst; vm_compute; reflexivity|]); destruct M2|]).
  destruct M1.
Qed.

Example C06_alt_nonvacuous :
  total (call ok_u (fun _ _ => BOk) cx_f [] cx_opts world0 cx_tape) /\
  total (redefine ok_u cx_f [] cx_opts world0 cx_tape).
Proof.
  apply C06_alt_proof.
  - exact ok_u_transitive.
  - intros b rd fg tr Hb Hf. vm_compute in Hb. inversion Hb; subst b. clear Hb.
    destruct rd; vm_compute in Hf; inversion Hf; subst fg; vm_compute; reflexivity.
  - intros b Hb. vm_compute in Hb. inversion Hb; subst b. split; [vm_compute; reflexivity|].
    intros fid r g Q. discriminate Q.
Qed.

(* ================= the intermediate deliverables (C06TotalLight.v) ================= *)
Print Assumptions C06_fuel_lemma.
Print Assumptions C06_no_panic_graph.

(* C0213UnsatPrune.v -- the pruned call graph and the proof of C13. *)
From ArgMapper Require Import Base Graph GraphAlg GraphSpec Types Args Resolver ResolverSpec
     CheckResolver Monitors ResolverStatements.
From ArgMapper.proofs Require Import C18DijkstraLemmas C19RefineMap C19RefineGraph
     C0213UnsatGraph C0213UnsatClosure C0213UnsatBuild.
From Coq Require Import List Lia ZArith.
Import ListNotations.
Set Implicit Arguments.
Local Open Scope Z_scope.

Definition pruned (G : rgraph) (tk : vkey) : rgraph :=
  fold_left (fun g k => if memb k (or_reachable G tk) then g else g_remove g k) (g_vertex_keys G) G.

Definition unsat_of (fg : fgraph) : list vkey :=
  filter (fun k => negb (mem k (ghash (pruned (fg_g fg) (fg_target fg))))) (fg_freq fg).

Lemma prune_unfold fg :
  prune fg =
  match unsat_of fg with
  | [] => inl (mkCG (pruned (fg_g fg) (fg_target fg)) (fg_vals fg) (fg_target fg) (fg_inputs fg)
                    (fg_convs fg) (fg_trace fg) (fg_tape fg))
  | _ :: _ => inr (XUnsat (unsat_of fg) (fg_inputs fg) (map fn_type (fg_convs fg)) true)
  end.
Proof. reflexivity. Qed.

Lemma pruned_spec (G : rgraph) (tk : vkey) :
  wf_graph G ->
  let keep := keepset G tk in
  let g' := pruned G tk in
  wf_graph g' /\
  (forall k, vtx g' k = if memb k keep then vtx G k else None) /\
  (forall a b, ew g' a b = if memb a keep && memb b keep then ew G a b else None).
Proof.
  intros W keep g'.
  destruct (remove_fold_spec keep (g_vertex_keys G) W) as (W' & Hv & He).
  split; [exact W'|].
  assert (NV : forall k, memb k (g_vertex_keys G) = false -> vtx G k = None).
  { intros k M. apply membF in M. destruct (vtx G k) eqn:Q; [|reflexivity].
    exfalso. apply M. apply in_vertex_keys. rewrite Q. discriminate. }
  split.
  - intros k. unfold g', pruned. fold (keepset G tk). fold keep. rewrite Hv. unfold removed.
    destruct (memb k keep); simpl.
    + rewrite andb_false_r. reflexivity.
    + rewrite andb_true_r. destruct (memb k (g_vertex_keys G)) eqn:M; [reflexivity|]. apply NV. exact M.
  - intros a b. unfold g', pruned. fold (keepset G tk). fold keep. rewrite He. unfold removed.
    destruct (memb a keep) eqn:Ka; simpl.
    + rewrite andb_false_r. simpl. destruct (memb b keep) eqn:Kb; simpl.
      * rewrite andb_false_r. reflexivity.
      * rewrite andb_true_r. destruct (memb b (g_vertex_keys G)) eqn:M; [reflexivity|].
        destruct (ew G a b) eqn:Q; [|reflexivity]. exfalso.
        assert (N : ew G a b <> None) by (rewrite Q; discriminate).
        apply (ew_closed _ _ W) in N. destruct N as [_ N]. apply N. apply NV. exact M.
    + rewrite andb_true_r. destruct (memb a (g_vertex_keys G)) eqn:M; [reflexivity|]. simpl.
      destruct (memb b (g_vertex_keys G) && negb (memb b keep)); [reflexivity|].
      destruct (ew G a b) eqn:Q; [|reflexivity]. exfalso.
      assert (N : ew G a b <> None) by (rewrite Q; discriminate).
      apply (ew_closed _ _ W) in N. destruct N as [N _]. apply N. apply NV. exact M.
Qed.

Lemma mem_pruned (G : rgraph) (tk k : vkey) :
  wf_graph G ->
  mem k (ghash (pruned G tk)) = memb k (keepset G tk) && present G k.
Proof.
  intros W. destruct (pruned_spec tk W) as (_ & Hv & _).
  unfold mem. fold (vtx (pruned G tk) k). rewrite Hv. unfold present.
  destruct (memb k (keepset G tk)); [|reflexivity]. destruct (vtx G k); reflexivity.
Qed.

(* ---------- derivable requirements are kept (no memoized results) ---------- *)
Lemma ds_freq_kept (G : rgraph) (ft : Z) (freq : list vkey) :
  wf_graph G -> vtx G KRoot <> None -> FN G ->
  (forall k, In k freq -> ew G (KFunc ft) k <> None) ->
  forall k, In k (DS G []) ->
    (forall k', In k' freq -> In k' (keepset G (KFunc ft))) \/
    (k <> KFunc ft /\ In k (keepset G (KFunc ft))).
Proof.
  intros W R Fn Fq. set (tk := KFunc ft).
  apply (ds_ind G [] (fun k => (forall k', In k' freq -> In k' (keepset G tk)) \/ (k <> tk /\ In k (keepset G tk)))).
  - right. split; [discriminate|apply (keep_root _ W R)].
  - intros D k PD Vk St.
    assert (Val : forall r, is_func k = false -> In r D -> ew G k r <> None ->
                  (forall k', In k' freq -> In k' (keepset G tk)) \/ (k <> tk /\ In k (keepset G tk))).
    { intros r Nf Ir Er. destruct (PD r Ir) as [L|[Nr Kr]]; [left; exact L|]. right. split.
      - intros ->. discriminate.
      - apply (keep_closed W R k Kr Nr Er). }
    destruct k as [|ft'|n t s|t s|t s].
    + right. split; [discriminate|apply (keep_root _ W R)].
    + simpl in St. apply orb_true_iff in St. destruct St as [St|St].
      2:{ exfalso. destruct (g_vertex G (KFunc ft')) as [[|c]|]; try discriminate.
          rewrite andb_false_r in St. discriminate. }
      rewrite forallb_forall in St.
      destruct (Z.eq_dec ft' ft) as [->|Ne].
      * left. intros k' Ik'. specialize (Fq k' Ik').
        assert (Ik : In k' D) by (apply membT; apply St; apply in_out_keys; exact Fq).
        destruct (PD k' Ik) as [L|[_ Kk]]; [apply L; exact Ik'|exact Kk].
      * destruct (Fn ft' Vk) as (b & Eb).
        assert (Ib : In b D) by (apply membT; apply St; apply in_out_keys; exact Eb).
        destruct (PD b Ib) as [L|[Nb Kb]]; [left; exact L|]. right. split.
        -- intros Q. inversion Q. contradiction.
        -- apply (keep_closed W R (KFunc ft') Kb Nb Eb).
    + simpl in St. apply existsb_exists in St. destruct St as (r & Ir & Mr).
      apply (Val r); [reflexivity|apply membT; exact Mr|apply in_out_keys; exact Ir].
    + simpl in St. apply existsb_exists in St. destruct St as (r & Ir & Mr).
      apply (Val r); [reflexivity|apply membT; exact Mr|apply in_out_keys; exact Ir].
    + simpl in St. apply existsb_exists in St. destruct St as (r & Ir & Mr).
      apply (Val r); [reflexivity|apply membT; exact Mr|apply in_out_keys; exact Ir].
Qed.

(* ---------- the call up to graph construction ---------- *)
Lemma call_unfold u bh f d opts b w t fg tr :
  build_args d opts = Some b ->
  full_graph u f b false t = Ok (inl fg, tr) ->
  call u bh f d opts w t =
  match prune fg with
  | inr e => Ok (mkRun (OErr e) tr w t [])
  | inl cg =>
      do (s, r) <- reach u bh (cg_g cg) false (fuel_of cg) (cg_target cg) (init_state cg w);
      match r with
      | inr e => Ok (mkRun (OErr e) (s_trace s) (mkW (s_world s) (s_nexec s)) (s_tape s) (s_inputs s))
      | inl am =>
          do (res, s) <- call_direct u bh false f am s;
          Ok (mkRun (if r_builderr res then OErr XMissing else OOk res)
                    (s_trace s) (mkW (s_world s) (s_nexec s)) (s_tape s) (s_inputs s))
      end
  end.
Proof.
  intros HB HF. unfold call. rewrite HB. unfold call_graph. rewrite HF. cbn [bind].
  destruct (prune fg); reflexivity.
Qed.

Theorem C13_main : C13_statement.
Proof.
  intros u bh f d opts b w t r fg tr HB WF HF HC.
  rewrite (@call_unfold u bh f d opts b w t fg tr HB HF) in HC.
  destruct (full_graph_spec _ _ _ _ HF) as (GI & Fn & Tg & Ac & Bc & Fq & Vl & Ar & Tr & Og).
  pose proof (gi_wf GI) as W. pose proof (gi_root GI) as R.
  set (G := fg_g fg) in *. set (tk := KFunc (fn_type f)) in *.
  unfold c13_ok.
  destruct (filter (hopeless fg) (fg_freq fg)) as [|h hs] eqn:Hop; [reflexivity|].
  rewrite <- Hop.
  assert (MP : forall k, mem k (ghash (pruned G tk)) = memb k (keepset G tk) && present G k).
  { intros k. apply mem_pruned. exact W. }
  assert (UI : forall k, In k (unsat_of fg) <->
                         In k (fg_freq fg) /\ (memb k (keepset G tk) && present G k = false)).
  { intros k. unfold unsat_of. rewrite filter_In. fold G. rewrite Tg. fold tk. rewrite MP.
    rewrite negb_true_iff. reflexivity. }
  assert (HU : forall k, In k (filter (hopeless fg) (fg_freq fg)) -> In k (unsat_of fg)).
  { intros k Ik. apply filter_In in Ik. destruct Ik as [Ik Hk]. apply UI. split; [exact Ik|].
    unfold hopeless in Hk. fold G in Hk. rewrite Tg in Hk. fold tk in Hk.
    apply negb_true_iff in Hk. unfold keepset. rewrite Hk. reflexivity. }
  rewrite prune_unfold in HC.
  destruct (unsat_of fg) as [|x xs] eqn:U.
  { exfalso. assert (Ih : In h (filter (hopeless fg) (fg_freq fg))) by (rewrite Hop; left; reflexivity).
    apply HU in Ih. destruct Ih. }
  rewrite <- U in *. clear U x xs.
  inversion HC; subst r; clear HC. unfold co_of_run. cbn [run_out co_unsat].
  (* the five conjuncts *)
  assert (C1 : forallb (fun k => memb k (unsat_of fg)) (filter (hopeless fg) (fg_freq fg)) = true).
  { apply forallb_forall. intros k Ik. apply membT. apply HU. exact Ik. }
  assert (C2 : forallb (fun k => memb k (fg_freq fg) && negb (req_derivable fg [] k) &&
                         negb (match k with
                               | KVal _ _ _ => mem k (fg_vals fg)
                               | KArg t0 s => mem (KOut t0 s) (fg_vals fg)
                               | _ => false end)) (unsat_of fg) = true).
  { apply forallb_forall. intros k Ik. apply UI in Ik. destruct Ik as [Ik Nk].
    assert (NK : ~ (In k (keepset G tk) /\ vtx G k <> None)).
    { intros [A B]. apply membT in A. apply present_true in B. rewrite A, B in Nk. discriminate. }
    apply andb_true_iff. split; [apply andb_true_iff; split|].
    - apply membT. exact Ik.
    - apply negb_true_iff. unfold req_derivable. fold G. apply membF. intros Dk.
      apply NK. split; [|apply (ds_vertex G [] R k Dk)].
      destruct (@ds_freq_kept G (fn_type f) (fg_freq fg) W R Fn (fun k' I' => proj1 (Fq k' I')) k Dk)
        as [L|[_ Kk]]; [apply L; exact Ik|exact Kk].
    - apply negb_true_iff.
      assert (InpKept : forall k0, mem k0 (fg_vals fg) = true -> In k0 (keepset G tk) /\ vtx G k0 <> None).
      { intros k0 M. pose proof (proj1 (Vl k0 M)) as E0. split.
        - apply (@keep_closed G tk W R KRoot k0); [apply (keep_root _ W R)|discriminate|exact E0].
        - apply (ew_closed _ _ W E0). }
      destruct k as [|ft'|n t0 s|t0 s|t0 s]; try reflexivity.
      + destruct (mem (KVal n t0 s) (fg_vals fg)) eqn:M; [|reflexivity].
        exfalso. apply NK. apply InpKept. exact M.
      + destruct (mem (KOut t0 s) (fg_vals fg)) eqn:M; [|reflexivity].
        exfalso. apply NK. destruct (InpKept _ M) as [Ko Vo].
        pose proof (Ar t0 s Ik) as Ea. split.
        * apply (@keep_closed G tk W R (KOut t0 s) (KArg t0 s)); [exact Ko|discriminate|exact Ea].
        * apply (ew_closed _ _ W Ea). }
  assert (C3 : forallb (fun c => memb (fn_type c) (map fn_type (fg_convs fg))) (b_convs b) = true).
  { apply forallb_forall. intros c Ic. apply membT. apply in_map. apply Ac. exact Ic. }
  rewrite C1, C2, C3, seteqb_refl, Nat.eqb_refl. reflexivity.
Qed.

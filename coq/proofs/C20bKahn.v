(* C20bKahn.v -- final theorems for C20b (Kahn's topological sort) and C20d
   (topological shortest path agrees with Dijkstra on single-rooted DAGs).
   Helper files: C20bKahnLemmas.v, C20bKahnSort.v, C20bKahnTsp.v. *)
From ArgMapper Require Import Base Graph GraphAlg GraphSpec GraphStatements.
From ArgMapper.proofs Require Import C20bKahnLemmas C20bKahnSort C20bKahnTsp.
From ArgMapper.proofs Require C18Dijkstra.

(* C20d relative to C18 (proved in C20bKahnTsp.v) *)
Lemma C20d_from_C18 :
  (forall (K : Type) (E : EqDec K) (V : Type), @C18_statement K E V) ->
  forall (K : Type) (E : EqDec K) (V : Type), @C20d_statement K E V.
Proof. exact C20bKahnTsp.C20d_from_C18. Qed.
Print Assumptions C20d_from_C18.

Theorem C20b_proof : forall (K : Type) (E : EqDec K) (V : Type), @C20b_statement K E V.
Proof. intros K E V. apply C20b_holds. Qed.
Print Assumptions C20b_proof.

Theorem C20d_proof : forall (K : Type) (E : EqDec K) (V : Type), @C20d_statement K E V.
Proof. exact (C20d_from_C18 C18Dijkstra.C18_proof). Qed.
Print Assumptions C20d_proof.

(* C01Hist.v -- C01 over histories of Call / Redefine operations that thread
   the world (memo table of run-once functions, execution counter).

   Assumptions made explicit in [C01_history_statement]:
     - [impl_acyclic u]                      (as in C01_alt_proof)
     - a single list [fs] of ALL functions of the Calls of the history with
       [wf_funcs fs = true] (one *Func object = one id = one signature across
       the whole history) that contains [hop_funcs o] of every Call o;
       the memo invariant [world_typed fs w] is carried for this list
     - [hop_ok u o] for every operation: for a Call with builder b:
       wf_call, few_results, small_graph for the operation's own tape
       (nothing is required of Redefine operations: the model's redefine
       returns the world it was given and a trace without executions, C09). *)
From ArgMapper Require Import Base Graph GraphAlg GraphSpec Types Args Resolver ResolverSpec CheckResolver Monitors ResolverStatements HistoryStatements.
From ArgMapper.proofs Require Import C01LabelsDefs C01LabelsBase C01LabelsWalk C01Labels C0911Once.
From Coq Require Import List ZArith Lia.
Import ListNotations.
Set Implicit Arguments.
Local Open Scope Z_scope.

Definition hop_ok (u : universe) (o : HistoryStatements.hop) : Prop :=
  match o with
  | HCall f d opts t =>
      forall b, build_args d opts = Some b ->
                wf_call u f b = true /\ few_results f b = true /\ small_graph u f b t = true
  | HRedefine _ _ _ _ => True
  end.

(* boolean form of the same condition, for evaluation on scenarios *)
Definition hop_ok_b (u : universe) (o : HistoryStatements.hop) : bool :=
  match o with
  | HCall f d opts t =>
      match build_args d opts with
      | Some b => wf_call u f b && few_results f b && small_graph u f b t
      | None => true
      end
  | HRedefine _ _ _ _ => true
  end.

Lemma hop_ok_b_sound u o : hop_ok_b u o = true -> hop_ok u o.
Proof.
  destruct o as [f d opts t|f d opts t]; simpl; [|auto].
  intros H b BA. rewrite BA in H. rewrite !andb_true_iff in H. tauto.
Qed.

Definition C01_history_statement : Prop :=
  forall u bh ops rs fs,
    impl_acyclic u ->
    wf_funcs fs = true ->
    (forall o, In o ops -> is_call o = true -> forall g, In g (hop_funcs o) -> In g fs) ->
    (forall o, In o ops -> hop_ok u o) ->
    hist_run u bh world0 ops = Ok rs ->
    c01_history u [] ops rs = true.

Lemma gen_forall tr :
  forallb (fun e => match e with EExec _ _ _ _ => false | EGen _ _ => true end) tr = true ->
  Forall C01LabelsDefs.is_gen tr.
Proof.
  intros H. rewrite forallb_forall in H. apply Forall_forall. intros e A. apply H in A.
  destruct e; [discriminate|exact Logic.I].
Qed.

Lemma world_typed_0 fs : world_typed fs world0.
Proof. intros fid r g Q. simpl in Q. discriminate. Qed.

Lemma C01_history_general u bh fs :
  impl_acyclic u -> wf_funcs fs = true ->
  forall ops rs earlier w,
    (forall o, In o ops -> is_call o = true -> forall g, In g (hop_funcs o) -> In g fs) ->
    (forall o, In o ops -> hop_ok u o) ->
    world_ok earlier w -> world_typed fs w ->
    hist_run u bh w ops = Ok rs ->
    c01_history u earlier ops rs = true.
Proof.
  intros ACY HFS. induction ops as [|o ops IH]; intros rs earlier w INCL OK WO WT HR.
  - simpl in HR. inversion HR; subst. reflexivity.
  - assert (INCL' : forall o', In o' ops -> is_call o' = true -> forall g, In g (hop_funcs o') -> In g fs).
    { intros o' A. apply INCL. right; exact A. }
    assert (OK' : forall o', In o' ops -> hop_ok u o') by (intros o' A; apply OK; right; exact A).
    destruct o as [f d opts t|f d opts t]; cbn [hist_run] in HR.
    + destruct (call u bh f d opts w t) as [r| | |] eqn:C; cbn [bind] in HR; try discriminate.
      destruct (hist_run u bh (run_world r) ops) as [rs'| | |] eqn:HR'; cbn [bind] in HR; try discriminate.
      inversion HR; subst rs. cbn [c01_history].
      destruct (build_args d opts) as [b|] eqn:BA.
      * destruct (OK (HCall f d opts t) (or_introl eq_refl) b BA) as (WF & FEW & SM).
        assert (IN : forall g0, In g0 (known_funcs f b) -> In g0 fs).
        { intros g0 A. apply (INCL (HCall f d opts t) (or_introl eq_refl) eq_refl).
          simpl. rewrite BA. exact A. }
        destruct (@C01_alt_general u bh f d opts b w t r earlier fs BA WF WO ACY FEW HFS IN WT SM C)
          as [[X1 X2] X3].
        rewrite X1. cbn [andb]. eapply IH; eauto.
      * cbn [andb]. unfold call in C. rewrite BA in C. inversion C; subst r.
        cbn [run_trace run_world] in *. rewrite app_nil_r. eapply IH; eauto.
    + destruct (redefine u f d opts w t) as [[x r]| | |] eqn:R; cbn [bind] in HR; try discriminate.
      cbn [snd] in HR.
      destruct (hist_run u bh (run_world r) ops) as [rs'| | |] eqn:HR'; cbn [bind] in HR; try discriminate.
      inversion HR; subst rs. cbn [c01_history].
      destruct (C09_proof _ _ _ _ _ _ R) as [RW GEN]. rewrite RW in HR'.
      eapply IH; eauto. apply world_ok_gen; [apply gen_forall; exact GEN|exact WO].
Qed.

Theorem C01_history_proof : C01_history_statement.
Proof.
  intros u bh ops rs fs ACY HFS INCL OK HR.
  eapply C01_history_general; eauto using world_ok_0, world_typed_0.
Qed.
Print Assumptions C01_history_proof.

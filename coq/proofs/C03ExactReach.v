(* C03ExactReach.v -- the body of [reach] restated with its nested loops as
   separate definitions (the recursive call abstracted), and the evaluation
   of those loops in the situation of C03: every requirement of the target
   has an exactly matching supplied value. *)
From ArgMapper Require Import Base Graph GraphAlg GraphSpec GraphStatements Types Args Resolver GenWeights ResolverSpec.
From ArgMapper.proofs Require Import C19RefineMap C19RefineGraph C20aDfs C18DijkstraLemmas
  C03ExactArgs C03ExactDijkstra C03ExactGraph.
From Coq Require Import Lia ZArith List.
Import ListNotations.
Set Implicit Arguments.
Local Open Scope Z_scope.

Section Body.
  Variable u : universe.
  Variable behave : behaviour.
  Variable g : rgraph.
  Variable redefine : bool.

  Definition classify (s : rstate) (outs : list vkey) : argmap * list vkey :=
    fold_left (fun acc o =>
          let '(am, todo) := acc in
          match o with
          | KRoot => (am, todo)
          | KArg _ _ => match lookup o (s_vals s) with
                        | Some v => (insert o v am, todo)
                        | None => (am, todo ++ [o])
                        end
          | KVal _ _ _ => match (if redefine then None else lookup o (s_vals s)) with
                          | Some v => (insert o v am, todo)
                          | None => (am, todo ++ [o])
                          end
          | _ => (am, todo ++ [o])
          end) outs (([] : argmap), ([] : list vkey)).

  Definition plan_all (todo : list vkey) (s : rstate) : res (list (list vkey) * list vkey * rstate) :=
    fold_left (fun acc cur =>
            do (paths, unsat, s) <- acc;
            do (path, bad, s) <- plan g redefine cur s;
            Ok (paths ++ [path], (if (bad : bool) then unsat ++ [cur] else unsat), s))
            todo (Ok ([], [], s)).

  Definition walk_with (rec : vkey -> rstate -> res (rstate * (argmap + rerr))) :=
    fix walk (prev : option vkey) (vs : list vkey) (final : option value) (s : rstate)
      : res (rstate * (option value + rerr)) :=
      match vs with
      | [] => Ok (s, inl final)
      | v :: vs =>
        match v with
        | KRoot => walk (Some v) vs final s
        | KVal _ _ _ =>
            let s := match prev with
                     | Some (KOut t st) => set_val s v (lookup (KOut t st) (s_vals s))
                     | Some (KVal n2 t2 s2) =>
                         match lookup (KVal n2 t2 s2) (s_vals s) with
                         | Some x => set_val s v (Some x)
                         | None => s
                         end
                     | _ => s end in
            let cur := lookup v (s_vals s) in
            let s := set_last s cur in
            walk (Some v) vs (match cur with Some x => Some x | None => final end) s
        | KArg t _ =>
            let s := match s_last s with
                     | Some x => if assignable u (v_ty x) t then set_val s v (Some x) else s
                     | None => s end in
            walk (Some v) vs (lookup v (s_vals s)) s
        | KOut _ _ =>
            let s := match prev with
                     | Some (KOut t st) => set_val s v (lookup (KOut t st) (s_vals s))
                     | _ => s end in
            let s := set_last s (lookup v (s_vals s)) in
            walk (Some v) vs final s
        | KFunc _ =>
            match g_vertex g v with
            | Some (PFunc f) =>
                do (s, r) <- rec v s;
                match r with
                | inr e => Ok (s, inr e)
                | inl fam =>
                    do (res, s) <- call_direct u behave redefine f fam s;
                    if r_builderr res then Ok (s, inr XMissing)
                    else match r_err res with
                         | Some e => Ok (s, inr (XConv e))
                         | None =>
                             do (ins, t') <- take_perm SITE_REACH_IN (g_in_keys g v) (s_tape s);
                             do s <- output_values f res ins (set_tape s t');
                             walk (Some v) vs final s
                         end
                end
            | _ => Panic 403%N
            end
        end
      end.

  Definition walk_paths_with (rec : vkey -> rstate -> res (rstate * (argmap + rerr)))
             (leave : rstate -> rstate) :=
    fix walk_paths (paths : list (list vkey)) (am : argmap) (s : rstate)
      : res (rstate * (argmap + rerr)) :=
      match paths with
      | [] => Ok (leave s, inl am)
      | path :: rest =>
        bind (walk_with rec None path None s)
             (fun sr =>
                let '(s, r) := sr in
                match r with
                | inr e => Ok (leave s, inr e)
                | inl None => Panic 404%N
                | inl (Some fv) => walk_paths rest (insert (last path KRoot) fv am) s
                end)
      end.

  Lemma reach_S fuel' target s :
    reach u behave g redefine (S fuel') target s =
    (let s := set_inprog s (target :: s_inprog s) in
     let leave (s : rstate) := set_inprog s (remove1 target (s_inprog s)) in
     do (outs, t') <- take_perm SITE_REACH_OUT (g_out_keys g target) (s_tape s);
     let s := set_tape s t' in
     let '(am, todo) := classify s outs in
     match todo with
     | [] => Ok (leave s, inl am)
     | _ =>
       do (paths, unsat, s) <- plan_all todo s;
       match unsat with
       | _ :: _ => Ok (leave s, inr (XUnsat unsat [] [] false))
       | [] => walk_paths_with (reach u behave g redefine fuel') leave paths am s
       end
     end).
  Proof. reflexivity. Qed.
End Body.

(* ---------- small generic facts ---------- *)
Lemma two_distinct {T} (a b : T) (l : list T) : In a l -> In b l -> a <> b -> (2 <= length l)%nat.
Proof.
  intros Ia Ib N. destruct l as [|x [|y l]]; simpl in *; try lia.
  destruct Ia as [<-|[]]. destruct Ib as [<-|[]]. exfalso; apply N; reflexivity.
Qed.

Lemma etp3 {K} {E : EqDec K} (p : amap K K) (c X r : K) (n : nat) :
  (2 <= n)%nat -> lookup c p = Some X -> lookup X p = Some r -> lookup r p = None ->
  etp (S n) p c [] = Ok [r; X; c].
Proof.
  intros Le Pc PX Pr. destruct n as [|[|n]]; try lia.
  cbn [etp]. rewrite Pc, PX, Pr. reflexivity.
Qed.

Lemma take_pops_total {K} {E : EqDec K} (n : nat) : forall (t : tape K),
  (exists r, take_pops n t = Ok r) \/ take_pops n t = TapeErr SITE_POP.
Proof.
  induction n as [|n IH]; intros t; cbn [take_pops]; [left; eauto|].
  destruct (take_site SITE_POP t) as [[[|x [|y l]] t']|]; auto.
  destruct (IH t') as [[[us t''] Q]|Q]; rewrite Q; cbn [bind]; eauto.
Qed.

Lemma wf_reverse (g : rg) : wf_graph g -> wf_graph (g_reverse g).
Proof. intros W. apply (gspec_reverse (wf_gspec W)). Qed.

Lemma edge_reverse (g : rg) a b w : wf_graph g -> (edge (g_reverse g) a b w <-> edge g b a w).
Proof.
  intros W. unfold edge, g_reverse. cbn [gout]. split; intros Q.
  - apply (wf_mirror W). exact Q.
  - apply (wf_mirror W) in Q. exact Q.
Qed.

Definition is_arg (k : vkey) : bool := match k with KArg _ _ => true | _ => false end.
Definition is_val (k : vkey) : bool := match k with KVal _ _ _ => true | _ => false end.

(* ================= the situation of C03 ================= *)
Section Exact.
  Variable u : universe.
  Variable behave : behaviour.
  Variable f : fdecl.
  Variable b : builder.
  Let ins := map fst (input_vertices b).
  Let funcs := known_funcs f b.
  Variable g : rg.
  Hypothesis BI : binv b.
  Hypothesis EX : all_exact b f = true.
  Hypothesis Hsig : forall h, In h funcs -> fn_type h = fn_type f ->
    forall fld, In fld (fn_in h) -> exists fld', In fld' (fn_in f) /\ field_key fld' = field_key fld.
  Hypothesis HG : GI ins funcs g.
  Hypothesis HR : vertex g KRoot.
  Hypothesis Hfld : forall fld, In fld (fn_in f) -> exists w, edge g (tk f) (field_key fld) w.
  Hypothesis Hin : forall k, In k ins -> edge g k KRoot 1.
  Hypothesis Harg : forall fld, In fld (fn_in f) -> f_name fld = EmptyString ->
       edge g (KArg (f_ty fld) (f_sub fld)) (KOut (f_ty fld) (f_sub fld)) 5.

  Let IV := input_vertices b.

  Lemma vals_lookup k : lookup k (vals_of b) = lookup k IV.
  Proof.
    unfold vals_of. rewrite lookup_fold_insert by (apply input_vertices_nodup; exact BI).
    fold IV. destruct (lookup k IV); reflexivity.
  Qed.

  Lemma iv_value k v : lookup k IV = Some v -> value_of_vertex k = true.
  Proof. intros L. apply lookup_In in L. apply (input_vertices_value b (k, v)). exact L. Qed.

  Lemma iv_arg t s : lookup (KArg t s) IV = None.
  Proof.
    destruct (lookup (KArg t s) IV) as [v|] eqn:L; [|reflexivity].
    apply iv_value in L. discriminate.
  Qed.

  (* an exact value for every parameter *)
  Lemma exact_fld fld : In fld (fn_in f) ->
    exists v, lookup (field_out_key fld) IV = Some v /\ v_ty v = f_ty fld.
  Proof.
    intros If. unfold all_exact in EX. rewrite forallb_forall in EX. specialize (EX fld If).
    unfold exact_value in EX. fold IV in EX.
    destruct (lookup (field_out_key fld) IV) as [v|]; [|discriminate].
    exists v. split; [reflexivity|]. apply Z.eqb_eq. exact EX.
  Qed.

  (* the supplied value behind a root-adjacent vertex of type t *)
  Lemma ins_value X t : In X ins -> kty X = Some t ->
    exists x, lookup X IV = Some x /\ v_ty x = t /\ value_of_vertex X = true.
  Proof.
    intros Ix Kx. destruct (keys_lookup X IV Ix) as (x & L).
    exists x. split; [exact L|].
    pose proof (@input_vertices_ty b X x BI (lookup_In _ _ L)) as Q.
    rewrite Kx in Q. inversion Q. split; [reflexivity|]. eapply iv_value; eauto.
  Qed.

  (* requirements of the target in the pruned graph *)
  Lemma outs_shape o : In o (g_out_keys g (tk f)) ->
    o = KRoot \/ exists fld, In fld (fn_in f) /\ o = field_key fld.
  Proof.
    intros Io. apply (proj1 (@out_keys_edge g _ _)) in Io. destruct Io as (w & Ed).
    destruct (proj2 HG _ _ _ Ed) as (_ & _ & _ & R).
    destruct (R _ eq_refl) as [->|(h & fld & Ih & Th & If & ->)]; [left; reflexivity|right].
    destruct (Hsig Ih Th fld If) as (fld' & If' & <-). eauto.
  Qed.

  Lemma outs_all fld : In fld (fn_in f) -> In (field_key fld) (g_out_keys g (tk f)).
  Proof. intros If. apply out_keys_edge. apply Hfld. exact If. Qed.
  (* ---------- classification of the requirements ---------- *)
  Definition cstep (s : rstate) (acc : argmap * list vkey) (o : vkey) : argmap * list vkey :=
    let '(am, todo) := acc in
    match o with
    | KRoot => (am, todo)
    | KArg _ _ => match lookup o (s_vals s) with
                  | Some v => (insert o v am, todo)
                  | None => (am, todo ++ [o])
                  end
    | KVal _ _ _ => match lookup o (s_vals s) with
                    | Some v => (insert o v am, todo)
                    | None => (am, todo ++ [o])
                    end
    | _ => (am, todo ++ [o])
    end.

  Lemma classify_cstep s outs : classify false s outs = fold_left (cstep s) outs (([] : argmap), ([] : list vkey)).
  Proof. reflexivity. Qed.

  Lemma cstep_fold s : s_vals s = vals_of b ->
    forall outs am0 todo0,
    (forall o, In o outs -> o = KRoot \/ exists fld, In fld (fn_in f) /\ o = field_key fld) ->
    exists am todo, fold_left (cstep s) outs (am0, todo0) = (am, todo) /\
      (forall o, In o todo <-> In o todo0 \/ (In o outs /\ is_arg o = true)) /\
      (forall k, is_val k = true -> lookup k am = if memb k outs then lookup k IV else lookup k am0).
  Proof.
    intros Sv. induction outs as [|o outs IH]; intros am0 todo0 Sh.
    - exists am0, todo0. split; [reflexivity|]. split; [|intros; reflexivity].
      intros o. split; [auto|]. intros [A|[[] _]]. exact A.
    - assert (Sh' : forall o', In o' outs -> o' = KRoot \/ exists fld, In fld (fn_in f) /\ o' = field_key fld).
      { intros o' A. apply Sh. right; exact A. }
      destruct (Sh o (or_introl eq_refl)) as [->|(fld & If & ->)].
      + destruct (IH am0 todo0 Sh') as (am & todo & Q & T & L).
        exists am, todo. split; [exact Q|]. split.
        * intros o. rewrite T. split.
          -- intros [A|[A B]]; [left; exact A|right; split; [right; exact A|exact B]].
          -- intros [A|[[<-|A] B]]; [left; exact A|discriminate|right; split; assumption].
        * intros k Kv. rewrite (L k Kv). cbn [memb].
          destruct k; try discriminate. reflexivity.
      + destruct (exact_fld fld If) as (v & Lv & Tv).
        unfold field_key, field_out_key in *.
        destruct (String.eqb (f_name fld) EmptyString) eqn:Nm.
        * cbn [fold_left cstep]. rewrite Sv, vals_lookup, iv_arg.
          destruct (IH am0 (todo0 ++ [KArg (f_ty fld) (f_sub fld)]) Sh') as (am & todo & Q & T & L).
          exists am, todo. split; [exact Q|]. split.
          -- intros o. rewrite T, in_app_iff. cbn [In]. split.
             ++ intros [[A|[<-|[]]]|[A B]]; [left; exact A|right; split; [left; reflexivity|reflexivity]|right; split; [right; exact A|exact B]].
             ++ intros [A|[[<-|A] B]]; [left; left; exact A|left; right; left; reflexivity|right; split; assumption].
          -- intros k Kv. rewrite (L k Kv). cbn [memb].
             destruct k; try discriminate. reflexivity.
        * cbn [fold_left cstep]. rewrite Sv, vals_lookup, Lv.
          destruct (IH (insert (KVal (f_name fld) (f_ty fld) (f_sub fld)) v am0) todo0 Sh') as (am & todo & Q & T & L).
          exists am, todo. split; [exact Q|]. split.
          -- intros o. rewrite T. cbn [In]. split.
             ++ intros [A|[A B]]; [left; exact A|right; split; [right; exact A|exact B]].
             ++ intros [A|[[<-|A] B]]; [left; exact A|discriminate|right; split; assumption].
          -- intros k Kv. rewrite (L k Kv). cbn [memb].
             destruct (Base.eqb_spec k (KVal (f_name fld) (f_ty fld) (f_sub fld))) as [->|Nk]; cbn [orb].
             ++ rewrite lookup_insert_eq. rewrite Lv. destruct (memb _ outs); reflexivity.
             ++ rewrite lookup_insert_neq by exact Nk. reflexivity.
  Qed.
  (* ---------- the state invariant of the top-level reach ---------- *)
  Variable tr0 : list event.
  Variable w0 : amap Z result.
  Variable n0 : Z.

  Definition sinv (s : rstate) : Prop :=
    (forall k, value_of_vertex k = true -> lookup k (s_vals s) = lookup k IV) /\
    s_inprog s = [tk f] /\ s_trace s = tr0 /\ s_world s = w0 /\ s_nexec s = n0.

  Lemma Wg : wf_graph g.
  Proof. apply HG. Qed.

  Lemma weights_rev a b0 w : edge (g_reverse g) a b0 w -> 1 <= w <= 20.
  Proof. intros Ed. apply (edge_reverse _ _ _ Wg) in Ed. apply (proj2 HG _ _ _ Ed). Qed.

  (* ---------- planning a type-only requirement ---------- *)
  Lemma plan_exact st fld :
    sinv st -> In fld (fn_in f) -> f_name fld = EmptyString ->
    (exists e, plan g false (KArg (f_ty fld) (f_sub fld)) st = TapeErr e) \/
    (exists X st', plan g false (KArg (f_ty fld) (f_sub fld)) st =
                     Ok ([KRoot; X; KArg (f_ty fld) (f_sub fld)], false, st') /\
                   sinv st' /\ s_vals st' = s_vals st /\ kty X = Some (f_ty fld) /\ In X ins).
  Proof.
    intros (Sv & Sp & St & Sw & Sn) If Nm.
    set (t := f_ty fld). set (sb := f_sub fld). set (c := KArg t sb).
    unfold plan. change (discount g c) with g. unfold dijkstra_t.
    destruct (take_pops_total (length (g_vertex_keys (g_reverse g))) (s_tape st)) as [[[pops t'] Q]|Q];
      rewrite Q; cbn [bind]; [|left; eauto].
    assert (Iout : In (KOut t sb) ins).
    { destruct (exact_fld fld If) as (v & Lv & _). unfold field_out_key in Lv. rewrite Nm in Lv.
      apply lookup_keys in Lv. exact Lv. }
    assert (E1 : edge (g_reverse g) KRoot (KOut t sb) 1).
    { apply edge_reverse; [exact Wg|]. apply Hin. exact Iout. }
    assert (E2 : edge (g_reverse g) (KOut t sb) c 5).
    { apply edge_reverse; [exact Wg|]. apply Harg; auto. }
    assert (E3 : forall a w, edge (g_reverse g) a c w -> a <> KRoot /\ 5 <= w).
    { intros a w Ed. apply (edge_reverse _ _ _ Wg) in Ed.
      destruct (proj2 HG _ _ _ Ed) as (_ & _ & R & _). destruct (R _ _ eq_refl) as (Lw & _ & Ka).
      split; [intros ->; discriminate|exact Lw]. }
    assert (Nc : c <> KRoot) by discriminate.
    destruct (dijkstra_near (wf_reverse Wg) (WM := 20) ltac:(lia) weights_rev Nc E1 E2 E3 pops)
      as [(d & p & X & Dj & Pc & PX & Pr & (w1 & Ed1) & (w2 & Ed2))|Dj]; rewrite Dj; cbn [bind];
      [right|left; eauto].
    apply (edge_reverse _ _ _ Wg) in Ed1. apply (edge_reverse _ _ _ Wg) in Ed2.
    assert (KX : kty X = Some t).
    { destruct (proj2 HG _ _ _ Ed1) as (_ & _ & R & _). destruct (R _ _ eq_refl) as (_ & _ & Ka). exact Ka. }
    assert (IX : In X ins).
    { destruct (proj2 HG _ _ _ Ed2) as (_ & R & _). destruct (R eq_refl) as [_ [Fx|Ix]]; [|exact Ix].
      destruct X; discriminate. }
    assert (Len : (2 <= length (g_vertex_keys g))%nat).
    { apply two_distinct with (a := KRoot) (b := c); [exact HR| |discriminate].
      apply (wf_closed Wg _ _ Ed1). }
    unfold edge_to_path. rewrite (@etp3 _ _ p c X KRoot _ Len Pc PX Pr). cbn [bind].
    exists X. eexists. split.
    - rewrite Sp.
      assert (B : existsb (fun v => memb v [tk f]) [KRoot; X; c] = false).
      { unfold tk, c. destruct X; try discriminate; reflexivity. }
      rewrite B. reflexivity.
    - split; [|split; [reflexivity|split; [exact KX|exact IX]]].
      split; [exact Sv|]. split; [exact Sp|]. split; [exact St|]. split; [exact Sw|exact Sn].
  Qed.
  Lemma sinv_set_arg st t sb x lastv :
    sinv st -> sinv (set_val (set_last st lastv) (KArg t sb) (Some x)).
  Proof.
    intros (Sv & Sp & St & Sw & Sn). split; [|repeat split; assumption].
    intros k Vk. cbn [set_val set_vals s_vals set_last]. rewrite lookup_insert_neq; [apply Sv; exact Vk|].
    intros ->. discriminate.
  Qed.

  (* ---------- walking a path root -> X -> typed argument ---------- *)
  Lemma walk_exact rec st X t sb x :
    sinv st -> kty X = Some t -> lookup X IV = Some x -> v_ty x = t ->
    exists st', walk_with u behave g false rec None [KRoot; X; KArg t sb] None st = Ok (st', inl (Some x)) /\
                sinv st'.
  Proof.
    intros (Sv & Sp & St & Sw & Sn) KX L Tx.
    assert (As : assignable u (v_ty x) t = true).
    { unfold assignable. rewrite Tx, Z.eqb_refl. reflexivity. }
    destruct X as [|ft|n t' s'|t' s'|t' s']; try discriminate.
    - cbn [walk_with]. rewrite (Sv (KVal n t' s') eq_refl), L. cbn [s_last set_last]. rewrite As.
      eexists. split.
      + cbn [set_val set_vals s_vals set_last]. rewrite lookup_insert_eq. reflexivity.
      + apply sinv_set_arg. repeat split; assumption.
    - cbn [walk_with]. rewrite (Sv (KOut t' s') eq_refl), L. cbn [s_last set_last]. rewrite As.
      eexists. split.
      + cbn [set_val set_vals s_vals set_last]. rewrite lookup_insert_eq. reflexivity.
      + apply sinv_set_arg. repeat split; assumption.
  Qed.
  (* ---------- planning all, walking all ---------- *)
  Definition argfld (c : vkey) : Prop :=
    exists fld, In fld (fn_in f) /\ f_name fld = EmptyString /\ c = KArg (f_ty fld) (f_sub fld).
  Definition pathok (c : vkey) (path : list vkey) : Prop :=
    exists t sb X, c = KArg t sb /\ path = [KRoot; X; c] /\ kty X = Some t /\ In X ins.
  Definition argok (c : vkey) (x : value) : Prop :=
    exists t sb, c = KArg t sb /\ v_ty x = t /\ exists X, In (X, x) IV.

  Definition pstep (acc : res (list (list vkey) * list vkey * rstate)) (cur : vkey)
    : res (list (list vkey) * list vkey * rstate) :=
    do (paths, unsat, s) <- acc;
    do (path, bad, s) <- plan g false cur s;
    Ok (paths ++ [path], (if (bad : bool) then unsat ++ [cur] else unsat), s).

  Lemma plan_all_pstep todo s : plan_all g false todo s = fold_left pstep todo (Ok ([], [], s)).
  Proof. reflexivity. Qed.

  Lemma pstep_err l e : fold_left pstep l (TapeErr e) = TapeErr e.
  Proof. induction l as [|c l IH]; cbn [fold_left]; [reflexivity|]. exact IH. Qed.

  Lemma plan_all_exact : forall todo, (forall c, In c todo -> argfld c) ->
    forall paths0 st, sinv st ->
    (exists e, fold_left pstep todo (Ok (paths0, [], st)) = TapeErr e) \/
    (exists paths st', fold_left pstep todo (Ok (paths0, [], st)) = Ok (paths0 ++ paths, [], st') /\
                       sinv st' /\ Forall2 pathok todo paths).
  Proof.
    induction todo as [|c todo IH]; intros Ha paths0 st Si.
    - right. exists [], st. rewrite app_nil_r. split; [reflexivity|]. split; [exact Si|constructor].
    - cbn [fold_left].
      destruct (Ha c (or_introl eq_refl)) as (fld & If & Nm & ->).
      destruct (@plan_exact st fld Si If Nm) as [(e & P)|(X & st1 & P & Si1 & _ & KX & IX)].
      + left. exists e.
        assert (Eq : pstep (Ok (paths0, [], st)) (KArg (f_ty fld) (f_sub fld)) = TapeErr e).
        { unfold pstep. cbn [bind]. rewrite P. reflexivity. }
        rewrite Eq. apply pstep_err.
      + assert (Eq : pstep (Ok (paths0, [], st)) (KArg (f_ty fld) (f_sub fld)) =
                     Ok (paths0 ++ [[KRoot; X; KArg (f_ty fld) (f_sub fld)]], [], st1)).
        { unfold pstep. cbn [bind]. rewrite P. reflexivity. }
        rewrite Eq.
        destruct (IH (fun c' A => Ha c' (or_intror A)) (paths0 ++ [[KRoot; X; KArg (f_ty fld) (f_sub fld)]]) st1 Si1)
          as [(e & Q)|(paths & st' & Q & Si' & F2)].
        * left. exists e. exact Q.
        * right. exists ([KRoot; X; KArg (f_ty fld) (f_sub fld)] :: paths), st'.
          rewrite Q, <- app_assoc. split; [reflexivity|]. split; [exact Si'|].
          constructor; [|exact F2]. exists (f_ty fld), (f_sub fld), X. auto.
  Qed.

  Lemma walk_paths_exact rec leave : forall todo paths, Forall2 pathok todo paths ->
    forall am st, sinv st ->
    exists st' am', walk_paths_with u behave g false rec leave paths am st = Ok (leave st', inl am') /\
      sinv st' /\
      (forall k, is_arg k = false -> lookup k am' = lookup k am) /\
      (forall c, In c todo -> exists x, lookup c am' = Some x /\ argok c x) /\
      (forall k x, lookup k am = Some x -> argok k x -> exists x', lookup k am' = Some x' /\ argok k x').
  Proof.
    induction 1 as [|c path todo paths Pk F2 IH]; intros am st Si.
    - exists st, am. split; [reflexivity|]. split; [exact Si|]. split; [reflexivity|].
      split; [intros c []|]. intros k x L A. eauto.
    - destruct Pk as (t & sb & X & -> & -> & KX & IX).
      destruct (ins_value X IX KX) as (x & Lx & Tx & _).
      destruct (@walk_exact rec st X t sb x Si KX Lx Tx) as (st1 & Wk & Si1).
      cbn [walk_paths_with]. rewrite Wk. cbn [bind last].
      destruct (IH (insert (KArg t sb) x am) st1 Si1) as (st' & am' & Q & Si' & N1 & N2 & N3).
      assert (Ax : argok (KArg t sb) x).
      { exists t, sb. split; [reflexivity|]. split; [exact Tx|]. exists X. apply lookup_In. exact Lx. }
      exists st', am'. split; [exact Q|]. split; [exact Si'|]. split; [|split].
      + intros k Nk. rewrite (N1 k Nk). apply lookup_insert_neq. intros ->. discriminate.
      + intros c [<-|Ic]; [|apply N2; exact Ic].
        apply (N3 (KArg t sb) x); [apply lookup_insert_eq|exact Ax].
      + intros k x0 L A. destruct (Base.eqb_spec k (KArg t sb)) as [->|Nk].
        * apply (N3 (KArg t sb) x); [apply lookup_insert_eq|exact Ax].
        * apply (N3 k x0); [|exact A]. rewrite lookup_insert_neq by exact Nk. exact L.
  Qed.

  (* ---------- the top-level reach ---------- *)
  Definition good (am : argmap) : Prop :=
    forall fld, In fld (fn_in f) ->
      exists v, lookup (field_key fld) am = Some v /\ v_ty v = f_ty fld /\ (exists X, In (X, v) IV) /\
                (String.eqb (f_name fld) EmptyString = false -> lookup (field_out_key fld) IV = Some v).

  Lemma reach_exact fuel' st0 :
    s_vals st0 = vals_of b -> s_inprog st0 = [] -> s_trace st0 = tr0 -> s_world st0 = w0 -> s_nexec st0 = n0 ->
    (exists e, reach u behave g false (S fuel') (tk f) st0 = TapeErr e) \/
    (exists s' am, reach u behave g false (S fuel') (tk f) st0 = Ok (s', inl am) /\ good am /\
                   s_trace s' = tr0 /\ s_world s' = w0 /\ s_nexec s' = n0).
  Proof.
    intros Sv Sp St Sw Sn. rewrite reach_S. cbv zeta. cbn [s_tape set_inprog].
    destruct (take_perm_total SITE_REACH_OUT (g_out_keys g (tk f)) (s_tape st0)) as [[[outs t'] TP]|TP];
      rewrite TP; cbn [bind]; [|left; eauto].
    pose proof (take_perm_In _ _ _ TP) as Io.
    set (s1 := set_tape _ t').
    assert (Sv1 : s_vals s1 = vals_of b) by exact Sv.
    assert (Si1 : sinv s1).
    { split; [intros k _; rewrite Sv1; apply vals_lookup|]. unfold s1. cbn. rewrite Sp. repeat split; assumption. }
    assert (Sh : forall o, In o outs -> o = KRoot \/ exists fld, In fld (fn_in f) /\ o = field_key fld).
    { intros o A. apply outs_shape. apply Io. exact A. }
    rewrite classify_cstep.
    destruct (cstep_fold s1 Sv1 outs [] [] Sh) as (am & todo & Q & T & L). rewrite Q.
    assert (Named : forall fld, In fld (fn_in f) -> String.eqb (f_name fld) EmptyString = false ->
              exists v, lookup (field_key fld) am = Some v /\ v_ty v = f_ty fld /\ (exists X, In (X, v) IV) /\
                        lookup (field_out_key fld) IV = Some v).
    { intros fld If Nm. destruct (exact_fld fld If) as (v & Lv & Tv).
      pose proof (outs_all fld If) as Ik. apply Io in Ik. apply memb_In in Ik.
      unfold field_key, field_out_key in *. rewrite Nm in *.
      exists v. rewrite (L (KVal (f_name fld) (f_ty fld) (f_sub fld)) eq_refl), Ik. split; [exact Lv|]. split; [exact Tv|]. split; [|exact Lv].
      eexists. apply lookup_In. exact Lv. }
    assert (Todo : forall c, In c todo -> argfld c).
    { intros c Ic. apply T in Ic. destruct Ic as [[]|[Ic Ac]].
      destruct (Sh c Ic) as [->|(fld & If & ->)]; [discriminate|].
      exists fld. split; [exact If|]. unfold field_key in *.
      destruct (String.eqb_spec (f_name fld) EmptyString) as [Nm|Nm]; [auto|discriminate]. }
    assert (Typed : forall fld, In fld (fn_in f) -> String.eqb (f_name fld) EmptyString = true ->
              In (field_key fld) todo).
    { intros fld If Nm. apply T. right. pose proof (outs_all fld If) as Ik. apply Io in Ik.
      split; [exact Ik|]. unfold field_key. rewrite Nm. reflexivity. }
    destruct todo as [|c todo'].
    - right. eexists. exists am. split; [reflexivity|]. split.
      + intros fld If. destruct (String.eqb (f_name fld) EmptyString) eqn:Nm.
        * destruct (Typed fld If Nm).
        * destruct (Named fld If Nm) as (v & A1 & A2 & A3 & A4). exists v. auto.
      + cbn. auto.
    - rewrite plan_all_pstep.
      destruct (@plan_all_exact (c :: todo') Todo [] s1 Si1) as [(e & P)|(paths & st2 & P & Si2 & F2)]; rewrite P; cbn [bind];
        [left; eauto|].
      cbn [app].
      destruct (walk_paths_exact (reach u behave g false fuel')
                  (fun s => set_inprog s (remove1 (tk f) (s_inprog s))) F2 am Si2)
        as (st3 & am' & W & Si3 & N1 & N2 & _).
      right. eexists. exists am'. split; [exact W|]. split.
      + intros fld If. destruct (String.eqb (f_name fld) EmptyString) eqn:Nm.
        * destruct (N2 _ (Typed fld If Nm)) as (x & Lx & (t & sb & Ec & Tx & HX)).
          exists x. split; [exact Lx|]. unfold field_key in Ec. rewrite Nm in Ec. injection Ec as Et Es.
          split; [rewrite Et; exact Tx|]. split; [exact HX|]. discriminate.
        * destruct (Named fld If Nm) as (v & A1 & A2 & A3 & A4). exists v.
          split; [|auto]. rewrite N1; [exact A1|]. unfold field_key. rewrite Nm. reflexivity.
      + destruct Si3 as (_ & _ & A1 & A2 & A3). cbn. auto.
  Qed.
End Exact.

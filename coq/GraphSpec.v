(* GraphSpec.v -- specification vocabulary for the graph layer: well-formed
   graphs, edges, walks, reachability, distances.  Shared by the property
   statements C18, C19, C20 and the resolver proofs. *)
From ArgMapper Require Import Base Graph GraphAlg.
From Coq Require Import Permutation.
Set Implicit Arguments.
Local Open Scope Z_scope.

Section Spec.
  Context {K : Type} `{EqDec K} {V : Type}.
  Notation graph := (graph K V).

  (* the representation invariant of a Go Graph that was only ever touched
     through its methods *)
  Record wf_graph (g : graph) : Prop := {
    wf_out_nodup : NoDup (keys (gout g));
    wf_in_nodup : NoDup (keys (gin g));
    wf_hash_nodup : NoDup (keys (ghash g));
    wf_out_keys : forall k, In k (keys (gout g)) <-> In k (keys (ghash g));
    wf_in_keys : forall k, In k (keys (gin g)) <-> In k (keys (ghash g));
    wf_inner_out_nodup : forall k i, lookup k (gout g) = Some i -> NoDup (keys i);
    wf_inner_in_nodup : forall k i, lookup k (gin g) = Some i -> NoDup (keys i);
    (* in is the transpose of out, weights included *)
    wf_mirror : forall a b w, lookup b (inner (gout g) a) = Some w <-> lookup a (inner (gin g) b) = Some w;
    (* no dangling edges *)
    wf_closed : forall a b w, lookup b (inner (gout g) a) = Some w ->
                              In a (keys (ghash g)) /\ In b (keys (ghash g))
  }.

  Definition vertex (g : graph) (k : K) : Prop := In k (keys (ghash g)).
  Definition edge (g : graph) (a b : K) (w : Z) : Prop := lookup b (inner (gout g) a) = Some w.

  (* walk g a b p w: p = a :: ... :: b follows edges of g, total weight w *)
  Inductive walk (g : graph) : K -> K -> list K -> Z -> Prop :=
  | walk_nil : forall a, vertex g a -> walk g a a [a] 0
  | walk_cons : forall a b c p w1 w2,
      edge g a b w1 -> walk g b c p w2 -> walk g a c (a :: p) (w1 + w2).

  Definition reach (g : graph) (a b : K) : Prop := exists p w, walk g a b p w.
  (* nonempty walk *)
  Definition reach1 (g : graph) (a b : K) : Prop := exists c w p w2, edge g a c w /\ walk g c b p w2.
  Definition acyclic (g : graph) : Prop := forall a, ~ reach1 g a a.

  Definition nonneg (g : graph) : Prop := forall a b w, edge g a b w -> 0 <= w.
  Definition total_weight (g : graph) : Z :=
    fold_left (fun acc kv => fold_left (fun acc e => acc + snd e) (snd kv) acc) (gout g) 0.

  (* d is the length of a shortest walk from a to b *)
  Definition min_dist (g : graph) (a b : K) (d : Z) : Prop :=
    (exists p, walk g a b p d) /\ (forall p w, walk g a b p w -> d <= w).

  (* interior vertices of a walk (all but the first and last) *)
  Definition interior (p : list K) : list K := removelast (tl p).
End Spec.

(* CheckGraph.v -- correspondence checks for the graph layer (streams dijk,
   dijkneg, hist, trav): the model is evaluated on the inputs and order
   tapes recorded while the Go implementation ran, and the observations
   must coincide.  Each check also evaluates the property monitor on the
   IMPLEMENTATION's outputs.  Result: list of (case index, error code);
   empty = all agree. *)
From ArgMapper Require Import Base Graph GraphAlg GraphHist GraphStatements.
Set Implicit Arguments.
Local Open Scope Z_scope.

Notation zgraph := (graph Z Z).

Definition build_graph (n : Z) (edges : list (Z * Z * Z)) : zgraph :=
  let vs := map Z.of_nat (seq 0 (Z.to_nat n)) in
  let g0 := fold_left (fun g k => g_add g k k) vs g_empty in
  fold_left (fun g e => let '(a, b, w) := e in
                        match g_add_edge g a b w with Some g' => g' | None => g end) edges g0.

Definition zrange (n : Z) : list Z := map Z.of_nat (seq 0 (Z.to_nat n)).

(* ---------- reference shortest distances (Bellman-Ford, n rounds) ---------- *)
Definition bf_round (edges : list (Z * Z * Z)) (d : amap Z Z) : amap Z Z :=
  fold_left (fun d e => let '(a, b, w) := e in
                        match lookup a d with
                        | Some da => match lookup b d with
                                     | Some db => if da + w <? db then insert b (da + w) d else d
                                     | None => insert b (da + w) d
                                     end
                        | None => d
                        end) edges d.
Fixpoint bf (k : nat) (edges : list (Z * Z * Z)) (d : amap Z Z) : amap Z Z :=
  match k with O => d | S k => bf k edges (bf_round edges d) end.
Definition ref_dist (n : Z) (edges : list (Z * Z * Z)) (src : Z) : amap Z Z :=
  bf (Z.to_nat n) edges [(src, 0)].

Fixpoint path_weight (g : zgraph) (p : list Z) : option Z :=
  match p with
  | [] => Some 0
  | [_] => Some 0
  | a :: ((b :: _) as rest) =>
      match g_weight g a b, path_weight g rest with
      | Some w, Some r => Some (w + r)
      | _, _ => None
      end
  end.

(* ---------- stream dijk ---------- *)
Record dijk_case := mkDijkCase {
  dc_n : Z; dc_edges : list (Z * Z * Z); dc_src : Z;
  dc_tape : tape Z; dc_panic : bool;
  dc_dist : list (Z * Z); dc_prev : list (Z * Z); dc_paths : list (list Z) }.

Definition amap_agrees (m : amap Z Z) (obs : list (Z * Z)) (dflt : Z) : bool :=
  forallb (fun kv => match lookup (fst kv) m with
                     | Some x => x =? snd kv
                     | None => snd kv =? dflt
                     end) obs.

Definition no_overflow (edges : list (Z * Z * Z)) : bool :=
  forallb (fun e => 0 <=? snd e) edges && (fold_left (fun a e => a + snd e) edges 0 <? INF).

(* the C18 monitor on the implementation's outputs *)
Definition c18_monitor (c : dijk_case) : bool :=
  negb (no_overflow (dc_edges c)) ||
  let g := build_graph (dc_n c) (dc_edges c) in
  let ref := ref_dist (dc_n c) (dc_edges c) (dc_src c) in
  forallb (fun vp =>
    let '(v, path) := vp in
    let dv := match lookup v (dc_dist c) with Some x => x | None => -1 end in
    match lookup v ref with
    | Some d =>   (* reachable: exact distance, path from src of that weight *)
        (dv =? d) &&
        (match path with a :: _ => a =? dc_src c | [] => false end) &&
        (last path (-1) =? v) &&
        (match path_weight g path with Some w => w =? d | None => false end)
    | None =>     (* unreachable: the chain never leads back to the source *)
        negb (memb (dc_src c) path)
    end) (combine (zrange (dc_n c)) (dc_paths c)).

Definition check_dijk (monitor : bool) (c : dijk_case) : Z :=
  let g := build_graph (dc_n c) (dc_edges c) in
  if monitor && negb (dc_panic c) && negb (c18_monitor c) then 60 else
  if monitor && dc_panic c then 61 else
  match dijkstra_t g (dc_src c) (dc_tape c) with
  | Ok (d, p, _) =>
      if dc_panic c then 1
      else if negb (amap_agrees d (dc_dist c) (-7)) then 2
      else if negb (amap_agrees p (dc_prev c) (-1)) then 3
      else if negb (forallb (fun vp => match edge_to_path g p (fst vp) with
                                       | Ok path => eqb path (snd vp)
                                       | _ => false
                                       end) (combine (zrange (dc_n c)) (dc_paths c))) then 4
      else 0
  | Panic _ => if dc_panic c then 0 else 5
  | TapeErr _ => 6
  | OutOfFuel => 7
  end.

Definition run_checks {C} (f : C -> Z) (cases : list (Z * C)) : list (Z * Z) :=
  filter (fun r => negb (snd r =? 0)) (map (fun ic => (fst ic, f (snd ic))) cases).

Definition check_dijk_all := run_checks (check_dijk true).
Definition check_dijkneg_all := run_checks (check_dijk false).

(* ---------- stream hist ---------- *)
Record hobs := mkHObs {
  ho_handle : nat;
  ho_vertices : list (Z * Z);                 (* key, payload; sorted by key *)
  ho_edges : list (Z * list Z * list Z);      (* key, OutEdges keys, InEdges keys (sorted) *)
  ho_wout : list (Z * Z * Z); ho_win : list (Z * Z * Z);   (* raw adjacency dumps *)
  ho_okeys : list Z; ho_ikeys : list Z }.

Record hist_case := mkHistCase {
  hc_ops : list (gop Z Z); hc_panic_at : Z; hc_nkeys : Z; hc_obs : list hobs }.

Fixpoint zinsert (x : Z) (l : list Z) : list Z :=
  match l with [] => [x] | y :: l' => if x <=? y then x :: l else y :: zinsert x l' end.
Definition zsort (l : list Z) : list Z := fold_right zinsert [] l.

Definition dump_adj (m : adj Z) : list (Z * Z * Z) :=
  flat_map (fun kv => map (fun e => (fst kv, fst e, snd e)) (snd kv)) m.

Definition triple_mem (t : Z * Z * Z) (l : list (Z * Z * Z)) : bool := memb t l.

Definition obs_ok (s : hstate Z Z) (nkeys : Z) (o : hobs) : bool :=
  let g := view s (ho_handle o) in
  let vs := ghash g in
  (* Vertices(): same key set, same payloads *)
  (Nat.eqb (length vs) (length (ho_vertices o))) &&
  forallb (fun kp => match lookup (fst kp) vs with Some p => p =? snd kp | None => false end) (ho_vertices o) &&
  (* OutEdges / InEdges through the hash map: a dangling key shows as -1 *)
  forallb (fun e => let '(k, outs, ins) := e in
             eqb (zsort (map (fun x => if mem x vs then x else -1) (g_out_keys g k))) outs &&
             eqb (zsort (map (fun x => if mem x vs then x else -1) (g_in_keys g k))) ins) (ho_edges o) &&
  (* raw adjacency, both directions, with weights *)
  (let mo := dump_adj (gout g) in let mi := dump_adj (gin g) in
   Nat.eqb (length mo) (length (ho_wout o)) && forallb (fun t => triple_mem t mo) (ho_wout o) &&
   Nat.eqb (length mi) (length (ho_win o)) && forallb (fun t => triple_mem t mi) (ho_win o)) &&
  eqb (zsort (keys (gout g))) (ho_okeys o) && eqb (zsort (keys (gin g))) (ho_ikeys o).

(* C19 monitor on the implementation's observations: in/out mirror each
   other with equal weights; adjacency keys = vertex keys; no dangling *)
Definition c19_monitor (o : hobs) : bool :=
  let vk := map fst (ho_vertices o) in
  forallb (fun t => let '(a, b, w) := t in memb (b, a, w) (ho_win o) && memb a vk && memb b vk) (ho_wout o) &&
  forallb (fun t => let '(b, a, w) := t in memb (a, b, w) (ho_wout o)) (ho_win o) &&
  eqb (zsort vk) (ho_okeys o) && eqb (zsort vk) (ho_ikeys o) &&
  forallb (fun e => let '(k, outs, ins) := e in
             eqb outs (zsort (map (fun t => snd (fst t)) (filter (fun t => fst (fst t) =? k) (ho_wout o)))) &&
             eqb ins (zsort (map (fun t => snd (fst t)) (filter (fun t => fst (fst t) =? k) (ho_win o))))) (ho_edges o).

(* C19 itself on the implementation's observations: every handle shows
   exactly what the plain adjacency model of its allocation class holds
   (GraphStatements.arun, the specification of theorem C19) -- vertices with
   payloads, weighted successors, and predecessors as the mirror image *)
Definition wlookup (a b : Z) (l : list (Z * Z * Z)) : option Z :=
  match find (fun t => (fst (fst t) =? a) && (snd (fst t) =? b)) l with
  | Some t => Some (snd t) | None => None end.
Definition c19_spec_ok (ops : list (gop Z Z)) (nkeys : Z) (o : hobs) : bool :=
  let st := arun ops in
  let (c, r) := a_handle st (ho_handle o) in
  let m := a_class st c in
  let ks := zrange (nkeys + 1) in
  forallb (fun kp => (0 <=? fst kp) && (fst kp <=? nkeys)) (ho_vertices o) &&
  forallb (fun k => eqb (lookup k (ho_vertices o)) (mv m k)) ks &&
  forallb (fun a => forallb (fun b =>
     let want := if r then me m b a else me m a b in
     eqb (wlookup a b (ho_wout o)) want && eqb (wlookup b a (ho_win o)) want) ks) ks &&
  Nat.eqb (length (ho_wout o)) (length (ho_win o)).

Fixpoint hrun_upto (s : hstate Z Z) (ops : list (gop Z Z)) (i : Z) : Z + hstate Z Z :=
  match ops with
  | [] => inr s
  | o :: ops => match hstep s o with
                | Ok s' => hrun_upto s' ops (i + 1)
                | _ => inl i
                end
  end.

Definition check_hist (c : hist_case) : Z :=
  if negb (hc_panic_at c =? -1) then 61 (* the implementation panicked *) else
  if negb (forallb c19_monitor (hc_obs c)) then 60 else
  if negb (forallb (c19_spec_ok (hc_ops c) (hc_nkeys c)) (hc_obs c)) then 62 else
  match hrun_upto h0 (hc_ops c) 0 with
  | inl i => if hc_panic_at c =? i then 0 else 1
  | inr s =>
      if negb (hc_panic_at c =? -1) then 2
      else if negb (Nat.eqb (length (handles s)) (length (hc_obs c))) then 3
      else if negb (forallb (obs_ok s (hc_nkeys c)) (hc_obs c)) then 4
      else 0
  end.
Definition check_hist_all := run_checks check_hist.

(* ---------- stream trav ---------- *)
Record trav_case := mkTravCase {
  tc_n : Z; tc_edges : list (Z * Z * Z); tc_start : Z; tc_desc : list Z; tc_stop : list Z;
  tc_dfs_tape : tape Z; tc_dfs_panic : bool; tc_reported : list Z; tc_aborted : bool;
  tc_kahn_tape : tape Z; tc_kahn_panic : bool; tc_order : list Z;
  tc_scc_tape : tape Z; tc_scc_panic : bool; tc_sccs : list (list Z);
  tc_root : Z; tc_tsp : list (Z * option Z * Z);
  tc_dijk : tape Z * list (Z * Z) }.

(* reference reachability: vertices reachable from [from] in <= n steps,
   where only vertices satisfying [through] may be interior *)
Definition succs (edges : list (Z * Z * Z)) (a : Z) : list Z :=
  map (fun e => snd (fst e)) (filter (fun e => fst (fst e) =? a) edges).
Fixpoint reach_k (k : nat) (edges : list (Z * Z * Z)) (through : Z -> bool) (frontier seen : list Z) : list Z :=
  match k with
  | O => seen
  | S k =>
      let next := dedup (flat_map (fun a => succs edges a) frontier) in
      let fresh := filter (fun x => negb (memb x seen)) next in
      match fresh with
      | [] => seen
      | _ => reach_k k edges through (filter through fresh) (seen ++ fresh)
      end
  end.
(* everything reachable from a by a nonempty path *)
Definition reach_from (n : Z) (edges : list (Z * Z * Z)) (a : Z) : list Z :=
  reach_k (S (Z.to_nat n)) edges (fun _ => true) [a] [].

(* C20 monitor, on the implementation's outputs only *)
Definition c20_dfs_monitor (c : trav_case) : bool :=
  (* without abort: reported set = vertices other than start reachable through
     descended vertices; every descended vertex reported exactly once *)
  if tc_aborted c || tc_dfs_panic c then true
  else
    let through := fun x => memb x (tc_desc c) in
    let expect := filter (fun x => negb (x =? tc_start c))
                    (reach_k (S (Z.to_nat (tc_n c))) (tc_edges c) through [tc_start c] []) in
    seteqb (tc_reported c) expect &&
    forallb (fun x => if through x then Nat.eqb (count_occ Z.eq_dec (tc_reported c) x) 1 else true) (tc_reported c).

Definition index_of (x : Z) (l : list Z) : Z :=
  (fix go l i := match l with [] => -1 | y :: l => if x =? y then i else go l (i + 1) end) l 0.

Definition cyclic (n : Z) (edges : list (Z * Z * Z)) : bool :=
  existsb (fun a => memb a (reach_from n edges a)) (zrange n).

Definition c20_kahn_monitor (c : trav_case) : bool :=
  if cyclic (tc_n c) (tc_edges c) then tc_kahn_panic c
  else negb (tc_kahn_panic c) &&
       permb (tc_order c) (zrange (tc_n c)) &&
       forallb (fun e => index_of (fst (fst e)) (tc_order c) <? index_of (snd (fst e)) (tc_order c)) (tc_edges c).

Definition c20_scc_monitor (c : trav_case) : bool :=
  negb (tc_scc_panic c) &&
  permb (concat (tc_sccs c)) (zrange (tc_n c)) &&
  (* each component is exactly the mutual-reachability class of its members *)
  forallb (fun comp =>
     forallb (fun a =>
        let cls := a :: filter (fun b => negb (b =? a) && memb b (reach_from (tc_n c) (tc_edges c) a)
                                          && memb a (reach_from (tc_n c) (tc_edges c) b)) (zrange (tc_n c)) in
        seteqb comp cls) comp) (tc_sccs c).

Definition c20_tsp_monitor (c : trav_case) : bool :=
  (* single-rooted DAG: topological shortest path agrees with Dijkstra on all non-root vertices *)
  if tc_kahn_panic c || negb (no_overflow (tc_edges c)) then true
  else
    let roots := filter (fun v => negb (existsb (fun e => snd (fst e) =? v) (tc_edges c))) (zrange (tc_n c)) in
    match roots with
    | [r] => forallb (fun t => let '(v, d, _) := t in
                        if v =? r then true
                        else match d, lookup v (snd (tc_dijk c)) with
                             | Some x, Some y => x =? y
                             | None, Some y => y =? INF
                             | _, None => false
                             end) (tc_tsp c)
    | _ => true
    end.

Definition check_trav (c : trav_case) : Z :=
  let g := build_graph (tc_n c) (tc_edges c) in
  let desc := fun x => memb x (tc_desc c) in
  let stop := fun x => memb x (tc_stop c) in
  let r_dfs := match dfs_run g desc stop (tc_start c) (tc_dfs_tape c) with
               | Ok (rep, ab, _) => if tc_dfs_panic c then 1
                                    else if negb (eqb rep (tc_reported c)) then 2
                                    else if negb (Bool.eqb ab (tc_aborted c)) then 3 else 0
               | Panic _ => if tc_dfs_panic c then 0 else 4
               | _ => 5
               end in
  let r_kahn := match kahn g (tc_kahn_tape c) with
                | Ok (L, _) => if tc_kahn_panic c then 10 else if eqb L (tc_order c) then 0 else 11
                | Panic _ => if tc_kahn_panic c then 0 else 12
                | _ => 13
                end in
  let r_scc := match strongly_connected g (tc_scc_tape c) with
               | Ok (cs, _) => if tc_scc_panic c then 20 else if eqb cs (tc_sccs c) then 0 else 21
               | Panic _ => if tc_scc_panic c then 0 else 22
               | _ => 23
               end in
  let r_tsp := if tc_kahn_panic c then 0
               else match tc_order c with
                    | [] => 0
                    | _ =>
                      let (d, p) := topo_shortest_path g (tc_order c) in
                      if forallb (fun t => let '(v, dv, pv) := t in
                                           eqb (lookup v d) dv &&
                                           (match lookup v p with Some q => q =? pv | None => pv =? -1 end)) (tc_tsp c)
                      then match dijkstra_t g (tc_root c) (fst (tc_dijk c)) with
                           | Ok (dd, _, _) => if amap_agrees dd (snd (tc_dijk c)) (-7) then 0 else 31
                           | _ => 32
                           end
                      else 30
                    end in
  if negb (c20_dfs_monitor c) then 64
  else if negb (c20_kahn_monitor c) then 65
  else if negb (c20_scc_monitor c) then 66
  else if negb (c20_tsp_monitor c) then 67
  else if tc_dfs_panic c || tc_scc_panic c then 61
  else if negb (r_dfs =? 0) then r_dfs
  else if negb (r_kahn =? 0) then r_kahn
  else if negb (r_scc =? 0) then r_scc
  else if negb (r_tsp =? 0) then r_tsp
  else 0.
Definition check_trav_all := run_checks check_trav.

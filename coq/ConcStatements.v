(* ConcStatements.v -- C11 (concurrent half) and C12 as propositions. *)
From ArgMapper Require Import Base Graph GraphAlg Types Args Resolver ResolverSpec CheckResolver Monitors Conc.
Set Implicit Arguments.
Local Open Scope Z_scope.

(* C11, concurrent: under EVERY schedule of k threads needing the same
   run-once function, the body runs at most once and every thread that has
   finished observed the result of that single execution *)
Definition C11_conc_statement : Prop :=
  forall (k : nat) (sched : list nat),
    let s := crun (cinit k) sched in
    c_runs s <= 1 /\
    (forall i v, nth_error (c_pcs s) i = Some (PDone v) -> c_runs s = 1 /\ c_cache s = Some v /\ v = 1).
(* ... and every thread can finish (the protocol does not deadlock): the
   schedule that runs each thread to completion in turn finishes all *)
Definition C11_conc_progress_statement : Prop :=
  forall k : nat, exists sched, forall i, (i < k)%nat ->
    exists v, nth_error (c_pcs (crun (cinit k) sched)) i = Some (PDone v).
(* the protocol without the lock (before the repair) runs the body twice under some schedule *)
Definition C11_unlocked_refuted_statement : Prop :=
  exists sched, c_runs (urun (cinit 2) sched) = 2.

(* C12: a call all of whose functions are ordinary (not run-once) writes no
   state shared between calls, and its outcome does not depend on what other
   calls did before or meanwhile: the world is only read at run-once functions *)
Definition no_once (f : fdecl) (d opts : list arg) : Prop :=
  forall b, build_args d opts = Some b -> forallb (fun g => negb (fn_once g)) (known_funcs f b) = true.
Definition C12_nowrite_statement : Prop :=
  forall u bh f d opts w t r,
    no_once f d opts -> call u bh f d opts w t = Ok r -> w_once (run_world r) = w_once w.
Definition C12_independent_statement : Prop :=
  forall u bh f d opts w1 w2 t,
    no_once f d opts -> w_nexec w1 = w_nexec w2 ->
    match call u bh f d opts w1 t, call u bh f d opts w2 t with
    | Ok r1, Ok r2 => run_out r1 = run_out r2 /\ run_trace r1 = run_trace r2 /\ run_tape r1 = run_tape r2
    | Panic a, Panic b => a = b
    | TapeErr a, TapeErr b => a = b
    | OutOfFuel, OutOfFuel => True
    | _, _ => False
    end.

(* Graph.v -- model of internal/graph/graph.go (the store and its mutators).
   Model file: definitions only.

   [graph] is the pure content of a Go Graph value: three maps.  Go maps
   are reference objects: Reverse shares them, Copy allocates fresh ones.
   That sharing is modelled in section Handles by a heap of map cells. *)
From ArgMapper Require Import Base.
Set Implicit Arguments.

Section Graph.
  Context {K : Type} `{EqDec K} {V : Type}.

  Definition adj := amap K (amap K Z).

  Record graph := mkGraph {
    gout : adj;            (* adjacencyOut *)
    gin : adj;             (* adjacencyIn  *)
    ghash : amap K V       (* hash: key -> representative vertex *)
  }.

  Definition g_empty : graph := mkGraph [] [] [].

  (* Add: keeps the existing vertex when the key is known *)
  Definition g_add (g : graph) (k : K) (v : V) : graph :=
    if mem k (gout g) then g
    else mkGraph (insert k [] (gout g)) (insert k [] (gin g)) (insert k v (ghash g)).

  (* AddOverwrite: always replaces the representative *)
  Definition g_add_overwrite (g : graph) (k : K) (v : V) : graph :=
    let h := insert k v (ghash g) in
    if mem k (gout g) then mkGraph (gout g) (gin g) h
    else mkGraph (insert k [] (gout g)) (insert k [] (gin g)) h.

  (* delete(m[a], b): safe when m[a] is absent *)
  Definition adj_del (m : adj) (a b : K) : adj :=
    match lookup a m with
    | Some inner => insert a (delete b inner) m
    | None => m
    end.

  Definition inner (m : adj) (a : K) : amap K Z :=
    match lookup a m with Some i => i | None => [] end.

  Definition g_remove (g : graph) (k : K) : graph :=
    (* for out := range adjacencyOut[h] { delete(adjacencyIn[out], h) } *)
    let gin1 := fold_left (fun m o => adj_del m o k) (keys (inner (gout g) k)) (gin g) in
    let gout1 := delete k (gout g) in
    (* for in := range adjacencyIn[h] { delete(adjacencyOut[in], h) } *)
    let gout2 := fold_left (fun m i => adj_del m i k) (keys (inner gin1 k)) gout1 in
    let gin2 := delete k gin1 in
    mkGraph gout2 gin2 (delete k (ghash g)).

  (* AddEdgeWeighted (after the repair: nothing happens unless both
     endpoints are known).  Writing through a missing inner map would be a
     Go panic; it is the outcome [None]. *)
  Definition g_add_edge (g : graph) (k1 k2 : K) (w : Z) : option graph :=
    if mem k1 (ghash g) && mem k2 (ghash g) then
      match lookup k1 (gout g), lookup k2 (gin g) with
      | Some o, Some i =>
          Some (mkGraph (insert k1 (insert k2 w o) (gout g))
                        (insert k2 (insert k1 w i) (gin g))
                        (ghash g))
      | _, _ => None
      end
    else Some g.

  Definition g_remove_edge (g : graph) (k1 k2 : K) : graph :=
    mkGraph (adj_del (gout g) k1 k2) (adj_del (gin g) k2 k1) (ghash g).

  Definition g_out_keys (g : graph) (k : K) : list K := keys (inner (gout g) k).
  Definition g_in_keys (g : graph) (k : K) : list K := keys (inner (gin g) k).
  Definition g_vertex (g : graph) (k : K) : option V := lookup k (ghash g).
  Definition g_vertex_keys (g : graph) : list K := keys (ghash g).
  Definition g_weight (g : graph) (k1 k2 : K) : option Z := lookup k2 (inner (gout g) k1).

  Definition g_reverse (g : graph) : graph := mkGraph (gin g) (gout g) (ghash g).

  (* ---------- sharing: heap of map cells and handles ---------- *)
  Record heap := mkHeap { adj_cells : list adj; hash_cells : list (amap K V) }.

  (* A Go Graph value: three (possibly nil) map references. *)
  Record handle := mkHandle { h_out : option nat; h_in : option nat; h_hash : option nat }.

  Definition hp_empty : heap := mkHeap [] [].
  Definition zero_handle : handle := mkHandle None None None.

  Fixpoint set_nth {A} (n : nat) (x : A) (l : list A) : list A :=
    match l, n with
    | [], _ => []
    | _ :: l, O => x :: l
    | y :: l, S n => y :: set_nth n x l
    end.

  (* init(): allocate the maps that are still nil *)
  Definition h_init (hp : heap) (h : handle) : heap * handle :=
    let '(hp, o) := match h_out h with
                    | Some o => (hp, o)
                    | None => (mkHeap (adj_cells hp ++ [[]]) (hash_cells hp), length (adj_cells hp))
                    end in
    let '(hp, i) := match h_in h with
                    | Some i => (hp, i)
                    | None => (mkHeap (adj_cells hp ++ [[]]) (hash_cells hp), length (adj_cells hp))
                    end in
    let '(hp, x) := match h_hash h with
                    | Some x => (hp, x)
                    | None => (mkHeap (adj_cells hp) (hash_cells hp ++ [[]]), length (hash_cells hp))
                    end in
    (hp, mkHandle (Some o) (Some i) (Some x)).

  Definition load (hp : heap) (h : handle) : graph :=
    mkGraph (match h_out h with Some o => nth o (adj_cells hp) [] | None => [] end)
            (match h_in h with Some i => nth i (adj_cells hp) [] | None => [] end)
            (match h_hash h with Some x => nth x (hash_cells hp) [] | None => [] end).

  (* write the three maps back; the out map is written last so that it wins
     should the two references coincide (they never do, see invariants) *)
  Definition store (hp : heap) (h : handle) (g : graph) : heap :=
    let a1 := match h_in h with Some i => set_nth i (gin g) (adj_cells hp) | None => adj_cells hp end in
    let a2 := match h_out h with Some o => set_nth o (gout g) a1 | None => a1 end in
    let hc := match h_hash h with Some x => set_nth x (ghash g) (hash_cells hp) | None => hash_cells hp end in
    mkHeap a2 hc.

  (* Copy: three fresh maps with the same content (vertices not copied) *)
  Definition h_copy (hp : heap) (h : handle) : heap * handle :=
    let g := load hp h in
    let n := length (adj_cells hp) in
    let m := length (hash_cells hp) in
    (mkHeap (adj_cells hp ++ [gout g; gin g]) (hash_cells hp ++ [ghash g]),
     mkHandle (Some n) (Some (S n)) (Some m)).

  (* Reverse (after the repair: init first), shares the cells *)
  Definition h_reverse (hp : heap) (h : handle) : heap * handle * handle :=
    let '(hp, h) := h_init hp h in
    (hp, h, mkHandle (h_in h) (h_out h) (h_hash h)).
End Graph.
Arguments graph : clear implicits.
Arguments heap : clear implicits.
Arguments adj : clear implicits.

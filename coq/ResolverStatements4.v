(* C08, third clause: Redefine succeeds whenever every target parameter is
   itself permitted by the input filter.  Statement only; proved in
   proofs/C08Succeeds*.v. *)
From Coq Require Import List ZArith Bool String.
From ArgMapper Require Import Base Graph GraphAlg Types Args Resolver ResolverSpec Monitors Monitors2
     ResolverStatements ResolverStatements2.
Import ListNotations.
Open Scope Z_scope.

Definition params_permitted (u : universe) (f : fdecl) (b : builder) : bool :=
  forallb (fun fld => match b_fin b with Some flt => flt_okv u flt (f_name fld) (f_ty fld) (f_sub fld) | None => true end) (fn_in f).

Definition outputs_permitted (u : universe) (f : fdecl) (bo : builder) : bool :=
  match b_fout bo with Some flt => forallb (fun fld => flt_okv u flt (f_name fld) (f_ty fld) (f_sub fld)) (fn_out f) | None => true end.

(* On the property's domain, from a fresh world and for EVERY order tape: if no
   output is rejected by the output filter and every parameter of the target
   passes the input filter (or there is no input filter), Redefine returns a
   function (a list of inputs) -- it does not fail with the
   unsatisfied-argument error, the duplicate-input error or any other error,
   except for the error of a failing converter generator, which is the
   caller's.  Side conditions as in C05/C06: transitive implements relation,
   fewer than (2^63-1)/20 vertices. *)
Definition C08_succeeds_statement : Prop :=
  forall u f d opts b bo t x r,
    build_args d opts = Some b -> build_args [] opts = Some bo ->
    wf_call u f b = true -> c08_domain u f b = true ->
    outputs_permitted u f bo = true -> params_permitted u f b = true ->
    (forall fg tr, full_graph u f b true t = Ok (inl fg, tr) ->
                   20 * (Z.of_nat (List.length (g_vertex_keys (fg_g fg))) + 1) < INF) ->
    (forall a b c, implements u a b = true -> implements u b c = true -> implements u a c = true) ->
    redefine u f d opts world0 t = Ok (x, r) ->
    (exists ins, x = inl ins) \/ (exists e, x = inr (XGen e)).

(* CheckResolver.v -- correspondence check for the resolver streams: the
   model is run on the scenario and order tape recorded while the Go
   implementation ran; outcome, result accessors and the ordered execution
   trace must coincide.  Property monitors (Monitors.v) are evaluated on the
   IMPLEMENTATION's observations by the per-property checkers. *)
From ArgMapper Require Import Base Graph GraphAlg Types Args Resolver.
Set Implicit Arguments.
Local Open Scope Z_scope.

(* what the harness observed *)
Inductive obs_err :=
| ObsOk
| ObsUnsat (args ins : list vkey) (convs : list Z) (full msgok : bool)
| ObsErrId (e : Z)             (* exactly the scenario's error value e *)
| ObsErrWrapped (e : Z)        (* a different error mentioning e *)
| ObsErrValue (id : Z)         (* the returned error IS the supplied value with this serial (Convert to the type error) *)
| ObsBuild | ObsMissing | ObsFilterOut | ObsDupInput | ObsOtherErr.

Inductive obs :=
| ObsCall (e : obs_err) (len : Z) (outs : list (list Z))
| ObsConvert (e : obs_err) (v : option Z)
| ObsRedefine (e : obs_err) (ins : list rfield)
| ObsCallRedef (ft : Z) (given : list (rfield * value)) (e : obs_err) (len : Z) (outs : list (list Z))
| ObsPanic (msg : string)
| ObsSkip.

Record op_obs := mkOpObs { oo_obs : obs; oo_events : list event; oo_tape : tape vkey }.

Inductive op :=
| OpCall (f : fdecl) (defaults opts : list arg)
| OpConvert (t : ty) (opts : list arg)
| OpRedefine (f : fdecl) (defaults opts : list arg)
| OpCallRedef (ref : nat).

Record scn := mkScn { sc_u : universe; sc_beh : list (Z * Z * beh); sc_ops : list (op * op_obs) }.

Definition behave_of (tbl : list (Z * Z * beh)) : behaviour :=
  fun fid n =>
    match find (fun r => (fst (fst r) =? fid) && (snd (fst r) <=? n)) tbl with
    | Some r => snd r
    | None => BOk
    end.

(* ---------- equality on observations ---------- *)
Definition field_eqb (a b : field) : bool :=
  Base.eqb (f_name a) (f_name b) && (f_ty a =? f_ty b) && Base.eqb (f_sub a) (f_sub b).
Definition event_eqb (a b : event) : bool :=
  match a, b with
  | EExec f xs ys e, EExec f' xs' ys' e' => (f =? f') && Base.eqb xs xs' && Base.eqb ys ys' && Base.eqb e e'
  | EGen g k, EGen g' k' => (g =? g') && Base.eqb k k'
  | _, _ => false
  end.
Fixpoint events_eqb (a b : list event) : bool :=
  match a, b with
  | [], [] => true
  | x :: a, y :: b => event_eqb x y && events_eqb a b
  | _, _ => false
  end.
Definition rfield_eqb (a b : rfield) : bool :=
  match a, b with
  | RNamed n t, RNamed n' t' => Base.eqb n n' && (t =? t')
  | RTyped t, RTyped t' => t =? t'
  | _, _ => false
  end.
Definition rfields_seteq (a b : list rfield) : bool :=
  Nat.eqb (List.length a) (List.length b) &&
  forallb (fun x => existsb (rfield_eqb x) b) a && forallb (fun x => existsb (rfield_eqb x) a) b.

(* what a property's check compares ("projected observables only") *)
Inductive cmp_mode :=
| CFull      (* outcome with all fields, result accessors, full ordered trace *)
| CFids      (* outcome class and error identity, ordered trace of (function, error) *)
| CClass     (* outcome class only (ok / which kind of error) *)
| CPanic.    (* only whether the call panics *)

Definition proj_event (m : cmp_mode) (e : event) : event :=
  match m, e with
  | CFull, _ => e
  | CFids, EExec f _ _ err => EExec f [] [] err
  | CFids, EGen g k => EGen g k
  | _, _ => EGen 0 KRoot
  end.
Definition proj_events (m : cmp_mode) (l : list event) : list event :=
  match m with
  | CFull | CFids => map (proj_event m) l
  | _ => []
  end.

(* the error class the model predicts, as the harness would observe it *)
Definition err_matches (m : cmp_mode) (e : rerr) (o : obs_err) : bool :=
  match m with CPanic => true | _ =>
  match e, o with
  | XBuild, ObsBuild => true
  | XGen x, ObsErrId y => x =? y
  | XConv x, ObsErrId y => x =? y
  | XMissing, ObsMissing => true
  | XFilterOut, ObsFilterOut => true
  | XDupInput, ObsDupInput => true
  | XUnsat args ins convs full, ObsUnsat args' ins' convs' full' _ =>
      match m with CClass | CFids => true | _ =>
      (* reported argument keys: typed arguments are reported as typed values *)
      seteqb args args' && Nat.eqb (List.length args) (List.length args') &&
      (if full then seteqb ins ins' && Nat.eqb (List.length ins) (List.length ins') && Base.eqb convs convs'
       else match ins', convs' with [], [] => true | _, _ => false end)
      end
  | _, _ => false
  end end.

(* raw results of the target as Result.Len / Result.Out see them *)
Definition raw_outs (f : fdecl) (r : result) : Z * list (list Z) :=
  match fn_out f with
  | [] => (0, [])
  | _ => match fn_out_form f with
         | FPos => (Z.of_nat (List.length (r_fields r)), map (fun v => [v_id v]) (r_fields r))
         | FStruct => (1, [map v_id (r_fields r)])
         | FPtr => (1, [(-77) :: map v_id (r_fields r)])     (* a pointer to the struct *)
         end
  end.

Definition outcome_matches (m : cmp_mode) (f : fdecl) (o : outcome) (e : obs_err) (len : Z) (outs : list (list Z)) : bool :=
  match m with CPanic => true | _ =>
  match o with
  | OOk r => (match r_err r with
              | Some x => match e with ObsErrId y => x =? y | _ => false end
              | None => match e with ObsOk => true | _ => false end
              end) &&
             (match m with CFull => let (l, os) := raw_outs f r in (l =? len) && Base.eqb os outs | _ => true end)
  | OErr x => err_matches m x e && (len =? 0) && match outs with [] => true | _ => false end
  end end.

Definition not_internal (e : event) : bool :=
  match e with EExec f _ _ _ => negb (f <? 0) | _ => true end.

(* codes: 0 ok; 1 outcome; 2 trace; 3 panic mismatch; 4 tape; 5 fuel; 6 structure *)
Definition res_code_m {A} (m : cmp_mode) (r : res A) (k : A -> Z) (panic_expected : bool) : Z :=
  match r with
  | Ok a => if panic_expected then 3 else k a
  | Panic _ => if panic_expected then 0 else 3
  | TapeErr _ => match m with CClass | CPanic => 0 | _ => 4 end   (* coarse modes: not comparable, the monitors decide *)
  | OutOfFuel => 5
  end.
Definition res_code {A} (r : res A) (k : A -> Z) (panic_expected : bool) : Z :=
  match r with
  | Ok a => if panic_expected then 3 else k a
  | Panic _ => if panic_expected then 0 else 3
  | TapeErr _ => 4
  | OutOfFuel => 5
  end.

Definition is_panic (o : obs) : bool := match o with ObsPanic _ => true | _ => false end.

(* the function synthesised by Redefine: struct form, one field per input,
   final error; its body is the original Call *)
Definition redef_fn (ft : Z) (ins : list rfield) : fdecl :=
  mkFn (-2) ft FStruct
       (map (fun r => match r with RNamed n t => mkF n t EmptyString | RTyped t => mkF EmptyString t EmptyString end) ins)
       FPos [] true false.

Definition given_opts (given : list (rfield * value)) : list arg :=
  map (fun iv => match fst iv with
                 | RNamed n _ => ANamed n (Some (snd iv))
                 | RTyped _ => ATyped [Some (snd iv)]
                 end) given.

(* check one operation; returns (code, world after) *)
Definition check_op (m : cmp_mode) (u : universe) (bh : behaviour) (prev : list (op * op_obs)) (w : world)
           (o : op) (ob : op_obs) : Z * world :=
  match o with
  | OpCall f defaults opts =>
      match oo_obs ob with
      | ObsCall e len outs =>
          let r := call u bh f defaults opts w (oo_tape ob) in
          (res_code_m m r (fun rn => if negb (outcome_matches m f (run_out rn) e len outs) then 1
                                 else if negb (events_eqb (proj_events m (run_trace rn)) (proj_events m (oo_events ob))) then 2 else 0) false,
           match r with Ok rn => run_world rn | _ => w end)
      | ObsPanic _ => (res_code_m m (call u bh f defaults opts w (oo_tape ob)) (fun _ => 0) true, w)
      | _ => (6, w)
      end
  | OpConvert t opts =>
      match oo_obs ob with
      | ObsConvert e v =>
        if t =? 12 then
          (* target type `error`: the synthesised func(error) error has NO output and
             a final error result; it returns its argument as the error, so a
             resolvable conversion fails with exactly the injected value *)
          let r := call u (fun fid n => if fid =? -1 then BErr (-1) else bh fid n)
                        (mkFn (-1) (-1 - t) FPos [mkF EmptyString t EmptyString] FPos [] true false) [] opts w (oo_tape ob) in
          (res_code_m m r (fun rn =>
             let ok := match run_out rn with
                       | OOk rs =>
                           match r_err rs, rev (run_trace rn), e, v with
                           | Some _, EExec _ [a] _ _ :: _, ObsErrValue id, None => v_id a =? id
                           | _, _, _, _ => false
                           end
                       | OErr x => match v with None => err_matches m x e | Some _ => false end
                       end in
             if negb ok then 1
             else if negb (events_eqb (proj_events m (filter not_internal (run_trace rn))) (proj_events m (oo_events ob))) then 2 else 0) false,
           match r with Ok rn => run_world rn | _ => w end)
        else
          let r := convert u bh t opts w (oo_tape ob) in
          (res_code_m m r (fun vr =>
             let '(mv, rn) := vr in
             let ok := match mv, v with
                       | Some x, Some y => (v_id x =? y) && match e with ObsOk => true | _ => false end
                       | None, None =>
                           match run_out rn with
                           | OErr x => err_matches m x e
                           | OOk r => match r_err r with Some x => match e with ObsErrId y => x =? y | _ => false end | None => false end
                           end
                       | _, _ => false
                       end in
             if negb ok then 1
             else if negb (events_eqb (proj_events m (filter not_internal (run_trace rn))) (proj_events m (oo_events ob))) then 2 else 0) false,
           match r with Ok (_, rn) => run_world rn | _ => w end)
      | ObsPanic _ => (res_code_m m (convert u bh t opts w (oo_tape ob)) (fun _ => 0) true, w)
      | _ => (6, w)
      end
  | OpRedefine f defaults opts =>
      match oo_obs ob with
      | ObsRedefine e ins =>
          let r := redefine u f defaults opts w (oo_tape ob) in
          (res_code_m m r (fun rr =>
             let '(x, rn) := rr in
             let ok := match x with
                       | inl fs => match e with ObsOk => rfields_seteq fs ins | _ => false end
                       | inr er => err_matches m er e
                       end in
             if negb ok then 1
             else if negb (events_eqb (proj_events m (run_trace rn)) (proj_events m (oo_events ob))) then 2 else 0) false, w)
      | ObsPanic _ => (res_code_m m (redefine u f defaults opts w (oo_tape ob)) (fun _ => 0) true, w)
      | _ => (6, w)
      end
  | OpCallRedef ref =>
      match oo_obs ob, nth_error prev ref with
      | ObsSkip, _ => (0, w)
      | ObsCallRedef ft given e len outs, Some (OpRedefine f defaults opts, ob0) =>
          match oo_obs ob0 with
          | ObsRedefine ObsOk ins =>
              (* outer resolution of the synthesised function from the given values *)
              let outer := call u (fun _ _ => BOk) (redef_fn ft ins) [] (given_opts given) w (oo_tape ob) in
              match outer with
              | Ok rn1 =>
                  match run_out rn1 with
                  | OOk _ =>
                      (* the body: the original Call with the Redefine options plus the received values *)
                      let recv := match rev (run_trace rn1) with
                                  | EExec _ args _ _ :: _ => args | _ => [] end in
                      (* the wrapper forwards the struct fields themselves: each value is known
                         under the declared type of its input (after the D20 repair) *)
                      let inner_opts := opts ++ map (fun fv => let '(fld, v) := fv in
                                                     if Base.eqb (f_name fld) EmptyString then ATyped [Some v]
                                                     else ANamed (f_name fld) (Some v))
                                                    (combine (fn_in (redef_fn ft ins)) recv) in
                      let r := call u bh f defaults inner_opts w (run_tape rn1) in
                      (res_code_m m r (fun rn =>
                         let ok := match run_out rn with
                                   | OOk rs => match r_err rs with
                                               | Some x => match e with ObsErrId y => x =? y | _ => false end
                                               | None => outcome_matches m f (run_out rn) e len outs
                                               end
                                   | OErr x => err_matches m x e
                                   end in
                         if negb ok then 1
                         else if negb (events_eqb (proj_events m (run_trace rn)) (proj_events m (oo_events ob))) then 2 else 0) false,
                       match r with Ok rn => run_world rn | _ => w end)
                  | OErr x => ((if err_matches m x e && events_eqb [] (proj_events m (oo_events ob)) then 0 else 1), w)
                  end
              | Panic _ => (3, w)
              | TapeErr _ => (match m with CClass | CPanic => 0 | _ => 4 end, w)
              | OutOfFuel => (5, w)
              end
          | _ => (6, w)
          end
      | ObsPanic _, _ => (7, w)     (* panics of redefined functions are reported by the monitor *)
      | _, _ => (6, w)
      end
  end.

Fixpoint check_ops (m : cmp_mode) (u : universe) (bh : behaviour) (all : list (op * op_obs)) (w : world)
         (ops : list (op * op_obs)) (i : Z) : Z :=
  match ops with
  | [] => 0
  | (o, ob) :: rest =>
      let (c, w') := check_op m u bh all w o ob in
      if c =? 0 then check_ops m u bh all w' rest (i + 1) else 100 * (i + 1) + c
  end.

Definition check_scn (m : cmp_mode) (s : scn) : Z :=
  check_ops m (sc_u s) (behave_of (sc_beh s)) (sc_ops s) world0 (sc_ops s) 0.

Definition run_checks_r {C} (f : C -> Z) (cases : list (Z * C)) : list (Z * Z) :=
  filter (fun r => negb (snd r =? 0)) (map (fun ic => (fst ic, f (snd ic))) cases).
Definition check_scn_all := run_checks_r (check_scn CFull).

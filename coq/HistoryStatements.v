(* HistoryStatements.v -- the history-level forms of C01, C09, C11: the
   properties quantify over arbitrary sequences of Call / Convert / Redefine
   operations on shared functions, threading the world (memo table of
   run-once functions, execution counter). *)
From ArgMapper Require Import Base Graph GraphAlg Types Args Resolver ResolverSpec CheckResolver Monitors ResolverStatements.
Set Implicit Arguments.
Local Open Scope Z_scope.

Inductive hop :=
| HCall (f : fdecl) (d opts : list arg) (t : tape vkey)
| HRedefine (f : fdecl) (d opts : list arg) (t : tape vkey).

(* run a history: every operation gets its own order tape; a Redefine's
   result is kept only as a run (its world is discarded by C09 anyway: the
   model's redefine returns the world it was given) *)
Fixpoint hist_run (u : universe) (bh : behaviour) (w : world) (ops : list hop) : res (list run) :=
  match ops with
  | [] => Ok []
  | HCall f d opts t :: rest =>
      do r <- call u bh f d opts w t;
      do rs <- hist_run u bh (run_world r) rest;
      Ok (r :: rs)
  | HRedefine f d opts t :: rest =>
      do xr <- redefine u f d opts w t;
      do rs <- hist_run u bh (run_world (snd xr)) rest;
      Ok (snd xr :: rs)
  end.

Definition is_call (o : hop) : bool := match o with HCall _ _ _ _ => true | _ => false end.
Definition hop_funcs (o : hop) : list fdecl :=
  match o with
  | HCall f d opts _ | HRedefine f d opts _ =>
      match build_args d opts with Some b => known_funcs f b | None => [f] end
  end.

(* ---------- C09 over histories: erasing the Redefine operations changes
   nothing for the Calls (same outcomes, same traces, same final world) ---------- *)
Fixpoint calls_of (ops : list hop) (rs : list run) : list run :=
  match ops, rs with
  | o :: ops, r :: rs => if is_call o then r :: calls_of ops rs else calls_of ops rs
  | _, _ => []
  end.
Definition C09_history_statement : Prop :=
  forall u bh w ops rs,
    hist_run u bh w ops = Ok rs ->
    exists rs', hist_run u bh w (filter is_call ops) = Ok rs' /\
                map (fun r => (run_out r, run_trace r, run_world r)) (calls_of ops rs) =
                map (fun r => (run_out r, run_trace r, run_world r)) rs'.

(* ---------- C11 over histories: a run-once function executes at most once
   over ANY history that starts with an empty memo table ---------- *)
Definition C11_history_statement : Prop :=
  forall u bh ops rs g,
    hist_run u bh world0 ops = Ok rs ->
    fn_once g = true ->
    (* wherever g's id occurs among the functions of the history it is run-once *)
    (forall o h, In o ops -> In h (hop_funcs o) -> fn_id h = fn_id g -> fn_once h = true) ->
    (exec_count (fn_id g) (flat_map run_trace rs) <= 1)%nat.

(* ---------- C01 over histories of calls: every execution anywhere in the
   history receives supplied or previously produced, label-compatible,
   assignable values (a memoized result hands out values produced earlier in
   the history) ---------- *)
Fixpoint c01_history (u : universe) (earlier : list event) (ops : list hop) (rs : list run) : bool :=
  match ops, rs with
  | HCall f d opts _ :: ops, r :: rs =>
      match build_args d opts with
      | Some b => c01_ok u f b earlier (co_of_run r)
      | None => true
      end && c01_history u (earlier ++ run_trace r) ops rs
  | HRedefine _ _ _ _ :: ops, r :: rs => c01_history u (earlier ++ run_trace r) ops rs
  | _, _ => true
  end.

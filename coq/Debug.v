From ArgMapper Require Import Base Graph GraphAlg Types Args Resolver CheckResolver.
Local Open Scope Z_scope.
(* model output for the first op of a scenario (debugging aid only) *)
Definition dbg_first (s : scn) :=
  match sc_ops s with
  | (OpCall f d o, ob) :: _ =>
      match call (sc_u s) (behave_of (sc_beh s)) f d o world0 (oo_tape ob) with
      | Ok rn => Ok (run_out rn, run_trace rn, oo_obs ob, oo_events ob)
      | Panic x => Panic x | TapeErr x => TapeErr x | OutOfFuel => OutOfFuel
      end
  | _ => OutOfFuel
  end.
Definition dbg_graph (s : scn) :=
  match sc_ops s with
  | (OpCall f d o, ob) :: _ =>
      match build_args d o with
      | Some b => match call_graph (sc_u s) f b false (oo_tape ob) with
                  | Ok (inl cg, _) => Some (gout (cg_g cg), cg_vals cg)
                  | _ => None end
      | None => None
      end
  | _ => None
  end.

(* outer call of a callredef op at position i (debug) *)
Definition dbg_callredef (s : scn) (i : nat) :=
  match nth_error (sc_ops s) i with
  | Some (OpCallRedef ref, ob) =>
      match oo_obs ob, nth_error (sc_ops s) ref with
      | ObsCallRedef ft given e len outs, Some (OpRedefine f defaults opts, ob0) =>
          match oo_obs ob0 with
          | ObsRedefine ObsOk ins =>
              match call (sc_u s) (fun _ _ => BOk) (redef_fn ft ins) [] (given_opts given) world0 (oo_tape ob) with
              | Ok rn => Ok (run_out rn, run_trace rn, run_tape rn, redef_fn ft ins, given)
              | Panic x => Panic x | TapeErr x => TapeErr x | OutOfFuel => OutOfFuel
              end
          | _ => OutOfFuel
          end
      | _, _ => OutOfFuel
      end
  | _ => OutOfFuel
  end.

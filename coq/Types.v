(* Types.v -- vocabulary of the resolver model: type universe, labels,
   values, function declarations, options.  Model file: definitions only. *)
From ArgMapper Require Import Base.
From Coq Require Export String Ascii.
Set Implicit Arguments.
Local Open Scope Z_scope.

#[export] Program Instance EqDec_string : EqDec string := { eqb := String.eqb }.
Next Obligation. apply String.eqb_eq. Qed.

(* ---------- case mapping (strings.ToLower / ToUpper) ----------
   Per byte: ASCII letters, and the second byte of the two-byte UTF-8 letters of
   the Latin-1 supplement (U+00C0..U+00DE except the sign U+00D7 <-> U+00E0..
   U+00FE except U+00F7; lead byte 0xC3 is unchanged).  This is Go's mapping on
   strings whose non-ASCII characters all lie in U+00C0..U+00FE (the harness
   uses such names); other scripts are outside the model. *)
Definition lower_ascii (c : ascii) : ascii :=
  let n := nat_of_ascii c in
  if (Nat.leb 65 n && Nat.leb n 90)%bool then ascii_of_nat (n + 32)
  else if (Nat.leb 128 n && Nat.leb n 158 && negb (Nat.eqb n 151))%bool then ascii_of_nat (n + 32) else c.
Definition upper_ascii (c : ascii) : ascii :=
  let n := nat_of_ascii c in
  if (Nat.leb 97 n && Nat.leb n 122)%bool then ascii_of_nat (n - 32)
  else if (Nat.leb 160 n && Nat.leb n 190 && negb (Nat.eqb n 183))%bool then ascii_of_nat (n - 32) else c.
Fixpoint lower (s : string) : string :=
  match s with EmptyString => EmptyString | String c s => String (lower_ascii c) (lower s) end.
Fixpoint upper (s : string) : string :=
  match s with EmptyString => EmptyString | String c s => String (upper_ascii c) (upper s) end.

(* ---------- type universe ----------
   Types are identified by numbers.  [u_iface] lists the interface types,
   [u_impl] the pairs (t, i) such that t implements interface i (reflexive
   pairs (i, i) included by the harness for interfaces). *)
Definition ty := Z.
Record universe := mkU { u_iface : list ty; u_impl : list (ty * ty) }.
Definition is_iface (u : universe) (t : ty) : bool := memb t (u_iface u).
Definition implements (u : universe) (t i : ty) : bool := is_iface u i && memb (t, i) (u_impl u).
(* reflect: x.AssignableTo(t) for the named types of the universe *)
Definition assignable (u : universe) (x t : ty) : bool := (x =? t) || implements u x t.

(* ---------- values ----------
   v_id identifies where the value came from (supplied: its serial;
   produced: execution number and result position; 0: a zero value);
   v_ty is what reflect.Value.Type() answers. *)
Record value := mkV { v_id : Z; v_ty : ty }.
#[export] Program Instance EqDec_value : EqDec value :=
  { eqb := fun a b => (v_id a =? v_id b) && (v_ty a =? v_ty b) }.
Next Obligation.
  destruct x, y; simpl. rewrite andb_true_iff, !Z.eqb_eq. split; [intros [-> ->]|intros E; inversion E]; auto.
Qed.
Definition zero_of (t : ty) : value := mkV 0 t.

(* ---------- labels and vertices ---------- *)
Inductive vkey :=
| KRoot
| KFunc (ft : Z)                        (* hash code: the Go function TYPE *)
| KVal (n : string) (t : ty) (s : string)   (* named value *)
| KArg (t : ty) (s : string)                (* typed argument *)
| KOut (t : ty) (s : string).               (* typed output *)

Definition vkey_eqb (a b : vkey) : bool :=
  match a, b with
  | KRoot, KRoot => true
  | KFunc x, KFunc y => x =? y
  | KVal n t s, KVal n' t' s' => String.eqb n n' && (t =? t') && String.eqb s s'
  | KArg t s, KArg t' s' => (t =? t') && String.eqb s s'
  | KOut t s, KOut t' s' => (t =? t') && String.eqb s s'
  | _, _ => false
  end.
#[export] Program Instance EqDec_vkey : EqDec vkey := { eqb := vkey_eqb }.
Next Obligation.
  destruct x, y; simpl; split; try congruence; try discriminate;
    rewrite ?andb_true_iff, ?Z.eqb_eq, ?String.eqb_eq.
  - intros ->; auto.
  - intros E; inversion E; auto.
  - intros [[-> ->] ->]; auto.
  - intros E; inversion E; auto.
  - intros [-> ->]; auto.
  - intros E; inversion E; auto.
  - intros [-> ->]; auto.
  - intros E; inversion E; auto.
Qed.

(* ---------- function declarations ---------- *)
Inductive form := FPos | FStruct | FPtr.
(* a field of the (possibly lifted) parameter or result struct;
   f_name = "" means type-only *)
Record field := mkF { f_name : string; f_ty : ty; f_sub : string }.
Definition field_key (f : field) : vkey :=
  if String.eqb (f_name f) "" then KArg (f_ty f) (f_sub f) else KVal (f_name f) (f_ty f) (f_sub f).
Definition field_out_key (f : field) : vkey :=
  if String.eqb (f_name f) "" then KOut (f_ty f) (f_sub f) else KVal (f_name f) (f_ty f) (f_sub f).

Record fdecl := mkFn {
  fn_id : Z;             (* the *Func object *)
  fn_type : Z;           (* its Go function type (funcVertex hash code) *)
  fn_in_form : form; fn_in : list field;
  fn_out_form : form; fn_out : list field;
  fn_err : bool;         (* has a final error result *)
  fn_once : bool }.

(* value-set lookup maps: later fields overwrite earlier ones *)
Fixpoint last_named (n : string) (fs : list field) (i : nat) (acc : option (nat * field)) : option (nat * field) :=
  match fs with
  | [] => acc
  | f :: fs => last_named n fs (S i)
                 (if negb (String.eqb (f_name f) "") && String.eqb (f_name f) n then Some (i, f) else acc)
  end.
Fixpoint last_typed (t : ty) (fs : list field) (i : nat) (acc : option (nat * field)) : option (nat * field) :=
  match fs with
  | [] => acc
  | f :: fs => last_typed t fs (S i)
                 (if String.eqb (f_name f) "" && (f_ty f =? t) then Some (i, f) else acc)
  end.
(* the entries of namedValues / typedValues (one per distinct key) *)
Definition named_entries (fs : list field) : list field :=
  flat_map (fun f => if String.eqb (f_name f) "" then []
                     else match last_named (f_name f) fs 0 None with
                          | Some (_, g) => [g] | None => [] end) fs.
Definition typed_entries (fs : list field) : list field :=
  flat_map (fun f => if String.eqb (f_name f) "" then
                       match last_typed (f_ty f) fs 0 None with
                       | Some (_, g) => [g] | None => [] end
                     else []) fs.

(* ---------- filters (Redefine) ---------- *)
Inductive flt := FltType (t : ty) | FltOr (fs : list flt) | FltAnd (fs : list flt)
                | FltName (n : string) | FltSub (s : string).
(* a FilterFunc sees the whole Value: name, type, subtype *)
Fixpoint flt_okv (u : universe) (f : flt) (n : string) (t : ty) (s : string) : bool :=
  match f with
  | FltType t0 => (t =? t0) || implements u t t0
  | FltOr fs => existsb (fun g => flt_okv u g n t s) fs
  | FltAnd fs => forallb (fun g => flt_okv u g n t s) fs
  | FltName n0 => String.eqb n n0
  | FltSub s0 => String.eqb s s0
  end.
Definition flt_ok (u : universe) (f : flt) (t : ty) : bool := flt_okv u f EmptyString t EmptyString.

(* ---------- converter generators ----------
   A generator is a finite table from labels to what it returns. *)
Inductive gen_res := GNone | GErr (e : Z) | GFunc (f : fdecl).
Record gen := mkGen { gen_id : Z; gen_table : list (vkey * gen_res) }.

(* ---------- options (Arg) ---------- *)
Inductive arg :=
| ANamed (n : string) (v : option value)
| ANamedSub (n : string) (v : option value) (st : string)
| ATyped (vs : list (option value))
| ATypedSub (v : option value) (st : string)
| AConv (fs : list (option fdecl))        (* Converter(raw...): None = not a function / nil *)
| AConvFunc (fs : list (option fdecl))    (* ConverterFunc(...): None = nil *Func, ignored *)
| AConvGen (gs : list gen)
| AFilterIn (f : flt)
| AFilterOut (f : flt)
| ANil                                    (* a nil Arg *)
| AOther.                                 (* Logger, FuncName, FuncOnce: no effect on a call *)

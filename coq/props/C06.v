(* C06 -- Calls always return: no panic, crash or unbounded recursion on well-formed use. *)
From ArgMapper Require Import Base Types Args Resolver ResolverSpec Monitors ResolverStatements.
From ArgMapper.proofs Require Import C06TotalSpec C06Total.

(* For every well-formed use (wf_call: no repeated name or type-only key per
   struct list, positional lists may repeat a type, functions of one Go type
   share a signature), every universe whose implements relation is transitive
   (Go's is), every well-typed memo table and EVERY order tape, Call and
   Redefine of the model return: the outcome is Ok or a tape mismatch, never
   a panic (sites 100, 101, 400-404 of the model = the panic sites of the Go
   code) and never out of fuel (fuel = number of graph vertices + 1, i.e. the
   recursion depth is bounded).  Stated domain bound graphs_small: the call
   graph has fewer than (2^63-1)/20 vertices (64-bit distances cannot wrap). *)
Theorem C06 : C06_alt_statement.
Proof. exact C06_alt_proof. Qed.
Print Assumptions C06.

Theorem C06_convert : C06_convert_alt_statement.
Proof. exact C06_convert_alt_proof. Qed.
Print Assumptions C06_convert.

(* malformed options (a nil option, a failing option) are an error result *)
Theorem C06_malformed : C06_malformed_statement.
Proof. exact C06_malformed_proof. Qed.
Print Assumptions C06_malformed.

(* without transitivity of `implements` (impossible in Go) the model panics:
   the hypothesis is needed *)
Theorem C06_untransitive_refuted : ~ C06_statement.
Proof. exact C06_statement_false. Qed.
Print Assumptions C06_untransitive_refuted.

(* C17 -- see ValueSetStatements.v for the statement. *)
From ArgMapper Require Import Base Types ValueSet CheckValueSet ValueSetStatements.
From ArgMapper.proofs Require Import C141517VS.
Theorem C17 : C17_statement.
Proof. exact C17_proof. Qed.
Print Assumptions C17.

(* C17 -- see ValueSetStatements.v for the statement. *)
From ArgMapper Require Import Base Types ValueSet CheckValueSet ValueSetStatements.
From ArgMapper.proofs Require Import C141517VS.
Theorem C17 : C17_statement.
Proof. exact C17_proof. Qed.
Print Assumptions C17.

(* On the resolver model, over histories: the raw outputs of every successful
   Call are what the target's body returned -- in this operation or, for a
   memoized run-once target, in an earlier one; in particular a successful
   call has executed its target at some point of the history.  (The same
   predicate, Monitors2.c17_monitor, is evaluated on the implementation.) *)
From ArgMapper Require Import HistoryStatements HistoryStatements2.
From ArgMapper.proofs Require C0417Hist.
Theorem C17_history : C17_history_statement.
Proof. exact C0417Hist.C17_history_proof. Qed.
Print Assumptions C17_history.

(* C11 -- A run-once function executes at most once; every later use sees that result. *)
From ArgMapper Require Import Base Types Args Resolver ResolverStatements.
From ArgMapper.proofs Require Import C0911Once.
(* sequential half: over any call, a memoized function never runs again and
   keeps its memo; otherwise it runs at most once and is memoized afterwards
   (chains over histories because the world is threaded) *)
Theorem C11 : C11_statement.
Proof. exact C11_proof. Qed.
Print Assumptions C11.

(* concurrent half, in the interleaving model of the lock-protected protocol
   (Conc.v; atomic steps -- the Go memory model is not modelled) *)
From ArgMapper Require Import Conc ConcStatements.
From ArgMapper.proofs Require Import C1112Conc.
Theorem C11_conc : C11_conc_statement.
Proof. exact C11_conc_proof. Qed.
Print Assumptions C11_conc.
Theorem C11_conc_progress : C11_conc_progress_statement.
Proof. exact C11_conc_progress_proof. Qed.
Print Assumptions C11_conc_progress.
(* the protocol WITHOUT the lock (the code before the D12 repair) is refuted *)
Theorem C11_unlocked_refuted : C11_unlocked_refuted_statement.
Proof. exact C11_unlocked_refuted_proof. Qed.
Print Assumptions C11_unlocked_refuted.

(* over histories: a run-once function executes at most once over ANY history
   of Calls and Redefines started with an empty memo table *)
From ArgMapper Require Import HistoryStatements.
From ArgMapper.proofs Require Import C0911Hist.
Theorem C11_history : C11_history_statement.
Proof. exact C11_history_proof. Qed.
Print Assumptions C11_history.

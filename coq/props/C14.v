(* C14 -- see ValueSetStatements.v for the statement. *)
From ArgMapper Require Import Base Types ValueSet CheckValueSet ValueSetStatements.
From ArgMapper.proofs Require Import C141517VS.
Theorem C14 : C14_statement.
Proof. exact C14_proof. Qed.
Print Assumptions C14.

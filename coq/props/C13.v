(* C13 -- The unsatisfied-argument error reports what is truly missing and what was given. *)
From ArgMapper Require Import Base Types Args Resolver ResolverSpec Monitors ResolverStatements.
From ArgMapper.proofs Require Import C0213Unsat.
Theorem C13 : C13_statement.
Proof. exact C13_proof. Qed.
Print Assumptions C13.

(* "its converter list contains every supplied converter", with multiplicity:
   two supplied converters of one Go type are two entries of the list (no
   well-formedness hypothesis needed).  Monitors.c13_convs_all is also
   evaluated on the implementation. *)
From ArgMapper Require Import ResolverStatements6.
From ArgMapper.proofs Require C13Convs.
Theorem C13_converters : C13_convs_statement.
Proof. exact C13Convs.C13_convs_proof. Qed.
Print Assumptions C13_converters.

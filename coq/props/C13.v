(* C13 -- The unsatisfied-argument error reports what is truly missing and what was given. *)
From ArgMapper Require Import Base Types Args Resolver ResolverSpec Monitors ResolverStatements.
From ArgMapper.proofs Require Import C0213Unsat.
Theorem C13 : C13_statement.
Proof. exact C13_proof. Qed.
Print Assumptions C13.

(* C12 -- Functions, converters and options can be shared by concurrent calls.
   PARTIAL by nature (see DESIGN.md): data-race freedom is a statement about
   the Go memory model, which an executable Gallina model cannot express.
   What is proved:
   (1) C12_footprint: the table of statements that can write to state shared
       between calls, REGENERATED from the current sources on every run
       (tools/genfootprint -> GenFootprint.v), contains nothing but the
       audited entries below, and every write to a *Func happens while the
       function's lock is held;
   (2) C12_nowrite / C12_independent: in the model, a call whose functions
       are ordinary (not run-once) writes no shared state and its result does
       not depend on the shared state -- so every concurrent call returns an
       outcome a sequential execution of the same call returns. *)
From Coq Require Import List String ZArith Bool.
Import ListNotations.
From ArgMapper Require Import GenFootprint.
From ArgMapper Require Import Base Types Args Resolver ResolverStatements Conc ConcStatements.
From ArgMapper.proofs Require Import C1112Conc.
Local Open Scope string_scope.

(* audited entries:
   - Func.callDirect writes f.onceResult under f.onceLock (run-once memo, C11);
   - Func.callGraph: the DFS callback writes the map `visited`, allocated by
     the same invocation of callGraph and not escaping it (call-local);
   - ValueSet.FromSignature writes the Value fields of a ValueSet: only
     reachable for sets handed to BuildFunc/FromResult, which the property
     excludes (they are shared with the callback by API design). *)
Definition allowed : list (string * string * Z * bool) := [
  ("Func.callDirect", "f.onceResult", 1%Z, true);
  ("Func.callGraph", "visited[]", 2%Z, false);
  ("ValueSet.FromSignature", "vs.values[].Value", 1%Z, false)
].
Definition row_eqb (a b : string * string * Z * bool) : bool :=
  let '(a1, a2, a3, a4) := a in let '(b1, b2, b3, b4) := b in
  String.eqb a1 b1 && String.eqb a2 b2 && Z.eqb a3 b3 && Bool.eqb a4 b4.
Definition starts_with_f (s : string) : bool :=
  match s with String "f" (String "." _) => true | _ => false end.

Theorem C12_footprint :
  forallb (fun r => existsb (row_eqb r) allowed) footprint = true /\
  forallb (fun r => let '(_, target, kind, locked) := r in
                    if Z.eqb kind 1 && starts_with_f target then locked else true) footprint = true.
Proof. split; vm_compute; reflexivity. Qed.
Print Assumptions C12_footprint.

Theorem C12_nowrite : C12_nowrite_statement.
Proof. exact C12_nowrite_proof. Qed.
Print Assumptions C12_nowrite.

Theorem C12_independent : C12_independent_statement.
Proof. exact C12_independent_proof. Qed.
Print Assumptions C12_independent.

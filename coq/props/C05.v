(* C05 -- Conversion chaining is complete, cycles included, on well-behaved converter sets. *)
From ArgMapper Require Import Base Types Args Resolver ResolverSpec Monitors ResolverStatements.
From ArgMapper.proofs Require Import C05CompleteDefs C05CompleteCx C05Complete.

(* For every well-formed call whose target is derivable (AND-OR derivability
   over the full call graph, no memoized results) and whose converter set is
   well behaved -- (a) every converter has at most one input, arbitrary cycles
   allowed, or (b) no dependency cycle through a function and every converter
   satisfiable -- and for EVERY order tape, from a fresh world: the call
   returns a result or the error of a converter that failed (never the
   unsatisfied-argument error, never a panic, never out of fuel); and when no
   function fails it succeeds under every order, hence repeated calls always
   have the same success/failure outcome.  Premise c05_alt_premise =
   ResolverSpec's c05_premise plus: the implements relation is transitive
   (Go's is; refuted otherwise below) and the call graph has fewer than
   (2^63-1)/20 vertices.  Proved for the REPAIRED code (D18): on the pinned
   tree case (a) was false -- cx1, replayed 200/200 on the Go library, now a
   regression example. *)
Theorem C05 : C05_alt_statement.
Proof. exact C05_alt_proof. Qed.
Print Assumptions C05.

(* the scenario that refuted case (a) on the pinned tree (D18) now succeeds under all orders *)
Theorem C05_d18_regression : forall t fg tr,
  full_graph cx1_u cx1_f cx1_b false t = Ok (inl fg, tr) ->
  c05_alt_premise cx1_u fg = true ->
  (exists r, call cx1_u all_ok cx1_f [] cx1_opts world0 t = Ok r /\ co_ok (co_of_run r) = true) \/
  (exists s, call cx1_u all_ok cx1_f [] cx1_opts world0 t = TapeErr s).
Proof. exact cx1_all_orders. Qed.
Print Assumptions C05_d18_regression.

(* without transitivity of implements the statement as first written is false (model-only) *)
Theorem C05_untransitive_refuted : ~ C05_statement.
Proof. exact C05_refuted_proof. Qed.
Print Assumptions C05_untransitive_refuted.

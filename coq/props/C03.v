(* C03 -- Exact matches win: no conversion when direct inputs satisfy every parameter. *)
From ArgMapper Require Import Base Types Args Resolver ResolverSpec Monitors ResolverStatements.
From ArgMapper.proofs Require Import C03Exact.

(* For every well-formed call in which every parameter of the target has an
   exactly matching supplied value, and EVERY order tape: the trace is the
   single execution of the target, every named parameter receives exactly
   the same-named supplied value and every type-only parameter a supplied
   value of exactly its type -- whatever other values, converters, providers
   and generators are supplied (c03_ok, also evaluated on implementation
   traces; a converter generator that reports an error fails the call before
   anything runs, c03_ok accounts for that).  One hypothesis added w.r.t.
   ResolverStatements.C03_statement, forced by the documented FuncOnce
   semantics: the target itself is not a memoized run-once function. *)
Theorem C03 : C03_alt_statement.
Proof. exact C03_alt_proof. Qed.
Print Assumptions C03.

(* such a call never panics and never runs out of fuel (no size bound) *)
Theorem C03_total : C03_total_statement.
Proof. exact C03_total_proof. Qed.
Print Assumptions C03_total.

(* the excluded situation is real: the unrestricted statement is false *)
Theorem C03_unrestricted_refuted : ~ C03_statement.
Proof. exact C03_statement_false. Qed.
Print Assumptions C03_unrestricted_refuted.

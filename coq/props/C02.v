(* C02 -- Unsatisfiable calls are refused: error returned, target never run. *)
From ArgMapper Require Import Base Graph GraphAlg Types Args Resolver ResolverSpec Monitors ResolverStatements.
From ArgMapper.proofs Require Import C0213UnsatC02 C0213Unsat.

(* Full statement of ResolverStatements.C02_statement under ONE stated domain
   bound: the call graph has fewer than (2^63-1)/20 vertices (so that the
   64-bit distances of the model's -- and the code's -- Dijkstra cannot wrap;
   no real call graph comes near).  If the target is not derivable (AND-OR
   derivability over the full graph; memoized run-once functions count as
   providers) then the call is an error, the target does not run, and when
   every converter is satisfiable the error is the unsatisfied-argument
   error. *)
Theorem C02 : C02_partial_statement.
Proof. exact C02_partial_proof. Qed.
Print Assumptions C02.

(* the part decided at graph construction needs no bound at all *)
Theorem C02_construction : C02_partial_construction_statement.
Proof. exact C02_partial_construction_proof. Qed.
Print Assumptions C02_construction.

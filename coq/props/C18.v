(* C18 -- Shortest-path search returns exact distances and real paths.
   Property theorems only; proofs live in proofs/C18Dijkstra*.v. *)
From ArgMapper Require Import Base Graph GraphAlg GraphSpec GraphStatements.
From ArgMapper.proofs Require Import C18Dijkstra.

(* full statement: see GraphStatements.C18_statement.  Domain bound, stated
   in the theorem: total edge weight below the representable infinity
   (distances are Go ints after the D13 repair). *)
Theorem C18 : forall (K : Type) (E : EqDec K) (V : Type), @C18_statement K E V.
Proof. exact C18_proof. Qed.
Print Assumptions C18.

Theorem C18_total : forall (K : Type) (E : EqDec K) (V : Type), @C18_total_statement K E V.
Proof. exact C18_total_proof. Qed.
Print Assumptions C18_total.

(* non-vacuity: a concrete cyclic graph with a zero-weight edge meets the domain *)
Local Open Scope Z_scope.
Definition ex_g : graph Z Z :=
  let g := fold_left (fun g k => g_add g k k) [0; 1; 2; 3] g_empty in
  fold_left (fun g e => let '(a, b, w) := e in match g_add_edge g a b w with Some g' => g' | None => g end)
            [(0, 1, 2); (1, 2, 0); (2, 0, 5); (0, 2, 3)] g.
Example C18_nonvacuous :
  exists d p, dijkstra ex_g 0 [0; 1; 2; 3] = Ok (d, p) /\ lookup 2 d = Some 2 /\ lookup 3 d = Some INF.
Proof. eexists; eexists; split; [vm_compute; reflexivity|split; reflexivity]. Qed.

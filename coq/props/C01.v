(* C01 -- Every injected value is a label- and type-correct binding, never fabricated. *)
From ArgMapper Require Import Base Types Args Resolver ResolverSpec Monitors ResolverStatements.
From ArgMapper.proofs Require Import C01LabelsDefs C01Labels.

(* For every universe without mutually implementing types, every well-formed
   call, every world whose memoized results are attributable and well typed,
   and EVERY order tape: each execution of the run receives, for each
   declared parameter, a value that was supplied or returned by an earlier
   execution, with a label compatible under the matching table and an
   assignable type (c01_ok -- the predicate also evaluated on the
   implementation's traces); the memo invariant is preserved, so the
   statement chains over histories of calls.
   Added hypotheses w.r.t. ResolverStatements.C01_statement, each a named
   definition: impl_acyclic (see the refutation below), few_results (< 1000
   results per function: the harness' value-id scheme), world_typed,
   small_graph (20 * |V| < MaxInt: Dijkstra distances do not wrap). *)
Theorem C01 : C01_alt_statement.
Proof. exact C01_alt_proof. Qed.
Print Assumptions C01.

Theorem C01_typed_preserved : C01_alt_typed_statement.
Proof. exact C01_alt_typed_proof. Qed.
Print Assumptions C01_typed_preserved.

(* Without impl_acyclic the statement is FALSE of the model, and of the Go
   library (known finding D17, replayed by witness TestKnownD17): two
   interface types that implement each other let a value labelled
   (I1, subtype a) reach a parameter (I1, subtype b). *)
Theorem C01_refuted_mutual_interfaces : ~ C01_statement.
Proof. exact C01_refuted_mutual_ifaces. Qed.
Print Assumptions C01_refuted_mutual_interfaces.

(* over histories of Calls and Redefines (one well-formed function list for
   the whole history, the per-call hypotheses of theorem C01 for every Call):
   every execution anywhere in the history receives supplied or previously
   produced, label-compatible, assignable values -- memoized results hand out
   values produced earlier in the history *)
From ArgMapper Require Import HistoryStatements.
From ArgMapper.proofs Require Import C01Hist.
Theorem C01_history : C01_history_statement.
Proof. exact C01_history_proof. Qed.
Print Assumptions C01_history.

(* C10 -- Convert agrees with calling an identity function of the target type. *)
From ArgMapper Require Import Base Types Args Resolver ResolverStatements.
From ArgMapper.proofs Require Import C10C16Opts.
Theorem C10 : C10_statement.
Proof. exact C10_proof. Qed.
Print Assumptions C10.

(* C08 -- Redefine yields a callable function over exactly the missing, permitted inputs. *)
From ArgMapper Require Import Base Graph GraphAlg Types Args Resolver ResolverSpec Monitors Monitors2 ResolverStatements ResolverStatements2.
From ArgMapper Require Import ResolverStatements4.
From ArgMapper.proofs Require Import C08Redefine C08Succeeds.

(* On the domain of the property (no subtypes; the proofs do not even need
   the single-input and one-type-per-name restrictions) and for every tape:
   Redefine fails with the output-filter error exactly when an output is
   rejected by the output filter; when it succeeds, every input of the
   redefined function passes the input filter and none of them is keyed like
   a value the caller supplied.  Stated bound for the input-filter clause:
   the call graph has fewer than (2^63-1)/20 vertices. *)
Theorem C08 : C08_alt_statement.
Proof. exact C08_alt_proof. Qed.
Print Assumptions C08.

(* without the bound: the output-filter clause and "not keyed like a supplied value" *)
Theorem C08_unbounded : C08_partial_statement.
Proof. exact C08_partial_proof. Qed.
Print Assumptions C08_unbounded.

(* "Redefine succeeds whenever every target parameter is itself permitted by
   the input filter": on the property's domain, from a fresh world and for
   EVERY order tape, if no output is rejected and every parameter's type
   passes the input filter (or there is none), Redefine returns a function;
   the only other outcome is the error of a failing converter generator
   (the caller's).  Bound: fewer than (2^63-1)/20 vertices. *)
Theorem C08_succeeds : C08_succeeds_statement.
Proof. exact C08_succeeds_proof. Qed.
Print Assumptions C08_succeeds.

(* The remaining clause of the property -- calling the redefined function
   with a value for each declared input never fails for lack of an argument
   and yields the original function's results -- is decided by the
   correspondence check (stream redefstrict: the model of the redefined
   function's call is compared with the implementation) and by the monitor
   c08_monitor on the implementation's observations; statement
   C08_callable_statement in ResolverStatements3.v. *)

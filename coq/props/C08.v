(* C08 -- Redefine yields a callable function over exactly the missing, permitted inputs. *)
From ArgMapper Require Import Base Graph GraphAlg Types Args Resolver ResolverSpec Monitors Monitors2 ResolverStatements ResolverStatements2.
From ArgMapper Require Import ResolverStatements3 ResolverStatements4.
From ArgMapper.proofs Require Import C08Redefine C08Succeeds C08Callable C08NonVacuous FilterLaws.

(* On the domain of the property (no subtypes; the proofs do not even need
   the single-input and one-type-per-name restrictions) and for every tape:
   Redefine fails with the output-filter error exactly when an output is
   rejected by the output filter; when it succeeds, every input of the
   redefined function passes the input filter and none of them is keyed like
   a value the caller supplied.  Stated bound for the input-filter clause:
   the call graph has fewer than (2^63-1)/20 vertices. *)
Theorem C08 : C08_alt_statement.
Proof. exact C08_alt_proof. Qed.
Print Assumptions C08.

(* without the bound: the output-filter clause and "not keyed like a supplied value" *)
Theorem C08_unbounded : C08_partial_statement.
Proof. exact C08_partial_proof. Qed.
Print Assumptions C08_unbounded.

(* "Redefine succeeds whenever every target parameter is itself permitted by
   the input filter": on the property's domain, from a fresh world and for
   EVERY order tape, if no output is rejected and every parameter's type
   passes the input filter (or there is none), Redefine returns a function;
   the only other outcome is the error of a failing converter generator
   (the caller's).  Bound: fewer than (2^63-1)/20 vertices. *)
Theorem C08_succeeds : C08_succeeds_statement.
Proof. exact C08_succeeds_proof. Qed.
Print Assumptions C08_succeeds.

(* "Calling the returned function with a value for each declared input never
   fails for lack of an argument and yields the original function's own
   results": on the property's domain, from a fresh world, when Redefine
   succeeds with inputs `ins`, the original Call with the Redefine options
   plus one value of the declared type per declared input -- what the body of
   the redefined function does -- returns, for EVERY order tape, every
   behaviour of the user functions and every choice of values, the target's
   own result or the error of a failing converter: never the
   unsatisfied-argument error, the internal missing-argument error or a build
   error.  Side conditions as in C05: transitive implements relation, fewer
   than (2^63-1)/20 vertices.  (That the outer, synthesised struct function
   hands its fields to this call unchanged is checked by the correspondence
   on the callredef operations, D20.) *)
Theorem C08_callable : C08_callable_statement.
Proof. exact C08_callable_proof. Qed.
Print Assumptions C08_callable.

(* the premises are satisfiable: a scenario recorded from the Go library *)
Theorem C08_nonvacuous :
  (exists b, build_args [] nv_opts = Some b /\ wf_call nv_u nv_f b = true /\ c08_domain nv_u nv_f b = true /\
             outputs_permitted nv_u nv_f b = true) /\
  nv_redefine_ok = true /\ nv_call_ok = true.
Proof. exact C08_premises_satisfiable. Qed.
Print Assumptions C08_nonvacuous.

(* "Permitted" is decided by a FilterFunc over the whole Value (name, type,
   subtype): the combinators of filter.go plus the tests a caller-written
   filter can make on Value.Name / Value.Subtype (FltName, FltSub).  For
   every universe, every value and filter lists of any length and nesting:
   FilterOr(fs...) permits a value exactly when some member does (so
   FilterOr() permits nothing), FilterAnd(fs...) exactly when every member
   does (so FilterAnd() -- and the nil filter of the model -- permits
   everything).  Further laws (flattening, absorption, insensitivity to
   order and repetition): proofs/FilterLaws.v. *)
Theorem C08_filter_or : forall u fs n t s,
  flt_okv u (FltOr fs) n t s = true <-> exists f, List.In f fs /\ flt_okv u f n t s = true.
Proof. exact flt_or_spec. Qed.
Print Assumptions C08_filter_or.

Theorem C08_filter_and : forall u fs n t s,
  flt_okv u (FltAnd fs) n t s = true <-> forall f, List.In f fs -> flt_okv u f n t s = true.
Proof. exact flt_and_spec. Qed.
Print Assumptions C08_filter_and.

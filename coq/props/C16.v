(* C16 -- Options: case-insensitive names, last wins, call overrides default, nil-safe. *)
From ArgMapper Require Import Base Types Args Resolver ResolverStatements.
From ArgMapper.proofs Require Import C10C16Opts.
Theorem C16 : C16_statement.
Proof. exact C16_proof. Qed.
Print Assumptions C16.

(* C04 -- A failing converter aborts the call and its error is returned verbatim. *)
From ArgMapper Require Import Base Types Args Resolver ResolverSpec Monitors ResolverStatements.
From ArgMapper.proofs Require Import C04Errors.

(* clause 1, unconditional: in every run of the model a failing execution is
   the LAST event, its error is what the call returns, and a result without
   error executed no failing function (c04_ok, the predicate also evaluated
   on the implementation's traces) *)
Theorem C04_errors : C04_errors_statement.
Proof. exact C04_errors_proof. Qed.
Print Assumptions C04_errors.

(* both clauses under well-formed use: additionally a resolution failure
   never runs the target *)
Theorem C04 : C04_wf_statement.
Proof. exact C04_wf_proof. Qed.
Print Assumptions C04.

(* the statement as first written (no well-formedness hypothesis) is false of
   the model: a converter that reuses the target's id with another Go type *)
Theorem C04_unrestricted_refuted : ~ C04_statement.
Proof. exact C04_counterexample. Qed.
Print Assumptions C04_unrestricted_refuted.

(* Over histories (any sequence of Call and Redefine on shared functions, from
   an empty memo table, one declaration per function id): every Call satisfies
   c04_ok, and the function error a call returns was returned by an execution
   of THIS call or is the memoized error of a run-once function that failed
   earlier in the history (Monitors.c04_error_origin, also evaluated on the
   implementation). *)
From ArgMapper Require Import HistoryStatements HistoryStatements2.
From ArgMapper.proofs Require C0417Hist.
Theorem C04_history : C04_history_statement.
Proof. exact C0417Hist.C04_history_proof. Qed.
Print Assumptions C04_history.

(* C15 -- see ValueSetStatements.v for the statement. *)
From ArgMapper Require Import Base Types ValueSet CheckValueSet ValueSetStatements.
From ArgMapper.proofs Require Import C141517VS.
Theorem C15 : C15_statement.
Proof. exact C15_proof. Qed.
Print Assumptions C15.

(* C20 -- Traversals and orderings are exact: reachability (DFS),
   topological order (Kahn), components (Tarjan), topological shortest
   paths.  Property theorems only. *)
From ArgMapper Require Import Base Graph GraphAlg GraphSpec GraphStatements.
From ArgMapper.proofs Require Import C20aDfs C20bKahn C20cTarjan.

Theorem C20a : forall (K : Type) (E : EqDec K) (V : Type), @C20a_statement K E V.
Proof. exact C20a_proof. Qed.
Print Assumptions C20a.
Theorem C20a_abort : forall (K : Type) (E : EqDec K) (V : Type), @C20a_abort_statement K E V.
Proof. exact C20a_abort_proof. Qed.
Print Assumptions C20a_abort.
Theorem C20a_total : forall (K : Type) (E : EqDec K) (V : Type), @C20a_total_statement K E V.
Proof. exact C20a_total_proof. Qed.
Print Assumptions C20a_total.
Theorem C20b : forall (K : Type) (E : EqDec K) (V : Type), @C20b_statement K E V.
Proof. exact C20b_proof. Qed.
Print Assumptions C20b.
Theorem C20c : forall (K : Type) (E : EqDec K) (V : Type), @C20c_statement K E V.
Proof. exact C20c_proof. Qed.
Print Assumptions C20c.
Theorem C20c_total : forall (K : Type) (E : EqDec K) (V : Type), @C20c_total_statement K E V.
Proof. exact C20c_total_proof. Qed.
Print Assumptions C20c_total.
Theorem C20d : forall (K : Type) (E : EqDec K) (V : Type), @C20d_statement K E V.
Proof. exact C20d_proof. Qed.
Print Assumptions C20d.

(* C07 -- Documented conversion priorities: name affinity decides between equal candidates. *)
From ArgMapper Require Import Base Types Args Resolver ResolverSpec Monitors Monitors2 ResolverStatements ResolverStatements2.
From ArgMapper.proofs Require Import C07Affinity.
From ArgMapper Require Import ResolverStatements5.
From ArgMapper.proofs Require Import C07F3.

(* Family F1, for ANY number k of competing named inputs of type T, any
   names, any two distinct concrete types T and U, any form of the type-only
   converter (result type-only or named n), any behaviour and EVERY order
   tape: the converter runs and every execution of it receives exactly the
   supplied value whose name equals the parameter's name. *)
Theorem C07_f1 : C07_f1_statement.
Proof. exact C07_f1_proof. Qed.
Print Assumptions C07_f1.

(* Family F2: when a converter taking (n, T) BY NAME is also supplied (either
   registration order), it is the one executed and the type-only converter is
   not -- for every tape. *)
Theorem C07_f2 : C07_f2_statement.
Proof. exact C07_f2_proof. Qed.
Print Assumptions C07_f2.

(* Family F3: SEVERAL named parameters (n_1, U) .. (n_m, U), m >= 2, all
   produced by the same type-only converter T -> U from supplied named values
   of type T among which every n_i occurs (k >= m values, any order): for
   EVERY order tape and every behaviour, whenever the target executes its
   i-th argument is a result of an execution of the converter whose argument
   was exactly the supplied value named n_i; the converter never receives a
   value named unlike every parameter; without failing functions the call
   succeeds. *)
Theorem C07_f3 : C07_f3_statement.
Proof. exact C07_f3_proof. Qed.
Print Assumptions C07_f3.

(* non-vacuity: a concrete family instance meets f1_ok *)
Local Open Scope Z_scope.
Local Open Scope string_scope.
Example C07_nonvacuous :
  f1_ok (mkF1 (mkU [] []) "a" 1 2
              (mkFn 1 100 FStruct [mkF "a" 2 ""] FPos [mkF "" 3 ""] false false)
              (mkFn 2 101 FPos [mkF "" 1 ""] FPos [mkF "" 2 ""] true false)
              [("b", mkV 11 1); ("a", mkV 12 1); ("c", mkV 13 1)]) = true.
Proof. vm_compute. reflexivity. Qed.
Example C07_f3_nonvacuous :
  f3_ok (mkF3 (mkU [] []) 1 2
              (mkFn 1 100 FStruct [mkF "b" 2 ""; mkF "a" 2 ""] FPos [mkF "" 3 ""] false false)
              (mkFn 2 101 FPos [mkF "" 1 ""] FPos [mkF "" 2 ""] true false)
              [("a", mkV 11 1); ("c", mkV 12 1); ("b", mkV 13 1)]) = true.
Proof. vm_compute. reflexivity. Qed.

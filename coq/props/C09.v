(* C09 -- Redefine is pure planning: it runs no user code and disturbs no function. *)
From ArgMapper Require Import Base Types Args Resolver ResolverStatements.
From ArgMapper.proofs Require Import C0911Once.
Theorem C09 : C09_statement.
Proof. exact C09_proof. Qed.
Print Assumptions C09.

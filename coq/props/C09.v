(* C09 -- Redefine is pure planning: it runs no user code and disturbs no function. *)
From ArgMapper Require Import Base Types Args Resolver ResolverStatements.
From ArgMapper.proofs Require Import C0911Once.
Theorem C09 : C09_statement.
Proof. exact C09_proof. Qed.
Print Assumptions C09.

(* over histories: erasing the Redefine operations of ANY history of Calls and
   Redefines changes nothing for the Calls -- same outcomes, traces, worlds *)
From ArgMapper Require Import HistoryStatements.
From ArgMapper.proofs Require Import C0911Hist.
Theorem C09_history : C09_history_statement.
Proof. exact C09_history_proof. Qed.
Print Assumptions C09_history.

(* C19 -- Graph mutations keep the edge structure consistent; copies are
   independent; reversed views share state.  Property theorem only. *)
From ArgMapper Require Import Base Graph GraphAlg GraphHist GraphSpec GraphStatements.
From ArgMapper.proofs Require Import C19Refine ReverseLaws.

Theorem C19 : forall (K : Type) (E : EqDec K) (V : Type), @C19_statement K E V.
Proof. exact C19_proof. Qed.
Print Assumptions C19.

(* non-vacuity: a history with a copy and a reversed view *)
Local Open Scope Z_scope.
Example C19_nonvacuous :
  ops_ok 0 [ONew; OAdd 0 1 1; OAdd 0 2 2; OAddEdge 0 1 2 5; OReverse 0; OCopy 0; OAddEdge 1 1 2 7; ORemove 2 1 : gop Z Z].
Proof. simpl. repeat split; auto with arith. Qed.

(* What a reversed view IS, for every graph that satisfies the representation
   invariant (C19 shows every history of mutators keeps it), of any size:
   reversing twice gives the graph back, the view keeps the invariant, and a
   vertex b is reachable from a in the graph exactly when a is reachable from
   b in the view -- with the same walk weights, hence the same shortest
   distances.  (The resolver plans on the reversed call graph; C01/C05 use
   the edge-level fact, these are the walk-level ones.) *)
Theorem C19_reverse_involutive : forall (K V : Type) (g : graph K V), g_reverse (g_reverse g) = g.
Proof. exact (fun K V => @reverse_involutive K V). Qed.
Print Assumptions C19_reverse_involutive.

Theorem C19_reverse_reach : forall (K : Type) (E : EqDec K) (V : Type) (g : graph K V) a b,
  wf_graph g -> (reach g a b <-> reach (g_reverse g) b a).
Proof. exact (fun K E V => @reverse_reach K E V). Qed.
Print Assumptions C19_reverse_reach.

Theorem C19_reverse_min_dist : forall (K : Type) (E : EqDec K) (V : Type) (g : graph K V) a b d,
  wf_graph g -> (min_dist g a b d <-> min_dist (g_reverse g) b a d).
Proof. exact (fun K E V => @reverse_min_dist K E V). Qed.
Print Assumptions C19_reverse_min_dist.

Theorem C19_reverse_acyclic : forall (K : Type) (E : EqDec K) (V : Type) (g : graph K V),
  wf_graph g -> (acyclic g <-> acyclic (g_reverse g)).
Proof. exact (fun K E V => @reverse_acyclic K E V). Qed.
Print Assumptions C19_reverse_acyclic.

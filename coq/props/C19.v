(* C19 -- Graph mutations keep the edge structure consistent; copies are
   independent; reversed views share state.  Property theorem only. *)
From ArgMapper Require Import Base Graph GraphAlg GraphHist GraphSpec GraphStatements.
From ArgMapper.proofs Require Import C19Refine.

Theorem C19 : forall (K : Type) (E : EqDec K) (V : Type), @C19_statement K E V.
Proof. exact C19_proof. Qed.
Print Assumptions C19.

(* non-vacuity: a history with a copy and a reversed view *)
Local Open Scope Z_scope.
Example C19_nonvacuous :
  ops_ok 0 [ONew; OAdd 0 1 1; OAdd 0 2 2; OAddEdge 0 1 2 5; OReverse 0; OCopy 0; OAddEdge 1 1 2 7; ORemove 2 1 : gop Z Z].
Proof. simpl. repeat split; auto with arith. Qed.

(* HistoryStatements2.v -- history-level forms of C04 and C17 on the resolver
   model: the monitors that ./check evaluates on the implementation's
   observations (Monitors.c04_error_origin, Monitors2.c17_monitor) hold for
   every history of the model.  Statements only; proofs in
   proofs/C0417Hist*.v. *)
From ArgMapper Require Import Base Graph GraphAlg Types Args Resolver ResolverSpec CheckResolver Monitors Monitors2
     ResolverStatements HistoryStatements.
Set Implicit Arguments.
Local Open Scope Z_scope.

(* one declaration per function id over the whole history *)
Definition ids_consistent (ops : list hop) : Prop :=
  forall o o' h h', In o ops -> In o' ops -> In h (hop_funcs o) -> In h' (hop_funcs o') ->
                    fn_id h = fn_id h' -> h = h'.

(* ---------- C04 over histories ----------
   Every Call of the history satisfies c04_ok (a failing execution is the last
   event and its error is what the call returns; a result without error
   executed no failing function), and the function error a call returns was
   returned by an execution of THIS call or is the memoized error of a
   run-once function that failed earlier in the history. *)
Fixpoint c04_history (earlier : list event) (ops : list hop) (rs : list run) : bool :=
  match ops, rs with
  | (HCall f d opts _ as o) :: ops, r :: rs =>
      c04_ok f (co_of_run r) && c04_error_origin (hop_funcs o) earlier (co_of_run r) &&
      c04_history (earlier ++ run_trace r) ops rs
  | HRedefine _ _ _ _ :: ops, r :: rs => c04_history (earlier ++ run_trace r) ops rs
  | _, _ => true
  end.
Definition C04_history_statement : Prop :=
  forall u bh ops rs,
    hist_run u bh world0 ops = Ok rs -> ids_consistent ops ->
    c04_history [] ops rs = true.

(* ---------- C17 over histories ----------
   The raw outputs of every successful Call are what the target's body
   returned: in this operation, or -- for a memoized run-once target --
   in an earlier one; in particular a successful call has executed its
   target at some point of the history. *)
Definition obs_of_run (f : fdecl) (r : run) : option (Z * list (list Z)) :=
  match run_out r with
  | OOk res => match r_err res with None => Some (raw_outs f res) | Some _ => None end
  | OErr _ => None
  end.
Fixpoint c17_history (earlier : list event) (ops : list hop) (rs : list run) : bool :=
  match ops, rs with
  | HCall f d opts _ :: ops, r :: rs =>
      (match obs_of_run f r with
       | Some (len, outs) =>
           match last_exec_outs (fn_id f) (earlier ++ run_trace r) with
           | Some vs => let (l, os) := raw_of_event f vs in (l =? len) && Base.eqb os outs
           | None => false
           end
       | None => true
       end) && c17_history (earlier ++ run_trace r) ops rs
  | HRedefine _ _ _ _ :: ops, r :: rs => c17_history (earlier ++ run_trace r) ops rs
  | _, _ => true
  end.
Definition C17_history_statement : Prop :=
  forall u bh ops rs,
    hist_run u bh world0 ops = Ok rs -> ids_consistent ops ->
    c17_history [] ops rs = true.
(* and a failed resolution has no outputs: OErr carries none by construction
   (outcome is a sum type); the length-0 clause is checked on the
   implementation by c17_monitor *)
